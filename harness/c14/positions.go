package c14

import (
	"fmt"
	"math"
	"regexp"
	"sort"
	"strconv"
	"strings"

	"verif/core"
)

// Program is one generated bundle (one Soy file) with the literal s planted at
// one position inside one command context, and what calling its entry template
// must return.
type Program struct {
	ID     int       `json:"id"`
	NS     string    `json:"ns"`
	Pos    string    `json:"pos"`   // position name
	Class  string    `json:"class"` // position class (signature)
	Wrap   string    `json:"wrap"`  // command context
	S      string    `json:"s"`     // the literal's intended characters
	Expect string    `json:"expect"`
	File   core.File `json:"file"`
	// Extra are further files of the bundle (same namespace, loaded after File).
	Extra []core.File `json:"extra,omitempty"`
	// Globals given through Bundle.AddGlobalsMap (JSON-able values; strings raw).
	Globals map[string]interface{} `json:"globals,omitempty"`
	// GlobalsText, when set, is parsed with soy.ParseGlobals instead.
	GlobalsText string                 `json:"globalsText,omitempty"`
	Data        map[string]interface{} `json:"data"`
	Templates   []string               `json:"templates"` // qualified names the file defines
	// Before, when set, is an EARLIER version of File (same name): a Generator is created on the
	// registry compiled from it, asked for the file once, then the registry is updated in place
	// with the compilation of File (what the WatchFiles recompiler does) and asked again.
	Before *core.File `json:"before,omitempty"`
	// JSOnly: the expected text is defined by the JavaScript library (a function or directive that
	// the Go renderer lacks or spells differently); the Go rendering is not consulted.
	JSOnly bool `json:"jsOnly,omitempty"`
	// AnyOutput: only validity is judged (parses, templates defined, no ReferenceError when called).
	AnyOutput bool `json:"anyOutput,omitempty"`
	// Translation, when set, is the text the message catalogue gives for the
	// file's only message (position msg-translation).
	Translation *string `json:"translation,omitempty"`
}

type gen struct {
	ns          string
	params      map[string]bool
	data        map[string]interface{}
	globals     map[string]interface{}
	gtext       string
	needEcho    bool
	needOther   bool // a second FILE in the same namespace defines .other
	needSibling bool // a second FILE in a namespace that shares only the root segment defines .sib
	transl      *string
}

func (g *gen) use(p string, v interface{}) {
	g.params[p] = true
	if v != nil {
		g.data[p] = v
	}
}

// position plants s somewhere; it returns the body fragment and what the
// fragment prints. ok=false: s cannot legally appear at this position.
type position struct {
	name  string
	class string
	inMsg bool // the fragment may stand inside {msg}
	build func(s string, g *gen) (frag, expect string, ok bool)
}

func hasAny(s, chars string) bool { return strings.ContainsAny(s, chars) }

func q(s string) string { return core.QuoteSoy(s) }

// qAuto quotes s with the readable spelling unless s has characters that the
// surrounding syntax cannot carry raw (NUL, braces inside {css}, ...).
func qAuto(s string, avoid string) string {
	if strings.ContainsRune(s, 0) || (avoid != "" && hasAny(s, avoid)) {
		return QuoteSoyU(s)
	}
	return q(s)
}

// attr spells text as a double-quoted command attribute value.
func attr(text string) string { return strconv.Quote(text) }

var positions = []position{
	{"rawtext", "raw-text", true, func(s string, g *gen) (string, string, bool) {
		r, ok := RawSoy(s)
		return r, s, ok
	}},
	{"literal", "raw-text", true, func(s string, g *gen) (string, string, bool) {
		if s == "" || strings.Contains(s, "{/literal}") || strings.ContainsRune(s, 0) {
			return "", "", false
		}
		return "{literal}" + s + "{/literal}", s, true
	}},
	{"strlit", "string-literal", true, func(s string, g *gen) (string, string, bool) {
		return "{" + qAuto(s, "") + "}", s, true
	}},
	{"strlit-u", "string-literal", true, func(s string, g *gen) (string, string, bool) {
		return "{" + QuoteSoyU(s) + "}", s, true
	}},
	{"strlit-concat", "string-literal", true, func(s string, g *gen) (string, string, bool) {
		return "{'' + " + qAuto(s, "") + " + ''}", s, true
	}},
	{"strlit-ternary", "string-literal", true, func(s string, g *gen) (string, string, bool) {
		return "{true ? " + qAuto(s, "") + " : 'no'}", s, true
	}},
	{"strlit-elvis", "string-literal", true, func(s string, g *gen) (string, string, bool) {
		return "{null ?: " + qAuto(s, "") + "}", s, true
	}},
	{"print-directive-value", "string-literal", true, func(s string, g *gen) (string, string, bool) {
		if len(s) > 900 {
			return "", "", false
		}
		return "{" + qAuto(s, "") + " |truncate:1000}", s, true
	}},
	{"directive-arg", "directive-arg", true, func(s string, g *gen) (string, string, bool) {
		return "{'v' |verifArg:" + qAuto(s, "") + "}", s, true
	}},
	{"function-arg", "string-literal", true, func(s string, g *gen) (string, string, bool) {
		g.use("x", "<<"+s+">>")
		return "{strContains($x, " + qAuto(s, "") + ") ? 'hit' : 'miss'}", "hit", true
	}},
	{"mapkey", "map-key", false, func(s string, g *gen) (string, string, bool) {
		return "{foreach $k in keys([" + qAuto(s, "") + ": 1])}{$k}{/foreach}", s, true
	}},
	{"mapkey-lookup", "map-key", false, func(s string, g *gen) (string, string, bool) {
		if s == "other" {
			return "", "", false
		}
		return "{let $mm: [" + qAuto(s, "") + ": 'hit', 'other': 'miss']/}{$mm[" + qAuto(s, "") + "]}", "hit", true
	}},
	{"mapvalue", "string-literal", false, func(s string, g *gen) (string, string, bool) {
		return "{let $mv: ['k': " + qAuto(s, "") + ", 'j': 1]/}{$mv.k}", s, true
	}},
	{"listitem", "string-literal", false, func(s string, g *gen) (string, string, bool) {
		return "{foreach $it in [" + qAuto(s, "") + "]}{$it}{/foreach}", s, true
	}},
	{"css-name", "css-name", true, func(s string, g *gen) (string, string, bool) {
		if s == "" || hasAny(s, "{},\n\r\x00") || strings.TrimSpace(s) != s {
			return "", "", false
		}
		return "{css " + s + "}", s, true
	}},
	{"css-name-after-var", "css-name", true, func(s string, g *gen) (string, string, bool) {
		// the suffix after a component expression: the last comma separates the two
		if s == "" || hasAny(s, "{},\n\r\x00") || strings.TrimSpace(s) != s {
			return "", "", false
		}
		g.use("cx", "pre")
		return "{css $cx, " + s + "}", "pre-" + s, true
	}},
	{"css-name-after-literal", "css-name", true, func(s string, g *gen) (string, string, bool) {
		if s == "" || hasAny(s, "{},\n\r\x00") || strings.TrimSpace(s) != s {
			return "", "", false
		}
		return "{css 'lit', " + s + "}", "lit-" + s, true
	}},
	{"css-prefix", "css-prefix", true, func(s string, g *gen) (string, string, bool) {
		return "{css " + qAuto(s, "{}\n\r") + ", suf-fix}", s + "-suf-fix", true
	}},
	{"msg-text", "msg-text", false, func(s string, g *gen) (string, string, bool) {
		r, ok := RawSoy(s)
		if !ok || s == "" {
			return "", "", false
		}
		return `{msg desc="d"}` + r + `{/msg}`, s, true
	}},
	{"msg-html-tag", "msg-html-tag", false, func(s string, g *gen) (string, string, bool) {
		r, ok := RawSoy(s)
		if !ok || r != s || hasAny(s, ">") {
			return "", "", false // the tag must be one raw-text token
		}
		return `{msg desc="d"}go <a title="` + s + `">x</a>{/msg}`, `go <a title="` + s + `">x</a>`, true
	}},
	{"msg-plural-text", "msg-text", false, func(s string, g *gen) (string, string, bool) {
		r, ok := RawSoy(s)
		if !ok || s == "" {
			return "", "", false
		}
		g.use("n", 1)
		return `{msg desc="d"}{plural $n}{case 1}` + r + `{default}other{/plural}{/msg}`, s, true
	}},
	{"msg-translation", "msg-translation", false, func(s string, g *gen) (string, string, bool) {
		g.transl = &s
		return `{msg desc="d"}source text{/msg}`, s, true
	}},
	{"global-string", "global-string", true, func(s string, g *gen) (string, string, bool) {
		g.globals["GLOB_S"] = s
		return "{GLOB_S}", s, true
	}},
	{"global-parsed", "global-string", true, func(s string, g *gen) (string, string, bool) {
		g.gtext = "glob.parsed = " + qAuto(s, "") + "\n"
		return "{glob.parsed}", s, true
	}},
	{"global-mapkey", "map-key", false, func(s string, g *gen) (string, string, bool) {
		g.globals["GLOB_M"] = map[string]interface{}{s: 1}
		return "{foreach $k in keys(GLOB_M)}{$k}{/foreach}", s, true
	}},
	{"global-listitem", "global-string", false, func(s string, g *gen) (string, string, bool) {
		g.globals["GLOB_L"] = []interface{}{s, "z"}
		return "{foreach $it in GLOB_L}{$it}{/foreach}", s + "z", true
	}},
	{"param-value", "param-value", true, func(s string, g *gen) (string, string, bool) {
		g.needEcho = true
		return "{call .echo}{param p: " + qAuto(s, "") + "/}{/call}", s, true
	}},
	{"param-content", "raw-text", true, func(s string, g *gen) (string, string, bool) {
		r, ok := RawSoy(s)
		g.needEcho = true
		return "{call .echo}{param p}" + r + "{/param}{/call}", s, ok
	}},
	{"param-attr-value", "param-value", true, func(s string, g *gen) (string, string, bool) {
		g.needEcho = true
		return "{call .echo}{param key=\"p\" value=" + attr(QuoteSoyU(s)) + "/}{/call}", s, true
	}},
	{"call-data", "param-value", true, func(s string, g *gen) (string, string, bool) {
		g.needEcho = true
		return "{call .echo data=" + attr("['p': "+QuoteSoyU(s)+"]") + "/}", s, true
	}},
	{"let-value", "let-value", false, func(s string, g *gen) (string, string, bool) {
		return "{let $lv: " + qAuto(s, "") + "/}{$lv}", s, true
	}},
	{"let-content", "raw-text", false, func(s string, g *gen) (string, string, bool) {
		r, ok := RawSoy(s)
		return "{let $lc}" + r + "{/let}{$lc}", s, ok
	}},
	{"switch-case", "string-literal", false, func(s string, g *gen) (string, string, bool) {
		g.use("x", s)
		return "{switch $x}{case 'zz', " + qAuto(s, "") + "}hit{default}miss{/switch}", "hit", s != "zz"
	}},
	{"if-equals", "string-literal", false, func(s string, g *gen) (string, string, bool) {
		g.use("x", s)
		return "{if $x == " + qAuto(s, "") + "}hit{else}miss{/if}", "hit", true
	}},
	{"dataref-index", "string-literal", true, func(s string, g *gen) (string, string, bool) {
		if s == "__proto__" {
			return "", "", false
		}
		g.use("m", map[string]interface{}{s: "hit"})
		return "{$m[" + qAuto(s, "") + "]}", "hit", true
	}},
}

// non-string globals: position = the global's kind
type globalKind struct {
	name   string
	value  interface{}
	text   string // ParseGlobals spelling ("" = not expressible)
	expect string
}

var globalKinds = []globalKind{
	{"null", nil, "null", "null"},
	{"true", true, "true", "true"},
	{"false", false, "false", "false"},
	{"int0", 0, "0", "0"},
	{"int", 42, "42", "42"},
	{"negint", -7, "-7", "-7"},
	{"bigint", 9007199254740991, "9007199254740991", "9007199254740991"},
	{"float", 0.5, "0.5", "0.5"},
	{"negfloat", -2.25, "-2.25", "-2.25"},
	{"wholefloat", 3.0, "3.0", "3"},
	{"smallfloat", 0.000001, "0.000001", "0.000001"},
	{"bigfloat", 1e21, "", "1e+21"},
}

// numeric globals used under operators and inside collections
type numGlobal struct {
	name  string
	value interface{} // int or float64
	text  string      // ParseGlobals spelling
	arith bool        // exact under +/- 10 in float64 and printed positionally
}

var numGlobals = []numGlobal{
	{"int0", 0, "0", true}, {"int", 42, "42", true}, {"negint", -5, "-5", true}, {"negint1", -1, "-1", true},
	{"bigint", 9007199254740991, "9007199254740991", false}, {"negbigint", -9007199254740991, "-9007199254740991", false},
	{"float", 0.5, "0.5", true}, {"negfloat", -2.25, "-2.25", true}, {"wholefloat", 3.0, "3.0", true},
	{"negwholefloat", -4.0, "-4.0", true}, {"zerofloat", 0.0, "0.0", true}, {"negzerofloat", math.Copysign(0, -1), "", true},
	{"smallfloat", 0.000001, "0.000001", false}, {"negsmallfloat", -0.015625, "-0.015625", true},
	{"bigfloat", 1e21, "", false}, {"negbigfloat", -1e21, "", false},
}

// jsNum is what JavaScript's String() gives for x (for the values used here).
func jsNum(x float64) string {
	switch {
	case x == 0:
		return "0"
	case math.Abs(x) >= 1e21:
		s := strconv.FormatFloat(x, 'e', -1, 64) // 1e+21
		return strings.Replace(s, "e+0", "e+", 1)
	case x == math.Trunc(x):
		return strconv.FormatFloat(x, 'f', 0, 64)
	}
	return strconv.FormatFloat(x, 'f', -1, 64)
}

type numForm struct {
	name  string
	arith bool
	build func(v float64) (frag, expect string)
}

var numForms = []numForm{
	{"plain", false, func(v float64) (string, string) { return "{GLOB_K}", jsNum(v) }},
	{"negated", false, func(v float64) (string, string) { return "{-GLOB_K}", jsNum(-v) }},
	{"negated-twice", false, func(v float64) (string, string) { return "{-(-GLOB_K)}", jsNum(v) }},
	{"minus-right", true, func(v float64) (string, string) { return "{10 - GLOB_K}", jsNum(10 - v) }},
	{"minus-left", true, func(v float64) (string, string) { return "{GLOB_K - 10}", jsNum(v - 10) }},
	{"plus-right", true, func(v float64) (string, string) { return "{10 + GLOB_K}", jsNum(10 + v) }},
	{"minus-negated", true, func(v float64) (string, string) { return "{10 - -GLOB_K}", jsNum(10 + v) }},
	{"times", true, func(v float64) (string, string) { return "{2 * GLOB_K}", jsNum(2 * v) }},
	{"in-list", false, func(v float64) (string, string) {
		return "{foreach $i in [GLOB_K, -GLOB_K]}{$i};{/foreach}", jsNum(v) + ";" + jsNum(-v) + ";"
	}},
	{"in-map", false, func(v float64) (string, string) {
		return "{let $nm: ['a': GLOB_K, 'b': -GLOB_K]/}{$nm.a},{$nm.b}", jsNum(v) + "," + jsNum(-v)
	}},
	{"directive-arg", false, func(v float64) (string, string) { return "{'v' |verifArg:GLOB_K}", jsNum(v) }},
	{"directive-arg-negated", false, func(v float64) (string, string) { return "{'v' |verifArg:-GLOB_K}", jsNum(-v) }},
	{"comparison", true, func(v float64) (string, string) {
		return "{if -GLOB_K < 100 and GLOB_K > -100}in{else}out{/if}", "in"
	}},
	{"param-value", false, func(v float64) (string, string) { return "{call .echo}{param p: -GLOB_K/}{/call}", jsNum(-v) }},
}

// BuildNumGlobal builds the program that uses a numeric global in one form.
func BuildNumGlobal(id int, k numGlobal, f numForm, parsed bool, w wrapper) (*Program, bool) {
	if f.arith && !k.arith {
		return nil, false
	}
	g := &gen{ns: nsFor(id), params: map[string]bool{}, data: map[string]interface{}{}, globals: map[string]interface{}{}}
	pos := "global-" + k.name + "-" + f.name
	if parsed {
		if k.text == "" {
			return nil, false
		}
		g.gtext = "GLOB_K = " + k.text + "\n"
		pos += "-parsed"
	} else {
		g.globals["GLOB_K"] = k.value
	}
	var v float64
	switch x := k.value.(type) {
	case int:
		v = float64(x)
	case float64:
		v = x
	}
	frag, exp := f.build(v)
	if strings.Contains(frag, ".echo") {
		g.needEcho = true
	}
	body, exp := w.apply(frag, exp, g)
	return assemble(id, g, pos, "global-"+kindClass(k.name), w.name, k.text, body, exp), true
}

// wrapper puts a fragment into a command context.
type wrapper struct {
	name  string
	msg   bool // needs inMsg
	apply func(frag, expect string, g *gen) (string, string)
}

var wrappers = []wrapper{
	{"top", false, func(f, e string, g *gen) (string, string) { return f, e }},
	{"if", false, func(f, e string, g *gen) (string, string) { return "{if true}" + f + "{/if}", e }},
	{"else", false, func(f, e string, g *gen) (string, string) { return "{if false}no{else}" + f + "{/if}", e }},
	{"elseif", false, func(f, e string, g *gen) (string, string) {
		return "{if false}no{elseif 1 == 1}" + f + "{else}no{/if}", e
	}},
	{"switch-case", false, func(f, e string, g *gen) (string, string) {
		return "{switch 1}{case 0}no{case 1, 2}" + f + "{default}no{/switch}", e
	}},
	{"switch-default", false, func(f, e string, g *gen) (string, string) {
		return "{switch 'q'}{case 'p'}no{default}" + f + "{/switch}", e
	}},
	{"foreach", false, func(f, e string, g *gen) (string, string) {
		return "{foreach $w in [1, 2]}" + f + "{/foreach}", e + e
	}},
	{"ifempty", false, func(f, e string, g *gen) (string, string) {
		return "{foreach $w in []}no{ifempty}" + f + "{/foreach}", e
	}},
	{"for-range", false, func(f, e string, g *gen) (string, string) {
		return "{for $w in range(1, 3)}" + f + "{/for}", e + e
	}},
	{"let-content", false, func(f, e string, g *gen) (string, string) {
		return "{let $wl}" + f + "{/let}[{$wl}]", "[" + e + "]"
	}},
	{"param-content", false, func(f, e string, g *gen) (string, string) {
		g.needEcho = true
		return "{call .echo}{param p}" + f + "{/param}{/call}", e
	}},
	{"msg", true, func(f, e string, g *gen) (string, string) {
		return `{msg desc="w"}in ` + f + ` out{/msg}`, "in " + e + " out"
	}},
	{"plural", true, func(f, e string, g *gen) (string, string) {
		g.use("n", 3)
		return `{msg desc="w"}{plural $n}{case 1}one{case 3}` + f + `{default}no{/plural}{/msg}`, e
	}},
	{"log", false, func(f, e string, g *gen) (string, string) { return "{log}" + f + "{/log}done", "done" }},
	{"nested", false, func(f, e string, g *gen) (string, string) {
		return "{foreach $w in [1]}{if isFirst($w)}{switch index($w)}{case 0}{debugger}" + f + "{/switch}{/if}{/foreach}", e
	}},
	{"shared-namespace", false, func(f, e string, g *gen) (string, string) {
		g.needOther = true
		return "{call .other/}" + f + "{call .other/}", "[other]" + e + "[other]"
	}},
	{"sibling-namespace", false, func(f, e string, g *gen) (string, string) {
		g.needSibling = true
		return "{call " + rootOf(g.ns) + ".zsib.deep.sib/}" + f, "[sib]" + e
	}},
	{"between-quotes", false, func(f, e string, g *gen) (string, string) {
		return `a'"\` + f + `\"'b`, `a'"\` + e + `\"'b`
	}},
}

// fileNamePairs are (first file, second file) names that a lookup by name could confuse: equal
// base names in different directories, prefixes / suffixes of each other, "./", "..", "//",
// backslash, no extension, the empty name, letter case, Unicode.
var fileNamePairs = [][2]string{
	{"admin/index.soy", "shop/index.soy"}, {"shop/index.soy", "index.soy"}, {"index.soy", "admin/index.soy"},
	{"a.soy", "aa.soy"}, {"x/a.soy", "a.soy"}, {"a.soy", "x/a.soy"}, {"./a.soy", "a.soy"}, {"x//a.soy", "x/a.soy"},
	{"x\\a.soy", "a.soy"}, {"a", "a.soy"}, {"", "a.soy"}, {"a.soy", ""}, {"../a.soy", "a.soy"}, {"A.soy", "a.soy"},
	{"é.soy", "e.soy"}, {"dir/", "dir"}, {"a.soy.bak", "a.soy"}, {" a.soy", "a.soy"},
}

// fileNames names the files of program id: most programs keep <namespace>.soy; every third
// program takes a pair from fileNamePairs (the extras are renamed in place).
func fileNames(id int, ns string, extra []core.File) string {
	if id%3 != 0 {
		return ns + ".soy"
	}
	pair := fileNamePairs[(id/3)%len(fileNamePairs)]
	if len(extra) > 0 {
		extra[0].Name = pair[1]
	}
	return pair[0]
}

// nsFor gives program id its namespace. The root segment is unique to the
// program; the shapes cover one to four segments, a segment repeated, a later
// segment that occurs earlier as a substring, and a segment that is a prefix
// of a later one.
func nsFor(id int) string {
	switch id % 10 {
	case 1:
		return fmt.Sprintf("q%d.sub", id)
	case 2:
		return fmt.Sprintf("q%d.a.b.c", id)
	case 3:
		return fmt.Sprintf("q%d.views.q%d", id, id) // first segment again
	case 4:
		return fmt.Sprintf("myapp%d.views.app", id) // "app" occurs inside "myapp<id>"
	case 5:
		return fmt.Sprintf("n%d.two.n", id) // "n" occurs at the very start
	case 6:
		return fmt.Sprintf("x%d.x%d.x%d", id, id, id) // all segments equal
	case 7:
		return fmt.Sprintf("ab%d.ab%dc.ab%dcd", id, id, id) // each segment a prefix of the next
	case 8:
		return fmt.Sprintf("shop%d.admin.shop%d.ad", id, id) // two later segments occur earlier
	}
	return fmt.Sprintf("q%d", id)
}

// rootOf is the first segment of a namespace.
func rootOf(ns string) string { return strings.SplitN(ns, ".", 2)[0] }

// Build assembles the Soy file of one program.
func Build(id int, pos position, w wrapper, s string) (*Program, bool) {
	g := &gen{ns: nsFor(id), params: map[string]bool{}, data: map[string]interface{}{}, globals: map[string]interface{}{}}
	if w.msg && !pos.inMsg {
		return nil, false
	}
	frag, exp, ok := pos.build(s, g)
	if !ok {
		return nil, false
	}
	body, exp := w.apply(frag, exp, g)
	return assemble(id, g, pos.name, pos.class, w.name, s, body, exp), true
}

func assemble(id int, g *gen, pos, class, wrap, s, body, exp string) *Program {
	var ps []string
	for p := range g.params {
		ps = append(ps, p)
	}
	sort.Strings(ps)
	var b strings.Builder
	b.WriteString("{namespace " + g.ns + "}\n\n/**\n")
	for _, p := range ps {
		b.WriteString(" * @param? " + p + "\n")
	}
	b.WriteString(" */\n{template .main autoescape=\"false\"}" + body + "{/template}\n")
	tmpls := []string{g.ns + ".main"}
	if g.needEcho {
		b.WriteString("\n/** @param p */\n{template .echo autoescape=\"false\"}{$p}{/template}\n")
		tmpls = append(tmpls, g.ns+".echo")
	}
	var extra []core.File
	if g.needOther {
		extra = append(extra, core.File{Name: g.ns + "-2.soy",
			Text: "{namespace " + g.ns + "}\n\n/** */\n{template .other autoescape=\"false\"}[other]{/template}\n"})
		tmpls = append(tmpls, g.ns+".other")
	}
	if g.needSibling {
		sns := rootOf(g.ns) + ".zsib.deep"
		extra = append(extra, core.File{Name: g.ns + "-sib.soy",
			Text: "{namespace " + sns + "}\n\n/** */\n{template .sib autoescape=\"false\"}[sib]{/template}\n"})
		tmpls = append(tmpls, sns+".sib")
	}
	sort.Strings(tmpls)
	mainName := fileNames(id, g.ns, extra)
	return &Program{ID: id, NS: g.ns, Pos: pos, Class: class, Wrap: wrap, S: s, Expect: exp,
		File: core.File{Name: mainName, Text: b.String()}, Extra: extra, Globals: g.globals, GlobalsText: g.gtext,
		Data: g.data, Templates: tmpls, Translation: g.transl}
}

// BuildGlobalKind builds the program that prints a non-string global.
func BuildGlobalKind(id int, k globalKind, parsed bool, w wrapper) (*Program, bool) {
	g := &gen{ns: nsFor(id), params: map[string]bool{}, data: map[string]interface{}{}, globals: map[string]interface{}{}}
	pos := "global-" + k.name
	if parsed {
		if k.text == "" {
			return nil, false
		}
		g.gtext = "GLOB_K = " + k.text + "\n"
		pos += "-parsed"
	} else {
		g.globals["GLOB_K"] = k.value
	}
	body, exp := w.apply("{GLOB_K}", k.expect, g)
	return assemble(id, g, pos, "global-"+kindClass(k.name), w.name, k.text, body, exp), true
}

func kindClass(n string) string {
	switch {
	case strings.Contains(n, "float"):
		return "float"
	case strings.Contains(n, "int"):
		return "int"
	case n == "null":
		return "null"
	}
	return "bool"
}

// ---- round 4: expressions with an expression-indexed reference that is NOT
// in first position (after a literal / operand / function argument) ----------

// exprForm builds the Soy expression around the quoted literal qs and says
// what it evaluates to for the literal's value s (data: see indexedData).
type exprForm struct {
	name  string
	build func(qs string) string
	value func(s string) string
}

var exprForms = []exprForm{
	{"lit+idx", func(qs string) string { return qs + " + $arr[$i]" }, func(s string) string { return s + "v1" }},
	{"lit+idx+lit", func(qs string) string { return qs + " + $arr[$i + 0] + " + qs }, func(s string) string { return s + "v1" + s }},
	{"lit+nested-idx", func(qs string) string { return qs + " + $arr[$idx[$i]]" }, func(s string) string { return s + "v0" }},
	{"lit+nullsafe-idx", func(qs string) string { return qs + " + $arr?[$i]" }, func(s string) string { return s + "v1" }},
	{"lit+map-idx", func(qs string) string { return qs + " + $mp[$k + 'y'] + $mp[$k + 'z']" }, func(s string) string { return s + "mvmw" }},
	{"lit+func-of-idx", func(qs string) string { return qs + " + max($nums[$i], $nums[$z])" }, func(s string) string { return s + "2" }},
	{"idx+lit+idx", func(qs string) string { return "$arr[$z] + " + qs + " + $arr[$i]" }, func(s string) string { return "v0" + s + "v1" }},
	{"ternary-idx", func(qs string) string { return "$nums[$i] > $nums[$z] ? " + qs + " + $arr[$i] : $arr[$z]" }, func(s string) string { return s + "v1" }},
}

func indexedData(g *gen) {
	g.use("arr", []interface{}{"v0", "v1"})
	g.use("idx", []interface{}{1, 0})
	g.use("nums", []interface{}{0, 2})
	g.use("mp", map[string]interface{}{"ky": "mv", "kz": "mw"})
	g.use("i", 1)
	g.use("z", 0)
	g.use("k", "k")
}

// exprContext puts an expression e (value v) where the generator renders
// expressions: print, directive chains, {let}, {param}, data=, css base, if,
// switch, foreach list, message placeholder, bracket index.
type exprContext struct {
	name  string
	inMsg bool
	build func(e, v string, g *gen) (frag, expect string, ok bool)
}

var exprContexts = []exprContext{
	{"print", true, func(e, v string, g *gen) (string, string, bool) { return "{" + e + "}", v, true }},
	{"print-directives", true, func(e, v string, g *gen) (string, string, bool) {
		return "{" + e + " |noAutoescape |truncate:5000}", v, len(v) < 4000
	}},
	{"let-value", false, func(e, v string, g *gen) (string, string, bool) { return "{let $t: " + e + "/}{$t}", v, true }},
	{"param-value", true, func(e, v string, g *gen) (string, string, bool) {
		g.needEcho = true
		return "{call .echo}{param p: " + e + "/}{/call}", v, true
	}},
	{"call-data", true, func(e, v string, g *gen) (string, string, bool) {
		g.needEcho = true
		return "{call .echo data=" + attr("['p': "+e+"]") + "/}", v, true
	}},
	{"css-base", true, func(e, v string, g *gen) (string, string, bool) {
		return "{css " + e + ", suf}", v + "-suf", !hasAny(e, "{}\n\r")
	}},
	{"if-equals", false, func(e, v string, g *gen) (string, string, bool) {
		g.use("want", v)
		return "{if " + e + " == $want}hit{elseif $want == " + e + "}late{else}miss{/if}", "hit", true
	}},
	{"switch", false, func(e, v string, g *gen) (string, string, bool) {
		g.use("want", v)
		return "{switch " + e + "}{case 'zz', $want}hit{default}miss{/switch}", "hit", v != "zz"
	}},
	{"foreach-list", false, func(e, v string, g *gen) (string, string, bool) {
		return "{foreach $q in ['a', " + e + ", 'z']}{$q}{/foreach}", "a" + v + "z", true
	}},
	{"msg-placeholder", false, func(e, v string, g *gen) (string, string, bool) {
		return `{msg desc="d"}x{` + e + `}y{/msg}`, "x" + v + "y", true
	}},
	{"bracket-index", true, func(e, v string, g *gen) (string, string, bool) {
		g.use("big", map[string]interface{}{v: "hit"})
		return "{$big[" + e + "]}", "hit", v != "__proto__"
	}},
}

// BuildIndexed builds the program for one (form, context, string).
func BuildIndexed(id int, f exprForm, c exprContext, w wrapper, s string) (*Program, bool) {
	g := &gen{ns: nsFor(id), params: map[string]bool{}, data: map[string]interface{}{}, globals: map[string]interface{}{}}
	if w.msg && !c.inMsg {
		return nil, false
	}
	indexedData(g)
	e := f.build(QuoteSoyU(s))
	frag, exp, ok := c.build(e, f.value(s), g)
	if !ok {
		return nil, false
	}
	body, exp := w.apply(frag, exp, g)
	// every declared param must be used: print the ones the form did not touch
	for _, p := range []string{"arr", "idx", "nums", "mp", "i", "z", "k"} {
		if !strings.Contains(frag, "$"+p) {
			delete(g.params, p)
			delete(g.data, p)
		}
	}
	return assemble(id, g, "indexed-"+f.name+"-in-"+c.name, "indexed-expr", w.name, s, body, exp), true
}

// numeric contexts: range arguments and the plural subject
func BuildIndexedNumeric(id int, kind string, w wrapper) (*Program, bool) {
	g := &gen{ns: nsFor(id), params: map[string]bool{}, data: map[string]interface{}{}, globals: map[string]interface{}{}}
	g.use("nums", []interface{}{0, 2})
	g.use("i", 1)
	g.use("z", 0)
	var frag, exp string
	switch kind {
	case "range-args":
		frag, exp = "{for $q in range(0 + $nums[$z], 1 + $nums[$i], 0 + $nums[$i] - 1)}{$q}{/for}", "012"
	case "plural-subject":
		frag, exp = `{msg desc="d"}{plural 0 + $nums[$z] + $nums[$i]}{case 2}two{default}other{/plural}{/msg}`, "two"
	case "if-arith":
		frag, exp = "{if 1 + $nums[$i] > $nums[$z] + $nums[$nums[$z]]}gt{else}le{/if}", "gt"
	default:
		return nil, false
	}
	if w.msg {
		return nil, false
	}
	body, exp := w.apply(frag, exp, g)
	return assemble(id, g, "indexed-"+kind, "indexed-expr", w.name, kind, body, exp), true
}

// ---- round 4: identifier hazards -----------------------------------------

// HazardNames are names a template author may choose that are dangerous as
// bare JavaScript identifiers: reserved words (ES3, ES5, ES2015+, strict
// mode), names the generated code and its runtime use, Object.prototype names.
var HazardNames = []string{
	"break", "case", "catch", "class", "const", "continue", "debugger", "default", "delete", "do", "else", "enum", "export",
	"extends", "false", "finally", "for", "function", "if", "import", "in", "instanceof", "new", "null", "return", "super",
	"switch", "this", "throw", "true", "try", "typeof", "var", "void", "while", "with", "yield", "let", "static", "implements",
	"interface", "package", "private", "protected", "public", "await", "arguments", "eval", "undefined", "NaN", "Infinity",
	"abstract", "boolean", "byte", "char", "double", "final", "float", "goto", "int", "long", "native", "short", "synchronized",
	"throws", "transient", "volatile",
	"output", "soy", "goog", "opt_data", "opt_sb", "opt_ijData", "JSON", "Math", "Object", "String", "console",
	"constructor", "toString", "__proto__", "hasOwnProperty", "valueOf", "prototype", "length", "name",
}

// identUses are the places where an author-chosen name reaches the generated code.
var identUses = []string{"let-value", "let-content", "foreach-var", "for-var", "param", "call-param", "call-param-content",
	"template-name", "namespace-segment", "nested-shadow", "loop-in-let"}

const identPayload = `v'"\<`

// BuildIdent builds the program in which the author calls something `name`.
// root=true uses the program's own namespace root as the name.
func BuildIdent(id int, use, name string, w wrapper) (*Program, bool) {
	g := &gen{ns: nsFor(id), params: map[string]bool{}, data: map[string]interface{}{}, globals: map[string]interface{}{}}
	if name == "<root>" {
		name = rootOf(g.ns)
	}
	if name == "__proto__" && (use == "call-param" || use == "call-param-content" || use == "param") {
		// not judged: a param named __proto__ travels in a plain JS object, so the callee cannot
		// read it -- but the script is well formed, every template is defined and the literal
		// does denote its characters; what is lost is the param-passing channel the check would
		// observe through, a Go/JS divergence outside the common subset (C04), not C14's claim
		return nil, false
	}
	q := q(identPayload)
	var frag string
	exp := identPayload
	extraTmpl := ""
	switch use {
	case "let-value":
		frag = "{let $" + name + ": " + q + "/}{$" + name + "}"
	case "let-content":
		frag = "{let $" + name + "}" + `v'"\<` + "{/let}{$" + name + "}"
	case "foreach-var":
		frag = "{foreach $" + name + " in [" + q + ", 'z']}{$" + name + "}{if isLast($" + name + ")}!{/if}{/foreach}"
		exp += "z!"
	case "for-var":
		frag = "{for $" + name + " in range(2)}{$" + name + "}{/for}" + `v'"\<`
		exp = "01" + exp
	case "param":
		g.use(name, identPayload)
		frag = "{$" + name + "}"
	case "call-param":
		frag = "{call .callee}{param " + name + ": " + q + "/}{/call}"
		extraTmpl = "\n/** @param " + name + " */\n{template .callee autoescape=\"false\"}{$" + name + "}{/template}\n"
	case "call-param-content":
		frag = "{call .callee}{param " + name + "}" + `v'"\<` + "{/param}{/call}"
		extraTmpl = "\n/** @param " + name + " */\n{template .callee autoescape=\"false\"}{$" + name + "}{/template}\n"
	case "template-name":
		frag = "{call ." + name + "/}"
		extraTmpl = "\n/** */\n{template ." + name + " autoescape=\"false\"}" + `v'"\<` + "{/template}\n"
	case "namespace-segment":
		g.ns = rootOf(g.ns) + "." + name + ".x"
		frag = `v'"\<`
	case "nested-shadow":
		// the same name declared again in an inner block, and a sibling of the generated name's usual form
		frag = "{let $" + name + ": 'a'/}{if true}{let $" + name + ": " + q + "/}{$" + name + "}{/if}{$" + name + "}{let $" + name + "1: 'b'/}{$" + name + "1}"
		exp += "ab"
	case "loop-in-let":
		frag = "{let $" + name + "}{foreach $" + name + "List in [1]}{$" + name + "List}{/foreach}{/let}{$" + name + "}" + `v'"\<`
		exp = "1" + exp
	default:
		return nil, false
	}
	body, exp := w.apply(frag, exp, g)
	p := assemble(id, g, "ident-"+use, "identifier", w.name, name, body, exp)
	if extraTmpl != "" {
		p.File.Text += extraTmpl
		m := regexp.MustCompile(`\{template \.([A-Za-z_0-9]+)`).FindStringSubmatch(extraTmpl)
		p.Templates = append(p.Templates, g.ns+"."+m[1])
		sort.Strings(p.Templates)
	}
	return p, true
}

// ---- round 5: near-invalid bundle shapes the compiler might accept ---------

// ShapeKinds are bundles at the edge of validity: whenever the compiler accepts one, every
// script must be well formed and every qualified template name defined exactly once.
var ShapeKinds = []string{"dup-in-file", "dup-in-file-main-last", "dup-across-files", "case-differs", "case-differs-namespace",
	"template-like-namespace", "namespace-like-template", "template-like-namespace-same-file-order"}

// BuildShape builds one such bundle (root segment unique to the program).
func BuildShape(id int, kind string) (*Program, bool) {
	r := fmt.Sprintf("sh%d", id)
	t := func(name, body string) string {
		return "/** */\n{template ." + name + " autoescape=\"false\"}" + body + "{/template}\n"
	}
	p := &Program{ID: id, Pos: "shape-" + kind, Class: "bundle-shape", Wrap: "top", S: kind, Data: map[string]interface{}{}}
	file := func(name, ns, body string) core.File {
		return core.File{Name: name, Text: "{namespace " + ns + "}\n\n" + body}
	}
	switch kind {
	case "dup-in-file":
		p.NS, p.Expect = r, "one"
		p.File = file(r+".soy", r, t("main", "{call .t/}")+t("t", "one")+t("t", "two"))
		p.Templates = []string{r + ".main", r + ".t"}
	case "dup-in-file-main-last":
		p.NS, p.Expect = r, "one"
		p.File = file(r+".soy", r, t("t", "one")+t("t", "two")+t("main", "{call .t/}"))
		p.Templates = []string{r + ".main", r + ".t"}
	case "dup-across-files":
		p.NS, p.Expect = r, "one"
		p.File = file(r+".soy", r, t("main", "{call .t/}")+t("t", "one"))
		p.Extra = []core.File{file(r+"-2.soy", r, t("t", "two"))}
		p.Templates = []string{r + ".main", r + ".t"}
	case "case-differs":
		p.NS, p.Expect = r, "Tt"
		p.File = file(r+".soy", r, t("main", "{call .Tmpl/}{call .tmpl/}")+t("Tmpl", "T"))
		p.Extra = []core.File{file(r+"-2.soy", r, t("tmpl", "t"))}
		p.Templates = []string{r + ".Tmpl", r + ".main", r + ".tmpl"}
	case "case-differs-namespace":
		p.NS, p.Expect = r+".ui", "uU"
		p.File = file(r+".soy", r+".ui", t("main", "{call .t/}{call "+r+".UI.t/}")+t("t", "u"))
		p.Extra = []core.File{file(r+"-2.soy", r+".UI", t("t", "U"))}
		p.Templates = []string{r + ".UI.t", r + ".ui.main", r + ".ui.t"}
	case "template-like-namespace":
		// template <r>.b.c (a function) and namespace <r>.b.c (templates hang off that function)
		p.NS, p.Expect = r+".b", "CD"
		p.File = file(r+".soy", r+".b", t("main", "{call .c/}{call "+r+".b.c.d/}")+t("c", "C"))
		p.Extra = []core.File{file(r+"-2.soy", r+".b.c", t("d", "D"))}
		p.Templates = []string{r + ".b.c", r + ".b.c.d", r + ".b.main"}
	case "namespace-like-template":
		// the same, the namespace's file first
		p.NS, p.Expect = r+".b.c", "DC"
		p.File = file(r+".soy", r+".b.c", t("main", "{call .d/}{call "+r+".b.c/}")+t("d", "D"))
		p.Extra = []core.File{file(r+"-2.soy", r+".b", t("c", "C"))}
		p.Templates = []string{r + ".b.c", r + ".b.c.d", r + ".b.c.main"}
	case "template-like-namespace-same-file-order":
		p.NS, p.Expect = r, "XY"
		p.File = file(r+".soy", r, t("main", "{call .x/}{call "+r+".x.y/}")+t("x", "X"))
		p.Extra = []core.File{file(r+"-2.soy", r+".x", t("y", "Y"))}
		p.Templates = []string{r + ".main", r + ".x", r + ".x.y"}
	default:
		return nil, false
	}
	sort.Strings(p.Templates)
	return p, true
}

// ---- mutation gaps: every registered JS function and print directive --------

// fnSample is a sample call of a Soy function and what JavaScript's String()
// gives for its value.
type fnSample struct {
	call   string
	expect string
	truthy bool
}

// FuncSamples covers every entry of soyjs.Funcs (checked against the registry
// at run time: a registered function without a sample is tool trouble, so a
// new one cannot be forgotten).
var FuncSamples = map[string]fnSample{
	"isNonnull":     {"isNonnull($one)", "true", true},
	"length":        {"length([1, 2, 3])", "3", true},
	"keys":          {"length(keys(['a': 1, 'b': 2]))", "2", true},
	"augmentMap":    {"length(keys(augmentMap(['a': 1], ['b': 2])))", "2", true},
	"round":         {"round(round(2.26, 1) * 10)", "23", true},
	"floor":         {"floor(2.5)", "2", true},
	"ceiling":       {"ceiling(2.5)", "3", true},
	"min":           {"min($one, 2)", "1", true},
	"max":           {"max($one, 2)", "2", true},
	"randomInt":     {"randomInt(1)", "0", false},
	"strContains":   {"strContains('abc', 'b')", "true", true},
	"hasData":       {"hasData()", "true", true},
	"bidiGlobalDir": {"bidiGlobalDir()", "1", true},
	"bidiDirAttr":   {"bidiDirAttr('abc')", "", false},
	"bidiStartEdge": {"bidiStartEdge()", "left", true},
	"bidiEndEdge":   {"bidiEndEdge()", "right", true},
}

// dirSample: value |name:args and what the JS library gives ("*" = any text).
type dirSample struct {
	value, args, expect string
}

// DirectiveSamples covers every entry of soyjs.PrintDirectives.
var DirectiveSamples = map[string]dirSample{
	"insertWordBreaks":  {"'1234567'", ":3", "123<wbr>456<wbr>7"},
	"changeNewlineToBr": {"'a\\nb'", "", "a<br>b"},
	"truncate":          {"'Lorem Ipsum'", ":8", "Lorem..."},
	"id":                {"'x<y'", "", "x<y"},
	"noAutoescape":      {"'x<y'", "", "x<y"},
	"escapeHtml":        {"'<a>'", "", "&lt;a&gt;"},
	"escapeUri":         {"'a b'", "", "a%20b"},
	"escapeJsString":    {"'a\\'b'", "", `a\x27b`},
	"bidiSpanWrap":      {"'abc'", "", "*"},
	"bidiUnicodeWrap":   {"'abc'", "", "*"},
	"json":              {"'a\"b'", "", `"a\"b"`},
}

var libraryUses = []string{"print", "operand", "argument", "directive-arg", "if-cond", "let", "param", "list-item"}

func libProgram(id int, pos, class, frag, exp string, any bool, w wrapper, needOne bool) *Program {
	g := &gen{ns: nsFor(id), params: map[string]bool{}, data: map[string]interface{}{}, globals: map[string]interface{}{}}
	if needOne {
		g.use("one", 1)
	}
	if strings.Contains(frag, ".echo") {
		g.needEcho = true
	}
	body, exp := w.apply(frag, exp, g)
	p := assemble(id, g, pos, class, w.name, pos, body, exp)
	p.JSOnly, p.AnyOutput = true, any
	return p
}

// BuildFunc uses the Soy function `name` in one syntactic role.
func BuildFunc(id int, name, use string, w wrapper) (*Program, bool) {
	s, ok := FuncSamples[name]
	if !ok {
		return nil, false
	}
	any := s.expect == ""
	e := s.call
	var frag, exp string
	switch use {
	case "print":
		frag, exp = "{"+e+"}", s.expect
	case "operand":
		frag, exp = "{'[' + "+e+" + ']'}{"+e+" == "+e+" ? '=' : '#'}", "["+s.expect+"]="
	case "argument":
		frag, exp = "{isNonnull("+e+") ? 'nn' : 'null'}{strContains('' + "+e+", '"+s.expect+"') ? '+' : '-'}", "nn+"
	case "directive-arg":
		frag, exp = "{'v' |verifArg:"+e+"}", s.expect
	case "if-cond":
		frag, exp = "{if "+e+"}t{else}f{/if}{if not "+e+"}n{/if}", map[bool]string{true: "t", false: "fn"}[s.truthy]
	case "let":
		frag, exp = "{let $fv: "+e+"/}{$fv}", s.expect
	case "param":
		frag, exp = "{call .echo}{param p: "+e+"/}{/call}", s.expect
	case "list-item":
		frag, exp = "{foreach $fi in ["+e+", 'z']}{$fi}{/foreach}", s.expect+"z"
	default:
		return nil, false
	}
	if any && use != "print" && use != "let" {
		return nil, false
	}
	return libProgram(id, "func-"+name+"-"+use, "js-function", frag, exp, any, w, strings.Contains(e, "$one")), true
}

// BuildDirective uses the print directive `name`: alone, after and before other
// directives, with an expression argument, on a variable.
func BuildDirective(id int, name, use string, w wrapper) (*Program, bool) {
	d, ok := DirectiveSamples[name]
	if !ok {
		return nil, false
	}
	any := d.expect == "*"
	var frag, exp string
	needOne := false
	switch use {
	case "alone":
		frag, exp = "{"+d.value+" |"+name+d.args+"}", d.expect
	case "after-marker":
		frag, exp = "{"+d.value+" |noAutoescape |"+name+d.args+"}", d.expect
	case "before-marker":
		frag, exp = "{"+d.value+" |"+name+d.args+" |id}", d.expect
	case "expr-arg":
		if d.args == "" {
			return nil, false
		}
		frag, exp = "{"+d.value+" |"+name+d.args+" + $one - 1}", d.expect
		needOne = true
	case "in-let":
		frag, exp = "{let $dv}{"+d.value+" |"+name+d.args+"}{/let}{$dv}", d.expect
	case "in-msg":
		frag, exp = `{msg desc="d"}<{`+d.value+" |"+name+d.args+`}>{/msg}`, "<"+d.expect+">"
	default:
		return nil, false
	}
	if any {
		exp = ""
	}
	return libProgram(id, "directive-"+name+"-"+use, "js-directive", frag, exp, any, w, needOne), true
}

var directiveUses = []string{"alone", "after-marker", "before-marker", "expr-arg", "in-let", "in-msg"}

// BuildAutoescaped prints a parameter in a template that is autoescaped by
// default (no autoescape attribute anywhere): the generated code calls the
// escaping library function although no directive is written.
func BuildAutoescaped(id int) *Program {
	ns := nsFor(id)
	// one FILE mixes autoescaped prints with the directives that escape on their own or add markup
	variants := []struct{ body, expect string }{
		{"{$x}|{$x |noAutoescape}", "&lt;a&gt;|<a>"},
		{"{$x}|{$x |escapeHtml}|{$x |noAutoescape}", "&lt;a&gt;|&lt;a&gt;|<a>"},
		{"{$x |changeNewlineToBr}|{$x}", "&lt;a&gt;|&lt;a&gt;"},
		{"{$x |insertWordBreaks:9}|{$x}|{$x |escapeHtml}", "&lt;a&gt;|&lt;a&gt;|&lt;a&gt;"},
		{"{$x}|{$x |escapeHtml}|{$x |changeNewlineToBr}|{$x |insertWordBreaks:9}|{$x |escapeUri}|{$x |truncate:9}", "&lt;a&gt;|&lt;a&gt;|&lt;a&gt;|&lt;a&gt;|%3Ca%3E|&lt;a&gt;"},
	}
	v := variants[id%len(variants)]
	text := "{namespace " + ns + "}\n\n/** @param x */\n{template .main}" + v.body + "{/template}\n"
	tmpls := []string{ns + ".main"}
	if id%2 == 0 {
		// the directive in ANOTHER template of the same file
		text += "\n/** @param x */\n{template .other autoescape=\"false\"}{$x |escapeHtml}{$x |changeNewlineToBr}{/template}\n"
		tmpls = append(tmpls, ns+".other")
	}
	return &Program{ID: id, NS: ns, Pos: "autoescape-on", Class: "autoescape-on", Wrap: "top", S: "autoescape-on", Expect: v.expect,
		File: core.File{Name: ns + ".soy", Text: text}, Data: map[string]interface{}{"x": "<a>"}, Templates: tmpls, JSOnly: true}
}

// BuildGeneratorReuse: the file exists in two versions under one name; the second has another
// literal and one more template. The script asked for after the registry was updated in place
// must be the second version's.
func BuildGeneratorReuse(id int, s string) (*Program, bool) {
	ns := nsFor(id)
	name := ns + ".soy"
	before := core.File{Name: name, Text: "{namespace " + ns + "}\n\n/** */\n{template .main autoescape=\"false\"}OLD-{'old literal'}{/template}\n"}
	after := core.File{Name: name, Text: "{namespace " + ns + "}\n\n/** */\n{template .main autoescape=\"false\"}{" + qAuto(s, "") + "}{call .added/}{/template}\n" +
		"\n/** */\n{template .added autoescape=\"false\"}+added{/template}\n"}
	return &Program{ID: id, NS: ns, Pos: "generator-reuse", Class: "generator-reuse", Wrap: "top", S: s, Expect: s + "+added",
		File: after, Before: &before, Data: map[string]interface{}{}, Templates: []string{ns + ".added", ns + ".main"}}, true
}
