package c14

import (
	"fmt"
	"math/rand"
	"strings"
	"unicode"
)

// Alphabet is the adversarial alphabet of SoyJsLit!Symbols.
var Alphabet = []string{"'", `"`, `\`, "\n", "\r", "\u2028", "\u2029", "<", "/", "s", "c", ">", "&", "a", "é", "😀"}

// Specials are hand-picked strings: script/comment closers, textual escape
// sequences, Soy syntax, JS injection shapes, non-printable and astral runes.
var Specials = []string{
	"</script>", "</SCRIPT >", "<!--", "-->", "]]>", "<script>",
	`\n`, `\u2028`, `\x41`, `\\`, `\'`, `\"`, `\`, `\\\`, `a\`, `\0`, `\1`, "\\\n",
	`'+alert(1)+'`, `';alert(1);'`, `");alert(1);//`, "`${1}`", `"});//`, `"}`, `":1,"x`,
	"*/", "/*", "//", "a // b", " // x", "a /* b */ c", "/** d */", "a/b", "a//b",
	"{", "}", "{}", "{{", "}}", "{sp}", "{nil}", "{$x}", "{literal}", "{/literal}", "$x", "|", ",", "a,b", ":", "a: b",
	"a b", " a", "a ", "  ", " ", "\t", "a\tb", "a\x0bb", "a\x0cb", "\x7f", "\x01\x02\x1f", "\b", "\f",
	"\u0085", "\u00A0", "\u00AD", "\u200B", "\u2060", "\uFEFF", "\uFFFD", "\uFFFF", "\uFFFE", "\uE000", "\u202E",
	"e\u0301", "😀😀", "\U0001F1E6\U0001F1E7", "\U000E0001", "\U0010FFFF", "\U000F0000", "\U0001D173", "a\U000E0001b",
	"é", "日本語", "\u2028\u2029", "'\u2028'", "<\u2028/script>",
	"true", "null", "undefined", "__proto__", "constructor", "0", "-1", "1e3", "NaN",
}

// LongStrings exercise buffer sizes; the thorough tier adds bigger ones.
func LongStrings(thorough bool) []string {
	l := []string{
		strings.Repeat("a", 10000),
		strings.Repeat(`'"\`, 3000),
		strings.Repeat("\u2028<", 2000),
		strings.Repeat("😀", 3000),
		strings.Repeat("ab'\n", 2500),
	}
	if thorough {
		l = append(l, strings.Repeat("x", 70000), strings.Repeat("</script>\\", 8000), strings.Repeat("\r\n\"é", 20000))
	}
	return l
}

// ASCII returns every single ASCII byte 1..127 alone and (between: also) between letters.
func ASCII(between bool) []string {
	var l []string
	for c := 1; c < 128; c++ {
		l = append(l, string(rune(c)))
	}
	for c := 1; c < 128 && between; c++ {
		l = append(l, "a"+string(rune(c))+"b")
	}
	return l
}

// Words returns every string of exactly n alphabet symbols.
func Words(n int) []string {
	if n == 0 {
		return []string{""}
	}
	var l []string
	for _, w := range Words(n - 1) {
		for _, a := range Alphabet {
			l = append(l, w+a)
		}
	}
	return l
}

// SampleWords draws k random words of n symbols.
func SampleWords(r *rand.Rand, n, k int) []string {
	var l []string
	for i := 0; i < k; i++ {
		var b strings.Builder
		for j := 0; j < n; j++ {
			b.WriteString(Alphabet[r.Intn(len(Alphabet))])
		}
		l = append(l, b.String())
	}
	return l
}

// QuoteSoyU writes a Soy string literal in which every BMP rune that is not an
// ASCII letter or digit is spelled \uXXXX (Soy has no escape for astral runes;
// they stay raw).
func QuoteSoyU(s string) string {
	var b strings.Builder
	b.WriteByte('\'')
	for _, r := range s {
		switch {
		case r < 128 && (unicode.IsLetter(r) || unicode.IsDigit(r)):
			b.WriteRune(r)
		case r <= 0xFFFF:
			fmt.Fprintf(&b, `\u%04X`, r)
		default:
			b.WriteRune(r)
		}
	}
	b.WriteByte('\'')
	return b.String()
}

// RawSoy spells s as template raw text whose denotation in the Soy language is
// exactly s whatever the line-joining and comment rules do: braces, line
// breaks and tabs become special-character commands, a space becomes {sp}
// unless it stands between two ordinary characters, and "//", "/*" are broken
// by {nil} so that no comment can start. ok=false if s cannot be spelled (NUL).
func RawSoy(s string) (string, bool) {
	rs := []rune(s)
	plain := func(i int) bool {
		if i < 0 || i >= len(rs) {
			return false
		}
		switch rs[i] {
		case '{', '}', '\n', '\r', '\t', ' ':
			return false
		}
		return true
	}
	var b strings.Builder
	for i, r := range rs {
		switch r {
		case 0:
			return "", false
		case '{':
			b.WriteString("{lb}")
		case '}':
			b.WriteString("{rb}")
		case '\n':
			b.WriteString(`{\n}`)
		case '\r':
			b.WriteString(`{\r}`)
		case '\t':
			b.WriteString(`{\t}`)
		case ' ':
			if plain(i-1) && plain(i+1) && rs[i+1] != '/' {
				b.WriteByte(' ')
			} else {
				b.WriteString("{sp}")
			}
		case '/':
			b.WriteByte('/')
			if i+1 < len(rs) && (rs[i+1] == '/' || rs[i+1] == '*') {
				b.WriteString("{nil}")
			}
		default:
			b.WriteRune(r)
		}
	}
	return b.String(), true
}

// CharClass names the most dangerous character class in s (for messages only).
func CharClass(s string) string {
	switch {
	case strings.ContainsAny(s, "\n\r\u2028\u2029"):
		return "line-terminator"
	case strings.Contains(s, `\`):
		return "backslash"
	case strings.Contains(s, `"`):
		return "dquote"
	case strings.Contains(s, `'`):
		return "squote"
	case strings.Contains(s, "<"):
		return "lt"
	}
	for _, r := range s {
		if r > 0xFFFF {
			return "astral"
		}
		if !unicode.IsPrint(r) {
			return "non-printable"
		}
	}
	return "plain"
}

// Lookalikes are strings whose TEXT looks like the escape sequences an escaper
// produces (backslash + u003D, backslash + n, ...) standing next to the real
// characters those sequences stand for: an escaper that post-processes its own
// output confuses the two. full = the whole cross product.
func Lookalikes(full bool) []string {
	type pair struct{ real, text string }
	const bs = "\\"
	u := func(hex string) string { return bs + "u" + hex } // the TEXT backslash, u, four hex digits
	pairs := []pair{
		{"=", u("003D")}, {"&", u("0026")}, {"<", u("003C")}, {">", u("003E")}, {"'", bs + "'"}, {`"`, bs + `"`}, {bs, bs + bs},
		{"\n", bs + "n"}, {"\r", bs + "r"}, {"\t", bs + "t"}, {string(rune(0x2028)), u("2028")}, {"\x01", u("0001")},
		{"'", u("0027")}, {`"`, u("0022")}, {"=", u("003d")}, {"<", bs + "x3c"}, {"<", bs + "x3C"}, {"&", "&amp;"},
		{string(rune(0xE0001)), u("DB40") + u("DC01")}, {"\x00", bs + "0"}, {"\x7f", u("007F")},
	}
	seen := map[string]bool{}
	var l []string
	add := func(s string) {
		if !seen[s] {
			seen[s] = true
			l = append(l, s)
		}
	}
	for _, p := range pairs {
		add(p.text)
		add(p.text + p.real)
		add(p.real + p.text)
		if full {
			add(p.text + p.text + p.real + p.real)
		}
	}
	hot := []string{"=", "&", `\`}
	if full {
		hot = append(hot, "<", "'", `"`, "\n")
	}
	for _, p := range pairs {
		for _, q := range pairs {
			if full {
				add(p.text + q.real)
				add(q.real + p.text)
			}
		}
		for _, h := range hot {
			add(p.text + h)
			add(h + p.text)
		}
	}
	// truncated and braced forms
	for _, s := range []string{bs + "u", u("0"), u("00"), u("003"), bs + "x", bs + "x3", bs + "u{1F600}", bs + "u{3D}", bs + "U0000003D", bs + "075", bs + "=", bs + "&", "&#61;", "%3D"} {
		add(s)
		add(s + "=")
		add("&" + s)
	}
	return l
}
