// Package c15 decides property C15: template text is normalised by the
// line-joining rule and nothing else.
//
//	M1  spec/SoyRawText.tla: the declarative rule (A), the seven-flag machine
//	    (B) of parse/rawtext.go, TLC checks (B) = (A) for every string up to
//	    length N in every neighbour context, properties of (A) alone, and the
//	    named deviations (each must be caught).
//	M2  TLC enumerates every string of length <= N with the expected output
//	    of (A); the harness renders each with the real soyhtml between every
//	    kind of neighbour. Same for bodies with comments (spec: Scan/AccBody).
//	M3  bodies built from text runs, tags, special characters, literals and
//	    comments (examples, systematic, seeded random up to 200 characters
//	    with NBSP, U+2003 and astral runes) are rendered by the real code,
//	    recorded as NDJSON and validated by TLC (spec/SoyRawTextTrace.tla).
package c15

import (
	"encoding/json"
	"fmt"
	"os"
	"regexp"
	"sort"
	"strconv"
	"strings"
	"sync"
	"time"

	"verif/core"
)

// the text family: the alphabet of the property's quantifier; "e" stands for
// U+00E9 inside the model (see SoyRawText.tla on stand-ins)
var (
	textAlpha = []string{"a", "<", ">", " ", "\t", "\r", "\n", "e"}
	textReal  = map[rune]string{'e': "\u00e9"}
	// the unicode-space family: characters that Unicode calls spaces but the
	// rule does not (NBSP, EM SPACE), an astral rune, and the line breaks
	uniAlpha = []string{"a", "<", " ", "\n", "\r", "N", "M", "A"}
	// the line-break family: every character some standard calls a line break
	// or vertical space but the rule does not (U+2028, U+0085 NEL, VT, FF)
	// next to the ones it does (LF, CR)
	lbAlpha = []string{"a", " ", "\n", "\r", "P", "N", "V", "F"}
	lbReal  = map[rune]string{'P': "\u2028", 'N': "\u0085", 'V': "\v", 'F': "\f"}
	// the bytes family: template text that is NOT valid UTF-8 (a Latin-1 high
	// byte, a truncated 3-byte sequence, a lone continuation byte, 0xFF); to
	// the rule each is just a non-whitespace character, and "nothing else"
	// than joining may change it: the bytes must come out unchanged
	byteAlpha = []string{"a", "<", " ", "\n", "L", "T", "C", "F"}
	byteReal  = map[rune]string{'L': "\xe9", 'T': "\xe2\x82", 'C': "\x80", 'F': "\xff"}
	uniReal   = map[rune]string{'N': "\u00a0", 'M': "\u2003", 'A': "\U0001F600"}
)

// Run is the entry point for C15.
func Run(ctx *core.Ctx) {
	ctx.Rule = "cases: a text run (string over {a,<,>,space,tab,CR,LF,U+00E9}; second family with NBSP, U+2003, astral rune) placed between a left and a right neighbour (template start/end, print, {sp}, {nil}, if/else boundaries, call, literal, line comment, block comment); bodies with // and /* */ over {a,/,*,space,LF}; literal blocks; special-character commands; seeded random bodies with text runs up to 200 characters. Strings are enumerated completely by TLC up to the length bound; a case is non-trivial if the text contains whitespace (text families), a '/' (comment family) or is a body of the trace families; distinct by (family, text/body). evaluations = renders by the real soyhtml"
	ctx.Assumptions = append(ctx.Assumptions,
		"oracle = spec/SoyRawText.tla rule (A), written from the property statement; whitespace = {space, tab, CR, LF} only",
		"next to a comment only the weak obligation is demanded (non-whitespace intact and in order, the whitespace run touching the comment dropped, one space, or verbatim if it has no line break) because parse_test 'rawtext+comment' pins trimming there",
		"'//' directly after the end of a block comment and '/**' inside a body are outside the model's domain (not judged)",
		"a print of a string parameter, a call of a constant template and if/else with a boolean parameter are trusted to produce X, U and the taken branch",
		"inside the TLA+ model multi-byte runes are ASCII stand-in letters (TLC's on-disk state queue damages non-ASCII characters held in state variables); the real runes are used in every template rendered and in the M3 trace")
	ctx.Trusted = append(ctx.Trusted, "TLC evaluator (tla2tools, CommunityModules Json)", "harness/c15 (template builder, TLC value parser)")
	if ctx.ReplayPath != "" {
		Replay(ctx)
		return
	}
	nText := ctx.Pick(5, 6)
	nUni := ctx.Pick(4, 5)
	nByte := ctx.Pick(4, 5)
	nCom := ctx.Pick(5, 7)
	full := ctx.Pick(4, 5)

	var wg sync.WaitGroup
	devCh := make(chan map[string]*devResult, 1)
	wg.Add(1)
	go func() {
		defer wg.Done()
		devCh <- ModelCheck(ctx)
	}()

	var fam *TextFamily
	wg.Add(1)
	go func() {
		defer wg.Done()
		f, err := EnumerateTexts(ctx, "text", textAlpha, textReal, nText)
		if err != nil {
			ctx.ToolError("M2 text enumeration: %v", err)
			return
		}
		fam = f
		ReplayTexts(ctx, f, full)
		for _, s := range []string{"a \n\tb", "<a> \n\t b \r\n\t <c>", " é\n"} {
			if e := f.Expect[s]; e != nil {
				ctx.Sample(map[string]interface{}{"text": s, "ruleA": e.Exact, "next_to_comment_both": e.WLR})
			}
		}
	}()

	wg.Add(1)
	go func() {
		defer wg.Done()
		f, err := EnumerateTexts(ctx, "unicode", uniAlpha, uniReal, nUni)
		if err != nil {
			ctx.ToolError("M2 unicode enumeration: %v", err)
		} else {
			ReplayTexts(ctx, f, nUni-1)
		}
		cases, err := EnumerateComments(ctx, nCom)
		if err != nil {
			ctx.ToolError("M2 comment enumeration: %v", err)
		} else {
			ReplayComments(ctx, cases)
			for _, c := range cases {
				if c.Body == "a //a\n" || c.Body == "a//a\n" {
					ctx.Sample(map[string]interface{}{"body": c.Body, "comments": c.Comments, "acceptable": c.Acceptable, "real": c.Obs.Out})
				}
			}
		}
		TraceFamily(ctx, ctx.Pick(1500, 12000), ctx.Pick(3, 4))
	}()
	wg.Add(1)
	go func() {
		defer wg.Done()
		fb, err := EnumerateTexts(ctx, "bytes", byteAlpha, byteReal, nByte)
		if err != nil {
			ctx.ToolError("M2 bytes enumeration: %v", err)
		} else {
			ReplayTexts(ctx, fb, nByte-1)
		}
		fl, err := EnumerateTexts(ctx, "linebreaks", lbAlpha, lbReal, ctx.Pick(3, 5))
		if err != nil {
			ctx.ToolError("M2 linebreaks enumeration: %v", err)
		} else {
			ReplayTexts(ctx, fl, ctx.Pick(3, 4))
		}
		bodies, lctx, err := EnumerateLiterals(ctx, litAtoms, 3, "literals")
		if err != nil {
			ctx.ToolError("M2 literal enumeration: %v", err)
		} else {
			ReplayLiterals(ctx, "literals", litAtoms, bodies, lctx, 3)
		}
		if ctx.Thorough() {
			bodies, lctx, err := EnumerateLiterals(ctx, litAtomsCore, 4, "literals-core4")
			if err != nil {
				ctx.ToolError("M2 literal enumeration (core atoms): %v", err)
			} else {
				ReplayLiterals(ctx, "literals-core4", litAtomsCore, bodies, lctx, 4)
			}
		}
	}()
	wg.Wait()
	devs := <-devCh

	// every deviation counterexample is a replay case: the real code must
	// NOT show the deviation
	if fam != nil && devs != nil {
		ReplayDeviations(ctx, fam, devs)
	}
	ctx.Exhaustive = fam != nil // every string up to the bound was enumerated by TLC (count verified) and replayed
}

// runTLC runs TLC and retries once when the JVM was killed from outside
// (exit 137/143: other jobs on the machine), which is neither a verdict nor a
// property of the spec.
func runTLC(ctx *core.Ctx, o core.TLCOpts) (*core.TLCResult, error) {
	res, err := ctx.RunTLC(o)
	if err != nil && res != nil && (strings.Contains(res.ToolErr, "TLC exit 143") || strings.Contains(res.ToolErr, "TLC exit 137")) {
		time.Sleep(2 * time.Second)
		return ctx.RunTLC(o)
	}
	return res, err
}

var extraMu sync.Mutex

// setExtra writes ctx.Extra under a lock (the families run concurrently).
func setExtra(ctx *core.Ctx, k string, v interface{}) {
	extraMu.Lock()
	ctx.Extra[k] = v
	extraMu.Unlock()
}

// ---------------------------------------------------------------------------
// M1

type devResult struct {
	Expect   string `json:"expected_invariant"`
	Violated string `json:"violated"`
	Counter  string `json:"counterexample_text"`
	States   int64  `json:"states"`
	RealOK   *bool  `json:"real_code_free_of_deviation,omitempty"`
}

// deviations and the invariant each must violate
var deviations = [][2]string{
	{"joiner_only_before", "Equiv"},
	{"joiner_only_after", "Equiv"},
	{"keep_trailing_ws_after_newline", "Equiv"},
	{"collapse_all_ws", "Equiv"},
	{"no_reset_seen_newline", "Equiv"},
	{"tab_not_space", "Equiv"},
	{"two_spaces", "Equiv"},
	{"rule_linebreak_verbatim", "AShape"},
	{"rule_tight_eats_char", "ANonWs"},
	{"literal_ends_at_fragment", "LitExact"},
}

func m1Cfg(n int, dev string, invs string) string {
	d := "{}"
	if dev != "" {
		d = `{"` + dev + `"}`
	}
	return fmt.Sprintf("CONSTANTS\n  Alpha <- AlphaRun\n  N = %d\n  Dev = %s\nINIT Init\nNEXT Next\nINVARIANTS %s\nCHECK_DEADLOCK FALSE\n", n, d, invs)
}

var reInp = regexp.MustCompile(`(?m)^/\\ inp = (<<.*>>)$`)

// ModelCheck runs the reference model (no violation allowed) and every
// deviation (violation required).
func ModelCheck(ctx *core.Ctx) map[string]*devResult {
	files := map[string][]byte{"C15Run.tla": wrapperModule(textAlpha)}
	type ref struct {
		label string
		n     int
		invs  string
		w     int
	}
	var refs []ref
	if ctx.Thorough() {
		refs = []ref{
			{"M1-machine-equals-rule", 7, "Equiv SpacesInRange", 10},
			{"M1-rule-properties", 6, "ANonWs AShape AVanish AIdem AWeak EolInvisible", 6},
		}
	} else {
		refs = []ref{{"M1-reference", 5, "Equiv SpacesInRange ANonWs AShape AVanish AIdem AWeak EolInvisible", 8}}
	}
	var wg sync.WaitGroup
	for _, r := range refs {
		wg.Add(1)
		go func(r ref) {
			defer wg.Done()
			res, err := runTLC(ctx, core.TLCOpts{Module: "C15Run", Cfg: m1Cfg(r.n, "", r.invs), Files: files,
				Workers: r.w, Timeout: 9 * time.Minute, Label: r.label, Coverage: false})
			if err != nil {
				ctx.ToolError("M1 %s: %v", r.label, err)
				return
			}
			if res.Violated != "" {
				// the reference design must satisfy its own invariants: a spec bug, not a verdict
				ctx.ToolError("M1 %s: reference model violates %s (spec bug): %s", r.label, res.Violated, trunc(res.Trace, 600))
				return
			}
			want := int64(2 * countStrings(len(textAlpha), r.n))
			if res.Distinct != want {
				ctx.ToolError("M1 %s: %d states, expected %d (two per string of length <= %d)", r.label, res.Distinct, want, r.n)
			}
			setExtra(ctx, r.label, map[string]interface{}{"N": r.n, "invariants": r.invs, "strings": want / 2, "states": res.Distinct, "wall_s": res.Wall.Seconds()})
		}(r)
	}
	out := map[string]*devResult{}
	var mu sync.Mutex
	sem := make(chan struct{}, 3)
	for _, d := range deviations {
		wg.Add(1)
		go func(name, inv string) {
			defer wg.Done()
			sem <- struct{}{}
			defer func() { <-sem }()
			dfiles, dn, dreal := files, 4, textReal
			if name == "literal_ends_at_fragment" {
				// the literal family: inp is a sequence of atoms
				dfiles, dn, dreal = map[string][]byte{"C15Run.tla": wrapperModule(litAtoms)}, 2, litReal
			}
			res, err := runTLC(ctx, core.TLCOpts{Module: "C15Run", Cfg: m1Cfg(dn, name, inv), Files: dfiles,
				Workers: 1, Timeout: 3 * time.Minute, Label: "M1-deviation-" + name})
			if err != nil {
				ctx.ToolError("M1 deviation %s: %v", name, err)
				return
			}
			dr := &devResult{Expect: inv, Violated: res.Violated, States: res.Distinct}
			if ms := reInp.FindAllStringSubmatch(res.Trace, -1); len(ms) > 0 {
				if v, err := ParseVal(ms[len(ms)-1][1]); err == nil {
					dr.Counter, _ = v.Text(dreal)
				}
			}
			if res.Violated != inv {
				ctx.ToolError("M1 deviation %s: expected TLC to violate %s, got %q (vacuous invariant?)", name, inv, res.Violated)
			}
			mu.Lock()
			out[name] = dr
			mu.Unlock()
		}(d[0], d[1])
	}
	wg.Wait()
	return out
}

// ReplayDeviations renders the counterexample of every deviation with the
// real code in the full neighbour matrix; the real code must give rule (A).
func ReplayDeviations(ctx *core.Ctx, fam *TextFamily, devs map[string]*devResult) {
	names := make([]string, 0, len(devs))
	for n := range devs {
		names = append(names, n)
	}
	sort.Strings(names)
	for _, n := range names {
		d := devs[n]
		if n == "literal_ends_at_fragment" && d.Violated != "" {
			ok := true
			for _, dbl := range []bool{false, true} {
				g := Seg{K: "lit", S: d.Counter, D: dbl}
				if strings.Contains(d.Counter, g.source()[len(g.source())-len("{/literal}")-map[bool]int{false: 0, true: 2}[dbl]:]) {
					continue // the body contains the closing tag of this form
				}
				obs := RenderFile(TemplateFile(g.source()))
				ctx.AddEvals(1)
				if obs.Err != "" || obs.Out != d.Counter {
					ok = false // reported by the literal family
				}
			}
			d.RealOK = &ok
			continue
		}
		exp := fam.Expect[d.Counter]
		if d.Violated == "" || exp == nil {
			continue
		}
		ok := true
		for _, l := range lefts {
			for _, r := range rights {
				body, run, usable := buildText(d.Counter, l, r, fam.N)
				e := fam.Expect[run]
				if !usable || e == nil {
					continue
				}
				obs := RenderFile(TemplateFile(body))
				ctx.AddEvals(1)
				if obs.Err != "" || !contains(acceptableFor(e, l, r), obs.Out) {
					ok = false // already reported by the M2 replay of the family
				}
			}
		}
		d.RealOK = &ok
	}
	setExtra(ctx, "deviations", devs)
}

// ---------------------------------------------------------------------------
// --replay: re-run one saved case.

// Replay re-renders the source of a saved replay case and compares with the
// acceptable outputs stored in it.
func Replay(ctx *core.Ctx) {
	b, err := os.ReadFile(ctx.ReplayPath)
	if err != nil {
		ctx.ToolError("cannot read replay case: %v", err)
		return
	}
	var v struct {
		Sig    core.Sig        `json:"sig"`
		What   string          `json:"what"`
		Replay json.RawMessage `json:"replay"`
	}
	if err := json.Unmarshal(b, &v); err != nil {
		ctx.ToolError("bad replay case: %v", err)
		return
	}
	var rc struct {
		Kind       string   `json:"kind"`
		File       string   `json:"file"`
		Acceptable []string `json:"acceptable"`
		Verdict    string   `json:"spec"`
		FileQ      string   `json:"fileQuoted"`
		AccQ       []string `json:"acceptableQuoted"`
		Segs       []Seg    `json:"segs"`
		FilePrefix string   `json:"filePrefix"`
		Eol        string   `json:"fileLineEnds"`
		SrcSegs    []Seg    `json:"sourceSegs"`
		Origin     string   `json:"origin"`
	}
	if err := json.Unmarshal(v.Replay, &rc); err != nil {
		ctx.ToolError("bad replay case: %v", err)
		return
	}
	ctx.AddEvals(1)
	switch rc.Kind {
	case "text", "comment", "literal":
		if rc.FileQ != "" {
			// the case holds bytes that JSON cannot carry
			rc.File, _ = strconv.Unquote(rc.FileQ)
			rc.Acceptable = nil
			for _, q := range rc.AccQ {
				a, _ := strconv.Unquote(q)
				rc.Acceptable = append(rc.Acceptable, a)
			}
		}
		obs := RenderFile(rc.File)
		okay := obs.Err == "" && contains(rc.Acceptable, obs.Out)
		if rc.Verdict == "err" {
			okay = obs.Compile && !obs.Panicked
		}
		fmt.Printf("replay: output %+q err %q acceptable %+q\n", obs.Out, obs.Err, rc.Acceptable)
		if !okay {
			ctx.Violation(v.Sig, "replayed: "+v.What, json.RawMessage(v.Replay))
		}
	case "trace":
		ln := &Line{Kind: "trace", Origin: rc.Origin, Segs: rc.Segs, FilePrefix: rc.FilePrefix}
		if rc.Kind == "trace" && len(rc.SrcSegs) > 0 {
			ln.Eol, ln.SrcSegs = rc.Eol, rc.SrcSegs
		}
		for i := range ln.Segs {
			if ln.Segs[i].K == "tag" && ln.Segs[i].Src == "" {
				ctx.ToolError("replay case lacks tag sources")
				return
			}
		}
		renderLines([]*Line{ln})
		bad, _, err := ValidateLines(ctx, []*Line{ln}, "replay")
		if err != nil {
			ctx.ToolError("replay: %v", err)
			return
		}
		fmt.Printf("replay: output %+q err %q\n", ln.Obs.Out, ln.Obs.Err)
		if len(bad) > 0 {
			ctx.Violation(v.Sig, "replayed: "+describe(ln), ln)
		}
	default:
		ctx.ToolError("unknown replay kind %q", rc.Kind)
	}
	ctx.Rule += " (single replay)"
	_ = strings.TrimSpace
}
