package c15

import (
	"fmt"
	"runtime"
	"sort"
	"strings"
	"sync"
	"sync/atomic"
	"time"

	"verif/core"
)

// CommentCase is one body with comments, enumerated by TLC with the set of
// outputs the spec allows (SoyRawText!AccBody).
type CommentCase struct {
	Kind       string   `json:"kind"` // "comment"
	Body       string   `json:"body"`
	Verdict    string   `json:"spec"` // ok | err | unspec
	Comments   int      `json:"comments"`
	File       string   `json:"file"`
	Acceptable []string `json:"acceptable"`
	Obs        Obs      `json:"observed"`
}

var commentAlpha = []string{"a", "/", "*", " ", "\n"}

// EnumerateComments has TLC enumerate every string of length <= n over
// {a, /, *, space, LF}, each as a body right after the template tag and on a
// line of its own, with comment recognition done by the spec.
func EnumerateComments(ctx *core.Ctx, n int) ([]*CommentCase, error) {
	cfg := fmt.Sprintf("CONSTANTS\n  Alpha <- AlphaRun\n  N = %d\n  Dev = {}\nINIT EnumInit\nNEXT Next\nINVARIANTS PrintComment ScanPartition\nCHECK_DEADLOCK FALSE\n", n)
	res, err := runTLC(ctx, core.TLCOpts{Module: "C15Run", Cfg: cfg, Files: map[string][]byte{"C15Run.tla": wrapperModule(commentAlpha)},
		Workers: 1, Timeout: 8 * time.Minute, Label: "M2-enumerate-comments"})
	if err != nil {
		return nil, err
	}
	if res.Violated != "" {
		return nil, fmt.Errorf("comment enumerator reported %s (spec bug): %s", res.Violated, trunc(res.Trace, 400))
	}
	vals, err := ParseTuples(res.Stdout, "K")
	if err != nil {
		return nil, err
	}
	var cases []*CommentCase
	seen := map[string]bool{}
	for _, v := range vals {
		if len(v.L) != 5 {
			return nil, fmt.Errorf("malformed K tuple")
		}
		body, e1 := v.L[1].Text(nil)
		acc, e2 := v.L[4].Texts(nil)
		if e1 != nil || e2 != nil {
			return nil, fmt.Errorf("malformed K tuple: %v %v", e1, e2)
		}
		if seen[body] {
			continue
		}
		seen[body] = true
		sort.Strings(acc)
		cases = append(cases, &CommentCase{Kind: "comment", Body: body, Verdict: v.L[2].S, Comments: v.L[3].I, Acceptable: acc})
	}
	if want := 2 * countStrings(len(commentAlpha), n); len(vals) != want {
		return nil, fmt.Errorf("TLC enumerated %d comment bodies, expected %d", len(vals), want)
	}
	return cases, nil
}

// ReplayComments renders every enumerated body with the real code.
func ReplayComments(ctx *core.Ctx, cases []*CommentCase) {
	var wg sync.WaitGroup
	jobs := make(chan *CommentCase, 256)
	var renders, judged, unspec, withComment, expErr int64
	nw := runtime.NumCPU()
	if nw > 16 {
		nw = 16
	}
	for w := 0; w < nw; w++ {
		wg.Add(1)
		go func() {
			defer wg.Done()
			for c := range jobs {
				c.File = TemplateFile(c.Body)
				c.Obs = RenderFile(c.File)
				atomic.AddInt64(&renders, 1)
				switch c.Verdict {
				case "unspec":
					atomic.AddInt64(&unspec, 1)
					if c.Obs.Panicked {
						ctx.Violation(core.Sig{Family: "comment", Feature: "panic"}, fmt.Sprintf("body %+q: %s", c.Body, c.Obs.Err), c)
					}
					continue
				case "err":
					atomic.AddInt64(&judged, 1)
					atomic.AddInt64(&expErr, 1)
					if c.Obs.Panicked {
						ctx.Violation(core.Sig{Family: "comment", Feature: "panic"}, fmt.Sprintf("body %+q: %s", c.Body, c.Obs.Err), c)
					} else if !c.Obs.Compile {
						ctx.Violation(core.Sig{Family: "comment", Feature: "unclosed-block-comment-accepted"},
							fmt.Sprintf("body %+q has an unclosed block comment but compiled; output %+q", c.Body, c.Obs.Out), c)
					}
					continue
				}
				atomic.AddInt64(&judged, 1)
				if c.Comments > 0 {
					atomic.AddInt64(&withComment, 1)
				}
				if c.Obs.Err == "" && contains(c.Acceptable, c.Obs.Out) {
					continue
				}
				sig := core.Sig{Family: "comment", Feature: classifyComment(c)}
				if c.Comments == 0 && c.Obs.Err == "" && len(c.Acceptable) == 1 {
					// no comment in the body: a plain text failure
					sig = core.Sig{Family: "text", Feature: ClassifyText(c.Body, c.Acceptable[0], c.Obs.Out)}
					if len(nonWs(c.Obs.Out)) < len(nonWs(c.Acceptable[0])) {
						sig = core.Sig{Family: "comment", Feature: "text-taken-for-comment:has=" + commentKinds(c.Body)}
					}
				}
				ctx.Violation(sig,
					fmt.Sprintf("body %+q (%d comments per the spec): real output %+q (err %q), the spec allows %+q", c.Body, c.Comments, c.Obs.Out, c.Obs.Err, c.Acceptable), c)
			}
		}()
	}
	for _, c := range cases {
		if c.Comments > 0 || strings.Contains(c.Body, "/") {
			ctx.Distinct("comment:" + c.Body)
		}
		jobs <- c
	}
	close(jobs)
	wg.Wait()
	ctx.AddEvals(renders)
	ctx.AddTraces(judged)
	setExtra(ctx, "replay_comments", map[string]interface{}{
		"bodies": len(cases), "judged": judged, "with_comment": withComment, "expected_compile_error": expErr, "unspec_not_judged": unspec,
		"alphabet": []string{"a", "/", "*", "space", "LF"},
	})
}

func commentKinds(body string) string {
	var k []string
	if strings.Contains(body, "//") {
		k = append(k, "slashslash")
	}
	if strings.Contains(body, "/*") {
		k = append(k, "slashstar")
	}
	if len(k) == 0 {
		return "none"
	}
	return strings.Join(k, "+")
}

func classifyComment(c *CommentCase) string {
	switch {
	case c.Obs.Panicked:
		return "panic"
	case c.Obs.Compile:
		return "valid-body-rejected:has=" + commentKinds(c.Body)
	case c.Obs.Err != "":
		return "render-error"
	}
	got := len(nonWs(c.Obs.Out))
	want := -1
	for _, a := range c.Acceptable {
		want = len(nonWs(a))
		break
	}
	switch {
	case got > want && c.Comments > 0:
		return "comment-not-recognised:has=" + commentKinds(c.Body)
	case got > want:
		return "extra-nonws:has=" + commentKinds(c.Body)
	case got < want:
		return "text-taken-for-comment:has=" + commentKinds(c.Body)
	}
	for _, a := range c.Acceptable {
		if string(nonWs(a)) != string(nonWs(c.Obs.Out)) {
			return "altered-nonws:has=" + commentKinds(c.Body)
		}
		break
	}
	return "whitespace-next-to-comment-not-allowed-by-any-reading:has=" + commentKinds(c.Body)
}
