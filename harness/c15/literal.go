package c15

import (
	"fmt"
	"runtime"
	"strings"
	"sync"
	"sync/atomic"
	"time"

	"verif/core"
)

// The literal family (mode M2): TLC enumerates every body of up to n ATOMS
// (single characters and hazards) and says, for the single- and the
// double-brace form of the block, whether the body is emitted verbatim
// (SoyRawText!LitCase) or the block ends early (body contains its own closing
// tag: not judged). The harness renders every judged block at the start/end
// of the template, between print tags and between text runs (whose joining
// TLC computes with RuleA), and demands exactly before + body + after.

// Stand-ins inside the model: 'E' = U+00E9 ("e" occurs in "literal"), 'P' =
// U+2028, 'Q' = U+2029, 'N' = U+0085 (NEL), 'V' = VT, 'F' = FF. Every kind
// of line break is an atom (LF, CR, CR LF; LF CR by two atoms).
var litAtoms = []string{"a", "{", "}", "{/literal}", "{{/literal}}", "/literal}", "{literal}", " // c", "/* c */",
	"\n  ", " ", "{sp}", "{lb}", "\"", "E", "\n", "\r", "\r\n", "P", "Q", "N", "V", "F"}

// the hazards proper, for one more atom of depth in the thorough tier
var litAtomsCore = []string{"a", "{", "}", "{/literal}", "{{/literal}}", "/literal}", " // c", "\n", "\r", "\r\n"}
var litReal = map[rune]string{'E': "\u00e9", 'P': "\u2028", 'Q': "\u2029", 'N': "\u0085", 'V': "\v", 'F': "\f"}

// LiteralCase is the replay record of one literal block.
type LiteralCase struct {
	Kind       string   `json:"kind"` // "literal"
	Body       string   `json:"body"`
	Double     bool     `json:"doubleBrace"`
	Eol        string   `json:"fileLineEnds"` // lf | crlf | cr: the line-end form of the complete source
	Before     string   `json:"before"`       // source before the block
	After      string   `json:"after"`
	File       string   `json:"file"`
	Acceptable []string `json:"acceptable"`
	Obs        Obs      `json:"observed"`
}

type litCtx struct{ preSrc, postSrc, preOut, postOut string }

type litBody struct {
	eol     string
	body    string
	double  bool
	verdict string
	out     string
	atoms   int // number of atoms
	idx     int
}

// EnumerateLiterals runs the enumerator; the same run checks LitExact.
func EnumerateLiterals(ctx *core.Ctx, atoms []string, n int, label string) ([]litBody, map[string][]litCtx, error) {
	cfg := fmt.Sprintf("CONSTANTS\n  Alpha <- AlphaRun\n  N = %d\n  Dev = {}\nINIT EnumInit\nNEXT Next\nINVARIANTS PrintLiteral LitExact\nCHECK_DEADLOCK FALSE\n", n)
	res, err := runTLC(ctx, core.TLCOpts{Module: "C15Run", Cfg: cfg, Files: map[string][]byte{"C15Run.tla": wrapperModule(atoms)},
		Workers: 1, Timeout: 8 * time.Minute, Label: "M2-enumerate-" + label})
	if err != nil {
		return nil, nil, err
	}
	if res.Violated != "" {
		return nil, nil, fmt.Errorf("literal enumerator reported %s (spec bug): %s", res.Violated, trunc(res.Trace, 400))
	}
	vals, err := ParseTuples(res.Stdout, "L", "LC")
	if err != nil {
		return nil, nil, err
	}
	var bodies []litBody
	ctxs := map[string][]litCtx{}
	for e := range eolOf {
		ctxs[e] = []litCtx{{"{$x}", "{$x}", "X", "X"}, {"{sp}", "{call .u/}", " ", "U"}}
	}
	native := 0
	for _, v := range vals {
		switch v.L[0].S {
		case "L":
			if len(v.L) != 7 {
				return nil, nil, fmt.Errorf("malformed L tuple")
			}
			b, e1 := v.L[3].Text(litReal)
			o, e2 := v.L[6].Text(litReal)
			if e1 != nil || e2 != nil || eolOf[v.L[1].S] == "" {
				return nil, nil, fmt.Errorf("malformed L tuple: %v %v", e1, e2)
			}
			if v.L[1].S == "lf" {
				native++
			}
			bodies = append(bodies, litBody{eol: v.L[1].S, atoms: v.L[2].I, body: b, double: v.L[4].B, verdict: v.L[5].S, out: o})
		case "LC":
			if len(v.L) != 7 || eolOf[v.L[1].S] == "" {
				return nil, nil, fmt.Errorf("malformed LC tuple")
			}
			var t [4]string
			for i := 0; i < 4; i++ {
				x, err := v.L[3+i].Text(nil)
				if err != nil {
					return nil, nil, err
				}
				t[i] = x
			}
			ctxs[v.L[1].S] = append(ctxs[v.L[1].S], litCtx{t[0], t[1], t[2], t[3]})
		}
	}
	if want := 2 * countStrings(len(atoms), n); native != want {
		return nil, nil, fmt.Errorf("TLC enumerated %d literal blocks, expected %d", native, want)
	}
	for e, c := range ctxs {
		if len(c) < 5 {
			return nil, nil, fmt.Errorf("TLC printed %d literal contexts for line ends %s", len(c)-2, e)
		}
	}
	return bodies, ctxs, nil
}

// ReplayLiterals renders every judged block in every context.
func ReplayLiterals(ctx *core.Ctx, label string, atoms []string, bodies []litBody, ctxs map[string][]litCtx, fullAtoms int) {
	var wg sync.WaitGroup
	jobs := make(chan litBody, 256)
	var renders, judged, unspec int64
	nw := runtime.NumCPU()
	if nw > 16 {
		nw = 16
	}
	for w := 0; w < nw; w++ {
		wg.Add(1)
		go func() {
			defer wg.Done()
			for b := range jobs {
				if b.verdict == "unspec" {
					atomic.AddInt64(&unspec, 1)
					continue
				}
				atomic.AddInt64(&judged, 1)
				g := Seg{K: "lit", S: b.body, D: b.double}
				all := ctxs[b.eol]
				use := all
				if b.atoms > fullAtoms {
					// the longest bodies: two contexts each, rotating
					use = []litCtx{all[b.idx%len(all)], all[(b.idx+3)%len(all)]}
				}
				for _, c := range use {
					lc := &LiteralCase{Kind: "literal", Body: b.body, Double: b.double, Eol: b.eol, Before: c.preSrc, After: c.postSrc}
					lc.File = TemplateFileEol(c.preSrc+g.source()+c.postSrc, eolOf[b.eol])
					lc.Obs = RenderFile(lc.File)
					atomic.AddInt64(&renders, 1)
					want := c.preOut + b.out + c.postOut
					if b.verdict == "ok" && lc.Obs.Err == "" && lc.Obs.Out == want {
						continue
					}
					lc.Acceptable = []string{want}
					form := "single-brace"
					if b.double {
						form = "double-brace"
					}
					if lc.Obs.Err == "" && strings.ReplaceAll(lc.Obs.Out, "\r", "") == strings.ReplaceAll(want, "\r", "") && strings.Count(lc.Obs.Out, "\n") == strings.Count(want, "\n") {
						form += ",line-ends-converted"
					}
					feature := "not-verbatim:" + form
					switch {
					case lc.Obs.Panicked:
						feature = "panic"
					case lc.Obs.Compile && b.body == "":
						feature = "empty-literal-rejected"
					case lc.Obs.Compile:
						feature = "valid-literal-block-rejected:" + form
					case lc.Obs.Err != "":
						feature = "render-error"
					case b.verdict != "ok":
						feature = "spec-says-" + b.verdict
					}
					ctx.Violation(core.Sig{Family: "literal", Feature: feature},
						fmt.Sprintf("%s literal block with body %+q between %+q and %+q: real output %+q (err %q), must be %+q",
							form, b.body, c.preSrc, c.postSrc, lc.Obs.Out, lc.Obs.Err, want), lc)
				}
			}
		}()
	}
	for i, b := range bodies {
		ctx.Distinct(fmt.Sprintf("literal:%s:%v:%s", b.eol, b.double, b.body))
		b.idx = i
		jobs <- b
	}
	close(jobs)
	wg.Wait()
	ctx.AddEvals(renders)
	ctx.AddTraces(judged)
	setExtra(ctx, "replay_"+label, map[string]interface{}{
		"atoms": atoms, "blocks": len(bodies), "judged": judged, "unspec_body_contains_own_closing_tag": unspec,
		"contexts_per_line_end_form": len(ctxs["lf"]), "line_end_forms": []string{"lf", "crlf (whole source)", "cr (whole source)"}, "renders": renders,
	})
}
