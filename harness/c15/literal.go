package c15

import (
	"fmt"
	"runtime"
	"sync"
	"sync/atomic"
	"time"

	"verif/core"
)

// The literal family (mode M2): TLC enumerates every body of up to n ATOMS
// (single characters and hazards) and says, for the single- and the
// double-brace form of the block, whether the body is emitted verbatim
// (SoyRawText!LitCase) or the block ends early (body contains its own closing
// tag: not judged). The harness renders every judged block at the start/end
// of the template, between print tags and between text runs (whose joining
// TLC computes with RuleA), and demands exactly before + body + after.

// 'E' stands for U+00E9 inside the model ("e" occurs in "literal")
var litAtoms = []string{"a", "{", "}", "{/literal}", "{{/literal}}", "/literal}", "{literal}", " // c", "/* c */",
	"\n  ", " ", "{sp}", "{nil}", "{lb}", "\"", "'", "E", "\n"}
var litReal = map[rune]string{'E': "é"}

// LiteralCase is the replay record of one literal block.
type LiteralCase struct {
	Kind       string   `json:"kind"` // "literal"
	Body       string   `json:"body"`
	Double     bool     `json:"doubleBrace"`
	Before     string   `json:"before"` // source before the block
	After      string   `json:"after"`
	File       string   `json:"file"`
	Acceptable []string `json:"acceptable"`
	Obs        Obs      `json:"observed"`
}

type litCtx struct{ preSrc, postSrc, preOut, postOut string }

type litBody struct {
	body    string
	double  bool
	verdict string
	out     string
}

// EnumerateLiterals runs the enumerator; the same run checks LitExact.
func EnumerateLiterals(ctx *core.Ctx, n int) ([]litBody, []litCtx, error) {
	cfg := fmt.Sprintf("CONSTANTS\n  Alpha <- AlphaRun\n  N = %d\n  Dev = {}\nINIT EnumInit\nNEXT Next\nINVARIANTS PrintLiteral LitExact\nCHECK_DEADLOCK FALSE\n", n)
	res, err := runTLC(ctx, core.TLCOpts{Module: "C15Run", Cfg: cfg, Files: map[string][]byte{"C15Run.tla": wrapperModule(litAtoms)},
		Workers: 1, Timeout: 8 * time.Minute, Label: "M2-enumerate-literals"})
	if err != nil {
		return nil, nil, err
	}
	if res.Violated != "" {
		return nil, nil, fmt.Errorf("literal enumerator reported %s (spec bug): %s", res.Violated, trunc(res.Trace, 400))
	}
	vals, err := ParseTuples(res.Stdout, "L", "LC")
	if err != nil {
		return nil, nil, err
	}
	var bodies []litBody
	ctxs := []litCtx{{"{$x}", "{$x}", "X", "X"}, {"{sp}", "{call .u/}", " ", "U"}}
	for _, v := range vals {
		switch v.L[0].S {
		case "L":
			if len(v.L) != 5 {
				return nil, nil, fmt.Errorf("malformed L tuple")
			}
			b, e1 := v.L[1].Text(litReal)
			o, e2 := v.L[4].Text(litReal)
			if e1 != nil || e2 != nil {
				return nil, nil, fmt.Errorf("malformed L tuple: %v %v", e1, e2)
			}
			bodies = append(bodies, litBody{b, v.L[2].B, v.L[3].S, o})
		case "LC":
			if len(v.L) != 6 {
				return nil, nil, fmt.Errorf("malformed LC tuple")
			}
			var t [4]string
			for i := 0; i < 4; i++ {
				x, err := v.L[2+i].Text(nil)
				if err != nil {
					return nil, nil, err
				}
				t[i] = x
			}
			ctxs = append(ctxs, litCtx{t[0], t[1], t[2], t[3]})
		}
	}
	if want := 2 * countStrings(len(litAtoms), n); len(bodies) != want {
		return nil, nil, fmt.Errorf("TLC enumerated %d literal blocks, expected %d", len(bodies), want)
	}
	if len(ctxs) < 5 {
		return nil, nil, fmt.Errorf("TLC printed %d literal contexts", len(ctxs)-2)
	}
	return bodies, ctxs, nil
}

// ReplayLiterals renders every judged block in every context.
func ReplayLiterals(ctx *core.Ctx, bodies []litBody, ctxs []litCtx) {
	var wg sync.WaitGroup
	jobs := make(chan litBody, 256)
	var renders, judged, unspec int64
	nw := runtime.NumCPU()
	if nw > 16 {
		nw = 16
	}
	for w := 0; w < nw; w++ {
		wg.Add(1)
		go func() {
			defer wg.Done()
			for b := range jobs {
				if b.verdict == "unspec" {
					atomic.AddInt64(&unspec, 1)
					continue
				}
				atomic.AddInt64(&judged, 1)
				g := Seg{K: "lit", S: b.body, D: b.double}
				for _, c := range ctxs {
					lc := &LiteralCase{Kind: "literal", Body: b.body, Double: b.double, Before: c.preSrc, After: c.postSrc}
					lc.File = TemplateFile(c.preSrc + g.source() + c.postSrc)
					lc.Obs = RenderFile(lc.File)
					atomic.AddInt64(&renders, 1)
					want := c.preOut + b.out + c.postOut
					if b.verdict == "ok" && lc.Obs.Err == "" && lc.Obs.Out == want {
						continue
					}
					lc.Acceptable = []string{want}
					form := "single-brace"
					if b.double {
						form = "double-brace"
					}
					feature := "not-verbatim:" + form
					switch {
					case lc.Obs.Panicked:
						feature = "panic"
					case lc.Obs.Compile && b.body == "":
						feature = "empty-literal-rejected"
					case lc.Obs.Compile:
						feature = "valid-literal-block-rejected:" + form
					case lc.Obs.Err != "":
						feature = "render-error"
					case b.verdict != "ok":
						feature = "spec-says-" + b.verdict
					}
					ctx.Violation(core.Sig{Family: "literal", Feature: feature},
						fmt.Sprintf("%s literal block with body %+q between %+q and %+q: real output %+q (err %q), must be %+q",
							form, b.body, c.preSrc, c.postSrc, lc.Obs.Out, lc.Obs.Err, want), lc)
				}
			}
		}()
	}
	for _, b := range bodies {
		ctx.Distinct(fmt.Sprintf("literal:%v:%s", b.double, b.body))
		jobs <- b
	}
	close(jobs)
	wg.Wait()
	ctx.AddEvals(renders)
	ctx.AddTraces(judged)
	setExtra(ctx, "replay_literals", map[string]interface{}{
		"atoms": litAtoms, "blocks": len(bodies), "judged": judged, "unspec_body_contains_own_closing_tag": unspec,
		"contexts": len(ctxs), "renders": renders,
	})
}
