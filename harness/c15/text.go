package c15

import (
	"fmt"
	"runtime"
	"sort"
	"strconv"
	"strings"
	"sync"
	"sync/atomic"
	"time"
	"unicode"
	"unicode/utf8"

	"github.com/robfig/soy/data"

	"verif/core"
)

// ---------------------------------------------------------------------------
// Neighbours of a text run.

// Neighbour is what stands to the left or right of the text under test.
type Neighbour struct {
	Name    string
	Src     string // source placed next to the body
	Out     string // what it contributes to the output
	Open    string // source that must come at the very beginning of the template (right neighbours that close a block)
	Close   string // source that must come at the very end of the template (left neighbours that open a block)
	Comment bool
	Line    bool // a line comment
}

// Left neighbours: the body follows them directly.
var lefts = []Neighbour{
	{Name: "tpl"},
	{Name: "print", Src: "{$x}", Out: "X"},
	{Name: "sp", Src: "{sp}", Out: " "},
	{Name: "nil", Src: "{nil}"},
	{Name: "ifopen", Src: "{if $t}", Close: "{/if}"},
	{Name: "ifclose", Src: "{if $t}Q{/if}", Out: "Q"},
	{Name: "else", Src: "{if not $t}Q{else}", Close: "{/if}"},
	{Name: "call", Src: "{call .u/}", Out: "U"},
	{Name: "literal", Src: "{literal}L{/literal}", Out: "L"},
	{Name: "linecomment", Src: "\n// c\n", Comment: true, Line: true},
	{Name: "blockcomment", Src: "/* c */", Comment: true},
}

// Right neighbours: they follow the body directly.
var rights = []Neighbour{
	{Name: "tpl"},
	{Name: "print", Src: "{$x}", Out: "X"},
	{Name: "sp", Src: "{sp}", Out: " "},
	{Name: "nil", Src: "{nil}"},
	{Name: "ifopen", Src: "{if $t}Q{/if}", Out: "Q"},
	{Name: "ifclose", Src: "{/if}", Open: "{if $t}"},
	{Name: "else", Src: "{else}Q{/if}", Open: "{if $t}"},
	{Name: "call", Src: "{call .u/}", Out: "U"},
	{Name: "literal", Src: "{literal}L{/literal}", Out: "L"},
	{Name: "linecomment", Src: "// c\n", Comment: true, Line: true},
	{Name: "blockcomment", Src: "/* c */", Comment: true},
}

var renderData = data.Map{"x": data.String("X"), "t": data.Bool(true)}

// TemplateFile wraps a template body into a complete Soy file. Params are
// declared only when used (the compiler rejects unused params).
func TemplateFile(body string) string { return TemplateFileEol(body, "\n") }

// TemplateFileEol is TemplateFile with the given line end in the wrapper
// (the body is used as it is).
func TemplateFileEol(body, nl string) string {
	var b strings.Builder
	b.WriteString("{namespace t}" + nl + nl + "/**" + nl)
	if strings.Contains(body, "$x") {
		b.WriteString(" * @param x" + nl)
	}
	if strings.Contains(body, "$t") {
		b.WriteString(" * @param t" + nl)
	}
	b.WriteString(" */" + nl + "{template .m}")
	b.WriteString(body)
	b.WriteString("{/template}" + nl)
	if strings.Contains(body, "{call .u/}") {
		b.WriteString(nl + "/** */" + nl + "{template .u}U{/template}" + nl)
	}
	return b.String()
}

var eolOf = map[string]string{"lf": "\n", "crlf": "\r\n", "cr": "\r"}

// Obs is the observable outcome of compiling and rendering one template.
type Obs struct {
	Out      string `json:"out"`
	Err      string `json:"err,omitempty"`
	Compile  bool   `json:"compileError,omitempty"`
	Panicked bool   `json:"panicked,omitempty"`
}

// RenderFile compiles a file with the real compiler and renders t.m with the
// real soyhtml.
func RenderFile(file string) Obs {
	comp, err, panicked := core.Compile([]core.File{{Name: "t.soy", Text: file}}, nil)
	if err != nil {
		return Obs{Err: err.Error(), Compile: true, Panicked: panicked}
	}
	res := comp.Render("t.m", renderData, nil)
	o := Obs{Out: res.Out, Panicked: res.Panicked}
	if res.Err != nil {
		o.Err = res.Err.Error()
	}
	return o
}

// ---------------------------------------------------------------------------
// Families of texts enumerated by TLC.

// TextExp is what the spec says about one text run.
type TextExp struct {
	Exact string   // RuleA(s)
	WL    []string // Acceptable(s, comment on the left, -)
	WR    []string // Acceptable(s, -, comment on the right)
	WLR   []string // Acceptable(s, comment on both sides)
}

// TextFamily is a complete enumeration of the strings of length <= N over an
// alphabet, with the spec's expectation for each.
type TextFamily struct {
	Name   string
	Alpha  []string        // model characters (stand-ins for multi-byte runes)
	Real   map[rune]string // stand-in -> real rune
	N      int
	Order  []string // texts in the order TLC printed them
	Expect map[string]*TextExp
}

func tlaString(s string) string {
	r := strings.NewReplacer(`\`, `\\`, `"`, `\"`, "\t", `\t`, "\n", `\n`, "\r", `\r`, "\f", `\f`)
	return `"` + r.Replace(s) + `"`
}

func wrapperModule(alpha []string) []byte {
	var q []string
	for _, a := range alpha {
		q = append(q, tlaString(a))
	}
	return []byte("---- MODULE C15Run ----\nEXTENDS SoyRawText\nAlphaRun == <<" + strings.Join(q, ", ") + ">>\n====\n")
}

func pow(b, e int) int {
	r := 1
	for i := 0; i < e; i++ {
		r *= b
	}
	return r
}

func countStrings(alpha, n int) int {
	t := 0
	for k := 0; k <= n; k++ {
		t += pow(alpha, k)
	}
	return t
}

// EnumerateTexts has TLC enumerate every string of length <= n over alpha with
// the expectations of rule (A) (mode M2).
func EnumerateTexts(ctx *core.Ctx, name string, alpha []string, real map[rune]string, n int) (*TextFamily, error) {
	cfg := fmt.Sprintf("CONSTANTS\n  Alpha <- AlphaRun\n  N = %d\n  Dev = {}\nINIT EnumInit\nNEXT Next\nINVARIANT PrintText\nCHECK_DEADLOCK FALSE\n", n)
	res, err := runTLC(ctx, core.TLCOpts{Module: "C15Run", Cfg: cfg, Files: map[string][]byte{"C15Run.tla": wrapperModule(alpha)},
		Workers: 1, Timeout: 8 * time.Minute, Label: "M2-enumerate-" + name})
	if err != nil {
		return nil, err
	}
	if res.Violated != "" {
		return nil, fmt.Errorf("enumerator reported %s", res.Violated)
	}
	vals, err := ParseTuples(res.Stdout, "T")
	if err != nil {
		return nil, err
	}
	f := &TextFamily{Name: name, Alpha: alpha, Real: real, N: n, Expect: map[string]*TextExp{}}
	for _, v := range vals {
		if len(v.L) != 6 {
			return nil, fmt.Errorf("malformed T tuple with %d fields", len(v.L))
		}
		s, e1 := v.L[1].Text(real)
		ex, e2 := v.L[2].Text(real)
		wl, e3 := v.L[3].Texts(real)
		wr, e4 := v.L[4].Texts(real)
		wlr, e5 := v.L[5].Texts(real)
		for _, e := range []error{e1, e2, e3, e4, e5} {
			if e != nil {
				return nil, e
			}
		}
		if _, dup := f.Expect[s]; dup {
			return nil, fmt.Errorf("text %q enumerated twice", s)
		}
		f.Expect[s] = &TextExp{Exact: ex, WL: wl, WR: wr, WLR: wlr}
		f.Order = append(f.Order, s)
	}
	if want := countStrings(len(alpha), n); len(f.Order) != want {
		return nil, fmt.Errorf("TLC enumerated %d texts, expected %d (all strings of length <= %d over %d characters)", len(f.Order), want, n, len(alpha))
	}
	return f, nil
}

// ---------------------------------------------------------------------------
// Replay of a text family through the real code.

// TextCase is the replay record of one rendered template.
type TextCase struct {
	Kind       string   `json:"kind"` // "text"
	Family     string   `json:"family"`
	Text       string   `json:"text"` // the text run under test (after a separator blank was added for a line comment)
	Left       string   `json:"left"` // neighbour names
	Right      string   `json:"right"`
	File       string   `json:"file"`       // complete Soy source
	Acceptable []string `json:"acceptable"` // complete outputs the spec allows
	Obs        Obs      `json:"observed"`
	// Go-quoted copies, present when the source is not valid UTF-8 (JSON
	// cannot carry such bytes); --replay prefers them
	FileQ       string   `json:"fileQuoted,omitempty"`
	AcceptableQ []string `json:"acceptableQuoted,omitempty"`
	OutQ        string   `json:"observedOutQuoted,omitempty"`
}

// quoteInvalid fills the quoted copies of a case whose source has bytes that
// are not valid UTF-8.
func (tc *TextCase) quoteInvalid() {
	if utf8.ValidString(tc.File) {
		return
	}
	tc.FileQ = strconv.QuoteToASCII(tc.File)
	for _, a := range tc.Acceptable {
		tc.AcceptableQ = append(tc.AcceptableQ, strconv.QuoteToASCII(a))
	}
	tc.OutQ = strconv.QuoteToASCII(tc.Obs.Out)
}

func isWsByte(c byte) bool { return c == ' ' || c == '\t' || c == '\r' || c == '\n' }

func hasWs(s string) bool {
	for i := 0; i < len(s); i++ {
		if isWsByte(s[i]) {
			return true
		}
	}
	return false
}

// buildText places text s between neighbours l and r. It returns the body,
// the text run actually under test and whether the pair is usable.
func buildText(s string, l, r Neighbour, maxLen int) (body, run string, ok bool) {
	run = s
	if r.Line {
		// "//" opens a comment only after whitespace: if the run does not end
		// in whitespace a blank is added, and the run under test is s+" ".
		if s == "" || !isWsByte(s[len(s)-1]) {
			if utf8.RuneCountInString(s) >= maxLen {
				return "", "", false
			}
			run = s + " "
		}
	}
	if l.Close != "" && r.Open != "" {
		// the left neighbour opens the block that the right neighbour closes
		if l.Name == "else" && r.Name == "else" {
			return "", "", false // two {else} in one {if}
		}
		return l.Src + run + r.Src, run, true
	}
	body = r.Open + l.Src + run + r.Src + l.Close
	return body, run, true
}

func acceptableFor(exp *TextExp, l, r Neighbour) []string {
	var mids []string
	switch {
	case l.Comment && r.Comment:
		mids = exp.WLR
	case l.Comment:
		mids = exp.WL
	case r.Comment:
		mids = exp.WR
	default:
		mids = []string{exp.Exact}
	}
	res := make([]string, len(mids))
	for i, m := range mids {
		res[i] = l.Out + m + r.Out
	}
	return res
}

func contains(l []string, s string) bool {
	for _, x := range l {
		if x == s {
			return true
		}
	}
	return false
}

// stall detection: a render that does not come back is tool trouble for C15
// (hangs are C05/C06's business), but it must not go unnoticed.
type progress struct {
	done    int64
	current sync.Map // worker -> file
}

// ReplayTexts renders every text of the family between neighbour pairs.
// Texts up to fullLen characters get the full L x R matrix; longer ones get
// every left and every right neighbour at least once (rotating partner).
func ReplayTexts(ctx *core.Ctx, f *TextFamily, fullLen int) {
	type job struct {
		idx int
		s   string
	}
	jobs := make(chan job, 1024)
	var wg sync.WaitGroup
	var renders, cases, skipped int64
	nw := runtime.NumCPU()
	if nw > 16 {
		nw = 16
	}
	var pairCount sync.Map
	for w := 0; w < nw; w++ {
		wg.Add(1)
		go func() {
			defer wg.Done()
			local := map[string]int{}
			for j := range jobs {
				var pairs [][2]int
				if utf8.RuneCountInString(j.s) <= fullLen {
					for li := range lefts {
						for ri := range rights {
							pairs = append(pairs, [2]int{li, ri})
						}
					}
				} else {
					h := j.idx
					seen := map[[2]int]bool{}
					for li := range lefts {
						p := [2]int{li, (li + h) % len(rights)}
						if !seen[p] {
							seen[p] = true
							pairs = append(pairs, p)
						}
					}
					for ri := range rights {
						p := [2]int{(ri + h/len(rights) + 1) % len(lefts), ri}
						if !seen[p] {
							seen[p] = true
							pairs = append(pairs, p)
						}
					}
				}
				for _, p := range pairs {
					l, r := lefts[p[0]], rights[p[1]]
					body, run, ok := buildText(j.s, l, r, f.N)
					if !ok {
						atomic.AddInt64(&skipped, 1)
						continue
					}
					exp := f.Expect[run]
					if exp == nil {
						atomic.AddInt64(&skipped, 1)
						continue
					}
					file := TemplateFile(body)
					obs := RenderFile(file)
					atomic.AddInt64(&renders, 1)
					local[l.Name+"|"+r.Name]++
					acc := acceptableFor(exp, l, r)
					if obs.Err == "" && contains(acc, obs.Out) {
						continue
					}
					sort.Strings(acc)
					tc := &TextCase{Kind: "text", Family: f.Name, Text: run, Left: l.Name, Right: r.Name, File: file, Acceptable: acc, Obs: obs}
					reportText(ctx, tc, exp, l, r)
				}
				atomic.AddInt64(&cases, 1)
			}
			for k, v := range local {
				old, _ := pairCount.LoadOrStore(k, new(int64))
				atomic.AddInt64(old.(*int64), int64(v))
			}
		}()
	}
	for i, s := range f.Order {
		jobs <- job{i, s}
		if hasWs(s) {
			ctx.Distinct(f.Name + ":" + s)
		}
	}
	close(jobs)
	wg.Wait()
	ctx.AddEvals(renders)
	ctx.AddTraces(cases)
	minPair, nPairs := int64(-1), 0
	pairCount.Range(func(k, v interface{}) bool {
		n := atomic.LoadInt64(v.(*int64))
		if minPair < 0 || n < minPair {
			minPair = n
		}
		nPairs++
		return true
	})
	setExtra(ctx, "replay_"+f.Name, map[string]interface{}{
		"texts": len(f.Order), "max_len": f.N, "alphabet": alphaNames(f), "full_matrix_up_to_len": fullLen,
		"renders": renders, "pairs_not_applicable": skipped, "neighbour_pairs_used": nPairs, "min_renders_per_pair": minPair,
	})
}

func alphaNames(f *TextFamily) []string {
	var res []string
	for _, a := range f.Alpha {
		res = append(res, fmt.Sprintf("%+q", mapStandIns(a, f.Real)))
	}
	return res
}

func reportText(ctx *core.Ctx, tc *TextCase, exp *TextExp, l, r Neighbour) {
	fam := "text"
	var feature string
	tc.quoteInvalid()
	invalid := !utf8.ValidString(tc.Text)
	switch {
	case tc.Obs.Panicked && invalid:
		feature = "panic:text-with-invalid-utf8-bytes"
	case invalid && tc.Obs.Err == "" && !utf8.ValidString(tc.Text) && string(nonWsBytes(tc.Obs.Out)) != string(nonWsBytes(l.Out+tc.Text+r.Out)):
		feature = "invalid-utf8-bytes-not-copied-verbatim"
	case tc.Obs.Panicked:
		feature = "panic"
	case tc.Obs.Compile:
		feature = "compile-error"
	case tc.Obs.Err != "":
		feature = "render-error"
	default:
		mid, ok := stripNeighbours(tc.Obs.Out, l.Out, r.Out)
		if !ok {
			feature = "neighbour-output-changed:left=" + l.Name + ",right=" + r.Name
			break
		}
		if l.Comment || r.Comment {
			feature = ClassifyText(tc.Text, pinnedOf(exp, l, r), mid)
			if strings.HasPrefix(feature, "ws:") && !strings.HasPrefix(feature, "ws:pos=inner") {
				// a whitespace decision next to a comment; damage to
				// non-whitespace characters keeps the signature of family text
				fam = "comment"
				feature = "next-to-comment:" + feature
			}
		} else {
			feature = ClassifyText(tc.Text, exp.Exact, mid)
		}
	}
	ctx.Violation(core.Sig{Family: fam, Feature: feature},
		fmt.Sprintf("text %+q between %s and %s: real output %+q (err %q), the rule allows %+q", tc.Text, l.Name, r.Name, tc.Obs.Out, tc.Obs.Err, tc.Acceptable), tc)
}

// pinnedOf picks, for the classification of a failure next to a comment, the
// acceptable output with the least whitespace (the reading the tests pin).
func pinnedOf(exp *TextExp, l, r Neighbour) string {
	var set []string
	switch {
	case l.Comment && r.Comment:
		set = exp.WLR
	case l.Comment:
		set = exp.WL
	default:
		set = exp.WR
	}
	best := ""
	for i, s := range set {
		if i == 0 || len(s) < len(best) {
			best = s
		}
	}
	return best
}

func stripNeighbours(out, lo, ro string) (string, bool) {
	if !strings.HasPrefix(out, lo) {
		return "", false
	}
	out = out[len(lo):]
	if !strings.HasSuffix(out, ro) {
		return "", false
	}
	return out[:len(out)-len(ro)], true
}

// ---------------------------------------------------------------------------
// Structural classification of a wrong normalisation.

// nonWsBytes drops the four whitespace bytes (byte-level view, for texts that
// are not valid UTF-8).
func nonWsBytes(s string) []byte {
	var res []byte
	for i := 0; i < len(s); i++ {
		if !isWsByte(s[i]) {
			res = append(res, s[i])
		}
	}
	return res
}

func isWsRune(r rune) bool { return r == ' ' || r == '\t' || r == '\r' || r == '\n' }

func nonWs(s string) []rune {
	var res []rune
	for _, r := range s {
		if !isWsRune(r) {
			res = append(res, r)
		}
	}
	return res
}

// gaps returns the whitespace before the first non-whitespace rune, between
// consecutive ones and after the last (len = non-whitespace runes + 1).
func gaps(s string) []string {
	var res []string
	var cur strings.Builder
	for _, r := range s {
		if isWsRune(r) {
			cur.WriteRune(r)
		} else {
			res = append(res, cur.String())
			cur.Reset()
		}
	}
	return append(res, cur.String())
}

func runeClass(r rune) string {
	switch {
	case r == '<' || r == '>':
		return "tight-joiner"
	case unicode.IsSpace(r):
		return "unicode-space"
	case r == utf8.RuneError:
		return "invalid-utf8"
	case r >= 0x10000:
		return "astral"
	case r >= 0x80:
		return "multibyte"
	}
	return "ascii"
}

func wsShape(g, src string) string {
	switch {
	case g == "":
		return "none"
	case g == " " && src != " ":
		return "space"
	case g == src:
		return "verbatim"
	case g == " ":
		return "space"
	case g == "  ":
		return "two-spaces"
	case strings.ContainsAny(g, "\r\n"):
		return "with-linebreak"
	}
	return "other"
}

// ClassifyText names the first structural difference between the expected
// normalisation `want` of source text `src` and the observed `got`.
func ClassifyText(src, want, got string) string {
	sn, gn := nonWs(src), nonWs(got)
	if string(sn) != string(gn) {
		// which rune went missing / changed first?
		i := 0
		for i < len(sn) && i < len(gn) && sn[i] == gn[i] {
			i++
		}
		if i < len(sn) && (len(gn) < len(sn)) {
			cls := runeClass(sn[i])
			if cls == "unicode-space" {
				// is the whole token made of whitespace and Unicode spaces with a line break?
				all, lb := true, false
				for _, r := range src {
					if r == '\r' || r == '\n' {
						lb = true
					}
					if !unicode.IsSpace(r) {
						all = false
					}
				}
				if all && lb {
					return "lost-nonws:unicode-space,run=only-unicode-space-and-whitespace-with-linebreak"
				}
			}
			return "lost-nonws:" + cls
		}
		if len(gn) > len(sn) {
			return "extra-nonws"
		}
		return "altered-nonws:" + runeClass(sn[i])
	}
	sg, wg, gg := gaps(src), gaps(want), gaps(got)
	if len(wg) != len(gg) || len(sg) != len(gg) {
		return "ws:unclassified"
	}
	k := len(sn)
	for i := range gg {
		if gg[i] == wg[i] {
			continue
		}
		pos := "inner"
		switch {
		case k == 0:
			pos = "whole"
		case i == 0:
			pos = "lead"
		case i == k:
			pos = "trail"
		}
		srcKind := "nolb"
		if sg[i] == "" {
			srcKind = "none"
		} else if strings.ContainsAny(sg[i], "\r\n") {
			srcKind = "lb"
		}
		tight := "none"
		if pos == "inner" {
			b := sn[i-1] == '<' || sn[i-1] == '>'
			a := sn[i] == '<' || sn[i] == '>'
			switch {
			case a && b:
				tight = "both"
			case b:
				tight = "before"
			case a:
				tight = "after"
			}
		}
		return fmt.Sprintf("ws:pos=%s,src=%s,tight=%s,want=%s,got=%s", pos, srcKind, tight, wsShape(wg[i], sg[i]), wsShape(gg[i], sg[i]))
	}
	return "ws:unclassified"
}

var _ = time.Second
