package c15

import (
	"fmt"
	"strconv"
	"strings"
)

// Val is a value printed by TLC (PrintT): string, integer, boolean, tuple or
// set. TLC pretty-prints long values over several lines, so values are parsed
// from the whole standard output, not line by line.
type Val struct {
	Kind byte // 's' string, 'i' int, 'b' bool, 't' tuple, 'e' set
	S    string
	I    int
	B    bool
	L    []Val
}

type valParser struct {
	src string
	pos int
}

func (p *valParser) skip() {
	for p.pos < len(p.src) {
		switch p.src[p.pos] {
		case ' ', '\n', '\r', '\t':
			p.pos++
		default:
			return
		}
	}
}

func (p *valParser) parse() (Val, error) {
	p.skip()
	if p.pos >= len(p.src) {
		return Val{}, fmt.Errorf("unexpected end of TLC value")
	}
	c := p.src[p.pos]
	switch {
	case strings.HasPrefix(p.src[p.pos:], "<<"):
		p.pos += 2
		l, err := p.list(">>")
		return Val{Kind: 't', L: l}, err
	case c == '{':
		p.pos++
		l, err := p.list("}")
		return Val{Kind: 'e', L: l}, err
	case c == '"':
		p.pos++
		var b strings.Builder
		for {
			if p.pos >= len(p.src) {
				return Val{}, fmt.Errorf("unterminated string in TLC value")
			}
			ch := p.src[p.pos]
			p.pos++
			if ch == '"' {
				return Val{Kind: 's', S: b.String()}, nil
			}
			if ch == '\\' && p.pos < len(p.src) {
				e := p.src[p.pos]
				p.pos++
				switch e {
				case 'n':
					b.WriteByte('\n')
				case 't':
					b.WriteByte('\t')
				case 'r':
					b.WriteByte('\r')
				case 'f':
					b.WriteByte('\f')
				case '"':
					b.WriteByte('"')
				case '\\':
					b.WriteByte('\\')
				default:
					b.WriteByte('\\')
					b.WriteByte(e)
				}
				continue
			}
			b.WriteByte(ch)
		}
	case c == '-' || (c >= '0' && c <= '9'):
		st := p.pos
		p.pos++
		for p.pos < len(p.src) && p.src[p.pos] >= '0' && p.src[p.pos] <= '9' {
			p.pos++
		}
		n, err := strconv.Atoi(p.src[st:p.pos])
		return Val{Kind: 'i', I: n}, err
	case strings.HasPrefix(p.src[p.pos:], "TRUE"):
		p.pos += 4
		return Val{Kind: 'b', B: true}, nil
	case strings.HasPrefix(p.src[p.pos:], "FALSE"):
		p.pos += 5
		return Val{Kind: 'b', B: false}, nil
	}
	return Val{}, fmt.Errorf("cannot parse TLC value at %q", trunc(p.src[p.pos:], 40))
}

func (p *valParser) list(closer string) ([]Val, error) {
	var l []Val
	for {
		p.skip()
		if strings.HasPrefix(p.src[p.pos:], closer) {
			p.pos += len(closer)
			return l, nil
		}
		if len(l) > 0 {
			if p.pos >= len(p.src) || p.src[p.pos] != ',' {
				return nil, fmt.Errorf("expected ',' in TLC value at %q", trunc(p.src[p.pos:], 40))
			}
			p.pos++
		}
		v, err := p.parse()
		if err != nil {
			return nil, err
		}
		l = append(l, v)
	}
}

// ParseTuples extracts every value that starts at the beginning of a line
// with "<<" and whose first element is the string tag.
func ParseTuples(stdout string, tags ...string) ([]Val, error) {
	var res []Val
	want := map[string]bool{}
	for _, t := range tags {
		want[t] = true
	}
	p := &valParser{src: stdout}
	for p.pos < len(stdout) {
		atLineStart := p.pos == 0 || stdout[p.pos-1] == '\n'
		if atLineStart && strings.HasPrefix(stdout[p.pos:], "<<") {
			start := p.pos
			v, err := p.parse()
			if err != nil {
				return nil, fmt.Errorf("%v (value starting %q)", err, trunc(stdout[start:], 80))
			}
			if len(v.L) > 0 && v.L[0].Kind == 's' && want[v.L[0].S] {
				res = append(res, v)
			}
			continue
		}
		nl := strings.IndexByte(stdout[p.pos:], '\n')
		if nl < 0 {
			break
		}
		p.pos += nl + 1
	}
	return res, nil
}

// ParseVal parses one TLC value.
func ParseVal(s string) (Val, error) {
	p := &valParser{src: s}
	return p.parse()
}

// Text converts a tuple of one-character strings (the spec's texts) into a
// string, mapping stand-in letters to the real runes.
func (v Val) Text(m map[rune]string) (string, error) {
	if v.Kind != 't' {
		return "", fmt.Errorf("TLC value is not a text: kind %c", v.Kind)
	}
	var b strings.Builder
	for _, e := range v.L {
		if e.Kind != 's' {
			return "", fmt.Errorf("text element is not a string")
		}
		b.WriteString(mapStandIns(e.S, m))
	}
	return b.String(), nil
}

// Texts converts a set of texts.
func (v Val) Texts(m map[rune]string) ([]string, error) {
	if v.Kind != 'e' {
		return nil, fmt.Errorf("TLC value is not a set: kind %c", v.Kind)
	}
	var res []string
	for _, e := range v.L {
		s, err := e.Text(m)
		if err != nil {
			return nil, err
		}
		res = append(res, s)
	}
	return res, nil
}

func mapStandIns(s string, m map[rune]string) string {
	if len(m) == 0 {
		return s
	}
	var b strings.Builder
	for _, r := range s {
		if x, ok := m[r]; ok {
			b.WriteString(x)
		} else {
			b.WriteRune(r)
		}
	}
	return b.String()
}

func trunc(s string, n int) string {
	if len(s) > n {
		return s[:n] + "..."
	}
	return s
}
