package c15

import (
	"bytes"
	"encoding/json"
	"fmt"
	"math/rand"
	"runtime"
	"strings"
	"sync"
	"time"
	"unicode/utf16"

	"verif/core"
)

// Seg is one segment of a template body (see spec/SoyRawTextTrace.tla).
type Seg struct {
	K   string `json:"k"`           // text | tag | sc | lit | bcom | lcom
	S   string `json:"s,omitempty"` // text, literal content, comment source
	O   string `json:"o,omitempty"` // tag: its output
	N   string `json:"n,omitempty"` // sc: sp nil n r t lb rb
	D   bool   `json:"d,omitempty"` // lit: opened with double braces
	Src string `json:"src,omitempty"`
}

func (g Seg) record() map[string]interface{} {
	switch g.K {
	case "tag":
		return map[string]interface{}{"k": g.K, "o": g.O}
	case "sc":
		return map[string]interface{}{"k": g.K, "n": g.N}
	}
	if g.K == "lit" {
		return map[string]interface{}{"k": g.K, "s": g.S, "d": g.D}
	}
	return map[string]interface{}{"k": g.K, "s": g.S}
}

var scSource = map[string]string{"sp": "{sp}", "nil": "{nil}", "n": `{\n}`, "r": `{\r}`, "t": `{\t}`, "lb": "{lb}", "rb": "{rb}"}
var scNames = []string{"sp", "nil", "n", "r", "t", "lb", "rb"}

func (g Seg) source() string {
	switch g.K {
	case "tag":
		return g.Src
	case "sc":
		return scSource[g.N]
	case "lit":
		if g.D {
			return "{{literal}}" + g.S + "{{/literal}}"
		}
		return "{literal}" + g.S + "{/literal}"
	}
	return g.S
}

func text(s string) Seg { return Seg{K: "text", S: s} }
func sc(n string) Seg   { return Seg{K: "sc", N: n} }
func lit(s string) Seg  { return Seg{K: "lit", S: s} }
func lit2(s string) Seg { return Seg{K: "lit", S: s, D: true} }
func bcom(s string) Seg { return Seg{K: "bcom", S: s} }
func lcom(s string) Seg { return Seg{K: "lcom", S: s} }
func tagPrint() Seg     { return Seg{K: "tag", Src: "{$x}", O: "X"} }
func tagCall() Seg      { return Seg{K: "tag", Src: "{call .u/}", O: "U"} }
func tag(src, out string) Seg {
	return Seg{K: "tag", Src: src, O: out}
}

// Line is one recorded render.
type Line struct {
	Kind       string `json:"kind"` // "trace"
	Origin     string `json:"origin"`
	Segs       []Seg  `json:"segs"`
	FilePrefix string `json:"filePrefix,omitempty"` // file-level text before {namespace}
	// a line-end variant: the complete source is SrcSegs' source with every LF
	// replaced (crlf | cr); Segs describes the converted text for the spec
	Eol       string `json:"fileLineEnds,omitempty"`
	SrcSegs   []Seg  `json:"sourceSegs,omitempty"`
	File      string `json:"file"`
	Obs       Obs    `json:"observed"`
	Pinned    string `json:"specExample,omitempty"` // one output the spec allows
	expectBad bool
}

func (ln *Line) body() string {
	var b strings.Builder
	for _, g := range ln.Segs {
		b.WriteString(g.source())
	}
	return b.String()
}

func (ln *Line) kinds() string {
	seen := map[string]bool{}
	var ks []string
	for _, g := range ln.Segs {
		if !seen[g.K] {
			seen[g.K] = true
			ks = append(ks, g.K)
		}
	}
	return strings.Join(ks, "+")
}

func (ln *Line) render() {
	if ln.Eol != "" {
		var b strings.Builder
		for _, g := range ln.SrcSegs {
			b.WriteString(g.source())
		}
		ln.File = strings.ReplaceAll(ln.FilePrefix+TemplateFile(b.String()), "\n", eolOf[ln.Eol])
	} else {
		ln.File = ln.FilePrefix + TemplateFile(ln.body())
	}
	ln.Obs = RenderFile(ln.File)
}

// eolVariant is the same body with the complete source in another line-end
// form. Every LF of every segment becomes the new line end; a line comment
// ends at the CR of a CR LF, so the LF after it belongs to the next text run.
func eolVariant(ln *Line, eol string) *Line {
	nl := eolOf[eol]
	v := &Line{Kind: "trace", Origin: ln.Origin, FilePrefix: ln.FilePrefix, Eol: eol, SrcSegs: ln.Segs}
	pending := ""
	for _, g := range ln.Segs {
		g2 := g
		g2.S = strings.ReplaceAll(g.S, "\n", nl)
		if g2.K == "text" {
			g2.S = pending + g2.S
			pending = ""
		} else if pending != "" {
			v.Segs = append(v.Segs, text(pending))
			pending = ""
		}
		if g2.K == "lcom" && strings.HasSuffix(g2.S, "\r\n") {
			g2.S = g2.S[:len(g2.S)-1]
			pending = "\n"
		}
		v.Segs = append(v.Segs, g2)
	}
	if pending != "" {
		v.Segs = append(v.Segs, text(pending))
	}
	return v
}

const canary = "a\u00e9\u00a0\u2003\U0001F600\t\r\n<>\\\"{}/*"

// ValidateLines has TLC check every recorded line against the spec (mode
// M3). It returns the rejected lines and the number judged.
func ValidateLines(ctx *core.Ctx, lines []*Line, label string) (bad []*Line, judged int, err error) {
	var buf bytes.Buffer
	enc := func(v interface{}) {
		b, _ := json.Marshal(v)
		buf.Write(b)
		buf.WriteByte('\n')
	}
	enc(map[string]interface{}{"k": "canary", "s": canary, "units": len(utf16.Encode([]rune(canary)))})
	// a corrupted line the validator must reject (the binding bites)
	enc(map[string]interface{}{"k": "body", "segs": []interface{}{text("a \n b").record()}, "err": false, "out": "a  b"})
	const head = 2
	for _, ln := range lines {
		var segs []interface{}
		for _, g := range ln.Segs {
			segs = append(segs, g.record())
		}
		enc(map[string]interface{}{"k": "body", "segs": segs, "err": ln.Obs.Err != "", "out": ln.Obs.Out})
	}
	cfg := "INIT Init\nNEXT Next\nINVARIANT Report\nPOSTCONDITION TraceAccepted\nCHECK_DEADLOCK FALSE\n"
	res, err := runTLC(ctx, core.TLCOpts{Module: "SoyRawTextTrace", Cfg: cfg, Files: map[string][]byte{"c15_trace.ndjson": buf.Bytes()},
		Workers: 1, Timeout: 9 * time.Minute, Label: label})
	if err != nil {
		return nil, 0, err
	}
	if res.Violated != "" {
		return nil, 0, fmt.Errorf("trace spec reported %s: %s", res.Violated, trunc(res.Trace, 400))
	}
	vals, err := ParseTuples(res.Stdout, "BAD", "UNSPEC", "DONE", "CANARY")
	if err != nil {
		return nil, 0, err
	}
	done, canaryOK, corruptRejected, unspec := false, false, false, 0
	for _, v := range vals {
		switch v.L[0].S {
		case "CANARY":
			canaryOK = len(v.L) == 3 && v.L[2].S == canary
		case "DONE":
			if len(v.L) == 4 && v.L[1].I == len(lines)+head {
				done = true
			}
		case "UNSPEC":
			unspec++
			i := v.L[1].I - 1 - head
			if i >= 0 && i < len(lines) {
				// the generator only writes bodies inside the spec's domain
				return nil, 0, fmt.Errorf("line %d is outside the spec's domain (harness bug): %+q", i, lines[i].body())
			}
		case "BAD":
			i := v.L[1].I - 1 - head
			switch {
			case v.L[1].I == 1:
				canaryOK = false
				return nil, 0, fmt.Errorf("canary line rejected: TLC sees a different number of UTF-16 units")
			case v.L[1].I == 2:
				corruptRejected = true
			case i >= 0 && i < len(lines):
				lines[i].Pinned = v.L[2].S
				bad = append(bad, lines[i])
			}
		}
	}
	if !done {
		return nil, 0, fmt.Errorf("trace validation did not consume the whole trace: %s", trunc(res.Stdout[max(0, len(res.Stdout)-600):], 600))
	}
	if !canaryOK {
		return nil, 0, fmt.Errorf("canary string did not round-trip through TLC (UTF-8 damage)")
	}
	if !corruptRejected {
		return nil, 0, fmt.Errorf("the validator accepted a deliberately corrupted line (vacuous validation)")
	}
	return bad, len(lines) - unspec, nil
}

// ---------------------------------------------------------------------------
// Systematic lines: examples, special characters, literals.

func exampleLines() []*Line {
	mk := func(prefix string, segs ...Seg) *Line {
		return &Line{Kind: "trace", Origin: "example", Segs: segs, FilePrefix: prefix}
	}
	return []*Line{
		// text such as http://x is not mistaken for a comment
		mk("", text("http://x")),
		mk("", text("see http://x.y/z "), lcom("// the site\n")),
		mk("", text("a <br> "), lcom("// c \n"), text("\tb\t"), lcom("// c2\r"), text("\n  c\n\n")),
		mk("", text("\n  "), tagPrint(), text("<br>  "), lcom("// a {comment}\n"), text("  "), tagPrint(), text("<br>  "), bcom("/* {a }comment */"), text("\n  abc")),
		mk("", text("a"), bcom("/* c */"), text("b")),
		mk("", text("a "), bcom("/* c */"), text(" b")),
		mk("", text("a\n"), bcom("/* c\n * d\n */"), text("\nb")),
		mk("", tagPrint(), text("//not a comment")),
		mk("", text("x:// y "), lcom("// c\n")),
		mk("", text("\n"), lcom("// only a comment\n")),
		mk("", text("\n"), lcom("// one\n"), lcom("// two\n"), text("a\n")),
		mk("", text("a*/b /x *y")),
		// comments at the start of the input and between templates
		mk("// file comment\n", text("a b")),
		mk("/* file comment */\n", text("a\nb")),
		mk("\n  // indented file comment\n", text(" a ")),
		// literal blocks and special characters
		mk("", lit(" {/call}\n {sp} // comment ")),
		// the double-brace form ends at {{/literal}} only
		mk("", lit2("a{/literal}b")),
		mk("", text("x "), lit2("<{/literal}>"), text(" y")),
		mk("", lit2("{literal}...{/literal} emits ... as is")),
		mk("", lit2("a{b}c")),
		mk("", lit("a{{b}}c {")),
		mk("", text("a\n"), lit2("/literal} {/literal} \n  // c\n /* d */ {sp}\"'"), text("\nb")),
		mk("", text("a\n"), lit("\n { } // x /* y */ \n"), text("\nb")),
		mk("", sc("sp"), sc("nil"), sc("r"), sc("n"), sc("t"), sc("lb"), sc("rb")),
		mk("", text("a\n"), sc("sp"), text("\nb")),
		mk("", text("rawtext \n"), tagCall(), text("\n <b>\n x </b>\n")),
	}
}

func specialLines() []*Line {
	var res []*Line
	ctxs := []string{"", "a", "a ", " ", "a\n", "\n ", "<", "\t"}
	for _, n := range scNames {
		for _, pre := range ctxs {
			for _, post := range ctxs {
				var segs []Seg
				if pre != "" {
					segs = append(segs, text(pre))
				}
				segs = append(segs, sc(n))
				if post != "" {
					segs = append(segs, text(reverse(post)))
				}
				res = append(res, &Line{Kind: "trace", Origin: "special", Segs: segs})
			}
		}
		// twice in a row, and next to a print
		res = append(res, &Line{Kind: "trace", Origin: "special", Segs: []Seg{sc(n), sc(n)}})
		res = append(res, &Line{Kind: "trace", Origin: "special", Segs: []Seg{tagPrint(), sc(n), tagPrint()}})
	}
	return res
}

func reverse(s string) string {
	r := []rune(s)
	for i, j := 0, len(r)-1; i < j; i, j = i+1, j-1 {
		r[i], r[j] = r[j], r[i]
	}
	return string(r)
}

var literalAlpha = []string{"a", "{", "}", "\n", " ", "/", "*", "\u00e9", "\r"}

func literalLines(maxLen int) []*Line {
	var res []*Line
	var strs []string
	cur := []string{""}
	strs = append(strs, "")
	for k := 1; k <= maxLen; k++ {
		var next []string
		for _, p := range cur {
			for _, a := range literalAlpha {
				next = append(next, p+a)
			}
		}
		strs = append(strs, next...)
		cur = next
	}
	for i, s := range strs {
		res = append(res, &Line{Kind: "trace", Origin: "literal", Segs: []Seg{lit(s)}})
		// between text runs whose edge whitespace the literal must not disturb
		switch i % 3 {
		case 0:
			res = append(res, &Line{Kind: "trace", Origin: "literal", Segs: []Seg{text("a "), lit(s), text(" b")}})
		case 1:
			res = append(res, &Line{Kind: "trace", Origin: "literal", Segs: []Seg{text("a\n"), lit(s), text("\nb")}})
		case 2:
			res = append(res, &Line{Kind: "trace", Origin: "literal", Segs: []Seg{tagPrint(), lit(s), sc("sp")}})
		}
	}
	return res
}

// ---------------------------------------------------------------------------
// Random bodies.

var (
	wsRunes    = []rune{' ', ' ', '\t', '\r', '\n', '\n'}
	otherRunes = []rune{'a', 'a', '<', '>', '\u00e9', '\u00a0', '\u2003', '\U0001F600', '\U0001D4B3'}
)

func randText(r *rand.Rand) string {
	var n int
	switch x := r.Intn(10); {
	case x < 4:
		n = 1 + r.Intn(6)
	case x < 7:
		n = 7 + r.Intn(34)
	default:
		n = 41 + r.Intn(160)
	}
	var b strings.Builder
	for i := 0; i < n; i++ {
		if r.Intn(100) < 45 {
			b.WriteRune(wsRunes[r.Intn(len(wsRunes))])
		} else {
			b.WriteRune(otherRunes[r.Intn(len(otherRunes))])
		}
	}
	return b.String()
}

func randFrom(r *rand.Rand, alpha []rune, min, max int) string {
	n := min + r.Intn(max-min+1)
	var b strings.Builder
	for i := 0; i < n; i++ {
		b.WriteRune(alpha[r.Intn(len(alpha))])
	}
	return b.String()
}

var litHazards = []string{"{/literal}", "{{/literal}}", "/literal}", "{literal}", "{{literal}}", "\r\n", "\n\r", " // c\n", "/* c */", "\n    ", "{sp}", "{nil}", "{lb}", "{$y}", "{call .u/}", "\"", "'", "{/template}"}

func endsInWs(s string) bool { return s != "" && isWsByte(s[len(s)-1]) }

func randomLine(r *rand.Rand) *Line {
	var segs []Seg
	n := 1 + r.Intn(6)
	if r.Intn(3) == 0 {
		n = 1
	}
	for len(segs) < n {
		prev := Seg{}
		if len(segs) > 0 {
			prev = segs[len(segs)-1]
		}
		switch x := r.Intn(100); {
		case x < 45:
			if prev.K == "text" {
				continue
			}
			segs = append(segs, text(randText(r)))
		case x < 60:
			switch r.Intn(3) {
			case 0:
				segs = append(segs, tagPrint())
			case 1:
				segs = append(segs, tagCall())
			default:
				segs = append(segs, tag("{if $t}Q{/if}", "Q"))
			}
		case x < 68:
			segs = append(segs, sc(scNames[r.Intn(len(scNames))]))
		case x < 76:
			// literal body: characters and hazards; never its own closing tag
			dbl := r.Intn(2) == 0
			var b strings.Builder
			for k := 1 + r.Intn(5); k > 0; k-- {
				if r.Intn(3) == 0 {
					b.WriteString(litHazards[r.Intn(len(litHazards))])
				} else {
					b.WriteString(randFrom(r, []rune{'a', '{', '}', '\n', ' ', '/', '*', '\u00e9', '\u00a0', '\t', '\r', '\n', '\u2028', '\u0085', '\v', '\f'}, 1, 3))
				}
			}
			body := b.String()
			closer := "{/literal}"
			if dbl {
				closer = "{{/literal}}"
			}
			for strings.Contains(body, closer) {
				body = strings.Replace(body, closer, "{/lit}", 1)
			}
			if body == "" {
				body = "a"
			}
			segs = append(segs, Seg{K: "lit", S: body, D: dbl})
		case x < 88:
			// content may hold '*' and '/' but neither "*/" nor a leading '*'
			c := strings.ReplaceAll(randFrom(r, []rune{'a', ' ', '\n', '{', '}', '/', '*', '*', '\u00e9'}, 0, 8), "*/", "*a/")
			segs = append(segs, bcom("/* "+c+" */"))
		default:
			// a line comment needs whitespace before it
			switch {
			case prev.K == "text" && endsInWs(prev.S), prev.K == "lcom":
			case prev.K == "text":
				segs[len(segs)-1].S += string(wsRunes[r.Intn(len(wsRunes))])
			default:
				segs = append(segs, text(string(wsRunes[r.Intn(len(wsRunes))])))
			}
			eol := "\n"
			if r.Intn(4) == 0 {
				eol = "\r"
			}
			segs = append(segs, lcom("//"+randFrom(r, []rune{'a', ' ', '{', '}', '/', '*', '\u00e9'}, 0, 8)+eol))
		}
	}
	if r.Intn(4) == 0 {
		// the whole body inside an {if} block
		segs = append(append([]Seg{tag("{if $t}", "")}, segs...), tag("{else}Q{/if}", ""))
	}
	return &Line{Kind: "trace", Origin: "random", Segs: segs}
}

// ---------------------------------------------------------------------------

func renderLines(lines []*Line) {
	var wg sync.WaitGroup
	ch := make(chan *Line, 256)
	nw := runtime.NumCPU()
	if nw > 16 {
		nw = 16
	}
	for w := 0; w < nw; w++ {
		wg.Add(1)
		go func() {
			defer wg.Done()
			for ln := range ch {
				ln.render()
			}
		}()
	}
	for _, ln := range lines {
		ch <- ln
	}
	close(ch)
	wg.Wait()
}

// TraceFamily records systematic and random bodies from the real code and has
// TLC validate them.
func TraceFamily(ctx *core.Ctx, nRandom, literalLen int) {
	r := rand.New(rand.NewSource(ctx.Seed))
	var lines []*Line
	lines = append(lines, exampleLines()...)
	lines = append(lines, specialLines()...)
	lines = append(lines, literalLines(literalLen)...)
	// the systematic bodies that hold a line break also with the complete
	// source in CR LF and in CR form
	for _, ln := range lines[:len(lines):len(lines)] {
		// (literal-only bodies have their line-end forms in the M2 literal family)
		if ln.Origin != "literal" && strings.Contains(ln.FilePrefix+ln.body(), "\n") {
			lines = append(lines, eolVariant(ln, "crlf"), eolVariant(ln, "cr"))
		}
	}
	nSys := len(lines)
	nVar := 0
	for i := 0; i < nRandom; i++ {
		ln := randomLine(r)
		lines = append(lines, ln)
		switch i % 3 {
		case 1:
			lines = append(lines, eolVariant(ln, "crlf"))
			nVar++
		case 2:
			lines = append(lines, eolVariant(ln, "cr"))
			nVar++
		}
	}
	renderLines(lines)
	ctx.AddEvals(int64(len(lines)))
	for i, ln := range lines {
		ctx.Distinct("trace:" + ln.FilePrefix + "|" + ln.body())
		if i == 2 || i == nSys+1 {
			ctx.Sample(map[string]interface{}{"origin": ln.Origin, "body": ln.body(), "out": ln.Obs.Out})
		}
	}
	bad, judged, err := ValidateLines(ctx, lines, "M3-trace-validation")
	if err != nil {
		ctx.ToolError("M3: %v", err)
		return
	}
	ctx.AddTraces(int64(judged))
	setExtra(ctx, "trace_lines", map[string]interface{}{"examples+special+literal": nSys, "random": nRandom, "random_line_end_variants": nVar, "judged": judged, "rejected": len(bad)})
	if len(bad) == 0 {
		return
	}
	reportBadLines(ctx, bad)
}

// reportBadLines gives every rejected line a structural signature. For
// bodies whose failure is in a text run the run is isolated (rendered alone
// between print tags, or block comments where the original neighbour was a
// comment), validated again by TLC and classified like the M2 families do.
func reportBadLines(ctx *core.Ctx, bad []*Line) {
	type iso struct {
		parent *Line
		line   *Line
		s      string
		lo, ro string
	}
	const maxDetailed = 300
	if len(bad) > maxDetailed {
		// keep an evenly spread sample for the detailed classification; the
		// others are reported under a signature that no ledger entry matches
		stride := len(bad)/maxDetailed + 1
		var keep []*Line
		for i, ln := range bad {
			if i%stride == 0 {
				keep = append(keep, ln)
			} else {
				ctx.Violation(core.Sig{Family: originFamily(ln), Feature: "rejected-body-not-classified(too-many)"}, describe(ln), ln)
			}
		}
		bad = keep
	}
	var isos []iso
	var isoLines []*Line
	rest := map[*Line]bool{}
	for _, ln := range bad {
		switch {
		case ln.Obs.Panicked:
			ctx.Violation(core.Sig{Family: originFamily(ln), Feature: "panic"}, describe(ln), ln)
			continue
		case ln.Obs.Compile && hasEmptyLiteral(ln):
			ctx.Violation(core.Sig{Family: "literal", Feature: "empty-literal-rejected"}, describe(ln), ln)
			continue
		case ln.Obs.Compile:
			ctx.Violation(core.Sig{Family: originFamily(ln), Feature: "valid-body-rejected"}, describe(ln), ln)
			continue
		case ln.Obs.Err != "":
			ctx.Violation(core.Sig{Family: originFamily(ln), Feature: "render-error"}, describe(ln), ln)
			continue
		}
		rest[ln] = true
		if ln.Origin == "special" || ln.Origin == "literal" {
			continue
		}
		for i, g := range ln.Segs {
			if g.K != "text" {
				continue
			}
			is := iso{parent: ln, s: g.S}
			l, r := tagPrint(), tagPrint()
			is.lo, is.ro = "X", "X"
			if i > 0 && strings.HasSuffix(ln.Segs[i-1].K, "com") {
				l, is.lo = bcom("/* c */"), ""
			}
			if i+1 < len(ln.Segs) && strings.HasSuffix(ln.Segs[i+1].K, "com") {
				r, is.ro = bcom("/* c */"), ""
			}
			is.line = &Line{Kind: "trace", Origin: "isolated", Segs: []Seg{l, text(g.S), r}}
			isos = append(isos, is)
			isoLines = append(isoLines, is.line)
		}
	}
	explained := map[*Line]bool{}
	if len(isoLines) > 0 {
		renderLines(isoLines)
		ctx.AddEvals(int64(len(isoLines)))
		bad2, _, err := ValidateLines(ctx, isoLines, "M3-isolate-rejected")
		if err != nil {
			ctx.ToolError("M3 isolation: %v", err)
		}
		isBad := map[*Line]bool{}
		for _, b := range bad2 {
			isBad[b] = true
		}
		for _, is := range isos {
			if !isBad[is.line] || explained[is.parent] {
				continue
			}
			explained[is.parent] = true
			want, _ := stripNeighbours(is.line.Pinned, is.lo, is.ro)
			got, ok := stripNeighbours(is.line.Obs.Out, is.lo, is.ro)
			sig := core.Sig{Family: "text", Feature: "neighbour-output-changed"}
			if ok {
				sig.Feature = ClassifyText(is.s, want, got)
				if (is.lo == "" || is.ro == "") && strings.HasPrefix(sig.Feature, "ws:") && !strings.HasPrefix(sig.Feature, "ws:pos=inner") {
					sig = core.Sig{Family: "comment", Feature: "next-to-comment:" + sig.Feature}
				}
			}
			ctx.Violation(sig, fmt.Sprintf("text run %+q (isolated from a rejected body): real %+q, the pinned reading of rule (A) gives %+q; body: %s", is.s, got, want, describe(is.parent)), is.parent)
		}
	}
	for _, ln := range bad {
		if !rest[ln] || explained[ln] {
			continue
		}
		var sig core.Sig
		switch ln.Origin {
		case "special":
			sig = core.Sig{Family: "special-char", Feature: "wrong-output:" + scOf(ln)}
		case "literal":
			sig = core.Sig{Family: "literal", Feature: "not-verbatim"}
		default:
			sig = core.Sig{Family: originFamily(ln), Feature: "rejected-body-not-reproduced-in-isolation"}
			for _, g := range ln.Segs {
				if g.K == "lit" && !strings.Contains(ln.Obs.Out, g.S) {
					sig = core.Sig{Family: "literal", Feature: "not-verbatim"}
				}
			}
		}
		ctx.Violation(sig, describe(ln), ln)
	}
}

func originFamily(ln *Line) string {
	switch ln.Origin {
	case "special":
		return "special-char"
	case "literal":
		return "literal"
	}
	if strings.Contains(ln.kinds(), "com") {
		return "comment"
	}
	return "text"
}

func hasEmptyLiteral(ln *Line) bool {
	for _, g := range ln.Segs {
		if g.K == "lit" && g.S == "" {
			return true
		}
	}
	return false
}

func scOf(ln *Line) string {
	for _, g := range ln.Segs {
		if g.K == "sc" {
			return g.N
		}
	}
	return "?"
}

func describe(ln *Line) string {
	return fmt.Sprintf("body %+q: real output %+q (err %q); the spec allows e.g. %+q", ln.body(), ln.Obs.Out, ln.Obs.Err, ln.Pinned)
}
