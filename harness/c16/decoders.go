// Package c16 decides property C16 (print directives and their JavaScript
// counterparts encode faithfully).  This file holds the INDEPENDENT decoders
// the contracts of spec/SoyEscape.tla and spec/SoyDirectives.tla are checked
// with on the Go side (byte level): HTML text decoder, percent-decoder, JS
// string-literal decoder, JSON comparison, truncate contract.  None of them
// shares code with /repo or with the Go standard library's escapers.
package c16

import (
	"bytes"
	"encoding/json"
	"fmt"
	"math"
	"sort"
	"strconv"
	"strings"
	"unicode/utf8"

	"verif/core"
)

// ---------------------------------------------------------------------------
// text equivalence

// CanonText maps a text to the form in which two texts are compared:
// NUL and U+FFFD are identified (HTML cannot carry NUL: every HTML decoder
// turns it into U+FFFD, so an HTML encoder may do so too), and every byte
// that is not part of a valid UTF-8 sequence is identified with U+FFFD (an
// encoder that works on characters sees such a byte as U+FFFD; one that works
// on bytes passes it on: the property does not choose).
func CanonText(s string) string {
	if isPlain(s) {
		return s
	}
	var b strings.Builder
	for _, r := range s { // invalid bytes come out as U+FFFD, one per byte
		if r == 0 {
			r = utf8.RuneError
		}
		b.WriteRune(r)
	}
	return b.String()
}

func isPlain(s string) bool {
	for i := 0; i < len(s); i++ {
		if s[i] == 0 || s[i] >= 0x80 {
			return utf8.ValidString(s) && !strings.ContainsRune(s, 0)
		}
	}
	return true
}

// SameText reports whether a and b are the same text (see CanonText).
func SameText(a, b string) bool { return a == b || CanonText(a) == CanonText(b) }

// ---------------------------------------------------------------------------
// HTML text nodes

var namedRefs = map[string]string{
	"amp": "&", "lt": "<", "gt": ">", "quot": "\"", "apos": "'",
	"AMP": "&", "LT": "<", "GT": ">", "QUOT": "\"",
}

// HTMLToken is one token of a text node: a literal byte run or a character
// reference (Ref) with its decoded text.
type HTMLToken struct {
	Ref  bool
	Text string // decoded
}

// HTMLTokens splits an HTML text node into literal runs and character
// references (named: amp lt gt quot apos; decimal; hexadecimal).  An
// ampersand that does not start a reference is literal text.
func HTMLTokens(s string) []HTMLToken {
	var toks []HTMLToken
	last := 0
	for i := 0; i < len(s); i++ {
		if s[i] != '&' {
			continue
		}
		end := i + 12
		if end > len(s) {
			end = len(s)
		}
		j := strings.IndexByte(s[i+1:end], ';')
		if j <= 0 {
			continue
		}
		body := s[i+1 : i+1+j]
		dec, ok := "", false
		if t, is := namedRefs[body]; is {
			dec, ok = t, true
		} else if body[0] == '#' && len(body) > 1 {
			num := body[1:]
			base := 10
			if num[0] == 'x' || num[0] == 'X' {
				num, base = num[1:], 16
			}
			if n, err := strconv.ParseUint(num, base, 32); err == nil && num != "" && !strings.ContainsAny(num, "+-_") {
				r := rune(n)
				if n > 0x10FFFF || (n >= 0xD800 && n <= 0xDFFF) {
					r = utf8.RuneError
				}
				dec, ok = string(r), true
			}
		}
		if !ok {
			continue
		}
		if last < i {
			toks = append(toks, HTMLToken{Text: s[last:i]})
		}
		toks = append(toks, HTMLToken{Ref: true, Text: dec})
		i += j + 1
		last = i + 1
	}
	if last < len(s) {
		toks = append(toks, HTMLToken{Text: s[last:]})
	}
	return toks
}

// HTMLDecode returns the text an HTML text node denotes and whether one of
// the five special characters & < > " ' occurs raw (outside a reference).
func HTMLDecode(s string) (text string, rawSpecial bool) {
	if !strings.ContainsAny(s, "&<>\"'") {
		return s, false
	}
	var b strings.Builder
	for _, t := range HTMLTokens(s) {
		if !t.Ref && strings.ContainsAny(t.Text, "&<>\"'") {
			rawSpecial = true
		}
		b.WriteString(t.Text)
	}
	return b.String(), rawSpecial
}

// HTMLCanon re-spells every reference to one of the five specials canonically
// (&amp; &lt; &gt; &#34; &#39;) and replaces other references by their
// character, so that &quot; and &#34; compare equal.
func HTMLCanon(s string) string {
	var b strings.Builder
	for _, t := range HTMLTokens(s) {
		if !t.Ref {
			b.WriteString(t.Text)
			continue
		}
		switch t.Text {
		case "&":
			b.WriteString("&amp;")
		case "<":
			b.WriteString("&lt;")
		case ">":
			b.WriteString("&gt;")
		case "\"":
			b.WriteString("&#34;")
		case "'":
			b.WriteString("&#39;")
		default:
			b.WriteString(t.Text)
		}
	}
	return b.String()
}

// HTMLFault says why out is not a faithful HTML encoding of text:
// "" (it is), "raw-special", "decodes-wrong".
func HTMLFault(out, text string) string {
	dec, raw := HTMLDecode(out)
	if raw {
		return "raw-special"
	}
	if !SameText(dec, text) {
		return "decodes-wrong"
	}
	return ""
}

// SegmentsFault checks an output made of escaped text pieces separated by the
// directive's own tag: every piece must be a faithful encoding by itself.
// It returns the decoded pieces and "" or the fault ("tag-inside-reference"
// when the pieces are only broken because a tag sits inside a reference).
func SegmentsFault(out, tag string) (pieces []string, fault string) {
	segs := strings.Split(out, tag)
	for _, sg := range segs {
		dec, raw := HTMLDecode(sg)
		if raw {
			fault = "raw-special"
		}
		pieces = append(pieces, dec)
	}
	if fault != "" {
		if _, raw := HTMLDecode(strings.Join(segs, "")); !raw {
			fault = "tag-inside-reference"
		}
	}
	return
}

// SplitNewlines splits text at \r\n, \r and \n.
func SplitNewlines(s string) []string {
	var out []string
	cur := 0
	for i := 0; i < len(s); i++ {
		switch s[i] {
		case '\r':
			out = append(out, s[cur:i])
			if i+1 < len(s) && s[i+1] == '\n' {
				i++
			}
			cur = i + 1
		case '\n':
			out = append(out, s[cur:i])
			cur = i + 1
		}
	}
	return append(out, s[cur:])
}

// ---------------------------------------------------------------------------
// URI components

func isUnreserved(c byte) bool {
	return c >= 'a' && c <= 'z' || c >= 'A' && c <= 'Z' || c >= '0' && c <= '9' ||
		c == '-' || c == '_' || c == '.' || c == '~'
}

func hexVal(c byte) int {
	switch {
	case c >= '0' && c <= '9':
		return int(c - '0')
	case c >= 'a' && c <= 'f':
		return int(c-'a') + 10
	case c >= 'A' && c <= 'F':
		return int(c-'A') + 10
	}
	return -1
}

// URIDecode percent-decodes a component ('+' is a space); alphabetOK is false
// if a byte outside unreserved / %XX / '+' / the lenient marks ! * ( ) occurs.
func URIDecode(s string) (text string, alphabetOK, wellFormed bool) {
	var b bytes.Buffer
	alphabetOK, wellFormed = true, true
	for i := 0; i < len(s); i++ {
		c := s[i]
		switch {
		case c == '+':
			b.WriteByte(' ')
		case c == '%':
			if i+2 < len(s)+0 && hexVal(s[i+1]) >= 0 && hexVal(s[i+2]) >= 0 {
				b.WriteByte(byte(hexVal(s[i+1])<<4 | hexVal(s[i+2])))
				i += 2
			} else {
				wellFormed, alphabetOK = false, false
				b.WriteByte(c)
			}
		case isUnreserved(c) || c == '!' || c == '*' || c == '(' || c == ')':
			b.WriteByte(c)
		default:
			alphabetOK = false
			b.WriteByte(c)
		}
	}
	return b.String(), alphabetOK, wellFormed
}

// URIFault: "" | "alphabet" | "decodes-wrong".
func URIFault(out, text string) string {
	dec, alpha, wf := URIDecode(out)
	if !alpha || !wf {
		return "alphabet"
	}
	if !SameText(dec, text) {
		return "decodes-wrong"
	}
	return ""
}

// ---------------------------------------------------------------------------
// JavaScript string literals

// JSDenote evaluates the body of a JavaScript string literal (ES2019: every
// escape form; a lone surrogate escape denotes U+FFFD here).  safe is false
// if the body cannot stand between either kind of quotes inside a <script>
// element: a raw quote, a raw CR/LF, a dangling backslash, a malformed escape
// or the characters "</script".
func JSDenote(s string) (text string, safe bool) {
	safe = !strings.Contains(strings.ToLower(s), "</script")
	var b strings.Builder
	var pendingHi rune = -1
	flush := func() {
		if pendingHi >= 0 {
			b.WriteRune(utf8.RuneError)
			pendingHi = -1
		}
	}
	emit := func(r rune) {
		if r >= 0xD800 && r <= 0xDBFF {
			flush()
			pendingHi = r
			return
		}
		if r >= 0xDC00 && r <= 0xDFFF {
			if pendingHi >= 0 {
				b.WriteRune(0x10000 + (pendingHi-0xD800)<<10 + (r - 0xDC00))
				pendingHi = -1
			} else {
				b.WriteRune(utf8.RuneError)
			}
			return
		}
		flush()
		b.WriteRune(r)
	}
	for i := 0; i < len(s); i++ {
		c := s[i]
		if c != '\\' {
			if c == '\'' || c == '"' || c == '\n' || c == '\r' {
				safe = false
			}
			flush()
			b.WriteByte(c)
			continue
		}
		i++
		if i >= len(s) {
			safe = false
			break
		}
		e := s[i]
		switch e {
		case 'n':
			emit('\n')
		case 'r':
			emit('\r')
		case 't':
			emit('\t')
		case 'b':
			emit('\b')
		case 'f':
			emit('\f')
		case 'v':
			emit('\v')
		case '\n':
			// line continuation
		case '\r':
			if i+1 < len(s) && s[i+1] == '\n' {
				i++
			}
		case 'x':
			if i+2 < len(s) && hexVal(s[i+1]) >= 0 && hexVal(s[i+2]) >= 0 {
				emit(rune(hexVal(s[i+1])<<4 | hexVal(s[i+2])))
				i += 2
			} else {
				safe = false
			}
		case 'u':
			if i+1 < len(s) && s[i+1] == '{' {
				j := strings.IndexByte(s[i:], '}')
				n, err := strconv.ParseUint(s[i+2:i+max(j, 2)], 16, 32)
				if j < 0 || err != nil || n > 0x10FFFF {
					safe = false
				} else {
					emit(rune(n))
					i += j
				}
			} else if i+4 < len(s) && hexVal(s[i+1]) >= 0 && hexVal(s[i+2]) >= 0 && hexVal(s[i+3]) >= 0 && hexVal(s[i+4]) >= 0 {
				emit(rune(hexVal(s[i+1])<<12 | hexVal(s[i+2])<<8 | hexVal(s[i+3])<<4 | hexVal(s[i+4])))
				i += 4
			} else {
				safe = false
			}
		case '0':
			if i+1 < len(s) && s[i+1] >= '0' && s[i+1] <= '9' {
				safe = false // legacy octal: not allowed in strict code
			} else {
				emit(0)
			}
		case '1', '2', '3', '4', '5', '6', '7', '8', '9':
			safe = false
		default:
			// the character itself (multi-byte characters: copy the bytes)
			flush()
			if e < 0x80 {
				b.WriteByte(e)
			} else {
				_, n := utf8.DecodeRuneInString(s[i:])
				b.WriteString(s[i : i+n])
				i += n - 1
			}
		}
	}
	flush()
	return b.String(), safe
}

// JSFault: "" | "unsafe" | "decodes-wrong".
func JSFault(out, text string) string {
	dec, safe := JSDenote(out)
	if !safe {
		return "unsafe"
	}
	if !SameText(dec, text) {
		return "decodes-wrong"
	}
	return ""
}

// ---------------------------------------------------------------------------
// JSON against the value model (core.V: tagged maps)

// JSONFault compares JSON text with a spec value: "" | "malformed" | "decodes-wrong".
func JSONFault(out string, v map[string]interface{}) string {
	d := json.NewDecoder(strings.NewReader(out))
	d.UseNumber()
	var x interface{}
	if err := d.Decode(&x); err != nil {
		return "malformed"
	}
	if d.More() {
		return "malformed"
	}
	if !jsonEq(x, v) {
		return "decodes-wrong"
	}
	return ""
}

func vInt(x interface{}) (int64, bool) {
	switch n := x.(type) {
	case int:
		return int64(n), true
	case int64:
		return n, true
	case float64:
		return int64(n), n == math.Trunc(n)
	case json.Number:
		i, err := n.Int64()
		return i, err == nil
	}
	return 0, false
}

func jsonEq(x interface{}, v map[string]interface{}) bool {
	switch v["t"] {
	case "null":
		return x == nil
	case "bool":
		b, ok := x.(bool)
		return ok && b == v["v"].(bool)
	case "int", "float":
		n, ok := x.(json.Number)
		if !ok {
			return false
		}
		f, err := n.Float64()
		if err != nil {
			return false
		}
		var want float64
		if v["t"] == "int" {
			i, _ := vInt(v["v"])
			want = float64(i)
		} else {
			num, _ := vInt(v["num"])
			sh, _ := vInt(v["sh"])
			want = float64(num) / math.Pow(2, float64(sh))
		}
		return f == want
	case "str":
		s, ok := x.(string)
		return ok && SameText(s, v["v"].(string))
	case "list":
		xs, ok := x.([]interface{})
		if !ok {
			return false
		}
		var vs []map[string]interface{}
		switch l := v["v"].(type) {
		case []map[string]interface{}:
			vs = l
		case []interface{}:
			for _, e := range l {
				vs = append(vs, e.(map[string]interface{}))
			}
		}
		if len(xs) != len(vs) {
			return false
		}
		for i := range xs {
			if !jsonEq(xs[i], vs[i]) {
				return false
			}
		}
		return true
	case "map":
		xm, ok := x.(map[string]interface{})
		if !ok {
			return false
		}
		vm := map[string]map[string]interface{}{}
		switch m := v["v"].(type) {
		case map[string]map[string]interface{}:
			vm = m
		case map[string]interface{}:
			for k, e := range m {
				vm[k] = e.(map[string]interface{})
			}
		}
		if len(xm) != len(vm) {
			return false
		}
		for k, e := range vm {
			xe, ok := xm[k]
			if !ok {
				// keys are compared as texts
				found := false
				for xk, xv := range xm {
					if SameText(xk, k) {
						xe, found = xv, true
						break
					}
				}
				if !found {
					return false
				}
			}
			if !jsonEq(xe, e) {
				return false
			}
		}
		return true
	}
	return false
}

// ---------------------------------------------------------------------------
// truncate

// TruncateFault checks the truncate contract under BOTH readings of the
// limit (bytes or characters; UTF-16 units lie between the two): s must be
// valid UTF-8.  "" | "changed-though-fits" | "too-long" | "not-a-prefix" |
// "invalid-utf8" | "ellipsis-not-asked".
func TruncateFault(s string, n int, ellipsis bool, out string) string {
	if len(s) <= n { // fits under both readings
		if out != s {
			return "changed-though-fits"
		}
		return ""
	}
	if out == s && utf8.RuneCountInString(s) <= n {
		return "" // fits under the character reading
	}
	if !utf8.ValidString(out) {
		return "invalid-utf8"
	}
	if utf8.RuneCountInString(out) > n {
		return "too-long"
	}
	isCut := func(p string) bool { // proper prefix at a character boundary
		return len(p) < len(s) && strings.HasPrefix(s, p) && utf8.ValidString(p)
	}
	if isCut(out) {
		return ""
	}
	if strings.HasSuffix(out, "...") && isCut(strings.TrimSuffix(out, "...")) {
		if !ellipsis {
			return "ellipsis-not-asked"
		}
		return ""
	}
	return "not-a-prefix"
}

// ---------------------------------------------------------------------------
// directive contracts

// Dir is one directive application as exchanged with the TLA+ spec.
type Dir struct {
	Name string                   `json:"name"`
	Args []map[string]interface{} `json:"args"`
}

// Text renders the directive as Soy source.
func (d Dir) Text() string {
	s := "|" + d.Name
	for i, a := range d.Args {
		if i == 0 {
			s += ":"
		} else {
			s += ","
		}
		switch a["t"] {
		case "int":
			n, _ := vInt(a["v"])
			s += strconv.FormatInt(n, 10)
		case "bool":
			s += strconv.FormatBool(a["v"].(bool))
		case "str":
			s += core.QuoteSoy(a["v"].(string))
		default:
			s += fmt.Sprint(a["v"])
		}
	}
	return s
}

// ChainText renders a chain as Soy source.
func ChainText(ch []Dir) string {
	var s string
	for _, d := range ch {
		s += d.Text()
	}
	return s
}

// ArgN returns the integer argument i of d.
func (d Dir) ArgN(i int) int {
	n, _ := vInt(d.Args[i]["v"])
	return int(n)
}

// Ellipsis tells whether truncate was asked to add an ellipsis.
func (d Dir) Ellipsis() bool {
	if len(d.Args) == 2 {
		return d.Args[1]["v"].(bool)
	}
	return true
}

// TagOf is the markup a self-escaping directive inserts.
func TagOf(name string) string {
	switch name {
	case "changeNewlineToBr":
		return "<br>"
	case "insertWordBreaks":
		return "<wbr>"
	}
	return ""
}

// HTMLDirFault checks the contract of escapeHtml / changeNewlineToBr /
// insertWordBreaks: out is the result for the text y.
func HTMLDirFault(name, y, out string) string {
	switch name {
	case "escapeHtml":
		return HTMLFault(out, y)
	case "insertWordBreaks":
		pieces, f := SegmentsFault(out, "<wbr>")
		if f != "" {
			return f
		}
		if !SameText(strings.Join(pieces, ""), y) {
			return "decodes-wrong"
		}
	case "changeNewlineToBr":
		pieces, f := SegmentsFault(out, "<br>")
		if f != "" {
			return f
		}
		want := SplitNewlines(y)
		if len(pieces) != len(want) {
			return "decodes-wrong"
		}
		for i := range pieces {
			if !SameText(pieces[i], want[i]) {
				return "decodes-wrong"
			}
		}
		if strings.ContainsAny(out, "\r\n") {
			return "newline-left"
		}
	}
	return ""
}

// Contract checks the contract of one directive application: text is the
// text of the input value (val, used by json only), out the text of the
// result.  It returns "" (holds), a fault, or "unspec" (no claim).
func Contract(d Dir, val map[string]interface{}, text, out string) string {
	switch d.Name {
	case "noAutoescape", "id":
		if out != text {
			return "changed"
		}
	case "escapeHtml", "changeNewlineToBr", "insertWordBreaks":
		if d.Name == "insertWordBreaks" && d.ArgN(0) < 1 {
			return "unspec"
		}
		return HTMLDirFault(d.Name, text, out)
	case "escapeUri":
		return URIFault(out, text)
	case "escapeJsString":
		return JSFault(out, text)
	case "json":
		return JSONFault(out, val)
	case "truncate":
		if d.ArgN(0) < 1 || !utf8.ValidString(text) {
			return "unspec"
		}
		return TruncateFault(text, d.ArgN(0), d.Ellipsis(), out)
	}
	return ""
}

// SortedKeys returns the keys of m in order.
func SortedKeys(m map[string]interface{}) []string {
	var ks []string
	for k := range m {
		ks = append(ks, k)
	}
	sort.Strings(ks)
	return ks
}
