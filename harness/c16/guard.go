package c16

// A directive that never returns must not take the checker down.  The
// renders of C03/C16 run in-process (millions per run: that is why the checks
// are fast), and a spinning goroutine cannot be stopped from inside the
// process.  So:
//   * every in-process render is registered while it runs (Guard.Run);
//   * a monitor goroutine (the Go scheduler preempts spinning goroutines, so it
//     keeps running) looks for a render that has been in flight for longer than
//     Stall;
//   * the suspect is re-run ALONE in a fresh process (re-exec of the checker
//     binary in confirm mode) under a deadline the parent enforces by killing
//     the child: first the bare chain {$x|chain} in a plain template (bisected
//     to one directive), then the whole site program;
//   * does not return there either -> VIOLATION  directive=X,no-return, the
//     evidence is written and the process exits (the stuck goroutines cannot be
//     recovered; the parent kills them by exiting);
//   * returns there -> machine load: counted (renders_slow_not_confirmed), not
//     judged; a render that stays stuck although it returns alone is tool
//     trouble (exit 2).

import (
	"encoding/hex"
	"encoding/json"
	"fmt"
	"os"
	"os/exec"
	"path/filepath"
	"strconv"
	"strings"
	"sync"
	"sync/atomic"
	"time"
	"unicode/utf8"

	"github.com/robfig/soy/data"

	"verif/core"
)

// Case is the part of a suspect that is the same for every render of a job.
type Case struct {
	Files     []core.File `json:"files"`
	Render    string      `json:"render"`
	ChainText string      `json:"chain_text"`
}

// splitChain splits the Soy text of a chain into its directives.
func splitChain(text string) []string {
	var parts []string
	var q byte
	start := -1
	for i := 0; i < len(text); i++ {
		c := text[i]
		switch {
		case q != 0:
			if c == '\\' {
				i++
			} else if c == q {
				q = 0
			}
		case c == '\'' || c == '"':
			q = c
		case c == '|':
			if start >= 0 {
				parts = append(parts, text[start:i])
			}
			start = i
		}
	}
	if start >= 0 {
		parts = append(parts, text[start:])
	}
	return parts
}

func dirName(part string) string {
	part = strings.TrimPrefix(part, "|")
	if i := strings.IndexByte(part, ':'); i >= 0 {
		part = part[:i]
	}
	return part
}

type inflight struct {
	start   int64
	c       *Case
	x       data.Value
	handled int32
}

// Guard watches the in-process renders of one checker process.
type Guard struct {
	ctx       *core.Ctx
	sigFamily string
	Stall     time.Duration // a render in flight for longer is a suspect
	Deadline  time.Duration // deadline of a suspect re-run alone
	seq       uint64
	m         sync.Map
	slowOK    int64
	once      sync.Once
}

var tlcInFlight int64

// NewGuard starts the monitor.
func NewGuard(ctx *core.Ctx, sigFamily string) *Guard {
	g := &Guard{ctx: ctx, sigFamily: sigFamily, Stall: 10 * time.Second, Deadline: 20 * time.Second}
	go g.monitor()
	return g
}

// Run executes f (one in-process render of case c on value x) under watch.
func (g *Guard) Run(c *Case, x data.Value, f func()) {
	if g == nil {
		f()
		return
	}
	id := atomic.AddUint64(&g.seq, 1)
	g.m.Store(id, &inflight{start: time.Now().UnixNano(), c: c, x: x})
	f()
	g.m.Delete(id)
}

// SlowNotConfirmed is the number of suspects that returned when run alone.
func (g *Guard) SlowNotConfirmed() int64 { return atomic.LoadInt64(&g.slowOK) }

func (g *Guard) monitor() {
	for {
		time.Sleep(time.Second)
		now := time.Now().UnixNano()
		g.m.Range(func(_, v interface{}) bool {
			in := v.(*inflight)
			age := time.Duration(now - in.start)
			if age > g.Stall && atomic.CompareAndSwapInt32(&in.handled, 0, 1) {
				g.suspect(in)
			} else if age > 4*g.Stall+3*g.Deadline && atomic.CompareAndSwapInt32(&in.handled, 1, 2) {
				g.ctx.ToolError("an in-process render has not returned for %v although the same case returns when run alone: {$x%s}", age.Round(time.Second), in.c.ChainText)
				g.exit()
			}
			return true
		})
	}
}

type confirmCase struct {
	Files  []core.File            `json:"files"`
	Render string                 `json:"render"`
	ValHex string                 `json:"value_hex,omitempty"`
	Spec   map[string]interface{} `json:"value_spec,omitempty"`
}

func valueOf(x data.Value) (hexs string, spec map[string]interface{}) {
	if s, ok := x.(data.String); ok {
		return hex.EncodeToString([]byte(s)), nil
	}
	return "", toSpec(x)
}

func toSpec(x data.Value) map[string]interface{} {
	switch v := x.(type) {
	case data.Null:
		return map[string]interface{}{"t": "null"}
	case data.Bool:
		return map[string]interface{}{"t": "bool", "v": bool(v)}
	case data.Int:
		return map[string]interface{}{"t": "int", "v": int(v)}
	case data.Float:
		return map[string]interface{}{"t": "floatbits", "v": strconv.FormatFloat(float64(v), 'g', -1, 64)}
	case data.String:
		return map[string]interface{}{"t": "strhex", "v": hex.EncodeToString([]byte(v))}
	case data.List:
		var xs []interface{}
		for _, e := range v {
			xs = append(xs, toSpec(e))
		}
		return map[string]interface{}{"t": "list", "v": xs}
	case data.Map:
		m := map[string]interface{}{}
		for k, e := range v {
			m[hex.EncodeToString([]byte(k))] = toSpec(e)
		}
		return map[string]interface{}{"t": "maphex", "v": m}
	}
	return map[string]interface{}{"t": "null"}
}

func fromSpec(s map[string]interface{}) data.Value {
	switch s["t"] {
	case "bool":
		return data.Bool(s["v"].(bool))
	case "int":
		n, _ := vInt(s["v"])
		return data.Int(n)
	case "floatbits":
		f, _ := strconv.ParseFloat(s["v"].(string), 64)
		return data.Float(f)
	case "strhex":
		b, _ := hex.DecodeString(s["v"].(string))
		return data.String(b)
	case "list":
		l := data.List{}
		xs, _ := s["v"].([]interface{})
		for _, e := range xs {
			l = append(l, fromSpec(e.(map[string]interface{})))
		}
		return l
	case "maphex":
		m := data.Map{}
		mm, _ := s["v"].(map[string]interface{})
		for k, e := range mm {
			b, _ := hex.DecodeString(k)
			m[string(b)] = fromSpec(e.(map[string]interface{}))
		}
		return m
	}
	return data.Null{}
}

// runAlone re-runs one case in a fresh process; returned=false means the
// parent had to kill it at the deadline.
func (g *Guard) runAlone(cc confirmCase) (returned bool, err error) {
	dir := filepath.Join(core.VerifDir, "out", "confirm")
	os.MkdirAll(dir, 0o755)
	f, err := os.CreateTemp(dir, g.ctx.ID+"-*.json")
	if err != nil {
		return false, err
	}
	defer os.Remove(f.Name())
	b, _ := json.Marshal(cc)
	f.Write(b)
	f.Close()
	exe, err := os.Executable()
	if err != nil {
		return false, err
	}
	cmd := exec.Command(exe, g.ctx.Tier)
	cmd.Env = append(os.Environ(), "VERIF_CONFIRM="+f.Name())
	out := &strings.Builder{}
	cmd.Stdout, cmd.Stderr = out, out
	if err := cmd.Start(); err != nil {
		return false, err
	}
	done := make(chan error, 1)
	go func() { done <- cmd.Wait() }()
	select {
	case werr := <-done:
		if strings.Contains(out.String(), "CONFIRM-RETURNED") {
			return true, nil
		}
		return false, fmt.Errorf("confirm process failed: %v: %s", werr, tail(out.String(), 300))
	case <-time.After(g.Deadline):
		cmd.Process.Kill()
		<-done
		return false, nil
	}
}

func (g *Guard) suspect(in *inflight) {
	hexs, spec := valueOf(in.x)
	plain := func(chainText string) confirmCase {
		return confirmCase{Files: []core.File{{Name: "t.soy", Text: OffTemplate(chainText)}}, Render: "t.m", ValHex: hexs, Spec: spec}
	}
	describe := strconv.Quote(clip(in.x.String()))
	// 1. the bare chain, bisected to one directive
	culprit, via := "", ""
	if in.c.ChainText != "" {
		ret, err := g.runAlone(plain(in.c.ChainText))
		if err != nil {
			g.ctx.ToolError("cannot re-run a suspect render alone: %v", err)
			g.exit()
		}
		if !ret {
			parts := splitChain(in.c.ChainText)
			culprit, via = dirName(parts[len(parts)-1]), OffTemplate(in.c.ChainText)
			if len(parts) >= 2 {
				if r1, err := g.runAlone(plain(parts[0])); err == nil && !r1 {
					culprit, via = dirName(parts[0]), OffTemplate(parts[0])
				}
			}
		}
	}
	// 2. the whole program
	if culprit == "" {
		ret, err := g.runAlone(confirmCase{Files: in.c.Files, Render: in.c.Render, ValHex: hexs, Spec: spec})
		if err != nil {
			g.ctx.ToolError("cannot re-run a suspect render alone: %v", err)
			g.exit()
		}
		if !ret {
			culprit = "none"
			if parts := splitChain(in.c.ChainText); len(parts) > 0 {
				culprit = dirName(parts[len(parts)-1])
			}
			culprit += ",only-in-site-program"
			if len(in.c.Files) > 0 {
				via = in.c.Files[0].Text
			}
		}
	}
	if culprit == "" {
		atomic.AddInt64(&g.slowOK, 1)
		return // machine load: the case returns when run alone
	}
	sig := core.Sig{Family: g.sigFamily, Feature: "directive=" + culprit + ",no-return"}
	g.ctx.Violation(sig, fmt.Sprintf("the render of {$x%s} with x=%s does not return: not after %v in the check, not within %v alone in a fresh process",
		in.c.ChainText, describe, g.Stall, g.Deadline),
		map[string]interface{}{"kind": "no-return", "template": via, "files": in.c.Files, "render": in.c.Render, "x_go_quoted": describe,
			"x_hex": hexs, "x_spec": spec, "valid_utf8": utf8.ValidString(in.x.String())})
	g.exit()
}

// exit writes the evidence and ends the process: goroutines stuck in a
// non-returning render can only be stopped this way.
func (g *Guard) exit() {
	g.once.Do(func() {
		for i := 0; i < 40 && atomic.LoadInt64(&tlcInFlight) > 0; i++ {
			time.Sleep(time.Second) // let running TLC children finish (their scratch is removed by the driver)
		}
		g.ctx.Extra["renders_slow_not_confirmed"] = g.SlowNotConfirmed()
		g.ctx.Extra["ended_early"] = "a render did not return; the remaining cases of this run were not judged"
		os.Exit(g.ctx.Finish())
	})
	select {}
}

// ConfirmMain is the confirm mode of the checker binaries: render one case
// and say so; the parent enforces the deadline.  register (may be nil)
// registers embedder directives first.
func ConfirmMain(path string, register func()) {
	if register != nil {
		register()
	}
	b, err := os.ReadFile(path)
	if err != nil {
		fmt.Println("CONFIRM-ERROR", err)
		os.Exit(2)
	}
	var cc confirmCase
	if err := json.Unmarshal(b, &cc); err != nil {
		fmt.Println("CONFIRM-ERROR", err)
		os.Exit(2)
	}
	var x data.Value
	if cc.Spec != nil {
		x = fromSpec(cc.Spec)
	} else {
		raw, _ := hex.DecodeString(cc.ValHex)
		x = data.String(raw)
	}
	d := data.Map{"x": x, "y": x, "n": data.Int(1), "m": data.Map{"k": x}, "l": data.List{x}, "c": data.Bool(true)}
	if s, ok := x.(data.String); ok {
		h := len(s) / 2
		d["a"], d["b"], d["km"] = s[:h], s[h:], data.Map{string(s): data.Int(1)}
	}
	comp, cerr, _ := core.Compile(cc.Files, data.Map{"GLOB_X": x})
	if cerr != nil {
		fmt.Println("CONFIRM-RETURNED compile-error")
		return
	}
	res := comp.Render(cc.Render, d, data.Map{"x": x})
	fmt.Println("CONFIRM-RETURNED err=", res.Err != nil)
}
