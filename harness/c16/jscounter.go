package c16

import (
	"strconv"
	"strings"
	"unicode/utf8"

	"verif/core"
)

type jsCase struct {
	d    Dir
	s    string
	pre  bool // the library function applied to escapeHtml(s) (the documented composition)
	call JSJob
}

// JSCounterparts runs the soy.$$ functions of soyutils.js (the names come
// from the real table soyjs.PrintDirectives) on the adversarial strings under
// the same contracts.
//
//	family "js"               : the call soyjs emits for {$x|d} (the directive applied to the data)
//	family "js-lib-on-escaped": changeNewlineToBr / insertWordBreaks applied to escapeHtml(x):
//	                            must change nothing but the breaks and never split a reference
func JSCounterparts(ctx *core.Ctx) {
	var strs []string
	for _, s := range AdversarialStrings(ctx.Thorough()) {
		if utf8.ValidString(s) && len(s) <= 20000 {
			strs = append(strs, s)
		}
	}
	var cases []jsCase
	add := func(d Dir, s string, pre bool, args ...interface{}) {
		j := JSJob{Op: "call", Fn: JSName(d.Name), Args: append([]interface{}{s}, args...)}
		if pre {
			j.Pre = JSName("escapeHtml")
		}
		cases = append(cases, jsCase{d, s, pre, j})
	}
	none := []map[string]interface{}{}
	for _, s := range strs {
		for _, n := range []string{"escapeHtml", "escapeUri", "escapeJsString", "json"} {
			add(Dir{Name: n, Args: none}, s, false)
		}
		add(Dir{Name: "changeNewlineToBr", Args: none}, s, false)
		add(Dir{Name: "changeNewlineToBr", Args: none}, s, true)
		for _, n := range []int{1, 2, 3, 5, 30} {
			d := Dir{Name: "insertWordBreaks", Args: []map[string]interface{}{intArg(n)}}
			add(d, s, false, n)
			add(d, s, true, n)
		}
		for _, n := range []int{1, 2, 3, 4, 5, 8, 16, 100} {
			for _, ell := range []bool{true, false} {
				// soyjs passes doAddEllipsis=true when the template gives one argument
				add(Dir{Name: "truncate", Args: []map[string]interface{}{intArg(n), boolArg(ell)}}, s, false, n, ell)
			}
		}
	}
	jobs := make([]JSJob, len(cases))
	for i := range cases {
		jobs[i] = cases[i].call
	}
	res, engine, err := RunNode(jobs)
	if err != nil {
		ctx.ToolError("JS counterparts: %v", err)
		return
	}
	ctx.Extra["js_engine"] = engine
	escaped := map[string]string{} // JS escapeHtml(s)
	for i, c := range cases {
		if c.d.Name == "escapeHtml" && res[i].OK {
			escaped[c.s] = res[i].S
		}
	}
	var lines []traceLine
	for i, c := range cases {
		r := res[i]
		family := "js"
		if c.pre {
			family = "js-lib-on-escaped"
		}
		ctx.AddEvals(1)
		ctx.AddTraces(1)
		if c.s != "" {
			ctx.Distinct(family + "|" + c.d.Text() + "|" + c.s)
		}
		chain := []Dir{c.d}
		val := core.VStr(c.s)
		if !r.OK {
			report(ctx, family, chain, val, c.s, "", "", "error", "the JS function threw: "+r.Err)
			continue
		}
		fault := ""
		switch {
		case !r.WF:
			fault = "invalid-utf16"
		case c.pre:
			fault = HTMLDirFault(c.d.Name, c.s, r.S)
			if fault == "" {
				// nothing but the breaks may differ from escapeHtml(s)
				e := escaped[c.s]
				if c.d.Name == "insertWordBreaks" && strings.ReplaceAll(r.S, "<wbr>", "") != e {
					fault = "changes-more-than-breaks"
				}
				if c.d.Name == "changeNewlineToBr" && strings.ReplaceAll(r.S, "<br>", "") != strings.NewReplacer("\r\n", "", "\r", "", "\n", "").Replace(e) {
					fault = "changes-more-than-breaks"
				}
			}
		default:
			fault = Contract(c.d, val, c.s, r.S)
		}
		if fault != "" && fault != "unspec" {
			report(ctx, family, chain, val, c.s, "", r.S, fault, "contract of the directive (SoyDirectives.DirContract) on the result of "+c.call.Fn+" pre="+strconv.FormatBool(c.pre))
		}
		if !c.pre && len(lines) < ctx.Pick(3000, 12000) && i%3 == int(ctx.Seed%3) && TLCSafe(c.s) && TLCSafe(r.S) && r.WF && len(c.s) <= 64 {
			lines = append(lines, traceLine{chain, val, false, r.S, ""})
		}
	}
	ctx.Extra["js_cases"] = len(cases)
	if len(lines) > 0 {
		validate(ctx, "js", lines)
	}
}

// jsReplay re-runs a saved JS case.
func jsReplay(ctx *core.Ctx, rc replayCase, s string) {
	d := rc.Chain[len(rc.Chain)-1]
	args := []interface{}{s}
	for _, a := range d.Args {
		args = append(args, a["v"])
	}
	j := JSJob{Op: "call", Fn: JSName(d.Name), Args: args}
	if rc.Engine == "js-lib-on-escaped" {
		j.Pre = JSName("escapeHtml")
	}
	res, _, err := RunNode([]JSJob{j})
	if err != nil {
		ctx.ToolError("replay: %v", err)
		return
	}
	ctx.AddEvals(1)
	fault := ""
	if !res[0].OK {
		fault = "error"
	} else if !res[0].WF {
		fault = "invalid-utf16"
	} else if rc.Engine == "js-lib-on-escaped" {
		fault = HTMLDirFault(d.Name, s, res[0].S)
	} else {
		fault = Contract(d, core.VStr(s), s, res[0].S)
	}
	println("replay:", j.Fn, strconv.Quote(clip(s)), "->", strconv.Quote(clip(res[0].S)), "fault="+fault)
	if fault != "" && fault != "unspec" {
		report(ctx, rc.Engine, rc.Chain, core.VStr(s), s, "", res[0].S, fault, "replay")
	}
}
