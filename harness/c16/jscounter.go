package c16

import (
	"bytes"
	"context"
	"fmt"
	"os"
	"regexp"
	"sort"
	"strconv"
	"strings"
	"sync"
	"sync/atomic"
	"time"
	"unicode/utf8"

	"github.com/robfig/soy/soyhtml"
	"github.com/robfig/soy/soyjs"

	"verif/core"
	"verif/jsrun"
)

// The JavaScript counterpart of a directive is the code soyjs GENERATES for
// {$x|directive:args}: since the generator applies chains in written order and
// escapes the input of changeNewlineToBr / insertWordBreaks itself, the bare
// soy.$$ library functions are only the counterpart where the contract is
// theirs alone.
//
//	family "js"                 : soyjs.Write of a one-print template with autoescape="false", run in node
//	                              (every directive instance and every exported pair)
//	family "js-autoescape-on"   : the same print in a template with autoescaping on
//	family "js-lib"             : soy.$$escapeUri / $$escapeJsString / $$truncate called directly
//	family "js-lib-on-escaped"  : soy.$$insertWordBreaks / $$changeNewlineToBr applied to soy.$$escapeHtml(x):
//	                              must change nothing but the breaks and never split a reference

// JSTemplate is the one-print template whose generated JavaScript is run.
func JSTemplate(chainText string, escapeOn bool) string {
	a := ` autoescape="false"`
	if escapeOn {
		a = ""
	}
	return "{namespace t}\n/** @param x */\n{template .m" + a + "}\n{$x" + chainText + "}\n{/template}\n"
}

// GenerateJS compiles the template with the real compiler and translates it
// with the real soyjs back end.
func GenerateJS(src string) (js string, err error) {
	defer func() {
		if p := recover(); p != nil {
			err = fmt.Errorf("PANIC in soyjs.Write: %v", p)
		}
	}()
	comp, cerr, _ := core.Compile([]core.File{{Name: "t.soy", Text: src}}, nil)
	if cerr != nil {
		return "", fmt.Errorf("compile: %v", cerr)
	}
	var buf bytes.Buffer
	for _, sf := range comp.Registry.SoyFiles {
		if err := soyjs.Write(&buf, sf, soyjs.Options{}); err != nil {
			return "", fmt.Errorf("soyjs.Write: %v", err)
		}
	}
	return buf.String(), nil
}

type genResult struct {
	ok   bool
	wf   bool
	out  string
	err  string
	skip bool // a failure that could not be confirmed: not judged
}

// runGenerated runs the generated JavaScript of {$x|chain} on every string.
func runGenerated(pool *jsrun.Pool, chainText string, escapeOn bool, strs []string) ([]genResult, string, error) {
	out, js, err := runGeneratedT(pool, chainText, escapeOn, strs, firstTimeout())
	if err != nil && !strings.HasPrefix(err.Error(), "compile:") && !strings.HasPrefix(err.Error(), "soyjs.Write") && !strings.HasPrefix(err.Error(), "PANIC") {
		// node trouble (watchdog, died, garbled line, load failure): once more in a fresh process
		fresh, perr := jsrun.NewPool(context.Background(), 1)
		if perr != nil {
			return nil, js, perr
		}
		defer fresh.Close()
		out, js, err = runGeneratedT(fresh, chainText, escapeOn, strs, 60*time.Second)
		if err == nil {
			atomic.AddInt64(&jsRetriedOK, 1)
		}
	}
	return out, js, err
}

// firstTimeout is the per-call vm timeout of the first attempt (10 s;
// VERIF_C16_JS_TIMEOUT_MS overrides it, to exercise the confirmation path).
func firstTimeout() time.Duration {
	if ms, err := strconv.Atoi(os.Getenv("VERIF_C16_JS_TIMEOUT_MS")); err == nil && ms > 0 {
		return time.Duration(ms) * time.Millisecond
	}
	return 10 * time.Second
}

// jsRetriedOK counts JS-side failures that did not reproduce in a fresh node
// process (machine load: vm timeout, killed child, truncated line).
var jsRetriedOK int64

// confirmGenerated re-runs ONE case of generated JavaScript in a fresh node
// process with a generous timeout.  Only a failure that reproduces there is a
// verdict; toolOK=false means node could not be run at all.
func confirmGenerated(chainText string, escapeOn bool, s string) (r genResult, toolOK bool) {
	fresh, err := jsrun.NewPool(context.Background(), 1)
	if err != nil {
		return genResult{}, false
	}
	defer fresh.Close()
	out, _, err := runGeneratedT(fresh, chainText, escapeOn, []string{s}, 60*time.Second)
	if err != nil || len(out) != 1 {
		return genResult{}, false
	}
	return out[0], true
}

// confirmFailures re-runs every failed call of one chain; results that do not
// reproduce are replaced by the fresh result.  After three reproduced failures
// the rest of the chain's failures are taken as they are.
func confirmFailures(ctx *core.Ctx, chainText string, escapeOn bool, strs []string, res []genResult) {
	// many failures at once (a machine under extreme load): first all of them
	// together in one fresh process with the generous timeout, then singly
	var failed []int
	for i := range res {
		if !res[i].ok {
			failed = append(failed, i)
		}
	}
	if len(failed) > 3 {
		sub := make([]string, len(failed))
		for k, i := range failed {
			sub[k] = strs[i]
		}
		if fresh, err := jsrun.NewPool(context.Background(), 1); err == nil {
			if out, _, err := runGeneratedT(fresh, chainText, escapeOn, sub, 60*time.Second); err == nil && len(out) == len(failed) {
				for k, i := range failed {
					if out[k].ok {
						atomic.AddInt64(&jsRetriedOK, 1)
						res[i] = out[k]
					}
				}
			}
			fresh.Close()
		}
	}
	reproduced := 0
	for i := range res {
		if res[i].ok || reproduced >= 3 {
			continue
		}
		r, ok := confirmGenerated(chainText, escapeOn, strs[i])
		if !ok {
			ctx.ToolError("JS: cannot re-run {$x%s} in a fresh node process to confirm a failure (%s)", chainText, res[i].err)
			res[i] = genResult{ok: true, wf: true, out: "", err: "unconfirmed"}
			res[i].skip = true
			continue
		}
		if r.ok {
			atomic.AddInt64(&jsRetriedOK, 1)
		} else {
			reproduced++
		}
		res[i] = r
	}
}

func runGeneratedT(pool *jsrun.Pool, chainText string, escapeOn bool, strs []string, per time.Duration) ([]genResult, string, error) {
	src := JSTemplate(chainText, escapeOn)
	js, err := GenerateJS(src)
	if err != nil {
		return nil, "", err
	}
	req := jsrun.Request{Sources: []jsrun.Source{{Name: "t.soy.js", Code: js}}, Timeout: per}
	for _, s := range strs {
		req.Calls = append(req.Calls, jsrun.Call{Fn: "t.m", Data: map[string]interface{}{"x": s}})
	}
	resp, err := pool.Run(req)
	if err != nil {
		return nil, js, err
	}
	if !resp.Loaded() {
		return nil, js, fmt.Errorf("generated JavaScript does not load: %+v", resp.Sources)
	}
	out := make([]genResult, len(strs))
	for i, c := range resp.Calls {
		out[i] = genResult{ok: c.OK, wf: c.U16 == nil, out: c.Out, err: c.Err}
	}
	return out, js, nil
}

func cancelsDoc(name string) bool { return name != "truncate" }

var reNotFound = regexp.MustCompile(`[Pp]rint directive "([^"]*)" (?:not found|does not exist)`)
var reNotFunction = regexp.MustCompile(`(\S+) is not a function|(\S+) is not defined|Cannot read propert[a-z]* of undefined`)

// missingCounterpart recognises "the directive has no JavaScript counterpart":
// soyjs.Write does not know a directive that the Go renderer implements, or
// the generated call names a function that does not exist at run time.  It
// returns the directive's name, or "".
func missingCounterpart(errText string, chain []Dir) string {
	implemented := func(name string) bool {
		d, ok := soyhtml.PrintDirectives[name]
		return ok && d.Apply != nil
	}
	if m := reNotFound.FindStringSubmatch(errText); m != nil {
		for _, d := range chain {
			if d.Name == m[1] && implemented(d.Name) {
				return d.Name
			}
		}
		// the table lost the entry under this name: the directive of the chain that soyjs does not list
		for _, d := range chain {
			if _, ok := soyjs.PrintDirectives[d.Name]; !ok && implemented(d.Name) {
				return d.Name
			}
		}
		return ""
	}
	if reNotFunction.MatchString(errText) {
		for _, d := range chain {
			if js := JSName(d.Name); js != "" && strings.Contains(errText, js) && implemented(d.Name) {
				return d.Name
			}
		}
		if len(chain) == 1 && JSName(chain[0].Name) != "" && implemented(chain[0].Name) {
			return chain[0].Name
		}
	}
	return ""
}

func noCounterpart(ctx *core.Ctx, name, chainText, why string) {
	sig := core.Sig{Family: "js", Feature: "directive=" + name + ",no-js-counterpart"}
	if reporter.First(sig) {
		ctx.Violation(sig, fmt.Sprintf("|%s is implemented by the Go renderer (soyhtml.PrintDirectives) but has no JavaScript counterpart for {$x%s}: %s", name, chainText, why),
			map[string]interface{}{"kind": "c16-js-counterpart", "directive": name, "template": JSTemplate(chainText, false), "why": why})
	}
}

// JSCounterparts runs the generated JavaScript and the library functions
// under the contracts.
func JSCounterparts(ctx *core.Ctx, e *Export) {
	var strs []string
	for _, s := range AdversarialStrings(ctx.Thorough()) {
		if utf8.ValidString(s) && len(s) <= 20000 {
			strs = append(strs, s)
		}
	}
	pool, err := jsrun.NewPool(context.Background(), 6)
	if err != nil {
		ctx.ToolError("JS counterparts: %v", err)
		return
	}
	defer pool.Close()
	ctx.Extra["js_engine"] = pool.Engine()

	var chains [][]Dir
	for _, d := range GridDirs() {
		chains = append(chains, []Dir{d})
	}
	if e != nil {
		for _, r := range e.Rows {
			if len(r.Chain) == 2 {
				chains = append(chains, r.Chain)
			}
		}
	}
	// every directive the Go renderer implements must have a JavaScript counterpart:
	// those the grid does not know (registered by an embedder) are translated and
	// called once per string, only their presence is judged
	known := map[string]bool{}
	for _, ch := range chains {
		known[ch[0].Name] = true
	}
	var goNames []string
	for name, d := range soyhtml.PrintDirectives {
		if d.Apply != nil { // bidiSpanWrap / bidiUnicodeWrap are declared unimplemented
			goNames = append(goNames, name)
		}
	}
	sort.Strings(goNames)
	for _, name := range goNames {
		if !known[name] {
			d := Dir{Name: name, Args: []map[string]interface{}{}}
			if al := soyhtml.PrintDirectives[name].ValidArgLengths; len(al) > 0 {
				for i := 0; i < al[0]; i++ {
					d.Args = append(d.Args, intArg(1))
				}
			}
			chains = append(chains, []Dir{d})
		}
	}
	ctx.Extra["go_directives_required_to_have_js_counterpart"] = goNames
	// ---- generated code, autoescape="false" and on
	type res struct {
		off, on []genResult
		js      string
	}
	results := make([]res, len(chains))
	var wg sync.WaitGroup
	sem := make(chan struct{}, 6)
	var toolMu sync.Mutex
	toolErrs := 0
	for ci := range chains {
		wg.Add(1)
		sem <- struct{}{}
		go func(ci int) {
			defer wg.Done()
			defer func() { <-sem }()
			ct := ChainText(chains[ci])
			off, js, err := runGenerated(pool, ct, false, strs)
			if err == nil {
				confirmFailures(ctx, ct, false, strs, off)
				results[ci].off, results[ci].js = off, js
				if len(chains[ci]) == 1 {
					results[ci].on, _, err = runGenerated(pool, ct, true, strs)
					if err == nil {
						confirmFailures(ctx, ct, true, strs, results[ci].on)
					}
				}
			}
			if err != nil {
				if name := missingCounterpart(err.Error(), chains[ci]); name != "" {
					noCounterpart(ctx, name, ct, "soyjs cannot translate the print: "+err.Error())
					return
				}
				toolMu.Lock()
				toolErrs++
				if toolErrs <= 3 {
					ctx.ToolError("generated JS for {$x%s}: %v", ct, err)
				}
				toolMu.Unlock()
			}
		}(ci)
	}
	// the plain print {$x} with autoescaping on (the escaper soyjs prepends)
	var plainOn []genResult
	wg.Add(1)
	go func() {
		defer wg.Done()
		var err error
		plainOn, _, err = runGenerated(pool, "", true, strs)
		if err != nil {
			ctx.ToolError("generated JS for {$x}: %v", err)
		} else {
			confirmFailures(ctx, "", true, strs, plainOn)
		}
	}()
	wg.Wait()

	singleOff := map[string][]genResult{} // chain text of a single directive -> results
	for ci, ch := range chains {
		if len(ch) == 1 {
			singleOff[ChainText(ch)] = results[ci].off
		}
	}
	var lines []traceLine
	var n int64
	judge := func(family string, chain []Dir, s, in string, inVal map[string]interface{}, r genResult, js string) {
		if r.skip {
			return
		}
		n++
		if s != "" {
			ctx.Distinct(family + "|" + ChainText(chain) + "|" + s)
		}
		last := chain[len(chain)-1]
		mid := ""
		if len(chain) == 2 {
			mid = in
		}
		fault := ""
		switch {
		case !r.ok:
			if name := missingCounterpart(r.err, chain); name != "" {
				noCounterpart(ctx, name, ChainText(chain), "the generated JavaScript "+firstLine(js)+" fails: "+r.err)
				return
			}
			fault = "error"
		case !r.wf:
			fault = "invalid-utf16"
		default:
			fault = Contract(last, inVal, in, r.out)
		}
		if fault != "" && fault != "unspec" {
			report(ctx, family, chain, core.VStr(s), s, mid, r.out, fault, "contract of the last directive on the string returned by the generated JavaScript: "+firstLine(js)+" "+r.err)
		}
	}
	for ci, ch := range chains {
		off := results[ci].off
		if off == nil {
			continue
		}
		ct := ChainText(ch)
		for si, s := range strs {
			if !inRange(ch) {
				continue
			}
			in, inVal := s, core.VStr(s)
			if len(ch) == 2 {
				first := singleOff[ChainText(ch[:1])]
				if first == nil || !first[si].ok || !first[si].wf {
					continue // the first directive is judged by itself
				}
				in, inVal = first[si].out, core.VStr(first[si].out)
			}
			judge("js", ch, s, in, inVal, off[si], results[ci].js)
			if len(ch) == 1 && len(lines) < ctx.Pick(3000, 12000) && (si+ci)%3 == int(ctx.Seed%3) &&
				off[si].ok && off[si].wf && TLCSafe(s) && TLCSafe(off[si].out) && len(s) <= 64 {
				lines = append(lines, traceLine{ch, core.VStr(s), false, off[si].out, ""})
			}
			// autoescaping on: a cancelling directive writes the same bytes; truncate's result is escaped
			if on := results[ci].on; on != nil && off[si].ok && off[si].wf && !on[si].skip && !off[si].skip {
				n++
				fault := ""
				switch {
				case !on[si].ok:
					fault = "error"
				case cancelsDoc(ch[0].Name):
					if on[si].out != off[si].out {
						fault = "changed-on-top"
					}
				default:
					fault = HTMLFault(on[si].out, off[si].out)
				}
				if fault != "" {
					sig := core.Sig{Family: "js-autoescape-on", Feature: "directive=" + ch[0].Name + "," + fault}
					if reporter.First(sig) {
						ctx.Violation(sig, fmt.Sprintf("generated JS for {$x%s} with autoescaping on, x=%s wrote %s; with autoescape=\"false\" %s: %s",
							ct, strconv.Quote(clip(s)), strconv.Quote(clip(on[si].out)), strconv.Quote(clip(off[si].out)), fault),
							map[string]interface{}{"kind": "c16-js-on", "template": JSTemplate(ct, true), "x_go_quoted": strconv.Quote(clip(s))})
					}
				}
			}
		}
	}
	for si, s := range strs {
		if plainOn == nil {
			break
		}
		n++
		r := plainOn[si]
		if r.skip {
			continue
		}
		fault := ""
		if !r.ok {
			fault = "error"
		} else if f := HTMLFault(r.out, s); f != "" {
			fault = f
		}
		if fault != "" {
			sig := core.Sig{Family: "js-autoescape-on", Feature: "plain-print," + fault}
			if reporter.First(sig) {
				ctx.Violation(sig, fmt.Sprintf("generated JS for {$x} with autoescaping on, x=%s wrote %s: %s", strconv.Quote(clip(s)), strconv.Quote(clip(r.out)), fault),
					map[string]interface{}{"kind": "c16-js-on", "template": JSTemplate("", true), "x_go_quoted": strconv.Quote(clip(s))})
			}
		}
	}
	ctx.AddEvals(n)
	ctx.AddTraces(n)
	ctx.Extra["js_generated_cases"] = n
	ctx.Extra["js_generated_chains"] = len(chains)
	if len(results) > 0 {
		ctx.Sample(map[string]interface{}{"family": "js", "template": JSTemplate("|insertWordBreaks:3", false), "generated": results[0].js})
	}
	if len(lines) > 0 {
		validate(ctx, "js", lines)
	}
	jsLibrary(ctx, strs)
}

func firstLine(js string) string {
	for _, l := range strings.Split(js, "\n") {
		if strings.Contains(l, "output +=") {
			return strings.TrimSpace(l)
		}
	}
	return ""
}

type jsCase struct {
	d    Dir
	s    string
	pre  bool
	call JSJob
}

// jsLibrary calls the library functions whose contract is theirs alone.
func jsLibrary(ctx *core.Ctx, strs []string) {
	var cases []jsCase
	add := func(d Dir, s string, pre bool, args ...interface{}) {
		j := JSJob{Op: "call", Fn: JSName(d.Name), Args: append([]interface{}{s}, args...)}
		if pre {
			j.Pre = JSName("escapeHtml")
		}
		cases = append(cases, jsCase{d, s, pre, j})
	}
	none := []map[string]interface{}{}
	for _, s := range strs {
		for _, n := range []string{"escapeHtml", "escapeUri", "escapeJsString"} {
			add(Dir{Name: n, Args: none}, s, false)
		}
		add(Dir{Name: "changeNewlineToBr", Args: none}, s, true)
		for _, n := range []int{1, 2, 3, 5, 30} {
			add(Dir{Name: "insertWordBreaks", Args: []map[string]interface{}{intArg(n)}}, s, true, n)
		}
		for _, n := range []int{1, 2, 3, 4, 5, 8, 16, 100} {
			for _, ell := range []bool{true, false} {
				add(Dir{Name: "truncate", Args: []map[string]interface{}{intArg(n), boolArg(ell)}}, s, false, n, ell)
			}
		}
	}
	jobs := make([]JSJob, len(cases))
	for i := range cases {
		jobs[i] = cases[i].call
	}
	res, _, err := RunNode(jobs)
	if err != nil {
		res, _, err = RunNode(jobs) // once more in a fresh process
		if err == nil {
			atomic.AddInt64(&jsRetriedOK, 1)
		}
	}
	if err != nil {
		ctx.ToolError("JS library: %v", err)
		return
	}
	confirmJobs(ctx, jobs, res)
	escaped := map[string]string{}
	for i, c := range cases {
		if c.d.Name == "escapeHtml" && res[i].OK {
			escaped[c.s] = res[i].S
		}
	}
	for i, c := range cases {
		r := res[i]
		family := "js-lib"
		if c.pre {
			family = "js-lib-on-escaped"
		}
		ctx.AddEvals(1)
		ctx.AddTraces(1)
		if c.s != "" {
			ctx.Distinct(family + "|" + c.d.Text() + "|" + c.s)
		}
		chain := []Dir{c.d}
		val := core.VStr(c.s)
		if !r.OK {
			report(ctx, family, chain, val, c.s, "", "", "error", "the JS function threw: "+r.Err)
			continue
		}
		fault := ""
		switch {
		case !r.WF:
			fault = "invalid-utf16"
		case c.pre:
			fault = HTMLDirFault(c.d.Name, c.s, r.S)
			if fault == "" {
				e := escaped[c.s]
				if c.d.Name == "insertWordBreaks" && strings.ReplaceAll(r.S, "<wbr>", "") != e {
					fault = "changes-more-than-breaks"
				}
				if c.d.Name == "changeNewlineToBr" && strings.ReplaceAll(r.S, "<br>", "") != strings.NewReplacer("\r\n", "", "\r", "", "\n", "").Replace(e) {
					fault = "changes-more-than-breaks"
				}
			}
		default:
			fault = Contract(c.d, val, c.s, r.S)
		}
		if fault != "" && fault != "unspec" {
			report(ctx, family, chain, val, c.s, "", r.S, fault, "contract of the directive on the result of "+c.call.Fn+" pre-escaped="+strconv.FormatBool(c.pre))
		}
	}
	ctx.Extra["js_library_calls"] = len(cases)
}

// confirmJobs re-runs every failed job of a c16_driver.js batch alone in a
// fresh node process; a failure that does not reproduce is replaced.
func confirmJobs(ctx *core.Ctx, jobs []JSJob, res []JSResult) {
	reproduced := 0
	for i := range res {
		if res[i].OK || reproduced >= 5 {
			continue
		}
		r, _, err := RunNode([]JSJob{jobs[i]})
		if err != nil {
			r, _, err = RunNode([]JSJob{jobs[i]})
		}
		if err != nil || len(r) != 1 {
			ctx.ToolError("JS: cannot re-run a failed %s job in a fresh node process: %v", jobs[i].Op, err)
			return
		}
		if r[0].OK {
			atomic.AddInt64(&jsRetriedOK, 1)
		} else {
			reproduced++
		}
		res[i] = r[0]
	}
}

// jsReplay re-runs a saved JS case.
func jsReplay(ctx *core.Ctx, rc replayCase, s string) {
	d := rc.Chain[len(rc.Chain)-1]
	if rc.Engine == "js" {
		pool, err := jsrun.NewPool(context.Background(), 1)
		if err != nil {
			ctx.ToolError("replay: %v", err)
			return
		}
		defer pool.Close()
		out, js, err := runGenerated(pool, ChainText(rc.Chain), false, []string{s})
		if err != nil {
			ctx.ToolError("replay: %v", err)
			return
		}
		in := s
		mid := ""
		if len(rc.Chain) == 2 {
			first, _, err := runGenerated(pool, ChainText(rc.Chain[:1]), false, []string{s})
			if err != nil || !first[0].ok {
				ctx.ToolError("replay: first directive: %v", err)
				return
			}
			in, mid = first[0].out, first[0].out
		}
		ctx.AddEvals(1)
		fault := ""
		switch {
		case !out[0].ok:
			fault = "error"
		case !out[0].wf:
			fault = "invalid-utf16"
		default:
			fault = Contract(d, core.VStr(in), in, out[0].out)
		}
		fmt.Printf("replay: %s x=%s -> %s fault=%q\n", firstLine(js), strconv.Quote(clip(s)), strconv.Quote(clip(out[0].out)), fault)
		if fault != "" && fault != "unspec" {
			report(ctx, "js", rc.Chain, core.VStr(s), s, mid, out[0].out, fault, "replay")
		}
		return
	}
	args := []interface{}{s}
	for _, a := range d.Args {
		args = append(args, a["v"])
	}
	j := JSJob{Op: "call", Fn: JSName(d.Name), Args: args}
	if rc.Engine == "js-lib-on-escaped" {
		j.Pre = JSName("escapeHtml")
	}
	res, _, err := RunNode([]JSJob{j})
	if err != nil {
		ctx.ToolError("replay: %v", err)
		return
	}
	ctx.AddEvals(1)
	fault := ""
	if !res[0].OK {
		fault = "error"
	} else if !res[0].WF {
		fault = "invalid-utf16"
	} else if rc.Engine == "js-lib-on-escaped" {
		fault = HTMLDirFault(d.Name, s, res[0].S)
	} else {
		fault = Contract(d, core.VStr(s), s, res[0].S)
	}
	fmt.Println("replay:", j.Fn, strconv.Quote(clip(s)), "->", strconv.Quote(clip(res[0].S)), "fault="+fault)
	if fault != "" && fault != "unspec" {
		report(ctx, rc.Engine, rc.Chain, core.VStr(s), s, "", res[0].S, fault, "replay")
	}
}
