package c16

import (
	"bytes"
	"encoding/json"
	"fmt"
	"os/exec"
	"path/filepath"
	"strings"
	"sync"
	"sync/atomic"
	"time"

	"github.com/robfig/soy/data"
	"github.com/robfig/soy/soyjs"

	"verif/core"
)

// Real renders one-print templates with the real soyhtml; compiled bundles
// are cached by source text.
type Real struct {
	mu    sync.Mutex
	cache map[string]*core.Compiled
	cases map[string]*Case
	G     *Guard // watches the in-process renders (nil: unguarded)
}

// NewReal returns an empty cache.
func NewReal() *Real { return &Real{cache: map[string]*core.Compiled{}, cases: map[string]*Case{}} }

// Compiled returns the compiled bundle for the given files (cached).
func (r *Real) Compiled(files []core.File) (*core.Compiled, error) {
	var key strings.Builder
	for _, f := range files {
		key.WriteString(f.Name)
		key.WriteByte(0)
		key.WriteString(f.Text)
		key.WriteByte(0)
	}
	r.mu.Lock()
	c, ok := r.cache[key.String()]
	r.mu.Unlock()
	if ok {
		return c, nil
	}
	c, err, _ := core.Compile(files, nil)
	if err != nil {
		return nil, err
	}
	r.mu.Lock()
	r.cache[key.String()] = c
	r.mu.Unlock()
	return c, nil
}

// OffTemplate is the one-print template with autoescaping off: what it
// writes is the text of the chain's result, nothing added.
func OffTemplate(chainText string) string {
	return "{namespace t}\n/** @param x */\n{template .m autoescape=\"false\"}\n{$x" + chainText + "}\n{/template}\n"
}

// RenderOff renders {$x|chain} with autoescaping off.
func (r *Real) RenderOff(chainText string, x data.Value) (string, error) {
	src := OffTemplate(chainText)
	c, err := r.Compiled([]core.File{{Name: "t.soy", Text: src}})
	if err != nil {
		return "", fmt.Errorf("compile: %v", err)
	}
	r.mu.Lock()
	cs := r.cases[chainText]
	if cs == nil {
		cs = &Case{Files: []core.File{{Name: "t.soy", Text: src}}, Render: "t.m", ChainText: chainText}
		r.cases[chainText] = cs
	}
	r.mu.Unlock()
	var res core.RenderResult
	r.G.Run(cs, x, func() { res = c.Render("t.m", data.Map{"x": x}, nil) })
	return res.Out, res.Err
}

// ---------------------------------------------------------------------------
// node

// JSJob is one job for js/c16_driver.js.
type JSJob struct {
	Op   string        `json:"op"`
	Fn   string        `json:"fn,omitempty"`
	Pre  string        `json:"pre,omitempty"`
	Args []interface{} `json:"args,omitempty"`
	Body string        `json:"body"`
	Text string        `json:"text"`
}

// JSResult is the answer to one job.
type JSResult struct {
	OK  bool   `json:"ok"`
	S   string `json:"s"`
	S2  string `json:"s2"`
	WF  bool   `json:"wf"`
	Err string `json:"err"`
}

// RunNode runs one batch in one node process.
func RunNode(jobs []JSJob) ([]JSResult, string, error) {
	in, err := json.Marshal(map[string]interface{}{
		"soyutils": filepath.Join(core.RepoDir, "soyjs", "lib", "soyutils.js"),
		"jobs":     jobs,
	})
	if err != nil {
		return nil, "", err
	}
	cmd := exec.Command("node", filepath.Join(core.VerifDir, "js", "c16_driver.js"))
	cmd.Stdin = bytes.NewReader(in)
	var out, errb bytes.Buffer
	cmd.Stdout, cmd.Stderr = &out, &errb
	done := make(chan error, 1)
	if err := cmd.Start(); err != nil {
		return nil, "", err
	}
	go func() { done <- cmd.Wait() }()
	select {
	case err := <-done:
		if err != nil {
			return nil, "", fmt.Errorf("node: %v: %s", err, tail(errb.String(), 400))
		}
	case <-time.After(3 * time.Minute):
		cmd.Process.Kill()
		return nil, "", fmt.Errorf("node: timeout")
	}
	var ans struct {
		Engine  string     `json:"engine"`
		Results []JSResult `json:"results"`
	}
	if err := json.Unmarshal(out.Bytes(), &ans); err != nil {
		return nil, "", fmt.Errorf("node answer: %v", err)
	}
	if len(ans.Results) != len(jobs) {
		return nil, "", fmt.Errorf("node answered %d of %d jobs", len(ans.Results), len(jobs))
	}
	return ans.Results, ans.Engine, nil
}

func tail(s string, n int) string {
	if len(s) > n {
		return s[len(s)-n:]
	}
	return s
}

// JSName is the JavaScript function soyjs emits for a directive (from the
// real table soyjs.PrintDirectives).
func JSName(directive string) string { return soyjs.PrintDirectives[directive].Name }

// JSCancels is the CancelAutoescape flag of the real soyjs table.
func JSCancels(directive string) bool { return soyjs.PrintDirectives[directive].CancelAutoescape }

// tlcGate bounds the number of TLC JVMs running at once (each needs a few
// cores; the replay grids run at the same time).
var tlcGate = make(chan struct{}, 4)

// RunTLC runs TLC through the gate.
func RunTLC(ctx *core.Ctx, o core.TLCOpts) (*core.TLCResult, error) {
	tlcGate <- struct{}{}
	defer func() { <-tlcGate }()
	atomic.AddInt64(&tlcInFlight, 1)
	defer atomic.AddInt64(&tlcInFlight, -1)
	return ctx.RunTLC(o)
}

// QuickSubset picks, in the quick tier, k of the named deviations (rotating
// with the seed); the thorough tier runs them all.
func QuickSubset(ctx *core.Ctx, names []string, k int) []string {
	if ctx.Thorough() || k >= len(names) {
		return names
	}
	var out []string
	for i := 0; i < k; i++ {
		out = append(out, names[(int(ctx.Seed)*k+i)%len(names)])
	}
	return out
}

// Reporter de-duplicates violation reports: after the first few of a
// signature only a count is kept (building a replay case is expensive and a
// listed finding can match hundreds of thousands of cases).
type Reporter struct {
	mu    sync.Mutex
	count map[string]int
}

// NewReporter returns an empty reporter.
func NewReporter() *Reporter { return &Reporter{count: map[string]int{}} }

// First reports whether a full report should still be made for sig.
func (r *Reporter) First(sig core.Sig) bool {
	r.mu.Lock()
	defer r.mu.Unlock()
	r.count[sig.String()]++
	return r.count[sig.String()] <= 4
}

// Counts returns the number of cases met per signature.
func (r *Reporter) Counts() map[string]int {
	r.mu.Lock()
	defer r.mu.Unlock()
	m := map[string]int{}
	for k, v := range r.count {
		m[k] = v
	}
	return m
}
