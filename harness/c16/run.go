package c16

import (
	"bytes"
	"encoding/json"
	"fmt"
	"math"
	"math/rand"
	"os"
	"regexp"
	"runtime"
	"strconv"
	"strings"
	"sync"
	"sync/atomic"
	"time"
	"unicode"
	"unicode/utf8"

	"github.com/robfig/soy/data"

	"verif/core"
)

// Run is the entry point for C16.
func Run(ctx *core.Ctx) {
	ctx.Rule = "cases: (directive chain of length 1..2 with in-range arguments, input value) -> text written by the real renderer for {$x|chain} in a template with autoescape=\"false\" (and by the soy.$$ counterparts in soyutils.js under node); " +
		"families: M2 = chains x strings enumerated by TLC (C16Model, Mode=export) with the reference result where it is pinned; GRID = every directive instance and every exported pair x the adversarial string set (all single bytes, pairs/triples of the five specials, multi-byte/astral, entity-like, tag-like, invalid UTF-8, 4KB..64KB runs); M3 = seeded random strings/chains recorded and validated by TLC against the contracts of SoyDirectives.tla; JS = the same contracts on soyutils.js. " +
		"A case is non-trivial if its input text is non-empty; distinct by (engine, chain text, input) hash"
	ctx.Assumptions = append(ctx.Assumptions,
		"contracts are those of spec/SoyDirectives.tla (DirContract); truncate is judged only by what holds under both readings of its limit (bytes, characters; UTF-16 units lie between) except on one-byte-character text where the tests pin the exact result",
		"NUL and bytes that are not UTF-8 are identified with U+FFFD when texts are compared (HTML cannot carry NUL; the property does not say whether an encoder sees bytes or characters)",
		"escapeUri: '+' is accepted for a space (pinned by the repository's tests); ! * ( ) are accepted raw, the apostrophe is not",
		"a raw U+2028/U+2029 inside a JS string is not counted as unsafe (legal since ES2019)")
	ctx.Trusted = append(ctx.Trusted, "Go decoders in harness/c16/decoders.go (cross-checked against the TLA+ decoders on every M3 line and against node's evaluator / JSON.parse)", "node v20 for the JS runs")

	real := NewReal()
	real.G = NewGuard(ctx, "go")
	defer func() { ctx.Extra["renders_slow_not_confirmed"] = real.G.SlowNotConfirmed() }()
	FailsAlone = func(d Dir, c string) bool {
		out, err := real.RenderOff(d.Text(), data.String(c))
		if err != nil {
			return true
		}
		f := Contract(d, core.VStr(c), c, out)
		return f != "" && f != "unspec"
	}
	if ctx.ReplayPath != "" {
		Replay(ctx)
		return
	}

	// ---- M1 (reference model and deviations) runs in the background
	var wg sync.WaitGroup
	wg.Add(1)
	go func() { defer wg.Done(); ModelCheck(ctx) }()

	// ---- M2: TLC-enumerated cases replayed on the real renderer
	exp := ExportCases(ctx)
	if exp != nil {
		ReplayExport(ctx, real, exp)
	}
	// ---- systematic grid with the Go decoders (and node as decoder)
	Grid(ctx, real, exp)
	// ---- M3: random cases recorded, validated by TLC
	RandomTraces(ctx, real, exp, ctx.Pick(4000, 40000))
	// ---- the JavaScript counterparts
	JSCounterparts(ctx, exp)
	wg.Wait()
	ctx.Extra["cases_violating_per_signature"] = reporter.Counts()
	ctx.Extra["js_runs_retried_ok"] = atomic.LoadInt64(&jsRetriedOK)
}

// ---------------------------------------------------------------------------
// signatures

// Feature is the structural feature of a contract violation of directive d
// (text = the text that reached it, out = what it produced).
func Feature(d Dir, text, out, fault string) string { return FeatureFor("go", d, text, out, fault) }

// FeatureFor is Feature for the given engine family (the single-character
// probe of InputClass exists for the Go renderer only).
func FeatureFor(engine string, d Dir, text, out, fault string) string {
	f := "directive=" + d.Name + ","
	switch {
	case (fault == "raw-special" || fault == "decodes-wrong") && (d.Name == "escapeHtml" || TagOf(d.Name) != ""):
		// did the directive hand the data on without escaping it at all?
		stripped, want := out, text
		if t := TagOf(d.Name); t != "" {
			stripped = strings.ReplaceAll(out, t, "")
			want = strings.ReplaceAll(text, t, "")
		}
		if d.Name == "changeNewlineToBr" {
			want = strings.NewReplacer("\r\n", "", "\r", "", "\n", "").Replace(want)
		}
		if stripped == want {
			f += "data-unescaped"
		} else if fault == "raw-special" {
			f += "raw-special,some-special-left"
		} else {
			f += fault
		}
		if d.Name == "insertWordBreaks" && fault == "raw-special" || (d.Name == "insertWordBreaks" && stripped == want) {
			if strings.Count(out, "<wbr>") > strings.Count(text, "<wbr>") {
				f += ",break-inserted"
			} else {
				f += ",no-break-inserted"
			}
		}
	case fault == "decodes-wrong" && (d.Name == "escapeJsString" || d.Name == "json" || d.Name == "escapeUri"):
		f += fault + "," + InputClass(d, text, engine == "go")
	default:
		f += fault
	}
	return f
}

// FailsAlone, when set, tells whether directive d violates its contract on
// the one-character text c (used to name the characters responsible for a
// decoding failure; set by the Go engine only).
var FailsAlone func(d Dir, c string) bool

// InputClass names the kind of character responsible for a decoding failure.
func InputClass(d Dir, text string, probe bool) string {
	classOf := func(c string) string {
		r, _ := utf8.DecodeRuneInString(c)
		switch {
		case r == utf8.RuneError && c != "\ufffd":
			return "invalid-byte"
		case r > 0xFFFF && !unicode.IsPrint(r):
			return "astral-nonprintable"
		case r > 0xFFFF:
			return "astral-printable"
		case r < 0x80:
			return "ascii"
		}
		return "bmp"
	}
	var chars []string
	for i := 0; i < len(text); {
		_, n := utf8.DecodeRuneInString(text[i:])
		chars = append(chars, text[i:i+n])
		i += n
	}
	if probe && FailsAlone != nil && len(text) <= 4096 {
		seen := map[string]bool{}
		for _, c := range chars {
			if !seen[c] {
				seen[c] = true
				if FailsAlone(d, c) {
					return "char=" + classOf(c)
				}
			}
		}
		return "context-dependent"
	}
	// without a probe: the most exotic class present
	best := "ascii"
	rank := map[string]int{"ascii": 0, "bmp": 1, "astral-printable": 2, "astral-nonprintable": 3, "invalid-byte": 4}
	for _, c := range chars {
		if k := classOf(c); rank[k] > rank[best] {
			best = k
		}
	}
	return "input-has=" + best
}

func hasAstral(s string) bool {
	for _, r := range s {
		if r > 0xFFFF {
			return true
		}
	}
	return false
}

type replayCase struct {
	Kind     string                 `json:"kind"`
	Engine   string                 `json:"engine"`
	Chain    []Dir                  `json:"chain"`
	Template string                 `json:"template,omitempty"`
	JSCall   string                 `json:"js_call,omitempty"`
	Value    map[string]interface{} `json:"value,omitempty"`
	InputQ   string                 `json:"input_go_quoted"`
	InputHex string                 `json:"input_hex"`
	MidQ     string                 `json:"mid_go_quoted,omitempty"`
	OutQ     string                 `json:"observed_go_quoted"`
	Expected string                 `json:"expected"`
	Fault    string                 `json:"fault"`
}

func clip(s string) string {
	if len(s) > 300 {
		return s[:300] + "...(" + strconv.Itoa(len(s)) + " bytes)"
	}
	return s
}

var reporter = NewReporter()

func report(ctx *core.Ctx, engine string, chain []Dir, val map[string]interface{}, text, mid, out, fault, expected string) {
	d := chain[len(chain)-1]
	in := text
	if len(chain) == 2 {
		in = mid
	}
	sig := core.Sig{Family: engine, Feature: FeatureFor(engine, d, in, out, fault)}
	if !reporter.First(sig) {
		return
	}
	rc := replayCase{Kind: "c16", Engine: engine, Chain: chain, Value: val, InputQ: strconv.Quote(clip(text)),
		OutQ: strconv.Quote(clip(out)), Expected: expected, Fault: fault}
	if len(text) <= 4096 {
		rc.InputHex = fmt.Sprintf("%x", text)
	}
	if len(chain) == 2 {
		rc.MidQ = strconv.Quote(clip(mid))
	}
	if engine == "go" {
		rc.Template = OffTemplate(ChainText(chain))
	} else if engine == "js" {
		rc.Template = JSTemplate(ChainText(chain), false)
	} else {
		rc.JSCall = JSName(d.Name)
	}
	ctx.Violation(sig, fmt.Sprintf("%s {$x%s} x=%s wrote %s: %s (%s)", engine, ChainText(chain),
		strconv.Quote(clip(text)), strconv.Quote(clip(out)), fault, expected), rc)
}

// ---------------------------------------------------------------------------
// M1

var quickDevs = []string{"iwb_returns_input", "iwb_counts_escaped", "truncate_off_by_one", "uri_space_raw", "js_quote_raw", "nl2br_unescaped"}

func cfg16(dev, mode string, maxLen, exportLen int) string {
	d := "{}"
	if dev != "" {
		d = `{"` + dev + `"}`
	}
	return fmt.Sprintf("CONSTANTS\n DirDev = %s\n Mode = \"%s\"\n MaxLen = %d\n ExportLen = %d\nINIT Init\nNEXT Next\nINVARIANTS TypeOK Contract ChainContract Inverses Export\nCHECK_DEADLOCK FALSE\n", d, mode, maxLen, exportLen)
}

// ModelCheck runs the reference model (must hold) and every deviation (must
// be violated).
func ModelCheck(ctx *core.Ctx) {
	var wg sync.WaitGroup
	run := func(label, dev, mode string, maxLen, workers int, wantViolated bool) {
		defer wg.Done()
		res, err := RunTLC(ctx, core.TLCOpts{Module: "C16Model", Cfg: cfg16(dev, mode, maxLen, 1), Workers: workers,
			Timeout: 9 * time.Minute, Label: label})
		if err != nil {
			ctx.ToolError("M1 %s: %v", label, err)
			return
		}
		if wantViolated && res.Violated == "" {
			ctx.ToolError("M1 self-test: deviation %s (%s) is not rejected by the model's invariants (vacuous invariant)", dev, mode)
		}
		if !wantViolated && res.Violated != "" {
			ctx.ToolError("M1: the reference model violates %s (spec bug): %s", res.Violated, clip(res.Trace))
		}
	}
	wg.Add(2)
	go run("M1-single", "", "single", ctx.Pick(3, 4), ctx.Pick(6, 10), false)
	go run("M1-chain", "", "chain", ctx.Pick(2, 3), ctx.Pick(3, 4), false)
	devOK := map[string]string{}
	var mu sync.Mutex
	for _, dev := range QuickSubset(ctx, quickDevs, 2) {
		wg.Add(1)
		go func(dev string) {
			defer wg.Done()
			res, err := RunTLC(ctx, core.TLCOpts{Module: "C16Model", Cfg: cfg16(dev, "single", 1, 1), Workers: 1,
				Timeout: 5 * time.Minute, Label: "M1-dev-" + dev})
			if err != nil {
				ctx.ToolError("M1 deviation %s: %v", dev, err)
				return
			}
			mu.Lock()
			devOK[dev] = res.Violated
			mu.Unlock()
			if res.Violated == "" {
				ctx.ToolError("M1 self-test: deviation %s is not rejected by the model's invariants (vacuous invariant)", dev)
			}
		}(dev)
	}
	wg.Wait()
	ctx.Extra["deviations_rejected_by"] = devOK
}

// ---------------------------------------------------------------------------
// M2 export

// ExportCase is one exported (chain, string) case.
type ExportCase struct {
	Det  bool   `json:"det"`
	Kind string `json:"kind"`
	Out  string `json:"out"`
	Mid  string `json:"mid"`
}

// ExportRow is one exported chain.
type ExportRow struct {
	Chain []Dir        `json:"chain"`
	Text  string       `json:"text"`
	Cases []ExportCase `json:"cases"`
}

// Export is the decoded M2 table.
type Export struct {
	Strings []string
	Rows    []ExportRow
}

const canary = "é€\"\\\n<&>'"

// ExportCases asks TLC for the M2 case table.
func ExportCases(ctx *core.Ctx) *Export {
	res, err := RunTLC(ctx, core.TLCOpts{Module: "C16Model", Cfg: cfg16("", "export", 1, ctx.Pick(1, 2)), Workers: 1,
		Timeout: 5 * time.Minute, Label: "M2-export"})
	if err != nil {
		ctx.ToolError("M2 export: %v", err)
		return nil
	}
	if res.Violated != "" {
		ctx.ToolError("M2 export: unexpected %s", res.Violated)
		return nil
	}
	e := &Export{}
	for _, p := range res.Printed {
		if !strings.HasPrefix(p, "{") {
			continue
		}
		d := json.NewDecoder(strings.NewReader(p))
		d.UseNumber()
		if strings.HasPrefix(p, `{"strings"`) {
			var h struct {
				Strings []string `json:"strings"`
				Canary  string   `json:"canary"`
			}
			if err := d.Decode(&h); err != nil || h.Canary != canary {
				ctx.ToolError("M2 export: header/canary did not survive the TLC->Go boundary (%v, %q)", err, h.Canary)
				return nil
			}
			e.Strings = h.Strings
			continue
		}
		var row ExportRow
		if err := d.Decode(&row); err != nil {
			ctx.ToolError("M2 export: bad row: %v: %s", err, clip(p))
			return nil
		}
		e.Rows = append(e.Rows, row)
	}
	if len(e.Strings) == 0 || len(e.Rows) == 0 {
		ctx.ToolError("M2 export: empty table (%d strings, %d rows): %s", len(e.Strings), len(e.Rows), tail(res.Stdout, 500))
		return nil
	}
	for _, r := range e.Rows {
		if len(r.Cases) != len(e.Strings) {
			ctx.ToolError("M2 export: row %s has %d cases for %d strings", r.Text, len(r.Cases), len(e.Strings))
			return nil
		}
	}
	ctx.Extra["m2_chains"] = len(e.Rows)
	ctx.Extra["m2_strings"] = len(e.Strings)
	return e
}

// checkGo renders the chain on value x (text = its text, val = spec value for
// json) with the real renderer and checks the contract of the last directive
// on the input that reached it.  It returns out, mid and the fault.
func checkGo(real *Real, chain []Dir, val map[string]interface{}, x data.Value, text string) (out, mid, fault string) {
	out, mid, fault, _ = checkGoErr(real, chain, val, x, text)
	return
}

func checkGoErr(real *Real, chain []Dir, val map[string]interface{}, x data.Value, text string) (out, mid, fault string, errored bool) {
	out, err := real.RenderOff(ChainText(chain), x)
	errored = err != nil
	last := chain[len(chain)-1]
	inText, inVal := text, val
	if len(chain) == 2 {
		var err1 error
		mid, err1 = real.RenderOff(ChainText(chain[:1]), x)
		if err1 != nil {
			return out, mid, "unspec", errored // the first directive is judged as a single directive
		}
		inText = mid
		first := chain[0].Name
		passesValue := first == "noAutoescape" || first == "id" || (first == "truncate" && mid == text)
		if !passesValue {
			inVal = core.VStr(mid)
		} else if last.Name == "json" && val["t"] != "str" {
			return out, mid, "unspec", errored
		}
	}
	if err != nil {
		if !inRange(chain) || (last.Name == "truncate" && !utf8.ValidString(inText)) {
			return out, mid, "unspec", errored
		}
		return out, mid, "error", errored
	}
	if !inRange(chain) {
		return out, mid, "unspec", errored
	}
	if val["t"] != "str" && !(len(chain) == 1 && last.Name == "json") {
		return out, mid, "unspec", errored // the text of a non-string is the spec's business: judged by TLC (M3)
	}
	return out, mid, Contract(last, inVal, inText, out), errored
}

func inRange(chain []Dir) bool {
	for _, d := range chain {
		switch d.Name {
		case "insertWordBreaks", "truncate":
			if len(d.Args) < 1 || d.Args[0]["t"] != "int" || d.ArgN(0) < 1 {
				return false
			}
		}
	}
	return true
}

// ReplayExport replays every exported case.
func ReplayExport(ctx *core.Ctx, real *Real, e *Export) {
	type job struct{ ri, si int }
	jobs := make(chan job, 1024)
	var wg sync.WaitGroup
	var n, exact int64
	var mu sync.Mutex
	for w := 0; w < runtime.NumCPU(); w++ {
		wg.Add(1)
		go func() {
			defer wg.Done()
			var ln, lexact int64
			for j := range jobs {
				row, s := e.Rows[j.ri], e.Strings[j.si]
				cs := row.Cases[j.si]
				val := core.VStr(s)
				out, mid, fault := checkGo(real, row.Chain, val, data.String(s), s)
				ln++
				if s != "" {
					ctx.Distinct("go|" + row.Text + "|" + s)
				}
				if fault != "" && fault != "unspec" {
					report(ctx, "go", row.Chain, val, s, mid, out, fault, "contract of the last directive (SoyDirectives.DirContract)")
					continue
				}
				if fault == "" && cs.Det {
					ok := true
					switch cs.Kind {
					case "exact":
						ok = out == cs.Out
					case "canon":
						ok = HTMLCanon(out) == HTMLCanon(cs.Out)
					}
					if cs.Kind != "contract" {
						lexact++
					}
					if !ok && len(row.Chain) == 2 && HTMLCanon(mid) != HTMLCanon(cs.Mid) {
						// the first directive is the one that deviates
						report(ctx, "go", row.Chain[:1], val, s, "", mid, "differs-from-reference",
							"reference result of the first directive: "+strconv.Quote(cs.Mid))
					} else if !ok {
						report(ctx, "go", row.Chain, val, s, mid, out, "differs-from-reference",
							"reference result (pinned, kind="+cs.Kind+"): "+strconv.Quote(cs.Out))
					}
				}
			}
			mu.Lock()
			n += ln
			exact += lexact
			mu.Unlock()
		}()
	}
	for ri := range e.Rows {
		for si := range e.Strings {
			jobs <- job{ri, si}
		}
	}
	close(jobs)
	wg.Wait()
	ctx.AddEvals(n)
	ctx.AddTraces(n)
	ctx.Extra["m2_cases_replayed"] = n
	ctx.Extra["m2_cases_compared_with_reference_text"] = exact
	ctx.Sample(map[string]interface{}{"family": "M2", "chain": e.Rows[len(e.Rows)/2].Text, "input": e.Strings[len(e.Strings)/2],
		"reference": e.Rows[len(e.Rows)/2].Cases[len(e.Strings)/2]})
}

// ---------------------------------------------------------------------------
// systematic grid

func intArg(n int) map[string]interface{}   { return map[string]interface{}{"t": "int", "v": n} }
func boolArg(b bool) map[string]interface{} { return map[string]interface{}{"t": "bool", "v": b} }

// GridDirs is every directive instance of the grid.
func GridDirs() []Dir {
	var ds []Dir
	for _, n := range []string{"escapeHtml", "escapeUri", "escapeJsString", "json", "changeNewlineToBr", "noAutoescape", "id"} {
		ds = append(ds, Dir{Name: n, Args: []map[string]interface{}{}})
	}
	for _, n := range []int{1, 2, 3, 5, 8, 30, 1000} {
		ds = append(ds, Dir{Name: "insertWordBreaks", Args: []map[string]interface{}{intArg(n)}})
	}
	for _, n := range []int{1, 2, 3, 4, 5, 8, 16, 100, 5000} {
		ds = append(ds, Dir{Name: "truncate", Args: []map[string]interface{}{intArg(n)}})
		ds = append(ds, Dir{Name: "truncate", Args: []map[string]interface{}{intArg(n), boolArg(false)}})
		ds = append(ds, Dir{Name: "truncate", Args: []map[string]interface{}{intArg(n), boolArg(true)}})
	}
	return ds
}

type nodeCheck struct {
	chain []Dir
	text  string
	val   map[string]interface{}
	out   string
}

// Grid checks every directive instance and every exported pair on the
// adversarial string set; the outputs of escapeJsString and json are also
// decoded by node (string-literal evaluation, JSON.parse).
func Grid(ctx *core.Ctx, real *Real, e *Export) {
	strs := AdversarialStrings(ctx.Thorough())
	var chains [][]Dir
	for _, d := range GridDirs() {
		chains = append(chains, []Dir{d})
	}
	if e != nil {
		for _, r := range e.Rows {
			if len(r.Chain) == 2 {
				chains = append(chains, r.Chain)
			}
		}
	}
	type job struct {
		chain []Dir
		s     string
	}
	jobs := make(chan job, 1024)
	var wg sync.WaitGroup
	var n int64
	var mu sync.Mutex
	var forNode []nodeCheck
	for w := 0; w < runtime.NumCPU(); w++ {
		wg.Add(1)
		go func() {
			defer wg.Done()
			var ln int64
			var lnode []nodeCheck
			for j := range jobs {
				vals := []map[string]interface{}{core.VStr(j.s)}
				if len(j.chain) == 1 && j.chain[0].Name == "json" && len(j.s) <= 64 {
					vals = append(vals, core.VList(core.VStr(j.s), core.VInt(-3), core.VFloat(3, 1), core.VNull(), core.VBool(true), core.VList()),
						core.VMap(map[string]core.V{"k": core.VStr(j.s), "j": core.VList(core.VStr(j.s))}))
					if j.s != "" && utf8.ValidString(j.s) {
						vals = append(vals, core.VMap(map[string]core.V{j.s: core.VInt(1)}))
					}
				}
				for _, val := range vals {
					text := j.s
					var x data.Value = data.String(j.s)
					if val["t"] != "str" {
						x = core.ToData(val)
						text = ""
					}
					out, mid, fault := checkGo(real, j.chain, val, x, text)
					ln++
					if j.s != "" {
						ctx.Distinct("go|" + ChainText(j.chain) + "|" + fmt.Sprint(val["t"]) + "|" + j.s)
					}
					if fault != "" && fault != "unspec" {
						report(ctx, "go", j.chain, val, j.s, mid, out, fault, "contract of the last directive (SoyDirectives.DirContract)")
						continue
					}
					last := j.chain[len(j.chain)-1].Name
					if fault == "" && len(j.chain) == 1 && (last == "escapeJsString" || last == "json") &&
						utf8.ValidString(j.s) && utf8.ValidString(out) && len(j.s) <= 4096 {
						lnode = append(lnode, nodeCheck{j.chain, j.s, val, out})
					}
				}
			}
			mu.Lock()
			n += ln
			forNode = append(forNode, lnode...)
			mu.Unlock()
		}()
	}
	for _, ch := range chains {
		for _, s := range strs {
			if len(ch) == 2 && len(s) > 8192 {
				continue
			}
			jobs <- job{ch, s}
		}
	}
	close(jobs)
	wg.Wait()
	ctx.AddEvals(n)
	ctx.AddTraces(n)
	ctx.Extra["grid_cases"] = n
	ctx.Extra["grid_strings"] = len(strs)
	ctx.Extra["grid_chains"] = len(chains)
	ctx.Sample(map[string]interface{}{"family": "GRID", "chain": "|insertWordBreaks:3", "input": "a<bcdefg"})
	nodeDecode(ctx, forNode)
	nonFiniteJSON(ctx, real)
}

// nonFiniteJSON: JSON has no NaN / Infinity.  For a value that holds one,
// |json may fail the render or write some well-formed JSON text (JavaScript
// writes null); what it may not do is succeed with text that is not JSON.
func nonFiniteJSON(ctx *core.Ctx, real *Real) {
	cases := []struct {
		name string
		x    data.Value
	}{
		{"NaN", data.Float(math.NaN())}, {"+Inf", data.Float(math.Inf(1))}, {"-Inf", data.Float(math.Inf(-1))},
		{"[1, NaN]", data.List{data.Int(1), data.Float(math.NaN())}}, {"{k: -Inf}", data.Map{"k": data.Float(math.Inf(-1))}},
	}
	for _, c := range cases {
		for _, chain := range []string{"|json", "|noAutoescape|json", "|json|escapeHtml"} {
			out, err := real.RenderOff(chain, c.x)
			ctx.AddEvals(1)
			ctx.Distinct("go|nonfinite|" + chain + "|" + c.name)
			if err != nil {
				continue
			}
			txt := out
			if strings.HasSuffix(chain, "|escapeHtml") {
				txt, _ = HTMLDecode(out)
			}
			var v interface{}
			if json.Unmarshal([]byte(txt), &v) != nil {
				sig := core.Sig{Family: "go", Feature: "directive=json,malformed,nonfinite-input"}
				if reporter.First(sig) {
					ctx.Violation(sig, fmt.Sprintf("{$x%s} with x = %s renders %s without an error: not JSON text", chain, c.name, strconv.Quote(out)),
						map[string]interface{}{"kind": "c16-nonfinite", "template": OffTemplate(chain), "x": c.name, "observed": out})
				}
			}
		}
	}
}

// nodeDecode has node evaluate the Go outputs of escapeJsString (as string
// literal bodies) and json (JSON.parse): a second, independent decoder.
func nodeDecode(ctx *core.Ctx, cs []nodeCheck) {
	if len(cs) == 0 {
		return
	}
	var jobs []JSJob
	for _, c := range cs {
		if c.chain[0].Name == "json" {
			jobs = append(jobs, JSJob{Op: "json", Text: c.out})
		} else {
			jobs = append(jobs, JSJob{Op: "jsstr", Body: c.out})
		}
	}
	res, engine, err := RunNode(jobs)
	if err != nil {
		res, engine, err = RunNode(jobs) // once more in a fresh process
		if err == nil {
			atomic.AddInt64(&jsRetriedOK, 1)
		}
	}
	if err != nil {
		ctx.ToolError("node decoders: %v", err)
		return
	}
	confirmJobs(ctx, jobs, res)
	ctx.Extra["js_engine"] = engine
	for i, c := range cs {
		r := res[i]
		fault := ""
		switch {
		case !r.OK && c.chain[0].Name == "json":
			fault = "malformed"
		case !r.OK:
			fault = "unsafe"
		case c.chain[0].Name == "json":
			fault = JSONFault(r.S, c.val)
		case !r.WF || !SameText(r.S, c.text) || r.S != r.S2:
			fault = "decodes-wrong"
		}
		if fault != "" {
			report(ctx, "go", c.chain, c.val, c.text, "", c.out, fault, "node evaluates the output to "+strconv.Quote(clip(r.S))+" "+r.Err)
		}
	}
	ctx.AddEvals(int64(len(cs)))
	ctx.Extra["outputs_decoded_by_node"] = len(cs)
}

// ---------------------------------------------------------------------------
// M3

var reBad = regexp.MustCompile(`^<<"BAD", (\d+), "bad:([^"]*)">>$`)
var reDone = regexp.MustCompile(`^<<"DONE", (\d+), (\d+), (\d+)>>$`)

type traceLine struct {
	Chain []Dir                  `json:"chain"`
	V     map[string]interface{} `json:"v"`
	Err   bool                   `json:"err"`
	Out   string                 `json:"out"`
	Mid   string                 `json:"mid"`
}

func randChain(r *rand.Rand, e *Export) []Dir {
	grid := GridDirs()
	if e != nil && r.Intn(3) == 0 {
		for tries := 0; tries < 10; tries++ {
			row := e.Rows[r.Intn(len(e.Rows))]
			if len(row.Chain) == 2 {
				return row.Chain
			}
		}
	}
	d := grid[r.Intn(len(grid))]
	if r.Intn(4) == 0 {
		return []Dir{d, grid[r.Intn(len(grid))]}
	}
	return []Dir{d}
}

func randValue(r *rand.Rand, s string) map[string]interface{} {
	switch r.Intn(12) {
	case 0:
		return core.VList(core.VStr(s), core.VInt(r.Intn(100)-50), core.VNull())
	case 1:
		return core.VMap(map[string]core.V{"k": core.VStr(s), "b": core.VBool(r.Intn(2) == 0)})
	case 2:
		return core.VInt(r.Intn(20001) - 10000)
	case 3:
		return core.VFloat(2*(r.Intn(401)-200)+1, 1+r.Intn(3))
	}
	return core.VStr(s)
}

// RandomTraces records n random applications of the real renderer and has TLC
// validate them against DirContract (M3).
func RandomTraces(ctx *core.Ctx, real *Real, e *Export, n int) {
	r := rand.New(rand.NewSource(ctx.Seed))
	batch := 5000
	for done := 0; done < n; done += batch {
		k := batch
		if n-done < k {
			k = n - done
		}
		var lines []traceLine
		for len(lines) < k {
			s := RandString(r, true)
			chain := randChain(r, e)
			val := randValue(r, s)
			if chain[0].Name != "json" {
				val = core.VStr(s) // C16 quantifies over strings; structure matters to |json only
			}
			text := s
			var x data.Value = data.String(s)
			if val["t"] != "str" {
				x = core.ToData(val)
				text = ""
			}
			out, mid, fault, errored := checkGoErr(real, chain, val, x, text)
			ctx.AddEvals(1)
			if s != "" {
				ctx.Distinct("go|" + ChainText(chain) + "|" + fmt.Sprint(val["t"]) + "|" + s)
			}
			if fault != "" && fault != "unspec" {
				report(ctx, "go", chain, val, s, mid, out, fault, "contract of the last directive (SoyDirectives.DirContract)")
			}
			if !TLCSafe(s) || !TLCSafe(out) || !TLCSafe(mid) {
				continue // judged by the Go decoders only
			}
			if len(chain) == 2 {
				if _, e := real.RenderOff(ChainText(chain[:1]), x); e != nil {
					continue // the first directive fails by itself: judged as a single directive
				}
			}
			lines = append(lines, traceLine{chain, val, errored, out, mid})
		}
		validate(ctx, "go", lines)
	}
}

func validate(ctx *core.Ctx, engine string, lines []traceLine) {
	var buf bytes.Buffer
	for _, l := range lines {
		b, err := json.Marshal(l)
		if err != nil {
			ctx.ToolError("trace: %v", err)
			return
		}
		buf.Write(b)
		buf.WriteByte('\n')
	}
	cfg := "CONSTANT DirDev = {}\nINIT Init\nNEXT Next\nINVARIANT Report\nPOSTCONDITION TraceAccepted\nCHECK_DEADLOCK FALSE\n"
	res, err := RunTLC(ctx, core.TLCOpts{Module: "C16Trace", Cfg: cfg, Files: map[string][]byte{"c16_trace.ndjson": buf.Bytes()},
		Workers: 1, Timeout: 9 * time.Minute, Label: "M3-trace-validation-" + engine})
	if err != nil {
		ctx.ToolError("M3: %v", err)
		return
	}
	if res.Violated != "" {
		ctx.ToolError("M3: trace spec reported %s: %s", res.Violated, clip(res.Trace))
		return
	}
	doneOK := false
	for _, t := range res.Tuples {
		if m := reBad.FindStringSubmatch(t); m != nil {
			i, _ := strconv.Atoi(m[1])
			l := lines[i-1]
			text := ""
			if l.V["t"] == "str" {
				text = l.V["v"].(string)
			}
			report(ctx, engine, l.Chain, l.V, text, l.Mid, l.Out, m[2], "rejected by TLC against SoyDirectives.DirContract (trace validation)")
		} else if m := reDone.FindStringSubmatch(t); m != nil {
			cnt, _ := strconv.Atoi(m[1])
			skip, _ := strconv.Atoi(m[3])
			doneOK = cnt == len(lines)
			ctx.AddTraces(int64(cnt - skip))
		}
	}
	if !doneOK {
		ctx.ToolError("M3: TLC did not consume the whole trace: %s", tail(res.Stdout, 500))
	}
	if len(lines) > 0 {
		ctx.Sample(map[string]interface{}{"family": "M3-" + engine, "line": lines[len(lines)/2]})
	}
}

// ---------------------------------------------------------------------------
// replay

// Replay re-runs one saved case.
func Replay(ctx *core.Ctx) {
	b, err := os.ReadFile(ctx.ReplayPath)
	if err != nil {
		ctx.ToolError("replay: %v", err)
		return
	}
	var v struct {
		Replay replayCase `json:"replay"`
	}
	if err := json.Unmarshal(b, &v); err != nil {
		ctx.ToolError("replay: %v", err)
		return
	}
	rc := v.Replay
	if rc.Kind == "no-return" {
		fmt.Println("replay: this finding is a render that does not return; it is not re-run (render the saved template with the saved value under a deadline)")
		return
	}
	var raw []byte
	fmt.Sscanf(rc.InputHex, "%x", &raw)
	s := string(raw)
	if rc.Engine != "go" {
		jsReplay(ctx, rc, s)
		return
	}
	val := rc.Value
	if val == nil {
		val = core.VStr(s)
	}
	var x data.Value = data.String(s)
	text := s
	if val["t"] != "str" {
		x = core.ToData(val)
		text = ""
	}
	out, mid, fault := checkGo(NewReal(), rc.Chain, val, x, text)
	ctx.AddEvals(1)
	fmt.Printf("replay: {$x%s} x=%s -> %s (fault=%q)\n", ChainText(rc.Chain), strconv.Quote(clip(s)), strconv.Quote(clip(out)), fault)
	if fault != "" && fault != "unspec" {
		report(ctx, "go", rc.Chain, val, s, mid, out, fault, "replay")
	}
}
