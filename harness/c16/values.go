package c16

import (
	"math/rand"
	"strings"
)

// Specials are the five HTML special characters.
var Specials = []string{"&", "<", ">", "\"", "'"}

// AdversarialStrings is the systematic string set shared by C03 and C16:
// every single byte, every pair and triple of the five specials, multi-byte
// and astral characters, entity-like and tag-like texts, long runs, invalid
// UTF-8, the empty string.
func AdversarialStrings(thorough bool) []string {
	var vs []string
	add := func(s ...string) { vs = append(vs, s...) }
	add("")
	for b := 0; b < 256; b++ {
		add(string([]byte{byte(b)}))
	}
	for _, a := range Specials {
		for _, b := range Specials {
			add(a + b)
			for _, c := range Specials {
				add(a + b + c)
			}
		}
	}
	// multi-byte, astral, separators, non-characters, unprintable astral
	add("é", "€", "😀", "\u2028", "\u2029", "\ufffd", "\ufeff", "\u00a0", "\u0085", "\U0010FFFF", "\U000E0001",
		"\U000F0000", "\uffff", "日本語", "éé<éé", "a😀b😀c", "😀😀😀😀😀😀😀😀", "éééééééééé", "€€€€€€",
		"x\u0301y", "\u202eabc")
	// entity-like and tag-like
	add("&lt;", "&amp;lt;", "&#60;", "&#x3c;", "&#39;", "&quot;", "&amp", "&lt", "&;", "&#;", "&#x;", "& ;", "&&&&;",
		"<a>", "</a>", "<b>hello</b>", "<script>alert(1)</script>", "</script>", "</SCRIPT >", "<a href='x' title=\"y\">",
		"<!--", "-->", "]]>", "<![CDATA[", "<wbr>", "<br>", "a<wbr>b", "a<br>b", "&lt;wbr&gt;", "<<<<<<<<", ">>>>>>>>",
		"a<bcdefg", "abc<defg", "ab&cdefgh", "it's \"q\" & <b>", "a&b<c>d\"e'f", "'''''''''", "\"\"\"\"\"\"\"\"\"")
	// words, spaces, newlines
	add("a", "abc", "a b", "a b c d", "abcdefghij", "12 345 6789", "1234567890", "Lorem Ipsum", "Lorem ipsum dolor sit amet",
		"  ", " a ", "a  b", "\r1\n2\r3\r\n\n4\n\n", "\r\n", "\n\r", "a\nb", "a\r\nb", "<\r\n>\n\r&", "\t\v\f", "...", "ab...", "a...b")
	// URI and JS specials
	add("a%b > c", "a%25b+c", "%", "%%", "%zz", "+", "a+b", "a=b&c=d", "~-_.!*'()", "http://x/y?z=1#f", "x\\y", "\\", "\\\\",
		"\\'", "\\u003c", "x\\y'z", "\\n", "'+alert(1)+'", "\";alert(1);//", "</scr\\ipt>", "\x00a\x00", "a\x1fb", "\x7f")
	// context-sensitive escape hazards: an escape that is only wrong because of what follows or
	// precedes it (NUL before a digit, a backslash before a letter that forms an escape when
	// re-read, a lone backslash at the end, line/paragraph separators next to quotes, CR LF pairs)
	hazards := []string{"\x000", "\x001", "\x007", "\x008", "\x009", "\x00\x00", "\x00a", "\\u0041", "\\u", "\\x41", "\\x",
		"\\n", "\\r", "\\t", "\\0", "\\01", "\\1", "\\\n", "\\\r\n", "\\", "a\\", "\\\\\\", "\\'", "\\\"", "</script", "</script>", "</ScRiPt x>", "<\\/script>",
		"]]>", "<![CDATA[x]]>", "<!--", "--!>", "'\u2028'", "\"\u2029\"", "\u2028\n", "'\u2028", "\u2029\"", "\r\n", "\r\n\r\n", "\n\r", "'\r\n'",
		"\"\r\n\"", "\r", "%0", "%00", "%2", "+%2B", "&#0;", "&#x0;", "&#", "&#1"}
	for _, h := range hazards {
		add(h, "id"+h+"1", "x"+h+"y"+h, h+h+"z")
	}
	// invalid UTF-8
	add("\xff", "a\xffb", "\xc3", "\xe2\x82", "\xf0\x9f\x98", "\xed\xa0\x80", "\x80\x80\x80\x80\x80\x80\x80", "é\xff<\xfe>", "\xc0\xbc")
	// long runs
	n := 4096
	add(strings.Repeat("<", n), strings.Repeat("a", n), strings.Repeat("&amp;", n/4), strings.Repeat("é", n/2),
		strings.Repeat("ab cd<>", n/8), strings.Repeat("'\"", 300))
	if thorough {
		add(strings.Repeat("😀", 16384), strings.Repeat("x", 65536), strings.Repeat("<&>\"' ", 10000))
		for _, a := range Specials {
			for b := 0; b < 256; b++ {
				add(a+string([]byte{byte(b)}), string([]byte{byte(b)})+a)
			}
		}
	}
	return vs
}

var randAlphabet = []string{"&", "<", ">", "\"", "'", "a", "b", "#", ";", "l", "t", "g", "3", " ", " ", "\n", "\r", "é", "€",
	"\\", "%", "+", "/", "=", "x", "1", ".", "-", "~", "!", "(", "*", "\t", "A", "Z", "s", "c", "r", "i", "p"}
var randWide = []string{"ñ", "中", "\u2028", "\u00a0", "😀", "\U000E0001", "\ufffd", "\x00", "\x01", "\x7f", "\xff", "\xc3"}

// RandString produces a seeded random string: mostly over the model's
// alphabet (so that TLC can judge it), sometimes with characters outside it;
// wide = allow characters the TLA+ model has no code for / invalid bytes.
func RandString(r *rand.Rand, wide bool) string {
	n := r.Intn(14)
	if r.Intn(10) == 0 {
		n = 14 + r.Intn(40)
	}
	var b strings.Builder
	for i := 0; i < n; i++ {
		if wide && r.Intn(8) == 0 {
			b.WriteString(randWide[r.Intn(len(randWide))])
		} else {
			b.WriteString(randAlphabet[r.Intn(len(randAlphabet))])
		}
	}
	return b.String()
}

// TLCSafe reports whether a string can cross the JSON boundary to TLC
// unchanged and stays within the Basic Multilingual Plane (the TLA+ modules
// count characters as UTF-16 units) without control characters other than
// \t \n \f \r.
func TLCSafe(s string) bool {
	for i := 0; i < len(s); {
		c := s[i]
		if c < 0x80 {
			if c < 0x20 && c != '\t' && c != '\n' && c != '\r' && c != '\f' || c == 0x7f {
				return false
			}
			i++
			continue
		}
		rn, size := decodeRune(s[i:])
		if rn < 0 || rn > 0xFFFF || rn == 0xFFFD || rn == 0xFEFF {
			return false
		}
		i += size
	}
	return true
}

func decodeRune(s string) (rune, int) {
	for _, r := range s {
		if r == 0xFFFD && !strings.HasPrefix(s, "\ufffd") {
			return -1, 1 // invalid byte
		}
		return r, len(string(r))
	}
	return -1, 1
}
