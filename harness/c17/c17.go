// Package c17 decides property C17: the source text printed for a parsed
// expression parses back to a structurally identical tree.
package c17

import (
	"encoding/json"
	"fmt"
	"math/rand"
	"strings"
	"time"

	"github.com/robfig/soy"
	"github.com/robfig/soy/ast"
	"github.com/robfig/soy/parse"

	"verif/core"
)

// Run is the entry point for C17.
func Run(ctx *core.Ctx) {
	ctx.Rule = "cases: expression trees; (a) TLC-enumerated family of SoySyntax.tla: every (parent operator, child operator, operand position) over 14 binary, 2 unary and the ternary operator plus literal/data-reference/call shapes, with the spec's minimal and full spellings; (b) seeded random typed trees of depth<=6 in random spellings; (c) print commands with directives; (d) every pair of print commands from a pool (differing in the expression only, the directives only, a directive argument only, or nothing) inside one {msg}: they share a placeholder name exactly when they are the same command; each is parsed by the real parser, printed with String(), parsed again and the trees compared; non-trivial = the tree contains an operator, call, reference or collection literal; distinct by canonical tree"
	ctx.Assumptions = append(ctx.Assumptions, "tree comparison ignores positions and the original spelling of string literals")
	model(ctx)
	family(ctx)
	literals(ctx)
	random(ctx, ctx.Pick(6000, 1500000))
	printNodes(ctx, ctx.Pick(1500, 250000))
	placeholderIdentity(ctx)
}

func cfg(mode string) string {
	return "CONSTANT Mode = \"" + mode + "\"\nINIT Init\nNEXT Next\nINVARIANT Injective\nCHECK_DEADLOCK FALSE\n"
}

// model: TLC checks that table-driven printing is injective on the family
// and that printing without parentheses (the deviation) is not.
func model(ctx *core.Ctx) {
	for _, mode := range []string{"min", "full"} {
		res, err := ctx.RunTLC(core.TLCOpts{Module: "SoySyntax", Cfg: cfg(mode), Workers: 4, Timeout: 5 * time.Minute, Label: "injective-" + mode})
		if err != nil {
			ctx.ToolError("%v", err)
			return
		}
		if res.Violated != "" {
			ctx.ToolError("reference unparser (%s) is not injective on the family: %s", mode, res.Trace)
		}
	}
	res, err := ctx.RunTLC(core.TLCOpts{Module: "SoySyntax", Cfg: cfg("none"), Workers: 4, Timeout: 5 * time.Minute, Label: "deviation-print_without_parens"})
	if err != nil {
		ctx.ToolError("%v", err)
		return
	}
	ctx.Extra["deviation_print_without_parens_caught"] = res.Violated == "Injective"
	if res.Violated != "Injective" {
		ctx.ToolError("deviation print_without_parens not caught by Injective (vacuous invariant?)")
	}
}

type famCase struct {
	E    map[string]interface{} `json:"e"`
	Min  string                 `json:"min"`
	Full string                 `json:"full"`
}

func family(ctx *core.Ctx) {
	c := "CONSTANT Mode = \"min\"\nINIT Init\nNEXT Next\nINVARIANT Emit\nCHECK_DEADLOCK FALSE\n"
	res, err := ctx.RunTLC(core.TLCOpts{Module: "SoySyntax", Cfg: c, Workers: 1, Timeout: 5 * time.Minute, Label: "enumerate-family"})
	if err != nil {
		ctx.ToolError("%v", err)
		return
	}
	n := 0
	for _, p := range res.Printed {
		if !strings.HasPrefix(p, "{") {
			continue
		}
		var fc famCase
		d := json.NewDecoder(strings.NewReader(p))
		d.UseNumber()
		if err := d.Decode(&fc); err != nil {
			ctx.ToolError("bad JSON from TLC: %v", err)
			return
		}
		n++
		want := core.Canon(normalize(core.E(fc.E)))
		for _, sp := range []struct{ name, src string }{{"full", fc.Full}, {"min", fc.Min}} {
			checkTree(ctx, "family-"+sp.name, sp.src, want, map[string]interface{}(fc.E), featureOf(core.E(fc.E)))
		}
	}
	ctx.Extra["family_trees"] = n
	if n == 0 {
		ctx.ToolError("SoySyntax family is empty")
	}
}

// featureOf names the structural shape: parent/child operator kinds.
func featureOf(e core.E) string {
	k, _ := e["k"].(string)
	var kids []string
	for _, f := range []string{"a", "b", "c"} {
		if c, ok := e[f].(map[string]interface{}); ok {
			ck, _ := c["k"].(string)
			if core.Prec(ck) < 8 {
				kids = append(kids, f+"="+ck)
			}
		}
	}
	if len(kids) == 0 {
		return "node=" + k
	}
	return "parent=" + k + "," + strings.Join(kids, ",")
}

// normalize maps a spec tree to the form the real parser produces for it:
// a unary minus applied to a numeric literal is lexed as a negative literal.
func normalize(e core.E) core.E { return e }

func parseTree(src string) (ast.Node, core.E, error) {
	n, err := parse.Expr(src)
	if err != nil {
		return nil, nil, err
	}
	return n, core.FromAST(n), nil
}

// check: src must parse; (if want != "") the tree must be `want`; String()
// must parse again to the same tree.
func check(ctx *core.Ctx, fam, src, want, feature string) {
	checkTree(ctx, fam, src, want, nil, feature)
}

// foldNeg folds the negation of a numeric literal into a negative literal
// (recursively): whether the parser does that is not a matter of C17 (or of any
// property: both trees denote the same expression), so the comparison of the
// parsed tree with the specification's tree is made modulo this folding. The
// print/parse round trip below is still compared exactly.
func foldNeg(v interface{}) interface{} {
	switch x := v.(type) {
	case map[string]interface{}:
		m := map[string]interface{}{}
		for k, c := range x {
			m[k] = foldNeg(c)
		}
		if m["k"] == "neg" {
			if a, ok := m["a"].(map[string]interface{}); ok {
				switch a["k"] {
				case "int":
					return map[string]interface{}{"k": "int", "v": -toInt(a["v"])}
				case "float":
					if _, inexact := a["inexact"]; !inexact {
						return map[string]interface{}{"k": "float", "num": -toInt(a["num"]), "sh": a["sh"]}
					}
				}
			}
		}
		return m
	case []core.E:
		r := make([]interface{}, len(x))
		for i, c := range x {
			r[i] = foldNeg(c)
		}
		return r
	case []interface{}:
		r := make([]interface{}, len(x))
		for i, c := range x {
			r[i] = foldNeg(c)
		}
		return r
	}
	return v
}

func toInt(v interface{}) int {
	switch n := v.(type) {
	case int:
		return n
	case float64:
		return int(n)
	case interface{ Int64() (int64, error) }:
		i, _ := n.Int64()
		return int(i)
	}
	return 0
}

func checkTree(ctx *core.Ctx, fam, src, want string, wantTree interface{}, feature string) {
	ctx.AddEvals(1)
	n1, t1, err := parseTree(src)
	rep := map[string]interface{}{"src": src}
	if err != nil {
		ctx.Violation(core.Sig{Family: fam, Feature: "source-rejected," + feature}, "valid expression rejected: "+src+": "+err.Error(), rep)
		return
	}
	c1 := core.Canon(t1)
	ctx.Distinct(c1)
	if want != "" && c1 != want && core.Canon(foldNeg(t1)) != core.Canon(foldNeg(wantTree)) {
		rep["tree"] = t1
		rep["expected"] = want
		ctx.Violation(core.Sig{Family: fam, Feature: "parser-tree-differs," + feature}, fmt.Sprintf("%s parsed to %s, the language defines %s", src, c1, want), rep)
		return
	}
	printed := n1.String()
	rep["printed"] = printed
	ctx.AddTraces(1)
	_, t2, err := parseTree(printed)
	if err != nil {
		ctx.Violation(core.Sig{Family: fam, Feature: "printed-text-rejected," + feature}, fmt.Sprintf("%s printed as %s which does not parse: %v", src, printed, err), rep)
		return
	}
	if c2 := core.Canon(t2); c2 != c1 {
		rep["tree1"], rep["tree2"] = t1, t2
		ctx.Violation(core.Sig{Family: fam, Feature: "roundtrip-differs," + feature}, fmt.Sprintf("%s printed as %s which parses to a different tree", src, printed), rep)
	}
	if len(ctx.Samples) < 5 {
		ctx.Sample(rep)
	}
}

// the lexer reads "-1" as one negative literal where the spec tree has
// neg(int 1); both denote the same expression.
func equalModNegLit(a, b string) bool {
	r := strings.NewReplacer("{a:{k:int,v:1,},k:neg,}", "{k:int,v:-1,}")
	return r.Replace(a) == r.Replace(b)
}

func random(ctx *core.Ctx, n int) {
	r := rand.New(rand.NewSource(ctx.Seed))
	for i := 0; i < n; i++ {
		env := core.RandEnv(r)
		g := core.NewExprGen(r, env)
		g.Wild = 0.2
		e := g.Gen("any", 1+r.Intn(6))
		st := core.Style{Parens: []int{0, 0, 1, 2}[r.Intn(4)], Tight: r.Intn(3) == 0}
		check(ctx, "random", core.Unparse(e, st), "", featureOf(e))
	}
}

// printNodes: print commands with directives through parse.SoyFile.
func printNodes(ctx *core.Ctx, n int) {
	r := rand.New(rand.NewSource(ctx.Seed + 7))
	dirs := []string{"noAutoescape", "escapeHtml", "id", "truncate:5", "truncate:5,true", "insertWordBreaks:3", "changeNewlineToBr", "escapeUri", "json"}
	for i := 0; i < n; i++ {
		env := core.RandEnv(r)
		g := core.NewExprGen(r, env)
		e := g.Gen("any", 1+r.Intn(3))
		src := "{" + core.Unparse(e, core.Style{Parens: r.Intn(2)})
		for k, m := 0, r.Intn(3); k < m; k++ {
			src += "|" + dirs[r.Intn(len(dirs))]
		}
		if r.Intn(4) == 0 {
			src += "|truncate:" + core.Unparse(g.Gen("int", 2), core.Style{})
		}
		src += "}"
		checkPrint(ctx, src)
	}
}

func firstPrint(file string) (*ast.PrintNode, error) {
	f, err := parse.SoyFile("p.soy", file)
	if err != nil {
		return nil, err
	}
	for _, n := range f.Body {
		if t, ok := n.(*ast.TemplateNode); ok {
			for _, c := range t.Body.Nodes {
				if p, ok := c.(*ast.PrintNode); ok {
					return p, nil
				}
			}
		}
	}
	return nil, fmt.Errorf("no print node")
}

func canonPrint(p *ast.PrintNode) string {
	s := core.Canon(core.FromAST(p.Arg))
	for _, d := range p.Directives {
		s += "|" + d.Name
		for _, a := range d.Args {
			s += ":" + core.Canon(core.FromAST(a))
		}
	}
	return s
}

func checkPrint(ctx *core.Ctx, tag string) {
	ctx.AddEvals(1)
	wrapf := func(t string) string { return "{namespace p}\n{template .t}\n" + t + "\n{/template}\n" }
	rep := map[string]interface{}{"src": tag}
	p1, err := firstPrint(wrapf(tag))
	if err != nil {
		ctx.Violation(core.Sig{Family: "print-command", Feature: "source-rejected"}, "valid print command rejected: "+tag+": "+err.Error(), rep)
		return
	}
	c1 := canonPrint(p1)
	ctx.Distinct("print:" + c1)
	printed := p1.String()
	rep["printed"] = printed
	ctx.AddTraces(1)
	p2, err := firstPrint(wrapf(printed))
	if err != nil {
		ctx.Violation(core.Sig{Family: "print-command", Feature: "printed-text-rejected"}, fmt.Sprintf("%s printed as %s which does not parse: %v", tag, printed, err), rep)
		return
	}
	if c2 := canonPrint(p2); c2 != c1 {
		ctx.Violation(core.Sig{Family: "print-command", Feature: "roundtrip-differs"}, fmt.Sprintf("%s printed as %s which parses differently", tag, printed), rep)
	}
}

// literals: every literal class in the spellings that stress printing —
// exponent-form and huge/tiny floats, integral floats beyond the integer
// range, negative zero, hexadecimal and extreme integers, strings with every
// escape, and map literals whose escaped keys are in every position.
func literals(ctx *core.Ctx) {
	srcs := []string{
		"1e19", "6.02e23", "1e21", "1e22", "1.7976931348623157e308", "5e-324", "1e-7", "1.5e-10", "123456789012345678.0",
		"9223372036854775808.0", "-9223372036854775808.0", "0.1", "1e6", "1e+6", "-1e19", "1.0", "-0.0", "0.0", "2.50", "1e0", "100.0e-2",
		"0x0", "0x1F", "0xFFFFFFFF", "9223372036854775807", "-9223372036854775807", "0", "-1",
		`'it\'s'`, `'back\\slash'`, `'nl\nx'`, `'tab\tcr\rbs\bff\f'`, `'\u00e9\u4e2d'`, `'é日本😀'`, `''`, `'}{'`, `'//'`, `'"'`,
		"[]", "[:]", "[[], [:]]", "[1, [2, [3]]]",
	}
	keys := []string{`'a'`, `'it\'s'`, `'back\\slash'`, `'nl\nx'`, `'é'`, `'z z'`, `'\u0041'`, `'q"q'`}
	for i := range keys {
		for j := range keys {
			if i == j {
				continue
			}
			srcs = append(srcs, "["+keys[i]+": 1, "+keys[j]+": 'v']")
			for k := range keys {
				if k != i && k != j && (i+j+k)%3 == 0 {
					srcs = append(srcs, "["+keys[i]+": 1, "+keys[j]+": [2], "+keys[k]+": ["+keys[i]+": 3]]")
				}
			}
		}
	}
	for _, src := range srcs {
		check(ctx, "literals", src, "", "literal")
		check(ctx, "literals", "-("+src+")", "", "neg-literal")
		check(ctx, "literals", src+" ?: [ "+src+" ]", "", "literal-in-operator")
	}
	ctx.Extra["literal_sources"] = len(srcs)
}

// placeholderIdentity: the message extractor identifies placeholders by the
// printed text of the command. Two print commands inside one {msg} must share
// a placeholder name exactly when they are the same command (same expression
// AND same directives): pairs from a pool of commands that differ in the
// expression only, in the directives only, in a directive argument only, or
// not at all.
func placeholderIdentity(ctx *core.Ctx) {
	pool := []string{"{$x}", "{$x|noAutoescape}", "{$x|id}", "{$x|truncate:3}", "{$x|truncate:5}", "{$x|truncate:3,false}", "{$x|escapeUri|truncate:3}", "{$x|truncate:3|escapeUri}",
		"{$a.x}", "{$a.x|noAutoescape}", "{$a?.x}", "{$a['x']}", "{$x + 1}", "{$x+1}", "{($x) + 1}", "{1 + $x}", "{$x ?: 1}", "{$x ? 1 : 2}", "{$x ? (1) : 2}", "{-$x}", "{-($x)}", "{not $x}",
		"{$x == 1}", "{$x != 1}", "{[$x]}", "{['x': $x]}", "{[$x, 1]}", "{length($x)}", "{keys($x)}", "{$x.y}", "{'$x'}", "{print $x}", "{print $x|id}"}
	n := 0
	for i, a := range pool {
		for j, b := range pool {
			if j < i {
				continue
			}
			src := "{namespace p}\n/** @param? x\n @param? a */\n{template .t}\n{msg desc=\"d\"}" + a + " - " + b + " - " + a + "{/msg}{$a ? '' : ''}{$x ? '' : ''}\n{/template}\n"
			reg, err := soy.NewBundle().AddTemplateString("p.soy", src).Compile()
			ctx.AddEvals(1)
			if err != nil {
				ctx.Violation(core.Sig{Family: "placeholder-identity", Feature: "source-rejected"}, "valid message rejected: "+src+": "+err.Error(), map[string]interface{}{"src": src})
				continue
			}
			var names []string
			var prints []*ast.PrintNode
			var walk func(nd ast.Node)
			walk = func(nd ast.Node) {
				if ph, ok := nd.(*ast.MsgPlaceholderNode); ok {
					if p, ok := ph.Body.(*ast.PrintNode); ok {
						names = append(names, ph.Name)
						prints = append(prints, p)
					}
				}
				if p, ok := nd.(ast.ParentNode); ok {
					for _, c := range p.Children() {
						if c != nil {
							walk(c)
						}
					}
				}
			}
			for _, t := range reg.Templates {
				walk(t.Node)
			}
			if len(names) != 3 {
				ctx.ToolError("placeholder identity: expected 3 print placeholders in %q, found %d", src, len(names))
				return
			}
			n++
			ctx.AddTraces(1)
			same := canonPrint(prints[0]) == canonPrint(prints[1])
			rep := map[string]interface{}{"src": src, "names": names}
			switch {
			case names[0] != names[2]:
				ctx.Violation(core.Sig{Family: "placeholder-identity", Feature: "same-command-two-names"},
					fmt.Sprintf("the command %s occurs twice in one message and got two placeholder names %s / %s", a, names[0], names[2]), rep)
			case same && names[0] != names[1]:
				ctx.Violation(core.Sig{Family: "placeholder-identity", Feature: "same-command-two-names"},
					fmt.Sprintf("%s and %s are the same command but got placeholder names %s / %s", a, b, names[0], names[1]), rep)
			case !same && names[0] == names[1]:
				feat := "different-expressions-one-name"
				if core.Canon(core.FromAST(prints[0].Arg)) == core.Canon(core.FromAST(prints[1].Arg)) {
					feat = "different-directives-one-name"
				}
				ctx.Violation(core.Sig{Family: "placeholder-identity", Feature: feat},
					fmt.Sprintf("%s and %s are different commands but share the placeholder name %s (printed texts %q / %q)", a, b, names[0], prints[0].String(), prints[1].String()), rep)
			}
			ctx.Distinct("phid:" + a + "|" + b)
		}
	}
	ctx.Extra["placeholder_identity_pairs"] = n
}
