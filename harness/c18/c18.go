// Package c18 decides property C18: no parse leaves a goroutine behind.
//
// M1: SoyLexParse.tla, invariant NoLeak (parseReturned => every scanner has
// exited or can no longer block) for parse.SoyFile, parse.Expr and the nested
// quoted-expression parser, on every exit path; deviations expr_no_drain,
// quoted_no_drain, recover_no_drain, runtime_panic_in_frame must break it.
// M2/M3: every C05 input plus the C18 families is parsed in sequences of
// ~1000 inputs per worker process. Two independent observations:
//
//	hooks    at the "return" event of the entry point every scanner that ran
//	         must be closed or have had its last item received (the protocol
//	         of SoyLexProto.tla; a sample of the traces is also validated by
//	         TLC against that protocol);
//	profile  after every parse the goroutine profile is inspected for frames
//	         of parse.(*lexer).run that were not there before, and at the end
//	         of every sequence it is polled for <= 2 s and must be back to
//	         the baseline (no scanner goroutine).
package c18

import (
	"encoding/json"
	"fmt"
	"os"
	"path/filepath"
	"sort"
	"strings"

	"verif/c05"
	"verif/c19"
	"verif/core"
)

// ownInputs are the families specific to C18.
func ownInputs(ctx *core.Ctx) []c05.Input {
	var out []c05.Input
	// a complete expression followed by more tokens
	for _, s := range []string{"1 2 3", "1 2", "$a $b $c", "f(1) 2 3", "[1] [2] [3]", "'a' 'b' 'c'", "1 2 3 4 5 6 7 8 9 10", "$a.b 1 2",
		"1 + 2 3 4", "not $x $y $z", "$a ? 1 : 2 3 4", "1 )  2 3", "1 } 2 3", "1 , 2 , 3", "null true false", "1 2 #", "1 2 'abc", "(1) (2) (3)",
		"1", "1 2 3 ", "", "$a", "$a +", "1 + 2"} {
		out = append(out, c05.ExprInput("c18/expr-trailing", s))
	}
	// errors (and trailing tokens) inside quoted attribute expressions
	h := "{namespace n}\n{template .t}\n"
	for _, s := range []string{
		`{call .u data="$x +"/}`, `{css $x +, a}`, `{call .u}{param key="a" value="1 +"/}{/call}`,
		`{call .u data="$x 1 2"/}`, `{css $x 1 2 3, a}`, `{call .u}{param key="a" value="1 2 3"/}{/call}`,
		`{call .u data="$x"/}`, `{css $x, a}`, `{call .u}{param key="a" value="1"/}{/call}`,
		`{call .u data=""/}`, `{css , a}`, `{call .u}{param key="a" value=""/}{/call}`,
		`{call .u data="'abc"/}`, `{css 'abc, a}`, `{call .u data="$x #"/}`, `{call .u data="[1, 2"/}`, `{call .u data="f(1"/}`,
		`{call .u data="$x +"/} more {$y} text {$z}`, `{css $x +, a}{$y}{$z}{$w}`,
	} {
		out = append(out, c05.FileInput("c18/quoted-expr", h+s+"\n{/template}\n"))
		out = append(out, c05.FileInput("c18/quoted-expr", h+s))
	}
	// errors with many tokens left to scan, at every level
	for _, s := range []string{"{foo $x} and {$more} text {$y}", "{if $x}{foo $x}{/if}{$a}{$b}{$c}", "}{$a}{$b}{$c}", "{$a}{$b}}{$c}{$d}",
		"{namespace template alias if}", "{print 08}{$a}{$b}{$c}", "/* x", "{$a}{$b}{$c}{literal}"} {
		out = append(out, c05.FileInput("c18/error-with-tail", h+s+"\n{/template}\n"))
		out = append(out, c05.FileInput("c18/error-with-tail", s))
	}
	// soy.ParseGlobals calls parse.Expr per line
	globals := []string{"a = 1\nb = 'x'\nc = true\n", "a = 1 2 3\n", "a = 1\nb = 2 3\nc = 4\n", "a = \n", "a = 1 +\n", "// c\n\na = null\n", "a\n",
		"a = 'abc\n", "a = 1.5\nb = -2\n", "a = 0x1F 2\n"}
	if b, err := os.ReadFile(filepath.Join(core.RepoDir, "testdata", "FeaturesUsage_globals.txt")); err == nil {
		txt := string(b)
		globals = append(globals, txt)
		lines := strings.Split(txt, "\n")
		for i := range lines {
			if strings.Contains(lines[i], "=") {
				mut := append([]string(nil), lines...)
				mut[i] = lines[i] + " 2 3"
				globals = append(globals, strings.Join(mut, "\n"))
			}
		}
	}
	for _, g := range globals {
		out = append(out, c05.Input{Entry: "globals", Text: []byte(g), Family: "c18/globals"})
	}
	return out
}

// bundleInputs: the public compile API (NewBundle, AddTemplateString,
// AddGlobalsFile, Compile / CompileToTofu) on bundles of k files of which j are
// broken (j = 0..3; at the front, at the back, spread), broken by a lexical
// error, a parser error, a checker error or a duplicate template, with and
// without a globals file (valid, with an error early in a long file).
func bundleInputs() []c05.Input {
	good := func(i int) (string, string) {
		return fmt.Sprintf("dir/f%d.soy", i), fmt.Sprintf("{namespace ns.f%d}\n\n/** @param x */\n{template .t}\nhello {$x}\n{/template}\n", i)
	}
	broken := map[string]func(i int) string{
		"lexical": func(i int) string {
			return fmt.Sprintf("{namespace ns.f%d}\n{template .t}\n{$x # 1}\n{/template}\n", i)
		},
		"parser": func(i int) string { return fmt.Sprintf("{namespace ns.f%d}\n{template .t}\n{if $x}\n{/template}\n", i) },
		"parser-long-tail": func(i int) string {
			return fmt.Sprintf("{namespace ns.f%d}\n{template .t}\n{foo $x}\n", i) + strings.Repeat("text {$y} {if $c}a{/if}\n", 200) + "{/template}\n"
		},
		"checker": func(i int) string {
			return fmt.Sprintf("{namespace ns.f%d}\n{template .t}\n{$undeclared}\n{/template}\n", i)
		},
		"duplicate": func(i int) string {
			return "{namespace ns.f0}\n/** @param x */\n{template .t}\ndup {$x}\n{/template}\n"
		},
		"empty": func(i int) string { return "" },
		"bom":   func(i int) string { _, t := good(i); return "\xef\xbb\xbf" + t },
	}
	var kinds []string
	for k := range broken {
		kinds = append(kinds, k)
	}
	sort.Strings(kinds)
	globalsTexts := []string{"", "a = 1\nb = 'x'\n", "a = 1 +\n" + strings.Repeat("g = 1\n", 80), "bad line\n" + strings.Repeat("g = 1\n", 40)}
	var out []c05.Input
	add := func(spec c05.BundleSpec, fam string) {
		b, _ := json.Marshal(spec)
		out = append(out, c05.Input{Entry: "bundle", Text: b, Family: "c18/bundle-" + fam})
	}
	for _, k := range []int{1, 2, 3, 4, 6, 9} {
		for j := 0; j <= 3 && j <= k; j++ {
			for _, place := range []string{"front", "back", "spread"} {
				if j == 0 && place != "front" {
					continue
				}
				bad := map[int]bool{}
				for b := 0; b < j; b++ {
					switch place {
					case "front":
						bad[b] = true
					case "back":
						bad[k-1-b] = true
					default:
						bad[(b*k)/j+(k/j)/2] = true
					}
				}
				for _, kind := range kinds {
					if j == 0 && kind != kinds[0] {
						continue
					}
					for gi, g := range globalsTexts {
						if gi > 0 && !(kind == "lexical" || j == 0) {
							continue
						}
						for _, tofu := range []bool{false, true} {
							var spec c05.BundleSpec
							for i := 0; i < k; i++ {
								n, t := good(i)
								if bad[i] {
									t = broken[kind](i)
								}
								spec.Files = append(spec.Files, struct {
									Name string `json:"name"`
									Text string `json:"text"`
								}{n, t})
							}
							spec.Globals, spec.GlobalsFile, spec.Tofu = g, g != "", tofu
							add(spec, kind)
						}
					}
				}
			}
		}
	}
	return out
}

func exitPath(r *c05.Result) string {
	if r.Outcome == "tree" {
		return "success"
	}
	return "error"
}

func entryName(in *c05.Input) string {
	switch in.Entry {
	case "expr":
		return "parse.Expr"
	case "globals":
		return "soy.ParseGlobals"
	case "bundle":
		return "soy.Bundle.Compile"
	}
	return "parse.SoyFile"
}

func leakFeature(in *c05.Input, r *c05.Result) string {
	which := "unattributed-by-hooks"
	switch {
	case len(r.Leaks) > 0:
		which = "entry-scanner-still-sending"
		if r.Leaks[0].Scanner > 1 {
			which = "nested-quoted-expr-scanner-still-sending"
		}
		if in.Entry == "file" && r.Lexers > 1 && r.Leaks[0].Scanner == 1 && len(r.Leaks) == 1 {
			// the scanner the entry point started FIRST is abandoned while a later one was used
			which = "first-scanner-abandoned"
		}
	case r.ProfWhere != "" && !strings.Contains(r.ProfWhere, "(*lexer)"):
		// a goroutine of the library that is not a (hooked) scanner
		which = "goroutine-started-in-" + r.ProfWhere
	}
	return "leak:" + entryName(in) + "/" + exitPath(r) + "/" + which
}

type replay struct {
	Entry    string      `json:"entry"`
	Name     string      `json:"name"`
	Text     string      `json:"text"`
	TextB64  []byte      `json:"text_bytes"`
	Family   string      `json:"family"`
	Expected string      `json:"expected"`
	Observed interface{} `json:"observed"`
	Sequence interface{} `json:"sequence,omitempty"`
}

func mkReplay(in *c05.Input, r *c05.Result, seq interface{}) *replay {
	return &replay{Entry: in.Entry, Name: in.Name, Text: string(in.Text), TextB64: in.Text, Family: in.Family,
		Expected: "after the entry point returns no goroutine runs parse.(*lexer).run (hooks: every scanner closed or its last item received; profile: back to baseline within 2 s)",
		Observed: r, Sequence: seq}
}

// Run is the entry point of the C18 checker.
func Run(ctx *core.Ctx) {
	ctx.Rule = "inputs: every C05 family (SoyLexer state graph, tag sequences at every level, prefixes, token mutations, random bytes, deviation replays) plus: complete expression followed by more tokens (parse.Expr), errors/trailing tokens inside quoted attribute expressions (data=, value=, {css expr, cls}), errors with many tokens left, soy.ParseGlobals texts; parsed in sequences of 1000 per worker process. A case is one parse that returned; distinct_nontrivial = distinct (entry, text) whose parse started at least one scanner and returned. Observations: hook protocol state of every scanner at the return event; goroutine profile after every parse and polled <= 2 s at the end of every sequence"
	ctx.Assumptions = append(ctx.Assumptions,
		"inputs whose parse does not return (C05 findings) are skipped here: C18 speaks about parses that return",
		"a leak is reported when the hooks flag the parse AND the goroutine profile shows the scanner goroutine(s) still alive after the parse and after the 2 s poll at the end of the sequence; disagreement between the two observations is tool trouble, never a violation",
		"ParseGlobals: panics of the expression evaluator (C06) are recovered by the harness and not judged")
	if ctx.ReplayPath != "" {
		runReplay(ctx)
		return
	}
	models := c05.StartModels(ctx, "paths,parse-c18")
	inputs, counts, err := c05.BuildInputs(ctx, nil)
	if err != nil {
		ctx.ToolError("%v", err)
		return
	}
	own := append(ownInputs(ctx), bundleInputs()...)
	counts["c18"] = len(own)
	inputs = append(own, inputs...)
	// the generated files of C19's parse half (valid and with every fault at
	// every line, all line ends / file ends)
	c19in := c19.ParseCaseInputs(ctx)
	counts["c19-files"] = len(c19in)
	inputs = append(inputs, c19in...)
	c05.MarkTraces(inputs, ctx.Pick(40, 25))
	for i := range own {
		inputs[i].Trace = true
	}
	pool := c05.NewPool(16)
	pool.SeqLen, pool.Baseline, pool.Prof = 1000, true, true
	results := pool.Run(inputs)
	models.StartRest()
	// batch 2: SoyLexer state-graph inputs and replays of the deviation counterexamples
	paths := models.WaitPaths()
	in2 := c05.ModelInputs(paths)
	counts["model"] = len(in2)
	rep := models.ReplayInputs()
	counts["replay"] = len(rep)
	in2 = append(in2, rep...)
	c05.MarkTraces(in2, 7)
	off := len(inputs)
	nseq1 := len(pool.Sequences)
	res2 := pool.Run(in2)
	for i := nseq1; i < len(pool.Sequences); i++ {
		for k := range pool.Sequences[i].IDs {
			pool.Sequences[i].IDs[k] += off
		}
	}
	inputs = append(inputs, in2...)
	results = append(results, res2...)
	for i := range results {
		results[i].ID = i
	}
	ctx.Extra["inputs_per_family"] = counts
	relaxed := judge(ctx, inputs, results, pool)
	// M3: TLC validates recorded traces against the protocol (all of it, or -
	// when the build is out of step with it - its buffering-independent rules)
	evs, idx := c05.SampleTraces(results, ctx.Pick(4000, 40000), ctx.Seed)
	rej := map[string]int{}
	tlcLeak := map[int]bool{}
	for lo := 0; lo < len(evs); lo += 10000 {
		hi := lo + 10000
		if hi > len(evs) {
			hi = len(evs)
		}
		bad, err := c05.ValidateTracesMode(ctx, evs[lo:hi], "protocol-trace-validation", !relaxed)
		if err != nil {
			ctx.ToolError("%v", err)
			break
		}
		for _, b := range bad {
			rej[b.Rule]++
			if b.Rule == "return-before-scanner-exit" {
				tlcLeak[idx[lo+b.Index]] = true
			}
		}
	}
	// the Go mirror of the protocol and the TLA+ protocol must agree on the sampled traces
	disagree := 0
	for k, i := range idx {
		_ = k
		if (len(results[i].Leaks) > 0) != tlcLeak[i] {
			disagree++
		}
	}
	ctx.Extra["protocol_trace_rejections"] = rej
	if disagree > 0 && !relaxed {
		// two implementations of the same protocol (Go mirror, TLA+): a
		// disagreement is a defect of the harness, reported but never a verdict
		ctx.Extra["protocol_mirror_vs_tla_disagreements"] = disagree
		fmt.Printf("NOTE: property=%s %d sampled traces: the harness's protocol mirror and SoyLexParseTrace.tla disagree about return-before-scanner-exit\n", ctx.ID, disagree)
	}
	models.Finish()
}

// judge takes the verdicts. The GOROUTINE PROFILE is the ground truth: a
// leak is a goroutine of the library that is still there after the settle time
// and at the end of the sequence. The hook observations only describe it
// (which scanner, in which phase); where the rendez-vous protocol the hooks are
// read with does not fit the build (e.g. a buffered token channel: the
// protocol flags a scanner "that can still block" although it is gone) the
// returns are counted as out of step and nothing else happens. judge returns
// true when the build is out of step with the protocol.
func judge(ctx *core.Ctx, inputs []c05.Input, results []c05.Result, pool *c05.Pool) bool {
	// sequence-level observation
	seqOf := map[int]int{}
	unchecked := 0
	remaining := 0
	for si, s := range pool.Sequences {
		for _, id := range s.IDs {
			seqOf[id] = si
		}
		if !s.Checked {
			unchecked++
		}
		remaining += s.Remaining
	}
	returned, notReturned, flagged, profLeaks, transients := 0, 0, 0, 0, 0
	outOfStep, anomalous, hookOpen, hookEvents, scannersSeen := 0, 0, 0, 0, 0
	outExample := ""
	seen := map[string]struct{}{}
	flaggedInSeq := map[int]int{}
	byFeature := map[string]int{}
	for i := range results {
		r := &results[i]
		in := &inputs[i]
		if r.Outcome != "tree" && r.Outcome != "error" {
			notReturned++
			continue
		}
		returned++
		if r.Lexers > 0 || in.Entry == "globals" {
			k := in.Entry + "|" + string(in.Text)
			if _, ok := seen[k]; !ok {
				seen[k] = struct{}{}
				ctx.Distinct(k)
			}
		}
		hook := len(r.Leaks) > 0
		prof := r.ProfLeak > 0
		hookEvents += r.Steps + r.Nexts
		scannersSeen += r.Lexers
		if len(r.Anomalies) > 0 && in.Entry != "bundle" {
			anomalous++
		}
		if r.HookOpen > 0 {
			hookOpen++
		}
		if hook {
			flagged++
		}
		if prof {
			profLeaks++
		}
		if !hook && !prof {
			continue
		}
		si, inSeq := seqOf[i]
		var seqInfo interface{}
		seqConfirms := false
		if inSeq {
			s := pool.Sequences[si]
			seqConfirms = s.Checked && s.Remaining > 0
			seqInfo = map[string]interface{}{"parses_in_sequence": len(s.IDs), "scanner_goroutines_after_2s_poll": s.Remaining,
				"polled": s.Checked, "stacks": clip(s.Stacks, 1500)}
			flaggedInSeq[si]++
		}
		switch {
		case prof && (seqConfirms || (inSeq && !pool.Sequences[si].Checked)):
			f := leakFeature(in, r)
			byFeature[f]++
			ctx.Violation(core.Sig{Family: "goroutine-leak", Feature: f},
				fmt.Sprintf("%s(%q) returned (%s) and left %d goroutine(s) of the library behind: hooks %+v; goroutine profile +%d after the parse (%s)",
					entryName(in), clip(string(in.Text), 80), exitPath(r), max(r.ProfLeak, len(r.Leaks)), r.Leaks, r.ProfLeak, r.ProfWhere),
				mkReplay(in, r, seqInfo))
		case hook && !prof:
			// the protocol says a scanner can still block, the profile says no
			// goroutine is left: the profile decides (no leak); the protocol does
			// not describe this build
			outOfStep++
			if outExample == "" {
				outExample = fmt.Sprintf("%s(%q): %+v", entryName(in), clip(string(in.Text), 60), r.Leaks)
			}
		case prof && !seqConfirms:
			// a goroutine that outlived its call by more than the 100 ms settle time but
			// was gone at the end of the sequence: late, not leaked; not judged
			transients++
		}
	}
	// sequences that did not return to baseline without any parse being blamed
	for si, s := range pool.Sequences {
		if s.Checked && s.Remaining > 0 && flaggedInSeq[si] == 0 {
			var texts []string
			for k, id := range s.IDs {
				if k >= 40 {
					break
				}
				texts = append(texts, clip(string(inputs[id].Text), 60))
			}
			ctx.Violation(core.Sig{Family: "goroutine-leak", Feature: "leak:sequence-does-not-return-to-baseline/unattributed"},
				fmt.Sprintf("after a sequence of %d parses %d scanner goroutine(s) are still alive after polling 2 s; no single parse could be blamed", len(s.IDs), s.Remaining),
				map[string]interface{}{"first_inputs": texts, "stacks": clip(s.Stacks, 3000)})
		}
	}
	ctx.AddEvals(int64(returned))
	ctx.Extra["parses_returned"] = returned
	ctx.Extra["parses_not_returned(C05)"] = notReturned
	ctx.Extra["flagged_by_hooks"] = flagged
	ctx.Extra["flagged_by_profile"] = profLeaks
	ctx.Extra["leaks_per_signature"] = byFeature
	ctx.Extra["late_goroutines_gone_at_sequence_end(not judged)"] = transients
	ctx.Extra["hook_protocol_out_of_step"] = map[string]interface{}{"returns_flagged_by_the_protocol_but_no_goroutine_left": outOfStep,
		"parses_with_event_order_anomalies": anomalous, "example": outExample}
	ctx.Extra["scanners_started_and_never_closed(hook events, after settle)"] = hookOpen
	if outOfStep > 0 || anomalous > 0 {
		fmt.Printf("NOTE: property=%s the hook events of this build do not follow the rendez-vous protocol of SoyLexProto.tla (%d returns flagged although no goroutine was left, %d parses with event-order anomalies): verdicts are taken from the goroutine profile alone; trace validation is limited to the buffering-independent rules\n",
			ctx.ID, outOfStep, anomalous)
	}
	if returned > 100 && scannersSeen == 0 && hookEvents == 0 {
		ctx.ToolError("no hook event at all in %d parses: the hooks (parse.VerifLex, build tag verif) are dead", returned)
	}
	ctx.Extra["sequences"] = map[string]int{"total": len(pool.Sequences), "without_baseline_poll(worker exited)": unchecked, "scanner_goroutines_left": remaining}
	ctx.Extra["worker_restarts"] = pool.Restarts
	if pool.Lost > 0 {
		ctx.ToolError("%d inputs were lost by their worker", pool.Lost)
	}
	// samples
	keys := []int{0, 1, len(inputs) / 2, len(inputs) - 1}
	sort.Ints(keys)
	for _, i := range keys {
		if i >= 0 && i < len(inputs) {
			ctx.Sample(map[string]interface{}{"entry": inputs[i].Entry, "family": inputs[i].Family, "text": clip(string(inputs[i].Text), 100),
				"outcome": results[i].Outcome, "scanners": results[i].Lexers, "leaks": results[i].Leaks, "profile": results[i].ProfLeak})
		}
	}
	return outOfStep > 0 || anomalous > 0
}

func clip(s string, n int) string {
	if len(s) > n {
		return s[:n] + "..."
	}
	return s
}

func runReplay(ctx *core.Ctx) {
	var v struct {
		Replay replay `json:"replay"`
	}
	b, err := os.ReadFile(ctx.ReplayPath)
	if err == nil {
		err = jsonUnmarshal(b, &v)
	}
	if err != nil {
		ctx.ToolError("cannot read replay: %v", err)
		return
	}
	in := c05.Input{Entry: v.Replay.Entry, Name: v.Replay.Name, Text: v.Replay.TextB64, Family: "replay-file", Trace: true}
	if in.Text == nil {
		in.Text = []byte(v.Replay.Text)
	}
	// the same parse 20 times in one process
	var inputs []c05.Input
	for i := 0; i < 20; i++ {
		inputs = append(inputs, in)
	}
	pool := c05.NewPool(1)
	pool.SeqLen, pool.Baseline, pool.Prof = 1000, true, true
	results := pool.Run(inputs)
	fmt.Printf("replay: outcome=%s leaks=%+v profile=+%d\n", results[0].Outcome, results[0].Leaks, results[0].ProfLeak)
	judge(ctx, inputs, results, pool)
}
