// Package c19 decides property C19: errors point at the offending file and
// line. This file holds Run and the shared pieces; parse.go is the parse half
// (parse errors); the render half (render errors) is added as render.go with
// a function runRenderHalf(ctx) called from Run.
package c19

import (
	"encoding/json"
	"os"

	"verif/c05"
	"verif/core"
)

// Run is the entry point of the C19 checker.
func Run(ctx *core.Ctx) {
	ctx.Rule = "render half: every layout of SoyErrPos.tla - (0..2 enclosing blocks from if/foreach/switch/let-content/param-content/log/msg) x (failing command: print, if condition, foreach collection, css, param value, let value, switch subject, plural subject) x call depth 0..3 (callees in a second file whose lines never coincide with the path) x leading lines - one tag per line, exported by TLC with the allowed line interval and rendered by the real code; expected: the file of the entry template and a line on the path from the outermost enclosing command to the failing command / the {call}. parse half: seeded generated valid Soy files of 4..12 lines (one construct per line, nested blocks) x fault kind (illegal character in a tag, stray } in text, unterminated string / block comment / soydoc / tag, unknown command, unknown closing command, bad number, error inside a quoted attribute expression, block left open, missing {/template}) x EVERY line at which the fault line can be inserted x line ends LF / CRLF / bare CR x file end (one newline / none / several; the fault is also made the LAST line); expected: ErrFilePos.File() = the name given to parse.SoyFile, Line() within [fault line, fault line] for point faults and [fault line, last line] for unterminated constructs, always within 1..lines(input), and the same file name and line number in Error(). A case is non-trivial when the faulty file yields an error; distinct by (file text, fault, line)"
	ctx.Assumptions = append(ctx.Assumptions,
		"a line number is 1 + the number of LF before the position (CRLF counts once); in files with bare CR line ends both readings (CR ends a line / only LF does) are accepted: line 1 or the line by CR count",
		"lines(input) is taken as 1+count(newline): a position at the very end of an input that ends in a newline is accepted",
		"for unterminated constructs every line from the construct's first line to the end of the input is accepted (the repository's test pins the 'where it was detected' end)",
		"a faulty file that is accepted without error, does not return or panics is not judged here (C05/C07)")
	if ctx.ReplayPath != "" {
		raw, err := os.ReadFile(ctx.ReplayPath)
		if err != nil {
			ctx.ToolError("cannot read replay: %v", err)
			return
		}
		var h struct {
			Replay struct {
				Half string `json:"half"`
			} `json:"replay"`
		}
		json.Unmarshal(raw, &h)
		if h.Replay.Half == "render" {
			runRenderReplay(ctx, raw)
		} else {
			runParseReplay(ctx)
		}
		return
	}
	// M1: the position calculus of SoyLexParse.tla (PosInInput) and its deviations
	models := c05.StartModels(ctx, "parse-c19")
	models.StartRest()
	runParseHalf(ctx)
	runRenderHalf(ctx) // render errors (render.go, spec/SoyErrPos.tla)
	models.Finish()
}
