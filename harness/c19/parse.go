package c19

import (
	"encoding/json"
	"fmt"
	"os"
	"regexp"
	"strconv"
	"strings"

	"verif/c05"
	"verif/core"
)

// fault is one way of breaking a valid file by inserting a line.
type fault struct {
	Kind string
	Line string // text of the inserted line
	Open bool   // unterminated construct: any line from the fault line to the end is accepted
}

var faults = []fault{
	{"illegal-char-in-tag", "{$a # 1}", false},
	{"stray-rbrace", "abc } def", false},
	{"unterminated-string", "{$a + 'abc}", true},
	{"unterminated-block-comment", "/* never closed", true},
	{"unterminated-soydoc", "/** never closed", true},
	{"unterminated-tag", "{$a", true},
	{"unknown-command", "{foo $a}", false},
	{"unknown-close-command", "{/foo}", false},
	{"bad-number", "{print 08}", false},
	{"bad-number", "{$a + 1.}", false},
	{"error-in-quoted-attr-expr", `{call .other data="$a +" /}`, false},
	{"error-in-quoted-attr-expr", "{css $a +, cls}", false},
	{"block-left-open", "{if $a}", true},
}

// Case is one faulty file with its expectation.
type Case struct {
	Name     string `json:"name"`
	Text     string `json:"text"`
	Fault    string `json:"fault"`
	FaultSrc string `json:"fault_line_text"`
	Line     int    `json:"fault_line"`
	Lo       int    `json:"expected_line_min"`
	Hi       int    `json:"expected_line_max"`
	MaxLine  int    `json:"lines_of_input"`
	EOL      string `json:"line_ends"` // lf | crlf | cr
	End      string `json:"file_end"`  // newline | none | several
}

func maxLine(text string) int { return 1 + strings.Count(text, "\n") }

// withEOL rewrites the line ends of an LF text.
func withEOL(text, eol string) string {
	switch eol {
	case "crlf":
		return strings.Replace(text, "\n", "\r\n", -1)
	case "cr":
		return strings.Replace(text, "\n", "\r", -1)
	}
	return text
}

var eols = []string{"lf", "crlf", "cr"}

// how the file ends after its last line: one newline, none, several
var ends = []struct{ name, text string }{{"newline", "\n"}, {"none", ""}, {"several", "\n\n\n"}}

// buildCases inserts every fault at every line of every generated file.
func buildCases(ctx *core.Ctx) (valid []c05.Input, cases []Case) {
	files := c05.GeneratedFiles(ctx.Pick(60, 900), ctx.Seed)
	for fi, vf := range files {
		// the name is a label chosen by the caller: it must come back exactly as
		// given, whatever it looks like as a path
		nameForms := []string{"pkg%[1]d/file_%[2]d.soy", "./views/file_%[2]d.soy", "views//file_%[2]d.soy", "views/shared/../file_%[2]d.soy", "/abs/dir/file_%[2]d.soy",
			"file_%[2]d.soy/", "..\\win\\file_%[2]d.soy", "sp ace/file_%[2]d.soy", "été/file_%[2]d.soy", "a/./b/file_%[2]d.soy", "file_%[2]d", "%%41/file_%[2]d.soy"}
		name := fmt.Sprintf(nameForms[fi%len(nameForms)], fi%7, fi)
		for _, eol := range eols {
			for _, e := range ends {
				v := c05.FileInput("c19/valid-"+eol+"-"+e.name, withEOL(strings.Join(vf.Lines, "\n")+e.text, eol))
				v.Name = name
				valid = append(valid, v)
			}
		}
		n := len(vf.Lines)
		for _, f := range faults {
			for k := 1; k <= n+1; k++ { // the fault becomes line k
				lines := append([]string(nil), vf.Lines[:k-1]...)
				lines = append(lines, f.Line)
				lines = append(lines, vf.Lines[k-1:]...)
				rest := strings.Join(vf.Lines[k-1:], "\n")
				if (f.Kind == "unterminated-block-comment" || f.Kind == "unterminated-soydoc") && strings.Contains(rest, "*/") {
					continue // a later "*/" terminates the construct: not the intended fault
				}
				if f.Kind == "unterminated-string" && strings.Contains(rest, "'") {
					continue
				}
				// k = n+1 makes the fault the LAST line; with file end "none" nothing follows it
				for _, e := range ends {
					text := strings.Join(lines, "\n") + e.text
					c := Case{Name: name, Text: text, Fault: f.Kind, FaultSrc: f.Line, Line: k, Lo: k, Hi: k, MaxLine: maxLine(text), EOL: "lf", End: e.name}
					if f.Open {
						c.Hi = c.MaxLine
					}
					for _, eol := range eols {
						c.EOL, c.Text = eol, withEOL(text, eol)
						cases = append(cases, c)
					}
				}
			}
		}
		// the closing {/template} missing: the template tag's line .. end
		tl := 0
		for i, l := range vf.Lines {
			if strings.HasPrefix(l, "{template") {
				tl = i + 1
			}
		}
		for _, e := range ends {
			text := strings.Join(vf.Lines[:n-1], "\n") + e.text
			for _, eol := range eols {
				cases = append(cases, Case{Name: name, Text: withEOL(text, eol), Fault: "missing-close-template", FaultSrc: "", Line: tl, Lo: tl, Hi: maxLine(text), MaxLine: maxLine(text), EOL: eol, End: e.name})
			}
		}
	}
	return
}

var reNum = regexp.MustCompile(`\d+`)

// judgeCase compares one observed error with the expectation and returns the
// feature of the violation ("" = fine).
func judgeCase(c *Case, r *c05.Result) (feature, what string) {
	if !r.HasPos {
		return "fault=" + c.Fault + ":error-has-no-file-position", "the error is not an ErrFilePos: " + r.Err
	}
	if r.File != c.Name {
		f := "other"
		if r.File == "" {
			f = "empty"
		}
		return "fault=" + c.Fault + ":file-name-" + f, fmt.Sprintf("File() = %q, want %q (Line() = %d, fault on line %d): %s", r.File, c.Name, r.Line, c.Line, r.Err)
	}
	// Line numbers are 1 + the number of line feeds before the position (Lo, Hi
	// and MaxLine were computed on the LF text, CRLF does not change them).
	// Bare CR: the file has no LF, so under the LF reading everything is on
	// line 1, under the "CR ends a line" reading the LF numbers apply: only
	// what holds under both readings is judged, i.e. line 1 is accepted too.
	if c.EOL == "cr" && r.Line == 1 && strings.Contains(r.Err, c.Name) {
		return "", ""
	}
	if r.Line < 1 || r.Line > c.MaxLine {
		return "fault=" + c.Fault + ":line-outside-input", fmt.Sprintf("Line() = %d, input has %d lines: %s", r.Line, c.MaxLine, r.Err)
	}
	if r.Line < c.Lo || r.Line > c.Hi {
		if r.Line == 1 && r.Col == 0 {
			path := "other"
			switch {
			case strings.Contains(r.Err, "lexical error"):
				path = "lexical-error-item"
			case strings.Contains(r.Err, "unexpected EOF"):
				path = "unexpected-eof"
			}
			return "reported-1:0(position-of-the-zero-item-after-close):" + path,
				fmt.Sprintf("fault %s on line %d reported at line 1 column 0: %s", c.Fault, c.Line, r.Err)
		}
		side := "before"
		if r.Line > c.Hi {
			side = "after"
		}
		return "fault=" + c.Fault + ":line-" + side + "-construct", fmt.Sprintf("Line() = %d, expected %d..%d: %s", r.Line, c.Lo, c.Hi, r.Err)
	}
	// the same numbers in the message text
	if !strings.Contains(r.Err, c.Name) {
		return "fault=" + c.Fault + ":message-lacks-file-name", r.Err
	}
	found := false
	for _, n := range reNum.FindAllString(strings.Replace(r.Err, c.Name, "", -1), -1) {
		if v, _ := strconv.Atoi(n); v == r.Line {
			found = true
		}
	}
	if !found {
		return "fault=" + c.Fault + ":message-lacks-line-number", fmt.Sprintf("Line() = %d not in message: %s", r.Line, r.Err)
	}
	return "", ""
}

type parseReplay struct {
	Half     string      `json:"half"`
	Case     Case        `json:"case"`
	Observed *c05.Result `json:"observed"`
}

// ParseCaseInputs gives the valid files and the faulty files of the parse half
// as plain inputs (C18 parses them too and watches the goroutines).
func ParseCaseInputs(ctx *core.Ctx) []c05.Input {
	valid, cases := buildCases(ctx)
	inputs := append([]c05.Input(nil), valid...)
	for i := range cases {
		in := c05.FileInput("c19/"+cases[i].Fault, cases[i].Text)
		in.Name = cases[i].Name
		inputs = append(inputs, in)
	}
	return inputs
}

func runParseHalf(ctx *core.Ctx) {
	valid, cases := buildCases(ctx)
	inputs := append([]c05.Input(nil), valid...)
	for i := range cases {
		in := c05.FileInput("c19/"+cases[i].Fault, cases[i].Text)
		in.Name = cases[i].Name
		inputs = append(inputs, in)
	}
	pool := c05.NewPool(16)
	pool.SeqLen = 300
	results := pool.Run(inputs)
	// the generated files must be valid (else the generator is wrong: tool
	// trouble); a CRLF / CR variant that is not accepted is only skipped
	bad := 0
	skipEOL := map[string]bool{}
	for i := range valid {
		if results[i].Outcome != "tree" {
			if strings.HasPrefix(valid[i].Family, "c19/valid-lf-") {
				bad++
				if bad <= 3 {
					ctx.ToolError("generated file is not valid Soy: %s: %s", clip(string(valid[i].Text), 200), results[i].Err)
				}
			} else {
				skipEOL[valid[i].Name+"|"+strings.TrimPrefix(valid[i].Family, "c19/valid-")] = true // name|eol-end
			}
		}
	}
	judged, accepted, notJudged := 0, 0, 0
	perFault := map[string]int{}
	perEOL := map[string]int{}
	viol := map[string]int{}
	for ci := range cases {
		c := &cases[ci]
		r := &results[len(valid)+ci]
		if skipEOL[c.Name+"|"+c.EOL+"-"+c.End] {
			notJudged++
			continue
		}
		switch r.Outcome {
		case "error":
		case "tree":
			accepted++
			continue
		default:
			notJudged++ // hang / panic / crash: C05
			continue
		}
		judged++
		perFault[c.Fault]++
		perEOL[c.EOL+"/"+c.End]++
		ctx.Distinct(c.Fault + "|" + strconv.Itoa(c.Line) + "|" + c.Text)
		if ci%997 == 0 {
			ctx.Sample(map[string]interface{}{"fault": c.Fault, "line": c.Line, "file": c.Name, "reported_line": r.Line, "err": clip(r.Err, 160)})
		}
		if f, what := judgeCase(c, r); f != "" {
			viol[f]++
			ctx.Violation(core.Sig{Family: "parse-error-position", Feature: f},
				fmt.Sprintf("%s line %d (%s): %s", c.Name, c.Line, c.Fault, what), parseReplay{"parse", *c, r})
		}
	}
	ctx.AddEvals(int64(judged))
	ctx.AddTraces(int64(judged))
	ctx.Extra["parse_half"] = map[string]interface{}{
		"valid_files": len(valid), "cases": len(cases), "judged": judged, "faulty_file_accepted(not judged)": accepted,
		"did_not_return_or_panicked(C05, not judged)": notJudged, "judged_per_fault": perFault, "judged_per_line_end": perEOL, "valid_variants_rejected(skipped)": len(skipEOL), "violations_per_signature": viol,
	}
	if pool.Lost > 0 {
		ctx.ToolError("%d inputs were lost by their worker", pool.Lost)
	}
}

func clip(s string, n int) string {
	if len(s) > n {
		return s[:n] + "..."
	}
	return s
}

func runParseReplay(ctx *core.Ctx) {
	var v struct {
		Replay parseReplay `json:"replay"`
	}
	b, err := os.ReadFile(ctx.ReplayPath)
	if err == nil {
		err = json.Unmarshal(b, &v)
	}
	if err != nil {
		ctx.ToolError("cannot read replay: %v", err)
		return
	}
	c := v.Replay.Case
	in := c05.FileInput("replay-file", c.Text)
	in.Name = c.Name
	pool := c05.NewPool(1)
	results := pool.Run([]c05.Input{in})
	r := &results[0]
	fmt.Printf("replay: outcome=%s file=%q line=%d col=%d err=%s\n", r.Outcome, r.File, r.Line, r.Col, clip(r.Err, 200))
	if r.Outcome != "error" {
		return
	}
	ctx.AddEvals(1)
	ctx.Sample(r)
	if f, what := judgeCase(&c, r); f != "" {
		ctx.Violation(core.Sig{Family: "parse-error-position", Feature: f}, what, parseReplay{"parse", c, r})
	}
}
