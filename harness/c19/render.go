package c19

import (
	"encoding/json"
	"fmt"
	"strings"
	"time"

	"github.com/robfig/soy/errortypes"

	"verif/core"
)

// render half of C19: every render error carries the file that defines the
// entry template and a line, in that file, on the path from the outermost
// enclosing command down to the command being executed when it failed.
// SoyErrPos.tla is the model: TLC checks PositionOK on the reference, that the
// three deviations break it, and exports every layout with its source lines
// and the allowed line interval; the harness renders them with the real code.

type posCase struct {
	D       map[string]interface{} `json:"d"`
	Entry   []string               `json:"entry"`
	Lib     []string               `json:"lib"`
	Twin    []string               `json:"twin"`
	File    string                 `json:"file"`
	Lo      int                    `json:"lo"`
	Hi      int                    `json:"hi"`
	Node    int                    `json:"node"`
	Allowed []int                  `json:"allowed"`
}

func errPosCfg(dev string, emit bool) string {
	s := "CONSTANT Dev = {" + dev + "}\nINIT Init\nNEXT Next\nINVARIANT PositionOK\nINVARIANT LayoutSeparates\nCHECK_DEADLOCK FALSE\n"
	if emit {
		s += "INVARIANT EmitCase\n"
	}
	return s
}

func runRenderHalf(ctx *core.Ctx) {
	res, err := ctx.RunTLC(core.TLCOpts{Module: "SoyErrPos", Cfg: errPosCfg("", true), Workers: 1, Timeout: 10 * time.Minute, Label: "errpos-reference"})
	if err != nil {
		ctx.ToolError("%v", err)
		return
	}
	if res.Violated != "" {
		ctx.ToolError("SoyErrPos reference violates %s: %s", res.Violated, res.Trace)
		return
	}
	caught := map[string]bool{}
	for _, dev := range []string{"innermost_frame_line", "callee_file", "line_from_other_source", "call_node_not_restored", "source_per_namespace", "source_per_file_name"} {
		r, err := ctx.RunTLC(core.TLCOpts{Module: "SoyErrPos", Cfg: errPosCfg(`"`+dev+`"`, false), Workers: 4, Timeout: 5 * time.Minute, Label: "errpos-deviation-" + dev})
		if err != nil {
			ctx.ToolError("%v", err)
			continue
		}
		caught[dev] = r.Violated == "PositionOK"
		if !caught[dev] {
			ctx.ToolError("deviation %s not caught by PositionOK (violated=%q)", dev, r.Violated)
		}
	}
	ctx.Extra["render_deviations_caught"] = caught
	n := 0
	for _, p := range res.Printed {
		if !strings.HasPrefix(p, "{") {
			continue
		}
		var pc posCase
		if err := json.Unmarshal([]byte(p), &pc); err != nil {
			ctx.ToolError("bad JSON from TLC: %v", err)
			return
		}
		n++
		replayRender(ctx, &pc)
	}
	ctx.Extra["render_layouts"] = n
	if n == 0 {
		ctx.ToolError("SoyErrPos exported no layouts")
	}
}

var renderSeq int

func replayRender(ctx *core.Ctx, pc *posCase) {
	files := []core.File{{Name: "entry.soy", Text: strings.Join(pc.Entry, "\n") + "\n"}, {Name: "lib.soy", Text: strings.Join(pc.Lib, "\n") + "\n"}}
	feat := fmt.Sprintf("w1=%v,w2=%v,fail=%v,depth=%v,call=%v", pc.D["w1"], pc.D["w2"], pc.D["f"], pc.D["depth"], pc.D["shape"])
	// a second file declaring the entry template's namespace, added before or after it
	if tw, _ := pc.D["twin"].(string); tw != "" && tw != "none" {
		twin := core.File{Name: "twin.soy", Text: strings.Join(pc.Twin, "\n") + "\n"}
		if strings.HasPrefix(tw, "name") {
			twin.Name = "entry.soy" // another namespace under the entry file's name
		}
		if tw == "first" || tw == "namefirst" {
			files = append([]core.File{twin}, files...)
		} else {
			files = append(files, twin)
		}
		if strings.HasPrefix(tw, "name") {
			feat += ",same-name-file-added-" + strings.TrimPrefix(tw, "name")
		} else {
			feat += ",same-namespace-file-added-" + tw
		}
	}
	allowed := map[int]bool{}
	for _, l := range pc.Allowed {
		allowed[l] = true
	}
	// file names are labels: the error must name the entry file exactly as it was
	// given, whatever it looks like as a path (one form per layout, by rotation)
	renderSeq++
	forms := []string{"%s", "./views/%s", "views//%s", "views/shared/../%s", "/abs/%s", "a/./%s", "..\\w\\%s", "sp ace/%s"}
	form := forms[renderSeq%len(forms)]
	for i := range files {
		files[i].Name = fmt.Sprintf(form, files[i].Name)
	}
	wantFile := fmt.Sprintf(form, pc.File)
	if form != "%s" {
		feat += ",file-name-form=" + strings.ReplaceAll(form, "%s", "F")
	}
	ctx.AddEvals(1)
	rep := map[string]interface{}{"half": "render", "files": files, "allowedLines": pc.Allowed, "desc": pc.D, "case": pc}
	comp, err, _ := core.Compile(files, nil)
	if err != nil {
		ctx.ToolError("render layout does not compile (%s): %v\n%s", feat, err, files[0].Text)
		return
	}
	// both the order entry-first and lib-first must give the same position
	res := comp.RenderWatch("e.m", core.ToDataMap(map[string]core.V{"x": core.VNull()}), nil, 10*time.Second)
	ctx.AddTraces(1)
	ctx.Distinct("render:" + feat + fmt.Sprint(pc.D["lead"]))
	if res.Err == nil {
		ctx.ToolError("render layout did not fail (%s): out=%q", feat, res.Out)
		return
	}
	rep["error"] = res.Err.Error()
	fp := errortypes.ToErrFilePos(res.Err)
	if fp == nil {
		ctx.Violation(core.Sig{Family: "render-error-position", Feature: "no-position," + feat}, "render error carries no file/line: "+res.Err.Error(), rep)
		return
	}
	rep["file"], rep["line"] = fp.File(), fp.Line()
	switch {
	case fp.File() != wantFile:
		ctx.Violation(core.Sig{Family: "render-error-position", Feature: "wrong-file," + feat},
			fmt.Sprintf("render error names file %q, the entry template is defined in %q: %s", fp.File(), wantFile, res.Err), rep)
	case !allowed[fp.Line()]:
		kind := "line-off-path"
		if fp.Line() >= pc.Lo && fp.Line() <= pc.Hi {
			kind = "line-of-a-sub-command" // inside the outermost command's extent, but not a command on the path
		}
		if fp.Line() > len(pc.Entry) {
			kind = "line-outside-file"
		}
		ctx.Violation(core.Sig{Family: "render-error-position", Feature: kind + "," + feat},
			fmt.Sprintf("render error reports line %d; the commands on the failing path start on lines %v of %s: %s", fp.Line(), pc.Allowed, pc.File, res.Err), rep)
	}
	if len(ctx.Samples) < 7 {
		ctx.Sample(rep)
	}
}

// runRenderReplay re-runs one saved render-half case.
func runRenderReplay(ctx *core.Ctx, raw []byte) {
	var v struct {
		Replay struct {
			Case *posCase `json:"case"`
		} `json:"replay"`
	}
	if err := json.Unmarshal(raw, &v); err != nil || v.Replay.Case == nil {
		ctx.ToolError("cannot read render replay: %v", err)
		return
	}
	replayRender(ctx, v.Replay.Case)
	fmt.Printf("replay: render layout %v re-run\n", v.Replay.Case.D)
}
