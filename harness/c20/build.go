package c20

import (
	"encoding/json"
	"fmt"
	"go/token"
	"math"
	"reflect"
	"sort"
	"strconv"
	"unsafe"

	"github.com/robfig/soy/data"
)

// D is an abstract Go value (descriptor) in the spec's tagged encoding
// (SoyData.tla); JSON numbers are json.Number or int.
type D = map[string]interface{}

func dstr(d D, k string) string {
	s, _ := d[k].(string)
	return s
}

func dbool(d D, k string) bool {
	b, _ := d[k].(bool)
	return b
}

func toI64(v interface{}) (int64, bool) {
	switch n := v.(type) {
	case json.Number:
		i, err := n.Int64()
		return i, err == nil
	case int:
		return int64(n), true
	case int64:
		return n, true
	case float64:
		return int64(n), float64(int64(n)) == n
	}
	return 0, false
}

func asD(v interface{}) (D, bool) {
	d, ok := v.(map[string]interface{})
	return d, ok
}

// seqOf returns the elements of a JSON array of descriptors.
func seqOf(v interface{}) ([]D, error) {
	switch xs := v.(type) {
	case nil:
		return nil, nil
	case []D:
		return xs, nil
	case []interface{}:
		out := make([]D, len(xs))
		for i, x := range xs {
			d, ok := asD(x)
			if !ok {
				return nil, fmt.Errorf("element %d is not a descriptor", i)
			}
			out[i] = d
		}
		return out, nil
	}
	return nil, fmt.Errorf("not a sequence: %T", v)
}

// mapOf returns the entries of a JSON object of descriptors; TLC prints the
// empty function as [].
func mapOf(v interface{}) (map[string]D, error) {
	switch m := v.(type) {
	case nil:
		return map[string]D{}, nil
	case []interface{}:
		if len(m) == 0 {
			return map[string]D{}, nil
		}
	case map[string]D:
		return m, nil
	case map[string]interface{}:
		out := map[string]D{}
		for k, x := range m {
			d, ok := asD(x)
			if !ok {
				return nil, fmt.Errorf("entry %q is not a descriptor", k)
			}
			out[k] = d
		}
		return out, nil
	}
	return nil, fmt.Errorf("not a map: %T", v)
}

// Field is one struct field of a descriptor.
type Field struct {
	Name string
	Emb  bool
	Tag  string
	Val  D
}

func fieldsOf(v interface{}) ([]Field, error) {
	ds, err := seqOf(v)
	if err != nil {
		return nil, err
	}
	out := make([]Field, len(ds))
	for i, d := range ds {
		val, ok := asD(d["val"])
		if !ok {
			return nil, fmt.Errorf("field %d has no value", i)
		}
		out[i] = Field{Name: dstr(d, "name"), Emb: dbool(d, "emb"), Tag: dstr(d, "tag"), Val: val}
	}
	return out, nil
}

// kids lists the immediate sub-descriptors (SoyData!Kids).
func kids(d D) []D {
	switch dstr(d, "g") {
	case "slice", "array":
		xs, _ := seqOf(d["v"])
		return xs
	case "map":
		m, _ := mapOf(d["v"])
		keys := make([]string, 0, len(m))
		for k := range m {
			keys = append(keys, k)
		}
		sort.Strings(keys)
		var out []D
		for _, k := range keys {
			out = append(out, m[k])
		}
		return out
	case "struct":
		fs, _ := fieldsOf(d["v"])
		var out []D
		for _, f := range fs {
			out = append(out, f.Val)
		}
		return out
	case "ptr", "iface":
		if !dbool(d, "nil") {
			if x, ok := asD(d["v"]); ok {
				return []D{x}
			}
		}
	}
	return nil
}

func anyD(d D, pred func(D) bool) bool {
	if pred(d) {
		return true
	}
	for _, k := range kids(d) {
		if anyD(k, pred) {
			return true
		}
	}
	return false
}

func depthD(d D) int {
	m := -1
	for _, k := range kids(d) {
		if x := depthD(k); x > m {
			m = x
		}
	}
	if m < 0 {
		return 0
	}
	if dstr(d, "g") == "iface" {
		return m
	}
	return m + 1
}

// Shared pointers: a "ptr" descriptor with share = true is built once per
// top-level build and the SAME pointer is used wherever the descriptor
// occurs again (aliasing; finite, but it looks cyclic to a naive walker).
var (
	buildDepth int
	shareMemo  map[string]reflect.Value
)

// build constructs the real Go value a descriptor denotes. An invalid
// reflect.Value stands for the untyped nil.
func build(d D) (reflect.Value, error) {
	buildDepth++
	if buildDepth == 1 {
		shareMemo = map[string]reflect.Value{}
	}
	defer func() { buildDepth-- }()
	if dstr(d, "g") == "ptr" && dbool(d, "share") && !dbool(d, "nil") {
		k := canon(d)
		if p, ok := shareMemo[k]; ok {
			return p, nil
		}
		p, err := build1(d)
		if err == nil {
			shareMemo[k] = p
		}
		return p, err
	}
	return build1(d)
}

func build1(d D) (reflect.Value, error) {
	switch g := dstr(d, "g"); g {
	case "nil":
		return reflect.Value{}, nil
	case "bool":
		return reflect.ValueOf(dbool(d, "v")), nil
	case "int":
		t, ok := intKinds[dstr(d, "kind")]
		if !ok {
			return reflect.Value{}, fmt.Errorf("unknown int kind %q", dstr(d, "kind"))
		}
		rv := reflect.New(t).Elem()
		if big, isBig := d["big"].(string); isBig {
			if rv.Kind() >= reflect.Uint && rv.Kind() <= reflect.Uint64 {
				u, err := strconv.ParseUint(big, 10, 64)
				if err != nil || rv.OverflowUint(u) {
					return reflect.Value{}, fmt.Errorf("%s does not fit %s", big, t)
				}
				rv.SetUint(u)
			} else {
				i, err := strconv.ParseInt(big, 10, 64)
				if err != nil || rv.OverflowInt(i) {
					return reflect.Value{}, fmt.Errorf("%s does not fit %s", big, t)
				}
				rv.SetInt(i)
			}
			return rv, nil
		}
		n, ok := toI64(d["v"])
		if !ok {
			return reflect.Value{}, fmt.Errorf("int without value: %v", d)
		}
		if rv.Kind() >= reflect.Uint && rv.Kind() <= reflect.Uint64 {
			if n < 0 || rv.OverflowUint(uint64(n)) {
				return reflect.Value{}, fmt.Errorf("%d does not fit %s", n, t)
			}
			rv.SetUint(uint64(n))
		} else {
			if rv.OverflowInt(n) {
				return reflect.Value{}, fmt.Errorf("%d does not fit %s", n, t)
			}
			rv.SetInt(n)
		}
		return rv, nil
	case "float":
		t, ok := floatKinds[dstr(d, "kind")]
		if !ok {
			return reflect.Value{}, fmt.Errorf("unknown float kind %q", dstr(d, "kind"))
		}
		var f float64
		if sym, isSym := d["sym"].(string); isSym {
			switch sym {
			case "nan":
				f = math.NaN()
			case "pinf":
				f = math.Inf(1)
			case "ninf":
				f = math.Inf(-1)
			case "nzero":
				f = math.Copysign(0, -1)
			default:
				return reflect.Value{}, fmt.Errorf("unknown float symbol %q", sym)
			}
		} else {
			num, ok1 := toI64(d["num"])
			sh, ok2 := toI64(d["sh"])
			if !ok1 || !ok2 || sh < 0 || sh > 60 {
				return reflect.Value{}, fmt.Errorf("bad dyadic %v", d)
			}
			f = math.Ldexp(float64(num), -int(sh))
			if t.Kind() == reflect.Float32 && float64(float32(f)) != f {
				return reflect.Value{}, fmt.Errorf("%v is not a float32", f)
			}
		}
		rv := reflect.New(t).Elem()
		rv.SetFloat(f)
		return rv, nil
	case "str":
		if dbool(d, "named") {
			return reflect.ValueOf(MyStr(dstr(d, "v"))), nil
		}
		return reflect.ValueOf(dstr(d, "v")), nil
	case "time":
		t, ok := times[dstr(d, "v")]
		if !ok {
			return reflect.Value{}, fmt.Errorf("unknown time %q", dstr(d, "v"))
		}
		return reflect.ValueOf(t), nil
	case "slice", "array":
		ds, err := seqOf(d["v"])
		if err != nil {
			return reflect.Value{}, err
		}
		elems := make([]reflect.Value, len(ds))
		for i, x := range ds {
			if elems[i], err = build(x); err != nil {
				return reflect.Value{}, err
			}
		}
		et, err := elemType(d, elems)
		if err != nil {
			return reflect.Value{}, err
		}
		var rv reflect.Value
		if g == "array" {
			rv = reflect.New(reflect.ArrayOf(len(elems), et)).Elem()
		} else if dbool(d, "nil") {
			return reflect.Zero(reflect.SliceOf(et)), nil
		} else {
			rv = reflect.MakeSlice(reflect.SliceOf(et), len(elems), len(elems))
		}
		for i, e := range elems {
			if err := setInto(rv.Index(i), e); err != nil {
				return reflect.Value{}, err
			}
		}
		return rv, nil
	case "map":
		m, err := mapOf(d["v"])
		if err != nil {
			return reflect.Value{}, err
		}
		keys := make([]string, 0, len(m))
		for k := range m {
			keys = append(keys, k)
		}
		sort.Strings(keys)
		elems := make([]reflect.Value, len(keys))
		for i, k := range keys {
			if elems[i], err = build(m[k]); err != nil {
				return reflect.Value{}, err
			}
		}
		et, err := elemType(d, elems)
		if err != nil {
			return reflect.Value{}, err
		}
		kt := reflect.TypeOf("")
		if dbool(d, "nk") {
			kt = reflect.TypeOf(MyStr(""))
		}
		mt := reflect.MapOf(kt, et)
		if dbool(d, "nil") {
			return reflect.Zero(mt), nil
		}
		rv := reflect.MakeMapWithSize(mt, len(keys))
		for i, k := range keys {
			slot := reflect.New(et).Elem()
			if err := setInto(slot, elems[i]); err != nil {
				return reflect.Value{}, err
			}
			rv.SetMapIndex(reflect.ValueOf(k).Convert(kt), slot)
		}
		return rv, nil
	case "struct":
		return buildStruct(d)
	case "ptr":
		if dbool(d, "nil") {
			t, err := typeByName(dstr(d, "to"))
			if err != nil {
				return reflect.Value{}, err
			}
			return reflect.Zero(reflect.PtrTo(t)), nil
		}
		x, ok := asD(d["v"])
		if !ok {
			return reflect.Value{}, fmt.Errorf("ptr without target")
		}
		target, err := build(x)
		if err != nil {
			return reflect.Value{}, err
		}
		if !target.IsValid() {
			return reflect.Value{}, fmt.Errorf("pointer to the untyped nil")
		}
		p := reflect.New(target.Type())
		p.Elem().Set(target)
		return p, nil
	case "iface":
		rv := reflect.New(ifaceType).Elem()
		if dbool(d, "nil") {
			return rv, nil
		}
		x, ok := asD(d["v"])
		if !ok {
			return reflect.Value{}, fmt.Errorf("iface without content")
		}
		inner, err := build(x)
		if err != nil {
			return reflect.Value{}, err
		}
		if err := setInto(rv, inner); err != nil {
			return reflect.Value{}, err
		}
		return rv, nil
	case "marshaler":
		a, _ := asD(d["a"])
		switch dstr(d, "ty") {
		case "idurl":
			id, _ := toI64(a["id"])
			return reflect.ValueOf(MIDURL{ID: int(id), URL: dstr(a, "url")}), nil
		case "mint":
			n, _ := toI64(a["n"])
			return reflect.ValueOf(MInt(n)), nil
		case "mnull":
			n, _ := toI64(a["n"])
			return reflect.ValueOf(MNull{N: int(n)}), nil
		case "mlist":
			n, _ := toI64(a["n"])
			return reflect.ValueOf(MList{N: int(n)}), nil
		case "pmoney":
			c, _ := toI64(a["cents"])
			return reflect.ValueOf(PMoney{Cents: c, Currency: dstr(a, "cur")}), nil
		case "pint":
			n, _ := toI64(a["n"])
			return reflect.ValueOf(PInt(n)), nil
		case "many", "pany":
			var held data.Value // MarshalValue returns this; "gonil" = the nil interface
			if x, ok := asD(a["v"]); ok && dstr(x, "t") != "gonil" {
				sv, err := parseSV(x)
				if err != nil {
					return reflect.Value{}, err
				}
				if held, err = sv.toData(); err != nil {
					return reflect.Value{}, err
				}
			}
			if dstr(d, "ty") == "many" {
				return reflect.ValueOf(MAny{V: held}), nil
			}
			return reflect.ValueOf(PAny{V: held}), nil
		}
		return reflect.Value{}, fmt.Errorf("unknown marshaler %q", dstr(d, "ty"))
	case "value":
		x, ok := asD(d["v"])
		if !ok {
			return reflect.Value{}, fmt.Errorf("value without content")
		}
		sv, err := parseSV(x)
		if err != nil {
			return reflect.Value{}, err
		}
		dv, err := sv.toData()
		if err != nil {
			return reflect.Value{}, err
		}
		if dbool(d, "asvalue") {
			rv := reflect.New(valueType).Elem()
			rv.Set(reflect.ValueOf(dv))
			return rv, nil
		}
		return reflect.ValueOf(dv), nil
	default:
		return reflect.Value{}, fmt.Errorf("unknown descriptor tag %q", g)
	}
}

// elemType is the static element type of a slice/array/map: when the
// descriptor says "typed" and all elements share one Go type, that type;
// for an empty typed container the type named by "et"; otherwise interface{}.
func elemType(d D, elems []reflect.Value) (reflect.Type, error) {
	if !dbool(d, "typed") {
		return ifaceType, nil
	}
	if len(elems) == 0 {
		if n := dstr(d, "et"); n != "" {
			return typeByName(n)
		}
		return ifaceType, nil
	}
	var t reflect.Type
	for _, e := range elems {
		if !e.IsValid() {
			return ifaceType, nil
		}
		if t == nil {
			t = e.Type()
		} else if t != e.Type() {
			return ifaceType, nil
		}
	}
	return t, nil
}

// setInto stores a built value into a slot (element, field, interface var).
func setInto(slot reflect.Value, v reflect.Value) error {
	if !v.IsValid() {
		switch slot.Kind() {
		case reflect.Interface, reflect.Ptr, reflect.Slice, reflect.Map:
			slot.Set(reflect.Zero(slot.Type()))
			return nil
		}
		return fmt.Errorf("nil into %s", slot.Type())
	}
	if !v.Type().AssignableTo(slot.Type()) {
		return fmt.Errorf("%s is not assignable to %s", v.Type(), slot.Type())
	}
	slot.Set(v)
	return nil
}

// buildStruct instantiates a declared struct type (checking that the
// descriptor's field list is exactly the type's) or, for ty = "", makes the
// type with reflect.StructOf.
func buildStruct(d D) (reflect.Value, error) {
	fs, err := fieldsOf(d["v"])
	if err != nil {
		return reflect.Value{}, err
	}
	vals := make([]reflect.Value, len(fs))
	for i, f := range fs {
		if vals[i], err = build(f.Val); err != nil {
			return reflect.Value{}, err
		}
	}
	ty := dstr(d, "ty")
	if ty == "" {
		sfs := make([]reflect.StructField, len(fs))
		for i, f := range fs {
			if f.Emb {
				return reflect.Value{}, fmt.Errorf("generated struct types have no embedded fields")
			}
			t := ifaceType
			if vals[i].IsValid() {
				t = vals[i].Type()
			}
			sfs[i] = reflect.StructField{Name: f.Name, Type: t, Tag: reflect.StructTag(f.Tag)}
			if !isExportedName(f.Name) {
				sfs[i].PkgPath = "verif/c20"
			}
		}
		var st reflect.Type
		if err := func() (err error) {
			defer func() {
				if r := recover(); r != nil {
					err = fmt.Errorf("reflect.StructOf: %v", r)
				}
			}()
			st = reflect.StructOf(sfs)
			return nil
		}(); err != nil {
			return reflect.Value{}, err
		}
		rv := reflect.New(st).Elem()
		for i := range fs {
			if sfs[i].PkgPath != "" {
				continue // unexported: left at its zero value
			}
			if err := setInto(rv.Field(i), vals[i]); err != nil {
				return reflect.Value{}, err
			}
		}
		return rv, nil
	}
	st, ok := declared[ty]
	if !ok {
		return reflect.Value{}, fmt.Errorf("unknown struct type %q", ty)
	}
	if st.NumField() != len(fs) {
		return reflect.Value{}, fmt.Errorf("%s has %d fields, descriptor has %d", ty, st.NumField(), len(fs))
	}
	rv := reflect.New(st).Elem()
	for i, f := range fs {
		sf := st.Field(i)
		if sf.Name != f.Name || sf.Anonymous != f.Emb || string(sf.Tag) != f.Tag {
			return reflect.Value{}, fmt.Errorf("%s field %d is %s (embedded=%v, tag=%q), descriptor says %s (embedded=%v, tag=%q)",
				ty, i, sf.Name, sf.Anonymous, sf.Tag, f.Name, f.Emb, f.Tag)
		}
		fv := rv.Field(i)
		if sf.PkgPath != "" {
			fv = reflect.NewAt(fv.Type(), unsafe.Pointer(fv.UnsafeAddr())).Elem()
		}
		if err := setInto(fv, vals[i]); err != nil {
			return reflect.Value{}, fmt.Errorf("%s.%s: %v", ty, f.Name, err)
		}
	}
	return rv, nil
}

// isExportedName is Go's rule: the first rune is an upper-case letter.
func isExportedName(n string) bool { return token.IsExported(n) }

// toArg turns a built value into the interface{} handed to data.New.
func toArg(rv reflect.Value) interface{} {
	if !rv.IsValid() {
		return nil
	}
	return rv.Interface()
}

// convert runs the real converter, capturing a panic.
func convert(o data.StructOptions, arg interface{}) (v data.Value, panicked interface{}) {
	defer func() {
		if r := recover(); r != nil {
			v, panicked = nil, r
		}
	}()
	return data.NewWith(o, arg), nil
}
