// Package c20 decides property C20: Go values convert faithfully to Soy data
// and the value laws hold.
//
// spec/SoyData.tla is the oracle (abstract Go values, Convert, the laws).
//
//	M1  TLC checks the laws on the model over all abstract Go values of
//	    depth <= 2 (SoyDataMC) and all pairs of resulting Soy values
//	    (SoyDataPairs); every named deviation must be caught.
//	M2  TLC exports the same family as descriptors with the expected Soy
//	    value (SoyDataCases, SoyDataPairCases); this package constructs the
//	    REAL Go values, runs data.NewWith / Tofu.Render and compares; all
//	    pairs of real results go through Equals/Truthy/String.
//	M3  seeded random nested Go values (depth <= 5) are converted by the
//	    real code, recorded as NDJSON and validated by TLC (SoyDataTrace).
package c20

import (
	"bytes"
	"encoding/json"
	"fmt"
	"math/rand"
	"os"
	"sort"
	"strconv"
	"strings"
	"sync"
	"time"

	"github.com/robfig/soy/data"
	"github.com/robfig/soy/soyhtml"

	"verif/core"
)

// signature families
const (
	famConvert = "convert"
	famIdem    = "idempotence"
	famLaws    = "value-laws"
	famTofu    = "tofu-render"
)

type checker struct {
	ctx  *core.Ctx
	size int

	mu         sync.Mutex
	arrayPanic int // arrays: the converter panics (kind not accepted) - outside the domain
	arrayOK    int
	buildErrs  int
	byG        map[string]bool // canonical descriptor -> replay agreed with the spec
	tofu       map[string]*soyhtml.Tofu
	unsupported map[string]string

	// worker side (see worker.go): reports go to sink instead of ctx
	sink    *sinkT
	hb      func(label string)
	verbose bool
	// parent side: shapes confirmed not to return
	hangs *hangRegistry
}

func newChecker(ctx *core.Ctx) *checker {
	c := &checker{ctx: ctx, size: 1, byG: map[string]bool{}, tofu: map[string]*soyhtml.Tofu{}, unsupported: map[string]string{}, hangs: &hangRegistry{}}
	if ctx != nil {
		c.size = ctx.Pick(1, 2)
	}
	return c
}

// stall is how long a worker may make no progress before it is killed.
func (c *checker) stall() time.Duration { return 5 * time.Second }

// nWorkers: worker processes used for the real-code phases.
const nWorkers = 8

// Run is the entry point for C20.
func Run(ctx *core.Ctx) {
	ctx.Rule = "cases: (abstract Go value g, struct options o). M2: TLC enumerates every g of depth<=2 from the bounded pools of SoyData.tla (all int/float kinds with boundary values, NaN/Inf/-0, typed nils, interface nesting, time, declared and reflect.StructOf struct types, marshalers, data.Values) with the expected Soy value per option setting; the harness builds the real Go value, runs data.NewWith and compares, re-converts (idempotence), checks Truthy/String, renders through Tofu.Render; all pairs of a depth<=1 family go through Equals. M3: seeded random g of depth<=5 converted by the real code and validated by TLC. A case is non-trivial if g is not the untyped nil; distinct by canonical descriptor (+ options)"
	ctx.Assumptions = append(ctx.Assumptions,
		"oracle = SoyData.tla, written from the property statement, the Soy truthiness/equality definitions and what the repository's tests pin (data/convert_test.go: nil slice -> empty list, nil pointer -> null, lowerCamel = first letter lowered, unexported fields skipped, time formatted with StructOptions.TimeFormat, marshaler result taken as is; features_test.go: a nil map passed to Tofu.Render is a map)",
		"not judged (no source decides): embedded struct -> nested under its type name or promoted; equality of distinct list/map instances beyond symmetry; text of +-Inf and of fractional floats; Go arrays and other kinds the converter rejects by panicking; uint64 >= 2^63; pointers to data.Values",
		"integers within int64 (|n| >= 2^30 cross the TLC boundary as digit strings and are only compared as strings); floats restricted to small dyadic rationals, NaN/+-Inf/-0 symbolic")
	ctx.Trusted = append(ctx.Trusted, "Go harness: construction of real Go values from descriptors (reflect), deep comparison, encoders", "TLC 1.8 + CommunityModules Json")
	c := newChecker(ctx)
	if ctx.ReplayPath != "" {
		// the replayed case runs in a worker too: it may be one that does not return
		r := oneShot(&wtask{ID: 1, Kind: "replay", Text: ctx.ReplayPath}, 30*time.Second)
		switch {
		case r.stalled:
			ctx.Violation(core.Sig{Family: famConvert, Feature: "no-return:replayed-case"},
				"the replayed case does not return within 30s (last step: "+r.label+")", map[string]interface{}{"kind": "replay", "path": ctx.ReplayPath})
		case r.died != "":
			ctx.ToolError("replay worker: %s", r.died)
		default:
			c.apply(r.sink)
		}
		return
	}
	c.run()
}

// ---- TLC jobs -------------------------------------------------------------

type job struct {
	name string
	opts core.TLCOpts
	res  *core.TLCResult
	err  error
}

func (c *checker) cfg(dev string, extra string, invs ...string) string {
	var b strings.Builder
	if dev == "" {
		b.WriteString("CONSTANT Dev = {}\n")
	} else {
		b.WriteString("CONSTANT Dev = {\"" + dev + "\"}\n")
	}
	b.WriteString(extra)
	b.WriteString("INIT Init\nNEXT Next\nCHECK_DEADLOCK FALSE\n")
	for _, i := range invs {
		b.WriteString("INVARIANT " + i + "\n")
	}
	return b.String()
}

var mcInvariants = []string{"TypeOK", "InvFaithful", "InvIdempotent", "InvNil", "InvLowerCamel", "InvValueLaws", "InvMarshaler", "InvReadings"}
var pairInvariants = []string{"InvPairs", "InvTruth", "InvTextFn"}

const nParts = 6     // SoyData!Parts (part 5 = the marshaler family)
const nPairParts = 4 // processes sharing the rows of the pair matrix

// deviation -> (module, invariant that must catch it)
var deviations = []struct {
	name, module, inv string
	part              int
}{
	{"nan_truthy", "SoyDataPairs", "InvTruth", 0},
	{"eq_asymmetric_int_float", "SoyDataPairs", "InvPairs", 0},
	{"struct_field_uppercase", "SoyDataMC", "InvLowerCamel", 4},
	{"typed_nil_not_null", "SoyDataMC", "InvNil", 4},
	{"text_map_order", "SoyDataPairs", "InvTextFn", 0},
	{"marshaler_checked_after_deref", "SoyDataMC", "InvMarshaler", 5},
	{"cache_by_printed_name", "SoyDataHist", "InvHistory", 0},
}

func (c *checker) run() {
	ctx := c.ctx
	sizeC := fmt.Sprintf("CONSTANT Size = %d\n", c.size)
	var jobs []*job
	add := func(name string, o core.TLCOpts) *job {
		o.Label = name
		if o.Timeout == 0 {
			o.Timeout = 8 * time.Minute
		}
		j := &job{name: name, opts: o}
		jobs = append(jobs, j)
		return j
	}
	// M1 + M2, conversion: one run per part of the pool checks the laws on
	// the model and exports the cases
	var mcJobs, pairJobs []*job
	for p := 0; p < nParts; p++ {
		part := fmt.Sprintf("CONSTANT Part = %d\n", p)
		mcJobs = append(mcJobs, add(fmt.Sprintf("M1M2-convert-part%d", p),
			core.TLCOpts{Module: "SoyDataMC", Cfg: c.cfg("", sizeC+part, append(append([]string{}, mcInvariants...), "Emit")...), Workers: 1}))
	}
	// M1 + M2, pairs: the rows of the pair matrix are shared by nPairParts runs
	for p := 0; p < nPairParts; p++ {
		part := fmt.Sprintf("CONSTANT Part = %d\nCONSTANT NParts = %d\n", p, nPairParts)
		pairJobs = append(pairJobs, add(fmt.Sprintf("M1M2-pairs-part%d", p),
			core.TLCOpts{Module: "SoyDataPairs", Cfg: c.cfg("", sizeC+part, append(append([]string{}, pairInvariants...), "Emit")...), Workers: 1}))
	}
	// M1: deviations (self-test of the invariants)
	devJobs := map[string]*job{}
	for _, d := range deviations {
		extra := fmt.Sprintf("CONSTANT Size = 1\nCONSTANT Part = %d\n", d.part)
		if d.module == "SoyDataHist" {
			extra = "CONSTANT MaxLen = 2\nCONSTANT Wide = FALSE\n"
		}
		if d.module == "SoyDataPairs" {
			extra = "CONSTANT Size = 1\nCONSTANT Part = 0\nCONSTANT NParts = 1\n"
		}
		devJobs[d.name] = add("M1-deviation-"+d.name, core.TLCOpts{Module: d.module, Cfg: c.cfg(d.name, extra, d.inv), Workers: 1})
	}
	// M1 + M2, histories: conversion is a function of the value alone
	histCfg := fmt.Sprintf("CONSTANT MaxLen = 2\nCONSTANT Wide = %s\n", map[bool]string{false: "FALSE", true: "TRUE"}[ctx.Thorough()])
	histJob := add("M1M2-histories", core.TLCOpts{Module: "SoyDataHist", Cfg: c.cfg("", histCfg, "InvHistory", "Emit"), Workers: 1})
	// M3: record real conversions while TLC works, then validate
	traceChunks := c.recordTraces(ctx.Pick(3000, 80000), ctx.Pick(1500, 5000))
	var traceJobs []*job
	for i, ch := range traceChunks {
		traceJobs = append(traceJobs, add(fmt.Sprintf("M3-trace-%d", i), core.TLCOpts{Module: "SoyDataTrace",
			Cfg:   "CONSTANT Dev = {}\nINIT Init\nNEXT Next\nINVARIANT Report\nPOSTCONDITION TraceAccepted\nCHECK_DEADLOCK FALSE\n",
			Files: map[string][]byte{"c20_trace.ndjson": ch.ndjson}, Workers: 1}))
	}
	// run them, at most 10 JVMs at a time
	sem := make(chan struct{}, 10)
	var wg sync.WaitGroup
	for _, j := range jobs {
		wg.Add(1)
		go func(j *job) {
			defer wg.Done()
			sem <- struct{}{}
			defer func() { <-sem }()
			j.res, j.err = ctx.RunTLC(j.opts)
		}(j)
	}
	wg.Wait()
	for _, j := range jobs {
		if j.err != nil {
			ctx.ToolError("%s: %v", j.name, j.err)
		}
	}

	// M1 verdicts: the reference design must satisfy every law
	m1ok := true
	for _, j := range append(append([]*job{}, mcJobs...), pairJobs...) {
		if j.res != nil && j.res.Violated != "" {
			m1ok = false
			ctx.ToolError("%s: the reference model violates %s (spec bug, not a verdict): %s", j.name, j.res.Violated, firstCex(j.res))
		}
	}
	ctx.Extra["m1_reference_holds"] = m1ok
	ctx.Exhaustive = true // the bounded pools are enumerated completely
	ctx.Extra["exhaustive_scope"] = "M1/M2: the bounded pools of SoyData.tla (every abstract Go value of depth <= 2 built from them, all option settings, all ordered pairs of the depth <= 1 family) are enumerated completely; M3 is a seeded sample"

	// M2: replay (in worker processes)
	var allCases []map[string]interface{}
	for _, j := range mcJobs {
		if j.res == nil || j.err != nil || j.res.Violated != "" {
			continue
		}
		cases, err := j.res.PrintedJSON()
		if err != nil {
			ctx.ToolError("%s: %v", j.name, err)
			continue
		}
		if int64(len(cases)) != j.res.Distinct {
			ctx.ToolError("%s: %d cases printed for %d states", j.name, len(cases), j.res.Distinct)
		}
		allCases = append(allCases, cases...)
	}
	c.replayCases(allCases)
	c.replayPairs(pairJobs)
	c.replayHistories(histJob)

	// deviations: caught by TLC? and the counterexample replayed on the real code
	devReport := map[string]interface{}{}
	for _, d := range deviations {
		j := devJobs[d.name]
		rep := map[string]interface{}{"module": d.module, "invariant": d.inv}
		if j.res != nil {
			rep["violated"] = j.res.Violated
			rep["caught_by_tlc"] = j.res.Violated == d.inv
			if j.res.Violated != d.inv && j.err == nil {
				fmt.Printf("SELFTEST-WARNING: property=C20 deviation %s not caught by %s (got %q)\n", d.name, d.inv, j.res.Violated)
			}
			if cex := firstCex(j.res); cex != "" {
				rep["counterexample"] = json.RawMessage(cex)
				rep["replay_on_real_code"] = c.replayCex(cex)
			}
		}
		devReport[d.name] = rep
	}
	ctx.Extra["deviations"] = devReport

	// M3 verdicts
	for i, j := range traceJobs {
		c.judgeTrace(j, traceChunks[i])
	}

	ctx.Extra["arrays_converter_panics_not_judged"] = c.arrayPanic
	ctx.Extra["arrays_converted"] = c.arrayOK
	if r := oneShot(&wtask{ID: 1, Kind: "probe"}, c.stall()); r.done {
		ctx.Extra["unsupported_kinds_observed"] = r.res
	} else {
		ctx.Extra["unsupported_kinds_observed"] = "the probe did not return (" + r.label + r.died + ")"
	}
	ctx.Extra["non_returning_shapes_confirmed"] = c.hangs.count()
	if c.buildErrs > 0 {
		ctx.ToolError("%d descriptors could not be built (harness/spec mismatch)", c.buildErrs)
	}
}

func firstCex(r *core.TLCResult) string {
	for _, p := range r.Printed {
		if strings.HasPrefix(p, "CEX ") {
			return p[4:]
		}
	}
	return ""
}

// ---- M2: one case --------------------------------------------------------

type expEntry struct {
	LC     bool
	TF     string
	V      *SV
	Alts   []*SV
	Truthy bool
	TextOK bool
	Text   string
}

func parseOpts(x interface{}) (bool, string, error) {
	o, ok := asD(x)
	if !ok {
		return false, "", fmt.Errorf("no options")
	}
	tf := dstr(o, "tf")
	if _, ok := timeFormats[tf]; !ok {
		return false, "", fmt.Errorf("unknown time format %q", tf)
	}
	return dbool(o, "lc"), tf, nil
}

func parseExp(e D) (*expEntry, error) {
	var out expEntry
	var err error
	if out.LC, out.TF, err = parseOpts(e["o"]); err != nil {
		return nil, err
	}
	v, ok := asD(e["v"])
	if !ok {
		return nil, fmt.Errorf("case without v")
	}
	if out.V, err = parseSV(v); err != nil {
		return nil, err
	}
	alts, err := seqOf(e["alts"])
	if err != nil {
		return nil, err
	}
	for _, a := range alts {
		sv, err := parseSV(a)
		if err != nil {
			return nil, err
		}
		out.Alts = append(out.Alts, sv)
	}
	out.Truthy = dbool(e, "truthy")
	if t, ok := asD(e["text"]); ok && dbool(t, "ok") {
		out.TextOK, out.Text = true, dstr(t, "s")
	}
	return &out, nil
}

func structOpts(lc bool, tf string) data.StructOptions {
	return data.StructOptions{LowerCamel: lc, TimeFormat: timeFormats[tf]}
}

func isArray(d D) bool { return dstr(d, "g") == "array" }

// replayCases runs the exported cases on the real code, in workers.
func (c *checker) replayCases(cases []map[string]interface{}) {
	ctx := c.ctx
	tasks := make([]*wtask, len(cases))
	for i, cs := range cases {
		tasks[i] = &wtask{Kind: "case", CS: cs}
	}
	results := c.runTasks(tasks, nWorkers, c.stall())
	skipped, unrun := 0, 0
	for i, r := range results {
		cs := cases[i]
		g, _ := asD(cs["g"])
		key := canon(g)
		agreed := false
		switch {
		case r == nil:
			unrun++
			continue
		case r.skipped != "":
			skipped++
		case r.died != "":
			ctx.ToolError("case %s: %s", key, r.died)
			continue
		default:
			c.apply(r.sink)
			agreed, _ = r.res["agreed"].(bool)
			if depthD(g) >= 2 && len(ctx.Samples) < 4 || len(ctx.Samples) < 1 {
				ctx.Sample(map[string]interface{}{"mode": "M2", "g": g, "o": cs["o"], "expected": cs["v"]})
			}
		}
		if prev, seen := c.byG[key]; seen {
			agreed = agreed && prev
		}
		c.byG[key] = agreed
	}
	if skipped > 0 {
		fmt.Printf("NOTE: property=C20 %d cases not run: they contain a shape already confirmed not to return\n", skipped)
		ctx.Extra["cases_skipped_after_confirmed_no_return"] = skipped
	}
	if unrun > 0 {
		fmt.Printf("NOTE: property=C20 %d cases not run: the phase was abandoned after %d confirmed non-returning cases\n", unrun, maxConfirmedHangs)
		ctx.Extra["cases_not_run_phase_abandoned"] = unrun
	}
}

// replayCase runs one exported case (g, o) on the real code (worker side).
func (c *checker) replayCase(cs map[string]interface{}) bool {
	g, ok := asD(cs["g"])
	if !ok {
		c.toolError("case without descriptor")
		return false
	}
	key := canon(g)
	rv, err := build(g)
	if err != nil {
		c.buildErrs++
		c.toolError("cannot build %s: %v", key, err)
		return false
	}
	arg := toArg(rv)
	hasArray := anyD(g, isArray)
	e, err := parseExp(cs)
	if err != nil {
		c.toolError("bad case %s: %v", key, err)
		return false
	}
	agreed, which := c.checkConversion("M2", g, arg, hasArray, e)
	if dstr(g, "g") != "nil" {
		c.distinct(key + "|" + e.TF + fmt.Sprint(e.LC))
	}
	c.addTraces(1)
	// Tofu.Render converts with the default options; judged only when the
	// conversion itself agreed with the reference reading
	if rend, ok := asD(cs["rend"]); ok && dstr(rend, "kind") != "none" && !hasArray && agreed && which == 0 {
		if !c.checkTofu(g, arg, rend) {
			agreed = false
		}
	}
	return agreed
}

// checkConversion converts arg under e's options and judges the result.
// It returns whether the real code agrees and which reading it followed
// (0 = reference reading, i > 0 = alternative i).
func (c *checker) checkConversion(mode string, g D, arg interface{}, hasArray bool, e *expEntry) (bool, int) {
	o := structOpts(e.LC, e.TF)
	c.phase("convert")
	got, p := convert(o, arg)
	c.addEvals(1)
	rep := func(extra map[string]interface{}) map[string]interface{} {
		m := map[string]interface{}{"kind": "convert", "mode": mode, "g": g, "o": D{"lc": e.LC, "tf": e.TF}, "expected": svJSON(e.V), "alternatives": svsJSON(e.Alts)}
		for k, v := range extra {
			m[k] = v
		}
		return m
	}
	if p != nil {
		if hasArray && strings.Contains(fmt.Sprint(p), "unexpected data type") {
			c.arrayPanic++ // the converter does not accept arrays: outside the domain
			return true, -1
		}
		c.violation(core.Sig{Family: famConvert, Feature: panicFeature(g, o)},
			fmt.Sprintf("data.NewWith panics on a JSON-like value %s: %v (expected %s)", canon(g), p, svText(e.V)),
			rep(map[string]interface{}{"observed_panic": fmt.Sprint(p)}))
		return false, -1
	}
	if hasArray {
		c.arrayOK++
	}
	which := -1
	if mismatch(e.V, got, "") == "" {
		which = 0
	} else {
		for i, a := range e.Alts {
			if mismatch(a, got, "") == "" {
				which = i + 1
				break
			}
		}
	}
	if which < 0 {
		c.violation(core.Sig{Family: famConvert, Feature: convertFeature(g, e.LC, e.TF, e.V, got)},
			fmt.Sprintf("data.NewWith(%+v, %s): %s; observed %s", o, canon(g), mismatch(e.V, got, ""), show(got)),
			rep(map[string]interface{}{"observed": encode(got)}))
		return false, -1
	}
	ok := true
	expSV := e.V
	if which > 0 {
		expSV = e.Alts[which-1]
	}
	if got == nil {
		return true, which // a marshaler returned nil: not a Soy value, no laws to check
	}
	// idempotence on the real code: converting the result changes nothing
	c.phase("reconvert")
	for _, o2 := range []data.StructOptions{o, {LowerCamel: !e.LC, TimeFormat: time.Kitchen}, data.DefaultStructOptions} {
		again, p2 := convert(o2, got)
		c.addEvals(1)
		if p2 != nil || mismatch(expSV, again, "") != "" || !sameInstance(got, again) {
			c.violation(core.Sig{Family: famIdem, Feature: "reconvert:" + tagOf(got)},
				fmt.Sprintf("converting the converted value again changes it: %s -> %s (panic=%v)", show(got), show(again), p2),
				rep(map[string]interface{}{"observed": encode(got), "second": encode(again)}))
			ok = false
			break
		}
	}
	if wrapped, p2 := convert(o, []interface{}{got, map[string]interface{}{"k": got}}); p2 != nil {
		c.violation(core.Sig{Family: famIdem, Feature: "nested-reconvert:" + tagOf(got) + ":panic"},
			fmt.Sprintf("converting a slice holding the converted value panics: %v", p2), rep(nil))
		ok = false
	} else if l, isL := wrapped.(data.List); !isL || len(l) != 2 || mismatch(expSV, l[0], "") != "" || !sameInstance(got, l[0]) ||
		mismatch(&SV{T: "map", M: map[string]*SV{"k": expSV}}, l[1], "") != "" {
		c.violation(core.Sig{Family: famIdem, Feature: "nested-reconvert:" + tagOf(got)},
			fmt.Sprintf("a converted value placed in a Go slice/map is changed by conversion: %s -> %s", show(got), show(wrapped)), rep(nil))
		ok = false
	}
	c.addEvals(1)
	// value laws on the result
	if which == 0 && e.V.Iso == "" {
		if !c.checkValueLaws(got, e.Truthy, e.TextOK, e.Text, rep) {
			ok = false
		}
	}
	return ok, which
}

// sameInstance: re-converting a list/map returns the very same instance.
func sameInstance(a, b data.Value) bool {
	switch a.(type) {
	case data.List, data.Map:
		return a.Equals(b) && b.Equals(a)
	}
	return true
}

func safeTruthy(v data.Value) (t bool, p interface{}) {
	defer func() { p = recover() }()
	return v.Truthy(), nil
}

func safeString(v data.Value) (s string, p interface{}) {
	defer func() {
		if r := recover(); r != nil {
			s, p = "", r
		}
	}()
	return v.String(), nil
}

func safeEquals(a, b data.Value) (e bool, p interface{}) {
	defer func() { p = recover() }()
	return a.Equals(b), nil
}

// noFraction: the text of fractional floats is not claimed here (C01).
func (c *checker) checkValueLaws(got data.Value, truthy bool, textOK bool, text string, rep func(map[string]interface{}) map[string]interface{}) bool {
	ok := true
	c.phase("truthy")
	t, p := safeTruthy(got)
	c.addEvals(1)
	if p != nil || t != truthy {
		c.violation(core.Sig{Family: famLaws, Feature: fmt.Sprintf("truthy:%s:observed=%v", valFeature(got), t)},
			fmt.Sprintf("%s.Truthy() = %v (panic=%v), the truthiness table says %v", show(got), t, p, truthy),
			rep(map[string]interface{}{"kind": "truthy", "value": encode(got), "observed": t, "expected_truthy": truthy}))
		ok = false
	}
	c.phase("string")
	first, p1 := safeString(got)
	for i := 0; i < 19; i++ {
		s, p2 := safeString(got)
		if s != first || (p1 == nil) != (p2 == nil) {
			c.violation(core.Sig{Family: famLaws, Feature: "string-nondeterministic:" + tagOf(got)},
				fmt.Sprintf("String() of one value gave %q and then %q", first, s),
				rep(map[string]interface{}{"kind": "string", "value": encode(got), "first": first, "other": s}))
			ok = false
			break
		}
	}
	c.addEvals(20)
	if textOK && (p1 != nil || first != text) {
		c.violation(core.Sig{Family: famLaws, Feature: "string:" + tagOf(got) + ":wrong-text"},
			fmt.Sprintf("String() = %q (panic=%v), expected %q", first, p1, text),
			rep(map[string]interface{}{"kind": "string", "value": encode(got), "observed": first, "expected_text": text}))
		ok = false
	}
	return ok
}

func svJSON(v *SV) interface{} {
	if v == nil {
		return nil
	}
	switch v.T {
	case "undef", "null":
		return D{"t": v.T}
	case "bool":
		return D{"t": "bool", "v": v.B}
	case "int":
		return D{"t": "int", "v": v.N}
	case "bigint":
		return D{"t": "bigint", "v": v.Big}
	case "float":
		return D{"t": "float", "num": v.Num, "sh": v.Sh}
	case "fsym":
		return D{"t": "fsym", "v": v.Sym}
	case "str":
		if v.Iso != "" {
			return D{"t": "str", "iso": v.Iso}
		}
		return D{"t": "str", "v": v.S}
	case "list":
		xs := make([]interface{}, len(v.L))
		for i, e := range v.L {
			xs[i] = svJSON(e)
		}
		return D{"t": "list", "v": xs}
	case "map":
		m := map[string]interface{}{}
		for k, e := range v.M {
			m[k] = svJSON(e)
		}
		return D{"t": "map", "v": m}
	}
	return D{"t": v.T}
}

func svsJSON(vs []*SV) []interface{} {
	out := []interface{}{}
	for _, v := range vs {
		out = append(out, svJSON(v))
	}
	return out
}

func svText(v *SV) string {
	b, _ := json.Marshal(svJSON(v))
	return string(b)
}

// ---- Tofu.Render ----------------------------------------------------------

func (c *checker) tofuFor(keys []string) (*soyhtml.Tofu, error) {
	k := strings.Join(keys, ",")
	if t, ok := c.tofu[k]; ok {
		return t, nil
	}
	var b strings.Builder
	b.WriteString("{namespace c20}\n/**\n")
	for _, p := range keys {
		b.WriteString(" * @param? " + p + "\n")
	}
	b.WriteString(" */\n{template .t autoescape=\"false\"}\n")
	for i, p := range keys {
		if i > 0 {
			b.WriteString("|")
		}
		b.WriteString("{$" + p + "}")
	}
	b.WriteString("\n{/template}\n")
	comp, err, _ := core.Compile([]core.File{{Name: "c20.soy", Text: b.String()}}, nil)
	if err != nil {
		return nil, fmt.Errorf("%v in %s", err, b.String())
	}
	c.tofu[k] = comp.Tofu
	return comp.Tofu, nil
}

func render(t *soyhtml.Tofu, arg interface{}) (out string, err error, p interface{}) {
	defer func() {
		if r := recover(); r != nil {
			p = r
		}
	}()
	var buf bytes.Buffer
	err = t.Render(&buf, "c20.t", arg)
	return buf.String(), err, nil
}

// checkTofu: Tofu.Render converts its argument; a struct/map reaches the
// template as the converted map, anything else is an error, never a panic.
func (c *checker) checkTofu(g D, arg interface{}, rend D) bool {
	kind := dstr(rend, "kind")
	var keys []string
	fields := map[string]string{}
	if kind == "map" {
		if f, ok := asD(rend["f"]); ok {
			for k, v := range f {
				s, _ := v.(string)
				fields[k] = s
				keys = append(keys, k)
			}
		}
		sort.Strings(keys)
	}
	t, err := c.tofuFor(keys)
	if err != nil {
		c.toolError("tofu template: %v", err)
		return true
	}
	c.phase("render")
	out, rerr, p := render(t, arg)
	c.addEvals(1)
	rep := map[string]interface{}{"kind": "tofu", "g": g, "rend": rend, "observed_out": out, "observed_err": fmt.Sprint(rerr), "observed_panic": fmt.Sprint(p)}
	if p != nil {
		c.violation(core.Sig{Family: famTofu, Feature: "panic:" + descKind(g)},
			fmt.Sprintf("Tofu.Render panics on argument %s: %v", canon(g), p), rep)
		return false
	}
	switch kind {
	case "error":
		if rerr == nil {
			c.violation(core.Sig{Family: famTofu, Feature: "non-map-argument-accepted"},
				fmt.Sprintf("Tofu.Render accepts a %s argument (converts to a non-map) without error", descKind(g)), rep)
			return false
		}
	case "map":
		var want []string
		for _, k := range keys {
			want = append(want, fields[k])
		}
		exp := strings.Join(want, "|")
		if rerr != nil || out != exp {
			c.violation(core.Sig{Family: famTofu, Feature: "converted-map-not-seen-by-template"},
				fmt.Sprintf("Tofu.Render(%s): template printing %v gave %q err=%v, expected %q", canon(g), keys, out, rerr, exp), rep)
			return false
		}
	}
	return true
}

// ---- M2: pairs -----------------------------------------------------------

type pairRow struct {
	i      int
	g      D
	v      *SV
	truthy bool
	textOK bool
	text   string
	eq     []string
	real   data.Value
	ok     bool
}

func (c *checker) replayPairs(jobs []*job) {
	ctx := c.ctx
	var rows []map[string]interface{}
	n := 0
	for _, j := range jobs {
		if j.res == nil || j.err != nil {
			return
		}
		if j.res.Violated != "" {
			ctx.ToolError("%s: export stopped: %s", j.name, j.res.Violated)
			return
		}
		lines, err := j.res.PrintedJSON()
		if err != nil {
			ctx.ToolError("%s: %v", j.name, err)
			return
		}
		for _, ln := range lines {
			n64, _ := toI64(ln["n"])
			n = int(n64)
			rows = append(rows, ln)
		}
	}
	idx := func(r map[string]interface{}) int { i, _ := toI64(r["i"]); return int(i) }
	sort.Slice(rows, func(a, b int) bool { return idx(rows[a]) < idx(rows[b]) })
	if len(rows) != n || n == 0 {
		ctx.ToolError("pair export incomplete: %d rows of %d", len(rows), n)
		return
	}
	// rows whose value contains a shape known not to return are left out
	var skip []int
	for _, r := range rows {
		if g, ok := asD(r["g"]); ok && c.hangs.matches(g) != "" {
			skip = append(skip, idx(r))
		}
	}
	confirmed := 0
	for round := 0; round < 2; round++ {
		r := oneShot(&wtask{ID: 1, Kind: "pairs", Rows: rows, Skip: skip}, c.stall())
		if r.died != "" {
			ctx.ToolError("pairs worker: %s", r.died)
			return
		}
		if r.done {
			c.apply(r.sink)
			ctx.Extra["real_pairs_checked"] = r.res["pairs"]
			ctx.Extra["pair_values"] = n
			if len(skip) > 0 {
				ctx.Extra["pair_rows_skipped_no_return"] = len(skip)
			}
			return
		}
		// stalled: which row? confirm it alone, report, leave it out, go on
		var row int
		var what string
		fmt.Sscanf(r.label, "%s %d", &what, &row)
		if row < 1 || row > n {
			ctx.ToolError("pairs worker stalled without progress (%q)", r.label)
			return
		}
		g, _ := asD(rows[row-1]["g"])
		again := oneShot(&wtask{ID: 1, Kind: "pairs", Rows: rows, Only: row, Skip: skip}, c.stall())
		if again.stalled {
			step := map[string]string{"conv": "convert", "laws": "truthy-or-string", "row": "equals"}[what]
			ctx.Violation(core.Sig{Family: famLaws, Feature: "no-return:" + step + ":" + skeleton(g)},
				fmt.Sprintf("the real code does not return (%s of pair row %d, value from %s; confirmed alone in a fresh process)", step, row, canon(g)),
				map[string]interface{}{"kind": "no-return", "task": "pairs", "g": g, "step": step, "row": row})
			confirmed++
		}
		skip = append(skip, row)
	}
	if confirmed > 0 {
		fmt.Printf("NOTE: property=C20 the pair phase was abandoned after %d confirmed non-returning calls\n", confirmed)
		return
	}
	ctx.ToolError("pairs: repeated unconfirmed stalls")
}

// pairsTask (worker side): converts every row's value ONCE, checks the value
// laws on it, then pushes all ordered pairs through Equals. only > 0: just
// that row (against all others); skip: rows left out.
func (c *checker) pairsTask(raw []map[string]interface{}, only int, skipList []int) map[string]interface{} {
	skip := map[int]bool{}
	for _, i := range skipList {
		skip[i] = true
	}
	var rows []*pairRow
	for _, ln := range raw {
		i64, _ := toI64(ln["i"])
		g, _ := asD(ln["g"])
		vj, _ := asD(ln["v"])
		sv, err := parseSV(vj)
		if err != nil {
			c.toolError("pair row %d: %v", i64, err)
			return nil
		}
		r := &pairRow{i: int(i64), g: g, v: sv, truthy: dbool(ln, "truthy")}
		if t, ok := asD(ln["text"]); ok && dbool(t, "ok") {
			r.textOK, r.text = true, dstr(t, "s")
		}
		eq, _ := ln["eq"].([]interface{})
		for _, x := range eq {
			s, _ := x.(string)
			r.eq = append(r.eq, s)
		}
		rows = append(rows, r)
	}
	n := len(rows)
	for k, r := range rows {
		if r.i != k+1 || len(r.eq) != n {
			c.toolError("pair export malformed at row %d", k+1)
			return nil
		}
		if skip[r.i] {
			continue
		}
		rv, err := build(r.g)
		if err != nil {
			c.buildErrs++
			continue
		}
		c.hb(fmt.Sprintf("conv %d", r.i))
		got, p := convert(data.DefaultStructOptions, toArg(rv))
		if p != nil || got == nil || mismatch(r.v, got, "") != "" {
			continue // reported by the conversion cases
		}
		r.real, r.ok = got, true
		if only > 0 && r.i != only {
			continue
		}
		rep := func(extra map[string]interface{}) map[string]interface{} {
			m := map[string]interface{}{"kind": "law", "g": r.g, "value": encode(got)}
			for k, v := range extra {
				m[k] = v
			}
			return m
		}
		c.hb(fmt.Sprintf("laws %d", r.i))
		c.checkValueLaws(got, r.truthy, r.textOK, r.text, rep)
	}
	pairs := 0
	for _, a := range rows {
		if !a.ok || only > 0 && a.i != only {
			continue
		}
		c.hb(fmt.Sprintf("row %d", a.i))
		for jx, b := range rows {
			if !b.ok {
				continue
			}
			pairs++
			ab, p1 := safeEquals(a.real, b.real)
			ba, p2 := safeEquals(b.real, a.real)
			rep := map[string]interface{}{"kind": "pair", "ga": a.g, "gb": b.g, "a": encode(a.real), "b": encode(b.real),
				"a_equals_b": ab, "b_equals_a": ba, "spec": a.eq[jx]}
			switch {
			case p1 != nil || p2 != nil:
				c.violation(core.Sig{Family: famLaws, Feature: "equals:panic:" + pairFeature(a.real, b.real)},
					fmt.Sprintf("Equals panics on %s, %s: %v %v", show(a.real), show(b.real), p1, p2), rep)
			case ab != ba:
				c.violation(core.Sig{Family: famLaws, Feature: "equals:asymmetric:" + pairFeature(a.real, b.real)},
					fmt.Sprintf("%s.Equals(%s) = %v but the converse is %v", show(a.real), show(b.real), ab, ba), rep)
			case a.eq[jx] == "t" && !ab, a.eq[jx] == "f" && ab:
				c.violation(core.Sig{Family: famLaws, Feature: fmt.Sprintf("equals:%s:observed=%v", pairFeature(a.real, b.real), ab)},
					fmt.Sprintf("%s.Equals(%s) = %v, the language says %s", show(a.real), show(b.real), ab, a.eq[jx]), rep)
			}
		}
	}
	c.addEvals(int64(2 * pairs))
	return map[string]interface{}{"pairs": pairs}
}

// replayCex replays the counterexample of a deviation on the real code and
// says whether the real code shows the deviation.
func (c *checker) replayCex(cex string) string {
	var m map[string]interface{}
	d := json.NewDecoder(strings.NewReader(cex))
	d.UseNumber()
	if err := d.Decode(&m); err != nil {
		return "unparsable counterexample: " + err.Error()
	}
	if raw, ok := m["hist"].([]interface{}); ok && len(raw) > 0 {
		var steps []histStep
		for _, x := range raw {
			st, _ := asD(x)
			g, _ := asD(st["g"])
			o, _ := asD(st["o"])
			steps = append(steps, histStep{G: g, O: o})
		}
		whole, err1 := runHistory(steps)
		alone, err2 := runHistory(steps[len(steps)-1:])
		if err1 != nil || err2 != nil {
			return fmt.Sprintf("history could not be replayed: %v %v", err1, err2)
		}
		if showRes(whole[len(whole)-1]) != showRes(alone[0]) {
			return "real code SHOWS the deviation: " + showRes(whole[len(whole)-1]) + " after the prefix, " + showRes(alone[0]) + " alone"
		}
		return "real code agrees with the reference model (deviation absent)"
	}
	if g, ok := asD(m["g"]); ok {
		agreed, seen := c.byG[canon(g)]
		switch {
		case !seen:
			return "counterexample not among the replayed cases"
		case agreed:
			return "real code agrees with the reference model (deviation absent)"
		default:
			return "real code DISAGREES with the reference model on this case (see violations)"
		}
	}
	// value laws: evaluated by the real code in a worker
	r := oneShot(&wtask{ID: 1, Kind: "cex", Text: cex}, c.stall())
	if r.done {
		t, _ := r.res["text"].(string)
		return t
	}
	return "the replay of the counterexample did not return (" + r.label + r.died + ")"
}

// replayLawCex (worker side) evaluates the law of a pair counterexample on the
// real code.
func (c *checker) replayLawCex(cex string) string {
	var m map[string]interface{}
	d := json.NewDecoder(strings.NewReader(cex))
	d.UseNumber()
	if err := d.Decode(&m); err != nil {
		return "unparsable counterexample: " + err.Error()
	}
	a, okA := asD(m["a"])
	b, okB := asD(m["b"])
	if !okA || !okB {
		return "counterexample without values"
	}
	sa, err1 := parseSV(a)
	sb, err2 := parseSV(b)
	if err1 != nil || err2 != nil {
		return "unparsable values"
	}
	va, err1 := sa.toData()
	vb, err2 := sb.toData()
	if err1 != nil || err2 != nil {
		return "values without a Go form"
	}
	switch dstr(m, "law") {
	case "InvTruth":
		t, _ := safeTruthy(va)
		exp := !(sa.T == "fsym" && (sa.Sym == "nan" || sa.Sym == "nzero"))
		if t != exp {
			return fmt.Sprintf("real code SHOWS the deviation: %s.Truthy() = %v", show(va), t)
		}
		return "real code agrees with the reference model (deviation absent)"
	case "InvPairs":
		ab, _ := safeEquals(va, vb)
		ba, _ := safeEquals(vb, va)
		if ab != ba {
			return fmt.Sprintf("real code SHOWS the deviation: Equals is %v one way and %v the other", ab, ba)
		}
		return "real code agrees with the reference model (deviation absent)"
	case "InvTextFn":
		first, _ := safeString(va)
		for i := 0; i < 50; i++ {
			if s, _ := safeString(va); s != first {
				return "real code SHOWS the deviation: String() varies"
			}
		}
		return "real code agrees with the reference model (deviation absent)"
	}
	return "unknown law"
}

// ---- unsupported kinds (recorded, not judged) -----------------------------

func (c *checker) probeUnsupported() map[string]string {
	out := map[string]string{}
	probe := func(name string, v interface{}) {
		got, p := convert(data.DefaultStructOptions, v)
		if p != nil {
			out[name] = "panic: " + fmt.Sprint(p)
		} else {
			out[name] = "returns " + show(got)
		}
	}
	probe("chan", make(chan int))
	probe("func", func() {})
	probe("complex128", complex(1, 2))
	probe("uintptr", uintptr(3))
	probe("array [2]int", [2]int{1, 2})
	probe("map[int]int (non-empty)", map[int]int{1: 2})
	probe("map[int]int (empty)", map[int]int{})
	probe("uint64 2^63", uint64(1)<<63)
	var five = data.Int(5)
	probe("*data.Int", &five)
	return out
}

// ---- replay of a saved case ----------------------------------------------

// replay re-runs one saved case (worker side: reports go to the sink).
func (c *checker) replay(path string) {
	b, err := os.ReadFile(path)
	if err != nil {
		c.toolError("replay: %v", err)
		return
	}
	var v struct {
		Replay map[string]interface{} `json:"replay"`
	}
	d := json.NewDecoder(bytes.NewReader(b))
	d.UseNumber()
	if err := d.Decode(&v); err != nil {
		c.toolError("replay: %v", err)
		return
	}
	r := v.Replay
	switch dstr(r, "kind") {
	case "history":
		raw, _ := r["steps"].([]interface{})
		var steps []histStep
		for _, x := range raw {
			st, _ := asD(x)
			g, _ := asD(st["g"])
			o, _ := asD(st["o"])
			steps = append(steps, histStep{G: g, O: o})
		}
		k64, _ := toI64(r["step"])
		k := int(k64)
		if k < 0 || k >= len(steps) {
			c.toolError("replay: bad history")
			return
		}
		whole, err1 := runHistory(steps[:k+1])
		alone, err2 := runHistory(steps[k : k+1])
		if err1 != nil || err2 != nil {
			c.toolError("replay: %v %v", err1, err2)
			return
		}
		c.note("replay history: step %d gives %s; alone %s", k, showRes(whole[k]), showRes(alone[0]))
		if showRes(whole[k]) != showRes(alone[0]) {
			c.violation(core.Sig{Family: "history", Feature: "conversion-depends-on-earlier-conversions:" + collision(steps[:k], steps[k])},
				"replayed history: the conversion still depends on the earlier conversions", r)
		}
	case "pair":
		sa, err1 := parseSVi(r["a"])
		sb, err2 := parseSVi(r["b"])
		if err1 != nil || err2 != nil {
			c.toolError("replay: bad pair")
			return
		}
		va, _ := sa.toData()
		vb, _ := sb.toData()
		ab, _ := safeEquals(va, vb)
		ba, _ := safeEquals(vb, va)
		spec := dstr(r, "spec")
		c.note("replay pair: a.Equals(b)=%v b.Equals(a)=%v spec=%s", ab, ba, spec)
		if ab != ba || spec == "t" && !ab || spec == "f" && ab {
			c.violation(core.Sig{Family: famLaws, Feature: fmt.Sprintf("equals:%s:observed=%v", pairFeature(va, vb), ab)}, "replayed pair still fails", r)
		}
	case "truthy", "law", "string":
		sv, err := parseSVi(r["value"])
		if err != nil {
			c.toolError("replay: %v", err)
			return
		}
		dv, _ := sv.toData()
		t, _ := safeTruthy(dv)
		c.note("replay value law: %s.Truthy()=%v", show(dv), t)
		if exp, ok := r["expected_truthy"].(bool); ok && exp != t {
			c.violation(core.Sig{Family: famLaws, Feature: fmt.Sprintf("truthy:%s:observed=%v", valFeature(dv), t)}, "replayed truthiness still fails", r)
		}
	default: // convert / tofu
		g, ok := asD(r["g"])
		if !ok {
			c.toolError("replay: no descriptor")
			return
		}
		rv, err := build(g)
		if err != nil {
			c.toolError("replay: %v", err)
			return
		}
		if dstr(r, "kind") == "tofu" {
			rend, _ := asD(r["rend"])
			c.checkTofu(g, toArg(rv), rend)
			return
		}
		if dstr(r, "kind") == "no-return" {
			// the parent's deadline around this worker decides: if the call
			// below does not come back the case is reported again
			lc, tf, err := parseOpts(r["o"])
			if err != nil {
				lc, tf = true, "rfc3339"
			}
			c.phase("convert")
			got, p := convert(structOpts(lc, tf), toArg(rv))
			c.note("replay: the conversion of %s returns (%s, panic=%v)", canon(g), show(got), p)
			return
		}
		if dstr(r, "kind") == "convert-panic" {
			lc, tf, err := parseOpts(r["o"])
			if err != nil {
				c.toolError("replay: %v", err)
				return
			}
			o := structOpts(lc, tf)
			got, p := convert(o, toArg(rv))
			c.note("replay convert %s: panic=%v result=%s", canon(g), p, show(got))
			if p != nil {
				c.violation(core.Sig{Family: famConvert, Feature: panicFeature(g, o)},
					fmt.Sprintf("data.NewWith still panics on %s: %v", canon(g), p), r)
			}
			return
		}
		lc, tf, err := parseOpts(r["o"])
		if err != nil {
			c.toolError("replay: %v", err)
			return
		}
		e := &expEntry{LC: lc, TF: tf}
		if e.V, err = parseSVi(r["expected"]); err != nil {
			c.toolError("replay: %v", err)
			return
		}
		alts, _ := seqOf(r["alternatives"])
		for _, a := range alts {
			if sv, err := parseSV(a); err == nil {
				e.Alts = append(e.Alts, sv)
			}
		}
		e.Truthy, _ = safeTruthy(mustData(e.V))
		ok2, _ := c.checkConversion("replay", g, toArg(rv), anyD(g, isArray), e)
		c.note("replay convert %s: agrees=%v", canon(g), ok2)
	}
}

func parseSVi(x interface{}) (*SV, error) {
	d, ok := asD(x)
	if !ok {
		return nil, fmt.Errorf("not a value: %v", x)
	}
	return parseSV(d)
}

func mustData(v *SV) data.Value {
	dv, err := v.toData()
	if err != nil {
		return data.Null{}
	}
	return dv
}

// ---- M3 ------------------------------------------------------------------

type traceLine struct {
	g      D
	lc     bool
	tf     string
	enc    D          // the observed value as the worker encoded it
	obs    data.Value // rebuilt from enc (nil if the encoding could not carry it)
	truthy bool       // obs.Truthy() as observed by the worker
}

type traceChunk struct {
	ndjson []byte
	lines  []traceLine
}

// m3Task (worker side): one recorded conversion of the real code.
func (c *checker) m3Task(g, od D) map[string]interface{} {
	rv, err := build(g)
	if err != nil {
		c.buildErrs++
		c.toolError("M3: cannot build %s: %v", canon(g), err)
		return map[string]interface{}{"builderr": true}
	}
	lc, tf, err := parseOpts(od)
	if err != nil {
		c.toolError("M3: %v", err)
		return map[string]interface{}{"builderr": true}
	}
	o := structOpts(lc, tf)
	c.phase("convert")
	got, p := convert(o, toArg(rv))
	c.addEvals(1)
	if p != nil {
		c.violation(core.Sig{Family: famConvert, Feature: panicFeature(g, o)},
			fmt.Sprintf("data.NewWith panics on a JSON-like value %s: %v", canon(g), p),
			map[string]interface{}{"kind": "convert-panic", "mode": "M3", "g": shrinkPanic(g, o), "g_generated": g, "o": od, "observed_panic": fmt.Sprint(p)})
		return map[string]interface{}{"panic": true}
	}
	c.phase("truthy")
	truthy, _ := safeTruthy(got)
	c.phase("string")
	text, tp := safeString(got)
	return map[string]interface{}{"obs": encode(got), "truthy": truthy, "textok": tp == nil, "text": text}
}

// recordTraces generates n random nested Go values (parent, seeded), has the
// workers convert them with the real code and writes the observations as
// NDJSON chunks.
func (c *checker) recordTraces(n, perChunk int) []*traceChunk {
	ctx := c.ctx
	r := rand.New(rand.NewSource(ctx.Seed))
	gen := &generator{r: r}
	tasks := make([]*wtask, 0, n)
	depthHist := map[int]int{}
	for i := 0; i < n; i++ {
		g := gen.value(1 + r.Intn(5))
		for depthD(g) > 5 {
			g = gen.value(1 + r.Intn(4))
		}
		lc := r.Intn(2) == 0
		tf := []string{"rfc3339", "stamp"}[r.Intn(2)]
		depthHist[depthD(g)]++
		if dstr(g, "g") != "nil" {
			ctx.Distinct(canon(g) + fmt.Sprint(lc, tf))
		}
		tasks = append(tasks, &wtask{Kind: "m3", G: g, O: D{"lc": lc, "tf": tf}})
	}
	ctx.Extra["m3_depth_histogram"] = depthHist
	results := c.runTasks(tasks, nWorkers, c.stall())
	var chunks []*traceChunk
	cur := &traceChunk{}
	var buf bytes.Buffer
	flush := func() {
		if len(cur.lines) > 0 {
			cur.ndjson = append([]byte(nil), buf.Bytes()...)
			chunks = append(chunks, cur)
		}
		cur = &traceChunk{}
		buf.Reset()
	}
	skipped := 0
	for i, res := range results {
		t := tasks[i]
		switch {
		case res == nil:
			continue
		case res.skipped != "":
			skipped++
			continue
		case res.died != "":
			ctx.ToolError("M3 worker: %s", res.died)
			continue
		}
		c.apply(res.sink)
		enc, ok := asD(res.res["obs"])
		if !ok {
			continue // panic / build error / no return: reported through the sink
		}
		lc, tf, _ := parseOpts(t.O)
		line := D{"g": t.G, "o": t.O, "obs": enc, "truthy": res.res["truthy"], "textok": res.res["textok"], "text": res.res["text"]}
		b, err := json.Marshal(line)
		if err != nil {
			ctx.ToolError("M3: %v", err)
			continue
		}
		buf.Write(b)
		buf.WriteByte('\n')
		tl := traceLine{g: t.G, lc: lc, tf: tf, enc: enc}
		tl.truthy, _ = res.res["truthy"].(bool)
		if sv, err := parseSV(enc); err == nil {
			tl.obs, _ = sv.toData()
		}
		cur.lines = append(cur.lines, tl)
		if len(ctx.Samples) < 8 && depthD(t.G) >= 3 {
			ctx.Sample(map[string]interface{}{"mode": "M3", "g": t.G, "o": t.O, "obs": enc})
		}
		if len(cur.lines) >= perChunk {
			flush()
		}
	}
	flush()
	if skipped > 0 {
		ctx.Extra["m3_values_skipped_after_confirmed_no_return"] = skipped
	}
	return chunks
}

func (c *checker) judgeTrace(j *job, ch *traceChunk) {
	ctx := c.ctx
	if j.res == nil || j.err != nil {
		return
	}
	if j.res.Violated != "" {
		ctx.ToolError("%s: trace spec reported %s: %s", j.name, j.res.Violated, j.res.Trace)
		return
	}
	done := false
	for _, p := range j.res.Printed {
		switch {
		case strings.HasPrefix(p, "DONE "):
			f := strings.Fields(p)
			if len(f) == 4 {
				n, _ := strconv.Atoi(f[1])
				skip, _ := strconv.Atoi(f[3])
				if n == len(ch.lines) {
					done = true
				}
				ctx.AddTraces(int64(n - skip))
				if skip > 0 {
					ctx.ToolError("%s: %d recorded descriptors are outside the spec's domain (generator bug)", j.name, skip)
				}
			}
		case strings.HasPrefix(p, "BAD "):
			f := strings.SplitN(p, " ", 4)
			if len(f) < 4 {
				continue
			}
			n, _ := strconv.Atoi(f[1])
			if n < 1 || n > len(ch.lines) {
				continue
			}
			ln := ch.lines[n-1]
			rep := map[string]interface{}{"kind": "convert", "mode": "M3", "g": ln.g, "o": D{"lc": ln.lc, "tf": ln.tf},
				"observed": ln.enc, "spec_says": json.RawMessage(f[3])}
			switch f[2] {
			case "convert":
				var x map[string]interface{}
				d := json.NewDecoder(strings.NewReader(f[3]))
				d.UseNumber()
				feature := "unlocated"
				if err := d.Decode(&x); err == nil {
					if sv, err := parseSV(x); err == nil {
						rep["expected"] = svJSON(sv)
						feature = convertFeature(ln.g, ln.lc, ln.tf, sv, ln.obs)
					}
				}
				ctx.Violation(core.Sig{Family: famConvert, Feature: feature},
					fmt.Sprintf("TLC rejects the recorded conversion of %s: observed %s, spec %s", canon(ln.g), show(ln.obs), f[3]), rep)
			case "truthy":
				t := ln.truthy
				rep["kind"] = "truthy"
				rep["value"] = ln.enc
				rep["expected_truthy"] = !t
				ctx.Violation(core.Sig{Family: famLaws, Feature: fmt.Sprintf("truthy:%s:observed=%v", valFeature(ln.obs), t)},
					fmt.Sprintf("TLC rejects the recorded truthiness of %s: observed %v", show(ln.obs), t), rep)
			case "text":
				rep["kind"] = "string"
				rep["value"] = ln.enc
				ctx.Violation(core.Sig{Family: famLaws, Feature: "string:" + tagOf(ln.obs) + ":wrong-text"},
					fmt.Sprintf("TLC rejects the recorded text of %s: spec %s", show(ln.obs), f[3]), rep)
			}
		}
	}
	if !done {
		ctx.ToolError("%s: trace validation did not consume the whole trace (%d lines)", j.name, len(ch.lines))
	}
}
