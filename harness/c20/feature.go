package c20

import (
	"fmt"
	"sort"
	"strings"
	"unicode"
	"unicode/utf8"

	"github.com/robfig/soy/data"
)

// Structural signatures of failing cases. A feature names the construct at
// which the real code and the spec part ways (found by walking descriptor,
// expected value and observed value together), never the text of an output.

// descKind names a descriptor node.
func descKind(d D) string {
	switch g := dstr(d, "g"); g {
	case "int":
		return "int:" + dstr(d, "kind")
	case "float":
		if s, ok := d["sym"].(string); ok {
			return "float:" + dstr(d, "kind") + "=" + s
		}
		return "float:" + dstr(d, "kind")
	case "str":
		if dbool(d, "named") {
			return "str:named"
		}
		return "str"
	case "slice", "map":
		if dbool(d, "nil") {
			return "nil" + g
		}
		return g
	case "ptr":
		if dbool(d, "nil") {
			to := dstr(d, "to")
			if strings.HasPrefix(to, "marshaler:") {
				to = "marshaler" // one defect whatever the marshaler type
			}
			return "nilptr->" + to
		}
		return "ptr"
	case "iface":
		if dbool(d, "nil") {
			return "niliface"
		}
		return "iface"
	case "marshaler":
		if ptrRecv[dstr(d, "ty")] {
			return "marshaler(pointer-receiver):" + dstr(d, "ty")
		}
		return "marshaler:" + dstr(d, "ty")
	case "struct":
		if ty := dstr(d, "ty"); ty != "" {
			return "struct:" + ty
		}
		return "struct:generated"
	case "value":
		if x, ok := asD(d["v"]); ok {
			return "value:" + dstr(x, "t")
		}
		return "value"
	default:
		return g
	}
}

func lowerFirst(s string) string {
	r, n := utf8.DecodeRuneInString(s)
	if n == 0 {
		return s
	}
	return string(unicode.ToLower(r)) + s[n:]
}

// convertFeature locates the first difference between the expected value and
// the observed one and names the descriptor node responsible.
func convertFeature(d D, lc bool, tf string, exp *SV, got data.Value) string {
	return locate(d, lc, tf, exp, got, 0)
}

func locate(d D, lc bool, tf string, exp *SV, got data.Value, indir int) string {
	leaf := func() string {
		k := descKind(d)
		if strings.HasPrefix(k, "marshaler:") && indir >= 2 {
			return "marshaler-ignored-behind-indirection"
		}
		if strings.HasPrefix(k, "marshaler(pointer-receiver):") && indir >= 1 {
			// reached through a pointer, so the pointer implements Marshaler
			return "pointer-receiver-marshaler-ignored:through-pointer"
		}
		if k == "time" && tf == "empty" {
			return "time:tf=empty:not-iso8601"
		}
		return fmt.Sprintf("%s:exp=%s:got=%s", k, exp.T, tagOf(got))
	}
	switch dstr(d, "g") {
	case "ptr", "iface":
		if !dbool(d, "nil") {
			if x, ok := asD(d["v"]); ok {
				if _, isNull := got.(data.Null); isNull && exp.T != "null" && dstr(x, "g") != "marshaler" {
					// a non-nil pointer chain that came out as null: the defect is in
					// the dereferencing, whatever the pointee is
					n := indir + 1
					for y := x; (dstr(y, "g") == "ptr" || dstr(y, "g") == "iface") && !dbool(y, "nil"); n++ {
						z, ok := asD(y["v"])
						if !ok {
							break
						}
						y = z
					}
					return fmt.Sprintf("indirection-depth=%d:not-dereferenced:got=null", n)
				}
				return locate(x, lc, tf, exp, got, indir+1)
			}
		}
		return leaf()
	case "slice", "array":
		xs, _ := seqOf(d["v"])
		l, ok := got.(data.List)
		if exp.T != "list" || !ok || len(l) != len(exp.L) || len(xs) != len(l) {
			return leaf()
		}
		for i := range xs {
			if mismatch(exp.L[i], l[i], "") != "" {
				return locate(xs[i], lc, tf, exp.L[i], l[i], 0)
			}
		}
		return leaf()
	case "map":
		m, _ := mapOf(d["v"])
		gm, ok := got.(data.Map)
		if exp.T != "map" || !ok || !sameKeys(exp.M, gm) {
			return leaf()
		}
		for _, k := range svKeys(exp.M) {
			if x, has := m[k]; has && mismatch(exp.M[k], gm[k], "") != "" {
				return locate(x, lc, tf, exp.M[k], gm[k], 0)
			}
		}
		return leaf()
	case "struct":
		gm, ok := got.(data.Map)
		if exp.T != "map" || !ok {
			return leaf()
		}
		fs, _ := fieldsOf(d["v"])
		for _, f := range fs {
			t := f.Val
			if dstr(t, "g") == "ptr" && !dbool(t, "nil") {
				t, _ = asD(t["v"])
			}
			if f.Emb && dstr(t, "g") == "marshaler" && !sameKeys(exp.M, gm) {
				return descKind(d) + ":promoted-marshaler"
			}
		}
		if !sameKeys(exp.M, gm) {
			// which field's key is wrong?
			for _, f := range fs {
				if !isExportedName(f.Name) {
					if _, has := gm[f.Name]; has {
						return descKind(d) + ":unexported-field-present"
					}
					continue
				}
				want := f.Name
				if lc {
					want = lowerFirst(f.Name)
				}
				if _, has := gm[want]; !has {
					emb := ""
					if f.Emb {
						emb = "embedded-"
					}
					if _, up := gm[f.Name]; up && lc {
						return descKind(d) + ":" + emb + "field-key-not-lowerCamel"
					}
					if _, low := gm[lowerFirst(f.Name)]; low && !lc {
						return descKind(d) + ":" + emb + "field-key-lowered-without-LowerCamel"
					}
					return descKind(d) + ":" + emb + "field-missing"
				}
			}
			return descKind(d) + ":extra-key"
		}
		for _, f := range fs {
			if !isExportedName(f.Name) {
				continue
			}
			k := f.Name
			if lc {
				k = lowerFirst(f.Name)
			}
			if e, has := exp.M[k]; has && mismatch(e, gm[k], "") != "" {
				return locate(f.Val, lc, tf, e, gm[k], 0)
			}
		}
		return leaf()
	}
	return leaf()
}

// shrinkPanic returns a minimal sub-descriptor of d on which the converter
// still panics.
func shrinkPanic(d D, o data.StructOptions) D {
	for _, k := range kids(d) {
		rv, err := build(k)
		if err != nil {
			continue
		}
		if _, p := convert(o, toArg(rv)); p != nil {
			return shrinkPanic(k, o)
		}
	}
	return d
}

// panicFeature names the minimal panicking sub-descriptor.
func panicFeature(d D, o data.StructOptions) string {
	return "panic:" + descKind(shrinkPanic(d, o))
}

// valFeature names a Soy value for the signatures of the value laws.
func valFeature(dv data.Value) string {
	switch x := dv.(type) {
	case data.Int:
		if x == 0 {
			return "int=0"
		}
	case data.Float:
		f := float64(x)
		switch {
		case f != f:
			return "float=NaN"
		case f == 0:
			return "float=0"
		case f > 1e308 || f < -1e308:
			return "float=Inf"
		}
	case data.String:
		if x == "" {
			return "str=empty"
		}
	case data.Bool:
		return fmt.Sprintf("bool=%v", bool(x))
	case data.List:
		if len(x) == 0 {
			return "list=empty"
		}
	case data.Map:
		if len(x) == 0 {
			return "map=empty"
		}
	}
	return tagOf(dv)
}

func pairFeature(a, b data.Value) string {
	ks := []string{valFeature(a), valFeature(b)}
	sort.Strings(ks)
	return ks[0] + "~" + ks[1]
}
