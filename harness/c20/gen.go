package c20

import (
	"math/rand"
	"strconv"
)

// generator produces random abstract Go values (descriptors) of bounded
// depth inside the domain of SoyData.tla: every integer and float kind with
// boundary values, typed nils, interface variables, times, typed and untyped
// slices and maps, generated (reflect.StructOf) and declared struct types
// with embedded / unexported / tagged fields, marshalers and data.Values.
type generator struct {
	r *rand.Rand
}

type intRange struct {
	kind     string
	min, max int64
}

var intRanges = []intRange{
	{"int", -1 << 63, 1<<63 - 1}, {"int8", -128, 127}, {"int16", -32768, 32767},
	{"int32", -1 << 31, 1<<31 - 1}, {"int64", -1 << 63, 1<<63 - 1}, {"duration", -1 << 63, 1<<63 - 1},
	{"uint", 0, 1<<63 - 1}, {"uint8", 0, 255}, {"uint16", 0, 65535}, {"uint32", 0, 1<<32 - 1},
	{"uint64", 0, 1<<63 - 1}, // 2^63.. is outside "JSON-like"
}

func dInt(kind string, n int64) D {
	if n > -smallLimit && n < smallLimit {
		return D{"g": "int", "kind": kind, "v": n}
	}
	return D{"g": "int", "kind": kind, "big": strconv.FormatInt(n, 10)}
}

func (g *generator) intOfKind(k intRange) D {
	var n int64
	switch g.r.Intn(8) {
	case 0:
		n = 0
	case 1:
		n = k.min
	case 2:
		n = k.max
	case 3:
		n = 1
	case 4:
		if k.min < 0 {
			n = -1
		} else {
			n = k.max/2 + 1 // above the signed range of the same width
		}
	case 5:
		n = int64(g.r.Intn(200)) - 20
	default:
		span := uint64(k.max - k.min)
		if span == 0 || k.max-k.min < 0 {
			n = int64(g.r.Uint64())
			if k.min == 0 && n < 0 {
				n = -(n + 1)
			}
		} else {
			n = k.min + int64(g.r.Uint64()%(span+1))
		}
	}
	if n < k.min {
		n = k.min
	}
	if n > k.max {
		n = k.max
	}
	return dInt(k.kind, n)
}

func (g *generator) int() D { return g.intOfKind(intRanges[g.r.Intn(len(intRanges))]) }

func (g *generator) floatOfKind(kind string) D {
	if g.r.Intn(5) == 0 {
		return D{"g": "float", "kind": kind, "sym": []string{"nan", "pinf", "ninf", "nzero"}[g.r.Intn(4)]}
	}
	var num, sh int64
	switch g.r.Intn(4) {
	case 0:
		num, sh = 0, 0
	case 1:
		num, sh = int64(g.r.Intn(41)-20), 0
	default:
		num, sh = int64(g.r.Intn(1<<21))-(1<<20), int64(g.r.Intn(11))
	}
	for sh > 0 && num%2 == 0 {
		num, sh = num/2, sh-1
	}
	return D{"g": "float", "kind": kind, "num": num, "sh": sh}
}

func (g *generator) float() D { return g.floatOfKind([]string{"float32", "float64"}[g.r.Intn(2)]) }

var genStrings = []string{"", "a", "0", "false", "null", "<b>x</b>", "hello world", "é", "Ünï", "a\"b", "日本"}

func (g *generator) str() D {
	d := D{"g": "str", "v": genStrings[g.r.Intn(len(genStrings))]}
	if g.r.Intn(4) == 0 {
		d["named"] = true
	}
	return d
}

func (g *generator) time() D { return D{"g": "time", "v": []string{"jan1", "nov10", "leap"}[g.r.Intn(3)]} }

func (g *generator) marshaler() D {
	switch g.r.Intn(10) {
	case 5, 6:
		return D{"g": "marshaler", "ty": "pmoney", "a": D{"cents": g.r.Intn(100000), "cur": []string{"EUR", "", "é"}[g.r.Intn(3)]}}
	case 7:
		return D{"g": "marshaler", "ty": "pint", "a": D{"n": g.r.Intn(100)}}
	case 8, 9:
		res := g.soyValue(1)
		if g.r.Intn(8) == 0 {
			res = D{"t": "gonil"}
		}
		return D{"g": "marshaler", "ty": []string{"many", "pany"}[g.r.Intn(2)], "a": D{"v": res}}
	}
	switch g.r.Intn(5) {
	case 0:
		return D{"g": "marshaler", "ty": "mint", "a": D{"n": g.r.Intn(100)}}
	case 1:
		return D{"g": "marshaler", "ty": "mnull", "a": D{"n": 0}}
	case 2:
		return D{"g": "marshaler", "ty": "mlist", "a": D{"n": g.r.Intn(9)}}
	}
	return D{"g": "marshaler", "ty": "idurl", "a": D{"id": g.r.Intn(1000), "url": genStrings[g.r.Intn(len(genStrings))]}}
}

// soyValue: a random data.Value in the tagged encoding.
func (g *generator) soyValue(depth int) D {
	n := 8
	if depth > 0 {
		n = 10
	}
	switch g.r.Intn(n) {
	case 0:
		return D{"t": "undef"}
	case 1:
		return D{"t": "null"}
	case 2:
		return D{"t": "bool", "v": g.r.Intn(2) == 0}
	case 3:
		return encodeInt(g.int64())
	case 4:
		return encodeInt(int64(g.r.Intn(5)))
	case 5:
		f := g.float()
		if s, ok := f["sym"].(string); ok {
			return D{"t": "fsym", "v": s}
		}
		return D{"t": "float", "num": f["num"], "sh": f["sh"]}
	case 6, 7:
		return D{"t": "str", "v": genStrings[g.r.Intn(len(genStrings))]}
	case 8:
		xs := []interface{}{}
		for i := g.r.Intn(3); i > 0; i-- {
			xs = append(xs, g.soyValue(depth-1))
		}
		return D{"t": "list", "v": xs}
	default:
		m := map[string]interface{}{}
		for i := g.r.Intn(3); i > 0; i-- {
			m[genKeys[g.r.Intn(len(genKeys))]] = g.soyValue(depth - 1)
		}
		return D{"t": "map", "v": m}
	}
}

func (g *generator) int64() int64 {
	d := g.intOfKind(intRanges[4])
	if b, ok := d["big"].(string); ok {
		n, _ := strconv.ParseInt(b, 10, 64)
		return n
	}
	return d["v"].(int64)
}

func (g *generator) value0() D {
	d := D{"g": "value", "v": g.soyValue(2)}
	if g.r.Intn(3) == 0 {
		d["asvalue"] = true
	}
	return d
}

func (g *generator) leaf() D {
	switch g.r.Intn(12) {
	case 0:
		return D{"g": "nil"}
	case 1:
		return D{"g": "bool", "v": g.r.Intn(2) == 0}
	case 2, 3, 4:
		return g.int()
	case 5, 6:
		return g.float()
	case 7:
		return g.str()
	case 8:
		return g.time()
	case 9:
		return g.marshaler()
	case 10:
		return g.value0()
	default:
		return g.nilPtr()
	}
}

var nilTypes = []string{"int", "bool", "string", "float64", "time", "struct:AInt", "struct:Inner", "slice:int",
	"map:string", "ptr:int", "iface", "marshaler:mint", "marshaler:pmoney", "marshaler:pany", "uint8", "struct:Node"}

func (g *generator) nilPtr() D {
	return D{"g": "ptr", "nil": true, "to": nilTypes[g.r.Intn(len(nilTypes))]}
}

var genKeys = []string{"a", "b", "k", "Key", "zz", "", "x y", "é", "ID"}
var genFieldNames = []string{"A", "Foo", "URL", "ID", "BarBaz", "X1", "HTTPServer", "Élan", "Zed_9", "Ωmega"}
var genTags = []string{"", "", `json:"x"`, `soy:"y" json:"-"`, `json:"A,omitempty"`}

// pointable: a pointer to a data.Value, or to an interface holding one, is
// outside the domain (SoyData!InDomain); so is a pointer to the untyped nil.
func pointable(d D) bool {
	switch dstr(d, "g") {
	case "nil", "value":
		return false
	case "iface":
		if !dbool(d, "nil") {
			if x, ok := asD(d["v"]); ok && dstr(x, "g") == "value" {
				return false
			}
		}
	}
	return true
}

// uniform element generators for typed containers ([]T, map[string]T)
func (g *generator) uniform(depth int) func() D {
	switch g.r.Intn(9) {
	case 0:
		k := intRanges[g.r.Intn(len(intRanges))]
		return func() D { return g.intOfKind(k) }
	case 1:
		k := []string{"float32", "float64"}[g.r.Intn(2)]
		return func() D { return g.floatOfKind(k) }
	case 2:
		return func() D { return D{"g": "str", "v": genStrings[g.r.Intn(len(genStrings))]} }
	case 3:
		return func() D { return D{"g": "bool", "v": g.r.Intn(2) == 0} }
	case 4:
		return g.time
	case 5: // []*int with nils
		return func() D {
			if g.r.Intn(3) == 0 {
				return D{"g": "ptr", "nil": true, "to": "int"}
			}
			return D{"g": "ptr", "nil": false, "v": g.intOfKind(intRanges[0])}
		}
	case 6:
		switch g.r.Intn(3) {
		case 0: // []PMoney: pointer-receiver marshalers by value
			return func() D { return D{"g": "marshaler", "ty": "pmoney", "a": D{"cents": g.r.Intn(1000), "cur": "USD"}} }
		case 1: // []*PMoney with nils
			return func() D {
				if g.r.Intn(4) == 0 {
					return D{"g": "ptr", "nil": true, "to": "marshaler:pmoney"}
				}
				return D{"g": "ptr", "nil": false, "v": D{"g": "marshaler", "ty": "pmoney", "a": D{"cents": g.r.Intn(1000), "cur": "USD"}}}
			}
		}
		return func() D {
			return D{"g": "marshaler", "ty": "idurl", "a": D{"id": g.r.Intn(10), "url": "u"}}
		}
	case 7: // []Inner
		return func() D { return g.declared("Inner", depth-1) }
	default: // []data.Value
		return func() D { return D{"g": "value", "asvalue": true, "v": g.soyValue(1)} }
	}
}

func (g *generator) fld(name string, val D) D {
	return D{"name": name, "emb": false, "tag": "", "val": val}
}

func (g *generator) emb(name string, val D) D {
	return D{"name": name, "emb": true, "tag": "", "val": val}
}

// declared instantiates one of the declared struct types of types.go; the
// field lists mirror the Go declarations exactly (build() checks).
func (g *generator) declared(ty string, depth int) D {
	sub := func() D { return g.value(depth) }
	st := func(ty string, fs ...interface{}) D { return D{"g": "struct", "ty": ty, "v": fs} }
	inner := func() D { return st("Inner", g.fld("X", sub())) }
	switch ty {
	case "AInt":
		return st("AInt", g.fld("A", g.intOfKind(intRanges[0])))
	case "Inner":
		return inner()
	case "AbU":
		return st("AbU", g.fld("A", sub()), g.fld("b", sub()), g.fld("URL", sub()), g.fld("ID", sub()))
	case "OuterE":
		return st("OuterE", g.emb("Inner", inner()), g.fld("Y", sub()))
	case "OuterP":
		if g.r.Intn(3) == 0 {
			return st("OuterP", g.emb("Inner", D{"g": "ptr", "nil": true, "to": "struct:Inner"}), g.fld("Y", sub()))
		}
		return st("OuterP", g.emb("Inner", D{"g": "ptr", "nil": false, "v": inner()}), g.fld("Y", sub()))
	case "OuterU":
		return st("OuterU", g.emb("inner", st("inner", g.fld("Z", sub()))), g.fld("Y", sub()))
	case "OuterS":
		return st("OuterS", g.emb("Inner", inner()), g.fld("X", sub()))
	case "Node": // a finite list of 1..3 nodes
		tail := D{"g": "ptr", "nil": true, "to": "struct:Node"}
		for i := g.r.Intn(3); i > 0; i-- {
			tail = D{"g": "ptr", "nil": false, "v": st("Node", g.fld("Val", g.leaf()), g.fld("Next", tail))}
		}
		return st("Node", g.fld("Val", sub()), g.fld("Next", tail))
	case "OuterMV":
		return st("OuterMV", g.emb("MIDURL", D{"g": "marshaler", "ty": "idurl", "a": D{"id": g.r.Intn(10), "url": "u"}}), g.fld("Y", sub()))
	case "OuterPM":
		return st("OuterPM", g.emb("PMoney", D{"g": "marshaler", "ty": "pmoney", "a": D{"cents": g.r.Intn(1000), "cur": "EUR"}}), g.fld("Y", sub()))
	case "OuterPMP":
		return st("OuterPMP", g.emb("PMoney", D{"g": "ptr", "nil": false, "v": D{"g": "marshaler", "ty": "pmoney", "a": D{"cents": g.r.Intn(1000), "cur": "EUR"}}}), g.fld("Y", sub()))
	default:
		return st("Uni", g.fld("Élan", sub()), g.fld("Ωmega", sub()), g.fld("été", sub()))
	}
}

var declaredNames = []string{"AInt", "Inner", "AbU", "OuterE", "OuterP", "OuterU", "OuterS", "Uni", "OuterMV", "OuterPM", "OuterPMP", "Node"}

// value generates a descriptor of depth <= depth.
func (g *generator) value(depth int) D {
	if depth <= 0 {
		return g.leaf()
	}
	switch g.r.Intn(13) {
	case 0, 1:
		return g.leaf()
	case 2: // pointer
		for {
			t := g.value(depth - 1)
			if pointable(t) {
				return D{"g": "ptr", "nil": false, "v": t}
			}
		}
	case 3: // pointer to an interface variable
		if g.r.Intn(4) == 0 {
			return D{"g": "ptr", "nil": false, "v": D{"g": "iface", "nil": true}}
		}
		for {
			t := g.value(depth - 1)
			if pointable(t) {
				return D{"g": "ptr", "nil": false, "v": D{"g": "iface", "nil": false, "v": t}}
			}
		}
	case 4, 5: // []interface{}
		if g.r.Intn(8) == 0 {
			return D{"g": "slice", "nil": true, "typed": true, "et": []string{"bool", "iface", "int", "ptr:int"}[g.r.Intn(4)], "v": []interface{}{}}
		}
		xs := []interface{}{}
		for i := g.r.Intn(4); i > 0; i-- {
			xs = append(xs, g.value(depth-1))
		}
		if g.r.Intn(6) == 0 { // one shared pointer used twice
			for {
				t := g.value(depth - 1)
				if pointable(t) {
					p := D{"g": "ptr", "nil": false, "share": true, "v": t}
					xs = append(xs, p, p)
					break
				}
			}
		}
		return D{"g": "slice", "nil": false, "typed": false, "v": xs}
	case 6: // []T
		u := g.uniform(depth)
		xs := []interface{}{}
		for i := 1 + g.r.Intn(3); i > 0; i-- {
			xs = append(xs, u())
		}
		return D{"g": "slice", "nil": false, "typed": true, "v": xs}
	case 7, 8: // map[string]interface{} / map[MyStr]interface{}
		if g.r.Intn(8) == 0 {
			return D{"g": "map", "nil": true, "typed": true, "et": []string{"string", "iface", "bool"}[g.r.Intn(3)], "v": map[string]interface{}{}}
		}
		m := map[string]interface{}{}
		for i := g.r.Intn(4); i > 0; i-- {
			m[genKeys[g.r.Intn(len(genKeys))]] = g.value(depth - 1)
		}
		d := D{"g": "map", "nil": false, "typed": false, "v": m}
		if g.r.Intn(5) == 0 {
			d["nk"] = true
		}
		return d
	case 9: // map[string]T
		u := g.uniform(depth)
		m := map[string]interface{}{}
		for i := 1 + g.r.Intn(3); i > 0; i-- {
			m[genKeys[g.r.Intn(len(genKeys))]] = u()
		}
		return D{"g": "map", "nil": false, "typed": true, "v": m}
	case 10, 11: // generated struct type
		n := 1 + g.r.Intn(3)
		perm := g.r.Perm(len(genFieldNames))
		fs := []interface{}{}
		for i := 0; i < n; i++ {
			fs = append(fs, D{"name": genFieldNames[perm[i]], "emb": false, "tag": genTags[g.r.Intn(len(genTags))], "val": g.value(depth - 1)})
		}
		if g.r.Intn(3) == 0 { // an unexported field (stays at its zero value: it must be skipped anyway)
			fs = append(fs, D{"name": "hidden", "emb": false, "tag": "", "val": g.intOfKind(intRanges[0])})
		}
		return D{"g": "struct", "ty": "", "v": fs}
	default:
		return g.declared(declaredNames[g.r.Intn(len(declaredNames))], depth-1)
	}
}
