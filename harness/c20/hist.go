package c20

import (
	"bytes"
	"encoding/json"
	"fmt"
	"os"
	"os/exec"
	"reflect"
	"strings"
	"sync"
	"time"

	"verif/c20/pkga"
	"verif/c20/pkgb"
	v1 "verif/c20/v1/models"
	v2 "verif/c20/v2/models"
	"verif/core"
)

// Conversion histories (SoyDataHist.tla): conversion must be a function of
// the value alone. The types below are DISTINCT struct types that share a
// printed name: eight function-local types all called "row" (so
// reflect.Type.String() is "c20.row" for each), v1/models.Row and
// v2/models.Row (both print "models.Row"), pkga.Row / pkgb.Row (same bare
// name). Their field lists mirror SoyData!HistStructs; build() checks that.

func rowType1() reflect.Type {
	type row struct {
		Title string
		Pages int
	}
	return reflect.TypeOf(row{})
}

func rowType2() reflect.Type {
	type row struct {
		Name  string
		Email string
		Admin bool
	}
	return reflect.TypeOf(row{})
}

func rowType3() reflect.Type {
	type row struct {
		Pages int
		Title string
	}
	return reflect.TypeOf(row{})
}

func rowType4() reflect.Type {
	type row struct {
		Title int
		Pages string
	}
	return reflect.TypeOf(row{})
}

func rowType5() reflect.Type {
	type row struct {
		Title string
		pages int
	}
	return reflect.TypeOf(row{})
}

func rowType6() reflect.Type {
	type row struct {
		Title string `json:"t"`
		Pages int    `soy:"p"`
	}
	return reflect.TypeOf(row{})
}

func rowType7() reflect.Type {
	type row struct{ A string }
	return reflect.TypeOf(row{})
}

func rowType8() reflect.Type {
	type row struct {
		hidden int
		Title  string
		Pages  int
	}
	return reflect.TypeOf(row{})
}

func init() {
	for k, t := range map[string]reflect.Type{
		"row1": rowType1(), "row2": rowType2(), "row3": rowType3(), "row4": rowType4(),
		"row5": rowType5(), "row6": rowType6(), "row7": rowType7(), "row8": rowType8(),
		"v1.Row": reflect.TypeOf(v1.Row{}), "v2.Row": reflect.TypeOf(v2.Row{}),
		"pkga.Row": reflect.TypeOf(pkga.Row{}), "pkgb.Row": reflect.TypeOf(pkgb.Row{}),
	} {
		declared[k] = t
	}
	// child mode: run one history in this fresh process and exit (before
	// core.Main does anything)
	if os.Getenv("C20_HISTORY_CHILD") == "1" {
		os.Exit(historyChild())
	}
	// worker mode (worker.go): serve tasks from stdin and exit
	if os.Getenv("C20_WORKER") == "1" {
		os.Exit(workerMain())
	}
}

type histStep struct {
	G D `json:"g"`
	O D `json:"o"`
}

type histResult struct {
	V     D      `json:"v,omitempty"`
	Panic string `json:"panic,omitempty"`
	Err   string `json:"err,omitempty"`
}

// historyChild reads a history (JSON array of steps) from stdin, performs the
// conversions in order with the real code and prints one result per step.
func historyChild() int {
	var steps []histStep
	d := json.NewDecoder(os.Stdin)
	d.UseNumber()
	if err := d.Decode(&steps); err != nil {
		fmt.Fprintln(os.Stderr, "history child:", err)
		return 2
	}
	out := make([]histResult, len(steps))
	for i, st := range steps {
		rv, err := build(st.G)
		if err != nil {
			out[i].Err = err.Error()
			continue
		}
		lc, tf, err := parseOpts(st.O)
		if err != nil {
			out[i].Err = err.Error()
			continue
		}
		got, p := convert(structOpts(lc, tf), toArg(rv))
		if p != nil {
			out[i].Panic = fmt.Sprint(p)
		} else {
			out[i].V = encode(got)
		}
	}
	b, _ := json.Marshal(out)
	os.Stdout.Write(b)
	return 0
}

// errNoReturn: the history's process did not finish within the deadline.
var errNoReturn = fmt.Errorf("history child: no return within the deadline")

const historyDeadline = 15 * time.Second

// runHistory runs the steps in a fresh process of this very binary.
func runHistory(steps []histStep) ([]histResult, error) {
	exe, err := os.Executable()
	if err != nil {
		return nil, err
	}
	in, _ := json.Marshal(steps)
	cmd := exec.Command(exe)
	for _, kv := range os.Environ() {
		if !strings.HasPrefix(kv, "C20_WORKER=") {
			cmd.Env = append(cmd.Env, kv)
		}
	}
	cmd.Env = append(cmd.Env, "C20_HISTORY_CHILD=1")
	cmd.Stdin = bytes.NewReader(in)
	var stdout, stderr bytes.Buffer
	cmd.Stdout, cmd.Stderr = &stdout, &stderr
	done := make(chan error, 1)
	if err := cmd.Start(); err != nil {
		return nil, err
	}
	go func() { done <- cmd.Wait() }()
	select {
	case err := <-done:
		if err != nil {
			return nil, fmt.Errorf("history child: %v: %s", err, stderr.String())
		}
	case <-time.After(historyDeadline):
		cmd.Process.Kill()
		return nil, errNoReturn
	}
	var res []histResult
	d := json.NewDecoder(&stdout)
	d.UseNumber()
	if err := d.Decode(&res); err != nil {
		return nil, fmt.Errorf("history child output: %v: %s", err, stdout.String())
	}
	if len(res) != len(steps) {
		return nil, fmt.Errorf("history child: %d results for %d steps", len(res), len(steps))
	}
	return res, nil
}

// svEqual: structural equality of two spec values.
func svEqual(a, b *SV) bool {
	if a.T != b.T || a.B != b.B || a.N != b.N || a.Big != b.Big || a.Num != b.Num || a.Sh != b.Sh ||
		a.Sym != b.Sym || a.S != b.S || a.Iso != b.Iso || len(a.L) != len(b.L) || len(a.M) != len(b.M) {
		return false
	}
	for i := range a.L {
		if !svEqual(a.L[i], b.L[i]) {
			return false
		}
	}
	for k, x := range a.M {
		y, ok := b.M[k]
		if !ok || !svEqual(x, y) {
			return false
		}
	}
	return true
}

type history struct {
	steps []histStep
	exp   []*SV
}

// replayHistories runs every exported history in a fresh process and judges
// each step against the spec and against the same conversion done alone.
func (c *checker) replayHistories(j *job) {
	ctx := c.ctx
	if j.res == nil || j.err != nil {
		return
	}
	if j.res.Violated != "" {
		ctx.ToolError("%s: the reference model violates %s (spec bug): %s", j.name, j.res.Violated, firstCex(j.res))
		return
	}
	lines, err := j.res.PrintedJSON()
	if err != nil {
		ctx.ToolError("%s: %v", j.name, err)
		return
	}
	var hs []*history
	alone := map[string]histStep{}
	for _, ln := range lines {
		raw, _ := ln["steps"].([]interface{})
		h := &history{}
		for _, x := range raw {
			st, ok := asD(x)
			if !ok {
				continue
			}
			g, _ := asD(st["g"])
			o, _ := asD(st["o"])
			v, _ := asD(st["v"])
			sv, err := parseSV(v)
			if err != nil || g == nil || o == nil {
				ctx.ToolError("%s: bad history step: %v", j.name, err)
				return
			}
			h.steps = append(h.steps, histStep{G: g, O: o})
			h.exp = append(h.exp, sv)
			alone[canon(g)+"|"+canon(o)] = histStep{G: g, O: o}
		}
		hs = append(hs, h)
	}
	if len(hs) == 0 {
		ctx.ToolError("%s: no history exported", j.name)
		return
	}
	// the conversions done alone (each first in its own process)
	aloneRes := map[string]histResult{}
	var mu sync.Mutex
	var wg sync.WaitGroup
	sem := make(chan struct{}, 16)
	toolErrs := 0
	run := func(steps []histStep, done func([]histResult)) {
		wg.Add(1)
		go func() {
			defer wg.Done()
			sem <- struct{}{}
			defer func() { <-sem }()
			res, err := runHistory(steps)
			if err == errNoReturn { // confirm in another fresh process
				if res, err = runHistory(steps); err == errNoReturn {
					last := steps[len(steps)-1]
					mu.Lock()
					ctx.Violation(core.Sig{Family: "history", Feature: "no-return:" + skeleton(last.G)},
						fmt.Sprintf("a process converting %d values in a row does not finish within %v (twice); last value %s", len(steps), historyDeadline, canon(last.G)),
						map[string]interface{}{"kind": "history", "steps": steps, "step": len(steps) - 1, "no_return": true})
					mu.Unlock()
					return
				}
			}
			mu.Lock()
			defer mu.Unlock()
			if err != nil {
				toolErrs++
				if toolErrs <= 3 {
					ctx.ToolError("%v", err)
				}
				return
			}
			done(res)
		}()
	}
	for k, st := range alone {
		k := k
		run([]histStep{st}, func(r []histResult) { aloneRes[k] = r[0] })
	}
	wg.Wait()
	results := make([][]histResult, len(hs))
	for i, h := range hs {
		i := i
		run(h.steps, func(r []histResult) { results[i] = r })
	}
	wg.Wait()
	judged := 0
	for i, h := range hs {
		res := results[i]
		if res == nil {
			continue
		}
		ctx.AddTraces(1)
		for k, st := range h.steps {
			ctx.AddEvals(1)
			judged++
			r := res[k]
			pos := "first"
			if k > 0 {
				pos = fmt.Sprintf("after-%d-conversions", k)
			}
			prefix := ""
			if k > 0 {
				prefix = descKind(structOf(h.steps[k-1].G)) + "-then-"
			}
			rep := map[string]interface{}{"kind": "history", "steps": h.steps, "step": k, "expected": svJSON(h.exp[k]), "observed": r}
			if r.Err != "" {
				ctx.ToolError("history step cannot be built: %s", r.Err)
				continue
			}
			var got *SV
			if r.Panic == "" {
				if got, err = parseSV(r.V); err != nil {
					ctx.ToolError("history child value: %v", err)
					continue
				}
			}
			a, haveAlone := aloneRes[canon(st.G)+"|"+canon(st.O)]
			okSpec := got != nil && svEqual(got, h.exp[k])
			okAlone := true
			if haveAlone && a.Err == "" {
				if (a.Panic == "") != (r.Panic == "") {
					okAlone = false
				} else if a.Panic == "" {
					if av, err := parseSV(a.V); err == nil && got != nil && !svEqual(av, got) {
						okAlone = false
					}
				}
			}
			if okSpec && okAlone {
				continue
			}
			if k == 0 && !okSpec {
				// wrong even as the first conversion of a process: an ordinary
				// conversion defect (reported by the conversion cases as well)
				ctx.Violation(core.Sig{Family: famConvert, Feature: "history:first-conversion:" + descKind(structOf(st.G))},
					fmt.Sprintf("first conversion of a fresh process: %s gives %s, expected %s", canon(st.G), showRes(r), svText(h.exp[k])), rep)
				continue
			}
			ctx.Violation(core.Sig{Family: "history", Feature: "conversion-depends-on-earlier-conversions:" + collision(h.steps[:k], st)},
				fmt.Sprintf("converting %s %s (%s%s) gives %s; alone it gives %s; expected %s",
					canon(st.G), pos, prefix, descKind(structOf(st.G)), showRes(r), showRes(a), svText(h.exp[k])), rep)
		}
		if len(ctx.Samples) < 8 && i == len(hs)/2 {
			ctx.Sample(map[string]interface{}{"mode": "history", "steps": h.steps, "observed": res})
		}
	}
	ctx.Extra["histories_replayed_in_fresh_processes"] = len(hs)
	ctx.Extra["history_steps_judged"] = judged
}

// printedName is what reflect.Type.String() prints for a declared type of
// the history family (SoyData!PrintedName).
func printedName(ty string) string {
	if t, ok := declared[ty]; ok {
		return t.String()
	}
	return ty
}

// collision says how the type of st collides with a type converted earlier.
func collision(prefix []histStep, st histStep) string {
	ty := dstr(structOf(st.G), "ty")
	res := "unrelated-types"
	for _, p := range prefix {
		pty := dstr(structOf(p.G), "ty")
		if pty == ty {
			continue
		}
		if printedName(pty) == printedName(ty) {
			return "same-printed-name"
		}
		if a, b := declared[pty], declared[ty]; a != nil && b != nil && a.Name() == b.Name() {
			res = "same-bare-name"
		}
	}
	return res
}

func showRes(r histResult) string {
	if r.Panic != "" {
		return "PANIC(" + r.Panic + ")"
	}
	b, _ := json.Marshal(r.V)
	return string(b)
}

// structOf finds the struct descriptor inside a history value.
func structOf(d D) D {
	if dstr(d, "g") == "struct" {
		return d
	}
	for _, k := range kids(d) {
		return structOf(k)
	}
	return d
}
