// Package pkga: Row shares its bare name (reflect.Type.Name) with pkgb.Row.
package pkga

// Row has one int field.
type Row struct{ X int }
