// Package pkgb: Row shares its bare name (reflect.Type.Name) with pkga.Row.
package pkgb

// Row has a string X and one more field.
type Row struct {
	X string
	Y int
}
