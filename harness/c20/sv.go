package c20

import (
	"fmt"
	"math"
	"sort"
	"strconv"
	"strings"
	"time"

	"github.com/robfig/soy/data"
)

// SV is a Soy value of the spec (SoyValues + the extensions of SoyData).
type SV struct {
	T   string // undef null bool int bigint float fsym str list map
	B   bool
	N   int64  // int
	Big string // bigint: decimal digits
	Num int64  // float: Num / 2^Sh
	Sh  int64
	Sym string // fsym: nan pinf ninf nzero
	S   string
	Iso string // str given only as "ISO-8601 text of this instant"
	L   []*SV
	M   map[string]*SV
}

func parseSV(x D) (*SV, error) {
	v := &SV{T: dstr(x, "t")}
	switch v.T {
	case "undef", "null", "gonil":
	case "bool":
		v.B = dbool(x, "v")
	case "int":
		n, ok := toI64(x["v"])
		if !ok {
			return nil, fmt.Errorf("int without value")
		}
		v.N = n
	case "bigint":
		v.Big = dstr(x, "v")
		if _, err := strconv.ParseInt(v.Big, 10, 64); err != nil {
			return nil, fmt.Errorf("bigint %q outside int64", v.Big)
		}
	case "float":
		var ok1, ok2 bool
		v.Num, ok1 = toI64(x["num"])
		v.Sh, ok2 = toI64(x["sh"])
		if !ok1 || !ok2 {
			return nil, fmt.Errorf("float without num/sh")
		}
	case "fsym":
		v.Sym = dstr(x, "v")
	case "str":
		if iso, ok := x["iso"].(string); ok {
			v.Iso = iso
		} else {
			v.S = dstr(x, "v")
		}
	case "list":
		xs, err := seqOf(x["v"])
		if err != nil {
			return nil, err
		}
		v.L = make([]*SV, len(xs))
		for i, e := range xs {
			if v.L[i], err = parseSV(e); err != nil {
				return nil, err
			}
		}
	case "map":
		m, err := mapOf(x["v"])
		if err != nil {
			return nil, err
		}
		v.M = map[string]*SV{}
		for k, e := range m {
			if v.M[k], err = parseSV(e); err != nil {
				return nil, err
			}
		}
	default:
		return nil, fmt.Errorf("unknown value tag %q", v.T)
	}
	return v, nil
}

// toData builds the real data.Value a spec value denotes.
func (v *SV) toData() (data.Value, error) {
	switch v.T {
	case "undef":
		return data.Undefined{}, nil
	case "null":
		return data.Null{}, nil
	case "bool":
		return data.Bool(v.B), nil
	case "int":
		return data.Int(v.N), nil
	case "bigint":
		n, _ := strconv.ParseInt(v.Big, 10, 64)
		return data.Int(n), nil
	case "float":
		return data.Float(math.Ldexp(float64(v.Num), -int(v.Sh))), nil
	case "fsym":
		switch v.Sym {
		case "nan":
			return data.Float(math.NaN()), nil
		case "pinf":
			return data.Float(math.Inf(1)), nil
		case "ninf":
			return data.Float(math.Inf(-1)), nil
		case "nzero":
			return data.Float(math.Copysign(0, -1)), nil
		}
	case "str":
		if v.Iso == "" {
			return data.String(v.S), nil
		}
	case "list":
		l := make(data.List, len(v.L))
		for i, e := range v.L {
			x, err := e.toData()
			if err != nil {
				return nil, err
			}
			l[i] = x
		}
		return l, nil
	case "map":
		m := make(data.Map, len(v.M))
		for k, e := range v.M {
			x, err := e.toData()
			if err != nil {
				return nil, err
			}
			m[k] = x
		}
		return m, nil
	}
	return nil, fmt.Errorf("no data.Value for %+v", v)
}

// tagOf names the kind of a real value in the spec's vocabulary.
func tagOf(dv data.Value) string {
	switch x := dv.(type) {
	case data.Undefined:
		return "undef"
	case data.Null:
		return "null"
	case data.Bool:
		return "bool"
	case data.Int:
		return "int"
	case data.Float:
		f := float64(x)
		if math.IsNaN(f) {
			return "float=NaN"
		}
		return "float"
	case data.String:
		return "str"
	case data.List:
		return "list"
	case data.Map:
		return "map"
	case nil:
		return "nil-interface"
	}
	return fmt.Sprintf("gotype(%T)", dv)
}

// iso8601 layouts accepted for "an ISO-8601 text of the instant"
var isoLayouts = []string{
	time.RFC3339Nano, time.RFC3339, "2006-01-02T15:04:05Z0700", "2006-01-02T15:04:05.999999999Z0700",
	"20060102T150405Z0700", "2006-01-02T15:04:05", "2006-01-02 15:04:05Z07:00", "2006-01-02T15:04Z07:00",
}

func isISOOf(s string, t time.Time) bool {
	for _, l := range isoLayouts {
		if p, err := time.Parse(l, s); err == nil && p.Unix() == t.Unix() {
			return true
		}
	}
	return false
}

// mismatch compares a real value with a spec value; "" means equal, otherwise
// a path and what differs.
func mismatch(v *SV, dv data.Value, path string) string {
	bad := func(format string, a ...interface{}) string {
		if path == "" {
			path = "."
		}
		return path + ": " + fmt.Sprintf(format, a...)
	}
	switch v.T {
	case "gonil": // MarshalValue returned nil and the converter hands it on
		if dv != nil {
			return bad("want the nil interface, got %s", show(dv))
		}
	case "undef":
		if _, ok := dv.(data.Undefined); !ok {
			return bad("want undefined, got %s", show(dv))
		}
	case "null":
		if _, ok := dv.(data.Null); !ok {
			return bad("want null, got %s", show(dv))
		}
	case "bool":
		if x, ok := dv.(data.Bool); !ok || bool(x) != v.B {
			return bad("want bool %v, got %s", v.B, show(dv))
		}
	case "int":
		if x, ok := dv.(data.Int); !ok || int64(x) != v.N {
			return bad("want int %d, got %s", v.N, show(dv))
		}
	case "bigint":
		if x, ok := dv.(data.Int); !ok || strconv.FormatInt(int64(x), 10) != v.Big {
			return bad("want int %s, got %s", v.Big, show(dv))
		}
	case "float":
		want := math.Ldexp(float64(v.Num), -int(v.Sh))
		if x, ok := dv.(data.Float); !ok || float64(x) != want || math.Signbit(float64(x)) != math.Signbit(want) {
			return bad("want float %v, got %s", want, show(dv))
		}
	case "fsym":
		x, ok := dv.(data.Float)
		f := float64(x)
		good := ok && (v.Sym == "nan" && math.IsNaN(f) || v.Sym == "pinf" && math.IsInf(f, 1) ||
			v.Sym == "ninf" && math.IsInf(f, -1) || v.Sym == "nzero" && f == 0 && math.Signbit(f))
		if !good {
			return bad("want float %s, got %s", v.Sym, show(dv))
		}
	case "str":
		x, ok := dv.(data.String)
		if v.Iso != "" {
			if !ok || !isISOOf(string(x), times[v.Iso]) {
				return bad("want an ISO-8601 text of %s, got %s", times[v.Iso].Format(time.RFC3339), show(dv))
			}
		} else if !ok || string(x) != v.S {
			return bad("want string %q, got %s", v.S, show(dv))
		}
	case "list":
		x, ok := dv.(data.List)
		if !ok || len(x) != len(v.L) {
			return bad("want list of %d, got %s", len(v.L), show(dv))
		}
		for i, e := range v.L {
			if m := mismatch(e, x[i], fmt.Sprintf("%s[%d]", path, i)); m != "" {
				return m
			}
		}
	case "map":
		x, ok := dv.(data.Map)
		if !ok {
			return bad("want map, got %s", show(dv))
		}
		if len(x) != len(v.M) || !sameKeys(v.M, x) {
			return bad("want keys %v, got keys %v", svKeys(v.M), dvKeys(x))
		}
		for _, k := range svKeys(v.M) {
			if m := mismatch(v.M[k], x[k], path+"."+k); m != "" {
				return m
			}
		}
	default:
		return bad("unknown spec value %q", v.T)
	}
	return ""
}

func sameKeys(a map[string]*SV, b data.Map) bool {
	for k := range a {
		if _, ok := b[k]; !ok {
			return false
		}
	}
	return len(a) == len(b)
}

func svKeys(m map[string]*SV) []string {
	ks := make([]string, 0, len(m))
	for k := range m {
		ks = append(ks, k)
	}
	sort.Strings(ks)
	return ks
}

func dvKeys(m data.Map) []string {
	ks := make([]string, 0, len(m))
	for k := range m {
		ks = append(ks, k)
	}
	sort.Strings(ks)
	return ks
}

// show prints a real value for messages (never panics).
func show(dv data.Value) (s string) {
	defer func() {
		if r := recover(); r != nil {
			s = fmt.Sprintf("%T(unprintable)", dv)
		}
	}()
	if dv == nil {
		return "nil"
	}
	b := fmt.Sprintf("%#v", dv)
	if len(b) > 200 {
		b = b[:200] + "..."
	}
	return b
}

// encode writes a real value in the tagged encoding TLC reads (M3). Values
// the encoding cannot carry exactly become tags the spec never produces, so
// they are rejected rather than silently altered.
func encode(dv data.Value) D {
	switch x := dv.(type) {
	case nil:
		return D{"t": "gonil"}
	case data.Undefined:
		return D{"t": "undef"}
	case data.Null:
		return D{"t": "null"}
	case data.Bool:
		return D{"t": "bool", "v": bool(x)}
	case data.Int:
		return encodeInt(int64(x))
	case data.Float:
		return encodeFloat(float64(x))
	case data.String:
		return D{"t": "str", "v": string(x)}
	case data.List:
		xs := make([]interface{}, len(x))
		for i, e := range x {
			xs[i] = encode(e)
		}
		return D{"t": "list", "v": xs}
	case data.Map:
		m := map[string]interface{}{}
		for k, e := range x {
			m[k] = encode(e)
		}
		return D{"t": "map", "v": m}
	}
	return D{"t": "gotype", "v": fmt.Sprintf("%T", dv)}
}

const smallLimit = 1 << 30

func encodeInt(n int64) D {
	if n > -smallLimit && n < smallLimit {
		return D{"t": "int", "v": n}
	}
	return D{"t": "bigint", "v": strconv.FormatInt(n, 10)}
}

func encodeFloat(f float64) D {
	switch {
	case math.IsNaN(f):
		return D{"t": "fsym", "v": "nan"}
	case math.IsInf(f, 1):
		return D{"t": "fsym", "v": "pinf"}
	case math.IsInf(f, -1):
		return D{"t": "fsym", "v": "ninf"}
	case f == 0 && math.Signbit(f):
		return D{"t": "fsym", "v": "nzero"}
	}
	if num, sh, ok := dyadic(f); ok {
		return D{"t": "float", "num": num, "sh": sh}
	}
	return D{"t": "floatx", "v": strconv.FormatFloat(f, 'g', -1, 64)}
}

// dyadic writes f as num / 2^sh with num odd or sh = 0, if small enough for
// the spec (|num| < 2^30, sh <= 20).
func dyadic(f float64) (num, sh int64, ok bool) {
	for sh = 0; sh <= 20; sh++ {
		x := math.Ldexp(f, int(sh))
		if x == math.Trunc(x) {
			if math.Abs(x) >= smallLimit {
				return 0, 0, false
			}
			return int64(x), sh, true
		}
	}
	return 0, 0, false
}

// canon is the canonical JSON-ish text of a descriptor (a case identity).
func canon(v interface{}) string {
	var b strings.Builder
	writeCanon(&b, v)
	return b.String()
}

func writeCanon(b *strings.Builder, v interface{}) {
	switch x := v.(type) {
	case map[string]interface{}:
		ks := make([]string, 0, len(x))
		for k := range x {
			ks = append(ks, k)
		}
		sort.Strings(ks)
		b.WriteByte('{')
		for i, k := range ks {
			if i > 0 {
				b.WriteByte(',')
			}
			b.WriteString(strconv.Quote(k))
			b.WriteByte(':')
			writeCanon(b, x[k])
		}
		b.WriteByte('}')
	case []interface{}:
		b.WriteByte('[')
		for i, e := range x {
			if i > 0 {
				b.WriteByte(',')
			}
			writeCanon(b, e)
		}
		b.WriteByte(']')
	case []D:
		b.WriteByte('[')
		for i, e := range x {
			if i > 0 {
				b.WriteByte(',')
			}
			writeCanon(b, e)
		}
		b.WriteByte(']')
	case string:
		b.WriteString(strconv.Quote(x))
	default:
		fmt.Fprint(b, x)
	}
}
