package c20

import (
	"fmt"
	"reflect"
	"time"

	"github.com/robfig/soy/data"
)

// The declared Go types from which the harness builds real values. Their
// field lists are described by the spec (SoyData.tla, ContB / TypedStructs);
// build() checks that a descriptor and the declared type agree field by
// field, so a descriptor always tells the truth about the Go value.

// AInt is the struct of the repository's own test.
type AInt struct{ A int }

// AbU mixes exported fields, an unexported field and initialisms.
type AbU struct {
	A   interface{}
	b   interface{}
	URL interface{}
	ID  interface{}
}

// Inner is embedded by value and by pointer.
type Inner struct{ X interface{} }

// inner is an unexported type with an exported field.
type inner struct{ Z interface{} }

// OuterE embeds an exported struct by value.
type OuterE struct {
	Inner
	Y interface{}
}

// OuterP embeds a pointer to an exported struct.
type OuterP struct {
	*Inner
	Y interface{}
}

// OuterU embeds an unexported struct type.
type OuterU struct {
	inner
	Y interface{}
}

// OuterS embeds Inner and shadows its field X.
type OuterS struct {
	Inner
	X interface{}
}

// Uni has field names whose first letter is not ASCII.
type Uni struct {
	Élan  interface{}
	Ωmega interface{}
	été   interface{}
}

// Typed has fields of concrete types.
type Typed struct {
	I8  int8
	U16 uint16
	F32 float32
	S   string
	P   *int
	T   time.Time
	PT  *time.Time
	L   []int
	M   map[string]bool
	V   data.Value
	DI  data.Int
	no  int
}

// Node is a finite linked list: a struct with a pointer to its own type.
type Node struct {
	Val  interface{}
	Next *Node
}

// MyStr is a named string type (also usable as a map key type).
type MyStr string

// MIDURL is the value-receiver marshaler pinned by convert_test.go
// (testIDURLMarshaler): the keys are its own, not lowerCamel field names.
type MIDURL struct {
	ID  int
	URL string
}

// MarshalValue implements data.Marshaler.
func (t MIDURL) MarshalValue() data.Value {
	return data.Map{"id": data.New(t.ID), "url": data.New(t.URL)}
}

// MInt is a marshaler on a non-struct type.
type MInt int

// MarshalValue implements data.Marshaler.
func (m MInt) MarshalValue() data.Value { return data.String(fmt.Sprintf("int:%d", int(m))) }

// MNull marshals to null.
type MNull struct{ N int }

// MarshalValue implements data.Marshaler.
func (MNull) MarshalValue() data.Value { return data.Null{} }

// MList marshals to a list.
type MList struct{ N int }

// MarshalValue implements data.Marshaler.
func (m MList) MarshalValue() data.Value { return data.List{data.Int(m.N), data.String("x")} }

// PMoney marshals itself through a POINTER receiver: only *PMoney implements
// data.Marshaler; a PMoney value is a plain struct.
type PMoney struct {
	Cents    int64
	Currency string
}

// MarshalValue implements data.Marshaler (pointer receiver).
func (m *PMoney) MarshalValue() data.Value {
	return data.Map{"amount": data.Int(m.Cents), "code": data.String(m.Currency)}
}

// PInt is a pointer-receiver marshaler on a non-struct type.
type PInt int

// MarshalValue implements data.Marshaler (pointer receiver).
func (p *PInt) MarshalValue() data.Value { return data.String(fmt.Sprintf("pint:%d", int(*p))) }

// MAny returns whatever data.Value it holds (nil included); value receiver.
type MAny struct{ V data.Value }

// MarshalValue implements data.Marshaler.
func (m MAny) MarshalValue() data.Value { return m.V }

// PAny is MAny with a pointer receiver.
type PAny struct{ V data.Value }

// MarshalValue implements data.Marshaler (pointer receiver).
func (m *PAny) MarshalValue() data.Value { return m.V }

// OuterMV embeds a value-receiver marshaler: MarshalValue is promoted, so
// OuterMV and *OuterMV are marshalers themselves.
type OuterMV struct {
	MIDURL
	Y interface{}
}

// OuterPM embeds a pointer-receiver marshaler by value: only *OuterPM gets
// the promoted method.
type OuterPM struct {
	PMoney
	Y interface{}
}

// OuterPMP embeds a pointer to a pointer-receiver marshaler: OuterPMP and
// *OuterPMP both get the promoted method.
type OuterPMP struct {
	*PMoney
	Y interface{}
}

var marshalerTypes = map[string]reflect.Type{
	"idurl": reflect.TypeOf(MIDURL{}), "mint": reflect.TypeOf(MInt(0)), "mnull": reflect.TypeOf(MNull{}),
	"mlist": reflect.TypeOf(MList{}), "many": reflect.TypeOf(MAny{}),
	"pmoney": reflect.TypeOf(PMoney{}), "pint": reflect.TypeOf(PInt(0)), "pany": reflect.TypeOf(PAny{}),
}

// pointer-receiver marshaler types (SoyData!PtrRecvTypes)
var ptrRecv = map[string]bool{"pmoney": true, "pint": true, "pany": true}

var (
	ifaceType = reflect.TypeOf((*interface{})(nil)).Elem()
	valueType = reflect.TypeOf((*data.Value)(nil)).Elem()
	timeType  = reflect.TypeOf(time.Time{})
)

var declared = map[string]reflect.Type{
	"AInt":   reflect.TypeOf(AInt{}),
	"AbU":    reflect.TypeOf(AbU{}),
	"Inner":  reflect.TypeOf(Inner{}),
	"inner":  reflect.TypeOf(inner{}),
	"OuterE": reflect.TypeOf(OuterE{}),
	"OuterP": reflect.TypeOf(OuterP{}),
	"OuterU": reflect.TypeOf(OuterU{}),
	"OuterS": reflect.TypeOf(OuterS{}),
	"Uni":    reflect.TypeOf(Uni{}),
	"Typed":  reflect.TypeOf(Typed{}),
	"Node":   reflect.TypeOf(Node{}),
	"OuterMV": reflect.TypeOf(OuterMV{}), "OuterPM": reflect.TypeOf(OuterPM{}), "OuterPMP": reflect.TypeOf(OuterPMP{}),
	"PMoney": reflect.TypeOf(PMoney{}), "PAny": reflect.TypeOf(PAny{}),
}

var intKinds = map[string]reflect.Type{
	"int": reflect.TypeOf(int(0)), "int8": reflect.TypeOf(int8(0)), "int16": reflect.TypeOf(int16(0)),
	"int32": reflect.TypeOf(int32(0)), "int64": reflect.TypeOf(int64(0)),
	"uint": reflect.TypeOf(uint(0)), "uint8": reflect.TypeOf(uint8(0)), "uint16": reflect.TypeOf(uint16(0)),
	"uint32": reflect.TypeOf(uint32(0)), "uint64": reflect.TypeOf(uint64(0)),
	"duration": reflect.TypeOf(time.Duration(0)),
}

var floatKinds = map[string]reflect.Type{
	"float32": reflect.TypeOf(float32(0)), "float64": reflect.TypeOf(float64(0)),
}

// the instants the spec knows (SoyData!TimeIds)
var times = map[string]time.Time{
	"jan1":  time.Date(2014, 1, 1, 0, 0, 0, 0, time.UTC),
	"nov10": time.Date(2009, 11, 10, 23, 4, 5, 0, time.FixedZone("", 3600)),
	"leap":  time.Date(2020, 2, 29, 12, 34, 56, 789000000, time.UTC),
}

// the layouts behind the spec's names of time formats
var timeFormats = map[string]string{"rfc3339": time.RFC3339, "stamp": time.Stamp, "empty": ""}

// typeByName resolves the names used for typed nils and empty containers.
func typeByName(n string) (reflect.Type, error) {
	switch n {
	case "bool":
		return reflect.TypeOf(false), nil
	case "string":
		return reflect.TypeOf(""), nil
	case "time":
		return timeType, nil
	case "iface":
		return ifaceType, nil
	case "value":
		return valueType, nil
	case "slice:int":
		return reflect.TypeOf([]int(nil)), nil
	case "map:string":
		return reflect.TypeOf(map[string]string(nil)), nil
	case "ptr:int":
		return reflect.TypeOf((*int)(nil)), nil
	}
	if len(n) > 10 && n[:10] == "marshaler:" {
		if t, ok := marshalerTypes[n[10:]]; ok {
			return t, nil
		}
	}
	if t, ok := intKinds[n]; ok {
		return t, nil
	}
	if t, ok := floatKinds[n]; ok {
		return t, nil
	}
	if len(n) > 7 && n[:7] == "struct:" {
		if t, ok := declared[n[7:]]; ok {
			return t, nil
		}
	}
	return nil, fmt.Errorf("unknown type name %q", n)
}
