// Package models (v1): its Row prints as "models.Row", exactly like the
// different type Row of verif/c20/v2/models.
package models

// Row is the v1 shape.
type Row struct {
	ID    int
	Label string
}
