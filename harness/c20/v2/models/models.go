// Package models (v2): its Row prints as "models.Row", exactly like the
// different type Row of verif/c20/v1/models.
package models

// Row is the v2 shape: other order, one more field.
type Row struct {
	Label string
	ID    int
	Extra bool
}
