package c20

import (
	"bufio"
	"encoding/json"
	"fmt"
	"io"
	"os"
	"os/exec"
	"sort"
	"strings"
	"sync"
	"time"

	"verif/core"
)

// Worker processes. Nothing of /repo is called by the checker process itself:
// every conversion, Truthy/String/Equals and Tofu.Render runs in a worker (the
// checker binary re-executed with C20_WORKER=1) that is fed tasks on stdin and
// answers on stdout, one JSON line each way. A call that does not return
// therefore stalls a worker, not the check: the parent kills the worker after
// `stall` without progress, re-runs the suspect task alone in a fresh worker
// to confirm, shrinks it to a minimal non-returning sub-value, and reports a
// VIOLATION `<family>/no-return:<shape>`. An unconfirmed stall is not judged
// (the task's second result is used). Once a shape is confirmed, later tasks
// containing a node of the same shape are skipped instead of stalling again.

type vioRec struct {
	Sig    core.Sig    `json:"sig"`
	What   string      `json:"what"`
	Replay interface{} `json:"replay"`
}

// sinkT collects what a task reports; the parent applies it to the core.Ctx.
type sinkT struct {
	Violations []vioRec `json:"violations,omitempty"`
	Evals      int64    `json:"evals,omitempty"`
	Traces     int64    `json:"traces,omitempty"`
	Distinct   []string `json:"distinct,omitempty"`
	ToolErrs   []string `json:"toolErrs,omitempty"`
	Notes      []string `json:"notes,omitempty"`
	ArrayPanic int      `json:"arrayPanic,omitempty"`
	ArrayOK    int      `json:"arrayOK,omitempty"`
	BuildErrs  int      `json:"buildErrs,omitempty"`
}

func (c *checker) violation(sig core.Sig, what string, rep interface{}) {
	if c.sink != nil {
		c.sink.Violations = append(c.sink.Violations, vioRec{sig, what, rep})
		return
	}
	c.ctx.Violation(sig, what, rep)
}

func (c *checker) addEvals(n int64) {
	if c.sink != nil {
		c.sink.Evals += n
		return
	}
	c.ctx.AddEvals(n)
}

func (c *checker) addTraces(n int64) {
	if c.sink != nil {
		c.sink.Traces += n
		return
	}
	c.ctx.AddTraces(n)
}

func (c *checker) distinct(k string) {
	if c.sink != nil {
		c.sink.Distinct = append(c.sink.Distinct, k)
		return
	}
	c.ctx.Distinct(k)
}

func (c *checker) toolError(format string, a ...interface{}) {
	if c.sink != nil {
		c.sink.ToolErrs = append(c.sink.ToolErrs, fmt.Sprintf(format, a...))
		return
	}
	c.ctx.ToolError(format, a...)
}

func (c *checker) note(format string, a ...interface{}) {
	if c.sink != nil {
		c.sink.Notes = append(c.sink.Notes, fmt.Sprintf(format, a...))
		return
	}
	fmt.Printf(format+"\n", a...)
}

// phase marks the start of a step that calls into /repo (verbose tasks only).
func (c *checker) phase(label string) {
	if c.hb != nil && c.verbose {
		c.hb(label)
	}
}

// apply transfers a task's reports to the check context (parent only).
func (c *checker) apply(s *sinkT) {
	if s == nil {
		return
	}
	for _, v := range s.Violations {
		c.ctx.Violation(v.Sig, v.What, v.Replay)
	}
	c.ctx.AddEvals(s.Evals)
	c.ctx.AddTraces(s.Traces)
	for _, k := range s.Distinct {
		c.ctx.Distinct(k)
	}
	for _, e := range s.ToolErrs {
		c.ctx.ToolError("%s", e)
	}
	for _, n := range s.Notes {
		fmt.Println(n)
	}
	c.arrayPanic += s.ArrayPanic
	c.arrayOK += s.ArrayOK
	c.buildErrs += s.BuildErrs
}

// ---- protocol ------------------------------------------------------------

type wtask struct {
	ID      int                      `json:"id"`
	Kind    string                   `json:"kind"` // case | conv | m3 | pairs | probe | cex | replay
	CS      map[string]interface{}   `json:"cs,omitempty"`
	G       D                        `json:"g,omitempty"`
	O       D                        `json:"o,omitempty"`
	Rows    []map[string]interface{} `json:"rows,omitempty"`
	Only    int                      `json:"only,omitempty"` // pairs: 1-based row to check alone, 0 = all
	Skip    []int                    `json:"skip,omitempty"` // pairs: rows left out
	Text    string                   `json:"text,omitempty"`
	Verbose bool                     `json:"verbose,omitempty"`
}

type wmsg struct {
	ID    int                    `json:"id"`
	Ev    string                 `json:"ev"` // start | hb | done
	Label string                 `json:"label,omitempty"`
	Sink  *sinkT                 `json:"sink,omitempty"`
	Res   map[string]interface{} `json:"res,omitempty"`
}

// workerMain is the body of a worker process.
func workerMain() int {
	in := bufio.NewReaderSize(os.Stdin, 1<<20)
	out := bufio.NewWriter(os.Stdout)
	emit := func(m wmsg) {
		b, _ := json.Marshal(m)
		out.Write(b)
		out.WriteByte('\n')
		out.Flush()
	}
	c := newChecker(nil)
	for {
		line, err := in.ReadBytes('\n')
		if len(line) > 1 {
			var t wtask
			d := json.NewDecoder(strings.NewReader(string(line)))
			d.UseNumber()
			if derr := d.Decode(&t); derr != nil {
				fmt.Fprintln(os.Stderr, "c20 worker: bad task:", derr)
				return 2
			}
			emit(wmsg{ID: t.ID, Ev: "start"})
			c.sink = &sinkT{}
			c.arrayPanic, c.arrayOK, c.buildErrs = 0, 0, 0
			c.verbose = t.Verbose
			c.hb = func(label string) { emit(wmsg{ID: t.ID, Ev: "hb", Label: label}) }
			res := c.runTask(&t)
			c.sink.ArrayPanic, c.sink.ArrayOK, c.sink.BuildErrs = c.arrayPanic, c.arrayOK, c.buildErrs
			emit(wmsg{ID: t.ID, Ev: "done", Sink: c.sink, Res: res})
		}
		if err != nil {
			return 0
		}
	}
}

// runTask executes one task inside a worker; a panic of the harness itself is
// tool trouble, never a verdict.
func (c *checker) runTask(t *wtask) (res map[string]interface{}) {
	defer func() {
		if r := recover(); r != nil {
			c.toolError("harness panic in %s task: %v", t.Kind, r)
		}
	}()
	switch t.Kind {
	case "case":
		agreed := c.replayCase(t.CS)
		return map[string]interface{}{"agreed": agreed}
	case "conv":
		rv, err := build(t.G)
		if err != nil {
			return map[string]interface{}{"builderr": err.Error()}
		}
		lc, tf, err := parseOpts(t.O)
		if err != nil {
			return map[string]interface{}{"builderr": err.Error()}
		}
		_, p := convert(structOpts(lc, tf), toArg(rv))
		return map[string]interface{}{"panic": p != nil}
	case "m3":
		return c.m3Task(t.G, t.O)
	case "pairs":
		return c.pairsTask(t.Rows, t.Only, t.Skip)
	case "probe":
		out := map[string]interface{}{}
		for k, v := range c.probeUnsupported() {
			out[k] = v
		}
		return out
	case "cex":
		return map[string]interface{}{"text": c.replayLawCex(t.Text)}
	case "replay":
		c.replay(t.Text)
		return nil
	}
	c.toolError("unknown task kind %q", t.Kind)
	return nil
}

// ---- parent side ---------------------------------------------------------

type workerProc struct {
	cmd   *exec.Cmd
	stdin io.WriteCloser
	msgs  chan wmsg
	errs  *strings.Builder
}

func startWorker() (*workerProc, error) {
	exe, err := os.Executable()
	if err != nil {
		return nil, err
	}
	cmd := exec.Command(exe)
	cmd.Env = append(os.Environ(), "C20_WORKER=1")
	stdin, err := cmd.StdinPipe()
	if err != nil {
		return nil, err
	}
	stdout, err := cmd.StdoutPipe()
	if err != nil {
		return nil, err
	}
	w := &workerProc{cmd: cmd, stdin: stdin, msgs: make(chan wmsg, 64), errs: &strings.Builder{}}
	cmd.Stderr = w.errs
	if err := cmd.Start(); err != nil {
		return nil, err
	}
	go func() {
		defer close(w.msgs)
		r := bufio.NewReaderSize(stdout, 1<<20)
		for {
			line, err := r.ReadBytes('\n')
			if len(line) > 1 {
				var m wmsg
				d := json.NewDecoder(strings.NewReader(string(line)))
				d.UseNumber()
				if d.Decode(&m) == nil {
					w.msgs <- m
				}
			}
			if err != nil {
				return
			}
		}
	}()
	return w, nil
}

func (w *workerProc) kill() {
	if w == nil {
		return
	}
	w.stdin.Close()
	w.cmd.Process.Kill()
	go w.cmd.Wait()
}

func (w *workerProc) close() {
	if w == nil {
		return
	}
	w.stdin.Close()
	done := make(chan struct{})
	go func() { w.cmd.Wait(); close(done) }()
	select {
	case <-done:
	case <-time.After(5 * time.Second):
		w.cmd.Process.Kill()
	}
}

type wresult struct {
	done    bool
	stalled bool   // no progress within the deadline (worker killed)
	label   string // last heartbeat label before the stall
	died    string // worker exited without answering
	skipped string // not run: contains a shape already confirmed non-returning
	sink    *sinkT
	res     map[string]interface{}
}

// do sends one task and waits for its answer; progress (start / heartbeat)
// re-arms the deadline.
func (w *workerProc) do(t *wtask, stall time.Duration) *wresult {
	b, err := json.Marshal(t)
	if err != nil {
		return &wresult{died: "cannot encode task: " + err.Error()}
	}
	if _, err := w.stdin.Write(append(b, '\n')); err != nil {
		return &wresult{died: "worker gone: " + err.Error() + " " + w.errs.String()}
	}
	r := &wresult{}
	timer := time.NewTimer(stall)
	defer timer.Stop()
	for {
		select {
		case m, ok := <-w.msgs:
			if !ok {
				r.died = "worker exited: " + w.errs.String()
				return r
			}
			if m.ID != t.ID {
				continue
			}
			switch m.Ev {
			case "hb":
				r.label = m.Label
			case "done":
				r.done, r.sink, r.res = true, m.Sink, m.Res
				return r
			}
			if !timer.Stop() {
				select {
				case <-timer.C:
				default:
				}
			}
			timer.Reset(stall)
		case <-timer.C:
			r.stalled = true
			return r
		}
	}
}

// oneShot runs a single task in a fresh worker.
func oneShot(t *wtask, stall time.Duration) *wresult {
	w, err := startWorker()
	if err != nil {
		return &wresult{died: err.Error()}
	}
	r := w.do(t, stall)
	if r.stalled || r.died != "" {
		w.kill()
	} else {
		w.close()
	}
	return r
}

// ---- shapes that do not return ------------------------------------------

// skeleton names the shape of a node: its kind and the kinds of its children.
func skeleton(d D) string {
	k := dstr(d, "g")
	if dbool(d, "nil") {
		return "nil" + k
	}
	ks := kids(d)
	if len(ks) == 0 {
		return descKind(d)
	}
	seen := map[string]bool{}
	var cs []string
	for _, x := range ks {
		ck := dstr(x, "g")
		if dbool(x, "nil") {
			ck = "nil" + ck
		}
		if !seen[ck] {
			seen[ck] = true
			cs = append(cs, ck)
		}
	}
	sort.Strings(cs)
	return k + ">" + strings.Join(cs, "+")
}

type hangRegistry struct {
	mu        sync.Mutex
	skeletons map[string]bool
	confirmed int
}

func (h *hangRegistry) matches(d D) string {
	h.mu.Lock()
	defer h.mu.Unlock()
	if len(h.skeletons) == 0 {
		return ""
	}
	found := ""
	anyD(d, func(x D) bool {
		if s := skeleton(x); h.skeletons[s] {
			found = s
			return true
		}
		return false
	})
	return found
}

func (h *hangRegistry) add(s string) {
	h.mu.Lock()
	if h.skeletons == nil {
		h.skeletons = map[string]bool{}
	}
	h.skeletons[s] = true
	h.confirmed++
	h.mu.Unlock()
}

func (h *hangRegistry) note() {
	h.mu.Lock()
	h.confirmed++
	h.mu.Unlock()
}

func (h *hangRegistry) count() int {
	h.mu.Lock()
	defer h.mu.Unlock()
	return h.confirmed
}

const maxConfirmedHangs = 6 // after that many confirmed non-returning cases a phase is abandoned

// taskDesc is the descriptor (and options) a task converts, if any.
func taskDesc(t *wtask) (D, D) {
	if t.Kind == "case" {
		g, _ := asD(t.CS["g"])
		o, _ := asD(t.CS["o"])
		return g, o
	}
	return t.G, t.O
}

// shrinkHang finds a minimal sub-descriptor whose conversion alone does not
// return (each probe in a fresh worker). ok = false: converting g alone
// returns, i.e. the call that hangs is a later one (laws, render).
func shrinkHang(g, o D, probe time.Duration) (D, bool) {
	r := oneShot(&wtask{ID: 1, Kind: "conv", G: g, O: o}, probe)
	if !r.stalled {
		return g, false
	}
	for {
		next := D(nil)
		for _, k := range kids(g) {
			if r := oneShot(&wtask{ID: 1, Kind: "conv", G: k, O: o}, probe); r.stalled {
				next = k
				break
			}
		}
		if next == nil {
			return g, true
		}
		g = next
	}
}

// runTasks runs the tasks on n workers; results are indexed like the tasks.
func (c *checker) runTasks(tasks []*wtask, n int, stall time.Duration) []*wresult {
	results := make([]*wresult, len(tasks))
	var next, confirmedHere int
	var mu sync.Mutex
	take := func() int {
		mu.Lock()
		defer mu.Unlock()
		if next >= len(tasks) || confirmedHere >= maxConfirmedHangs {
			return -1
		}
		next++
		return next - 1
	}
	var wg sync.WaitGroup
	if n > len(tasks) {
		n = len(tasks)
	}
	for k := 0; k < n; k++ {
		wg.Add(1)
		go func() {
			defer wg.Done()
			var w *workerProc
			defer func() { w.close() }()
			for {
				i := take()
				if i < 0 {
					return
				}
				t := tasks[i]
				t.ID = i + 1
				g, o := taskDesc(t)
				if g != nil {
					if s := c.hangs.matches(g); s != "" {
						results[i] = &wresult{skipped: s}
						continue
					}
				}
				if w == nil {
					var err error
					if w, err = startWorker(); err != nil {
						results[i] = &wresult{died: err.Error()}
						return
					}
				}
				r := w.do(t, stall)
				if r.died != "" { // retry once in a fresh worker
					w.kill()
					w = nil
					r = oneShot(t, stall)
				}
				if r.stalled {
					w.kill()
					w = nil
					r = c.confirmStall(t, g, o, stall)
					if nr, _ := r.res["noreturn"].(bool); nr {
						mu.Lock()
						confirmedHere++
						mu.Unlock()
					}
				}
				results[i] = r
			}
		}()
	}
	wg.Wait()
	return results
}

// confirmStall re-runs a stalled task alone (verbosely, so that the step that
// hangs is known); a second stall is a confirmed non-returning call.
func (c *checker) confirmStall(t *wtask, g, o D, stall time.Duration) *wresult {
	if g != nil {
		if s := c.hangs.matches(g); s != "" {
			return &wresult{skipped: s}
		}
	}
	again := *t
	again.Verbose = true
	r := oneShot(&again, stall)
	if !r.stalled {
		return r // unconfirmed: not judged; the second run's result counts
	}
	step := r.label
	if step == "" {
		step = "convert"
	}
	shape, fam := t.Kind, famConvert
	var minimal D
	if g != nil {
		m, inConvert := shrinkHang(g, o, stall/2)
		minimal = m
		shape = skeleton(m)
		if inConvert {
			step = "convert"
			c.hangs.add(shape)
		} else {
			c.hangs.note() // the conversion returns; a later call (laws, render) does not
		}
	}
	switch {
	case strings.HasPrefix(step, "reconvert"):
		fam = famIdem
	case strings.HasPrefix(step, "truthy"), strings.HasPrefix(step, "string"), strings.HasPrefix(step, "equals"):
		fam = famLaws
	case strings.HasPrefix(step, "render"):
		fam = famTofu
	}
	feature := "no-return:" + shape
	if step != "convert" {
		feature = "no-return:" + step + ":" + shape
	}
	sink := &sinkT{Evals: 1}
	sink.Violations = append(sink.Violations, vioRec{core.Sig{Family: fam, Feature: feature},
		fmt.Sprintf("the real code does not return (step %q, no answer within %v, confirmed alone in a fresh process) on %s; minimal non-returning value %s",
			step, stall, canon(g), canon(minimal)),
		map[string]interface{}{"kind": "no-return", "task": t.Kind, "g": minimal, "g_case": g, "o": o, "step": step, "deadline_s": stall.Seconds()}})
	return &wresult{done: true, sink: sink, res: map[string]interface{}{"agreed": false, "noreturn": true}}
}
