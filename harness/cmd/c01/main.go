package main

import (
	"verif/c01"
	"verif/core"
)

func main() { core.Main("C01", "model_checking", c01.Run) }
