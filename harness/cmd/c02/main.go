package main

import (
	"verif/c02"
	"verif/core"
)

func main() { core.Main("C02", "model_checking", c02.Run) }
