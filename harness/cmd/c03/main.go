package main

import (
	"verif/c03"
	"verif/core"
)

func main() { core.Main("C03", "model_checking", c03.Run) }
