package main

import (
	"os"

	"verif/c03"
	"verif/c16"
	"verif/core"
)

func main() {
	// confirm mode: re-run ONE suspect render alone (the parent enforces the deadline)
	if p := os.Getenv("VERIF_CONFIRM"); p != "" {
		c16.ConfirmMain(p, c03.RegisterCustom)
		return
	}
	core.Main("C03", "model_checking", c03.Run)
}
