package main

import (
	"verif/c04"
	"verif/core"
)

func main() { core.Main("C04", "translation_validation", c04.Run) }
