package main

import (
	"verif/c05"
	"verif/core"
)

func main() {
	// --worker / --probe: sub-process modes used by the checker itself
	if c05.MaybeSubprocess() {
		return
	}
	core.Main("C05", "model_checking", c05.Run)
}
