package main

import (
	"os"

	"verif/c06"
	"verif/core"
)

func main() {
	if len(os.Args) > 1 && os.Args[1] == "--worker" {
		c06.Worker()
		return
	}
	core.Main("C06", "model_checking", c06.Run)
}
