package main

import (
	"verif/c07"
	"verif/core"
)

func main() { core.Main("C07", "model_checking", c07.Run) }
