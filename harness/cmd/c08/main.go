package main

import (
	"verif/c08"
	"verif/core"
)

func main() { core.Main("C08", "model_checking", c08.Run) }
