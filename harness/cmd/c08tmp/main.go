package main

import (
	"encoding/json"
	"fmt"
	"math/rand"
	"os"
	"strconv"

	"verif/core"
)

func main() {
	n, _ := strconv.Atoi(os.Args[1])
	r := rand.New(rand.NewSource(1))
	for i := 0; i < n; i++ {
		g := &core.ProgGen{R: r, MaxDepth: 1 + r.Intn(3)}
		p := g.Gen()
		b, _ := json.Marshal(map[string]interface{}{"prog": p})
		fmt.Println(string(b))
	}
}
