package main

import (
	"verif/c09"
	"verif/core"
)

func main() { core.Main("C09", "exploration", c09.Run) }
