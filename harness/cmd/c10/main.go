package main

import (
	"verif/c10"
	"verif/core"
)

func main() { core.Main("C10", "model_checking", c10.Run) }
