package main

import (
	"verif/c11"
	"verif/core"
)

func main() { core.Main("C11", "model_checking", c11.Run) }
