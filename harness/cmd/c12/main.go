package main

import (
	"verif/c12"
	"verif/core"
)

func main() { core.Main("C12", "fault_enumeration", c12.Run) }
