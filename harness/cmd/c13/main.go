package main

import (
	"verif/c13"
	"verif/core"
)

func main() {
	if c13.IsChild() {
		// fresh-process mode: re-observe the parent's cases (see c13.children)
		c13.ChildMain()
		return
	}
	core.Main("C13", "exploration", c13.Run)
}
