package main

import (
	"verif/c14"
	"verif/core"
)

func main() { core.Main("C14", "translation_validation", c14.Run) }
