package main

import (
	"verif/c15"
	"verif/core"
)

func main() { core.Main("C15", "model_checking", c15.Run) }
