package main

import (
	"verif/c16"
	"verif/core"
)

func main() { core.Main("C16", "model_checking", c16.Run) }
