package main

import (
	"os"

	"verif/c16"
	"verif/core"
)

func main() {
	// confirm mode: re-run ONE suspect render alone (the parent enforces the deadline)
	if p := os.Getenv("VERIF_CONFIRM"); p != "" {
		c16.ConfirmMain(p, nil)
		return
	}
	core.Main("C16", "model_checking", c16.Run)
}
