package main

import (
	"verif/c17"
	"verif/core"
)

func main() { core.Main("C17", "model_checking", c17.Run) }
