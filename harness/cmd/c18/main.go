package main

import (
	"verif/c05"
	"verif/c18"
	"verif/core"
)

func main() {
	// --worker / --probe: sub-process modes (shared with C05)
	if c05.MaybeSubprocess() {
		return
	}
	core.Main("C18", "model_checking", c18.Run)
}
