package main

import (
	"verif/c05"
	"verif/c19"
	"verif/core"
)

func main() {
	// --worker / --probe: sub-process modes (shared with C05)
	if c05.MaybeSubprocess() {
		return
	}
	core.Main("C19", "model_checking", c19.Run)
}
