package main

import (
	"verif/c20"
	"verif/core"
)

func main() { core.Main("C20", "model_checking", c20.Run) }
