// vcheck runs one property check: vcheck <Cxx> quick|thorough [--replay path]
package main

import (
	"fmt"
	"os"

	"verif/c01"
	"verif/core"
)

type runner struct {
	level string
	run   func(*core.Ctx)
}

var runners = map[string]runner{
	"C01": {"model_checking", c01.Run},
}

func main() {
	if len(os.Args) < 3 {
		fmt.Fprintln(os.Stderr, "usage: vcheck <Cxx> quick|thorough")
		os.Exit(2)
	}
	id, tier := os.Args[1], os.Args[2]
	r, ok := runners[id]
	if !ok {
		fmt.Fprintf(os.Stderr, "unknown property %s\n", id)
		os.Exit(2)
	}
	ctx := core.NewCtx(id, tier, r.level)
	for i := 3; i+1 < len(os.Args); i++ {
		if os.Args[i] == "--replay" {
			ctx.ReplayPath = os.Args[i+1]
		}
	}
	func() {
		defer func() {
			if p := recover(); p != nil {
				ctx.ToolError("harness panic: %v", p)
				panic(p)
			}
		}()
		r.run(ctx)
	}()
	os.Exit(ctx.Finish())
}
