package main

import (
	"os"

	"verif/core"
	"verif/watch"
)

// XWATCH is not one of the listed properties: it is an extra model (Bundle.
// WatchFiles / the recompiler). Its evidence goes to evidence/XWATCH.json.
func main() {
	if len(os.Args) > 1 && os.Args[1] == "--worker" {
		watch.Worker()
		return
	}
	core.Main("XWATCH", "model_checking", watch.Run)
}
