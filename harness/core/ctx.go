// Package core is the shared machinery of the /verif harness: check context,
// verdict bookkeeping (violations, known findings, evidence), the TLC driver
// and helpers to compile/render with the real robfig/soy code.
package core

import (
	"encoding/json"
	"fmt"
	"os"
	"path/filepath"
	"sort"
	"strconv"
	"strings"
	"sync"
	"time"
)

// VerifDir is the root of the verification tree.
var VerifDir = envOr("VERIF_DIR", "/verif")

// RepoDir is the robfig/soy working tree under test.
var RepoDir = envOr("VERIF_REPO", "/repo")

func envOr(k, d string) string {
	if v := os.Getenv(k); v != "" {
		return v
	}
	return d
}

// Sig identifies a class of failing cases structurally (family + feature), so
// that the known-findings ledger matches findings without regexps on output.
type Sig struct {
	Family  string `json:"family"`
	Feature string `json:"feature"`
}

func (s Sig) String() string { return s.Family + "/" + s.Feature }

// Finding is one entry of /verif/known_findings.json.
type Finding struct {
	Property  string          `json:"property"`
	Status    string          `json:"status"` // "open" | "fixed"
	Signature Sig             `json:"signature"`
	What      string          `json:"what"`
	Commit    string          `json:"commit,omitempty"`
	Line      string          `json:"line,omitempty"`
	Example   json.RawMessage `json:"example,omitempty"`
}

// Violation is one reported disagreement between real-code behaviour and the
// property.
type Violation struct {
	Sig    Sig         `json:"sig"`
	What   string      `json:"what"`
	Replay interface{} `json:"replay"`
}

// Ctx is the state of one check run.
type Ctx struct {
	ID    string
	Tier  string
	Seed  int64
	Level string
	Start time.Time
	// ReplayPath, when set, asks the check to re-run one saved replay case.
	ReplayPath string

	mu         sync.Mutex
	findings   []Finding
	knownSeen  map[string]bool
	violations int
	vioBySig   map[string]int
	toolErr    []string

	// evidence accumulators
	States      int64
	Transitions int64
	Traces      int64
	Evals       int64
	Programs    int64
	Disagree    int64
	distinct    map[string]struct{}
	Samples     []interface{}
	Rule        string
	Exhaustive  bool
	Extra       map[string]interface{}
	Assumptions []string
	Trusted     []string
	tlcRuns     []map[string]interface{}
}

// NewCtx builds the context for property id.
func NewCtx(id, tier, level string) *Ctx {
	seed := int64(1)
	if s := os.Getenv("VERIF_SEED"); s != "" {
		if n, err := strconv.ParseInt(s, 10, 64); err == nil {
			seed = n
		}
	}
	if t := os.Getenv("VERIF_TIER"); t == "quick" || t == "thorough" {
		tier = t
	}
	c := &Ctx{ID: id, Tier: tier, Seed: seed, Level: level, Start: time.Now(),
		knownSeen: map[string]bool{}, vioBySig: map[string]int{},
		distinct: map[string]struct{}{}, Extra: map[string]interface{}{}}
	c.loadFindings()
	return c
}

// Thorough reports whether the thorough tier was requested.
func (c *Ctx) Thorough() bool { return c.Tier == "thorough" }

// Pick returns q for the quick tier and t for the thorough tier.
func (c *Ctx) Pick(q, t int) int {
	if c.Thorough() {
		return t
	}
	return q
}

func (c *Ctx) loadFindings() {
	b, err := os.ReadFile(filepath.Join(VerifDir, "known_findings.json"))
	if err != nil {
		return
	}
	var all []Finding
	if err := json.Unmarshal(b, &all); err != nil {
		c.ToolError("known_findings.json unreadable: %v", err)
		return
	}
	for _, f := range all {
		if f.Property == c.ID {
			c.findings = append(c.findings, f)
		}
	}
}

// Distinct records a distinct non-trivial case key.
func (c *Ctx) Distinct(key string) {
	c.mu.Lock()
	c.distinct[key] = struct{}{}
	c.mu.Unlock()
}

// Sample keeps up to 8 sample cases for the evidence file.
func (c *Ctx) Sample(v interface{}) {
	c.mu.Lock()
	if len(c.Samples) < 8 {
		c.Samples = append(c.Samples, v)
	}
	c.mu.Unlock()
}

// AddEvals adds n to the evaluation counter (thread-safe).
func (c *Ctx) AddEvals(n int64) {
	c.mu.Lock()
	c.Evals += n
	c.mu.Unlock()
}

// AddTraces adds n to the validated-traces counter (thread-safe).
func (c *Ctx) AddTraces(n int64) {
	c.mu.Lock()
	c.Traces += n
	c.mu.Unlock()
}

// ToolError records a tool problem (exit 2, never a violation).
func (c *Ctx) ToolError(format string, args ...interface{}) {
	msg := fmt.Sprintf(format, args...)
	c.mu.Lock()
	c.toolErr = append(c.toolErr, msg)
	c.mu.Unlock()
	fmt.Printf("TOOL-ERROR: property=%s %s\n", c.ID, msg)
}

// Violation reports a violation observed on the real code. If the signature is
// listed as an open finding the line KNOWN-FINDING is printed (once) instead.
// At most 3 VIOLATION lines are printed per signature; all are counted.
func (c *Ctx) Violation(sig Sig, what string, replay interface{}) {
	c.mu.Lock()
	defer c.mu.Unlock()
	for _, f := range c.findings {
		if f.Status == "open" && f.Signature == sig {
			k := sig.String()
			if !c.knownSeen[k] {
				c.knownSeen[k] = true
				fmt.Printf("KNOWN-FINDING: property=%s %s [%s]\n", c.ID, f.What, k)
			}
			return
		}
	}
	c.violations++
	c.vioBySig[sig.String()]++
	if c.vioBySig[sig.String()] > 3 {
		return
	}
	dir := filepath.Join(VerifDir, "out", "replay")
	os.MkdirAll(dir, 0o755)
	path := filepath.Join(dir, fmt.Sprintf("%s-%s-%d.json", c.ID, sanitize(sig.String()), c.vioBySig[sig.String()]))
	b, _ := json.MarshalIndent(Violation{sig, what, replay}, "", " ")
	os.WriteFile(path, b, 0o644)
	fmt.Printf("VIOLATION property=%s replay=%s\n", c.ID, path)
	fmt.Printf("  sig=%s what=%s\n", sig, trunc(what, 400))
}

func trunc(s string, n int) string {
	if len(s) > n {
		return s[:n] + "..."
	}
	return s
}

func sanitize(s string) string {
	var b strings.Builder
	for _, r := range s {
		switch {
		case r >= 'a' && r <= 'z', r >= 'A' && r <= 'Z', r >= '0' && r <= '9', r == '-', r == '_':
			b.WriteRune(r)
		default:
			b.WriteByte('_')
		}
	}
	if b.Len() > 80 {
		return b.String()[:80]
	}
	return b.String()
}

// Violations returns the number of unlisted violations so far.
func (c *Ctx) Violations() int {
	c.mu.Lock()
	defer c.mu.Unlock()
	return c.violations
}

// Finish writes the evidence file and returns the process exit code.
func (c *Ctx) Finish() int {
	cov := map[string]interface{}{}
	for k, v := range c.Extra {
		cov[k] = v
	}
	cov["evaluations"] = c.Evals
	cov["distinct_nontrivial"] = len(c.distinct)
	cov["rule"] = c.Rule
	if len(c.Samples) == 0 {
		c.Samples = []interface{}{"(no sample recorded)"}
	}
	cov["samples"] = c.Samples
	if c.States > 0 && c.Transitions > 0 {
		cov["states"] = c.States
		cov["transitions"] = c.Transitions
	}
	cov["traces_validated_against_impl"] = c.Traces
	if c.Level == "translation_validation" {
		cov["programs"] = c.Programs
		cov["disagreements_checked"] = c.Disagree
	}
	cov["exhaustive"] = c.Exhaustive
	cov["tlc_runs"] = c.tlcRuns
	if len(c.Trusted) > 0 {
		cov["trusted_base"] = c.Trusted
	}
	var known []string
	for k := range c.knownSeen {
		known = append(known, k)
	}
	sort.Strings(known)
	cov["known_findings_met"] = known
	if len(c.toolErr) > 0 {
		cov["tool_errors"] = c.toolErr
	}
	ev := map[string]interface{}{
		"property_id": c.ID,
		"tier":        c.Tier,
		"seed":        c.Seed,
		"level":       c.Level,
		"coverage":    cov,
		"assumptions": c.Assumptions,
		"wall_s":      time.Since(c.Start).Seconds(),
		"violations":  c.violations,
	}
	if c.Assumptions == nil {
		ev["assumptions"] = []string{}
	}
	b, _ := json.MarshalIndent(ev, "", " ")
	dir := filepath.Join(VerifDir, "evidence")
	if os.Getenv("VERIF_NOEVIDENCE") != "" {
		// calibration runs against scratch copies must not overwrite evidence
		dir = filepath.Join(VerifDir, "out", "evidence-scratch")
	}
	os.MkdirAll(dir, 0o755)
	if err := os.WriteFile(filepath.Join(dir, c.ID+".json"), append(b, '\n'), 0o644); err != nil {
		fmt.Printf("TOOL-ERROR: cannot write evidence: %v\n", err)
		return 2
	}
	fmt.Printf("SUMMARY property=%s tier=%s seed=%d evals=%d distinct=%d states=%d traces=%d violations=%d known=%d wall=%.1fs\n",
		c.ID, c.Tier, c.Seed, c.Evals, len(c.distinct), c.States, c.Traces, c.violations, len(c.knownSeen), time.Since(c.Start).Seconds())
	if c.violations > 0 {
		return 1
	}
	if len(c.toolErr) > 0 {
		return 2
	}
	return 0
}
