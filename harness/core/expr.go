package core

import (
	"fmt"
	"math"
	"sort"
	"strconv"
	"strings"

	"github.com/robfig/soy/data"
)

// E is a node of the spec's expression AST (the tagged records of SoyExpr.tla).
type E = map[string]interface{}

func ENull() E       { return E{"k": "null"} }
func EBool(b bool) E { return E{"k": "bool", "v": b} }
func EInt(n int) E   { return E{"k": "int", "v": n} }
func EFloat(num, sh int) E {
	num, sh = normDyadic(num, sh)
	return E{"k": "float", "num": num, "sh": sh}
}
func EStr(s string) E { return E{"k": "str", "v": s} }

// EBigInt is an integer literal beyond 32 bits, carried as its decimal digits.
func EBigInt(digits string) E { return E{"k": "bigint", "v": digits} }
func EList(items ...E) E {
	if items == nil {
		items = []E{}
	}
	return E{"k": "list", "items": items}
}

// EMap takes alternating key, value.
func EMap(kv ...interface{}) E {
	items := []E{}
	for i := 0; i+1 < len(kv); i += 2 {
		items = append(items, E{"key": kv[i].(string), "val": kv[i+1].(E)})
	}
	return E{"k": "map", "items": items}
}
func EVar(name string, acc ...E) E {
	if acc == nil {
		acc = []E{}
	}
	return E{"k": "var", "name": name, "acc": acc}
}
func AKey(key string, ns bool) E { return E{"k": "key", "ns": ns, "key": key} }
func AIdx(i int, ns bool) E      { return E{"k": "idx", "ns": ns, "idx": i} }
func AExpr(e E, ns bool) E       { return E{"k": "expr", "ns": ns, "e": e} }
func EGlobal(name string) E      { return E{"k": "global", "name": name} }
func EFn(name string, args ...E) E {
	if args == nil {
		args = []E{}
	}
	return E{"k": "fn", "name": name, "args": args}
}
func ENeg(a E) E               { return E{"k": "neg", "a": a} }
func ENot(a E) E               { return E{"k": "not", "a": a} }
func EBin(op string, a, b E) E { return E{"k": op, "a": a, "b": b} }
func ETern(c, a, b E) E        { return E{"k": "tern", "c": c, "a": a, "b": b} }

func normDyadic(num, sh int) (int, int) {
	for sh > 0 && num%2 == 0 {
		num /= 2
		sh--
	}
	return num, sh
}

// BinOpSym maps the spec's operator names to Soy source symbols.
var BinOpSym = map[string]string{
	"mul": "*", "div": "/", "mod": "%", "add": "+", "sub": "-",
	"lt": "<", "gt": ">", "le": "<=", "ge": ">=", "eq": "==", "ne": "!=",
	"and": "and", "or": "or", "elvis": "?:",
}

// BinOpNames lists the binary operators in a fixed order.
var BinOpNames = []string{"mul", "div", "mod", "add", "sub", "lt", "gt", "le", "ge", "eq", "ne", "and", "or", "elvis"}

// Prec is the official Soy precedence (higher binds tighter).
func Prec(k string) int {
	switch k {
	case "tern", "elvis":
		return 0
	case "or":
		return 1
	case "and":
		return 2
	case "eq", "ne":
		return 3
	case "lt", "gt", "le", "ge":
		return 4
	case "add", "sub":
		return 5
	case "mul", "div", "mod":
		return 6
	case "neg", "not":
		return 7
	}
	return 8
}

// Style controls the unparser.
type Style struct {
	Parens int  // 0 minimal, 1 full (every operator application), 2 redundant (atoms too)
	Tight  bool // no spaces around symbolic operators
}

// Unparse renders an expression tree as Soy source.
func Unparse(e E, st Style) string {
	return unparse(e, st)
}

func wrap(s string) string { return "(" + s + ")" }

func isOpNode(k string) bool { return Prec(k) < 8 }

func child(e E, parentK string, side int, st Style) string {
	k := e["k"].(string)
	s := unparse(e, st)
	need := false
	pp, cp := Prec(parentK), Prec(k)
	switch {
	case !isOpNode(k):
		need = st.Parens == 2
	case st.Parens >= 1:
		need = true
	case cp == 0: // ternary / elvis as operand of anything: always parenthesised
		need = true
	case parentK == "neg" || parentK == "not":
		need = cp < pp
	case side == 0:
		need = cp < pp
	default:
		need = cp <= pp
	}
	// a negative numeric literal directly after a unary minus or as the
	// left operand is fine; but "-" followed by a negative literal would lex
	// as "--1", which is still neg(int -1).
	if need {
		return wrap(s)
	}
	return s
}

func unparse(e E, st Style) string {
	k := e["k"].(string)
	switch k {
	case "null":
		return "null"
	case "bool":
		if e["v"].(bool) {
			return "true"
		}
		return "false"
	case "int":
		if s, ok := e["spell"].(string); ok {
			return s
		}
		return strconv.Itoa(toInt(e["v"]))
	case "bigint":
		return e["v"].(string)
	case "float":
		if s, ok := e["spell"].(string); ok {
			return s
		}
		return FloatLiteral(toInt(e["num"]), toInt(e["sh"]))
	case "str":
		if s, ok := e["spell"].(string); ok {
			return s
		}
		return QuoteSoy(e["v"].(string))
	case "list":
		var parts []string
		for _, it := range toEs(e["items"]) {
			parts = append(parts, child(it, "list", 0, st))
		}
		return "[" + strings.Join(parts, sep(st, ",")) + "]"
	case "map":
		items := toEs(e["items"])
		if len(items) == 0 {
			return "[:]"
		}
		var parts []string
		for _, it := range items {
			parts = append(parts, QuoteSoy(it["key"].(string))+":"+spc(st)+child(it["val"].(E), "map", 0, st))
		}
		return "[" + strings.Join(parts, sep(st, ",")) + "]"
	case "var":
		s := "$" + e["name"].(string)
		for _, a := range toEs(e["acc"]) {
			q := ""
			if a["ns"].(bool) {
				q = "?"
			}
			switch a["k"].(string) {
			case "key":
				s += q + "." + a["key"].(string)
			case "idx":
				s += q + "." + strconv.Itoa(toInt(a["idx"]))
			case "expr":
				s += q + "[" + child(a["e"].(E), "index", 0, st) + "]"
			}
		}
		return s
	case "global":
		return e["name"].(string)
	case "fn":
		var parts []string
		for _, it := range toEs(e["args"]) {
			parts = append(parts, child(it, "fnarg", 0, st))
		}
		return e["name"].(string) + "(" + strings.Join(parts, sep(st, ",")) + ")"
	case "neg":
		return "-" + child(e["a"].(E), "neg", 0, st)
	case "not":
		c := child(e["a"].(E), "not", 0, st)
		return "not " + c
	case "tern":
		mid := child(e["a"].(E), "tern", 1, st)
		q := op(st, "?")
		if st.Tight && strings.HasPrefix(mid, "[") {
			q = "? " // "?[" would lex as the null-safe bracket access token
		}
		return child(e["c"].(E), "tern", 0, st) + q + mid + op(st, ":") + child(e["b"].(E), "tern", 2, st)
	}
	if sym, ok := BinOpSym[k]; ok {
		l := child(e["a"].(E), k, 0, st)
		r := child(e["b"].(E), k, 1, st)
		if k == "and" || k == "or" {
			return l + " " + sym + " " + r
		}
		return l + op(st, sym) + r
	}
	panic("unparse: unknown node kind " + k)
}

func op(st Style, sym string) string {
	if st.Tight {
		return sym
	}
	return " " + sym + " "
}
func sep(st Style, s string) string {
	if st.Tight {
		return s
	}
	return s + " "
}
func spc(st Style) string {
	if st.Tight {
		return ""
	}
	return " "
}

// FloatLiteral spells the dyadic num/2^sh as a Soy float literal (digits on
// both sides of the point).
func FloatLiteral(num, sh int) string {
	s := DyadicText(num, sh)
	if !strings.Contains(s, ".") {
		s += ".0"
	}
	return s
}

// DyadicText is the exact decimal expansion of num/2^sh without exponent,
// integral values without a point (the text the spec defines for floats).
func DyadicText(num, sh int) string {
	neg := num < 0
	a := num
	if neg {
		a = -a
	}
	p := 1 << uint(sh)
	s := strconv.Itoa(a / p)
	rem := a % p
	if rem != 0 {
		s += "."
		for rem != 0 {
			rem *= 10
			s += strconv.Itoa(rem / p)
			rem %= p
		}
	}
	if neg {
		s = "-" + s
	}
	return s
}

// QuoteSoy writes a Soy single-quoted string literal for s.
func QuoteSoy(s string) string {
	var b strings.Builder
	b.WriteByte('\'')
	for _, r := range s {
		switch r {
		case '\\':
			b.WriteString(`\\`)
		case '\'':
			b.WriteString(`\'`)
		case '\n':
			b.WriteString(`\n`)
		case '\r':
			b.WriteString(`\r`)
		case '\t':
			b.WriteString(`\t`)
		case '\b':
			b.WriteString(`\b`)
		case '\f':
			b.WriteString(`\f`)
		default:
			b.WriteRune(r)
		}
	}
	b.WriteByte('\'')
	return b.String()
}

func toInt(v interface{}) int {
	switch n := v.(type) {
	case int:
		return n
	case int64:
		return int(n)
	case float64:
		return int(n)
	case jsonNumber:
		i, _ := strconv.Atoi(string(n))
		return i
	case interface{ Int64() (int64, error) }:
		i, _ := n.Int64()
		return int(i)
	}
	panic(fmt.Sprintf("toInt: %T", v))
}

type jsonNumber string

func toEs(v interface{}) []E {
	switch x := v.(type) {
	case []E:
		return x
	case []interface{}:
		r := make([]E, len(x))
		for i := range x {
			r[i] = x[i].(E)
		}
		return r
	case nil:
		return nil
	}
	panic(fmt.Sprintf("toEs: %T", v))
}

// ExprVars returns the sorted set of variable names referenced (other than ij).
func ExprVars(e E) []string {
	set := map[string]bool{}
	var walk func(interface{})
	walk = func(v interface{}) {
		switch x := v.(type) {
		case E:
			if x["k"] == "var" {
				if n := x["name"].(string); n != "ij" {
					set[n] = true
				}
			}
			for _, c := range x {
				walk(c)
			}
		case []E:
			for _, c := range x {
				walk(c)
			}
		case []interface{}:
			for _, c := range x {
				walk(c)
			}
		}
	}
	walk(e)
	var r []string
	for k := range set {
		r = append(r, k)
	}
	sort.Strings(r)
	return r
}

// ---- values ---------------------------------------------------------------

// V is a Soy value in the spec's tagged JSON encoding.
type V = map[string]interface{}

func VNull() V       { return V{"t": "null"} }
func VBool(b bool) V { return V{"t": "bool", "v": b} }
func VInt(n int) V   { return V{"t": "int", "v": n} }
func VFloat(num, sh int) V {
	num, sh = normDyadic(num, sh)
	return V{"t": "float", "num": num, "sh": sh}
}
func VStr(s string) V { return V{"t": "str", "v": s} }

// VBigInt is an integer value beyond 32 bits, carried as its decimal digits.
func VBigInt(digits string) V { return V{"t": "bigint", "v": digits} }
func VList(xs ...V) V {
	if xs == nil {
		xs = []V{}
	}
	return V{"t": "list", "v": xs}
}
func VMap(m map[string]V) V {
	if m == nil {
		m = map[string]V{}
	}
	return V{"t": "map", "v": m}
}

// ToData converts a spec value to the real data.Value.
func ToData(v V) data.Value {
	switch v["t"].(string) {
	case "null":
		return data.Null{}
	case "undef":
		return data.Undefined{}
	case "bool":
		return data.Bool(v["v"].(bool))
	case "int":
		return data.Int(toInt(v["v"]))
	case "bigint":
		n, _ := strconv.ParseInt(v["v"].(string), 10, 64)
		return data.Int(n)
	case "float":
		return data.Float(float64(toInt(v["num"])) / math.Pow(2, float64(toInt(v["sh"]))))
	case "str":
		return data.String(v["v"].(string))
	case "list":
		var l = data.List{}
		switch xs := v["v"].(type) {
		case []V:
			for _, x := range xs {
				l = append(l, ToData(x))
			}
		case []interface{}:
			for _, x := range xs {
				l = append(l, ToData(x.(V)))
			}
		}
		return l
	case "map":
		return ToDataMap(v["v"])
	}
	panic(fmt.Sprintf("ToData: %v", v))
}

// ToDataMap converts a name->V mapping to a data.Map.
func ToDataMap(m interface{}) data.Map {
	r := data.Map{}
	switch mm := m.(type) {
	case map[string]V:
		for k, x := range mm {
			r[k] = ToData(x)
		}
	case map[string]interface{}:
		for k, x := range mm {
			r[k] = ToData(x.(V))
		}
	}
	return r
}

// LitOf returns an expression literal that evaluates to v, or nil if v has no
// literal form.
func LitOf(v V) E {
	switch v["t"].(string) {
	case "null":
		return ENull()
	case "bool":
		return EBool(v["v"].(bool))
	case "int":
		return EInt(toInt(v["v"]))
	case "bigint":
		return EBigInt(v["v"].(string))
	case "float":
		return EFloat(toInt(v["num"]), toInt(v["sh"]))
	case "str":
		return EStr(v["v"].(string))
	case "list":
		var items []E
		for _, x := range v["v"].([]V) {
			items = append(items, LitOf(x))
		}
		return EList(items...)
	case "map":
		m := v["v"].(map[string]V)
		var keys []string
		for k := range m {
			keys = append(keys, k)
		}
		sort.Strings(keys)
		var kv []interface{}
		for _, k := range keys {
			kv = append(kv, k, LitOf(m[k]))
		}
		return EMap(kv...)
	}
	return nil
}
