package core

import (
	"bytes"
	"encoding/json"
	"fmt"
	"regexp"
	"strconv"
	"strings"
	"time"

	"github.com/robfig/soy"
	"github.com/robfig/soy/data"
	"github.com/robfig/soy/parse"
	"github.com/robfig/soy/soyhtml"
)

// ExprCase is one observed execution of a single-print template.
type ExprCase struct {
	ID     string `json:"id,omitempty"`
	Family string `json:"family,omitempty"`
	E      E      `json:"e"`
	Env    *Env   `json:"-"`
	Src    string `json:"src"`      // expression source used
	File   string `json:"file"`     // full template source
	Obs    Obs    `json:"obs"`      // what the real code did
	Exp    string `json:"expected"` // what the spec expects (filled after validation)
	// GlobText, when set, is a globals FILE: the real code gets its globals
	// from soy.ParseGlobals(GlobText); Env.Glob holds the values it denotes.
	GlobText string `json:"globText,omitempty"`
}

// Obs is the observable outcome of the render.
type Obs struct {
	Err        bool   `json:"err"`
	Out        string `json:"out"`
	ErrText    string `json:"errText,omitempty"`
	CompileErr string `json:"compileErr,omitempty"`
	Panicked   bool   `json:"panicked,omitempty"`
	Hung       bool   `json:"hung,omitempty"`
	// Standalone evaluation of the same source (soyhtml.EvalExpr), done for
	// closed expressions: no variables, no $ij, no globals
	EvalDone bool   `json:"evalDone,omitempty"`
	EvalErr  bool   `json:"evalErr,omitempty"`
	EvalOut  string `json:"evalOut,omitempty"`
	EvalNil  bool   `json:"evalNil,omitempty"`
}

// RunExprCase compiles and renders the case with the real code.
func RunExprCase(c *ExprCase, explicitPrint bool) {
	vars := ExprVars(c.E)
	c.File = ExprTemplate(c.Src, vars, explicitPrint)
	globals := ToDataMap(c.Env.Glob)
	if c.GlobText != "" {
		g, gerr := soy.ParseGlobals(strings.NewReader(c.GlobText))
		if gerr != nil {
			c.Obs = Obs{Err: true, CompileErr: "ParseGlobals: " + gerr.Error()}
			return
		}
		globals = g
	}
	comp, err, _ := Compile([]File{{"t.soy", c.File}}, globals)
	if err != nil {
		c.Obs = Obs{Err: true, CompileErr: err.Error()}
		return
	}
	var ij data.Map
	if c.Env.IJ != nil {
		ij = ToDataMap(c.Env.IJ)
	}
	SetCurrent(c.File)
	res := comp.RenderWatch("t.m", ToDataMap(c.Env.Vars), ij, 20*time.Second)
	if res.Hung {
		c.Obs = Obs{Err: true, ErrText: "HUNG: " + res.ErrS(), Hung: true}
		return
	}
	c.Obs = Obs{Err: res.Err != nil, Out: res.Out, ErrText: res.ErrS(), Panicked: res.Panicked}
	if res.Err != nil {
		c.Obs.Out = res.Out
	}
	if len(vars) == 0 && len(c.Env.Glob) == 0 && !usesIJ(c.E) && c.GlobText == "" {
		standaloneEval(c)
	}
}

func usesIJ(e E) bool {
	b, _ := json.Marshal(e)
	return strings.Contains(string(b), `"name":"ij"`) || strings.Contains(string(b), `"k":"global"`)
}

// standaloneEval evaluates the case's source with parse.Expr + soyhtml.EvalExpr,
// the entry point for expressions outside templates (globals files use it).
func standaloneEval(c *ExprCase) {
	defer func() {
		if r := recover(); r != nil {
			c.Obs.EvalDone, c.Obs.EvalErr, c.Obs.EvalOut = true, true, fmt.Sprint("PANIC: ", r)
		}
	}()
	node, err := parse.Expr(c.Src)
	if err != nil {
		c.Obs.EvalDone, c.Obs.EvalErr, c.Obs.EvalOut = true, true, "parse: "+err.Error()
		return
	}
	v, err := soyhtml.EvalExpr(node)
	c.Obs.EvalDone, c.Obs.EvalErr = true, err != nil
	if err == nil {
		if v == nil {
			c.Obs.EvalNil = true
		} else {
			c.Obs.EvalOut = v.String()
		}
	}
}

var reBad = regexp.MustCompile(`^<<"BAD", (\d+), (".*")>>$`)
var reDone = regexp.MustCompile(`^<<"DONE", (\d+), (\d+), (\d+), (\d+)>>$`)

// TraceStats summarises one validation run.
type TraceStats struct {
	Lines, Bad, Unspec, ExpErr int
}

// ValidateExprTrace asks TLC whether each observed case is a behaviour of
// SoyExpr. It returns, for rejected cases, index -> expected outcome (JSON).
func (c *Ctx) ValidateExprTrace(cases []*ExprCase) (map[int]string, TraceStats, error) {
	var buf bytes.Buffer
	for _, cs := range cases {
		line := map[string]interface{}{
			"e": cs.E, "vars": cs.Env.Vars, "ij": cs.Env.IJV(), "glob": cs.Env.Glob,
			"obs": map[string]interface{}{"err": cs.Obs.Err, "out": cs.Obs.Out},
		}
		b, err := json.Marshal(line)
		if err != nil {
			return nil, TraceStats{}, err
		}
		buf.Write(b)
		buf.WriteByte('\n')
	}
	cfg := "INIT Init\nNEXT Next\nINVARIANT Report\nPOSTCONDITION TraceAccepted\nCHECK_DEADLOCK FALSE\n"
	res, err := c.RunTLC(TLCOpts{Module: "C01Trace", Cfg: cfg, Files: map[string][]byte{"c01_trace.ndjson": buf.Bytes()},
		Workers: 1, Timeout: 10 * time.Minute, Label: "trace-validation"})
	if err != nil {
		return nil, TraceStats{}, err
	}
	if res.Violated != "" {
		return nil, TraceStats{}, fmt.Errorf("trace spec reported %s: %s", res.Violated, trunc(res.Trace, 500))
	}
	bad := map[int]string{}
	var st TraceStats
	done := false
	for _, t := range res.Tuples {
		if m := reBad.FindStringSubmatch(t); m != nil {
			i, _ := strconv.Atoi(m[1])
			bad[i-1] = TLAUnquote(m[2])
		} else if m := reDone.FindStringSubmatch(t); m != nil {
			done = true
			st.Lines, _ = strconv.Atoi(m[1])
			st.Bad, _ = strconv.Atoi(m[2])
			st.Unspec, _ = strconv.Atoi(m[3])
			st.ExpErr, _ = strconv.Atoi(m[4])
		}
	}
	if !done || st.Lines != len(cases) {
		return nil, st, fmt.Errorf("trace validation did not consume the whole trace (%d of %d): %s", st.Lines, len(cases), tail(res.Stdout, 600))
	}
	c.AddTraces(int64(st.Lines - st.Unspec))
	return bad, st, nil
}
