package core

import (
	"fmt"
	"math"
	"sort"

	"github.com/robfig/soy/ast"
)

// FromAST converts a parsed expression of the real code to the spec's tree.
func FromAST(n ast.Node) E {
	switch n := n.(type) {
	case *ast.NullNode:
		return ENull()
	case *ast.BoolNode:
		return EBool(n.True)
	case *ast.IntNode:
		return EInt(int(n.Value))
	case *ast.FloatNode:
		// exact dyadic form if it has one within 30 binary digits
		f := n.Value
		for sh := 0; sh <= 30; sh++ {
			x := f * math.Pow(2, float64(sh))
			if x == math.Trunc(x) && math.Abs(x) < 1e15 {
				return EFloat(int(x), sh)
			}
		}
		return E{"k": "float", "inexact": fmt.Sprint(f)}
	case *ast.StringNode:
		return EStr(n.Value)
	case *ast.ListLiteralNode:
		var items []E
		for _, it := range n.Items {
			items = append(items, FromAST(it))
		}
		return EList(items...)
	case *ast.MapLiteralNode:
		var keys []string
		for k := range n.Items {
			keys = append(keys, k)
		}
		sort.Strings(keys)
		var kv []interface{}
		for _, k := range keys {
			kv = append(kv, k, FromAST(n.Items[k]))
		}
		return EMap(kv...)
	case *ast.DataRefNode:
		var acc []E
		for _, a := range n.Access {
			switch a := a.(type) {
			case *ast.DataRefKeyNode:
				acc = append(acc, AKey(a.Key, a.NullSafe))
			case *ast.DataRefIndexNode:
				acc = append(acc, AIdx(a.Index, a.NullSafe))
			case *ast.DataRefExprNode:
				acc = append(acc, AExpr(FromAST(a.Arg), a.NullSafe))
			}
		}
		return EVar(n.Key, acc...)
	case *ast.GlobalNode:
		return EGlobal(n.Name)
	case *ast.FunctionNode:
		var args []E
		for _, a := range n.Args {
			args = append(args, FromAST(a))
		}
		return EFn(n.Name, args...)
	case *ast.NotNode:
		return ENot(FromAST(n.Arg))
	case *ast.NegateNode:
		return ENeg(FromAST(n.Arg))
	case *ast.TernNode:
		return ETern(FromAST(n.Arg1), FromAST(n.Arg2), FromAST(n.Arg3))
	case *ast.MulNode:
		return EBin("mul", FromAST(n.Arg1), FromAST(n.Arg2))
	case *ast.DivNode:
		return EBin("div", FromAST(n.Arg1), FromAST(n.Arg2))
	case *ast.ModNode:
		return EBin("mod", FromAST(n.Arg1), FromAST(n.Arg2))
	case *ast.AddNode:
		return EBin("add", FromAST(n.Arg1), FromAST(n.Arg2))
	case *ast.SubNode:
		return EBin("sub", FromAST(n.Arg1), FromAST(n.Arg2))
	case *ast.EqNode:
		return EBin("eq", FromAST(n.Arg1), FromAST(n.Arg2))
	case *ast.NotEqNode:
		return EBin("ne", FromAST(n.Arg1), FromAST(n.Arg2))
	case *ast.GtNode:
		return EBin("gt", FromAST(n.Arg1), FromAST(n.Arg2))
	case *ast.GteNode:
		return EBin("ge", FromAST(n.Arg1), FromAST(n.Arg2))
	case *ast.LtNode:
		return EBin("lt", FromAST(n.Arg1), FromAST(n.Arg2))
	case *ast.LteNode:
		return EBin("le", FromAST(n.Arg1), FromAST(n.Arg2))
	case *ast.OrNode:
		return EBin("or", FromAST(n.Arg1), FromAST(n.Arg2))
	case *ast.AndNode:
		return EBin("and", FromAST(n.Arg1), FromAST(n.Arg2))
	case *ast.ElvisNode:
		return EBin("elvis", FromAST(n.Arg1), FromAST(n.Arg2))
	}
	return E{"k": "unknown", "type": fmt.Sprintf("%T", n)}
}

// Canon renders a tree as a canonical string (for structural comparison).
func Canon(v interface{}) string {
	switch x := v.(type) {
	case map[string]interface{}:
		var ks []string
		for k := range x {
			if k == "spell" {
				continue
			}
			ks = append(ks, k)
		}
		sort.Strings(ks)
		s := "{"
		for _, k := range ks {
			s += k + ":" + Canon(x[k]) + ","
		}
		return s + "}"
	case []E:
		s := "["
		for _, c := range x {
			s += Canon(c) + ","
		}
		return s + "]"
	case []interface{}:
		s := "["
		for _, c := range x {
			s += Canon(c) + ","
		}
		return s + "]"
	case nil:
		return "[]"
	default:
		return fmt.Sprint(x)
	}
}
