package core

import (
	"math/rand"
	"sort"
	"strconv"
)

// Env is the data environment of one expression case.
type Env struct {
	Vars map[string]V
	IJ   map[string]V // nil = no injected data
	Glob map[string]V
}

// JSON returns the spec encoding of the environment parts.
func (e *Env) IJV() V {
	if e.IJ == nil {
		return V{"t": "none"}
	}
	return VMap(e.IJ)
}

// ExprGen generates random typed expression trees over an environment.
type ExprGen struct {
	R     *rand.Rand
	Env   *Env
	paths []path
	// NoFloatBig avoids floats whose text would be in exponent form etc.
	Wild float64 // probability of ignoring the wanted type
}

type path struct {
	e   E
	typ string
}

var strPool = []string{"", "a", "1", "<b>", "x&y", "é", "a'b", "q\"t", "two words", "日本", "back\\slash", "nl\nx", "tab\tx", "}", "{", "//c", "/*c*/", "0", "-1", "true"}
var keyPool = []string{"k", "a", "b", "zed", "Key_1"}

func typeOf(v V) string {
	if v["t"] == "bigint" {
		return "big"
	}
	return v["t"].(string)
}

// bigDigits returns the decimal digits of an integer between 2^31 and 2^53.
func bigDigits(r *rand.Rand) string {
	n := int64(1)<<31 + r.Int63n(int64(1)<<53-int64(1)<<31)
	switch r.Intn(6) {
	case 0:
		n = 1<<53 - 1
	case 1:
		n = 1 << 53
	case 2:
		n = 1 << 31
	}
	s := strconv.FormatInt(n, 10)
	if r.Intn(3) == 0 {
		s = "-" + s
	}
	return s
}

// RandValue produces a random Soy value of nesting depth <= d.
func RandValue(r *rand.Rand, d int) V {
	n := r.Intn(12)
	if d <= 0 && n >= 9 {
		n = r.Intn(9)
	}
	switch n {
	case 0:
		return VNull()
	case 1:
		return VBool(r.Intn(2) == 0)
	case 2, 3:
		return VInt(r.Intn(25) - 5)
	case 4:
		if r.Intn(3) == 0 {
			return VBigInt(bigDigits(r))
		}
		return VInt(r.Intn(60001) - 30000)
	case 5:
		return VFloat(r.Intn(4), 0)
	case 6:
		return VFloat(2*(r.Intn(4001)-2000)+1, 1+r.Intn(4))
	case 7, 8:
		return VStr(strPool[r.Intn(len(strPool))])
	case 9, 10:
		k := r.Intn(4)
		xs := []V{}
		for i := 0; i < k; i++ {
			xs = append(xs, RandValue(r, d-1))
		}
		return VList(xs...)
	default:
		k := r.Intn(4)
		m := map[string]V{}
		for i := 0; i < k; i++ {
			m[keyPool[r.Intn(len(keyPool))]] = RandValue(r, d-1)
		}
		return VMap(m)
	}
}

// RandEnv builds a random environment.
func RandEnv(r *rand.Rand) *Env {
	env := &Env{Vars: map[string]V{}, Glob: map[string]V{}}
	names := []string{"a", "b", "c", "s", "l", "m", "x", "y"}
	for _, n := range names {
		if r.Intn(8) == 0 {
			continue // undefined
		}
		var v V
		switch n {
		case "a", "b":
			if r.Intn(3) == 0 {
				v = VFloat(2*(r.Intn(2001)-1000)+1, 1+r.Intn(3))
			} else {
				v = VInt(r.Intn(41) - 10)
			}
		case "c":
			v = VBool(r.Intn(2) == 0)
		case "s":
			v = VStr(strPool[r.Intn(len(strPool))])
		case "l":
			k := r.Intn(4)
			xs := []V{}
			for i := 0; i < k; i++ {
				xs = append(xs, RandValue(r, 1))
			}
			v = VList(xs...)
		case "m":
			m := map[string]V{}
			for i, k := 0, r.Intn(4); i < k; i++ {
				m[keyPool[r.Intn(len(keyPool))]] = RandValue(r, 1)
			}
			v = VMap(m)
		default:
			v = RandValue(r, 2)
		}
		env.Vars[n] = v
	}
	if r.Intn(2) == 0 {
		env.IJ = map[string]V{}
		for i, k := 0, r.Intn(3); i < k; i++ {
			env.IJ[keyPool[r.Intn(len(keyPool))]] = RandValue(r, 1)
		}
	}
	env.Glob["G_INT"] = VInt(r.Intn(100))
	env.Glob["G_STR"] = VStr(strPool[r.Intn(len(strPool))])
	env.Glob["app.g.FLAG"] = VBool(r.Intn(2) == 0)
	env.Glob["G_F"] = VFloat(2*r.Intn(100)+1, 1)
	return env
}

// NewExprGen prepares the path table for env.
func NewExprGen(r *rand.Rand, env *Env) *ExprGen {
	g := &ExprGen{R: r, Env: env, Wild: 0.08}
	var names []string
	for n := range env.Vars {
		names = append(names, n)
	}
	sort.Strings(names)
	for _, n := range names {
		g.addPaths(EVar(n), env.Vars[n], 2)
	}
	if env.IJ != nil {
		g.addPaths(EVar("ij"), VMap(env.IJ), 2)
	}
	var gn []string
	for n := range env.Glob {
		gn = append(gn, n)
	}
	sort.Strings(gn)
	for _, n := range gn {
		g.paths = append(g.paths, path{EGlobal(n), typeOf(env.Glob[n])})
	}
	return g
}

func cloneAcc(e E, extra E) E {
	acc := append([]E{}, toEs(e["acc"])...)
	acc = append(acc, extra)
	return EVar(e["name"].(string), acc...)
}

func (g *ExprGen) addPaths(ref E, v V, depth int) {
	g.paths = append(g.paths, path{ref, typeOf(v)})
	if depth == 0 {
		return
	}
	switch typeOf(v) {
	case "list":
		for i, x := range v["v"].([]V) {
			g.addPaths(cloneAcc(ref, AIdx(i, false)), x, depth-1)
			g.addPaths(cloneAcc(ref, AExpr(EInt(i), false)), x, depth-1)
		}
	case "map":
		m := v["v"].(map[string]V)
		var ks []string
		for k := range m {
			ks = append(ks, k)
		}
		sort.Strings(ks)
		for _, k := range ks {
			g.addPaths(cloneAcc(ref, AKey(k, g.R.Intn(4) == 0)), m[k], depth-1)
			g.addPaths(cloneAcc(ref, AExpr(EStr(k), false)), m[k], depth-1)
		}
	}
}

func (g *ExprGen) pathOf(typs ...string) E {
	var c []E
	for _, p := range g.paths {
		for _, t := range typs {
			if p.typ == t {
				c = append(c, p.e)
			}
		}
	}
	if len(c) == 0 {
		return nil
	}
	return c[g.R.Intn(len(c))]
}

func (g *ExprGen) pick(n int) int { return g.R.Intn(n) }

// Gen generates an expression of the wanted type class:
// "num", "int", "bool", "str", "list", "map", "any".
func (g *ExprGen) Gen(want string, depth int) E {
	if g.R.Float64() < g.Wild {
		want = []string{"num", "int", "bool", "str", "list", "map", "any", "undef"}[g.pick(8)]
	}
	if depth <= 0 {
		return g.leaf(want)
	}
	switch want {
	case "int":
		switch g.pick(10) {
		case 0, 1:
			return g.leaf("int")
		case 2:
			return EBin("add", g.Gen("int", depth-1), g.Gen("int", depth-1))
		case 3:
			return EBin("sub", g.Gen("int", depth-1), g.Gen("int", depth-1))
		case 4:
			return EBin("mul", g.leaf("int"), g.Gen("int", depth-1))
		case 5:
			return EBin("mod", g.Gen("int", depth-1), g.leaf("int"))
		case 6:
			return ENeg(g.Gen("int", depth-1))
		case 7:
			fn := []string{"round", "floor", "ceiling"}[g.pick(3)]
			return EFn(fn, g.Gen("num", depth-1))
		case 8:
			return EFn("length", g.Gen("list", depth-1))
		default:
			return ETern(g.Gen("bool", depth-1), g.Gen("int", depth-1), g.Gen("int", depth-1))
		}
	case "num":
		switch g.pick(12) {
		case 0, 1:
			return g.leaf("num")
		case 2, 3:
			return g.Gen("int", depth)
		case 4:
			return EBin("add", g.Gen("num", depth-1), g.Gen("num", depth-1))
		case 5:
			return EBin("sub", g.Gen("num", depth-1), g.Gen("num", depth-1))
		case 6:
			return EBin("mul", g.leaf("num"), g.leaf("num"))
		case 7:
			return EBin("div", g.Gen("num", depth-1), []E{EInt(2), EInt(4), EInt(8), EFloat(1, 1), EInt(-2), g.leaf("num")}[g.pick(6)])
		case 8:
			return ENeg(g.Gen("num", depth-1))
		case 9:
			return EFn([]string{"min", "max"}[g.pick(2)], g.Gen("num", depth-1), g.Gen("num", depth-1))
		case 10:
			return EBin("elvis", g.Gen("any", depth-1), g.Gen("num", depth-1))
		default:
			return ETern(g.Gen("any", depth-1), g.Gen("num", depth-1), g.Gen("num", depth-1))
		}
	case "bool":
		switch g.pick(12) {
		case 0:
			return g.leaf("bool")
		case 1, 2:
			return EBin([]string{"lt", "gt", "le", "ge"}[g.pick(4)], g.Gen("num", depth-1), g.Gen("num", depth-1))
		case 3:
			if g.pick(6) == 0 {
				return EBin([]string{"eq", "ne"}[g.pick(2)], g.bigLeaf(), g.bigLeaf())
			}
			t := []string{"num", "str", "bool", "int"}[g.pick(4)]
			return EBin([]string{"eq", "ne"}[g.pick(2)], g.Gen(t, depth-1), g.Gen(t, depth-1))
		case 4:
			return EBin([]string{"eq", "ne"}[g.pick(2)], g.Gen("any", depth-1), g.leaf("any"))
		case 5, 6:
			return EBin([]string{"and", "or"}[g.pick(2)], g.Gen("any", depth-1), g.Gen("any", depth-1))
		case 7:
			return ENot(g.Gen("any", depth-1))
		case 8:
			return EFn("isNonnull", g.Gen("any", depth-1))
		case 9:
			return EFn("strContains", g.Gen("str", depth-1), g.leaf("str"))
		case 10:
			return EFn("hasData")
		default:
			return ETern(g.Gen("bool", depth-1), g.Gen("bool", depth-1), g.Gen("bool", depth-1))
		}
	case "str":
		switch g.pick(6) {
		case 0, 1:
			return g.leaf("str")
		case 2:
			return EBin("add", g.Gen("str", depth-1), g.Gen("any", depth-1))
		case 3:
			return EBin("add", g.Gen("any", depth-1), g.Gen("str", depth-1))
		case 4:
			return EBin("elvis", g.Gen("any", depth-1), g.Gen("str", depth-1))
		default:
			return ETern(g.Gen("any", depth-1), g.Gen("str", depth-1), g.Gen("str", depth-1))
		}
	case "list":
		switch g.pick(5) {
		case 0, 1:
			return g.leaf("list")
		case 2:
			n := g.pick(4)
			var items []E
			for i := 0; i < n; i++ {
				items = append(items, g.Gen("any", depth-1))
			}
			return EList(items...)
		case 3:
			switch g.pick(3) {
			case 0:
				return EFn("range", g.leafSmallInt())
			case 1:
				return EFn("range", g.leafSmallInt(), g.leafSmallInt())
			default:
				return EFn("range", g.leafSmallInt(), g.leafSmallInt(), EInt(1+g.pick(3)))
			}
		default:
			return EFn("keys", g.Gen("map", depth-1))
		}
	case "map":
		switch g.pick(4) {
		case 0, 1:
			return g.leaf("map")
		case 2:
			n := g.pick(3)
			var kv []interface{}
			used := map[string]bool{}
			for i := 0; i < n; i++ {
				k := keyPool[g.pick(len(keyPool))]
				if used[k] {
					continue
				}
				used[k] = true
				kv = append(kv, k, g.Gen("any", depth-1))
			}
			return EMap(kv...)
		default:
			return EFn("augmentMap", g.Gen("map", depth-1), g.Gen("map", depth-1))
		}
	case "undef":
		return EVar("undefinedVar")
	}
	// any
	return g.Gen([]string{"num", "int", "bool", "str", "str", "list", "map", "num"}[g.pick(8)], depth)
}

func (g *ExprGen) leafSmallInt() E { return EInt(g.pick(7) - 1) }

// bigLeaf is an integer beyond 32 bits: a literal, its negation or a path.
func (g *ExprGen) bigLeaf() E {
	if p := g.pathOf("big"); p != nil && g.pick(2) == 0 {
		return p
	}
	d := []string{"9007199254740991", "2147483648", "4294967296", "9007199254740992", "1099511627776"}[g.pick(5)]
	if g.pick(3) == 0 {
		return ENeg(EBigInt(d))
	}
	return EBigInt(d)
}

func (g *ExprGen) leaf(want string) E {
	usePath := g.pick(2) == 0
	switch want {
	case "int":
		if usePath {
			if p := g.pathOf("int"); p != nil {
				return p
			}
		}
		if g.pick(6) == 0 {
			return EInt(g.pick(60001) - 30000)
		}
		return EInt(g.pick(13) - 3)
	case "num":
		if usePath {
			if p := g.pathOf("int", "float"); p != nil {
				return p
			}
		}
		switch g.pick(8) {
		case 0, 1, 2, 3:
			return EInt(g.pick(13) - 3)
		case 4:
			return EFloat(g.pick(5), 0) // integral floats incl. 0.0
		}
		return EFloat(2*(g.pick(401)-200)+1, 1+g.pick(3))
	case "bool":
		if usePath {
			if p := g.pathOf("bool"); p != nil {
				return p
			}
		}
		return EBool(g.pick(2) == 0)
	case "str":
		if usePath {
			if p := g.pathOf("str"); p != nil {
				return p
			}
		}
		return EStr(strPool[g.pick(len(strPool))])
	case "list":
		if p := g.pathOf("list"); p != nil && usePath {
			return p
		}
		return EList(EInt(g.pick(5)), EStr("a"))
	case "map":
		if p := g.pathOf("map"); p != nil && usePath {
			return p
		}
		return EMap("k", EInt(g.pick(5)))
	case "undef":
		return EVar("undefinedVar")
	}
	// any: a path of any type, null, or a missing reference
	if g.pick(12) == 0 {
		return g.bigLeaf()
	}
	switch g.pick(8) {
	case 0:
		return ENull()
	case 1:
		return EVar("undefinedVar")
	case 2:
		if len(g.paths) > 0 {
			// out-of-range / missing access on some path
			p := g.paths[g.pick(len(g.paths))]
			if p.e["k"] == "var" {
				return cloneAcc(p.e, []E{AKey("nokey", false), AKey("nokey", true), AIdx(7, false), AIdx(0, true)}[g.pick(4)])
			}
		}
		return ENull()
	default:
		if len(g.paths) > 0 {
			return g.paths[g.pick(len(g.paths))].e
		}
		return g.leaf([]string{"int", "str", "bool"}[g.pick(3)])
	}
}
