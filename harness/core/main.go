package core

import (
	"fmt"
	"os"
	"runtime"
	"sync/atomic"
	"time"
)

var current atomic.Value

// SetCurrent records a description of the case being executed, for the
// memory/hang watchdog's diagnostic.
func SetCurrent(desc string) { current.Store(desc) }

// memWatch aborts the checker (exit 2, tool trouble) when the heap explodes,
// which happens when the code under test loops while allocating.
func memWatch(id string) {
	limit := uint64(12) << 30
	for {
		time.Sleep(250 * time.Millisecond)
		var m runtime.MemStats
		runtime.ReadMemStats(&m)
		if m.HeapAlloc > limit {
			cur, _ := current.Load().(string)
			fmt.Printf("TOOL-ERROR: property=%s heap above 12 GiB, aborting; current case: %.2000s\n", id, cur)
			os.Exit(2)
		}
	}
}

// Main is the entry point of a per-property checker binary:
//
//	<bin> quick|thorough [--replay path]
func Main(id, level string, run func(*Ctx)) {
	tier := "quick"
	if len(os.Args) >= 2 {
		tier = os.Args[1]
	}
	if tier != "quick" && tier != "thorough" {
		fmt.Fprintln(os.Stderr, "usage: check <Cxx> quick|thorough [--replay path]")
		os.Exit(2)
	}
	go memWatch(id)
	ctx := NewCtx(id, tier, level)
	for i := 2; i+1 < len(os.Args); i++ {
		if os.Args[i] == "--replay" {
			ctx.ReplayPath = os.Args[i+1]
		}
	}
	func() {
		defer func() {
			if p := recover(); p != nil {
				ctx.ToolError("harness panic: %v", p)
				ctx.Finish()
				panic(p)
			}
		}()
		run(ctx)
	}()
	os.Exit(ctx.Finish())
}
