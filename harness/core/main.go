package core

import (
	"fmt"
	"os"
)

// Main is the entry point of a per-property checker binary:
//   <bin> quick|thorough [--replay path]
func Main(id, level string, run func(*Ctx)) {
	tier := "quick"
	if len(os.Args) >= 2 {
		tier = os.Args[1]
	}
	if tier != "quick" && tier != "thorough" {
		fmt.Fprintln(os.Stderr, "usage: check <Cxx> quick|thorough [--replay path]")
		os.Exit(2)
	}
	ctx := NewCtx(id, tier, level)
	for i := 2; i+1 < len(os.Args); i++ {
		if os.Args[i] == "--replay" {
			ctx.ReplayPath = os.Args[i+1]
		}
	}
	func() {
		defer func() {
			if p := recover(); p != nil {
				ctx.ToolError("harness panic: %v", p)
				ctx.Finish()
				panic(p)
			}
		}()
		run(ctx)
	}()
	os.Exit(ctx.Finish())
}
