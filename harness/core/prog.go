package core

import (
	"fmt"
	"sort"
	"strings"
)

// Cmd is a command of the spec's command AST (see SoyExec.tla).
type Cmd = map[string]interface{}

// Param is a declared template parameter.
type Param struct {
	Name string `json:"name"`
	Opt  bool   `json:"opt"`
}

// Tmpl is one template of a bundle.
type Tmpl struct {
	Params []Param `json:"params"`
	Body   []Cmd   `json:"body"`
	NsA    string  `json:"nsa"`  // namespace autoescape attribute ("" = unspecified)
	TA     string  `json:"ta"`   // template autoescape attribute
	Both   bool    `json:"both"` // declare the first param in soydoc AND the rest as header params (invalid Soy)
	// unparse-only fields
	Hdr bool `json:"-"` // declare params with {@param} instead of soydoc
	// HdrDefault spells required header params with a default value
	// ({@param x: any = 1}); the implementation parses and ignores it.
	HdrDefault bool `json:"-"`
	// Sp selects among equivalent spellings of the template tag and of its
	// param declarations (spacing around ':' in {@param}, declared types,
	// private="false", attribute order, soydoc descriptions)
	Sp int `json:"-"`
	Private    bool `json:"-"`
}

// Program is a bundle plus the entry point and its inputs.
type Program struct {
	Bundle map[string]*Tmpl       `json:"bundle"` // fully-qualified name -> template
	Entry  string                 `json:"entry"`
	Data   map[string]V           `json:"data"`
	IJ     V                      `json:"ij"` // {"t":"none"} or a map value
	Glob   map[string]V           `json:"glob"`
	Plan   map[string]interface{} `json:"plan"`
	// unparse-only
	Aliases map[string]bool `json:"-"` // namespaces referred to through {alias}
	// Prologue: texts written before {namespace} of the 1st, 2nd, ... file
	Prologue []string `json:"-"`
}

// Constructors for commands.
func CText(s string) Cmd { return Cmd{"k": "text", "s": s} }
func CPrint(e E, dirs ...Cmd) Cmd {
	if dirs == nil {
		dirs = []Cmd{}
	}
	return Cmd{"k": "print", "e": e, "dirs": dirs}
}
func CDir(name string, args ...E) Cmd {
	if args == nil {
		args = []E{}
	}
	return Cmd{"name": name, "args": args}
}
func body(b []Cmd) []Cmd {
	if b == nil {
		return []Cmd{}
	}
	return b
}
func Opt(has bool, b []Cmd) Cmd { return Cmd{"has": has, "body": body(b)} }
func CIf(brs []Cmd, els Cmd) Cmd {
	return Cmd{"k": "if", "brs": brs, "els": els}
}
func CBr(c E, b []Cmd) Cmd { return Cmd{"c": c, "body": body(b)} }
func CSwitch(e E, cases []Cmd, def Cmd) Cmd {
	if cases == nil {
		cases = []Cmd{}
	}
	return Cmd{"k": "switch", "e": e, "cases": cases, "def": def}
}
func CCase(vals []E, b []Cmd) Cmd { return Cmd{"vals": vals, "body": body(b)} }
func CForeach(kw, v string, e E, b []Cmd, empty Cmd) Cmd {
	return Cmd{"k": "foreach", "kw": kw, "var": v, "e": e, "body": body(b), "empty": empty}
}
func CLetV(name string, e E) Cmd     { return Cmd{"k": "letv", "name": name, "e": e} }
func CLetC(name string, b []Cmd) Cmd { return Cmd{"k": "letc", "name": name, "body": body(b)} }
func CCall(tmpl, data string, de E, params ...Cmd) Cmd {
	if params == nil {
		params = []Cmd{}
	}
	if de == nil {
		de = ENull()
	}
	return Cmd{"k": "call", "tmpl": tmpl, "data": data, "de": de, "params": params}
}
func CPV(key string, e E) Cmd     { return Cmd{"k": "pv", "key": key, "e": e} }
func CPC(key string, b []Cmd) Cmd { return Cmd{"k": "pc", "key": key, "body": body(b)} }
func CCss(e E, suffix string) Cmd {
	if e == nil {
		return Cmd{"k": "css", "has": false, "e": ENull(), "suffix": suffix}
	}
	return Cmd{"k": "css", "has": true, "e": e, "suffix": suffix}
}
func CLog(b []Cmd) Cmd { return Cmd{"k": "log", "body": body(b)} }
func CDebugger() Cmd   { return Cmd{"k": "debugger"} }
func CMsg(desc string, b []Cmd) Cmd {
	return Cmd{"k": "msg", "desc": desc, "body": body(b)}
}

func toCmds(v interface{}) []Cmd {
	switch x := v.(type) {
	case []Cmd:
		return x
	case []interface{}:
		r := make([]Cmd, len(x))
		for i := range x {
			r[i] = x[i].(Cmd)
		}
		return r
	case nil:
		return nil
	}
	panic(fmt.Sprintf("toCmds: %T", v))
}

// Namespace returns the namespace part of a fully-qualified template name.
func Namespace(fq string) string {
	i := strings.LastIndex(fq, ".")
	return fq[:i]
}

// Short returns the last segment of a fully-qualified template name.
func Short(fq string) string {
	i := strings.LastIndex(fq, ".")
	return fq[i+1:]
}

// UnparseProgram renders the bundle as Soy source files, one per namespace,
// named <namespace>.soy, templates in name order. Each template body is put on
// a single line so that no line-joining whitespace is introduced.
func UnparseProgram(p *Program, st Style) []File {
	byNs := map[string][]string{}
	for name := range p.Bundle {
		ns := Namespace(name)
		byNs[ns] = append(byNs[ns], name)
	}
	var nss []string
	for ns := range byNs {
		nss = append(nss, ns)
	}
	sort.Strings(nss)
	var files []File
	for _, ns := range nss {
		names := byNs[ns]
		sort.Strings(names)
		var b strings.Builder
		nsa := p.Bundle[names[0]].NsA
		// what may precede {namespace}: comments of every kind and blank lines
		// (a licence header); chosen per file from the program's prologue list
		if len(p.Prologue) > 0 {
			b.WriteString(p.Prologue[len(files)%len(p.Prologue)])
		}
		b.WriteString("{namespace " + ns)
		if nsa != "" {
			b.WriteString(` autoescape="` + nsa + `"`)
		}
		b.WriteString("}\n")
		var aliased []string
		for a, on := range p.Aliases {
			if on && a != ns {
				aliased = append(aliased, a)
			}
		}
		sort.Strings(aliased)
		for _, a := range aliased {
			b.WriteString("{alias " + a + "}\n")
		}
		for _, name := range names {
			t := p.Bundle[name]
			b.WriteString("\n")
			if t.Both && len(t.Params) >= 2 {
				b.WriteString("/**\n * @param " + t.Params[0].Name + "\n */\n")
			} else if !t.Hdr {
				b.WriteString("/**\n")
				for _, pa := range t.Params {
					desc := []string{"", " the " + pa.Name + " to show.", "\t(optional text)", "  - @see other"}[(t.Sp+len(pa.Name))%4]
					if pa.Opt {
						b.WriteString(" * @param? " + pa.Name + desc + "\n")
					} else {
						b.WriteString(" * @param " + pa.Name + desc + "\n")
					}
				}
				b.WriteString(" */\n")
			}
			b.WriteString("{template ." + Short(name))
			var attrs []string
			if t.TA != "" {
				attrs = append(attrs, ` autoescape="`+t.TA+`"`)
			}
			if t.Private {
				attrs = append(attrs, ` private="true"`)
			} else if t.Sp%3 == 1 {
				attrs = append(attrs, ` private="false"`)
			}
			if t.Sp%2 == 1 && len(attrs) == 2 {
				attrs[0], attrs[1] = attrs[1], attrs[0]
			}
			b.WriteString(strings.Join(attrs, ""))
			if t.Sp%5 == 4 {
				b.WriteString(" ")
			}
			b.WriteString("}\n")
			hdrForm := []string{"{@param%s %s: %s}\n", "{@param%s %s : %s}\n", "{@param%s  %s:%s}\n", "{@param%s %s: %s }\n", "{@param%s\t%s:\t%s}\n"}[t.Sp%5]
			hdrType := []string{"any", "string", "?", "int"}[(t.Sp/5)%4]
			if t.Both && len(t.Params) >= 2 {
				for _, pa := range t.Params[1:] {
					b.WriteString(fmt.Sprintf(hdrForm, "", pa.Name, hdrType))
				}
			} else if t.Hdr {
				for _, pa := range t.Params {
					if pa.Opt {
						b.WriteString(fmt.Sprintf(hdrForm, "?", pa.Name, hdrType))
					} else if t.HdrDefault {
						b.WriteString("{@param " + pa.Name + ": any = 1}\n")
					} else {
						b.WriteString(fmt.Sprintf(hdrForm, "", pa.Name, hdrType))
					}
				}
			}
			b.WriteString(UnparseCmds(t.Body, ns, p, st))
			b.WriteString("\n{/template}\n")
		}
		files = append(files, File{Name: ns + ".soy", Text: b.String()})
	}
	return files
}

// UnparseCmds renders a command sequence.
func UnparseCmds(cmds []Cmd, ns string, p *Program, st Style) string {
	var b strings.Builder
	for _, c := range cmds {
		b.WriteString(UnparseCmd(c, ns, p, st))
	}
	return b.String()
}

func optBody(c Cmd, key string) (bool, []Cmd) {
	o := c[key].(Cmd)
	return o["has"].(bool), toCmds(o["body"])
}

// TextSpell spells raw text so that the parser yields exactly s.
func TextSpell(s string) string {
	var b strings.Builder
	for _, r := range s {
		switch r {
		case '{':
			b.WriteString("{lb}")
		case '}':
			b.WriteString("{rb}")
		case ' ':
			b.WriteString("{sp}")
		case '\n':
			b.WriteString("{\\n}")
		case '\r':
			b.WriteString("{\\r}")
		case '\t':
			b.WriteString("{\\t}")
		default:
			b.WriteRune(r)
		}
	}
	return b.String()
}

// aliasFor returns the shortest aliased namespace (other than the current
// file's own) that is the callee's namespace or a dotted prefix of it.
func aliasFor(p *Program, fq, ns string) string {
	best := ""
	for a, on := range p.Aliases {
		if !on || a == ns {
			continue
		}
		if strings.HasPrefix(fq, a+".") && (best == "" || len(a) < len(best)) {
			best = a
		}
	}
	return best
}

// UnparseCmd renders one command.
func UnparseCmd(c Cmd, ns string, p *Program, st Style) string {
	ex := func(e interface{}) string { return Unparse(e.(E), st) }
	sub := func(v interface{}) string { return UnparseCmds(toCmds(v), ns, p, st) }
	switch c["k"].(string) {
	case "text":
		if sp, ok := c["spell"].(string); ok {
			return sp
		}
		return TextSpell(c["s"].(string))
	case "print":
		s := "{"
		if c["explicit"] == true {
			s = "{print "
		}
		s += ex(c["e"])
		for _, d := range toCmds(c["dirs"]) {
			s += "|" + d["name"].(string)
			for i, a := range toEs(d["args"]) {
				if i == 0 {
					s += ":"
				} else {
					s += ","
				}
				s += Unparse(a, st)
			}
		}
		return s + "}"
	case "if":
		var b strings.Builder
		for i, br := range toCmds(c["brs"]) {
			if i == 0 {
				b.WriteString("{if " + ex(br["c"]) + "}")
			} else {
				b.WriteString("{elseif " + ex(br["c"]) + "}")
			}
			b.WriteString(sub(br["body"]))
		}
		if has, body := optBody(c, "els"); has {
			b.WriteString("{else}" + UnparseCmds(body, ns, p, st))
		}
		b.WriteString("{/if}")
		return b.String()
	case "switch":
		var b strings.Builder
		b.WriteString("{switch " + ex(c["e"]) + "}")
		for _, cs := range toCmds(c["cases"]) {
			var vs []string
			for _, v := range toEs(cs["vals"]) {
				vs = append(vs, Unparse(v, st))
			}
			b.WriteString("{case " + strings.Join(vs, ", ") + "}" + sub(cs["body"]))
		}
		if has, body := optBody(c, "def"); has {
			b.WriteString("{default}" + UnparseCmds(body, ns, p, st))
		}
		b.WriteString("{/switch}")
		return b.String()
	case "foreach":
		kw, _ := c["kw"].(string)
		if kw == "" {
			kw = "foreach"
		}
		s := "{" + kw + " $" + c["var"].(string) + " in " + ex(c["e"]) + "}" + sub(c["body"])
		if has, body := optBody(c, "empty"); has {
			s += "{ifempty}" + UnparseCmds(body, ns, p, st)
		}
		return s + "{/" + kw + "}"
	case "letv":
		return "{let $" + c["name"].(string) + ": " + ex(c["e"]) + " /}"
	case "letc":
		return "{let $" + c["name"].(string) + "}" + sub(c["body"]) + "{/let}"
	case "call":
		fq := c["tmpl"].(string)
		name := fq
		spell, _ := c["spell"].(string)
		switch {
		case spell == "fq":
		case (spell == "alias" || spell == "attr-alias") && p != nil && aliasFor(p, fq, ns) != "":
			// {alias a.b} lets "b.<rest>" name "a.b.<rest>": use the shortest
			// aliased namespace that is a prefix of the callee's, so that <rest>
			// may itself contain dots
			a := aliasFor(p, fq, ns)
			name = a[strings.LastIndex(a, ".")+1:] + fq[len(a):]
		case Namespace(fq) == ns:
			name = "." + Short(fq)
		}
		s := "{call " + name
		if spell == "attr" || spell == "attr-alias" {
			s = `{call name="` + name + `"`
		}
		switch c["data"].(string) {
		case "all":
			s += ` data="all"`
		case "expr":
			s += ` data="` + attrQuote(ex(c["de"])) + `"`
		}
		params := toCmds(c["params"])
		if len(params) == 0 {
			return s + " /}"
		}
		s += "}"
		for _, pa := range params {
			switch pa["k"].(string) {
			case "pv":
				v := ex(pa["e"])
				if c["paramattrs"] == true {
					s += "{param key=\"" + pa["key"].(string) + "\" value=\"" + attrQuote(v) + "\" /}"
				} else {
					s += "{param " + pa["key"].(string) + ": " + v + " /}"
				}
			case "pc":
				s += "{param " + pa["key"].(string) + "}" + sub(pa["body"]) + "{/param}"
			}
		}
		return s + "{/call}"
	case "css":
		if c["has"].(bool) {
			return "{css " + ex(c["e"]) + ", " + c["suffix"].(string) + "}"
		}
		return "{css " + c["suffix"].(string) + "}"
	case "log":
		return "{log}" + sub(c["body"]) + "{/log}"
	case "debugger":
		return "{debugger}"
	case "msg":
		desc, _ := c["desc"].(string)
		return `{msg desc="` + attrQuote(desc) + `"}` + sub(c["body"]) + "{/msg}"
	case "plural":
		s := "{plural " + ex(c["e"]) + "}"
		for _, cs := range toCmds(c["cases"]) {
			s += fmt.Sprintf("{case %d}", toInt(cs["n"])) + sub(cs["body"])
		}
		return s + "{default}" + sub(c["def"]) + "{/plural}"
	}
	panic("UnparseCmd: unknown command " + fmt.Sprint(c["k"]))
}

// attrQuote escapes an expression (or text) for use inside a double-quoted
// command attribute: backslash and double quote are written with a backslash.
func attrQuote(v string) string {
	return strings.NewReplacer(`\`, `\\`, `"`, `\"`).Replace(v)
}
