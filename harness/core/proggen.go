package core

import (
	"fmt"
	"math/rand"
	"sort"
)

// ProgGen generates random well-formed bundles over a tiny name pool so that
// params, lets and loop variables collide and shadow each other.
// Every name has a fixed type, so programs are well-typed by construction:
//
//	a, i, v : int     b, s : string     x : list of int     m : map of string     c : bool
type ProgGen struct {
	R *rand.Rand
	// options
	MaxDepth   int
	NoMsg      bool
	NoDirs     bool
	PlainText  bool // only letters in raw text (no HTML specials)
	Disjoint   bool // lets and loop variables never share a name with a param
	Rich       bool // also use $ij (injected data) and compile-time globals: the caller must supply Program.IJ / Program.Glob
	tmplNames  []string
	tmplParams map[string][]Param
	prog       *Program
	curParams  map[string]bool // params of the template being generated
	top        bool            // generating the template's top-level block
}

var nameType = map[string]string{"a": "int", "i": "int", "v": "int", "b": "str", "s": "str", "x": "list", "m": "map", "c": "bool",
	"la": "int", "li": "int", "lv": "int", "lb": "str", "ls": "str", "lx": "list", "lc": "bool"}

// disjoint pools: let/loop names that never coincide with a param name
var letPoolD = []string{"la", "lb", "lx", "lc", "ls"}
var loopPoolD = []string{"li", "lv"}
var paramPool = []string{"a", "b", "x", "m", "c", "s", "i"}
var letPool = []string{"a", "b", "x", "c", "s", "v"}
var loopPool = []string{"i", "v", "a"}
var textPool = []string{"t", "u", "w", "<b>", "&", "'q'", "z", "a b", " l", "r ", "{x}", "n\nn", "-"}
var strLits = []string{"p", "<i>", "q&r", "", "k", "s\"q", "b\\s"}

type gscope struct {
	names map[string]bool // visible names
	loops map[string]bool // visible loop variables (for isFirst etc.)
	opt   map[string]bool // optional params (may be undefined)
}

func (s *gscope) clone() *gscope {
	n := &gscope{map[string]bool{}, map[string]bool{}, map[string]bool{}}
	for k, v := range s.names {
		n.names[k] = v
	}
	for k, v := range s.loops {
		n.loops[k] = v
	}
	for k, v := range s.opt {
		n.opt[k] = v
	}
	return n
}

func (g *ProgGen) pick(n int) int { return g.R.Intn(n) }

func (g *ProgGen) visibleOf(sc *gscope, typ string) []string {
	var r []string
	for n := range sc.names {
		if nameType[n] == typ {
			r = append(r, n)
		}
	}
	sort.Strings(r)
	return r
}

// expr of the given type using visible names.
func (g *ProgGen) expr(sc *gscope, typ string, depth int) E {
	vs := g.visibleOf(sc, typ)
	useVar := len(vs) > 0 && g.pick(3) != 0
	ref := func() E {
		n := vs[g.pick(len(vs))]
		return EVar(n)
	}
	switch typ {
	case "int":
		if g.prog != nil && g.pick(9) == 0 {
			if g.prog.IJ["t"] == "map" && g.pick(2) == 0 {
				return EBin("elvis", EVar("ij", AKey("n", g.pick(2) == 0)), EInt(7))
			}
			if _, ok := g.prog.Glob["G_INT"]; ok {
				return EGlobal("G_INT")
			}
		}
		if useVar {
			if depth > 0 && g.pick(4) == 0 {
				return EBin([]string{"add", "sub", "mul"}[g.pick(3)], ref(), EInt(g.pick(4)))
			}
			return ref()
		}
		if depth > 0 {
			switch g.pick(6) {
			case 0:
				if l := g.visibleOf(sc, "list"); len(l) > 0 {
					return EFn("length", EVar(l[g.pick(len(l))]))
				}
			case 1:
				var lv []string
				for n := range sc.loops {
					lv = append(lv, n)
				}
				sort.Strings(lv)
				if len(lv) > 0 {
					return EFn("index", EVar(lv[g.pick(len(lv))]))
				}
			}
		}
		return EInt(g.pick(5))
	case "str":
		if g.prog != nil && g.pick(9) == 0 {
			if g.prog.IJ["t"] == "map" && g.pick(2) == 0 {
				return EBin("elvis", EVar("ij", AKey("k", false)), EStr("noij"))
			}
			if _, ok := g.prog.Glob["app.G_STR"]; ok {
				return EGlobal("app.G_STR")
			}
		}
		if useVar {
			if depth > 0 && g.pick(4) == 0 {
				return EBin("add", ref(), EStr(strLits[g.pick(len(strLits))]))
			}
			return ref()
		}
		if ms := g.visibleOf(sc, "map"); len(ms) > 0 && g.pick(3) == 0 {
			return EBin("elvis", EVar(ms[g.pick(len(ms))], AKey([]string{"b", "s", "k"}[g.pick(3)], g.pick(3) == 0)), EStr("d"))
		}
		return EStr(strLits[g.pick(len(strLits))])
	case "list":
		if useVar {
			return ref()
		}
		switch g.pick(5) {
		case 0:
			return EFn("range", EInt(g.pick(4)))
		case 1:
			return EList()
		case 2:
			return EFn("range", EInt(g.pick(3)), EInt(1+g.pick(4)))
		case 3:
			return EFn("range", EInt(g.pick(3)), EInt(2+g.pick(5)), EInt(1+g.pick(3)))
		}
		n := 1 + g.pick(3)
		var items []E
		for k := 0; k < n; k++ {
			items = append(items, EInt(g.pick(5)))
		}
		return EList(items...)
	case "map":
		if useVar {
			return ref()
		}
		return EMap("b", EStr(strLits[g.pick(len(strLits))]), "s", EStr("S"))
	case "bool":
		if useVar && g.pick(2) == 0 {
			return ref()
		}
		switch g.pick(7) {
		case 0:
			return EBool(g.pick(2) == 0)
		case 1:
			return EBin([]string{"eq", "ne"}[g.pick(2)], g.expr(sc, "int", 0), EInt(g.pick(3)))
		case 2:
			return EBin("eq", g.expr(sc, "str", 0), EStr(strLits[g.pick(len(strLits))]))
		case 3:
			return ENot(g.expr(sc, "bool", depth-1))
		case 4:
			var lv []string
			for n := range sc.loops {
				lv = append(lv, n)
			}
			sort.Strings(lv)
			if len(lv) > 0 {
				return EFn([]string{"isFirst", "isLast"}[g.pick(2)], EVar(lv[g.pick(len(lv))]))
			}
		case 5:
			return EBin([]string{"lt", "gt", "le", "ge"}[g.pick(4)], g.expr(sc, "int", 0), EInt(g.pick(4)))
		}
		// truthiness of some visible value
		var all []string
		for n := range sc.names {
			all = append(all, n)
		}
		sort.Strings(all)
		if len(all) > 0 {
			return EVar(all[g.pick(len(all))])
		}
		return EBool(true)
	}
	panic("expr: bad type " + typ)
}

// use produces a command that references name (and is safe to render).
func (g *ProgGen) use(sc *gscope, name string) Cmd {
	switch nameType[name] {
	case "list":
		return CPrint(EFn("length", EBin("elvis", EVar(name), EList())))
	case "map":
		return CPrint(EBin("elvis", EVar(name, AKey("b", true)), EStr("-")))
	}
	if sc.opt[name] {
		return CPrint(EBin("elvis", EVar(name), EStr("~")))
	}
	return CPrint(EVar(name))
}

func usesVar(cmds []Cmd, name string) bool {
	found := false
	var walk func(interface{})
	walk = func(v interface{}) {
		if found {
			return
		}
		switch x := v.(type) {
		case map[string]interface{}:
			if x["k"] == "var" && x["name"] == name {
				found = true
				return
			}
			for _, c := range x {
				walk(c)
			}
		case []Cmd:
			for _, c := range x {
				walk(c)
			}
		case []interface{}:
			for _, c := range x {
				walk(c)
			}
		}
	}
	walk(cmds)
	return found
}

func bindsName(cmds []Cmd, name string) bool {
	found := false
	var walk func(interface{})
	walk = func(v interface{}) {
		if found {
			return
		}
		switch x := v.(type) {
		case map[string]interface{}:
			if (x["k"] == "letv" || x["k"] == "letc") && x["name"] == name {
				found = true
				return
			}
			for _, c := range x {
				walk(c)
			}
		case []Cmd:
			for _, c := range x {
				walk(c)
			}
		case []interface{}:
			for _, c := range x {
				walk(c)
			}
		}
	}
	walk(cmds)
	return found
}

// block generates a block body: n commands, with lets declared in it used.
func (g *ProgGen) block(sc0 *gscope, depth int, self int) []Cmd {
	g.top = false
	sc := sc0.clone()
	n := 1 + g.pick(3)
	if depth <= 0 {
		n = 1 + g.pick(2)
	}
	var cmds []Cmd
	type letrec struct {
		name string
		at   int
	}
	var lets []letrec
	for k := 0; k < n; k++ {
		c := g.command(sc, depth, self)
		if c == nil {
			continue
		}
		cmds = append(cmds, c)
		if c["k"] == "letv" || c["k"] == "letc" {
			nm := c["name"].(string)
			lets = append(lets, letrec{nm, len(cmds)})
			sc.names[nm] = true
			delete(sc.opt, nm)
			delete(sc.loops, nm)
			// a use directly after the let, in the same block, is always
			// credited to this let by the checker
			cmds = append(cmds, g.use(sc, nm))
		}
	}
	for _, l := range lets {
		if !usesVar(cmds[l.at:], l.name) {
			cmds = append(cmds, g.use(sc, l.name))
		}
	}
	return cmds
}

func (g *ProgGen) text() Cmd {
	if g.PlainText {
		return CText([]string{"t", "u", "w", "z"}[g.pick(4)])
	}
	return CText(textPool[g.pick(len(textPool))])
}

func (g *ProgGen) command(sc *gscope, depth int, self int) Cmd {
	max := 14
	if depth <= 0 {
		max = 5
	}
	switch g.pick(max) {
	case 0, 1:
		return g.text()
	case 2, 3:
		// print something visible
		typ := []string{"int", "str", "str", "bool", "int"}[g.pick(5)]
		e := g.expr(sc, typ, 1)
		var dirs []Cmd
		if !g.NoDirs && g.pick(5) == 0 {
			dirs = append(dirs, CDir([]string{"noAutoescape", "escapeHtml", "id"}[g.pick(3)]))
		}
		c := CPrint(e, dirs...)
		if g.pick(4) == 0 {
			c["explicit"] = true
		}
		return c
	case 4:
		pool := letPool
		if g.Disjoint {
			pool = letPoolD
		}
		nm := pool[g.pick(len(pool))]
		return CLetV(nm, g.expr(sc, nameType[nm], 1))
	case 5:
		// if / elseif / else
		nbr := 1 + g.pick(2)
		var brs []Cmd
		for k := 0; k < nbr; k++ {
			brs = append(brs, CBr(g.expr(sc, "bool", 1), g.block(sc, depth-1, self)))
		}
		els := Opt(false, nil)
		if g.pick(2) == 0 {
			els = Opt(true, g.block(sc, depth-1, self))
		}
		return CIf(brs, els)
	case 6:
		// foreach
		lpool := loopPool
		if g.Disjoint {
			lpool = loopPoolD
		}
		lv := lpool[g.pick(len(lpool))]
		inner := sc.clone()
		inner.names[lv] = true
		inner.loops[lv] = true
		delete(inner.opt, lv)
		empty := Opt(false, nil)
		if g.pick(2) == 0 {
			empty = Opt(true, g.block(sc, depth-1, self))
		}
		return CForeach([]string{"foreach", "for"}[g.pick(2)], lv, g.expr(sc, "list", 1), g.block(inner, depth-1, self), empty)
	case 7:
		// switch on int or str
		typ := []string{"int", "str"}[g.pick(2)]
		subj := g.expr(sc, typ, 1)
		var cases []Cmd
		for k, n := 0, 1+g.pick(2); k < n; k++ {
			var vals []E
			for j, m := 0, 1+g.pick(3); j < m; j++ {
				if j > 0 && g.pick(2) == 0 {
					// a later value of {case a, b, c} that is an expression: a
					// data reference or (Rich) a global may occur ONLY here
					vals = append(vals, g.expr(sc, typ, 0))
				} else if typ == "int" {
					vals = append(vals, EInt(g.pick(4)))
				} else {
					vals = append(vals, EStr(strLits[g.pick(len(strLits))]))
				}
			}
			cases = append(cases, CCase(vals, g.block(sc, depth-1, self)))
		}
		def := Opt(false, nil)
		if g.pick(2) == 0 {
			def = Opt(true, g.block(sc, depth-1, self))
		}
		return CSwitch(subj, cases, def)
	case 8:
		nm := []string{"b", "s"}[g.pick(2)]
		if g.Disjoint {
			nm = []string{"lb", "ls"}[g.pick(2)]
		}
		return CLetC(nm, g.block(sc, depth-1, self))
	case 9, 10:
		return g.call(sc, depth, self)
	case 11:
		if g.pick(2) == 0 {
			return CCss(nil, "cls")
		}
		return CCss(g.expr(sc, "str", 0), "suf")
	case 12:
		return CLog(g.block(sc, depth-1, self))
	case 13:
		if g.NoMsg {
			return g.text()
		}
		switch g.pick(3) {
		case 0:
			return CMsg("d", []Cmd{Cmd{"k": "plural", "e": g.expr(sc, "int", 0),
				"cases": []Cmd{{"n": g.pick(3), "body": []Cmd{CText("one")}}},
				"def":   []Cmd{CText("many"), CPrint(g.expr(sc, "int", 0))}}})
		case 1:
			return CMsg("d", []Cmd{CText("M<b>"), CPrint(g.expr(sc, "str", 0)), CText("</b>N")})
		}
		return CMsg("d", []Cmd{CText("M"), CPrint(g.expr(sc, "str", 0)), CText("N")})
	}
	return g.text()
}

// call generates a call to a template with a smaller index (no recursion).
func (g *ProgGen) call(sc *gscope, depth int, self int) Cmd {
	if self == 0 {
		return g.text()
	}
	callee := g.tmplNames[g.pick(self)]
	cps := g.tmplParams[callee]
	mode := []string{"none", "none", "all", "expr"}[g.pick(4)]
	var params []Cmd
	passed := map[string]bool{}
	callerParams := map[string]bool{}
	for _, p := range g.tmplParams[g.tmplNames[self]] {
		callerParams[p.Name] = true
	}
	var de E
	if mode == "expr" {
		ms := g.visibleOf(sc, "map")
		if len(ms) == 0 {
			mode = "none"
		} else {
			de = EVar(ms[g.pick(len(ms))])
		}
	}
	for _, p := range cps {
		viaAll := mode == "all" && callerParams[p.Name]
		need := !p.Opt && !viaAll && mode != "expr"
		if need || g.pick(3) == 0 {
			passed[p.Name] = true
			if nameType[p.Name] == "str" && g.pick(2) == 0 {
				params = append(params, CPC(p.Name, g.block(sc, depth-1, self)))
			} else {
				params = append(params, CPV(p.Name, g.expr(sc, nameType[p.Name], 1)))
			}
		}
	}
	c := CCall(callee, mode, de, params...)
	switch g.pick(6) {
	case 0:
		c["spell"] = "fq"
	case 1:
		c["spell"] = "alias"
	case 2:
		c["spell"] = "attr"
	case 3:
		c["spell"] = "attr-alias"
	}
	if g.pick(4) == 0 {
		c["paramattrs"] = true // {param key="k" value="expr"/} spelling where possible
	}
	return c
}

// Value returns a random value of the fixed type of the given name.
func (g *ProgGen) Value(name string) V { return g.value(nameType[name]) }

// ExprOfName returns a literal expression of the fixed type of the given name.
func (g *ProgGen) ExprOfName(name string) E {
	return g.expr(&gscope{map[string]bool{}, map[string]bool{}, map[string]bool{}}, nameType[name], 0)
}

func (g *ProgGen) value(typ string) V {
	switch typ {
	case "int":
		return VInt(g.pick(4))
	case "str":
		return VStr([]string{"p", "<i>", "q&r", "", "s\"t"}[g.pick(5)])
	case "list":
		n := g.pick(4)
		xs := []V{}
		for k := 0; k < n; k++ {
			xs = append(xs, VInt(g.pick(5)))
		}
		return VList(xs...)
	case "map":
		m := map[string]V{}
		for _, k := range []string{"b", "s", "k"} {
			if g.pick(3) != 0 {
				m[k] = VStr([]string{"mb", "<m>", ""}[g.pick(3)])
			}
		}
		return VMap(m)
	case "bool":
		return VBool(g.pick(2) == 0)
	}
	panic("value")
}

// Gen builds one random program.
func (g *ProgGen) Gen() *Program {
	if g.MaxDepth == 0 {
		g.MaxDepth = 3
	}
	p := &Program{Bundle: map[string]*Tmpl{}, Glob: map[string]V{}, IJ: V{"t": "none"},
		Plan: map[string]interface{}{"kind": "none"}, Aliases: map[string]bool{}}
	g.prog = p
	if g.pick(3) == 0 {
		all := []string{"/** Copyright 2020 Example. */\n", "// line comment\n", "/* block\n comment */\n", "\n\n", "/**\n * @fileoverview x\n */\n\n// more\n", "  \n/** a */ /* b */\n", ""}
		for k := 0; k < 3; k++ {
			p.Prologue = append(p.Prologue, all[g.pick(len(all))])
		}
	}
	if g.Rich && g.pick(3) == 0 {
		p.IJ = VMap(map[string]V{"k": VStr("inj<k>"), "n": VInt(5)})
	}
	if g.Rich && g.pick(3) == 0 {
		p.Glob["G_INT"] = VInt(42)
		p.Glob["app.G_STR"] = VStr("g&s")
	}
	nt := 2 + g.pick(3)
	// namespaces: a deeper one under an aliased prefix, and one whose last
	// segment ("wo") occurs earlier as a substring ("two")
	nss := []string{"n.one", "n.two", "n.one.deep", "n.two.wo"}
	nsAttr := map[string]string{}
	for _, ns := range nss {
		nsAttr[ns] = []string{"", "", "true", "false", "contextual"}[g.pick(5)]
	}
	g.tmplNames = nil
	g.tmplParams = map[string][]Param{}
	for k := 0; k < nt; k++ {
		ns := nss[g.pick(len(nss))]
		name := fmt.Sprintf("%s.t%d", ns, k)
		g.tmplNames = append(g.tmplNames, name)
		// params
		np := g.pick(4)
		used := map[string]bool{}
		ps := []Param{}
		for j := 0; j < np; j++ {
			n := paramPool[g.pick(len(paramPool))]
			if used[n] {
				continue
			}
			used[n] = true
			ps = append(ps, Param{n, g.pick(4) == 0})
		}
		g.tmplParams[name] = ps
	}
	// header params may carry a default value (parsed, not applied by this
	// implementation: the param stays required)
	hdrDefault := g.pick(3) == 0
	p.Aliases["n.one"] = g.pick(2) == 0
	p.Aliases["n.two"] = g.pick(2) == 0
	p.Aliases["n.one.deep"] = g.pick(3) == 0
	p.Aliases["n.two.wo"] = g.pick(3) == 0
	for k, name := range g.tmplNames {
		ps := g.tmplParams[name]
		sc := &gscope{map[string]bool{}, map[string]bool{}, map[string]bool{}}
		for _, pa := range ps {
			sc.names[pa.Name] = true
			if pa.Opt {
				sc.opt[pa.Name] = true
			}
		}
		g.curParams = map[string]bool{}
		for _, pa := range ps {
			g.curParams[pa.Name] = true
		}
		g.top = true
		body := g.block(sc, g.MaxDepth, k)
		// the checker attributes a use to the innermost binder, so a param
		// shadowed by a let of the same name needs a use of its own: put it
		// first, before anything can shadow it.
		var pre []Cmd
		for _, pa := range ps {
			if !usesVar(body, pa.Name) || bindsName(body, pa.Name) {
				pre = append(pre, g.use(sc, pa.Name))
			}
		}
		body = append(pre, body...)
		p.Bundle[name] = &Tmpl{Params: ps, Body: body, NsA: nsAttr[Namespace(name)],
			TA: []string{"", "", "", "true", "false", "contextual"}[g.pick(6)], Hdr: g.pick(4) == 0, HdrDefault: hdrDefault, Sp: g.pick(20)}
	}
	p.Entry = g.tmplNames[nt-1]
	p.Data = map[string]V{}
	for _, pa := range g.tmplParams[p.Entry] {
		if pa.Opt && g.pick(3) == 0 {
			continue
		}
		p.Data[pa.Name] = g.value(nameType[pa.Name])
	}
	return p
}
