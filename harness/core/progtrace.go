package core

import (
	"bytes"
	"encoding/json"
	"fmt"
	"regexp"
	"strconv"
	"time"

	"github.com/robfig/soy/data"
)

// ProgCase is one observed render of a whole program by the real code.
type ProgCase struct {
	Family string   `json:"family"`
	Prog   *Program `json:"prog"`
	Files  []File   `json:"files"`
	Obs    Obs      `json:"obs"`
	ExpSt  string   `json:"expectedStatus,omitempty"`
	ExpOut string   `json:"expectedOut,omitempty"`
}

// RunProgCase unparses, compiles and renders the program with the real code.
func RunProgCase(c *ProgCase, st Style) {
	c.Files = UnparseProgram(c.Prog, st)
	comp, err, pan := Compile(c.Files, ToDataMap(c.Prog.Glob))
	if err != nil {
		c.Obs = Obs{Err: true, CompileErr: err.Error(), Panicked: pan}
		return
	}
	var ij data.Map
	if c.Prog.IJ["t"] == "map" {
		ij = ToDataMap(c.Prog.IJ["v"])
	}
	SetCurrent(fmt.Sprint(c.Files))
	res := comp.RenderWatch(c.Prog.Entry, ToDataMap(c.Prog.Data), ij, 10*time.Second)
	c.Obs = Obs{Err: res.Err != nil, Out: res.Out, ErrText: res.ErrS(), Panicked: res.Panicked, Hung: res.Hung}
}

var reBad2 = regexp.MustCompile(`^<<"BAD", (\d+), "(\w+)", (".*")>>$`)
var reDone2 = regexp.MustCompile(`^<<"DONE", (\d+), (\d+), (\d+)>>$`)

// ValidateProgTrace has TLC run the reference interpreter (SoyExec) on every
// recorded program and compare the outcome with the observation. Returns for
// rejected cases index -> (status, out) expected by the spec.
func (c *Ctx) ValidateProgTrace(cases []*ProgCase, dev string) (map[int][2]string, TraceStats, error) {
	var buf bytes.Buffer
	for _, cs := range cases {
		line := map[string]interface{}{
			"prog": cs.Prog,
			"obs":  map[string]interface{}{"err": cs.Obs.Err, "out": cs.Obs.Out},
		}
		b, err := json.Marshal(line)
		if err != nil {
			return nil, TraceStats{}, err
		}
		buf.Write(b)
		buf.WriteByte('\n')
	}
	cfg := "CONSTANT Dev = {" + dev + "}\nINIT TInit\nNEXT TNext\nINVARIANT Report\nINVARIANT FramesOK\nINVARIANT InputUnchanged\nCHECK_DEADLOCK FALSE\n"
	res, err := c.RunTLC(TLCOpts{Module: "C02Trace", Cfg: cfg, Files: map[string][]byte{"c02_trace.ndjson": buf.Bytes()},
		Workers: 1, Timeout: 10 * time.Minute, Label: "exec-trace-validation"})
	if err != nil {
		return nil, TraceStats{}, err
	}
	if res.Violated != "" {
		return nil, TraceStats{}, fmt.Errorf("reference interpreter violates %s on a recorded program: %s", res.Violated, trunc(res.Trace, 800))
	}
	bad := map[int][2]string{}
	var st TraceStats
	done := false
	for _, t := range res.Tuples {
		if m := reBad2.FindStringSubmatch(t); m != nil {
			i, _ := strconv.Atoi(m[1])
			var o struct{ Out string }
			json.Unmarshal([]byte(TLAUnquote(m[3])), &o)
			bad[i-1] = [2]string{m[2], o.Out}
		} else if m := reDone2.FindStringSubmatch(t); m != nil {
			done = true
			st.Lines, _ = strconv.Atoi(m[1])
			st.Bad, _ = strconv.Atoi(m[2])
			st.Unspec, _ = strconv.Atoi(m[3])
		}
	}
	if !done || st.Lines != len(cases) {
		return nil, st, fmt.Errorf("exec trace validation did not consume the whole trace (%d of %d): %s", st.Lines, len(cases), tail(res.Stdout, 800))
	}
	c.AddTraces(int64(st.Lines - st.Unspec))
	return bad, st, nil
}
