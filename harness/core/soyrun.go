package core

import (
	"bytes"
	"fmt"
	"io"
	"strings"
	"time"

	"github.com/robfig/soy"
	"github.com/robfig/soy/data"
	"github.com/robfig/soy/soyhtml"
	"github.com/robfig/soy/template"
)

// File is one Soy source file.
type File struct {
	Name string `json:"name"`
	Text string `json:"text"`
}

// Compiled is a compiled bundle.
type Compiled struct {
	Tofu     *soyhtml.Tofu
	Registry *template.Registry
}

// Compile compiles files with globals; a panic is returned as an error with
// Panicked set.
func Compile(files []File, globals data.Map) (c *Compiled, err error, panicked bool) {
	defer func() {
		if r := recover(); r != nil {
			err = fmt.Errorf("PANIC in compile: %v", r)
			panicked = true
		}
	}()
	b := soy.NewBundle()
	for _, f := range files {
		b.AddTemplateString(f.Name, f.Text)
	}
	if globals != nil {
		b.AddGlobalsMap(globals)
	}
	reg, err := b.Compile()
	if err != nil {
		return nil, err, false
	}
	return &Compiled{soyhtml.NewTofu(reg), reg}, nil, false
}

// RenderResult is the observable outcome of one render.
type RenderResult struct {
	Out      string
	Err      error
	Panicked bool
	Hung     bool
}

// ErrS returns the error text or "".
func (r RenderResult) ErrS() string {
	if r.Err == nil {
		return ""
	}
	return r.Err.Error()
}

// Render renders template name to a buffer. Panics escaping Execute are
// captured (Panicked). No watchdog (see RenderWatch).
func (c *Compiled) Render(name string, d data.Map, ij data.Map) (res RenderResult) {
	var buf bytes.Buffer
	res = c.RenderTo(&buf, name, d, ij)
	res.Out = buf.String()
	return
}

// RenderTo renders into w.
func (c *Compiled) RenderTo(w io.Writer, name string, d data.Map, ij data.Map) (res RenderResult) {
	defer func() {
		if r := recover(); r != nil {
			res.Err = fmt.Errorf("PANIC in render: %v", r)
			res.Panicked = true
		}
	}()
	r := c.Tofu.NewRenderer(name)
	if ij != nil {
		r.Inject(ij)
	}
	res.Err = r.Execute(w, d)
	return
}

// RenderWatch renders in a goroutine with a watchdog.
func (c *Compiled) RenderWatch(name string, d data.Map, ij data.Map, limit time.Duration) RenderResult {
	ch := make(chan RenderResult, 1)
	go func() { ch <- c.Render(name, d, ij) }()
	select {
	case r := <-ch:
		return r
	case <-time.After(limit):
		return RenderResult{Hung: true, Err: fmt.Errorf("watchdog: no return after %v", limit)}
	}
}

// ExprTemplate wraps an expression in a one-print template t.m with
// autoescaping off; vars are declared as optional params.
func ExprTemplate(src string, vars []string, explicitPrint bool) string {
	var b strings.Builder
	b.WriteString("{namespace t}\n/**\n")
	for _, v := range vars {
		b.WriteString(" * @param? " + v + "\n")
	}
	b.WriteString(" */\n{template .m autoescape=\"false\"}\n")
	if explicitPrint {
		b.WriteString("{print " + src + "}")
	} else {
		b.WriteString("{" + src + "}")
	}
	b.WriteString("\n{/template}\n")
	return b.String()
}
