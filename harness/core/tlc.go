package core

import (
	"bytes"
	"context"
	"encoding/json"
	"fmt"
	"os"
	"os/exec"
	"path/filepath"
	"regexp"
	"strconv"
	"strings"
	"sync/atomic"
	"time"
)

// TLCOpts describes one TLC run.
type TLCOpts struct {
	Module    string            // module name (file Module.tla in spec/)
	Cfg       string            // text of the .cfg file
	Files     map[string][]byte // extra files placed next to the spec (traces)
	Workers   int               // default 1
	Timeout   time.Duration     // default 5 min
	Simulate  string            // e.g. "num=100" => -simulate num=100
	Depth     int               // -depth for simulation
	NoDeadlk  bool              // pass -deadlock (disable deadlock checking)
	Coverage  bool              // -coverage 1
	DumpTrace bool              // -dumpTrace json trace.json
	DFS       bool              // depth-first state queue (StateDeque)
	Label     string            // label for evidence
	Seed      int64
	KeepFiles []string // files to read back from the scratch dir
}

// TLCResult is what was parsed from a TLC run.
type TLCResult struct {
	Exit       int
	Stdout     string
	Generated  int64
	Distinct   int64
	Depth      int
	Violated   string   // name of violated invariant/property, "deadlock", "" if none
	Trace      string   // textual error trace
	TraceJSON  []byte   // -dumpTrace json output if requested
	Printed    []string // values printed with PrintT that are strings
	Tuples     []string // lines printed that start with <<
	ToolErr    string   // non-empty => TLC itself failed
	Wall       time.Duration
	Kept       map[string][]byte
	CoverLines []string
}

var (
	reFinal    = regexp.MustCompile(`(\d+) states generated, (\d+) distinct states found`)
	reDepth    = regexp.MustCompile(`The depth of the complete state graph search is (\d+)`)
	reInv      = regexp.MustCompile(`Error: Invariant (\S+) is violated`)
	reActProp  = regexp.MustCompile(`Error: Action property (\S+) is violated`)
	reTemporal = regexp.MustCompile(`Error: Temporal property (\S+) was violated`)
	reSimGen   = regexp.MustCompile(`The number of states generated: (\d+)`)
	tlcCounter int64
)

// SpecDir is where the TLA+ modules live.
func SpecDir() string { return filepath.Join(VerifDir, "spec") }

// RunTLC runs TLC in a scratch copy of spec/ and parses its output.
func (c *Ctx) RunTLC(o TLCOpts) (*TLCResult, error) {
	n := atomic.AddInt64(&tlcCounter, 1)
	scratch := filepath.Join(VerifDir, "out", "tlc", fmt.Sprintf("%s-%d-%d", c.ID, os.Getpid(), n))
	if err := os.MkdirAll(scratch, 0o755); err != nil {
		return nil, err
	}
	defer os.RemoveAll(scratch)
	// copy all .tla files (flat) from spec/ and its subdirectories
	err := filepath.Walk(SpecDir(), func(p string, info os.FileInfo, err error) error {
		if err != nil || info.IsDir() {
			return err
		}
		if strings.HasSuffix(p, ".tla") {
			b, err := os.ReadFile(p)
			if err != nil {
				return err
			}
			return os.WriteFile(filepath.Join(scratch, filepath.Base(p)), b, 0o644)
		}
		return nil
	})
	if err != nil {
		return nil, err
	}
	if err := os.WriteFile(filepath.Join(scratch, o.Module+".cfg"), []byte(o.Cfg), 0o644); err != nil {
		return nil, err
	}
	for name, b := range o.Files {
		if err := os.WriteFile(filepath.Join(scratch, name), b, 0o644); err != nil {
			return nil, err
		}
	}
	if o.Workers == 0 {
		o.Workers = 1
	}
	if o.Timeout == 0 {
		o.Timeout = 5 * time.Minute
	}
	// TLC leaves an empty tlc-<n> directory in java.io.tmpdir on every run:
	// point it into the scratch directory, which is removed afterwards
	jtmp := filepath.Join(scratch, "jtmp")
	os.MkdirAll(jtmp, 0o755)
	args := []string{"-XX:+UseParallelGC", "-Xss256m", "-Dfile.encoding=UTF-8", "-Dstdout.encoding=UTF-8", "-Djava.io.tmpdir=" + jtmp}
	if o.DFS {
		args = append(args, "-Dtlc2.tool.queue.IStateQueue=StateDeque")
	}
	args = append(args, "-cp", "/opt/veriftools/tla/tla2tools.jar:/opt/veriftools/tla/CommunityModules-deps.jar", "tlc2.TLC",
		"-metadir", filepath.Join(scratch, "md"), "-workers", strconv.Itoa(o.Workers), "-config", o.Module+".cfg")
	if o.NoDeadlk {
		args = append(args, "-deadlock")
	}
	if o.Coverage {
		args = append(args, "-coverage", "1")
	}
	if o.Simulate != "" {
		args = append(args, "-simulate", o.Simulate)
		if o.Depth > 0 {
			args = append(args, "-depth", strconv.Itoa(o.Depth))
		}
		args = append(args, "-seed", strconv.FormatInt(o.Seed, 10))
	}
	if o.DumpTrace {
		args = append(args, "-dumpTrace", "json", "trace.json")
	}
	args = append(args, o.Module+".tla")
	cctx, cancel := context.WithTimeout(context.Background(), o.Timeout)
	defer cancel()
	cmd := exec.CommandContext(cctx, "java", args...)
	cmd.Dir = scratch
	cmd.Env = append(os.Environ(), "JAVA_TOOL_OPTIONS=")
	var out bytes.Buffer
	cmd.Stdout = &out
	cmd.Stderr = &out
	start := time.Now()
	runErr := cmd.Run()
	res := &TLCResult{Stdout: out.String(), Wall: time.Since(start), Kept: map[string][]byte{}}
	if cctx.Err() != nil {
		res.ToolErr = "TLC timeout after " + o.Timeout.String()
	}
	if ee, ok := runErr.(*exec.ExitError); ok {
		res.Exit = ee.ExitCode()
	} else if runErr != nil {
		res.ToolErr = "cannot run TLC: " + runErr.Error()
	}
	parseTLC(res)
	if o.DumpTrace {
		res.TraceJSON, _ = os.ReadFile(filepath.Join(scratch, "trace.json"))
	}
	for _, k := range o.KeepFiles {
		if b, err := os.ReadFile(filepath.Join(scratch, k)); err == nil {
			res.Kept[k] = b
		}
	}
	c.mu.Lock()
	c.States += res.Distinct
	c.Transitions += res.Generated
	label := o.Label
	if label == "" {
		label = o.Module
	}
	c.tlcRuns = append(c.tlcRuns, map[string]interface{}{
		"label": label, "module": o.Module, "generated": res.Generated, "distinct": res.Distinct,
		"depth": res.Depth, "violated": res.Violated, "wall_s": res.Wall.Seconds(), "workers": o.Workers,
	})
	c.mu.Unlock()
	if res.ToolErr != "" {
		// keep the log for diagnosis
		logdir := filepath.Join(VerifDir, "out", "logs")
		os.MkdirAll(logdir, 0o755)
		os.WriteFile(filepath.Join(logdir, fmt.Sprintf("%s-%s-%d.log", c.ID, o.Module, n)), out.Bytes(), 0o644)
		return res, fmt.Errorf("TLC %s: %s", o.Module, res.ToolErr)
	}
	return res, nil
}

func parseTLC(r *TLCResult) {
	lines := strings.Split(r.Stdout, "\n")
	inTrace := false
	var trace []string
	var errLines []string
	for i, ln := range lines {
		if m := reFinal.FindStringSubmatch(ln); m != nil {
			r.Generated, _ = strconv.ParseInt(m[1], 10, 64)
			r.Distinct, _ = strconv.ParseInt(m[2], 10, 64)
		}
		if m := reSimGen.FindStringSubmatch(ln); m != nil {
			r.Generated, _ = strconv.ParseInt(m[1], 10, 64)
			if r.Distinct == 0 {
				r.Distinct = r.Generated
			}
		}
		if m := reDepth.FindStringSubmatch(ln); m != nil {
			r.Depth, _ = strconv.Atoi(m[1])
		}
		if m := reInv.FindStringSubmatch(ln); m != nil {
			r.Violated = m[1]
		} else if m := reActProp.FindStringSubmatch(ln); m != nil {
			r.Violated = m[1]
		} else if strings.Contains(ln, "Error: Deadlock reached") {
			r.Violated = "deadlock"
		} else if strings.Contains(ln, "Error: Temporal properties were violated") || reTemporal.MatchString(ln) {
			r.Violated = "temporal"
			if m := reTemporal.FindStringSubmatch(ln); m != nil {
				r.Violated = "temporal:" + m[1]
			}
		} else if strings.HasPrefix(ln, "Error: ") && !strings.Contains(ln, "The behavior up to this point") &&
			!strings.Contains(ln, "The following behavior constitutes a counter-example") {
			end := i + 6
			if end > len(lines) {
				end = len(lines)
			}
			errLines = append(errLines, strings.Join(lines[i:end], " | "))
		}
		if strings.HasPrefix(ln, "Error: The behavior up to this point") || strings.Contains(ln, "The following behavior constitutes a counter-example") {
			inTrace = true
			continue
		}
		if inTrace {
			if reFinal.MatchString(ln) || strings.HasPrefix(ln, "Finished in") || strings.HasPrefix(ln, "The number of states generated") {
				inTrace = false
			} else {
				trace = append(trace, ln)
			}
		}
		if strings.HasPrefix(ln, `"`) && !inTrace {
			r.Printed = append(r.Printed, TLAUnquote(ln))
		}
		if strings.HasPrefix(ln, "<<") && !inTrace {
			r.Tuples = append(r.Tuples, ln)
		}
		if strings.HasPrefix(ln, "  line ") || strings.HasPrefix(ln, "  |line ") {
			r.CoverLines = append(r.CoverLines, ln)
		}
	}
	r.Trace = strings.Join(trace, "\n")
	if r.Violated == "" && len(errLines) > 0 && r.ToolErr == "" {
		r.ToolErr = strings.Join(errLines, " || ")
	}
	if r.Violated == "" && r.ToolErr == "" && r.Exit != 0 {
		r.ToolErr = fmt.Sprintf("TLC exit %d: %s", r.Exit, tail(r.Stdout, 800))
	}
}

func tail(s string, n int) string {
	if len(s) > n {
		return s[len(s)-n:]
	}
	return s
}

// TLAUnquote turns a TLC-printed string literal line into the string.
func TLAUnquote(s string) string {
	s = strings.TrimSpace(s)
	if len(s) >= 2 && s[0] == '"' && s[len(s)-1] == '"' {
		s = s[1 : len(s)-1]
	}
	var b strings.Builder
	for i := 0; i < len(s); i++ {
		if s[i] == '\\' && i+1 < len(s) {
			i++
			switch s[i] {
			case 'n':
				b.WriteByte('\n')
			case 't':
				b.WriteByte('\t')
			case 'r':
				b.WriteByte('\r')
			case 'f':
				b.WriteByte('\f')
			case '"':
				b.WriteByte('"')
			case '\\':
				b.WriteByte('\\')
			default:
				b.WriteByte('\\')
				b.WriteByte(s[i])
			}
			continue
		}
		b.WriteByte(s[i])
	}
	return b.String()
}

// PrintedJSON decodes every printed string that is a JSON document into out
// (a pointer to a slice).
func (r *TLCResult) PrintedJSON() ([]map[string]interface{}, error) {
	var res []map[string]interface{}
	for _, p := range r.Printed {
		if !strings.HasPrefix(p, "{") {
			continue
		}
		var m map[string]interface{}
		d := json.NewDecoder(strings.NewReader(p))
		d.UseNumber()
		if err := d.Decode(&m); err != nil {
			return nil, fmt.Errorf("bad JSON from TLC: %v: %s", err, trunc(p, 200))
		}
		res = append(res, m)
	}
	return res, nil
}
