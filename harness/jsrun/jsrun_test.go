package jsrun

import (
	"context"
	"strings"
	"testing"
	"time"
)

func TestRoundTrip(t *testing.T) {
	r, err := New(context.Background())
	if err != nil {
		t.Fatal(err)
	}
	defer r.Close()

	nasty := "a'\"\\\n\r\u2028\u2029\x00</script>é😀\x7f\u0085"
	src := "if (typeof ns == 'undefined') { var ns = {}; }\n" +
		"ns.echo = function(opt_data, opt_sb, opt_ijData) { return opt_data.x + (opt_ijData ? opt_ijData.y : ''); };\n" +
		"ns.esc = function(opt_data) { return soy.$$escapeHtml(opt_data.x); };\n" +
		"ns.lone = function() { return '\\uD83D'; };\n" +
		"ns.spin = function() { for (;;) {} };\n"
	resp, err := r.Run(Request{
		Sources:   []Source{{Name: "a.js", Code: src}, {Name: "bad.js", Code: "var a = {\"a\"b\":1};"}},
		Defined:   []string{"ns.echo", "ns.nope", "ns", "soy.$$escapeHtml", "x.y.z"},
		Enumerate: true,
		Calls: []Call{
			{Fn: "ns.echo", Data: map[string]interface{}{"x": nasty}},
			{Fn: "ns.echo", Data: map[string]interface{}{"x": "p"}, IJ: map[string]interface{}{"y": "q"}},
			{Fn: "ns.esc", Data: map[string]interface{}{"x": "<a>"}},
			{Fn: "ns.lone", NoData: true},
			{Fn: "ns.spin", NoData: true},
			{Fn: "ns.missing"},
		},
		Evals:   []string{"1+1", "({a:[1,'\\u2028']})", "syntax error here"},
		Timeout: 300 * time.Millisecond,
	})
	if err != nil {
		t.Fatal(err)
	}
	if !resp.Sources[0].OK || resp.Sources[1].OK || !resp.Sources[1].Syntax {
		t.Errorf("sources: %+v", resp.Sources)
	}
	if resp.Defined["ns.echo"] != "function" || resp.Defined["ns.nope"] != "missing" || resp.Defined["ns"] != "object" ||
		resp.Defined["soy.$$escapeHtml"] != "function" || resp.Defined["x.y.z"] != "missing" {
		t.Errorf("defined: %v", resp.Defined)
	}
	if strings.Join(resp.Functions, ",") != "ns.echo,ns.esc,ns.lone,ns.spin" {
		t.Errorf("functions: %v", resp.Functions)
	}
	if c := resp.Calls[0]; !c.OK || c.Out != nasty {
		t.Errorf("call0: %q %q", c.Out, c.Err)
	}
	if c := resp.Calls[1]; !c.OK || c.Out != "pq" {
		t.Errorf("call1: %+v", c)
	}
	if c := resp.Calls[2]; !c.OK || c.Out != "&lt;a&gt;" {
		t.Errorf("call2: %+v", c)
	}
	if c := resp.Calls[3]; !c.OK || len(c.Units()) != 1 || c.Units()[0] != 0xD83D {
		t.Errorf("call3: %+v", c)
	}
	if c := resp.Calls[4]; c.OK || !strings.Contains(c.Err, "timed out") {
		t.Errorf("call4: %+v", c)
	}
	if c := resp.Calls[5]; c.OK {
		t.Errorf("call5: %+v", c)
	}
	if e := resp.Evals[0]; !e.OK || e.Out != "2" || e.JSON != "2" {
		t.Errorf("eval0: %+v", e)
	}
	if e := resp.Evals[1]; !e.OK || e.JSON != "{\"a\":[1,\"\u2028\"]}" {
		t.Errorf("eval1: %q %q", e.JSON, e.Err)
	}
	if e := resp.Evals[2]; e.OK || !e.Syntax {
		t.Errorf("eval2: %+v", e)
	}

	// ES module sources: cross-module call through the import convention.
	m1 := "import { b__g } from 'b.g.js';\nimport { soy__$$truncate } from 'soy.$$truncate.js';\n" +
		"if (typeof a == 'undefined') { var a = {}; }\n" +
		"export function a__f(opt_data, opt_sb, opt_ijData) { return 'f(' + b__g(opt_data) + ')' + soy.$$truncate('abcdef', 3, false); };\n"
	m2 := "export function b__g(opt_data) { return 'g' + opt_data.x; };\n"
	resp, err = r.Run(Request{
		Sources:   []Source{{Name: "m1", Code: m1, Kind: "module"}, {Name: "m2", Code: m2, Kind: "module"}},
		Calls:     []Call{{Fn: "a__f", Data: map[string]interface{}{"x": 1}}},
		Defined:   []string{"a__f", "b__g"},
		Enumerate: true,
	})
	if err != nil {
		t.Fatal(err)
	}
	if !resp.Loaded() || !resp.Calls[0].OK || resp.Calls[0].Out != "f(g1)abc" {
		t.Errorf("modules: %+v %+v", resp.Sources, resp.Calls)
	}
	if strings.Join(resp.Exports["m1"], ",") != "a__f" || resp.Defined["b__g"] != "function" {
		t.Errorf("exports: %v %v", resp.Exports, resp.Defined)
	}

	ok, msg, err := r.SyntaxCheck("export function f() { return 'a'b'; }", true)
	if err != nil || ok || msg == "" {
		t.Errorf("syntax check module: %v %q %v", ok, msg, err)
	}
	ok, _, err = r.SyntaxCheck("import { x } from 'y.js';\nexport function f() { return x; }", true)
	if err != nil || !ok {
		t.Errorf("syntax check module ok: %v %v", ok, err)
	}
	ok, _, err = r.SyntaxCheck("export function f() {}", false)
	if err != nil || ok {
		t.Errorf("export must not parse as a script: %v %v", ok, err)
	}
}

func TestPool(t *testing.T) {
	p, err := NewPool(context.Background(), 3)
	if err != nil {
		t.Fatal(err)
	}
	defer p.Close()
	done := make(chan error, 12)
	for i := 0; i < 12; i++ {
		go func() {
			e, err := p.Run(Request{Evals: []string{"soy.$$escapeHtml('<')"}})
			if err == nil && e.Evals[0].Out != "&lt;" {
				err = context.Canceled
			}
			done <- err
		}()
	}
	for i := 0; i < 12; i++ {
		if err := <-done; err != nil {
			t.Error(err)
		}
	}
}
