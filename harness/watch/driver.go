package watch

import (
	"encoding/json"
	"fmt"
	"log"
	"os"
	"path/filepath"
	"runtime"
	"strings"
	"sync"
	"syscall"
	"time"
	"unsafe"

	"github.com/robfig/soy"
	"github.com/robfig/soy/data"
	"github.com/robfig/soy/soyhtml"
	"github.com/robfig/soy/template"
)

// The driver runs ONE schedule of writes against a real bundle built with
// WatchFiles(true), in a process of its own (soy.Logger is a package
// variable and a watcher can never be closed: one process = one bundle = one
// inotify instance, released by the kernel when the process exits).

// Write is one step of a schedule. M is the harness method:
//
//	write / write_slow        model method "write"    (open O_TRUNC, write)
//	atomic                    model method "atomic"   (temp file, rename over)
//	recreate / recreate_slow  model method "recreate" (unlink, rename temp into place)
//	moveaway / moveaway_slow  model method "moveaway" (rename to backup, rename temp into place)
//
// The _slow variants wait for quiescence between the two system calls, so that
// the recompiler certainly sees the intermediate state; the others issue the
// calls back to back (it usually does not).
type Write struct {
	F int    `json:"f"`
	V string `json:"v"`
	M string `json:"m"`
}

// Job is what the parent sends to a worker.
type Job struct {
	ID    int     `json:"id"`
	NF    int     `json:"nf"`
	Dir   string  `json:"dir"`
	Sched []Write `json:"sched"`
}

// Event is one line of the recorded trace (see spec/SoyWatchTrace.tla).
type Event map[string]interface{}

// Result is what a worker reports.
type Result struct {
	ID      int        `json:"id"`
	NF      int        `json:"nf"`
	Sched   []Write    `json:"sched"`
	Trace   []Event    `json:"trace"`
	Obs     [][]string `json:"obs"`        // rendered versions at the quiescence after each write
	ObsX    []string   `json:"obsx"`       // what else those registries show: "passes|global|messages|source maps|javascript"
	Passes  []int      `json:"pass_calls"` // invocations of each registered parse pass
	Disk    [][]string `json:"disk"`       // what the harness put on disk, after each write
	Logs    []string   `json:"logs"`       // the raw log lines, for the replay case
	Notes   []string   `json:"notes"`      // what the observations found wrong, in words
	Trouble string     `json:"trouble,omitempty"`
	// NoWatcher: inotify works in this process (own probe), WatchFiles(true) was
	// called before the files were added, and yet the bundle under test has no
	// inotify descriptor and no recompiler goroutine
	NoWatcher bool    `json:"no_watcher,omitempty"`
	SettleUS  []int64 `json:"settle_us,omitempty"`
}

// ModelMethod maps a harness method to the method of SoyWatch.
func ModelMethod(m string) string { return strings.TrimSuffix(m, "_slow") }

type recorder struct {
	mu     sync.Mutex
	notes  []string
	trace  []Event
	logs   []string
	nlines int
}

func (r *recorder) add(e Event) {
	r.mu.Lock()
	r.trace = append(r.trace, e)
	r.mu.Unlock()
}

// Write is the io.Writer behind soy.Logger: called synchronously by the
// recompiler goroutine, one call per log line.
func (r *recorder) Write(p []byte) (int, error) {
	s := strings.TrimSpace(string(p))
	kind := "fail"
	switch {
	case strings.HasPrefix(s, "update successful"):
		kind = "ok"
	case s == syscall.ENOENT.Error():
		// the bare errno of watcher.Add; a read error is "open <path>: ..."
		kind = "readdfail"
	}
	r.mu.Lock()
	r.trace = append(r.trace, Event{"ev": "log", "k": kind})
	r.logs = append(r.logs, s)
	r.nlines++
	r.mu.Unlock()
	return len(p), nil
}

func (r *recorder) note(where string, v view) {
	r.mu.Lock()
	for _, n := range v.note {
		if len(r.notes) < 40 {
			r.notes = append(r.notes, where+": "+n)
		}
	}
	r.mu.Unlock()
}

func (r *recorder) lines() int {
	r.mu.Lock()
	defer r.mu.Unlock()
	return r.nlines
}

// inotifyFD finds the (only) inotify descriptor of this process.
func inotifyFD() (int, error) {
	ents, err := os.ReadDir("/proc/self/fd")
	if err != nil {
		return -1, err
	}
	fd := -1
	for _, e := range ents {
		l, err := os.Readlink("/proc/self/fd/" + e.Name())
		if err == nil && l == "anon_inode:inotify" {
			if fd != -1 {
				return -1, fmt.Errorf("more than one inotify descriptor")
			}
			fmt.Sscan(e.Name(), &fd)
		}
	}
	if fd == -1 {
		return -1, fmt.Errorf("no inotify descriptor (WatchFiles did not create a watcher)")
	}
	return fd, nil
}

func pendingBytes(fd int) (int, error) {
	var n int32
	_, _, e := syscall.Syscall(syscall.SYS_IOCTL, uintptr(fd), uintptr(0x541B) /* FIONREAD */, uintptr(unsafe.Pointer(&n)))
	if e != 0 {
		return 0, e
	}
	return int(n), nil
}

// parked reports whether the recompiler goroutine is blocked in its select and
// fsnotify's reader goroutine is inside (*fdPoller).wait, at one instant
// (runtime.Stack stops the world). found = both goroutines exist.
func parked() (idle, found bool) {
	buf := make([]byte, 1<<16)
	for {
		n := runtime.Stack(buf, true)
		if n < len(buf) {
			buf = buf[:n]
			break
		}
		buf = make([]byte, 2*len(buf))
	}
	var recOK, rdOK, recSeen, rdSeen bool
	for _, g := range strings.Split(string(buf), "\n\n") {
		hdr := g
		if i := strings.IndexByte(g, '\n'); i >= 0 {
			hdr = g[:i]
		}
		switch {
		case strings.Contains(g, "soy.(*Bundle).recompiler"):
			recSeen = true
			// blocked in the select of the loop itself (runtime frames are
			// elided: the top frame is recompiler), not in something it called
			// (time.Sleep, ReadFile, the compiler, the callback, the logger)
			top := ""
			if lines := strings.Split(g, "\n"); len(lines) > 1 {
				top = lines[1]
			}
			recOK = strings.Contains(hdr, "[select") &&
				(strings.Contains(top, "soy.(*Bundle).recompiler") || strings.HasPrefix(top, "runtime."))
		case strings.Contains(g, "fsnotify.(*Watcher).readEvents"):
			rdSeen = true
			rdOK = strings.Contains(g, "(*fdPoller).wait")
		}
	}
	return recOK && rdOK, recSeen && rdSeen
}

type driver struct {
	job    Job
	rec    *recorder
	tofu   *soyhtml.Tofu
	reg    *template.Registry
	obs    *observer
	ifd    int
	res    *Result
	ntmp   int
	budget time.Duration
	// passive: the bundle has no watcher at all; there is nothing to wait for
	passive bool
}

// settle blocks until the system is certainly quiescent: both goroutines
// parked, nothing unread in the inotify queue, both parked again, and no log
// line (= no complete recompile) in between. Events are queued synchronously
// by the system calls of the harness and of the recompiler itself, so nothing
// can be in flight when this holds.
func (d *driver) settle() error {
	if d.passive {
		// no recompiler, no reader, no descriptor: give a hidden one 20 ms to
		// show itself through the logger, then the state is final
		time.Sleep(20 * time.Millisecond)
		return nil
	}
	start := time.Now()
	deadline := start.Add(d.budget)
	for {
		n1 := d.rec.lines()
		if idle, found := parked(); !found {
			// a goroutine that has not run yet shows only its go-statement
			// wrapper: give it time to start
			if time.Since(start) > 5*time.Second {
				return fmt.Errorf("recompiler or fsnotify reader goroutine not found (renamed?)")
			}
		} else if idle {
			if nb, err := pendingBytes(d.ifd); err != nil {
				return fmt.Errorf("FIONREAD: %v", err)
			} else if nb == 0 {
				if idle2, _ := parked(); idle2 && d.rec.lines() == n1 {
					d.res.SettleUS = append(d.res.SettleUS, time.Since(start).Microseconds())
					return nil
				}
			}
		}
		if time.Now().After(deadline) {
			return fmt.Errorf("no quiescence within %v", d.budget)
		}
		time.Sleep(300 * time.Microsecond)
	}
}

func (d *driver) path(f int) string { return filepath.Join(d.job.Dir, fmt.Sprintf("f%d.soy", f)) }

func (d *driver) temp(f int, v string) (string, error) {
	d.ntmp++
	t := filepath.Join(d.job.Dir, fmt.Sprintf("tmp-%d", d.ntmp))
	return t, os.WriteFile(t, []byte(source(f, v)), 0o644)
}

func (d *driver) apply(w Write) error {
	p := d.path(w.F)
	slow := strings.HasSuffix(w.M, "_slow")
	mid := func() error {
		if slow {
			return d.settle()
		}
		return nil
	}
	switch ModelMethod(w.M) {
	case "write":
		if !slow {
			return os.WriteFile(p, []byte(source(w.F, w.V)), 0o644)
		}
		fh, err := os.OpenFile(p, os.O_WRONLY|os.O_CREATE|os.O_TRUNC, 0o644)
		if err != nil {
			return err
		}
		defer fh.Close()
		if err := mid(); err != nil {
			return err
		}
		_, err = fh.Write([]byte(source(w.F, w.V)))
		return err
	case "atomic":
		t, err := d.temp(w.F, w.V)
		if err != nil {
			return err
		}
		return os.Rename(t, p)
	case "recreate":
		t, err := d.temp(w.F, w.V)
		if err != nil {
			return err
		}
		if err := os.Remove(p); err != nil {
			return err
		}
		if err := mid(); err != nil {
			return err
		}
		return os.Rename(t, p)
	case "moveaway":
		t, err := d.temp(w.F, w.V)
		if err != nil {
			return err
		}
		// a fresh backup name every time: the moved inode keeps its kernel
		// watch, and it must never be touched again
		if err := os.Rename(p, fmt.Sprintf("%s.bak%d", p, d.ntmp)); err != nil {
			return err
		}
		if err := mid(); err != nil {
			return err
		}
		return os.Rename(t, p)
	}
	return fmt.Errorf("unknown method %q", w.M)
}

// RunJob executes one schedule and records the trace.
func RunJob(job Job) (res *Result) {
	res = &Result{ID: job.ID, NF: job.NF, Sched: job.Sched}
	fail := func(format string, a ...interface{}) *Result {
		res.Trouble = fmt.Sprintf(format, a...)
		return res
	}
	if err := os.MkdirAll(job.Dir, 0o755); err != nil {
		return fail("mkdir: %v", err)
	}
	// a directory nobody touches as cwd: after a Rename event fsnotify 1.4.9
	// may deliver events with an empty name, and the recompiler then calls
	// watcher.Add(""), which watches "."
	cwd := filepath.Join(job.Dir, "cwd")
	if err := os.MkdirAll(cwd, 0o755); err == nil {
		os.Chdir(cwd)
	}
	rec := &recorder{}
	d := &driver{job: job, rec: rec, res: res, budget: 20 * time.Second}
	soy.Logger = log.New(rec, "", 0)
	bundle := soy.NewBundle().WatchFiles(true).AddGlobalsMap(data.Map{GlobalName: data.String(GlobalValue)})
	res.Passes = make([]int, len(PassTags))
	addPasses(bundle, res.Passes)
	disk := make([]string, job.NF)
	for f := 1; f <= job.NF; f++ {
		if err := os.WriteFile(d.path(f), []byte(source(f, "v1")), 0o644); err != nil {
			return fail("write: %v", err)
		}
		disk[f-1] = "v1"
		bundle.AddTemplateFile(d.path(f))
	}
	paths := make([]string, job.NF)
	for f := 1; f <= job.NF; f++ {
		paths[f-1] = d.path(f)
	}
	obs, err := newObserver(paths)
	if err != nil {
		return fail("expectations from fresh compiles: %v", err)
	}
	d.obs = obs
	bundle.SetRecompilationCallback(func(reg *template.Registry) {
		arg := obs.observe(reg, soyhtml.NewTofu(reg))
		// what is visible through the Tofu while the callback runs (this is the
		// recompiler goroutine itself: no race with the swap)
		vis := arg
		if d.tofu != nil {
			vis = obs.observe(d.reg, d.tofu)
		}
		rec.note("callback argument", arg)
		rec.note("registry in use during the callback", vis)
		rec.add(Event{"ev": "callback", "vers": arg.vers, "p": arg.p, "g": arg.g, "m": arg.m, "src": arg.src,
			"vis": vis.vers, "visp": vis.p, "visg": vis.g, "vism": vis.m, "vissrc": vis.src})
	})
	reg, err := bundle.Compile()
	if err != nil {
		return fail("initial compile: %v", err)
	}
	tofu := soyhtml.NewTofu(reg)
	d.reg, d.tofu = reg, tofu
	// a long-lived JavaScript generator on the registry in use, asked once now
	if js := obs.generate(reg, true); strings.Join(js, ",") != strings.Repeat("v1,", job.NF-1)+"v1" {
		return fail("initial javascript %v", js)
	}
	if d.ifd, err = inotifyFD(); err != nil {
		// tell "the sandbox has no inotify" (tool trouble) from "the bundle under
		// test did not create its watcher" (behaviour): probe with a descriptor
		// of our own, then look for the recompiler goroutine for a while
		if perr := inotifyWorks(job.Dir); perr != nil {
			return fail("%v; own inotify probe: %v", err, perr)
		}
		found := false
		for i := 0; i < 50 && !found; i++ {
			_, found = parked()
			time.Sleep(10 * time.Millisecond)
		}
		if found || !strings.Contains(err.Error(), "no inotify descriptor") {
			return fail("%v", err)
		}
		d.passive, res.NoWatcher = true, true
	}
	if err := d.settle(); err != nil {
		return fail("initial: %v", err)
	}
	if got := obs.observe(reg, tofu); strings.Join(got.vers, ",") != strings.Join(disk, ",") || got.key() != obs.fullKey(got.vers) {
		return fail("initial observation %+v", got)
	}
	for i, w := range job.Sched {
		if w.F < 1 || w.F > job.NF {
			return fail("write %d: bad file %d", i, w.F)
		}
		rec.add(Event{"ev": "wbegin", "f": w.F, "v": w.V, "m": ModelMethod(w.M), "hm": w.M})
		if err := d.apply(w); err != nil {
			return fail("write %d (%+v): %v", i, w, err)
		}
		rec.add(Event{"ev": "wend"})
		disk[w.F-1] = w.V
		if err := d.settle(); err != nil {
			return fail("after write %d (%+v): %v", i, w, err)
		}
		// the recompiler is parked: rendering does not race with a swap
		r := obs.observe(reg, tofu)
		js := obs.generate(reg, false)
		rec.note(fmt.Sprintf("quiescence after write %d", i+1), r)
		rec.add(Event{"ev": "quiesce", "r": r.vers, "p": r.p, "g": r.g, "m": r.m, "src": r.src, "js": js})
		res.Obs = append(res.Obs, r.vers)
		res.ObsX = append(res.ObsX, r.key()+"|"+strings.Join(js, ","))
		res.Disk = append(res.Disk, append([]string(nil), disk...))
	}
	rec.mu.Lock()
	res.Trace = append([]Event(nil), rec.trace...)
	res.Logs = append([]string(nil), rec.logs...)
	res.Notes = append([]string{}, rec.notes...)
	rec.mu.Unlock()
	return res
}

// Worker is the entry point of the worker process: one Job on stdin, one
// Result on stdout.
func Worker() {
	var job Job
	if err := json.NewDecoder(os.Stdin).Decode(&job); err != nil {
		fmt.Fprintln(os.Stderr, "worker: bad job:", err)
		os.Exit(3)
	}
	res := RunJob(job)
	b, _ := json.Marshal(res)
	os.Stdout.Write(append(b, '\n'))
	os.Exit(0)
}
