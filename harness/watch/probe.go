package watch

import (
	"bytes"
	"fmt"
	"regexp"
	"sort"
	"strings"

	"github.com/robfig/soy"
	"github.com/robfig/soy/ast"
	"github.com/robfig/soy/data"
	"github.com/robfig/soy/errortypes"
	"github.com/robfig/soy/soyhtml"
	"github.com/robfig/soy/soyjs"
	"github.com/robfig/soy/soymsg"
	"github.com/robfig/soy/template"
)

// What the watched templates are made of, so that everything Compile does
// after parsing leaves something observable in a registry:
//   - the version (v1/v2) as text;
//   - a global (SetGlobals): GlobalName, defined by the bundle as GlobalValue;
//   - a {msg} with a placeholder (ProcessMessages): its id and placeholder
//     names are set only there; rendered through a message bundle keyed by the
//     ids of a FRESH compile it shows the translation, otherwise the source;
//   - the tags the registered parse passes append (AddParsePass);
//   - a second template .e that fails at run time ({$x.y} on missing data): the
//     error must name the file and the line of that command in the content the
//     registry was compiled from (the registry's private source maps); the
//     files change length between versions (file 1 grows, file 2 shrinks,
//     file 3 moves the template);
//   - the "bad" version of an odd file does not parse, that of an even file
//     parses but prints an undeclared variable (rejected by CheckDataRefs).
const (
	GlobalName  = "GV"
	GlobalValue = "g"
)

var PassTags = []string{"p1", "p2"}

var msgText = map[string]string{"v1": "Hello", "v2": "Bye"}
var msgTranslation = map[string]string{"v1": "Hola", "v2": "Adios"}

func padLines(n int) string {
	var sb strings.Builder
	for i := 0; i < n; i++ {
		fmt.Fprintf(&sb, "/* padding line %02d of this version of the file ............ */\n", i)
	}
	return sb.String()
}

func source(f int, v string) string {
	pad := map[string]int{"v1": 0, "v2": 0, "bad": 3}
	switch f % 3 {
	case 1: // grows
		pad["v2"] = 25
	case 2: // shrinks
		pad["v1"] = 25
	case 0: // moves
		pad["v1"], pad["v2"] = 4, 9
	}
	body := fmt.Sprintf("%s-{%s}-{msg desc=\"greeting\"}%s {$n}{/msg}", v, GlobalName, msgText[v])
	if v == "bad" {
		if f%2 == 1 {
			body = "{if}"
		} else {
			body = "v1-{$undeclared}"
		}
	}
	return fmt.Sprintf("{namespace w.f%d}\n\n%s/**\n * prints the version of this file, a global and a message\n * @param n\n */\n{template .t}\n%s\n{/template}\n\n/**\n * fails at run time when x is missing\n * @param? x\n */\n{template .e}\n{$x.y}\n{/template}\n",
		f, padLines(pad[v]), body)
}

func tmplName(f int) string { return fmt.Sprintf("w.f%d.t", f) }
func failName(f int) string { return fmt.Sprintf("w.f%d.e", f) }

// addPasses registers the parse passes; calls[i] counts pass i (may be nil).
func addPasses(b *soy.Bundle, calls []int) {
	for i, tag := range PassTags {
		i, tag := i, tag
		b.AddParsePass(func(reg template.Registry) error {
			if calls != nil {
				calls[i]++
			}
			for _, t := range reg.Templates {
				if strings.HasSuffix(t.Node.Name, ".t") {
					t.Node.Body.Nodes = append(t.Node.Body.Nodes, &ast.RawTextNode{Text: []byte("+" + tag)})
				}
			}
			return nil
		})
	}
}

// observer holds the expectations, all taken from FRESH compiles (a bundle
// without watcher, same globals and passes) of each version of each file.
type observer struct {
	paths   []string
	msgID   []map[string]uint64 // per file, per version
	errLine []map[string]int
	js      []map[string]string
	msgs    fakeBundle
	gen     *soyjs.Generator
}

type fakeBundle map[uint64]*soymsg.Message

func (b fakeBundle) Locale() string                    { return "xx" }
func (b fakeBundle) Message(id uint64) *soymsg.Message { return b[id] }
func (b fakeBundle) PluralCase(n int) int              { return -1 }

func findMsg(n ast.Node) *ast.MsgNode {
	if m, ok := n.(*ast.MsgNode); ok {
		return m
	}
	if p, ok := n.(ast.ParentNode); ok {
		for _, c := range p.Children() {
			if m := findMsg(c); m != nil {
				return m
			}
		}
	}
	return nil
}

func msgOf(reg *template.Registry, name string) *ast.MsgNode {
	for _, t := range reg.Templates {
		if t.Node.Name == name {
			return findMsg(t.Node.Body)
		}
	}
	return nil
}

// failingRender renders template .e of file f without data: "panic", or the
// file and line of the error (0 if it carries none).
func failingRender(t *soyhtml.Tofu, f int) (file string, line int, what string) {
	defer func() {
		if p := recover(); p != nil {
			what = fmt.Sprintf("panic: %v", p)
		}
	}()
	var buf bytes.Buffer
	err := t.Render(&buf, failName(f), nil)
	if err == nil {
		return "", 0, "no error"
	}
	if fp := errortypes.ToErrFilePos(err); fp != nil {
		return fp.File(), fp.Line(), err.Error()
	}
	return "", 0, err.Error()
}

func newObserver(paths []string) (*observer, error) {
	o := &observer{paths: paths, msgs: fakeBundle{}}
	for f := 1; f <= len(paths); f++ {
		ids, lines, js := map[string]uint64{}, map[string]int{}, map[string]string{}
		for _, v := range []string{"v1", "v2"} {
			b := soy.NewBundle().AddGlobalsMap(data.Map{GlobalName: data.String(GlobalValue)}).
				AddTemplateString(paths[f-1], source(f, v))
			addPasses(b, nil)
			reg, err := b.Compile()
			if err != nil {
				return nil, fmt.Errorf("file %d %s: %v", f, v, err)
			}
			m := msgOf(reg, tmplName(f))
			if m == nil || m.ID == 0 {
				return nil, fmt.Errorf("file %d %s: no message id in a fresh compile", f, v)
			}
			ids[v] = m.ID
			o.msgs[m.ID] = &soymsg.Message{ID: m.ID, Parts: []soymsg.Part{
				soymsg.RawTextPart{Text: msgTranslation[v] + " "}, soymsg.PlaceholderPart{Name: "N"}}}
			file, line, what := failingRender(soyhtml.NewTofu(reg), f)
			if file != paths[f-1] || line == 0 {
				return nil, fmt.Errorf("file %d %s: failing render of a fresh compile reports %q line %d (%s)", f, v, file, line, what)
			}
			lines[v] = line
			var buf bytes.Buffer
			if err := soyjs.NewGenerator(reg).WriteFile(&buf, paths[f-1]); err != nil {
				return nil, fmt.Errorf("file %d %s: javascript: %v", f, v, err)
			}
			js[v] = buf.String()
		}
		if lines["v1"] == lines["v2"] || js["v1"] == js["v2"] {
			return nil, fmt.Errorf("file %d: the versions are not distinguishable (lines %v)", f, lines)
		}
		o.msgID, o.errLine, o.js = append(o.msgID, ids), append(o.errLine, lines), append(o.js, js)
	}
	return o, nil
}

// view is what one registry shows.
type view struct {
	vers []string // per file: v1 | v2 | none
	p    []string // parse-pass tags (agreeing over the files)
	g    string   // value of the global
	m    string   // "ok": every message has the id of a fresh compile and renders its translation
	src  []string // per file: the version whose failing line the registry reports, else stale/panic/none
	note []string // diagnostics
}

var reOut = regexp.MustCompile(`^(v1|v2)-([^-+]*)-([A-Za-z]*) ([A-Za-z]*)((?:\+[a-z0-9]+)*)$`)

func (o *observer) observe(reg *template.Registry, t *soyhtml.Tofu) view {
	nf := len(o.paths)
	v := view{vers: make([]string, nf), p: []string{}, g: "none", m: "bad", src: make([]string, nf), note: []string{}}
	first, mok, any := true, true, false
	for f := 1; f <= nf; f++ {
		v.vers[f-1], v.src[f-1] = "none", "none"
		var buf bytes.Buffer
		if err := t.NewRenderer(tmplName(f)).WithMessages(o.msgs).Execute(&buf, data.Map{"n": data.String("N")}); err != nil {
			v.note = append(v.note, fmt.Sprintf("f%d: %v", f, err))
			continue
		}
		m := reOut.FindStringSubmatch(strings.TrimSpace(buf.String()))
		if m == nil {
			v.note = append(v.note, fmt.Sprintf("f%d renders %q", f, buf.String()))
			continue
		}
		ver := m[1]
		v.vers[f-1] = ver
		any = true
		tags := []string{}
		if m[5] != "" {
			tags = strings.Split(m[5][1:], "+")
		}
		sort.Strings(tags)
		g := m[2]
		if g == "" {
			g = "none"
		}
		if first {
			v.p, v.g, first = tags, g, false
		} else {
			if strings.Join(tags, "+") != strings.Join(v.p, "+") {
				v.p = []string{"MIXED"}
			}
			if g != v.g {
				v.g = "MIXED"
			}
		}
		// messages: id and placeholder names as in a fresh compile, translation found
		mn := msgOf(reg, tmplName(f))
		switch {
		case mn == nil:
			mok = false
			v.note = append(v.note, fmt.Sprintf("f%d: no msg node", f))
		case mn.ID == 0 || mn.ID != o.msgID[f-1][ver]:
			mok = false
			v.note = append(v.note, fmt.Sprintf("f%d: msg id %d, a fresh compile gives %d", f, mn.ID, o.msgID[f-1][ver]))
		case m[3] != msgTranslation[ver] || m[4] != "N":
			mok = false
			v.note = append(v.note, fmt.Sprintf("f%d: message rendered as %q, translation is %q", f, m[3]+" "+m[4], msgTranslation[ver]+" N"))
		}
		// source maps: the failing template's error position
		file, line, what := failingRender(t, f)
		switch {
		case strings.HasPrefix(what, "panic"):
			v.src[f-1] = "panic"
			v.note = append(v.note, fmt.Sprintf("f%d: failing render: %s", f, what))
		case file == o.paths[f-1] && line == o.errLine[f-1][ver]:
			v.src[f-1] = ver
		default:
			v.src[f-1] = "stale"
			v.note = append(v.note, fmt.Sprintf("f%d: failing render reports %q line %d, the command is on line %d of the %s content (%s)", f, file, line, o.errLine[f-1][ver], ver, what))
		}
	}
	if any && mok {
		v.m = "ok"
	}
	return v
}

// generate asks the long-lived generator (made on first use from the registry
// in use) for the JavaScript of every file: per file the version whose fresh
// JavaScript it equals, else stale/none.
func (o *observer) generate(reg *template.Registry, first bool) []string {
	if o.gen == nil {
		o.gen = soyjs.NewGenerator(reg)
	}
	out := make([]string, len(o.paths))
	for f := range o.paths {
		var buf bytes.Buffer
		out[f] = "stale"
		if err := o.gen.WriteFile(&buf, o.paths[f]); err != nil {
			out[f] = "none"
			continue
		}
		for _, ver := range []string{"v1", "v2"} {
			if buf.String() == o.js[f][ver] {
				out[f] = ver
			}
		}
	}
	return out
}

func (v view) key() string {
	return strings.Join(v.p, "+") + "|" + v.g + "|" + v.m + "|" + strings.Join(v.src, ",")
}

// fullKey is the key of a registry that has been through everything.
func (o *observer) fullKey(vers []string) string {
	return strings.Join(PassTags, "+") + "|" + GlobalValue + "|ok|" + strings.Join(vers, ",")
}
