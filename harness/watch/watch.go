// Package watch is the XWATCH extra: SoyWatch.tla (the WatchFiles/recompiler
// state machine of bundle.go) checked by TLC (M1), its schedules replayed on
// the real recompiler (M2) and the recorded runs validated by TLC against
// SoyWatchTrace.tla (M3). It is not one of the listed properties; evidence goes
// to evidence/XWATCH.json.
package watch

import (
	"bytes"
	"encoding/json"
	"fmt"
	"math/rand"
	"os"
	"os/exec"
	"path/filepath"
	"regexp"
	"sort"
	"strconv"
	"strings"
	"sync"
	"syscall"
	"time"

	"verif/core"
)

const allMethods = `"write","atomic","recreate","moveaway"`

var modelMethods = []string{"write", "atomic", "recreate", "moveaway"}
var versions = []string{"v1", "v2", "bad"}

// inotifyWorks is the 10-line sanity probe: a watch on a file reports a write.
func inotifyWorks(dir string) error {
	p := filepath.Join(dir, "probe")
	if err := os.WriteFile(p, []byte("x"), 0o644); err != nil {
		return err
	}
	defer os.Remove(p)
	fd, err := syscall.InotifyInit1(syscall.IN_CLOEXEC | syscall.IN_NONBLOCK)
	if err != nil {
		return fmt.Errorf("inotify_init1: %v", err)
	}
	defer syscall.Close(fd)
	if _, err := syscall.InotifyAddWatch(fd, p, syscall.IN_MODIFY); err != nil {
		return fmt.Errorf("inotify_add_watch: %v", err)
	}
	if err := os.WriteFile(p, []byte("y"), 0o644); err != nil {
		return err
	}
	buf := make([]byte, 4096)
	for i := 0; i < 200; i++ {
		if n, _ := syscall.Read(fd, buf); n >= syscall.SizeofInotifyEvent {
			return nil
		}
		time.Sleep(10 * time.Millisecond)
	}
	return fmt.Errorf("no IN_MODIFY event within 2 s")
}

func cfg(nf int, dev, methods string, maxq, maxw int, atomic, hist bool, rest string) string {
	b := func(x bool) string {
		if x {
			return "TRUE"
		}
		return "FALSE"
	}
	return fmt.Sprintf("CONSTANTS NF = %d\nDev = {%s}\nMethods = {%s}\nMaxQ = %d\nMaxWrites = %d\nPasses = {\"p1\",\"p2\"}\nReadAtomic = %s\nHistOn = %s\n%s\nCHECK_DEADLOCK FALSE\n",
		nf, dev, methods, maxq, maxw, b(atomic), b(hist), rest)
}

const safetyProps = `INIT Init
NEXT Next
INVARIANT RegValid
INVARIANT PassesApplied
INVARIANT GlobalsBound
INVARIANT MessagesProcessed
INVARIANT SourceMapsFresh
INVARIANT GeneratorCurrent
INVARIANT PerFileFromDisk
INVARIANT QuiescentConsistent
PROPERTY FailKeepsRegistry
PROPERTY OnlySwapChangesRegistry
PROPERTY CallbackBeforeVisible
PROPERTY CallbackOncePerSuccess
PROPERTY NoCallbackOnFail`

const refOnly = "\nINVARIANT TypeOK\nINVARIANT WatchPending"

func runTLC(ctx *core.Ctx, o core.TLCOpts) (*core.TLCResult, error) {
	res, err := ctx.RunTLC(o)
	if err != nil && res != nil && (res.Exit == 137 || res.Exit == 143) {
		// another session killed the JVM: once more
		res, err = ctx.RunTLC(o)
	}
	return res, err
}

type m1run struct {
	label   string
	cfg     string
	workers int
	expect  string // "" = nothing found; otherwise the property TLC must report
	cover   bool
	what    string
}

var reCover = regexp.MustCompile(`(?m)^<(\w+) line \d+, col \d+ to line \d+, col \d+ of module SoyWatch>: (\d+):(\d+)`)

// modelChecks is M1: reference (nothing found), the documented expected
// counterexamples, the deviations (each must be caught), action coverage.
func modelChecks(ctx *core.Ctx) {
	liveAll := "\nPROPERTY LiveUnlessLost\nPROPERTY EventuallyQuiet"
	fair := strings.Replace(safetyProps, "INIT Init\nNEXT Next", "SPECIFICATION FairSpec", 1)
	runs := []m1run{
		{"M1-reference(safety+liveness)", cfg(2, "", allMethods, 4, 2, false, false, fair+refOnly+liveAll), 4, "", true,
			"reference design, per-file reads, all four write methods: (a) (b) (c) (e), QuiescentConsistent, and liveness modulo limitation 1 (watch lost because the file was absent at re-add time)"},
		{"M1-reference-atomic-read", cfg(2, "", allMethods, 4, 2, true, false, safetyProps+refOnly+"\nINVARIANT SnapshotExisted"), 2, "", false,
			"abstraction ReadAtomic: the installed snapshot was the disk at one moment"},
		{"M1-expected-torn-read", cfg(2, "", `"atomic"`, 4, 3, false, false, "INIT Init\nNEXT Next\nINVARIANT SnapshotExisted"), 2, "SnapshotExisted", false,
			"EXPECTED counterexample: with per-file reads (the real code) the installed snapshot may never have been the disk"},
		{"M1-live-write-atomic", cfg(2, "", `"write","atomic"`, 4, 2, false, false, "SPECIFICATION FairSpec\nPROPERTY LiveStrict\nPROPERTY LiveUnlessLost\nPROPERTY EventuallyQuiet"), 2, "", false,
			"strict liveness holds when files are only written in place or replaced atomically"},
		{"M1-expected-live-recreate", cfg(2, "", `"write","recreate"`, 4, 2, false, false, "SPECIFICATION FairSpec\nPROPERTY LiveStrict"), 2, "temporal:LiveStrict", false,
			"EXPECTED counterexample: unlink + later re-create loses the watch for good"},
		{"M1-expected-live-moveaway", cfg(2, "", `"write","moveaway"`, 4, 2, false, false, "SPECIFICATION FairSpec\nPROPERTY LiveStrict"), 2, "temporal:LiveStrict", false,
			"EXPECTED counterexample: same through rename-to-backup"},
	}
	if ctx.Thorough() {
		runs = append(runs, m1run{"M1-reference-safety(MaxWrites=3)", cfg(2, "", allMethods, 4, 3, false, false, safetyProps+refOnly), 8, "", false,
			"reference design, three writes"})
	}
	devs := []struct{ dev, prop string }{
		{"swap_on_error", "RegValid"},
		{"callback_after_swap", "CallbackBeforeVisible"},
		{"partial_reload", "PerFileFromDisk"},
		{"watch_not_readded", "QuiescentConsistent"},
		{"readd_after_read", "QuiescentConsistent"},
		{"passes_skipped_on_recompile", "PassesApplied"},
		{"globals_dropped_on_recompile", "QuiescentConsistent"},
		{"messages_not_processed_on_recompile", "MessagesProcessed"},
		{"datarefs_not_checked_on_recompile", "RegValid"},
		{"source_maps_stale_after_swap", "SourceMapsFresh"},
		{"generator_caches_per_file", "GeneratorCurrent"},
	}
	for _, d := range devs {
		runs = append(runs, m1run{"M1-deviation-" + d.dev, cfg(2, `"`+d.dev+`"`, allMethods, 4, 2, false, false, safetyProps), 2, d.prop, false, "deviation"})
	}
	if ctx.Thorough() {
		for _, d := range []string{"watch_not_readded", "partial_reload", "readd_after_read"} {
			runs = append(runs, m1run{"M1-deviation-live-" + d, cfg(2, `"`+d+`"`, `"write","atomic"`, 4, 2, false, false, "SPECIFICATION FairSpec\nPROPERTY LiveStrict"), 2, "temporal:LiveStrict", false, "deviation (liveness)"})
		}
	}
	type out struct {
		Label    string `json:"label"`
		What     string `json:"what"`
		Expect   string `json:"expected"`
		Violated string `json:"violated"`
		Distinct int64  `json:"distinct"`
		OK       bool   `json:"as_expected"`
	}
	outs := make([]out, len(runs))
	var wg sync.WaitGroup
	sem := make(chan struct{}, 6)
	var mu sync.Mutex
	cover := map[string][2]int64{}
	for i, r := range runs {
		wg.Add(1)
		go func(i int, r m1run) {
			defer wg.Done()
			sem <- struct{}{}
			defer func() { <-sem }()
			res, err := runTLC(ctx, core.TLCOpts{Module: "SoyWatch", Cfg: r.cfg, Workers: r.workers, Timeout: 8 * time.Minute, Label: r.label, Coverage: r.cover})
			if err != nil {
				ctx.ToolError("%s: %v", r.label, err)
				return
			}
			outs[i] = out{r.label, r.what, r.expect, res.Violated, res.Distinct, res.Violated == r.expect}
			if res.Violated != r.expect {
				if r.expect == "" {
					ctx.ToolError("%s: the reference model violates %s (a spec bug, not a verdict):\n%s", r.label, res.Violated, res.Trace)
				} else {
					ctx.ToolError("%s: expected TLC to report %s, got %q", r.label, r.expect, res.Violated)
				}
			}
			if r.cover {
				mu.Lock()
				for _, m := range reCover.FindAllStringSubmatch(res.Stdout, -1) {
					a, _ := strconv.ParseInt(m[2], 10, 64)
					b, _ := strconv.ParseInt(m[3], 10, 64)
					cover[m[1]] = [2]int64{a, b}
				}
				mu.Unlock()
			}
		}(i, r)
	}
	wg.Wait()
	ctx.Extra["m1_runs"] = outs
	caught := map[string]bool{}
	for _, o := range outs {
		if strings.HasPrefix(o.Label, "M1-deviation-") {
			caught[strings.TrimPrefix(o.Label, "M1-deviation-")] = o.OK
		}
	}
	ctx.Extra["deviations_caught"] = caught
	// no dead action (Observe is exercised by the M2 export, counted there)
	dead := []string{}
	for _, a := range []string{"WIntent", "WStep", "WDone", "DropEvent", "Deliver", "ReAddOK", "ReAddFail", "ReadStep", "Compile", "Fail", "Callback", "Swap", "LogOK"} {
		if cover[a][0] == 0 {
			dead = append(dead, a)
		}
	}
	ctx.Extra["m1_action_coverage_distinct_generated"] = cover
	if len(dead) > 0 && len(cover) > 0 {
		ctx.ToolError("dead actions in the reference model: %v", dead)
	} else if len(cover) == 0 {
		ctx.ToolError("no coverage statistics parsed from the reference run")
	}
}

// ---------------------------------------------------------------------------
// M2: schedules and allowed observation sequences exported by TLC

type modelSched struct {
	Key     string
	Writes  []Write             // model methods
	Allowed map[string]struct{} // joined observation sequences
}

func schedKey(ws []Write) string {
	var sb strings.Builder
	for _, w := range ws {
		fmt.Fprintf(&sb, "%d:%s:%s;", w.F, w.V, ModelMethod(w.M))
	}
	return sb.String()
}

// obsKey: per quiescence the rendered versions and "passes|global"
func obsKey(obs [][]string, obsx []string) string {
	parts := make([]string, len(obs))
	for i, o := range obs {
		parts[i] = strings.Join(o, ",")
		if i < len(obsx) {
			parts[i] += "/" + obsx[i]
		}
	}
	return strings.Join(parts, ";")
}

func exportSchedules(ctx *core.Ctx, length int) (map[string]*modelSched, error) {
	res, err := runTLC(ctx, core.TLCOpts{Module: "SoyWatch",
		Cfg:     cfg(2, "", allMethods, 4, length, false, true, "INIT Init\nNEXT Next\nINVARIANT EmitHist\nINVARIANT QuiescentConsistent\nINVARIANT RegValid"),
		Workers: 1, Timeout: 8 * time.Minute, Label: fmt.Sprintf("M2-schedule-export(len<=%d)", length), Coverage: true})
	if err != nil {
		return nil, err
	}
	if res.Violated != "" {
		return nil, fmt.Errorf("schedule export violates %s", res.Violated)
	}
	for _, m := range reCover.FindAllStringSubmatch(res.Stdout, -1) {
		if m[1] == "Observe" {
			if m[2] == "0" {
				return nil, fmt.Errorf("action Observe is dead in the M2 export")
			}
			ctx.Extra["m2_observe_coverage"] = m[2] + ":" + m[3]
		}
	}
	out := map[string]*modelSched{}
	for _, p := range res.Printed {
		if !strings.HasPrefix(p, "{") {
			continue
		}
		var doc struct {
			H []struct {
				F   int      `json:"f"`
				V   string   `json:"v"`
				M   string   `json:"m"`
				Obs []string `json:"obs"`
				P   []string `json:"p"`
				G   string   `json:"g"`
				MP  bool     `json:"mp"`
				Src []string `json:"src"`
			} `json:"h"`
		}
		if err := json.Unmarshal([]byte(p), &doc); err != nil {
			return nil, fmt.Errorf("bad JSON from TLC: %v: %.200s", err, p)
		}
		var ws []Write
		var obs [][]string
		var obsx []string
		for _, e := range doc.H {
			ws = append(ws, Write{e.F, e.V, e.M})
			obs = append(obs, e.Obs)
			sort.Strings(e.P)
			mp := "bad"
			if e.MP {
				mp = "ok"
			}
			// (a generator on the registry in use shows what the registry holds)
			obsx = append(obsx, strings.Join(e.P, "+")+"|"+e.G+"|"+mp+"|"+strings.Join(e.Src, ",")+"|"+strings.Join(e.Obs, ","))
		}
		k := schedKey(ws)
		ms := out[k]
		if ms == nil {
			ms = &modelSched{Key: k, Writes: ws, Allowed: map[string]struct{}{}}
			out[k] = ms
		}
		ms.Allowed[obsKey(obs, obsx)] = struct{}{}
	}
	if len(out) == 0 {
		return nil, fmt.Errorf("TLC exported no schedule")
	}
	return out, nil
}

// ---------------------------------------------------------------------------
// running schedules on the real code (worker processes)

type runner struct {
	ctx  *core.Ctx
	root string
	next int
	mu   sync.Mutex
}

func (r *runner) run(nf int, sched []Write) (*Result, error) {
	r.mu.Lock()
	r.next++
	id := r.next
	r.mu.Unlock()
	job := Job{ID: id, NF: nf, Dir: filepath.Join(r.root, strconv.Itoa(id)), Sched: sched}
	in, _ := json.Marshal(job)
	cmd := exec.Command(os.Args[0], "--worker")
	cmd.Stdin = bytes.NewReader(in)
	var stdout, stderr bytes.Buffer
	cmd.Stdout, cmd.Stderr = &stdout, &stderr
	done := make(chan error, 1)
	if err := cmd.Start(); err != nil {
		return nil, err
	}
	go func() { done <- cmd.Wait() }()
	var err error
	select {
	case err = <-done:
	case <-time.After(90 * time.Second):
		cmd.Process.Kill()
		<-done
		return nil, fmt.Errorf("worker timeout; stderr: %.500s", stderr.String())
	}
	os.RemoveAll(job.Dir)
	if err != nil {
		// a panic of the recompiler goroutine kills the worker: that is
		// behaviour of the code under test
		se := stderr.String()
		if (strings.Contains(se, "panic:") || strings.Contains(se, "fatal error:")) && strings.Contains(se, "robfig/soy") {
			return &Result{ID: id, NF: nf, Sched: sched, Trouble: "CRASH: " + se}, nil
		}
		return nil, fmt.Errorf("worker failed: %v; stderr: %.500s", err, se)
	}
	var res Result
	if err := json.Unmarshal(stdout.Bytes(), &res); err != nil {
		return nil, fmt.Errorf("worker output: %v: %.300s", err, stdout.String())
	}
	return &res, nil
}

type item struct {
	nf     int
	sched  []Write
	model  *modelSched // nil for random schedules
	origin string
	res    *Result
	// verdicts
	m2bad  bool
	m3bad  bool
	badPos int
}

func (r *runner) runAll(items []*item, par int) {
	var wg sync.WaitGroup
	ch := make(chan *item)
	for i := 0; i < par; i++ {
		wg.Add(1)
		go func() {
			defer wg.Done()
			for it := range ch {
				res, err := r.run(it.nf, it.sched)
				if err != nil {
					// once more: a loaded sandbox
					res, err = r.run(it.nf, it.sched)
				}
				if err != nil {
					r.ctx.ToolError("schedule %s: %v", schedKey(it.sched), err)
					continue
				}
				it.res = res
			}
		}()
	}
	for _, it := range items {
		ch <- it
	}
	close(ch)
	wg.Wait()
}

// ---------------------------------------------------------------------------
// M3: TLC validates recorded runs

func traceCfg(nf int, diag bool) string {
	d := "FALSE"
	if diag {
		d = "TRUE"
	}
	return fmt.Sprintf("CONSTANTS NF = %d\nDev = {}\nMethods = {%s}\nMaxQ = 12\nMaxWrites = 1000\nPasses = {\"p1\",\"p2\"}\nReadAtomic = FALSE\nHistOn = FALSE\nDiag = %s\nINIT TInit\nNEXT TNext\nCHECK_DEADLOCK FALSE\n", nf, allMethods, d)
}

var reAccept = regexp.MustCompile(`^<<"ACCEPT", (\d+), (\d+)>>`)
var reAt = regexp.MustCompile(`^<<"AT", (\d+), (\d+)>>`)

// validate runs TLC over the traces of items (all with the same NF) and marks
// the rejected ones; for those it finds the first event no behaviour of the
// model can produce.
func validate(ctx *core.Ctx, items []*item, nf int, label string, diagnose bool) error {
	if len(items) == 0 {
		return nil
	}
	const chunk = 400
	for lo := 0; lo < len(items); lo += chunk {
		hi := lo + chunk
		if hi > len(items) {
			hi = len(items)
		}
		part := items[lo:hi]
		var nd bytes.Buffer
		for i, it := range part {
			b, _ := json.Marshal(map[string]interface{}{"id": i + 1, "ev": it.res.Trace})
			nd.Write(b)
			nd.WriteByte('\n')
		}
		res, err := runTLC(ctx, core.TLCOpts{Module: "SoyWatchTrace", Cfg: traceCfg(nf, false), Files: map[string][]byte{"watch_trace.ndjson": nd.Bytes()},
			Workers: 1, Timeout: 8 * time.Minute, Label: fmt.Sprintf("%s(NF=%d,%d runs)", label, nf, len(part))})
		if err != nil {
			return err
		}
		if res.Violated != "" {
			return fmt.Errorf("trace spec reported %s", res.Violated)
		}
		ok := map[int]bool{}
		for _, t := range res.Tuples {
			if m := reAccept.FindStringSubmatch(t); m != nil {
				n, _ := strconv.Atoi(m[1])
				ok[n] = true
			}
		}
		var bad []*item
		for i, it := range part {
			ctx.AddTraces(1)
			if ok[i+1] {
				continue
			}
			it.m3bad = true
			it.badPos = 0
			bad = append(bad, it)
		}
		if len(bad) == 0 || !diagnose {
			continue
		}
		// diagnosis: the rejected runs alone, every matched event printed; the
		// furthest matched position + 1 is the first event no behaviour of the
		// model can produce
		var dn bytes.Buffer
		for i, it := range bad {
			b, _ := json.Marshal(map[string]interface{}{"id": i + 1, "ev": it.res.Trace})
			dn.Write(b)
			dn.WriteByte('\n')
		}
		dres, err := runTLC(ctx, core.TLCOpts{Module: "SoyWatchTrace", Cfg: traceCfg(nf, true), Files: map[string][]byte{"watch_trace.ndjson": dn.Bytes()},
			Workers: 1, Timeout: 5 * time.Minute, Label: label + "-diagnosis"})
		if err != nil {
			return err
		}
		for _, t := range dres.Tuples {
			if m := reAt.FindStringSubmatch(t); m != nil {
				n, _ := strconv.Atoi(m[1])
				p, _ := strconv.Atoi(m[2])
				if n >= 1 && n <= len(bad) && p > bad[n-1].badPos {
					bad[n-1].badPos = p // 0-based index of the first unmatched event
				}
			}
		}
	}
	return nil
}

// ---------------------------------------------------------------------------

func lastWrite(tr []Event, pos int) (w Event, idx int) {
	idx = -1
	n := -1
	for i := 0; i <= pos && i < len(tr); i++ {
		if tr[i]["ev"] == "wbegin" {
			n++
			w, idx = tr[i], n
		}
	}
	return
}

// fileHistory names what had happened to file f (1-based) before write widx:
// "moved-away" if it was ever renamed to a backup name, else the last method
// that replaced its inode, else "in-place-only".
func fileHistory(sched []Write, widx, f int) string {
	h := "in-place-only"
	for i := 0; i < widx && i < len(sched); i++ {
		if sched[i].F != f {
			continue
		}
		switch m := ModelMethod(sched[i].M); m {
		case "moveaway":
			return "moved-away"
		case "atomic", "recreate":
			h = "last-replaced-by-" + m
		}
	}
	return h
}

// signature describes a rejected run structurally: the symptom (kind of the
// first event no behaviour of the model can produce) and the history of the
// file the harness was writing.
func signature(it *item) (sig core.Sig, what string, drift bool) {
	res := it.res
	if strings.HasPrefix(res.Trouble, "CRASH") {
		return core.Sig{Family: "recompiler-crash", Feature: "panic"}, "the recompiler goroutine crashed the process: " + res.Trouble, false
	}
	if res.NoWatcher {
		stale := ""
		for i := range res.Obs {
			if i < len(res.Disk) && allValid(res.Disk[i]) && strings.Join(res.Obs[i], ",") != strings.Join(res.Disk[i], ",") {
				stale = fmt.Sprintf("after write %d (%+v) the disk holds %v, the Tofu renders %v", i+1, res.Sched[i], res.Disk[i], res.Obs[i])
				break
			}
		}
		return core.Sig{Family: "watch-setup", Feature: "watcher-not-created"},
			"WatchFiles(true) was called before the files were added, inotify works in this process (own probe), but the bundle has no inotify descriptor and no recompiler goroutine: no write is ever noticed (no log line, no callback); " + stale, false
	}
	tr := res.Trace
	pos := it.badPos
	if !it.m3bad {
		pos = len(tr) - 1 // M2 only
	}
	if pos >= len(tr) {
		return core.Sig{Family: "watch-trace-rejected", Feature: "end-of-run"}, "the run was matched to its end but not accepted", false
	}
	e := tr[pos]
	kind, _ := e["ev"].(string)
	_, widx := lastWrite(tr, pos)
	if widx < 0 {
		widx = 0
	}
	w := res.Sched[widx]
	hist := fileHistory(res.Sched, widx, w.F)
	// the raw log lines of this write so far (and of the rejected event itself)
	nlog := 0
	for i := 0; i <= pos && i < len(tr); i++ {
		if tr[i]["ev"] == "log" {
			nlog++
		}
	}
	for i, k := pos, nlog; i >= 0 && k > 0 && k <= len(res.Logs); i-- {
		if tr[i]["ev"] == "wbegin" {
			break
		}
		if tr[i]["ev"] == "log" {
			if txt := res.Logs[k-1]; strings.Contains(txt, "global ") && strings.Contains(txt, "is undefined") {
				return core.Sig{Family: "watch-globals", Feature: "not-bound-on-recompile"},
					fmt.Sprintf("a recompile during write %d (%+v) failed with %q although the bundle defines that global: the recompiler's fresh bundle does not carry the globals over", widx+1, w, txt), false
			}
			k--
		}
	}
	if kind == "callback" && w.V == "bad" && w.F%2 == 0 && strings.Contains(fmt.Sprint(e["vers"]), "none") {
		return core.Sig{Family: "watch-datarefs", Feature: "undeclared-variable-accepted-on-recompile"},
			fmt.Sprintf("write %d (%+v) put a template that prints an undeclared variable on disk (Compile rejects it: CheckDataRefs); a recompile accepted it and handed the registry to the callback (versions %v)", widx+1, w, e["vers"]), false
	}
	if kind == "quiesce" || kind == "callback" {
		strs := func(x interface{}) []string {
			var out []string
			if xs, ok := x.([]interface{}); ok {
				for _, y := range xs {
					out = append(out, fmt.Sprint(y))
				}
			}
			return out
		}
		where := "the registry in use at quiescence"
		versKey := "r"
		if kind == "callback" {
			where, versKey = "the registry handed to the recompilation callback", "vers"
		}
		where = fmt.Sprintf("%s (write %d, %+v)", where, widx+1, w)
		vers, ps, src, js := strs(e[versKey]), strs(e["p"]), strs(e["src"]), strs(e["js"])
		rendered := false
		for _, v := range vers {
			rendered = rendered || v != "none"
		}
		notes := strings.Join(res.Notes, "; ")
		switch {
		case !rendered:
		case strings.Join(ps, "+") != strings.Join(PassTags, "+"):
			return core.Sig{Family: "watch-parse-passes", Feature: "not-applied-on-recompile"},
				fmt.Sprintf("%s shows the parse-pass tags %v, registered are %v: a recompile did not run the passes registered with AddParsePass", where, ps, PassTags), false
		case fmt.Sprint(e["g"]) != GlobalValue:
			return core.Sig{Family: "watch-globals", Feature: "not-bound-on-recompile"},
				fmt.Sprintf("%s prints the global as %v, the bundle defines %q", where, e["g"], GlobalValue), false
		case fmt.Sprint(e["m"]) != "ok":
			return core.Sig{Family: "watch-messages", Feature: "not-processed-on-recompile"},
				fmt.Sprintf("%s: its {msg} nodes do not have the id/placeholder names of a fresh compile of the same content, translations are not found (%s)", where, notes), false
		case strings.Join(src, ",") != strings.Join(vers, ","):
			feat := "failing-render-reports-wrong-line"
			if strings.Contains(strings.Join(src, ","), "panic") {
				feat = "failing-render-panics"
			}
			return core.Sig{Family: "watch-source-maps", Feature: feat},
				fmt.Sprintf("%s holds versions %v, but a template that fails at run time reports the position of %v: the registry's source text is not the one its templates were parsed from (%s)", where, vers, src, notes), false
		case kind == "callback" && strings.Join(strs(e["vissrc"]), ",") != strings.Join(strs(e["vis"]), ",") && !strings.Contains(strings.Join(strs(e["vis"]), ","), "none"):
			feat := "failing-render-reports-wrong-line"
			if strings.Contains(strings.Join(strs(e["vissrc"]), ","), "panic") {
				feat = "failing-render-panics"
			}
			return core.Sig{Family: "watch-source-maps", Feature: feat},
				fmt.Sprintf("while the callback of write %d ran, the registry in use held versions %v, but a template that fails at run time reported the position of %v (%s)", widx+1, e["vis"], e["vissrc"], notes), false
		case kind == "callback" && fmt.Sprint(e["vism"]) != "ok" && !strings.Contains(strings.Join(strs(e["vis"]), ","), "none"):
			return core.Sig{Family: "watch-messages", Feature: "not-processed-on-recompile"},
				fmt.Sprintf("while the callback of write %d ran, the {msg} nodes of the registry in use did not have the ids of a fresh compile (%s)", widx+1, notes), false
		case kind == "quiesce" && strings.Join(js, ",") != strings.Join(vers, ","):
			return core.Sig{Family: "watch-soyjs-generator", Feature: "javascript-of-an-older-registry"},
				fmt.Sprintf("%s holds versions %v, a soyjs.Generator created from it before the recompile returns the JavaScript of %v", where, vers, js), false
		}
	}
	if hist == "moved-away" && (kind == "quiesce" || kind == "log") && !strings.Contains(fmt.Sprint(e["r"]), "none") {
		// One cause, one signature: after a Rename event the watch the
		// recompiler adds back is dead with the pinned fsnotify 1.4.9 (events of
		// the new file carry an empty name; Write/Chmod are dropped, Remove/
		// Rename make the recompiler watch "."). That was the tree before
		// d30e761; the symptoms on a file that was moved away earlier (write not
		// noticed, stale registry, fewer recompiles than events, a missing "no
		// such file" line of watcher.Add) are folded into this one signature.
		// Callback-order and missing-template symptoms are not.
		return core.Sig{Family: "watch-after-rename-away", Feature: "re-added-watch-dead"},
			fmt.Sprintf("file f%d was renamed to a backup name and re-created earlier in the run; write %d (%+v) to it is then not handled as bundle.go intends (first event the model cannot produce: %v at trace position %d): the watch added back after the Rename event does not deliver usable events", w.F, widx+1, w, e, pos), false
	}
	logs := 0
	for i := pos - 1; i >= 0 && tr[i]["ev"] != "wbegin"; i-- {
		if tr[i]["ev"] == "log" {
			logs++
		}
	}
	switch kind {
	case "quiesce":
		var r []string
		if xs, ok := e["r"].([]interface{}); ok {
			for _, x := range xs {
				r = append(r, fmt.Sprint(x))
			}
		} else if xs, ok := e["r"].([]string); ok {
			r = xs
		}
		var disk []string
		if widx < len(res.Disk) {
			disk = res.Disk[widx]
		}
		valid, same, missing := true, true, false
		for f := range r {
			if f < len(disk) {
				valid = valid && (disk[f] == "v1" || disk[f] == "v2")
				same = same && r[f] == disk[f]
			}
			missing = missing || r[f] == "none"
		}
		symptom := "quiescence-not-explained"
		switch {
		case missing:
			symptom = "template-missing"
		case logs == 0:
			symptom = "write-not-noticed"
		case valid && !same:
			symptom = "stale-registry"
		case !valid && widx > 0 && strings.Join(r, ",") != strings.Join(res.Obs[widx-1], ","):
			symptom = "registry-changed-on-invalid-disk"
		}
		prev := strings.Repeat("v1,", len(r))
		prev = strings.TrimSuffix(prev, ",")
		if widx > 0 {
			prev = strings.Join(res.Obs[widx-1], ",")
		}
		if symptom == "quiescence-not-explained" && ((valid && same) || (!valid && strings.Join(r, ",") == prev)) {
			// the registry is what the property demands; only the number or
			// kind of recompile steps differs from the implementation-shaped
			// model: drift, not a verdict (DESIGN 2.2)
			return core.Sig{Family: "model-drift", Feature: fmt.Sprintf("recompile-steps,file=%s", hist)},
				fmt.Sprintf("after write %d (%+v) the registry is right (disk %v, renders %v) but the recorded recompile steps (%d log line(s)) are not the ones SoyWatch takes for the events of that write", widx+1, w, disk, r, logs), true
		}
		return core.Sig{Family: "watch-quiescent-registry", Feature: fmt.Sprintf("%s,file=%s", symptom, hist)},
			fmt.Sprintf("after write %d (%+v; file history: %s) the system was quiescent after %d recompile(s), the disk holds %v, the Tofu renders %v: no behaviour of SoyWatch ends there", widx+1, w, hist, logs, disk, r), false
	case "log":
		return core.Sig{Family: "watch-recompile-step", Feature: fmt.Sprintf("log=%v,file=%s", e["k"], hist)},
			fmt.Sprintf("log line of kind %v at trace position %d (during/after write %d, %+v) is not a step the model allows there", e["k"], pos, widx+1, w), false
	case "callback":
		return core.Sig{Family: "watch-recompile-step", Feature: fmt.Sprintf("callback,file=%s", hist)},
			fmt.Sprintf("recompilation callback with versions %v (registry visible through the Tofu at that moment: %v) at trace position %d (write %d, %+v) is not a step the model allows there (new registry visible before the callback, wrong argument, or no successful compile possible)", e["vers"], e["vis"], pos, widx+1, w), false
	}
	return core.Sig{Family: "watch-trace-rejected", Feature: kind}, fmt.Sprintf("event %v at position %d not allowed", e, pos), false
}

func allValid(vs []string) bool {
	for _, v := range vs {
		if v != "v1" && v != "v2" {
			return false
		}
	}
	return true
}

// observablyDead: a run without watcher in which the registry stayed behind a
// valid disk (a run that only rewrote the same versions shows nothing).
func observablyDead(res *Result) bool {
	for i := range res.Obs {
		if i < len(res.Disk) && allValid(res.Disk[i]) && strings.Join(res.Obs[i], ",") != strings.Join(res.Disk[i], ",") {
			return true
		}
	}
	return false
}

func harnessVariants(ms *modelSched, slow bool) []Write {
	out := make([]Write, len(ms.Writes))
	for i, w := range ms.Writes {
		out[i] = w
		if slow && w.M != "atomic" {
			out[i].M = w.M + "_slow"
		}
	}
	return out
}

func randomSchedule(rng *rand.Rand, nf, n int) []Write {
	hm := []string{"write", "write_slow", "atomic", "recreate", "recreate_slow", "moveaway", "moveaway_slow", "write", "atomic"}
	out := make([]Write, n)
	for i := range out {
		out[i] = Write{F: 1 + rng.Intn(nf), V: versions[rng.Intn(len(versions))], M: hm[rng.Intn(len(hm))]}
	}
	return out
}

// judge runs M2 membership and M3 validation on items that have results.
func judge(ctx *core.Ctx, items []*item, label string, diagnose bool) error {
	byNF := map[int][]*item{}
	for _, it := range items {
		if it.res == nil {
			continue
		}
		if it.res.Trouble != "" {
			continue
		}
		it.m2bad, it.m3bad = false, false
		if it.model != nil {
			if _, ok := it.model.Allowed[obsKey(it.res.Obs, it.res.ObsX)]; !ok {
				it.m2bad = true
			}
		}
		byNF[it.nf] = append(byNF[it.nf], it)
	}
	for nf, its := range byNF {
		if err := validate(ctx, its, nf, label, diagnose); err != nil {
			return err
		}
	}
	return nil
}

// Run is the XWATCH checker.
func Run(ctx *core.Ctx) {
	ctx.Rule = "schedules = sequences of (file, version in {v1,v2,bad}, write method in {write,atomic,recreate,moveaway} x {back-to-back, with a quiescence between the two system calls}) executed on a real bundle with WatchFiles(true) in a temp dir; " +
		"all TLC-enumerated schedules up to the exported length (quick: all of length 1 and a seeded sample of length 2; thorough: all) plus seeded random ones of length 3-8 over 2 or 3 files; " +
		"after each write the harness waits for certain quiescence (recompiler parked in its select, fsnotify reader parked in epoll_wait, FIONREAD=0, no log line in between) and renders every template; " +
		"a schedule is non-trivial if it has at least one write; distinct = distinct (files, schedule)"
	ctx.Assumptions = []string{
		"fsnotify/inotify are the environment: an in-place modification of a watched inode queues 1 Write event per system call (possibly coalesced with an identical unread one), unlink/rename-over queues Chmod+Remove and ends the watch, rename-away queues Rename; Write/Chmod events for a path that does not exist are dropped by fsnotify",
		"every watched template prints its version, one global and a {msg} with a placeholder; two parse passes append a tag; a second template per file fails at run time: passes applied, globals bound, messages processed (ids of a fresh compile, translation found through a fake bundle) and fresh source maps (file/line of the failing command) are read off renders, the JavaScript of a long-lived soyjs.Generator is compared with that of fresh compiles",
		"the bad version of an odd file is a syntax error, that of an even file an undeclared variable (CheckDataRefs)",
		"file contents are abstracted to v1|v2|bad|empty|absent; an empty .soy file does not compile (measured: 'namespace required')",
		"renders are made only at quiescence: the unsynchronised struct copy `*reg = *registry` is accepted by the code's own comment and is not judged",
		"the inotify queue never overflows; watcher.Errors is never signalled",
	}
	ctx.Trusted = []string{"TLC", "the Linux inotify implementation", "runtime.Stack goroutine states used to detect quiescence"}

	if ctx.ReplayPath != "" {
		replay(ctx)
		return
	}

	root := filepath.Join(core.VerifDir, "out", fmt.Sprintf("watch-%d", os.Getpid()))
	if err := os.MkdirAll(root, 0o755); err != nil {
		ctx.ToolError("mkdir %s: %v", root, err)
		return
	}
	defer os.RemoveAll(root)

	// M1 in the background
	var wg sync.WaitGroup
	wg.Add(1)
	go func() { defer wg.Done(); modelChecks(ctx) }()
	defer wg.Wait()

	if err := inotifyWorks(root); err != nil {
		ctx.Extra["inotify"] = "NOT WORKING: " + err.Error()
		ctx.ToolError("inotify does not work in this sandbox (%v): only the M1 part ran, the real recompiler was not exercised", err)
		return
	}
	ctx.Extra["inotify"] = "works (IN_MODIFY delivered for a watched file)"

	// M2 export
	scheds, err := exportSchedules(ctx, ctx.Pick(2, 3))
	if err != nil {
		ctx.ToolError("%v", err)
		return
	}
	keys := make([]string, 0, len(scheds))
	for k := range scheds {
		keys = append(keys, k)
	}
	sort.Strings(keys)
	ctx.Extra["m2_model_schedules"] = len(keys)
	nout := 0
	for _, k := range keys {
		nout += len(scheds[k].Allowed)
	}
	ctx.Extra["m2_model_histories"] = nout

	rng := rand.New(rand.NewSource(ctx.Seed))
	var items []*item
	// calibration aid (mutant runs): XWATCH_SKIP=moveaway leaves that method
	// out of the schedules, so that the open finding does not hide the exit code
	skip := os.Getenv("XWATCH_SKIP")
	if skip != "" {
		ctx.Extra["methods_skipped"] = skip
	}
	skipped := func(ws []Write) bool {
		for _, w := range ws {
			if skip != "" && ModelMethod(w.M) == skip {
				return true
			}
		}
		return false
	}
	var len2, len3 []string
	for _, k := range keys {
		ms := scheds[k]
		if skipped(ms.Writes) {
			continue
		}
		switch len(ms.Writes) {
		case 1:
			items = append(items, &item{nf: 2, sched: harnessVariants(ms, false), model: ms, origin: "tlc"})
			if ms.Writes[0].M != "atomic" {
				items = append(items, &item{nf: 2, sched: harnessVariants(ms, true), model: ms, origin: "tlc"})
			}
		case 2:
			len2 = append(len2, k)
		default:
			len3 = append(len3, k)
		}
	}
	rng.Shuffle(len(len2), func(i, j int) { len2[i], len2[j] = len2[j], len2[i] })
	rng.Shuffle(len(len3), func(i, j int) { len3[i], len3[j] = len3[j], len3[i] })
	take := ctx.Pick(160, len(len2))
	if take > len(len2) {
		take = len(len2)
	}
	for i, k := range len2[:take] {
		ms := scheds[k]
		if ctx.Thorough() {
			items = append(items, &item{nf: 2, sched: harnessVariants(ms, false), model: ms, origin: "tlc"})
			items = append(items, &item{nf: 2, sched: harnessVariants(ms, true), model: ms, origin: "tlc"})
		} else {
			items = append(items, &item{nf: 2, sched: harnessVariants(ms, i%2 == 1), model: ms, origin: "tlc"})
		}
	}
	take3 := 1500
	if take3 > len(len3) {
		take3 = len(len3)
	}
	for i, k := range len3[:take3] {
		items = append(items, &item{nf: 2, sched: harnessVariants(scheds[k], i%2 == 1), model: scheds[k], origin: "tlc"})
	}
	ctx.Exhaustive = false
	ctx.Extra["m2_schedules_replayed"] = map[string]int{"len1": len(items) - take*ctx.Pick(1, 2) - take3, "len2_of": len(len2), "len2": take, "len3_of": len(len3), "len3": take3}
	nrand := ctx.Pick(60, 600)
	for i := 0; i < nrand; i++ {
		nf := 2 + i%2
		n := 3 + rng.Intn(ctx.Pick(4, 6))
		sc := randomSchedule(rng, nf, n)
		for skipped(sc) {
			sc = randomSchedule(rng, nf, n)
		}
		items = append(items, &item{nf: nf, sched: sc, origin: "random"})
	}

	r := &runner{ctx: ctx, root: root}
	t0 := time.Now()
	r.runAll(items, 6)
	ctx.Extra["drive_wall_s"] = time.Since(t0).Seconds()

	var settle []int64
	nwrites := 0
	for _, it := range items {
		if it.res == nil {
			continue
		}
		if it.res.Trouble != "" && !strings.HasPrefix(it.res.Trouble, "CRASH") {
			ctx.ToolError("schedule %s: %s", schedKey(it.sched), it.res.Trouble)
			continue
		}
		nwrites += len(it.res.Obs)
		settle = append(settle, it.res.SettleUS...)
		ctx.Distinct(fmt.Sprintf("%d|%v", it.nf, it.sched))
	}
	ctx.AddEvals(int64(nwrites))
	if len(settle) > 0 {
		sort.Slice(settle, func(i, j int) bool { return settle[i] < settle[j] })
		ctx.Extra["settle_us_median_p99_max"] = []int64{settle[len(settle)/2], settle[len(settle)*99/100], settle[len(settle)-1]}
	}

	if err := judge(ctx, items, "M3-trace-validation", true); err != nil {
		ctx.ToolError("%v", err)
		return
	}

	// every rejected run is re-run twice in fresh processes: a violation is
	// reported only if the behaviour reproduces (all re-runs rejected too)
	rejected, confirmed, unstable, drifted := 0, 0, 0, 0
	nsamples, nowatch := 0, 0
	var bad []*item
	for _, it := range items {
		if it.res == nil {
			continue
		}
		crash := strings.HasPrefix(it.res.Trouble, "CRASH")
		if it.res.Trouble != "" && !crash {
			continue
		}
		if it.res.NoWatcher && !observablyDead(it.res) {
			nowatch++
			continue
		}
		if !crash && !it.m2bad && !it.m3bad {
			if nsamples < 4 && (len(it.sched) >= 2) {
				nsamples++
				ctx.Sample(map[string]interface{}{"files": it.nf, "schedule": it.sched, "trace": it.res.Trace, "verdict": "accepted by SoyWatchTrace", "origin": it.origin})
			}
			continue
		}
		bad = append(bad, it)
	}
	rejected = len(bad)
	var again []*item
	for _, it := range bad {
		for k := 0; k < 2; k++ {
			again = append(again, &item{nf: it.nf, sched: it.sched, model: it.model, origin: it.origin})
		}
	}
	if len(again) > 0 {
		r.runAll(again, 6)
		if err := judge(ctx, again, "M3-confirmation", false); err != nil {
			ctx.ToolError("%v", err)
			return
		}
	}
	for i, it := range bad {
		n := 0
		for _, it2 := range again[2*i : 2*i+2] {
			if it2.res == nil {
				continue
			}
			if it.res.NoWatcher && !(it2.res.NoWatcher && observablyDead(it2.res)) {
				continue
			}
			if strings.HasPrefix(it2.res.Trouble, "CRASH") || (it2.res.Trouble == "" && (it2.m2bad || it2.m3bad)) {
				n++
			}
		}
		if n < 2 {
			unstable++
			ctx.ToolError("schedule %s (files=%d) was rejected once but accepted when re-run: timing-dependent behaviour outside the model (investigate; not a verdict). trace: %s",
				schedKey(it.sched), it.nf, mustJSON(it.res.Trace))
			continue
		}
		sig, what, drift := signature(it)
		if drift {
			drifted++
			ctx.ToolError("MODEL-DRIFT (not a verdict): schedule %s (files=%d): %s", schedKey(it.sched), it.nf, what)
			continue
		}
		confirmed++
		rep := map[string]interface{}{
			"files": it.nf, "schedule": it.sched, "trace": it.res.Trace, "logs": it.res.Logs,
			"rendered_at_quiescence": it.res.Obs, "disk_after_each_write": it.res.Disk,
			"rejected_by":           map[string]bool{"M2_allowed_observations": it.m2bad, "M3_trace_validation": it.m3bad},
			"first_unmatched_event": it.badPos, "crash": it.res.Trouble,
		}
		if it.model != nil {
			var al []string
			for k := range it.model.Allowed {
				al = append(al, k)
			}
			sort.Strings(al)
			rep["model_allows_observations"] = al
		}
		ctx.Violation(sig, what, rep)
	}
	if nowatch > 0 {
		ctx.Extra["runs_without_watcher_nothing_observable"] = nowatch
	}
	ctx.Extra["runs_rejected"] = rejected
	ctx.Extra["runs_rejected_and_reproduced"] = confirmed
	ctx.Extra["runs_rejected_not_reproduced"] = unstable
	ctx.Extra["runs_rejected_as_model_drift"] = drifted
	ctx.Extra["schedules_run"] = len(items)
	ctx.Exhaustive = false
}

func mustJSON(v interface{}) string {
	b, _ := json.Marshal(v)
	return string(b)
}

// replay re-runs the schedule of a saved violation and validates it again.
func replay(ctx *core.Ctx) {
	raw, err := os.ReadFile(ctx.ReplayPath)
	if err != nil {
		ctx.ToolError("replay: %v", err)
		return
	}
	var v struct {
		Replay struct {
			Files    int     `json:"files"`
			Schedule []Write `json:"schedule"`
		} `json:"replay"`
	}
	if err := json.Unmarshal(raw, &v); err != nil || v.Replay.Files == 0 {
		ctx.ToolError("replay: cannot read %s: %v", ctx.ReplayPath, err)
		return
	}
	root := filepath.Join(core.VerifDir, "out", fmt.Sprintf("watch-%d", os.Getpid()))
	os.MkdirAll(root, 0o755)
	defer os.RemoveAll(root)
	r := &runner{ctx: ctx, root: root}
	it := &item{nf: v.Replay.Files, sched: v.Replay.Schedule, origin: "replay"}
	r.runAll([]*item{it}, 1)
	if it.res == nil {
		return
	}
	ctx.AddEvals(int64(len(it.res.Obs)))
	ctx.Distinct(fmt.Sprint(it.sched))
	ctx.Sample(map[string]interface{}{"schedule": it.sched, "trace": it.res.Trace})
	if strings.HasPrefix(it.res.Trouble, "CRASH") {
		sig, what, _ := signature(it)
		ctx.Violation(sig, what, map[string]interface{}{"files": it.nf, "schedule": it.sched, "crash": it.res.Trouble})
		return
	}
	if it.res.Trouble != "" {
		ctx.ToolError("replay: %s", it.res.Trouble)
		return
	}
	if err := judge(ctx, []*item{it}, "M3-replay", true); err != nil {
		ctx.ToolError("%v", err)
		return
	}
	fmt.Printf("replay: schedule %v\n  rendered at quiescence: %v\n  disk: %v\n  logs: %q\n", it.sched, it.res.Obs, it.res.Disk, it.res.Logs)
	if it.m3bad {
		sig, what, _ := signature(it)
		ctx.Violation(sig, what, map[string]interface{}{"files": it.nf, "schedule": it.sched, "trace": it.res.Trace, "logs": it.res.Logs,
			"rendered_at_quiescence": it.res.Obs, "disk_after_each_write": it.res.Disk, "first_unmatched_event": it.badPos})
	} else {
		fmt.Println("replay: the run is a behaviour of SoyWatch (accepted)")
	}
}
