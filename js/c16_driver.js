// node driver for property C16 (and C03's JS notes): loads
// soyjs/lib/soyutils.js in a fresh vm context and runs a batch of jobs read
// from stdin as JSON:
//   {soyutils: path, jobs: [
//      {op: "call",   fn: "soy.$$escapeHtml", args: [...]}       -> result of the call (String()'d)
//      {op: "jsstr",  body: "..."}   evaluate '<body>' and "<body>" as string literals
//      {op: "json",   text: "..."}   JSON.parse, answered as canonical JSON.stringify
//   ]}
// Answer on stdout: {engine, results: [{ok, s, wf, s2?} | {ok: false, err}]}
// Strings that are not well-formed UTF-16 are flagged (wf: false).
'use strict';
const fs = require('fs');
const vm = require('vm');

const input = JSON.parse(fs.readFileSync(0, 'utf8'));
const ctx = vm.createContext({});
vm.runInContext(fs.readFileSync(input.soyutils, 'utf8'), ctx, {filename: 'soyutils.js'});
const resolve = new Map();
function fnOf(name) {
  if (!resolve.has(name)) resolve.set(name, vm.runInContext('(' + name + ')', ctx));
  return resolve.get(name);
}
function wellFormed(s) {
  return typeof s.isWellFormed === 'function' ? s.isWellFormed() : !/[\ud800-\udbff](?![\udc00-\udfff])|(?<![\ud800-\udbff])[\udc00-\udfff]/.test(s);
}
const results = [];
for (const job of input.jobs) {
  try {
    if (job.op === 'call') {
      const args = job.args.slice();
      // pre: a function applied to the first argument before (e.g. escapeHtml,
      // the composition the Soy documentation prescribes for HTML directives)
      if (job.pre) args[0] = String(fnOf(job.pre)(args[0]));
      const r = String(fnOf(job.fn).apply(null, args));
      results.push({ok: true, s: r, wf: wellFormed(r)});
    } else if (job.op === 'jsstr') {
      // the body must denote the same string between either kind of quotes
      const a = vm.runInContext("('" + job.body + "')", ctx);
      const b = vm.runInContext('("' + job.body + '")', ctx);
      results.push({ok: typeof a === 'string' && typeof b === 'string', s: a, s2: b, wf: wellFormed(a)});
    } else if (job.op === 'json') {
      results.push({ok: true, s: JSON.stringify(JSON.parse(job.text)), wf: true});
    } else {
      results.push({ok: false, err: 'unknown op ' + job.op});
    }
  } catch (e) {
    results.push({ok: false, err: String(e && e.message || e)});
  }
}
process.stdout.write(JSON.stringify({engine: 'node ' + process.version, results}));
