// driver.js — node side of /verif/harness/jsrun.
//
// Usage:  node --experimental-vm-modules --no-warnings driver.js <path/to/soyutils.js>
//
// Protocol: one JSON document per line on stdin (a request), one JSON document
// per line on stdout (its response, same "id").  Requests are handled strictly
// in order.  Every request runs in a FRESH vm context:
//
//   1. unless "noUtils" is set, soyutils.js (argv[2]) is evaluated in it;
//   2. every entry of "pre" (plain script text) is evaluated (stubs, plural
//      function, ...); an error here is reported in "preErr";
//   3. the global names present at this point are remembered;
//   4. every entry of "sources" {name, code, kind} is parsed and evaluated in
//      order.  kind "script" (default): new vm.Script + runInContext.  kind
//      "module": vm.SourceTextModule (ES module syntax: import/export); its
//      imports are linked as described at linkModules() below.  Per source the
//      response has {name, ok, syntax, err}: ok=false/syntax=true means the
//      text is not a well-formed Script/Module (SyntaxError at parse time),
//      ok=false/syntax=false means it parsed but threw while being evaluated;
//   5. "defined": [qualified names] -> for each name the typeof of the value
//      found by walking the dotted path from the global object (for module
//      sources also from the merged module exports), "missing" if a prefix of
//      the path is null/undefined;
//   6. "enumerate": true -> "functions": sorted dotted paths of every function
//      reachable through plain objects from a global that did not exist at
//      step 3, and "exports": {sourceName: [exported names...]} for modules;
//   7. every entry of "calls" {fn, data, ij, nodata} is executed:
//      fn(data, undefined, ij) with data/ij parsed from JSON inside the
//      context ("nodata": call with no arguments).  Per call: {ok, out, u16?,
//      type, err}.  "out" is String(result); if it is not a well-formed UTF-16
//      string (lone surrogates) "u16" carries its code units;
//   8. "syntax": [{code, kind}] -> per entry {ok, err}: parse only, nothing is
//      evaluated (new vm.Script / new vm.SourceTextModule);
//   9. "evals": [script text] -> per entry {ok, json, out, type, err}: the
//      completion value of the script, as JSON.stringify (json) and String
//      (out).
//
// "timeoutMs" bounds every single evaluation/call (vm timeout option, default
// 2000 ms).  Strings cross the boundary as JSON only, so any character
// (U+2028/2029, NUL, astral, quotes) is safe; JSON.stringify output is made
// ASCII-only before it is written.
'use strict';
const vm = require('vm');
const fs = require('fs');
const readline = require('readline');

const utilsPath = process.argv[2];
let utilsScript = null;
let utilsErr = null;
if (utilsPath) {
  try {
    utilsScript = new vm.Script(fs.readFileSync(utilsPath, 'utf8'), {filename: 'soyutils.js'});
  } catch (e) {
    utilsErr = String(e);
  }
}

function errStr(e) {
  try {
    if (e && typeof e === 'object' && 'name' in e && 'message' in e) {
      return String(e.name) + ': ' + String(e.message);
    }
    return String(e);
  } catch (e2) {
    return 'unprintable error';
  }
}

function isSyntaxError(e) {
  try {
    return !!e && (e.name === 'SyntaxError' || (e.constructor && e.constructor.name === 'SyntaxError'));
  } catch (e2) {
    return false;
  }
}

// ASCII-only JSON so that no terminal/pipe layer can damage a character.
function asciiJSON(v) {
  return JSON.stringify(v).replace(/[\u007f-\uffff]/g, function (c) {
    return '\\u' + ('0000' + c.charCodeAt(0).toString(16)).slice(-4);
  });
}

function wellFormed(s) {
  if (typeof s.isWellFormed === 'function') return s.isWellFormed();
  for (let i = 0; i < s.length; i++) {
    const c = s.charCodeAt(i);
    if (c >= 0xd800 && c <= 0xdbff) {
      const d = s.charCodeAt(i + 1);
      if (!(d >= 0xdc00 && d <= 0xdfff)) return false;
      i++;
    } else if (c >= 0xdc00 && c <= 0xdfff) {
      return false;
    }
  }
  return true;
}

function units(s) {
  const a = new Array(s.length);
  for (let i = 0; i < s.length; i++) a[i] = s.charCodeAt(i);
  return a;
}

function resolvePath(root, extra, name) {
  const parts = name.split('.');
  let starts = [root];
  if (extra) starts.push(extra);
  for (const start of starts) {
    let cur = start;
    let ok = true;
    for (let i = 0; i < parts.length; i++) {
      if (cur === null || cur === undefined) { ok = false; break; }
      try {
        cur = cur[parts[i]];
      } catch (e) { ok = false; break; }
    }
    if (ok && cur !== undefined) return {found: true, value: cur};
  }
  return {found: false, value: undefined};
}

function enumerateFunctions(ctxGlobal, before) {
  const out = [];
  const seen = new Set();
  function walk(obj, path, depth) {
    if (depth > 12 || obj === null) return;
    if (typeof obj !== 'object' && typeof obj !== 'function') return;
    if (seen.has(obj)) return;
    seen.add(obj);
    let keys;
    if (typeof obj === 'function') {
      // a function may itself carry functions (a template a.b.c next to a namespace a.b.c):
      // its own ENUMERABLE properties are walked (not prototype / length / name)
      out.push(path);
      try { keys = Object.keys(obj); } catch (e) { return; }
    } else {
      try { keys = Object.getOwnPropertyNames(obj); } catch (e) { return; }
    }
    for (const k of keys) {
      let v;
      try { v = obj[k]; } catch (e) { continue; }
      walk(v, path + '.' + k, depth + 1);
    }
  }
  for (const k of Object.getOwnPropertyNames(ctxGlobal)) {
    if (before.has(k)) continue;
    walk(ctxGlobal[k], k, 0);
  }
  out.sort();
  return out;
}

// linkModules: ES6 output of soyjs refers to other templates, print directives
// and functions as
//     import { a__b } from 'a.b.js';
// i.e. specifier "<dotted name>.js", imported binding = dotted name with "."
// replaced by "__".  The specifier is resolved to a vm.SyntheticModule that
// exports exactly that binding (plus any other binding requested from the same
// specifier would fail to link — which is what a real loader would do too).
// Its value is a forwarding function: at call time it looks the binding up in
// the merged exports of all module sources of the request (so cross-file and
// cyclic calls work regardless of evaluation order), and failing that at the
// dotted path in the context (soy.$$truncate, ...).
async function linkModules(mods, context, merged, timeoutMs) {
  const synth = new Map();
  function linker(specifier) {
    if (synth.has(specifier)) return synth.get(specifier);
    const dotted = specifier.replace(/\.js$/, '');
    const binding = dotted.replace(/\./g, '__');
    const m = new vm.SyntheticModule([binding], function () {
      this.setExport(binding, function () {
        let f = merged[binding];
        if (typeof f !== 'function') {
          const r = resolvePath(context, null, dotted);
          f = r.value;
        }
        if (typeof f !== 'function') {
          throw new Error('unresolved import ' + binding + ' from ' + specifier);
        }
        return f.apply(this, arguments);
      });
    }, {context: context, identifier: specifier});
    synth.set(specifier, m);
    return m;
  }
  for (const m of mods) {
    if (!m.module) continue;
    try {
      await m.module.link(linker);
      await m.module.evaluate({timeout: timeoutMs});
      const ns = m.module.namespace;
      m.exports = Object.keys(ns).sort();
      for (const k of m.exports) merged[k] = ns[k];
      m.res.ok = true;
    } catch (e) {
      m.res.ok = false;
      m.res.syntax = isSyntaxError(e);
      m.res.err = errStr(e);
    }
  }
}

async function handle(req) {
  const resp = {id: req.id};
  const timeoutMs = req.timeoutMs > 0 ? req.timeoutMs : 2000;
  const context = vm.createContext({console: {log: function () {}}});
  const run = function (code, filename) {
    return vm.runInContext(code, context, {timeout: timeoutMs, filename: filename || 'eval'});
  };
  if (!req.noUtils) {
    if (!utilsScript) {
      resp.fatal = 'soyutils.js not loaded: ' + (utilsErr || 'no path given');
      return resp;
    }
    try {
      utilsScript.runInContext(context, {timeout: 20000});
    } catch (e) {
      resp.fatal = 'soyutils.js failed: ' + errStr(e);
      return resp;
    }
  }
  for (const p of req.pre || []) {
    try { run(p, 'pre'); } catch (e) { resp.preErr = errStr(e); }
  }
  const before = new Set(Object.getOwnPropertyNames(context));
  const merged = Object.create(null);
  const mods = [];
  resp.sources = [];
  for (const s of req.sources || []) {
    const r = {name: s.name, ok: false, syntax: false};
    resp.sources.push(r);
    if (s.kind === 'module') {
      if (typeof vm.SourceTextModule !== 'function') {
        r.err = 'vm.SourceTextModule unavailable (node needs --experimental-vm-modules)';
        r.unsupported = true;
        continue;
      }
      const m = {res: r, module: null, exports: []};
      try {
        m.module = new vm.SourceTextModule(s.code, {context: context, identifier: s.name});
      } catch (e) {
        r.syntax = isSyntaxError(e);
        r.err = errStr(e);
      }
      m.name = s.name;
      mods.push(m);
    } else {
      let script;
      try {
        script = new vm.Script(s.code, {filename: s.name});
      } catch (e) {
        r.syntax = isSyntaxError(e);
        r.err = errStr(e);
        continue;
      }
      try {
        script.runInContext(context, {timeout: timeoutMs});
        r.ok = true;
      } catch (e) {
        r.err = errStr(e);
      }
    }
  }
  if (mods.length > 0) {
    await linkModules(mods, context, merged, timeoutMs);
  }
  if (req.defined) {
    resp.defined = {};
    for (const name of req.defined) {
      const r = resolvePath(context, merged, name);
      resp.defined[name] = r.found ? typeof r.value : 'missing';
    }
  }
  if (req.enumerate) {
    resp.functions = enumerateFunctions(context, before);
    resp.exports = {};
    for (const m of mods) resp.exports[m.name] = m.exports;
  }
  resp.calls = [];
  for (const c of req.calls || []) {
    const r = {ok: false};
    resp.calls.push(r);
    try {
      const f = resolvePath(context, merged, c.fn);
      if (typeof f.value !== 'function') {
        r.err = 'not a function: ' + c.fn + ' (' + (f.found ? typeof f.value : 'missing') + ')';
        continue;
      }
      context.__jsrun_f = f.value;
      context.__jsrun_d = c.nodata ? '' : JSON.stringify(c.data === undefined ? null : c.data);
      context.__jsrun_ij = (c.ij === undefined || c.ij === null) ? '' : JSON.stringify(c.ij);
      const code = c.nodata ? '__jsrun_f()' :
        '__jsrun_f(JSON.parse(__jsrun_d), undefined, __jsrun_ij === "" ? undefined : JSON.parse(__jsrun_ij))';
      const v = run(code, 'call');
      r.type = typeof v;
      const s = String(v);
      r.out = s;
      if (!wellFormed(s)) r.u16 = units(s);
      r.ok = true;
    } catch (e) {
      r.err = errStr(e);
    }
  }
  if (req.syntax) {
    resp.syntax = [];
    for (const s of req.syntax) {
      const r = {ok: false};
      resp.syntax.push(r);
      try {
        if (s.kind === 'module') {
          if (typeof vm.SourceTextModule !== 'function') {
            r.err = 'vm.SourceTextModule unavailable';
            r.unsupported = true;
            continue;
          }
          new vm.SourceTextModule(s.code, {context: context});
        } else {
          new vm.Script(s.code);
        }
        r.ok = true;
      } catch (e) {
        r.err = errStr(e);
        r.syntax = isSyntaxError(e);
      }
    }
  }
  if (req.evals) {
    resp.evals = [];
    for (const src of req.evals) {
      const r = {ok: false};
      resp.evals.push(r);
      try {
        const v = run(src, 'evalExpr');
        r.type = typeof v;
        r.out = String(v);
        if (!wellFormed(r.out)) r.u16 = units(r.out);
        let j;
        try { j = JSON.stringify(v); } catch (e) { j = undefined; }
        if (j !== undefined) r.json = j;
        r.ok = true;
      } catch (e) {
        r.err = errStr(e);
        r.syntax = isSyntaxError(e);
      }
    }
  }
  return resp;
}

const rl = readline.createInterface({input: process.stdin, crlfDelay: Infinity});
let chain = Promise.resolve();
rl.on('line', function (line) {
  if (line.trim() === '') return;
  chain = chain.then(async function () {
    let req;
    try {
      req = JSON.parse(line);
    } catch (e) {
      process.stdout.write(asciiJSON({id: -1, fatal: 'bad request JSON: ' + errStr(e)}) + '\n');
      return;
    }
    let resp;
    try {
      resp = await handle(req);
    } catch (e) {
      resp = {id: req.id, fatal: 'driver exception: ' + errStr(e)};
    }
    process.stdout.write(asciiJSON(resp) + '\n');
  });
});
rl.on('close', function () {
  chain.then(function () { process.exit(0); });
});
