package soy

import (
	"bytes"
	"testing"
	"time"
)

// C06: rendering a compiled bundle with any data returns; no loop runs unboundedly on finite data,
// whatever the types or shapes of the data. (C20: pointers convert to what they point at.)
func TestMutDemo(t *testing.T) {
	tofu, err := NewBundle().AddTemplateString("a.soy", "{namespace n}\n/** @param x */\n{template .t}\n{$x}\n{/template}\n").CompileToTofu()
	if err != nil {
		t.Fatal(err)
	}
	var v interface{} = 5
	done := make(chan string, 1)
	go func() {
		var b bytes.Buffer
		err := tofu.Render(&b, "n.t", map[string]interface{}{"x": &v}) // a pointer to an interface value
		done <- b.String() + "|" + errString(err)
	}()
	select {
	case got := <-done:
		if got != "5|" {
			t.Fatalf("got %q, want \"5|\"", got)
		}
	case <-time.After(3 * time.Second):
		t.Fatalf("Render does not return for data holding a *interface{}")
	}
}

func errString(err error) string {
	if err == nil {
		return ""
	}
	return err.Error()
}
