package soy

import (
	"bytes"
	"testing"
)

// C07: a bundle in which every reference is bound, every param used and every call resolvable compiles.
// White space between the name of a header param and the ':' is allowed (the lexer skips it).
func TestMutDemo(t *testing.T) {
	src := "{namespace n}\n\n{template .t}\n{@param x : string}\n{@param? y\t: int}\n{$x}{$y}\n{/template}\n"
	tofu, err := NewBundle().AddTemplateString("a.soy", src).CompileToTofu()
	if err != nil {
		t.Fatalf("well-formed bundle rejected: %v", err)
	}
	var b bytes.Buffer
	if err := tofu.Render(&b, "n.t", map[string]interface{}{"x": "a", "y": 2}); err != nil || b.String() != "a2" {
		t.Fatalf("render: %q %v", b.String(), err)
	}
}
