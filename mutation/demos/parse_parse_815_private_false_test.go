package soy

import (
	"bytes"
	"testing"
)

// C07: a bundle that satisfies the data-reference rules compiles. private="false" is a legal template attribute.
func TestMutDemo(t *testing.T) {
	src := "{namespace n}\n\n/** @param x */\n{template .t private=\"false\"}\n{$x}\n{/template}\n"
	tofu, err := NewBundle().AddTemplateString("a.soy", src).CompileToTofu()
	if err != nil {
		t.Fatalf("well-formed bundle rejected: %v", err)
	}
	var b bytes.Buffer
	if err := tofu.Render(&b, "n.t", map[string]interface{}{"x": "a"}); err != nil || b.String() != "a" {
		t.Fatalf("render: %q %v", b.String(), err)
	}
}
