package soy

import (
	"bytes"
	"testing"
	"time"
)

// C16: truncate returns a prefix cut at a character boundary. C06: no render loops unboundedly on finite data.
func TestMutDemo(t *testing.T) {
	tofu, err := NewBundle().AddTemplateString("a.soy", "{namespace n}\n/** @param x */\n{template .t}\n{$x|truncate:2,false}\n{/template}\n").CompileToTofu()
	if err != nil {
		t.Fatal(err)
	}
	done := make(chan string, 1)
	go func() {
		var b bytes.Buffer
		err := tofu.Render(&b, "n.t", map[string]interface{}{"x": "aébc"}) // byte 2 is inside the two-byte e-acute
		if err != nil {
			done <- "error: " + err.Error()
			return
		}
		done <- b.String()
	}()
	select {
	case got := <-done:
		if got != "a" {
			t.Fatalf("got %q, want \"a\"", got)
		}
	case <-time.After(3 * time.Second):
		t.Fatalf("Render does not return: |truncate spins when the cut falls inside a multi-byte character")
	}
}
