package soyjs

import (
	"bytes"
	"strings"
	"testing"

	"github.com/robfig/soy/parse"
	"github.com/robfig/soy/template"
)

// C16/C14: the json directive has a JavaScript counterpart; JS is generated for every accepted file.
func TestMutDemo(t *testing.T) {
	sf, err := parse.SoyFile("a.soy", "{namespace n}\n/** @param x */\n{template .t}\n{$x|json}\n{/template}\n")
	if err != nil {
		t.Fatal(err)
	}
	var reg template.Registry
	if err := reg.Add(sf); err != nil {
		t.Fatal(err)
	}
	var buf bytes.Buffer
	if err := Write(&buf, sf, Options{}); err != nil || !strings.Contains(buf.String(), "JSON.stringify(opt_data.x)") {
		t.Fatalf("generation of {$x|json}: err=%v js=%s", err, buf.String())
	}
}
