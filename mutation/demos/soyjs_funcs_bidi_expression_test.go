package soyjs

import (
	"bytes"
	"testing"

	"github.com/robertkrimen/otto/parser"
	"github.com/robfig/soy"
)

// C14: the JavaScript generated for an accepted file is a syntactically valid script.
func TestMutDemo(t *testing.T) {
	reg, err := soy.NewBundle().AddTemplateString("a.soy", "{namespace n}\n/** */\n{template .t}\n{if bidiGlobalDir() > 0}ltr{/if}{if bidiStartEdge() == 'left'}L{/if}\n{/template}\n").Compile()
	if err != nil {
		t.Skipf("the compiler rejects the bundle: %v", err)
	}
	sf := reg.SoyFiles[0]
	var buf bytes.Buffer
	if err := Write(&buf, sf, Options{}); err != nil {
		t.Fatalf("generation failed: %v", err)
	}
	if _, err := parser.ParseFile(nil, "a.js", buf.String(), 0); err != nil {
		t.Fatalf("generated JavaScript does not parse: %v\n%s", err, buf.String())
	}
}
