package soymsg

import (
	"testing"

	"github.com/robfig/soy/ast"
	"github.com/robfig/soy/parse"
)

// C10: ids follow the official Soy algorithm. "aetaidqo" is a text whose second 32-bit hash
// (seed 102072) is 0 or 1 while the first is not 0: official fingerprint = hi<<32 | lo, no re-mapping.
func TestMutDemo(t *testing.T) {
	const text = "aetaidqo"
	sf, err := parse.SoyFile("", `{msg desc=""}`+text+`{/msg}`)
	if err != nil {
		t.Fatal(err)
	}
	n := sf.Body[0].(*ast.MsgNode)
	SetPlaceholdersAndID(n)
	hi, lo := hash32([]byte(text), 0, 8, 0), hash32([]byte(text), 0, 8, 102072)
	if hi == 0 || lo > 1 {
		t.Skipf("not a witness: hi=%d lo=%d", hi, lo)
	}
	if want := (uint64(hi)<<32 | uint64(lo)) & 0x7fffffffffffffff; n.ID != want {
		t.Fatalf("id of %q = %d, want %d (hi=%d, lo=%d)", text, n.ID, want, hi, lo)
	}
}
