package soymsg

import (
	"testing"

	"github.com/robfig/soy/ast"
	"github.com/robfig/soy/parse"
)

// C10: ids follow the official Soy algorithm (fingerprint of the placeholder string).
// "ahyibdjr" is an 8-letter text whose first 32-bit hash (seed 0) is 0; its official
// fingerprint is (0 << 32) | hash32(seed 102072), which is not 0 or 1, so no re-mapping applies.
func TestMutDemo(t *testing.T) {
	sf, err := parse.SoyFile("", `{msg desc=""}ahyibdjr{/msg}`)
	if err != nil {
		t.Fatal(err)
	}
	n := sf.Body[0].(*ast.MsgNode)
	SetPlaceholdersAndID(n)
	hi, lo := hash32([]byte("ahyibdjr"), 0, 8, 0), hash32([]byte("ahyibdjr"), 0, 8, 102072)
	if hi != 0 || lo <= 1 {
		t.Skipf("not a witness: hi=%d lo=%d", hi, lo)
	}
	if want := (uint64(hi)<<32 | uint64(lo)) & 0x7fffffffffffffff; n.ID != want {
		t.Fatalf("id of 'ahyibdjr' = %d, want %d (hi=0, lo=%d)", n.ID, want, lo)
	}
}
