package soymsg

import (
	"testing"

	"github.com/robfig/soy/ast"
	"github.com/robfig/soy/parse"
)

// C10: placeholder names are derived from the tag (official algorithm: START_<TAG> / END_<TAG>).
func TestMutDemo(t *testing.T) {
	sf, err := parse.SoyFile("", `{msg desc=""}see <h9>this</h9> and <h8>that</h8>{/msg}`)
	if err != nil {
		t.Fatal(err)
	}
	n := sf.Body[0].(*ast.MsgNode)
	SetPlaceholdersAndID(n)
	if got, want := PlaceholderString(n), "see {START_H_9}this{END_H_9} and {START_H_8}that{END_H_8}"; got != want {
		t.Fatalf("placeholder string %q, want %q (id %d)", got, want, n.ID)
	}
}
