package soymsg

import (
	"testing"

	"github.com/robfig/soy/ast"
	"github.com/robfig/soy/parse"
)

// C10: placeholder names are derived from the variable/field name (camelCase -> UPPER_UNDERSCORE).
func TestMutDemo(t *testing.T) {
	sf, err := parse.SoyFile("", `{msg desc=""}{$userAge} and {$user.homeAddress} and {$fooBar}{/msg}`)
	if err != nil {
		t.Fatal(err)
	}
	n := sf.Body[0].(*ast.MsgNode)
	SetPlaceholdersAndID(n)
	if got, want := PlaceholderString(n), "{USER_AGE} and {HOME_ADDRESS} and {FOO_BAR}"; got != want {
		t.Fatalf("placeholder string %q, want %q (id %d)", got, want, n.ID)
	}
}
