package soymsg

import (
	"testing"

	"github.com/robfig/soy/ast"
	"github.com/robfig/soy/parse"
)

// C10: placeholder names follow the official algorithm: an underscore goes before an upper-case
// letter only when a letter precedes it AND a lower-case letter follows it (userID -> USERID, theXMLHttp -> THEXML_HTTP).
func TestMutDemo(t *testing.T) {
	sf, err := parse.SoyFile("", `{msg desc=""}{$userID} {$theXMLHttp} {$fooBar}{/msg}`)
	if err != nil {
		t.Fatal(err)
	}
	n := sf.Body[0].(*ast.MsgNode)
	SetPlaceholdersAndID(n)
	if got, want := PlaceholderString(n), "{USERID} {THEXML_HTTP} {FOO_BAR}"; got != want {
		t.Fatalf("placeholder string %q, want %q (id %d)", got, want, n.ID)
	}
}
