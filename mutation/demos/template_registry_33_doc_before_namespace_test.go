package soy

import (
	"bytes"
	"testing"
)

// C07: a bundle in which every reference is bound, every param used and every call resolvable compiles.
func TestMutDemo(t *testing.T) {
	src := "/** Copyright notice (a doc comment before the namespace). */\n{namespace n}\n\n/**\n * @param x\n */\n{template .t}\n{$x}\n{/template}\n"
	tofu, err := NewBundle().AddTemplateString("a.soy", src).CompileToTofu()
	if err != nil {
		t.Fatalf("well-formed bundle rejected: %v", err)
	}
	var b bytes.Buffer
	if err := tofu.Render(&b, "n.t", map[string]interface{}{"x": 1}); err != nil || b.String() != "1" {
		t.Fatalf("render: %q %v", b.String(), err)
	}
}
