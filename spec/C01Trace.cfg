INIT Init
NEXT Next
INVARIANT Report
POSTCONDITION TraceAccepted
CHECK_DEADLOCK FALSE
