------------------------------ MODULE C01Trace ------------------------------
(***************************************************************************)
(* Trace validation for C01 (and every check that observes a single print  *)
(* of an expression): each line of the recorded NDJSON file is one         *)
(* execution of the real renderer                                          *)
(*   [e |-> expression tree, vars, ij, glob, obs |-> [err, out]]           *)
(* and is accepted iff it is a behaviour SoyExpr allows.  One state per    *)
(* consumed line; rejected lines are printed as <<"BAD", l, expected>>.    *)
(***************************************************************************)
EXTENDS SoyExpr, Json

Trace == ndJsonDeserialize("c01_trace.ndjson")

VARIABLES l, nbad, nskip, nerr

Expected(r) == PrintOutcome(r.e, [vars |-> r.vars, ij |-> r.ij, glob |-> r.glob])

Agree(r, x) ==
  CASE x.t = "unspec" -> TRUE
    [] x.t = "err" -> r.obs.err
    [] x.t = "noval" -> r.obs.err \/ r.obs.out \in {"", "null", "undefined"}
    [] OTHER -> ~r.obs.err /\ r.obs.out = x.s

Init == l = 1 /\ nbad = 0 /\ nskip = 0 /\ nerr = 0

Step ==
  /\ l <= Len(Trace)
  /\ l' = l + 1
  /\ LET r == Trace[l] x == Expected(r) IN
     /\ nskip' = nskip + (IF x.t = "unspec" THEN 1 ELSE 0)
     /\ nerr' = nerr + (IF x.t = "err" THEN 1 ELSE 0)
     /\ IF Agree(r, x) THEN nbad' = nbad
        ELSE nbad' = nbad + 1 /\ PrintT(<<"BAD", l, ToJson(x)>>)

Done == l = Len(Trace) + 1 /\ UNCHANGED <<l, nbad, nskip, nerr>>

Next == Step \/ Done

Report == l = Len(Trace) + 1 => PrintT(<<"DONE", l - 1, nbad, nskip, nerr>>)

TraceAccepted == TLCGet("stats").diameter - 1 = Len(Trace)
=============================================================================
