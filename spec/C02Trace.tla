------------------------------ MODULE C02Trace ------------------------------
(***************************************************************************)
(* Trace validation against the reference interpreter SoyExec: every line  *)
(* of the NDJSON file is one render of a whole bundle by the real code,    *)
(*   [prog |-> program, obs |-> [err, out, unbound]]                       *)
(* The machine runs the program to termination (silent steps) and the      *)
(* observed outcome must be the one SoyExec defines.  Rejected lines are   *)
(* printed as <<"BAD", l, status, out>>; Unspec programs are not judged.   *)
(***************************************************************************)
EXTENDS SoyExec, Json

Trace == ndJsonDeserialize("c02_trace.ndjson")

VARIABLES l, nbad, nskip

tvars == <<vars, l, nbad, nskip>>

Agree(o) ==
  CASE status = "unspec" -> TRUE
    [] status = "err" -> o.err
    [] OTHER -> ~o.err /\ o.out = out

TInit == /\ l = 1 /\ nbad = 0 /\ nskip = 0
         /\ IF Len(Trace) >= 1 THEN StartOf(Trace[1].prog) ELSE StartOf([bundle |-> [m |-> [params |-> <<>>, body |-> <<>>, nsa |-> "", ta |-> ""]], entry |-> "m", data |-> EmptyF, ij |-> NoIJ, glob |-> EmptyF, plan |-> [kind |-> "none"]])

Run == /\ l <= Len(Trace) /\ ~Terminated
       /\ Next
       /\ UNCHANGED <<l, nbad, nskip>>

Judge == /\ l <= Len(Trace) /\ Terminated
         /\ l' = l + 1
         /\ nskip' = nskip + (IF status = "unspec" THEN 1 ELSE 0)
         /\ IF Agree(Trace[l].obs) THEN nbad' = nbad
            ELSE nbad' = nbad + 1 /\ PrintT(<<"BAD", l, status, ToJson([out |-> out])>>)
         /\ IF l < Len(Trace) THEN ResetTo(Trace[l + 1].prog) ELSE UNCHANGED vars

Done == l > Len(Trace) /\ UNCHANGED tvars

TNext == Run \/ Judge \/ Done

Report == l = Len(Trace) + 1 => PrintT(<<"DONE", l - 1, nbad, nskip>>)
=============================================================================
