------------------------------ MODULE C03Model ------------------------------
(***************************************************************************)
(* M1 for property C03 (autoescaping) and the case tables of its M2        *)
(* binding.                                                                *)
(*                                                                         *)
(* The design: a print command `{$x|d1|...|dn}` at one of the print SITES  *)
(* below, in a template whose namespace / template carry autoescape        *)
(* attributes, calling a template with attributes of its own.              *)
(* RenderSite is the reference renderer for these little programs (the     *)
(* print semantics of SoyDirectives.PrintText under the effective mode of  *)
(* the frame that executes the print).                                     *)
(*                                                                         *)
(* TLC checks (DirDev = {}: must hold; each deviation: must be violated):  *)
(*   Safe     where the DOCUMENTED mode of the executing frame is on:      *)
(*            class ESC  -> no raw special, decodes to the chain result    *)
(*            class HTML -> every segment between the directive's own tags *)
(*                          is a faithful encoding of its input            *)
(*            otherwise  -> nothing is added on top of the chain result    *)
(*   ModeDef  EffectiveEscape agrees with the documentation table for all  *)
(*            5 x 5 attribute pairs; a callee's mode depends only on its   *)
(*            own pair                                                     *)
(*   ClassTotal  every chain of <= 2 directives has a class                *)
(*                                                                         *)
(* Mode = "sites" : every site x attribute 4-tuple x a few chains/values   *)
(* Mode = "chains": every chain of <= 2 directives x every value (strings  *)
(*                  up to MaxLen over the adversarial alphabet and the     *)
(*                  non-strings), printed directly, mode on and off        *)
(* Mode = "cmds"  : every site preceded/surrounded by a command of every    *)
(*                  kind (CmdKinds), Logger nil and installed: the bytes   *)
(*                  are those of the bare site (CmdIndependent) and safe   *)
(* Mode = "msgs"  : messages of three prints of one expression (chains     *)
(*                  from MsgChains) rendered without and through a         *)
(*                  translation: every print's bytes satisfy its own class *)
(* Mode = "export": prints the M2 tables (MODE rows, CHAIN rows with the   *)
(*                  expected text for the exported values)                 *)
(***************************************************************************)
EXTENDS C03Sites, Json

CONSTANTS Mode, MaxLen

VARIABLE kase    \* (a name no bound identifier of the extended modules uses)

Alpha == <<"&", "<", ">", "\"", "'", "a", "#", ";", "l", "t", "g", "3", " ", "\n", "é", "\r">>

(***************************************************************************)
(* Values (kept in a SEQUENCE: TLC cannot compare a string with a list,    *)
(* so values of different kinds never share a set).                        *)
(***************************************************************************)
NonStrings == << I(0), I(-7), F(3, 1), F(-5, 2), B(TRUE), B(FALSE), Null,
                 L(<<S("<a>"), I(1), Null>>), L(<<>>), L(<<L(<<S("&'\"")>>)>>),
                 M([k |-> S("<b>&"), j |-> I(2)]), M(("k<" :> S("'"))) >>

RECURSIVE StrOf(_, _)
StrOf(ix, i) == IF i > Len(ix) THEN "" ELSE Alpha[ix[i]] \o StrOf(ix, i + 1)

\* the value of a state: a string built from indices, or the n-th non-string
ValOf(k) == IF k.nsi = 0 THEN S(StrOf(k.ix, 1)) ELSE NonStrings[k.nsi]

(***************************************************************************)
(* Chains.                                                                 *)
(***************************************************************************)
Dirs == {D0(n) : n \in {"escapeHtml", "escapeUri", "escapeJsString", "json", "changeNewlineToBr",
                        "noAutoescape", "id"}}
        \cup {Dir("insertWordBreaks", <<I(n)>>) : n \in {1, 3, 30}}
        \cup {Dir("truncate", <<I(n)>>) : n \in {2, 5, 30}}
        \cup {Dir("truncate", <<I(4), B(FALSE)>>)}
\* the embedder's directives (SoyDirectives.CustomNames), alone and paired with a few built-ins
CustomArg == S("<u>&\"")
CustomDirs == {D0("vfQuote"), D0("vfIdent"), D0("vfList"), D0("vfRawIdent"),
               Dir("vfAppend", <<CustomArg>>), Dir("vfRawAppend", <<CustomArg>>)}
PairMates == {Dir("truncate", <<I(5)>>), D0("escapeHtml"), D0("noAutoescape"), Dir("insertWordBreaks", <<I(3)>>)}
Chains == {<<>>} \cup {<<d>> : d \in Dirs} \cup {<<d1, d2>> : d1 \in Dirs, d2 \in Dirs}
          \cup {<<c>> : c \in CustomDirs} \cup {<<c1, c2>> : c1 \in CustomDirs, c2 \in CustomDirs}
          \cup {<<c, d>> : c \in CustomDirs, d \in PairMates} \cup {<<d, c>> : c \in CustomDirs, d \in PairMates}

\* attribute tuples of Mode = "cmds": every mode of the executing frame, with the other frame on and off
CmdAttrs == {[ns |-> n, t |-> t, cns |-> c, ct |-> "unspecified"] :
               n \in {"unspecified", "false"}, t \in {"unspecified", "false", "contextual", "deprecated-contextual"},
               c \in {"unspecified", "false"}}
            \cup {[ns |-> "false", t |-> "unspecified", cns |-> "unspecified", ct |-> t] : t \in {"true", "false"}}

\* messages rendered through a translation (Mode = "msgs"): pairs and triples of prints
MsgChains == {<<>>, <<D0("noAutoescape")>>, <<D0("id")>>, <<D0("escapeHtml")>>, <<Dir("insertWordBreaks", <<I(3)>>)>>,
              <<Dir("truncate", <<I(5)>>)>>, <<D0("escapeUri")>>, <<D0("vfQuote")>>, <<Dir("vfRawAppend", <<CustomArg>>)>>}

SiteChains == {<<>>, <<D0("noAutoescape")>>, <<D0("escapeHtml")>>, <<Dir("insertWordBreaks", <<I(3)>>)>>,
               <<Dir("truncate", <<I(5)>>)>>, <<D0("escapeUri")>>, <<D0("changeNewlineToBr"), D0("id")>>,
               <<D0("vfQuote")>>}
SiteVals == <<S("<a>"), S("&'\""), S("a b"), S(""), I(-7), L(<<S("<a>"), I(1), Null>>), M(("k<" :> S("'")))>>

(***************************************************************************)
(* State space.                                                            *)
(***************************************************************************)
Init ==
  \/ /\ Mode = "sites"
     /\ kase \in [m : {"sites"}, site : Sites, ns : {"-"}, t : {"-"}]
  \/ /\ Mode = "chains"
     /\ kase \in [m : {"chains"}, chain : Chains, on : BOOLEAN, ix : {<<>>}, nsi : 0..Len(NonStrings)]
  \/ /\ Mode = "cmds"
     /\ kase \in [m : {"cmds"}, site : Sites, cmd : {"-"}, lognil : {TRUE}]
  \/ /\ Mode = "msgs"
     /\ kase \in [m : {"msgs"}, c1 : MsgChains, c2 : MsgChains, on : BOOLEAN]
  \/ /\ Mode = "export"
     /\ kase = [m |-> "export"]

\* sites: Init chooses the site, Next the caller's attribute pair (so that the
\* cases are spread over the workers); chains: Next appends one character
Next ==
  \/ /\ Mode = "sites"
     /\ kase.ns = "-"
     /\ \E a \in AutoescapeAttrs, b \in AutoescapeAttrs : kase' = [kase EXCEPT !.ns = a, !.t = b]
  \/ /\ Mode = "cmds"
     /\ kase.cmd = "-"
     /\ \E k \in CmdKinds, ln \in BOOLEAN : kase' = [kase EXCEPT !.cmd = k, !.lognil = ln]
  \/ /\ Mode = "chains"
     /\ kase.nsi = 0
     /\ Len(kase.ix) < MaxLen
     /\ \E k \in DOMAIN Alpha : kase' = [kase EXCEPT !.ix = Append(kase.ix, k)]

Safe ==
  CASE kase.m = "sites" /\ kase.ns # "-" ->
         \A cns \in AutoescapeAttrs, ct \in AutoescapeAttrs, chain \in SiteChains, vi \in DOMAIN SiteVals :
           (kase.site \in CalleeSites \/ (cns = "unspecified" /\ ct = "unspecified")) =>
             SafeCase(kase.site, [ns |-> kase.ns, t |-> kase.t, cns |-> cns, ct |-> ct], chain, SiteVals[vi])
    [] kase.m = "cmds" /\ kase.cmd = "none" /\ kase.site = "direct" ->
         \* neither the shape of the printed expression nor an attribute other than
         \* `autoescape` influences what a print writes
         /\ \A sh \in ExprShapes, on \in BOOLEAN, chain \in SiteChains, vi \in DOMAIN SiteVals :
              PrintTextShape(on, chain, SiteVals[vi], sh) = PrintText(on, chain, SiteVals[vi])
         /\ \A p \in AutoescapeAttrs \X AutoescapeAttrs, k \in TemplateKinds, pr \in PrivateAttrs :
              EffectiveEscapeX(p[1], p[2], [kind |-> k, private |-> pr]) = EffectiveEscapeTable[p]
         /\ \A a \in CmdAttrs, chain \in SiteChains, vi \in DOMAIN SiteVals :
              CmdIndependent(kase.site, a, chain, SiteVals[vi], kase.cmd, kase.lognil)
    [] kase.m = "cmds" /\ kase.cmd # "-" ->
         \* (the bare sites themselves are checked safe in Mode = "sites")
         \A a \in CmdAttrs, chain \in SiteChains, vi \in DOMAIN SiteVals :
           CmdIndependent(kase.site, a, chain, SiteVals[vi], kase.cmd, kase.lognil)
    [] kase.m = "msgs" ->
         \A c3 \in MsgChains, vi \in DOMAIN SiteVals :
           MsgSafe(kase.on, <<kase.c1, kase.c2, c3>>, SiteVals[vi])
    [] kase.m = "chains" ->
         SafeCase("direct", [Unspec4 EXCEPT !.t = IF kase.on THEN "unspecified" ELSE "false"],
                  kase.chain, ValOf(kase))
    [] OTHER -> TRUE

ModeDef ==
  (kase.m = "sites" /\ kase.ns = "-") =>
    /\ \A p \in AutoescapeAttrs \X AutoescapeAttrs : EffectiveEscape(p[1], p[2]) = EffectiveEscapeTable[p]
    /\ \A a \in Attr4 : CalleeEscape(a.ns, a.t, a.cns, a.ct) = EffectiveEscapeTable[<<a.cns, a.ct>>]

ClassTotal ==
  kase.m = "chains" => ChainClass(kase.chain) \in {"ESC", "HTML", "RAW"}

(***************************************************************************)
(* Export of the M2 tables.                                                *)
(***************************************************************************)
ExportVals ==
  << S(""), S("&"), S("<"), S(">"), S("\""), S("'"), S("a"), S(" "), S("\n"), S("\r"), S("é"), S("€"),
     S("<a>"), S("&lt;"), S("&amp;lt;"), S("a<bcdefg"), S("<<<<<<<<"), S("it's \"q\" & <b>"),
     S("12 345 6789"), S("abcdefghij"), S("\r1\n2\r3\r\n\n4\n\n"), S("a%b > c"), S("</script>"),
     S("x\\y'z"), S("éé<éé"), S("&#39;"), S("a&b<c>d\"e'f") >> \o NonStrings

ExportRow(chain) ==
  [chain |-> chain, text |-> ChainText(chain, 1), class |-> ChainClass(chain), k |-> LastHtml(chain),
   cases |-> [i \in DOMAIN ExportVals |->
                LET v == ExportVals[i] IN
                IF Determinate(chain, v)
                THEN [det |-> TRUE, kind |-> ChainKind(chain, v),
                      on |-> PrintText(TRUE, chain, v), off |-> PrintText(FALSE, chain, v)]
                ELSE [det |-> FALSE, kind |-> "contract", on |-> "", off |-> ""]]]

Export ==
  kase.m = "export" =>
    /\ PrintT(ToJson([vals |-> ExportVals,
                      texts |-> [i \in DOMAIN ExportVals |-> IF Printable(ExportVals[i]) THEN ToText(ExportVals[i]) ELSE ""],
                      cmds |-> SetToSeq(CmdKinds), shapes |-> SetToSeq(ExprShapes),
                      kinds |-> SetToSeq(TemplateKinds), privates |-> SetToSeq(PrivateAttrs),
                      canary |-> "é€\"\\\n<&>'"]))
    /\ \A site \in Sites, a \in Attr4 :
         (site \in CalleeSites \/ (a.cns = "unspecified" /\ a.ct = "unspecified")) =>
           PrintT(ToJson([mode |-> site, ns |-> a.ns, t |-> a.t, cns |-> a.cns, ct |-> a.ct,
                          on |-> DocOn(site, a), depth |-> Depth(site, a)]))
    /\ \A chain \in Chains : PrintT(ToJson(ExportRow(chain)))
=============================================================================
