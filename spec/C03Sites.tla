------------------------------ MODULE C03Sites ------------------------------
(***************************************************************************)
(* The print sites of property C03, their reference renderer, and the C03  *)
(* predicate on an output.  Shared by C03Model (M1, M2 tables) and         *)
(* C03Trace (M3).  No variables.                                           *)
(***************************************************************************)
EXTENDS SoyDirectives

Sites == {"direct", "let", "letesc", "param", "msg", "call", "dataall"}
CalleeSites == {"param", "call", "dataall"}

(***************************************************************************)
(* The reference renderer of the site programs.                            *)
(*   a = [ns, t, cns, ct] : attributes of the caller's namespace/template  *)
(*                          and of the callee's namespace/template         *)
(***************************************************************************)
CallerOn(a) == EffectiveEscape(a.ns, a.t)
CalleeOn(a) == CalleeEscape(a.ns, a.t, a.cns, a.ct)
NoAuto == <<D0("noAutoescape")>>

(***************************************************************************)
(* A print site may be preceded (or surrounded) by another COMMAND executed *)
(* by the same template invocation.  The effective escaping of a print is  *)
(* a function of the template/namespace attributes and the directive chain *)
(* only: no command leaves interpreter state behind.  The kinds are labels  *)
(* (the harness owns the Soy text of each); K = "none" is the bare site.    *)
(*   where = "exec"  : the command runs in the frame that executes the print *)
(*   where = "other" : it runs in the other frame of a site with a callee    *)
(* loggerNil: soyhtml.Logger is nil (the default) or installed.              *)
(***************************************************************************)
CmdKinds == {"none", "log", "log-print", "let", "callparam", "msg", "css", "debugger", "foreach", "if", "ifelse",
             "switch", "print-noautoescape", "literal",
             "around-if", "around-else", "around-foreach", "around-switch", "around-let-if",
             "between-log", "between-let", "between-callparam"}

\* the mode a frame runs with after a command of kind K has been executed in it
AfterCmd(K, loggerNil, on) ==
  IF "log_leaves_escaping_off" \in DirDev /\ K \in {"log", "log-print", "between-log"} /\ loggerNil THEN FALSE ELSE on

RenderSiteK(site, a, chain, v, K, loggerNil) ==
  LET callerOn == AfterCmd(K, loggerNil, CallerOn(a))
      calleeOn == AfterCmd(K, loggerNil, CalleeOn(a)) IN
  CASE site = "direct" -> PrintText(callerOn, chain, v)
         \* {$x|chain}
    [] site = "msg" -> PrintText(callerOn, chain, v)
         \* {msg desc=""}{$x|chain}{/msg}
    [] site = "let" -> PrintText(callerOn, NoAuto, S(PrintText(callerOn, chain, v)))
         \* {let $y}{$x|chain}{/let}{$y|noAutoescape}
    [] site = "letesc" -> PrintText(callerOn, <<>>, S(PrintText(callerOn, chain, v)))
         \* {let $y}{$x|chain}{/let}{$y}      (the captured text is data again)
    [] site = "param" -> PrintText(CalleeOn(a), NoAuto, S(PrintText(callerOn, chain, v)))
         \* {call .c}{param y}{$x|chain}{/param}{/call}   .c: {$y|noAutoescape}
    [] site = "call" -> PrintText(calleeOn, chain, v)
         \* {call .c}{param x: $x/}{/call}                 .c: {$x|chain}
    [] site = "dataall" -> PrintText(calleeOn, chain, v)
         \* {call .c data="all"/}                          .c: {$x|chain}

RenderSite(site, a, chain, v) == RenderSiteK(site, a, chain, v, "none", TRUE)

\* no command influences the commands after it
CmdIndependent(site, a, chain, v, K, loggerNil) ==
  RenderSiteK(site, a, chain, v, K, loggerNil) = RenderSite(site, a, chain, v)

\* which frame executes the print under test, by the documentation
DocOn(site, a) ==
  IF site \in {"call", "dataall"} THEN EffectiveEscapeTable[<<a.cns, a.ct>>]
  ELSE EffectiveEscapeTable[<<a.ns, a.t>>]

\* the text the site writes for a print that produced p
\* (letesc: the capture is printed again by the same frame without directives)
Depth(site, a) == IF site = "letesc" /\ DocOn(site, a) THEN 2 ELSE 1

(***************************************************************************)
(* The C03 predicate on an output.                                         *)
(***************************************************************************)
Peel(site, a, out) == IF Depth(site, a) = 2 THEN UnescapeHtml(out) ELSE out

ChainSafe(on, chain, v, p) ==
  LET cls == IF on THEN ChainClass(chain) ELSE "RAW" IN
  CASE cls = "ESC" -> HtmlEncodes(p, ToText(ApplyChain(chain, v)))
    [] cls = "HTML" ->
         LET k == LastHtml(chain)
             y == ToText(ApplyChain(SubSeq(chain, 1, k - 1), v)) IN
         HtmlDirOK(chain[k].name, y, p)
    [] OTHER -> p = ToText(ApplyChain(chain, v))

SafeCase(site, a, chain, v) ==
  Determinate(chain, v) =>
    LET out == RenderSite(site, a, chain, v) IN
    /\ Depth(site, a) = 2 => NoRawSpecial(out)
    /\ ChainSafe(DocOn(site, a), chain, v, Peel(site, a, out))

Attr4 == [ns : AutoescapeAttrs, t : AutoescapeAttrs, cns : AutoescapeAttrs, ct : AutoescapeAttrs]
Unspec4 == [ns |-> "unspecified", t |-> "unspecified", cns |-> "unspecified", ct |-> "unspecified"]


(***************************************************************************)
(* Messages rendered THROUGH A TRANSLATION.  A message here is a sequence  *)
(* of prints (chains) of the same expression, kept apart by marker texts.  *)
(* Without a bundle each print node is walked in place.  With a bundle the *)
(* translated text names placeholders; a name is resolved to the FIRST     *)
(* placeholder node that carries it.  Two placeholders carry the same name *)
(* only if they are the same print COMMAND (expression and directives), so *)
(* whichever order and however often the translation uses a name, the      *)
(* bytes written for it are those of the print it stands for.              *)
(***************************************************************************)
SamePrint(msg, i, j) ==
  IF "placeholder_name_ignores_directives" \in DirDev THEN TRUE      \* same expression is enough
  ELSE ChainText(msg[i], 1) = ChainText(msg[j], 1)
\* the node a translation's placeholder for print i resolves to
ResolvedNode(msg, i) == CHOOSE j \in 1..i : SamePrint(msg, i, j) /\ \A k \in 1..(j - 1) : ~SamePrint(msg, i, k)
MsgSegment(on, msg, v, i, bundle) ==
  PrintText(on, msg[IF bundle THEN ResolvedNode(msg, i) ELSE i], v)
MsgSafe(on, msg, v) ==
  \A i \in DOMAIN msg : \A bundle \in BOOLEAN :
    Determinate(msg[i], v) => ChainSafe(on, msg[i], v, MsgSegment(on, msg, v, i, bundle))

(***************************************************************************)
(* Verdict on an OBSERVED output (M3): independent of the expected text    *)
(* wherever escaping is on.                                                *)
(*   r = [site, ns, t, cns, ct, chain, v, err, out, off, y]                *)
(*   out : what the site wrote                                             *)
(*   off : what the same chain wrote in a template with autoescape="false" *)
(*   y   : what the chain BEFORE its last self-escaping directive wrote    *)
(*         there (only used when that prefix changes the text)             *)
(***************************************************************************)
OnlyTransparent(chain) == \A i \in DOMAIN chain : chain[i].name \in Transparent

TraceVerdict(r) ==
  LET a == [ns |-> r.ns, t |-> r.t, cns |-> r.cns, ct |-> r.ct]
      chain == r.chain
      v == r.v IN
  IF ~(\A i \in DOMAIN chain : InRange(chain[i])) \/ ~Printable(v) \/ r.err THEN "unspec"
  ELSE
    LET s == ToText(v)
        on == DocOn(r.site, a)
        cls == IF on THEN ChainClass(chain) ELSE "RAW"
        p == Peel(r.site, a, r.out) IN
    IF ~HtmlKnown(r.out) \/ ~HtmlKnown(p) THEN "unspec"
    ELSE IF Depth(r.site, a) = 2 /\ ~NoRawSpecial(r.out) THEN "bad:raw-special"
    ELSE CASE cls = "ESC" ->
                IF ~NoRawSpecial(p) THEN "bad:raw-special"
                \* the text node decodes to the value; with a truncate in the chain, to what
                \* the chain wrote with escaping off (its contract is property C16's)
                ELSE IF UnescapeHtml(p) = (IF OnlyTransparent(chain) THEN s ELSE r.off) THEN "ok"
                ELSE "bad:decodes-wrong"
           [] cls = "HTML" ->
                LET k == LastHtml(chain)
                    y == IF OnlyTransparent(SubSeq(chain, 1, k - 1)) THEN s ELSE r.y
                    tag == TagOf(chain[k].name) IN
                IF HtmlDirOK(chain[k].name, y, p) THEN "ok"
                ELSE IF tag # "" /\ ~SegmentsSafe(p, tag) /\ NoRawSpecial(CatSeq(SplitOn(p, tag), 1))
                     THEN "bad:tag-inside-reference"
                ELSE IF (tag = "" /\ ~NoRawSpecial(p)) \/ (tag # "" /\ ~SegmentsSafe(p, tag)) THEN "bad:raw-special"
                ELSE "bad:decodes-wrong"
           [] OTHER -> IF p = r.off THEN "ok" ELSE "bad:changed-on-top"
=============================================================================
