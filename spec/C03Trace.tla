------------------------------ MODULE C03Trace ------------------------------
(***************************************************************************)
(* Trace validation for C03 (M3): each line of c03_trace.ndjson is one     *)
(* observed render of a print site by the real renderer,                   *)
(*   [site, ns, t, cns, ct, chain, v, err, out, off, y]                    *)
(* and is accepted iff C03Sites.TraceVerdict allows it.  One state per     *)
(* consumed line; rejected lines are printed as <<"BAD", l, reason>>.      *)
(***************************************************************************)
EXTENDS C03Sites, Json

Trace == ndJsonDeserialize("c03_trace.ndjson")

VARIABLES tl, nbad, nskip

Init == tl = 1 /\ nbad = 0 /\ nskip = 0

Step ==
  /\ tl <= Len(Trace)
  /\ tl' = tl + 1
  /\ LET x == TraceVerdict(Trace[tl]) IN
     /\ nskip' = nskip + (IF x = "unspec" THEN 1 ELSE 0)
     /\ IF x \in {"ok", "unspec"} THEN nbad' = nbad
        ELSE nbad' = nbad + 1 /\ PrintT(<<"BAD", tl, x>>)

Done == tl = Len(Trace) + 1 /\ UNCHANGED <<tl, nbad, nskip>>

Next == Step \/ Done

Report == tl = Len(Trace) + 1 => PrintT(<<"DONE", tl - 1, nbad, nskip>>)

TraceAccepted == TLCGet("stats").diameter - 1 = Len(Trace)
=============================================================================
