----------------------------- MODULE C04Compose -----------------------------
(***************************************************************************)
(* Systematic compositions of the built-in functions and of the operators  *)
(* that consume or produce collections (C04, mode M2: TLC enumerates the   *)
(* cases, the harness replays each through the Go renderer and the         *)
(* generated JavaScript, and C04Trace judges the pair).                    *)
(*                                                                         *)
(* Every built-in has a signature over the types                           *)
(*     map  list  str  num  int  bool  any                                 *)
(* (int <= num <= any, every type <= any).  The module prints every        *)
(* expression  f(.., g(..), ..)  in which g's result type fits the         *)
(* parameter of f it is put into - for ALL ordered pairs (f, g) and every  *)
(* parameter position - with the remaining arguments drawn from small      *)
(* pools of atoms (data references and literals) per type, and again with  *)
(* a third function h around it where that is needed to obtain a value    *)
(* that can be printed (length . keys around a map, length around a list). *)
(* The data the atoms refer to is chosen by the harness (several           *)
(* environments: overlapping / disjoint / empty maps, ...).                *)
(* Expressions are the tagged records of SoyExpr.                          *)
(***************************************************************************)
EXTENDS SoyExpr, Json

VarE(n) == [k |-> "var", name |-> n, acc |-> <<>>]
KeyE(n, key) == [k |-> "var", name |-> n, acc |-> <<[k |-> "key", ns |-> FALSE, key |-> key]>>]
StrE(s) == [k |-> "str", v |-> s]
IntE(n) == [k |-> "int", v |-> n]
FltE(num, sh) == [k |-> "float", num |-> num, sh |-> sh]
FnE(name, args) == [k |-> "fn", name |-> name, args |-> args]
MapE(items) == [k |-> "map", items |-> items]
ListE(items) == [k |-> "list", items |-> items]

\* atoms per type (sequences, so that records of different shapes never meet
\* in a set)
Atoms(t) ==
  CASE t = "map"  -> <<VarE("a"), VarE("b"), MapE(<<>>), MapE(<<[key |-> "k", val |-> IntE(1)]>>)>>
    [] t = "list" -> <<VarE("x"), ListE(<<>>), ListE(<<IntE(4), StrE("k")>>)>>
    [] t = "str"  -> <<VarE("s"), StrE("k"), StrE("")>>
    [] t = "int"  -> <<VarE("n"), IntE(0), IntE(1)>>
    [] t = "num"  -> <<VarE("f"), VarE("n"), FltE(5, 1)>>
    [] t = "bool" -> <<VarE("c"), [k |-> "bool", v |-> FALSE]>>
    [] t = "any"  -> <<VarE("u"), [k |-> "null"], VarE("s")>>

Fits(res, param) == res = param \/ param = "any" \/ (res = "int" /\ param = "num")

\* built-ins: [name, params, res, mk]; operators and accesses are given a
\* name of their own and built by Mk
Sigs == <<
  [name |-> "isNonnull",   params |-> <<"any">>,        res |-> "bool"],
  [name |-> "length",      params |-> <<"list">>,       res |-> "int"],
  [name |-> "keys",        params |-> <<"map">>,        res |-> "list"],
  [name |-> "augmentMap",  params |-> <<"map", "map">>, res |-> "map"],
  [name |-> "round",       params |-> <<"num">>,        res |-> "int"],
  [name |-> "round2",      params |-> <<"num", "int">>, res |-> "num"],
  [name |-> "floor",       params |-> <<"num">>,        res |-> "int"],
  [name |-> "ceiling",     params |-> <<"num">>,        res |-> "int"],
  [name |-> "min",         params |-> <<"num", "num">>, res |-> "num"],
  [name |-> "max",         params |-> <<"num", "num">>, res |-> "num"],
  [name |-> "strContains", params |-> <<"str", "str">>, res |-> "bool"],
  [name |-> "mapget",      params |-> <<"map", "str">>, res |-> "any"],   \* $m[k]
  [name |-> "listget",     params |-> <<"list", "int">>, res |-> "any"],  \* $l[i]
  [name |-> "elvis",       params |-> <<"any", "any">>, res |-> "any"],
  [name |-> "concat",      params |-> <<"str", "any">>, res |-> "str"],
  [name |-> "not",         params |-> <<"any">>,        res |-> "bool"],
  [name |-> "tern",        params |-> <<"any", "any", "any">>, res |-> "any"],
  [name |-> "eq",          params |-> <<"int", "int">>, res |-> "bool"],
  [name |-> "add",         params |-> <<"num", "num">>, res |-> "num"],
  [name |-> "neg",         params |-> <<"num">>,        res |-> "num"]
>>

\* an access applied to an arbitrary expression needs a {let}; the harness
\* understands the pseudo-functions "mapget"/"listget" (args: collection, key)
Mk(name, args) ==
  CASE name = "round2" -> FnE("round", args)
    [] name = "elvis" -> [k |-> "elvis", a |-> args[1], b |-> args[2]]
    [] name = "concat" -> [k |-> "add", a |-> args[1], b |-> args[2]]
    [] name = "not" -> [k |-> "not", a |-> args[1]]
    [] name = "neg" -> [k |-> "neg", a |-> args[1]]
    [] name = "tern" -> [k |-> "tern", c |-> args[1], a |-> args[2], b |-> args[3]]
    [] name = "eq" -> [k |-> "eq", a |-> args[1], b |-> args[2]]
    [] name = "add" -> [k |-> "add", a |-> args[1], b |-> args[2]]
    [] OTHER -> FnE(name, args)

\* the argument vectors of a signature: position p takes `inner` (if p > 0),
\* every other position its pool atom number `pick` (wrapping round)
ArgVec(sig, p, inner, pick) ==
  [i \in 1..Len(sig.params) |->
     IF i = p THEN inner
     ELSE LET pool == Atoms(sig.params[i]) IN pool[((pick + i) % Len(pool)) + 1]]

\* all calls of g on atoms: every combination for one- and two-parameter
\* functions, the diagonal picks for three
RECURSIVE AtomCalls(_, _, _)
AtomCalls(sig, i, acc) ==   \* acc: Seq of argument vectors built so far
  IF i > Len(sig.params) THEN acc
  ELSE LET pool == Atoms(sig.params[i]) IN
       AtomCalls(sig, i + 1,
         IF Len(acc) = 0 THEN [j \in 1..Len(pool) |-> <<pool[j]>>]
         ELSE [j \in 1..(Len(acc) * Len(pool)) |->
                 Append(acc[((j - 1) \div Len(pool)) + 1], pool[((j - 1) % Len(pool)) + 1])])

\* make a value printable: length . keys around a map, length around a list
Printable1(e, res) ==
  CASE res = "map" -> FnE("length", <<FnE("keys", <<e>>)>>)
    [] res = "list" -> FnE("length", <<e>>)
    [] OTHER -> e

Emit(f, g, p, e) == PrintT(<<"COMP", f.name, g.name, p, ToJson([e |-> e])>>)

\* f(.., g(atoms), ..) for every pair and position; two picks of the other args
Pairs ==
  \A fi \in 1..Len(Sigs) : \A gi \in 1..Len(Sigs) :
    LET f == Sigs[fi] g == Sigs[gi] IN
    \A p \in 1..Len(f.params) :
      Fits(g.res, f.params[p]) =>
        LET calls == AtomCalls(g, 1, <<>>) IN
        \A ci \in 1..Len(calls) : \A pick \in 0..1 :
          Emit(f, g, p, Printable1(Mk(f.name, ArgVec(f, p, Mk(g.name, calls[ci]), pick)), f.res))

ASSUME Pairs

\* a trivial behaviour so that TLC has something to check
VARIABLE z
Init == z = 0
Next == UNCHANGED z
=============================================================================
