------------------------------ MODULE C04Trace ------------------------------
(***************************************************************************)
(* Translation validation for C04.  Every line of the NDJSON file is one   *)
(* program that the harness had translated by soyjs and executed in node,  *)
(* and rendered by the Go renderer:                                        *)
(*    [prog |-> program (SoyExec encoding), go |-> [err, out],             *)
(*                                           js |-> [err, out]]            *)
(* TLC runs the reference interpreter SoyExec on the program (silent       *)
(* steps), accumulates in `why` the first reason for which the run leaves  *)
(* the common subset (SoyCommon), and judges the line three ways:          *)
(*    OUT    not in the common subset, or Err/Unspec in the spec: no claim *)
(*    OK     in the subset and  JS = Go = spec                             *)
(*    JS     in the subset, Go = spec, JS differs  (JS left the language)  *)
(*    GO     in the subset, JS = spec, Go differs  (Go left the language)  *)
(*    ALL    in the subset, Go # JS and neither equals the spec            *)
(*    GOJS   a "direct" line (float outside the dyadic model, class in     *)
(*           the subset): Go # JS; the spec has no text of its own         *)
(*    SPEC   in the subset, Go = JS but both differ from the spec          *)
(*           (agreement holds: not a C04 violation; a C01/C02 matter)      *)
(* Outputs are compared up to the spelling of character references.        *)
(*                                                                         *)
(* Commands beyond SoyExec's own: print with the full directive set        *)
(* (SoyDirectives), msg with a translation (field tr), plural with         *)
(* catalogue forms (field forms).                                          *)
(***************************************************************************)
EXTENDS SoyExec, SoyCommon, Json

Trace == ndJsonDeserialize("c04_trace.ndjson")

VARIABLES l, why, nIn, nViol

tvars == <<vars, l, why, nIn, nViol>>

EmptyProg == [bundle |-> [m |-> [params |-> <<>>, body |-> <<>>, nsa |-> "", ta |-> ""]], entry |-> "m",
              data |-> EmptyF, ij |-> NoIJ, glob |-> EmptyF, plan |-> [kind |-> "none"]]

(***************************************************************************)
(* Extended commands.                                                      *)
(***************************************************************************)
C4Print ==
  /\ Running /\ Head1.k = "print"
  /\ unbound' = unbound
  /\ UNCHANGED <<prog, act, pend>>
  /\ LET v == Eval(Head1.e, Env)
         chain == C4Chain(Head1.dirs, Env) IN
     IF IsBad(v) THEN Bad(v)
     ELSE IF v.t = "undef" THEN Fail
     ELSE IF \E i \in 1..Len(chain) : \E j \in 1..Len(chain[i].args) : chain[i].args[j].t = "err" THEN Fail
     ELSE IF C4ChainBad(chain) THEN NoClaim
     ELSE IF \E i \in 1..Len(chain) : chain[i].name \notin SD!BuiltinNames THEN NoClaim
     ELSE IF ~SD!Determinate(chain, v) THEN NoClaim
     ELSE Emit(SD!PrintText(Top.esc, chain, v), Rest)

HasTr(c) == "tr" \in DOMAIN c /\ c.tr.has

C4Msg ==
  /\ Running /\ Head1.k = "msg"
  /\ ctl' = (IF HasTr(Head1) THEN Head1.tr.body ELSE Head1.body) \o Rest
  /\ UNCHANGED <<prog, act, pend, bufs, out, wr, status, unbound>>

HasForms(c) == "forms" \in DOMAIN c /\ c.forms.has

C4Plural ==
  /\ Running /\ Head1.k = "plural" /\ HasForms(Head1)
  /\ UNCHANGED <<prog, act, pend, bufs, out, wr, unbound>>
  /\ LET v == Eval(Head1.e, Env) IN
     IF IsBad(v) THEN status' = (IF v.t = "err" THEN "err" ELSE "unspec") /\ ctl' = <<>>
     ELSE IF v.t # "int" THEN status' = "err" /\ ctl' = <<>>
     ELSE LET ix == PluralIdx(Head1.forms.rule, v.v) + 1 IN
          IF ix > Len(Head1.forms.bodies) THEN status' = "err" /\ ctl' = <<>>
          ELSE status' = status /\ ctl' = Head1.forms.bodies[ix] \o Rest

C4Next ==
  IF Running /\ Head1.k = "print" THEN C4Print
  ELSE IF Running /\ Head1.k = "msg" THEN C4Msg
  ELSE IF Running /\ Head1.k = "plural" /\ HasForms(Head1) THEN C4Plural
  ELSE Next

(***************************************************************************)
(* Why the pending step leaves the common subset ("" = it does not).       *)
(***************************************************************************)
RECURSIVE IfWhy(_, _)
IfWhy(brs, i) ==
  IF i > Len(brs) THEN ""
  ELSE LET r == ES(brs[i].c, Env, TRUE) v == Eval(brs[i].c, Env) IN
       IF r # "" THEN r ELSE IF IsBad(v) THEN "bad" ELSE IF Truthy(v) THEN "" ELSE IfWhy(brs, i + 1)

RECURSIVE CaseWhy(_, _, _, _)
CaseWhy(subj, cases, i, j) ==
  IF i > Len(cases) THEN ""
  ELSE IF j > Len(cases[i].vals) THEN CaseWhy(subj, cases, i + 1, 1)
  ELSE LET r == ES(cases[i].vals[j], Env, FALSE) v == Eval(cases[i].vals[j], Env) IN
       IF r # "" THEN r
       ELSE IF IsBad(v) THEN "bad"
       ELSE LET q == EqualsV(subj, v) IN
            IF q = "u" THEN "collection-equality" ELSE IF q = "t" THEN "" ELSE CaseWhy(subj, cases, i, j + 1)

StepWhy ==
  IF ~Running THEN ""
  ELSE CASE Head1.k = "print" -> PrintWhy(Head1, Env, Top.esc)
         [] Head1.k = "css" -> IF Head1.has THEN TextUseWhy(Head1.e, Env) ELSE ""
         [] Head1.k = "if" -> IfWhy(Head1.brs, 1)
         [] Head1.k = "switch" ->
              LET s == Eval(Head1.e, Env) IN
              IF IsBad(s) THEN "bad"
              ELSE C4First(ES(Head1.e, Env, FALSE), CaseWhy(s, Head1.cases, 1, 1))
         [] Head1.k = "foreach" ->
              IF Head1.e.k = "fn" /\ Head1.e.name = "range" THEN ESSeq(Head1.e.args, Env, 1)
              ELSE ES(Head1.e, Env, FALSE)
         [] Head1.k \in {"letv", "pv", "plural"} -> ES(Head1.e, Env, FALSE)
         [] Head1.k = "call" -> IF Head1.data = "expr" THEN ES(Head1.de, Env, FALSE) ELSE ""
         [] OTHER -> ""

(***************************************************************************)
(* The trace machine.                                                      *)
(***************************************************************************)
TInit == /\ l = 1 /\ nIn = 0 /\ nViol = 0
         /\ IF Len(Trace) >= 1
            THEN StartOf(Trace[1].prog) /\ why = StaticWhy(Trace[1].prog)
            ELSE StartOf(EmptyProg) /\ why = ""

Run == /\ l <= Len(Trace) /\ ~Terminated
       /\ why' = C4First(why, StepWhy)
       /\ C4Next
       /\ UNCHANGED <<l, nIn, nViol>>

SameObs(o, err, text) == o.err = err /\ (err \/ C4SameText(o.out, text))

IsDirect(r) == "direct" \in DOMAIN r

\* a line judged without the reference interpreter (value classes the model
\* has no text for): Go against JS only, where the class is in the subset
DirectVerdict(r) ==
  IF ~DirectClassInSubset(r.cls) THEN "OUT"
  ELSE IF r.go.err = r.js.err /\ (r.go.err \/ C4SameText(r.go.out, r.js.out)) THEN "OK" ELSE "GOJS"

Verdict(r) ==
  IF IsDirect(r) THEN DirectVerdict(r)
  ELSE IF status # "ok" THEN "OUT"
  ELSE IF why # "" THEN "OUT"
  ELSE LET goOK == SameObs(r.go, FALSE, out)
           jsOK == SameObs(r.js, FALSE, out)
           same == r.go.err = r.js.err /\ (r.go.err \/ C4SameText(r.go.out, r.js.out)) IN
       IF goOK /\ jsOK THEN "OK"
       ELSE IF goOK THEN "JS"
       ELSE IF jsOK THEN "GO"
       ELSE IF same THEN "SPEC" ELSE "ALL"

Reason == IF IsDirect(Trace[l]) THEN "float-class" ELSE IF status = "err" THEN "spec-err" ELSE IF status = "unspec" THEN "spec-unspec" ELSE why

Judge == /\ l <= Len(Trace) /\ Terminated
         /\ l' = l + 1
         /\ LET vd == Verdict(Trace[l]) IN
            /\ nIn' = nIn + (IF vd = "OUT" THEN 0 ELSE 1)
            /\ nViol' = nViol + (IF vd \in {"JS", "GO", "ALL", "GOJS"} THEN 1 ELSE 0)
            /\ IF vd = "OK" THEN TRUE
               ELSE IF vd = "OUT" THEN PrintT(<<"OUT", l, Reason>>)
               ELSE PrintT(<<"BAD", l, vd, ToJson([out |-> out])>>)
         /\ IF l < Len(Trace)
            THEN ResetTo(Trace[l + 1].prog) /\ why' = StaticWhy(Trace[l + 1].prog)
            ELSE UNCHANGED vars /\ why' = ""

Done == l > Len(Trace) /\ UNCHANGED tvars

TNext == Run \/ Judge \/ Done

Report == l = Len(Trace) + 1 => PrintT(<<"DONE", l - 1, nIn, nViol>>)
=============================================================================
