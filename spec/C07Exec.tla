------------------------------ MODULE C07Exec ------------------------------
(***************************************************************************)
(* C07, the "consequently" clause on the model: running the reference      *)
(* interpreter on a bundle the rules accept, with all declared params of   *)
(* the entry template supplied, never evaluates a reference to a name that *)
(* nothing declares.  Checked as an invariant while C02Trace runs the      *)
(* recorded programs.                                                      *)
(***************************************************************************)
EXTENDS C02Trace, SoyCheck

ConsequentOK ==
  (Terminated /\ l <= Len(Trace) /\ status \in {"ok", "err"}
     /\ Verdict(prog.bundle) = "valid" /\ AllParamsSupplied(prog))
  => unbound \subseteq AllDeclared(prog.bundle)
=============================================================================
