------------------------------ MODULE C07Trace ------------------------------
(***************************************************************************)
(* C07, accept/reject: every line of the NDJSON file is one compilation of *)
(* a bundle by the real code, [bundle, accepted]; the verdict of the       *)
(* declarative rules (SoyCheck.Verdict) must agree.  One state per line.   *)
(***************************************************************************)
EXTENDS SoyCheck, Json

Trace == ndJsonDeserialize("c07_trace.ndjson")

VARIABLES l, nbad, nskip

\* the interpreter's variables are not used by this check
Idle == /\ prog = 0 /\ ctl = <<>> /\ act = <<>> /\ pend = <<>> /\ bufs = <<>> /\ out = ""
        /\ wr = 0 /\ status = "idle" /\ unbound = {}

Init7 == l = 1 /\ nbad = 0 /\ nskip = 0 /\ Idle

Step7 ==
  /\ l <= Len(Trace) /\ l' = l + 1 /\ UNCHANGED vars
  /\ LET v == Verdict(Trace[l].bundle) IN
     /\ nskip' = nskip + (IF v = "unspec" THEN 1 ELSE 0)
     /\ IF v = "unspec" \/ (v = "valid") = Trace[l].accepted THEN nbad' = nbad
        ELSE nbad' = nbad + 1 /\ PrintT(<<"BAD", l, v>>)

Done7 == l > Len(Trace) /\ UNCHANGED <<l, nbad, nskip, vars>>
Next7 == Step7 \/ Done7
Report7 == l = Len(Trace) + 1 => PrintT(<<"DONE", l - 1, nbad, nskip>>)
=============================================================================
