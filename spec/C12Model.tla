------------------------------ MODULE C12Model ------------------------------
(***************************************************************************)
(* C12 - a failing output writer always surfaces as a render error.        *)
(*                                                                         *)
(* M1: the design check.  SoyExec is the model (its writer component: out, *)
(* wr = [calls, failed], prog.plan, Emit).  A behaviour of this module     *)
(*   phase 1  runs one program of Progs with the fault-free writer and     *)
(*            remembers what that run produced (ffout, ffst, ffcalls);     *)
(*   Switch   chooses EVERY fault plan for that program:                   *)
(*              none, failAt k for k in 0..ffcalls, cap b for b in         *)
(*              0..Len(ffout)   (k = ffcalls and b = Len(ffout) are the    *)
(*              plans that never bite);                                    *)
(*   phase 2  runs the same program again under the chosen plan.           *)
(* The invariants below relate the faulted run to the fault-free one.      *)
(*                                                                         *)
(* With Dev = {} TLC must find nothing.  With Dev = {"write_error_dropped"}*)
(* (what robfig/soy's HTML-escaping path does) WriterLatch, PrefixOk and   *)
(* LatchLive must each be violated - the self-test run by harness/c12.     *)
(*                                                                         *)
(* Progs is a sequence of programs: `Progs <- BuiltinProgs` (below) or, in *)
(* C12ModelFile, the systematic families of the Go harness read from JSON. *)
(***************************************************************************)
EXTENDS SoyExec

CONSTANT Progs

\* The values the failing writer's error can have.  The property speaks of ANY
\* failing write, so the value is one more dimension of the fault plan; it is
\* uninterpreted: no action of the design reads it (the property does not ask
\* that the returned error be or wrap the writer's, so nothing is said about
\* the returned error's value either).  A deviation that special-cases one
\* value ("error_value_special_cased": a retry wrapper that loses
\* "shortwrite") must violate the latch - only in the behaviours with that value.
CONSTANT ErrIds

VARIABLES pid,      \* index into Progs of the program of this behaviour
          phase,    \* 1 = fault-free run, 2 = faulted run
          ffout,    \* output of the fault-free run
          ffst,     \* status of the fault-free run ("ok" | "err")
          ffcalls,  \* write calls of the fault-free run
          eid       \* the value of the error the failing writer returns ("none" in phase 1)

mvars == <<vars, pid, phase, ffout, ffst, ffcalls, eid>>

NoPlan == [kind |-> "none"]
WithPlan(p, pl) == [p EXCEPT !.plan = pl]

PlansFor(w, b) == {NoPlan} \cup {[kind |-> "failAt", k |-> k] : k \in 0..w}
                           \cup {[kind |-> "cap", k |-> k] : k \in 0..b}

MInit == /\ pid \in 1..Len(Progs)
         /\ StartOf(WithPlan(Progs[pid], NoPlan))
         /\ phase = 1 /\ ffout = "" /\ ffst = "run" /\ ffcalls = 0 /\ eid = "none"

MRun == /\ ~Terminated
        /\ Next
        /\ UNCHANGED <<pid, phase, ffout, ffst, ffcalls, eid>>

Switch == /\ phase = 1 /\ Terminated
          /\ phase' = 2 /\ ffout' = out /\ ffst' = status /\ ffcalls' = wr.calls
          /\ \E pl \in PlansFor(wr.calls, Len(out)) : ResetTo(WithPlan(prog, pl))
          /\ eid' \in ErrIds
          /\ UNCHANGED pid

\* deviation: something between the interpreter and the writer treats one
\* error value specially and the failure never becomes the render's error
LoseErr == /\ "error_value_special_cased" \in Dev
           /\ phase = 2 /\ eid = "shortwrite" /\ wr.failed /\ status = "err"
           /\ status' = "ok"
           /\ UNCHANGED <<prog, ctl, act, pend, bufs, out, wr, unbound, pid, phase, ffout, ffst, ffcalls, eid>>

MNext == MRun \/ Switch \/ LoseErr

MSpec == MInit /\ [][MNext]_mvars /\ WF_mvars(MNext)

(***************************************************************************)
(* The property, on the model                                              *)
(***************************************************************************)
IsPrefixOf(a, b) == Len(a) <= Len(b) /\ SubSeq(b, 1, Len(a)) = a

\* the plan makes some write of this program fail
PlanBites == CASE prog.plan.kind = "failAt" -> prog.plan.k < ffcalls
               [] prog.plan.kind = "cap" -> prog.plan.k < Len(ffout)
               [] OTHER -> FALSE

\* C12(1): a failed write surfaces as an error (SoyExec.WriterLatch, restated
\* so that "unspec" cannot satisfy it: NoUnspec holds for every program here)
Latch == (wr.failed /\ Terminated) => status = "err"
\* ... and it does so at once: the design writes nothing after a failed write
LatchNow == wr.failed => status = "err"
\* ... as a liveness property (checked under MSpec)
LatchLive == [](wr.failed => <>(status = "err"))

\* the latch for every error value but the one a deviation special-cases (used
\* by the self-test to show that the deviation bites for that value only)
LatchOtherValues == (wr.failed /\ Terminated /\ eid # "shortwrite") => status = "err"

\* C12(2): what the writer accepted is a prefix of the fault-free output
PrefixOk == phase = 2 => IsPrefixOf(out, ffout)

\* C12(3): nil only if every byte of the fault-free output was accepted
OkMeansComplete == (phase = 2 /\ status = "ok") => out = ffout

\* what the harness binds the real code to (M3): under "accept b characters"
\* the accepted text is exactly the first b characters of the fault-free output
CapExact == (phase = 2 /\ Terminated /\ prog.plan.kind = "cap")
              => out = SubSeq(ffout, 1, Min2(prog.plan.k, Len(ffout)))

\* a plan that bites ends in an error; one that does not changes nothing
BitesMeansErr == (phase = 2 /\ Terminated /\ PlanBites) => (wr.failed /\ status = "err")
NoSpuriousErr == (phase = 2 /\ Terminated /\ ~PlanBites)
                   => (~wr.failed /\ status = ffst /\ out = ffout /\ wr.calls = ffcalls)

\* the fault-free run never fails a write; no program here leaves the model's domain
FaultFreeClean == phase = 1 => ~wr.failed
NoUnspec == status # "unspec"

\* the accepted text never exceeds the capacity
WithinCap == prog.plan.kind = "cap" => Len(out) <= prog.plan.k

(***************************************************************************)
(* The built-in program set: one program per write site of the renderer    *)
(* (raw text, escaped print, unescaped print by directive and by           *)
(* autoescape="false", css with and without expression, msg text + html    *)
(* tag + placeholder, let/param content capture followed by a print of the *)
(* captured value, log (writes nothing), calls, loops, branches, a render  *)
(* that fails by itself, a render that writes nothing).                    *)
(***************************************************************************)
Var(n)  == [k |-> "var", name |-> n, acc |-> <<>>]
Txt(s)  == [k |-> "text", s |-> s]
Pr(e)   == [k |-> "print", e |-> e, dirs |-> <<>>]
PrD(e, d) == [k |-> "print", e |-> e, dirs |-> <<[name |-> d, args |-> <<>>]>>]
NullE   == [k |-> "null"]
Tm(body, ta) == [params |-> <<>>, body |-> body, nsa |-> "", ta |-> ta]
Prg(bundle, dat) == [bundle |-> bundle, entry |-> "n.m", data |-> dat, ij |-> NoIJ,
                     glob |-> EmptyF, plan |-> NoPlan]
One(body, ta, dat) == Prg("n.m" :> Tm(body, ta), dat)

DX == "x" :> S("a<b")          \* escapes to a&lt;b
DL == ("x" :> S("v")) @@ ("l" :> L(<<I(1), I(2), I(3)>>)) @@ ("e" :> L(<<>>))

CallS(params) == [k |-> "call", tmpl |-> "n.s", data |-> "none", de |-> NullE, params |-> params]
CallAll == [k |-> "call", tmpl |-> "n.s", data |-> "all", de |-> NullE, params |-> <<>>]

BuiltinProgs == <<
  One(<<Pr(Var("x"))>>, "", DX),                                   \* 1 {$x} as the only command
  One(<<Txt("ab"), Txt("c")>>, "", EmptyF),                        \* 2 raw text
  One(<<Txt("t"), Pr(Var("x"))>>, "", DX),                         \* 3 escaped print last
  One(<<Pr(Var("x")), Txt("z")>>, "", DX),                         \* 4 escaped print, then a checked write
  One(<<PrD(Var("x"), "noAutoescape"), Txt("z")>>, "", DX),        \* 5 unescaped by directive
  One(<<Txt("t"), Pr(Var("x"))>>, "false", DX),                    \* 6 unescaped by autoescape="false"
  One(<<PrD(Var("x"), "escapeHtml")>>, "false", DX),               \* 7 escaped by directive
  One(<<[k |-> "css", has |-> TRUE, e |-> Var("x"), suffix |-> "s"],
        [k |-> "css", has |-> FALSE, e |-> NullE, suffix |-> "c"]>>, "", DX),          \* 8 css
  One(<<[k |-> "msg", body |-> <<Txt("M"), Txt("<b>"), Pr(Var("x")), Txt("</b>")>>]>>, "", DX),  \* 9 msg
  One(<<[k |-> "letc", name |-> "b", body |-> <<Txt("in"), Pr(Var("x"))>>],
        Txt("-"), Pr(Var("b"))>>, "", DX),                         \* 10 let content, then print of it
  Prg(("n.m" :> Tm(<<Txt("a"),
                     CallS(<<[k |-> "pc", key |-> "p", body |-> <<Txt("c"), Pr(Var("x"))>>]>>),
                     Txt("e")>>, ""))
      @@ ("n.s" :> Tm(<<Txt("["), Pr(Var("p")), Txt("]")>>, "")), DX),               \* 11 param content
  One(<<Txt("a"), [k |-> "log", body |-> <<Txt("LOG"), Pr(Var("x"))>>], Txt("b")>>, "", DX),  \* 12 log
  One(<<[k |-> "foreach", var |-> "i", e |-> Var("l"), body |-> <<Pr(Var("i")), Txt(",")>>,
         empty |-> [has |-> TRUE, body |-> <<Txt("none")>>]],
        [k |-> "foreach", var |-> "i", e |-> Var("e"), body |-> <<Pr(Var("i"))>>,
         empty |-> [has |-> TRUE, body |-> <<Txt("none")>>]]>>, "", DL),             \* 13 loops
  One(<<[k |-> "if", brs |-> <<[c |-> Var("x"), body |-> <<Txt("T")>>]>>,
         els |-> [has |-> TRUE, body |-> <<Txt("F")>>]], Pr(Var("x"))>>, "", DX),    \* 14 branch
  Prg(("n.m" :> Tm(<<Txt("a"), CallAll, Pr(Var("x"))>>, ""))
      @@ ("n.s" :> Tm(<<Pr(Var("x")), Txt("|")>>, "false")), DX),                    \* 15 call data="all"
  One(<<Txt("a"), Pr(Var("u")), Txt("b")>>, "", DX),               \* 16 fails by itself ($u undefined)
  One(<<Pr(Var("x"))>>, "", "x" :> S("")),                         \* 17 prints the empty string
  One(<<>>, "", EmptyF)                                            \* 18 writes nothing
>>

=============================================================================
