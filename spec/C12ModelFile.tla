---------------------------- MODULE C12ModelFile ----------------------------
(***************************************************************************)
(* C12Model over the program families of the Go harness: the file          *)
(* c12_progs.ndjson holds one program (JSON of core.Program) per line; the *)
(* cfg says `Progs <- FileProgs`.  Every program is run under every fault  *)
(* plan (see C12Model).                                                    *)
(***************************************************************************)
EXTENDS C12Model, Json

FileProgs == ndJsonDeserialize("c12_progs.ndjson")
=============================================================================
