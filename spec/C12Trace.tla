------------------------------ MODULE C12Trace ------------------------------
(***************************************************************************)
(* C12, M3: faulted renders of the real code validated against SoyExec.    *)
(*                                                                         *)
(* Every line of c12_trace.ndjson is one program with what the real code   *)
(* did fault-free and under "accept b bytes, then fail" writers:           *)
(*   [prog |-> program,                                                    *)
(*    ff   |-> [err, out],                    fault-free render            *)
(*    obs  |-> Seq([b, err, acc])]            b = capacity, err = an error *)
(*                                            was returned, acc = accepted *)
(* Programs and data are ASCII, so characters = bytes.                     *)
(*                                                                         *)
(* For each line the reference interpreter first runs the program with the *)
(* fault-free plan.  If that run leaves the model's domain (unspec) or     *)
(* differs from the real fault-free render, the line is not judged (that   *)
(* is C02's business, not C12's) and <<"SKIP", l, status>> is printed.     *)
(* Otherwise the machine is re-run with plan [kind |-> "cap", k |-> b] for *)
(* every observation and the observation must satisfy                      *)
(*     o.err = (status = "err")       a failed write is an error, and only *)
(*                                    a failed write (or the program's own *)
(*                                    failure) is                          *)
(*     o.acc = out                    the writer accepted what the model   *)
(*                                    says: the first b characters         *)
(*     o.acc is a prefix of the model's fault-free output.                 *)
(* Rejected observations are printed as <<"BAD", l, j, status, json(out)>>;*)
(* the run ends with <<"DONE", lines, judged, bad, skipped>>.              *)
(***************************************************************************)
EXTENDS SoyExec, Json

Trace == ndJsonDeserialize("c12_trace.ndjson")

VARIABLES l,        \* current line
          j,        \* 0 = fault-free run, i >= 1 = i-th observation of the line
          ffo,      \* the model's fault-free output of the current line
          njudged, nbad, nskip

tvars == <<vars, l, j, ffo, njudged, nbad, nskip>>

NoPlan == [kind |-> "none"]
CapPlan(b) == [kind |-> "cap", k |-> b]
WithPlan(p, pl) == [p EXCEPT !.plan = pl]
IsPrefixOf(a, b) == Len(a) <= Len(b) /\ SubSeq(b, 1, Len(a)) = a

Dummy == [bundle |-> ("m" :> [params |-> <<>>, body |-> <<>>, nsa |-> "", ta |-> ""]),
          entry |-> "m", data |-> EmptyF, ij |-> NoIJ, glob |-> EmptyF, plan |-> NoPlan]

TInit == /\ l = 1 /\ j = 0 /\ ffo = "" /\ njudged = 0 /\ nbad = 0 /\ nskip = 0
         /\ StartOf(IF Len(Trace) >= 1 THEN WithPlan(Trace[1].prog, NoPlan) ELSE Dummy)

Run == /\ l <= Len(Trace) /\ ~Terminated
       /\ Next
       /\ UNCHANGED <<l, j, ffo, njudged, nbad, nskip>>

\* move to the next line (or stop)
NextLine == /\ l' = l + 1 /\ j' = 0 /\ ffo' = ""
            /\ IF l < Len(Trace) THEN ResetTo(WithPlan(Trace[l + 1].prog, NoPlan))
               ELSE UNCHANGED vars

FFAgrees(o) == /\ status # "unspec"
               /\ o.err = (status = "err")
               /\ o.out = out

JudgeFF ==
  /\ l <= Len(Trace) /\ Terminated /\ j = 0
  /\ UNCHANGED <<njudged, nbad>>
  /\ IF FFAgrees(Trace[l].ff) /\ Len(Trace[l].obs) > 0
     THEN /\ j' = 1 /\ ffo' = out /\ UNCHANGED <<l, nskip>>
          /\ ResetTo(WithPlan(prog, CapPlan(Trace[l].obs[1].b)))
     ELSE /\ IF FFAgrees(Trace[l].ff) THEN nskip' = nskip
             ELSE nskip' = nskip + 1 /\ PrintT(<<"SKIP", l, status>>)
          /\ NextLine

ObsOK(o) == /\ o.err = (status = "err")
            /\ o.acc = out
            /\ IsPrefixOf(o.acc, ffo)

JudgeObs ==
  /\ l <= Len(Trace) /\ Terminated /\ j >= 1
  /\ njudged' = njudged + 1
  /\ UNCHANGED nskip
  /\ IF ObsOK(Trace[l].obs[j]) THEN nbad' = nbad
     ELSE nbad' = nbad + 1 /\ PrintT(<<"BAD", l, j, status, ToJson([out |-> out])>>)
  /\ IF j < Len(Trace[l].obs)
     THEN /\ j' = j + 1 /\ UNCHANGED <<l, ffo>>
          /\ ResetTo(WithPlan(prog, CapPlan(Trace[l].obs[j + 1].b)))
     ELSE NextLine

TNext == Run \/ JudgeFF \/ JudgeObs

Report == l = Len(Trace) + 1 => PrintT(<<"DONE", l - 1, njudged, nbad, nskip>>)

\* sanity of the model along the way (the design properties of C12Model, restated
\* for the one plan kind used here)
TLatch == wr.failed => status = "err"
TPrefix == j >= 1 => IsPrefixOf(out, ffo)
=============================================================================
