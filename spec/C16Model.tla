------------------------------ MODULE C16Model ------------------------------
(***************************************************************************)
(* M1 for property C16: TLC checks, exhaustively over all strings up to    *)
(* MaxLen over an adversarial alphabet, that the REFERENCE directive       *)
(* functions of SoyDirectives satisfy their contracts (decoder, output     *)
(* alphabet, length bound) -- singly (Mode = "single") and chained in      *)
(* pairs (Mode = "chain").  With a deviation in DirDev the matching        *)
(* invariant must be violated (vacuity guard).                             *)
(*                                                                         *)
(* Mode = "export": TLC enumerates M2 cases (directive chain x string) and *)
(* prints, per chain, the reference result where it is determinate; the    *)
(* harness replays them through the real renderer.                         *)
(*                                                                         *)
(* One state per (directive or pair, string): Init chooses the directive,  *)
(* Next appends one character, so the search is spread over the workers.   *)
(* The string is kept in the state as a sequence of indices into Alpha     *)
(* (TLC's state serialisation does not preserve non-ASCII characters).     *)
(***************************************************************************)
EXTENDS SoyDirectives, Json

CONSTANTS Mode,        \* "single" | "chain" | "export"
          MaxLen,      \* longest string
          ExportLen    \* longest exported string (Mode = "export")

VARIABLE kase    \* (a name no bound identifier of the extended modules uses: TLC decides by NAME
                 \* whether a definition is constant and can be evaluated once)

Alpha == <<"&", "<", ">", "\"", "'", "a", "#", ";", "l", "t", "g", "3", " ", "\n", "\r",
           "é", "€", "\\", "%", "+", "/", "=", "n", "0", "u", "x">>
AlphaChars == {Alpha[i] : i \in DOMAIN Alpha}

IwbNs   == {1, 2, 3}
TruncNs == {1, 2, 3, 4, 5, 7}

Dirs == {D0(n) : n \in {"escapeHtml", "escapeUri", "escapeJsString", "json", "changeNewlineToBr",
                        "noAutoescape", "id"}}
        \cup {Dir("insertWordBreaks", <<I(n)>>) : n \in IwbNs}
        \cup {Dir("truncate", <<I(n)>>) : n \in TruncNs}
        \cup {Dir("truncate", <<I(n), B(b)>>) : n \in {3, 4, 5}, b \in BOOLEAN}

\* a smaller set for pairs
ChainDirs == {D0(n) : n \in {"escapeHtml", "escapeUri", "escapeJsString", "json", "changeNewlineToBr",
                             "noAutoescape"}}
             \cup {Dir("insertWordBreaks", <<I(2)>>), Dir("truncate", <<I(2)>>), Dir("truncate", <<I(5)>>),
                   Dir("truncate", <<I(4), B(FALSE)>>)}

Init == \/ /\ Mode = "single"
           /\ kase \in {[chain |-> <<d>>, ix |-> <<>>] : d \in Dirs} \cup {[chain |-> <<>>, ix |-> <<>>]}
        \/ /\ Mode = "chain"
           /\ kase \in {[chain |-> <<d1, d2>>, ix |-> <<>>] : d1 \in ChainDirs, d2 \in ChainDirs}
        \/ /\ Mode = "export"
           /\ kase = [chain |-> <<>>, ix |-> <<>>]

\* the characters that matter to a directive (its own specials, one plain
\* character, one character of each UTF-8 length); the pseudo-case with the
\* empty chain (invariant Inverses) runs over the whole alphabet
Idx(chars) == {k \in DOMAIN Alpha : Alpha[k] \in chars}
HtmlChars == {"&", "<", ">", "\"", "'", "a", "#", ";", "l", "t", "g", "3", " ", "\n", "\r", "é"}
AlphaFor(name) ==
  CASE name \in HtmlProducing -> Idx(HtmlChars)
    [] name = "escapeUri" -> Idx({"%", "+", " ", "a", "é", "€", "/", "&", "'", "=", "\n"})
    [] name = "escapeJsString" -> Idx({"'", "\"", "\\", "\n", "\r", "<", "/", "a", "=", "é", "&", "n", "0", "u", "x"})
    [] name = "json" -> Idx({"\"", "\\", "\n", "<", "a", "é", "&", "'"})
    [] name = "truncate" -> Idx({"a", "é", "€", "<", " "})
    [] OTHER -> Idx({"a", "<", "&", "é"})
ChainAlpha == Idx({"&", "<", "\"", "'", "a", ";", " ", "\n", "é", "\\", "%", "+"})

NextIdx == IF kase.chain = <<>> THEN DOMAIN Alpha
           ELSE IF Len(kase.chain) = 1 THEN AlphaFor(kase.chain[1].name)
           ELSE ChainAlpha

Next == /\ Mode # "export"
        /\ Len(kase.ix) < MaxLen
        /\ \E k \in NextIdx : kase' = [kase EXCEPT !.ix = Append(kase.ix, k)]

RECURSIVE StrOf(_, _)
StrOf(ix, i) == IF i > Len(ix) THEN "" ELSE Alpha[ix[i]] \o StrOf(ix, i + 1)
CS == StrOf(kase.ix, 1)          \* the string of the current state

(***************************************************************************)
(* Invariants.                                                             *)
(***************************************************************************)
\* inputs on which a directive is exercised for the string s
InputsFor(d, s) ==
  IF d.name = "json" THEN
       <<S(s), L(<<S(s), I(-3), F(3, 1), Null, B(TRUE), L(<<>>)>>), M([k |-> S(s), j |-> L(<<S(s)>>)]),
         IF s # "" THEN M((s :> I(1))) ELSE M(<<>>)>>
  ELSE IF d.name = "truncate" THEN <<S(s), S(s \o s), S(s \o "abcd"), S("ab" \o s \o "c")>>
  ELSE IF d.name = "insertWordBreaks" THEN <<S(s), S(s \o s), S("ab" \o s)>>
  ELSE <<S(s)>>

\* every single directive: the reference result satisfies the contract
Contract ==
  (Mode = "single" /\ kase.chain # <<>>) =>
    LET d == kase.chain[1]
        ins == InputsFor(d, CS) IN
    \A i \in DOMAIN ins :
      LET v == ins[i]
          out == ToText(Apply(d, v)) IN
      /\ DirContract(d, v, out) = "t"
      /\ (v.t = "str" => LenBound(d, v.v, out))

\* pairs: the second directive keeps its contract on whatever the first produced
ChainContract ==
  Mode = "chain" =>
    LET r1 == Apply(kase.chain[1], S(CS))
        out == ToText(Apply(kase.chain[2], r1)) IN
    DirContract(kase.chain[2], r1, out) = "t"

\* the two decoders are inverses of the escapers on every string (stated
\* directly, independent of the directive table)
Inverses ==
  (Mode = "single" /\ kase.chain = <<>>) =>
    LET s == CS IN
    /\ UnescapeHtml(EscapeHtml(s)) = s
    /\ NoRawSpecial(EscapeHtml(s))
    /\ CanonRefs(EscapeHtml(s)) = EscapeHtml(s)
    /\ UnescapeHtml(CanonRefs(s)) = UnescapeHtml(s)
    /\ UriDecode(UriEscape(s)) = DecOK(s)
    /\ UriAlphabet(UriEscape(s))
    /\ JsDenote(JsStringEscape(s)) = s
    /\ JsSafe(JsStringEscape(s))

TypeOK == kase.chain \in Seq(Dirs \cup ChainDirs) /\ \A i \in DOMAIN kase.chain : InRange(kase.chain[i])

(***************************************************************************)
(* Export of M2 cases.                                                     *)
(***************************************************************************)
RECURSIVE Strs(_)
Strs(n) == IF n = 0 THEN {""} ELSE LET p == Strs(n - 1) IN p \cup {s \o ch : s \in p, ch \in AlphaChars}

ExportStrings ==
  Strs(ExportLen) \cup
  {"&lt;", "&amp;lt;", "a<bcdefg", "<a>", "&#39;", "</script>", "a b c d", "abcdefghij", "12 345 6789",
   "\r1\n2\r3\r\n\n4\n\n", "Lorem Ipsum", "a%25b+c", "é€é€é€é€", "it's \"q\"", "x\\y", "]]>", "<!--"}
ExportSeq == SetToSeq(ExportStrings)

ExportChains == {<<d>> : d \in Dirs} \cup {<<d1, d2>> : d1 \in ChainDirs, d2 \in ChainDirs}

ExportRow(chain) ==
  [chain |-> chain, text |-> ChainText(chain, 1),
   cases |-> [i \in DOMAIN ExportSeq |->
                LET v == S(ExportSeq[i]) IN
                IF Determinate(chain, v)
                THEN [det |-> TRUE, kind |-> ChainKind(chain, v), out |-> ToText(ApplyChain(chain, v)),
                      mid |-> IF Len(chain) = 2 THEN ToText(Apply(chain[1], v)) ELSE ""]
                ELSE [det |-> FALSE, kind |-> "contract", out |-> "", mid |-> ""]]]

Export ==
  Mode = "export" =>
    /\ PrintT(ToJson([strings |-> ExportSeq, canary |-> "é€\"\\\n<&>'"]))
    /\ \A chain \in ExportChains : PrintT(ToJson(ExportRow(chain)))
=============================================================================
