------------------------------ MODULE C16Trace ------------------------------
(***************************************************************************)
(* Trace validation for C16 (M3): each line of c16_trace.ndjson is one     *)
(* observed application of a directive chain by the real renderer          *)
(* (or by the JavaScript counterparts in soyutils.js),                     *)
(*   [chain, v, err, out, mid]                                             *)
(*   out : text written for {$x|d1|d2} in a template with autoescape off   *)
(*   mid : text written for {$x|d1} there (chains of two)                  *)
(* and is accepted iff the LAST directive kept its contract                *)
(* (SoyDirectives.DirContract, i.e. the spec's decoders applied to the     *)
(* real output) on the input that reached it.                              *)
(***************************************************************************)
EXTENDS SoyDirectives, Json

Trace == ndJsonDeserialize("c16_trace.ndjson")

VARIABLES tl, nbad, nskip

\* the value that reached the last directive
InputOfLast(r) ==
  IF Len(r.chain) = 1 THEN r.v
  ELSE IF r.chain[1].name \in Transparent THEN r.v
  ELSE IF r.chain[1].name = "truncate" /\ Printable(r.v) /\ r.mid = ToText(r.v) THEN r.v
  ELSE S(r.mid)

Verdict(r) ==
  IF ~(\A i \in DOMAIN r.chain : InRange(r.chain[i])) THEN "unspec"
  ELSE IF r.err THEN "bad:error"
  ELSE LET d == r.chain[Len(r.chain)]
           inp == InputOfLast(r)
           x == DirContract(d, inp, r.out) IN
       IF x = "t" THEN "ok" ELSE IF x = "u" THEN "unspec" ELSE "bad:" \o ContractReason(d, inp, r.out)

Init == tl = 1 /\ nbad = 0 /\ nskip = 0

Step ==
  /\ tl <= Len(Trace)
  /\ tl' = tl + 1
  /\ LET x == Verdict(Trace[tl]) IN
     /\ nskip' = nskip + (IF x = "unspec" THEN 1 ELSE 0)
     /\ IF x \in {"ok", "unspec"} THEN nbad' = nbad
        ELSE nbad' = nbad + 1 /\ PrintT(<<"BAD", tl, x>>)

Done == tl = Len(Trace) + 1 /\ UNCHANGED <<tl, nbad, nskip>>

Next == Step \/ Done

Report == tl = Len(Trace) + 1 => PrintT(<<"DONE", tl - 1, nbad, nskip>>)

TraceAccepted == TLCGet("stats").diameter - 1 = Len(Trace)
=============================================================================
