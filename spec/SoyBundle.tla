------------------------------- MODULE SoyBundle -------------------------------
(***************************************************************************)
(* C08 - rendering is pure.  Histories of operations over ONE compiled     *)
(* bundle.                                                                 *)
(*                                                                         *)
(*   reg    the shared compiled tree: per template its body (reg.bundle),  *)
(*          per print node its directive list (reg.dirs, read at the       *)
(*          moment the print executes) and a lookup cache (reg.memo, used  *)
(*          only by a deviation);                                          *)
(*   store  what the caller hands in: the data maps, the injected data     *)
(*          and the message catalogue;                                     *)
(*   hist   the operations done so far with their outcomes.                *)
(*                                                                         *)
(* Operations: Render(t, d) for 3 templates x 3 data sets (the third lacks *)
(* $x, so every template fails midway where it prints it), GenJS(f) for    *)
(* the two files, EvalExpr.                                                *)
(* Every render runs the reference interpreter SoyExec to completion as a  *)
(* function (SoyBundleRun!RunToEnd).  The configuration of the             *)
(* user-extensible registries is the constant CfgName:                     *)
(*   "none" | "oblig" (obligatory print directive "exclaim", appends "!")  *)
(*   | "fn" (custom function vmax2 = max) | "both".                        *)
(*                                                                         *)
(* Properties                                                              *)
(*   Pure               == [][reg' = reg /\ store' = store]_vars           *)
(*   HistoryIndependent == the outcome of every operation is the outcome   *)
(*                         of that operation on the pristine bundle        *)
(* Deviations (CONSTANT Dev): "obligatory_append" breaks both within two   *)
(* steps when an obligatory directive is configured; "render_mutates_data" *)
(* breaks Pure.                                                            *)
(*                                                                         *)
(* TLC explores ALL histories of length <= MaxLen (M1) and prints every    *)
(* maximal one with the expected outcome of each step (M2); the harness    *)
(* replays each on one compiled bundle of the real code.                   *)
(***************************************************************************)
EXTENDS SoyBundleRun, Json

CONSTANTS CfgName, MaxLen

VARIABLES reg, store, hist, cfgv
bvars == <<reg, store, hist, cfgv>>

(***************************************************************************)
(* The bundle.  Print nodes carry an identity so that their directive      *)
(* lists live in the shared tree.                                          *)
(***************************************************************************)
Var(n) == [k |-> "var", name |-> n, acc |-> <<>>]
VarKey(n, key) == [k |-> "var", name |-> n, acc |-> <<[k |-> "key", ns |-> FALSE, key |-> key]>>]
ES(s) == [k |-> "str", v |-> s]
EI(n) == [k |-> "int", v |-> n]
Bin(op, a, b) == [k |-> op, a |-> a, b |-> b]
Fn(name, args) == [k |-> "fn", name |-> name, args |-> args]
Tx(s) == [k |-> "text", s |-> s]
Pr(id, e, dirs) == [k |-> "print", id |-> id, e |-> e,
                       dirs |-> [i \in 1..Len(dirs) |-> [name |-> dirs[i], args |-> <<>>]]]
\* a print whose directives take arguments: ds is a sequence of <<name, args>>
PrD(id, e, ds) == [k |-> "print", id |-> id, e |-> e,
                   dirs |-> [i \in 1..Len(ds) |-> [name |-> ds[i][1], args |-> ds[i][2]]]]
NoBody == [has |-> FALSE, body |-> <<>>]
Body(b) == [has |-> TRUE, body |-> b]
PV(key, e) == [k |-> "pv", key |-> key, e |-> e]
\* Globals given at compile time.  The map- and list-valued ones are reference
\* values that belong to the compiled bundle (one object behind every use).
Glob(n) == [k |-> "global", name |-> n]
TheGlobals == [GM |-> M([k |-> S("g")]), GL |-> L(<<I(1), I(2)>>), GS |-> S("s&")]

PC(key, b) == [k |-> "pc", key |-> key, body |-> b]
Call(t, data, params) == [k |-> "call", tmpl |-> t, data |-> data, de |-> [k |-> "null"], params |-> params]
\* data="<expression>"
CallE(t, de, params) == [k |-> "call", tmpl |-> t, data |-> "expr", de |-> de, params |-> params]

\* The last four prints mix the marker directives (id, noAutoescape) with
\* others before and after them and use the directives that add markup: a JS
\* generator (or renderer) that rewrites a node's directive list while it
\* filters it changes what these print afterwards.
T1 == [params |-> <<[name |-> "x", opt |-> FALSE], [name |-> "xs", opt |-> FALSE]>>,
       nsa |-> "", ta |-> "",
       body |-> << Tx("<b>"), Pr("p1", Var("x"), <<>>), Tx("</b>"),
                   [k |-> "letv", name |-> "y", e |-> Bin("add", Var("x"), ES("1"))],
                   Pr("p2", Var("y"), <<"noAutoescape">>),
                   Call("a.t2", "all", <<PV("z", Var("y"))>>),
                   PrD("p11", Var("x"), << <<"noAutoescape", <<>> >>, <<"truncate", <<EI(30)>> >> >>),
                   PrD("p12", Var("y"), << <<"truncate", <<EI(5)>> >>, <<"id", <<>> >> >>),
                   PrD("p13", Var("x"), << <<"changeNewlineToBr", <<>> >> >>),
                   PrD("p14", Var("y"), << <<"insertWordBreaks", <<EI(3)>> >>, <<"noAutoescape", <<>> >> >>) >>]

T2 == [params |-> <<[name |-> "x", opt |-> FALSE], [name |-> "xs", opt |-> FALSE], [name |-> "z", opt |-> TRUE]>>,
       nsa |-> "", ta |-> "",
       body |-> << Tx("["), Pr("p3", Bin("elvis", Var("z"), ES("-")), <<>>),
                   [k |-> "foreach", kw |-> "foreach", var |-> "i", e |-> Var("xs"),
                    body |-> <<Pr("p4", Var("i"), <<>>), Tx(",")>>,
                    empty |-> Body(<<Tx("none")>>)],
                   Pr("p5", VarKey("ij", "who"), <<>>),
                   \* collection-valued globals through everything that takes a collection
                   Pr("p18", Fn("length", <<Fn("keys", <<Fn("augmentMap", <<[k |-> "map", items |-> <<[key |-> "a", val |-> EI(1)]>>], Glob("GM")>>)>>)>>), <<>>),
                   Pr("p19", Fn("length", <<Fn("keys", <<Fn("augmentMap", <<Glob("GM"), [k |-> "map", items |-> <<[key |-> "b", val |-> EI(2)]>>]>>)>>)>>), <<>>),
                   Pr("p20", Fn("keys", <<Glob("GM")>>), <<>>),
                   Pr("p21", Fn("length", <<Glob("GL")>>), <<>>),
                   [k |-> "foreach", kw |-> "foreach", var |-> "j", e |-> Glob("GL"),
                    body |-> <<Pr("p22", Var("j"), <<>>)>>, empty |-> NoBody],
                   [k |-> "letv", name |-> "g", e |-> Glob("GM")],
                   Pr("p23", VarKey("g", "k"), <<>>),
                   Pr("p24", Glob("GS"), <<>>),
                   CallE("a.t0", Glob("GM"), <<PV("z", ES("G"))>>),
                   [k |-> "if", brs |-> <<[c |-> Bin("eq", Var("x"), ES("")), body |-> <<Tx("E")>>]>>,
                    \* three directives: the parser's slice has spare capacity, where an
                    \* append that does not copy first would write
                    els |-> Body(<<Pr("p6", Var("x"), <<"escapeHtml", "id", "noAutoescape">>)>>)],
                   \* second link of a data="all" chain: a.t1 -(all + param z)-> a.t2 -(all)-> a.t0;
                   \* the params of the first call must stay in their own frame
                   Call("a.t0", "all", <<>>),
                   Tx("]") >>]

\* only called, never an entry point of a history
T0 == [params |-> <<[name |-> "z", opt |-> TRUE]>>, nsa |-> "", ta |-> "",
       body |-> << Tx("<"), Pr("p16", Bin("elvis", Var("z"), ES(".")), <<>>), Tx(">") >>]

\* data = a FUNCTION result that hands on one of the caller's maps
\* (augmentMap with an empty / non-empty second map) with a param on top
AugCall(z, items) == CallE("a.t0", Fn("augmentMap", <<Var("dflt"), [k |-> "map", items |-> items]>>), <<PV("z", ES(z))>>)

\* The two calls take their data from an EXPRESSION that evaluates to one of
\* the caller's own maps (ternary / elvis over references) and add explicit
\* value and content params: those must land in a fresh frame, not in the map.
T3 == [params |-> <<[name |-> "x", opt |-> FALSE], [name |-> "n", opt |-> FALSE],
                    [name |-> "o", opt |-> TRUE], [name |-> "dflt", opt |-> FALSE]>>,
       nsa |-> "", ta |-> "",
       body |-> << [k |-> "msg", desc |-> "m", body |-> <<Tx("Hi "), Pr("p7", Var("x"), <<>>)>>],
                   [k |-> "if",
                    brs |-> <<[c |-> Bin("gt", Var("n"), EI(1)),
                               body |-> <<CallE("a.t2", [k |-> "tern", c |-> Bin("gt", Var("n"), EI(2)), a |-> Var("o"), b |-> Var("dflt")],
                                                <<PV("x", ES("k"))>>),
                                          AugCall("A", <<>>),
                                          Pr("p8", Fn("vmax2", <<Var("n"), EI(2)>>), <<>>)>>]>>,
                    els |-> Body(<<CallE("a.t2", Bin("elvis", Var("o"), Var("dflt")),
                                         <<PV("x", ES("k")),
                                           PC("z", <<Tx("c"), Pr("p15", Var("n"), <<>>)>>)>>),
                                   AugCall("B", <<>>),
                                   AugCall("C", <<[key |-> "q", val |-> EI(1)]>>),
                                   CallE("a.t0", [k |-> "map", items |-> <<[key |-> "z", val |-> ES("L")]>>], <<PV("z", ES("D"))>>)>>)],
                   [k |-> "letc", name |-> "w", body |-> <<Tx("w"), Pr("p9", Var("n"), <<>>)>>],
                   Pr("p10", Var("w"), <<>>),
                   \* goes to the logger the embedder has set, not to the output
                   [k |-> "log", body |-> <<Tx("L"), Pr("p17", Var("n"), <<>>)>>] >>]

TheBundle == ("a.t0" :> T0) @@ ("a.t1" :> T1) @@ ("a.t2" :> T2) @@ ("b.t3" :> T3)
Templates == <<"a.t1", "a.t2", "b.t3">>

\* the source files and the print nodes each contains, in source order
Files == <<"a.soy", "b.soy">>
FileIds == ("a.soy" :> <<"p1", "p2", "p11", "p12", "p13", "p14", "p3", "p4", "p5", "p18", "p19", "p20", "p21", "p22", "p23", "p24", "p6", "p16">>)
           @@ ("b.soy" :> <<"p7", "p8", "p15", "p9", "p10", "p17">>)

TheExpr == Bin("add", Fn("round", <<[k |-> "float", num |-> 7, sh |-> 1]>>),
                      Fn("length", <<[k |-> "list", items |-> <<EI(1), EI(2)>>]>>))

\* every print command below a command (to build reg.dirs from the bundle)
RECURSIVE PrintsOf(_), PrintsIn(_)
PrintsIn(body) == UNION {PrintsOf(body[i]) : i \in 1..Len(body)}
PrintsOf(c) ==
  CASE c.k = "print" -> {c}
    [] c.k = "if" -> UNION {PrintsIn(c.brs[i].body) : i \in 1..Len(c.brs)} \cup PrintsIn(c.els.body)
    [] c.k = "switch" -> UNION {PrintsIn(c.cases[i].body) : i \in 1..Len(c.cases)} \cup PrintsIn(c.def.body)
    [] c.k = "foreach" -> PrintsIn(c.body) \cup PrintsIn(c.empty.body)
    [] c.k \in {"letc", "log", "msg", "pc"} -> PrintsIn(c.body)
    [] c.k = "call" -> PrintsIn(c.params)
    [] OTHER -> {}

AllPrints == UNION {PrintsIn(TheBundle[t].body) : t \in DOMAIN TheBundle}
Dirs0 == [id \in {p.id : p \in AllPrints} |-> (CHOOSE p \in AllPrints : p.id = id).dirs]

ASSUME \A f \in DOMAIN FileIds : \A i \in 1..Len(FileIds[f]) : FileIds[f][i] \in DOMAIN Dirs0
ASSUME Cardinality(AllPrints) = Cardinality(DOMAIN Dirs0)      \* identities are unique

Reg0 == [bundle |-> TheBundle, dirs |-> Dirs0, memo |-> [x \in {} |-> <<>>],
         oblcache |-> <<>>]      \* (package state used only by a deviation)

DataSets == <<"d1", "d2", "d3">>
Store0 == [data |-> [d1 |-> [x |-> S("u<v"), xs |-> L(<<I(1), I(2)>>), n |-> I(3),
                             o |-> M([xs |-> L(<<I(4)>>)]), dflt |-> M([xs |-> L(<<I(5), I(6)>>)])],
                     d2 |-> [x |-> S(""), xs |-> L(<<>>), n |-> I(0), dflt |-> M([xs |-> L(<<>>)])],
                     \* no x: printing it fails
                     d3 |-> [xs |-> L(<<I(7)>>), n |-> I(0), dflt |-> M([xs |-> L(<<I(8)>>)])]],
           ij |-> M([who |-> S("W&")]),
           cat |-> "identity"]     \* a catalogue that translates every message to itself

FixedCfgs == [none |-> NoCfg,
              oblig |-> [oblig |-> <<"exclaim">>, dirs |-> {"exclaim"}, fns |-> NoFn],
              fn |-> [oblig |-> <<>>, dirs |-> {}, fns |-> [vmax2 |-> "max"]],
              both |-> [oblig |-> <<"exclaim">>, dirs |-> {"exclaim"}, fns |-> [vmax2 |-> "max"]]]

(***************************************************************************)
(* The configuration is part of the state.  With CfgName = "switch" the     *)
(* embedder changes it BETWEEN operations: every piece of settable package  *)
(* state (obligatory directive list: other names of the same length,        *)
(* reordered, emptied, restored; a directive / a function replaced by       *)
(* another implementation under the same name) and what a Renderer is given *)
(* ($ij, message catalogue).  A configuration:                              *)
(*   [name, oblig, dirs, sfx (directive -> suffix it appends), fns,         *)
(*    ij ("a" | "b": which injected data), msgs (catalogue given or not)]   *)
(***************************************************************************)
SC(name, oblig, sfx, fns, ij, msgs) ==
  [name |-> name, oblig |-> oblig, dirs |-> DOMAIN sfx, sfx |-> sfx, fns |-> fns, ij |-> ij, msgs |-> msgs]
NoSfx == [x \in {} |-> ""]
BothSfx == [exclaim |-> "!", stars |-> "*"]
SwitchCfgs ==
  << SC("none", <<>>, NoSfx, NoFn, "a", TRUE),
     SC("E", <<"exclaim">>, BothSfx, NoFn, "a", TRUE),
     SC("S", <<"stars">>, BothSfx, NoFn, "a", TRUE),                 \* same length, another name
     SC("ES", <<"exclaim", "stars">>, BothSfx, NoFn, "a", TRUE),
     SC("SE", <<"stars", "exclaim">>, BothSfx, NoFn, "a", TRUE),     \* reordered
     SC("E2", <<"exclaim">>, [exclaim |-> "?", stars |-> "*"], NoFn, "a", TRUE),   \* same name, another directive
     SC("fmax", <<>>, NoSfx, [vmax2 |-> "max"], "a", TRUE),
     SC("fmin", <<>>, NoSfx, [vmax2 |-> "min"], "a", TRUE),          \* same name, another function
     SC("ijB", <<>>, NoSfx, NoFn, "b", TRUE),                        \* other injected data
     SC("nomsg", <<>>, NoSfx, NoFn, "a", FALSE) >>                   \* no catalogue
SwitchNames == {SwitchCfgs[i].name : i \in 1..Len(SwitchCfgs)}
SwitchCfg(n) == SwitchCfgs[CHOOSE i \in 1..Len(SwitchCfgs) : SwitchCfgs[i].name = n]
IJB == M([who |-> S("V")])

Switching == CfgName = "switch"
Cfg0 == IF Switching THEN SwitchCfgs[2]      \* starts under "E": [E] -> render -> [S] -> render fits in 3 steps
        ELSE [name |-> CfgName, ij |-> "a", msgs |-> TRUE] @@ FixedCfgs[CfgName]

(***************************************************************************)
(* Operations                                                              *)
(***************************************************************************)
Ops == IF Switching
       THEN {[op |-> "setcfg", c |-> n] : n \in SwitchNames}
            \cup {[op |-> "render", t |-> "a.t1", d |-> "d1"], [op |-> "render", t |-> "a.t2", d |-> "d2"],
                   [op |-> "render", t |-> "b.t3", d |-> "d1"]}
       ELSE {[op |-> "render", t |-> Templates[i], d |-> DataSets[j]] : i \in 1..3, j \in 1..3}
            \cup {[op |-> "genjs", f |-> Files[i]] : i \in 1..2}
            \cup {[op |-> "evalexpr"]}

ProgOf(r, st, c, o) ==
  [bundle |-> r.bundle, entry |-> o.t, data |-> st.data[o.d], ij |-> IF c.ij = "b" THEN IJB ELSE st.ij,
   glob |-> TheGlobals, plan |-> [kind |-> "none"], cfg |-> c]

\* generated JavaScript is a function of the tree; abstractly: the directive
\* lists of the file's print nodes
RECURSIVE JoinNames(_, _), JSFrom(_, _, _)
JoinNames(ds, i) == IF i > Len(ds) THEN "" ELSE "|" \o ds[i].name \o JoinNames(ds, i + 1)
JSFrom(r, ids, i) == IF i > Len(ids) THEN ""
                     ELSE ids[i] \o JoinNames(r.dirs[ids[i]], 1) \o ";" \o JSFrom(r, ids, i + 1)

\* the configuration a render works with: the current one (reference); the
\* deviation keeps the obligatory list of an earlier render as long as the
\* current list has the same LENGTH
EffCfg(r, c) ==
  IF "config_cached_by_length" \in Dev /\ Len(r.oblcache) = Len(c.oblig) /\ Len(c.oblig) > 0
  THEN [c EXCEPT !.oblig = r.oblcache] ELSE c

\* the outcome of operation o on tree r and store st under configuration c:
\* [st, out, reg (the tree afterwards), store (the caller's values afterwards)]
Outcome(r, st, c, o) ==
  CASE o.op = "render" ->
         LET ec == EffCfg(r, c)
             res == RunToEnd(InitOf(ProgOf(r, st, ec, o)), r) IN
         [st |-> res.s.status, out |-> res.s.out,
          reg |-> [r EXCEPT !.dirs = res.sh.dirs, !.memo = res.sh.memo,
                            !.oblcache = IF "config_cached_by_length" \in Dev THEN ec.oblig ELSE @],
          store |-> IF "render_mutates_data" \in Dev
                    THEN [st EXCEPT !.data[o.d] = res.s.act[1].tdata] ELSE st]
    [] o.op = "genjs" ->
         [st |-> "ok", out |-> JSFrom(r, FileIds[o.f], 1), reg |-> r, store |-> st]
    [] o.op = "setcfg" -> [st |-> "ok", out |-> "", reg |-> r, store |-> st]
    [] OTHER ->
         LET v == Eval(Ren(TheExpr, c.fns), [vars |-> [x \in {} |-> Null], ij |-> NoIJ, glob |-> [x \in {} |-> Null]]) IN
         [st |-> IF IsBad(v) THEN BadSt(v) ELSE IF Printable(v) THEN "ok" ELSE "unspec",
          out |-> IF IsBad(v) \/ ~Printable(v) THEN "" ELSE ToText(v), reg |-> r, store |-> st]

Init == reg = Reg0 /\ store = Store0 /\ hist = <<>> /\ cfgv = Cfg0

Do(o) == LET r == Outcome(reg, store, cfgv, o) IN
         /\ reg' = r.reg
         /\ store' = r.store
         /\ cfgv' = IF o.op = "setcfg" THEN SwitchCfg(o.c) ELSE cfgv
         /\ hist' = Append(hist, [op |-> o, st |-> r.st, out |-> r.out])

Next == Len(hist) < MaxLen /\ \E o \in Ops : Do(o)

Spec == Init /\ [][Next]_bvars

(***************************************************************************)
(* Properties                                                              *)
(***************************************************************************)
\* (changing the configuration is the embedder's act, not a render's: cfgv is
\* not part of what must stay unchanged)
Pure == [][reg' = reg /\ store' = store]_bvars

\* output = f(current configuration, inputs): the latest operation came out
\* as it does on the pristine bundle under the configuration in force
\* (earlier ones were checked in the states before)
HistoryIndependent ==
  (Len(hist) > 0 /\ hist[Len(hist)].op.op # "setcfg") =>
    LET e == hist[Len(hist)] f == Outcome(Reg0, Store0, cfgv, e.op) IN e.st = f.st /\ e.out = f.out

\* no render of the model leaves the model's domain or runs out of fuel.
\* (Not an invariant of every configuration: without the custom function the
\* call of vmax2 in b.t3 is an unknown function, on which SoyExpr makes no
\* claim; the harness then compares that step with a fresh bundle only.)
AllDecided == \A i \in 1..Len(hist) : hist[i].st \in {"ok", "err"}

(***************************************************************************)
(* Export (M2)                                                             *)
(***************************************************************************)
Setup == [cfgname |-> CfgName, cfg |-> [oblig |-> Cfg0.oblig, fns |-> Cfg0.fns],
          switch |-> [i \in 1..Len(SwitchCfgs) |->
                        [name |-> SwitchCfgs[i].name, oblig |-> SwitchCfgs[i].oblig, sfx |-> SwitchCfgs[i].sfx,
                         fns |-> SwitchCfgs[i].fns, ij |-> SwitchCfgs[i].ij, msgs |-> SwitchCfgs[i].msgs]],
          ijb |-> IJB, globals |-> TheGlobals,
          bundle |-> TheBundle, data |-> Store0.data, ij |-> Store0.ij, expr |-> TheExpr,
          files |-> Files]

ExportSetup == Len(hist) = 0 => PrintT(ToJson([setup |-> Setup]))
ExportHistory == Len(hist) = MaxLen => PrintT(ToJson([h |-> hist]))
=============================================================================
