---------------------------- MODULE SoyBundleDet ----------------------------
(***************************************************************************)
(* C13 -- compilation and code generation are deterministic functions of   *)
(* the sources.                                                            *)
(*                                                                         *)
(* A small model of                                                        *)
(*   Compile(files in insertion order) -> accept | reject(error)           *)
(*   message placeholder names (hence ids) of every accepted file          *)
(*   GenJS(file, formatter): ES5 = body; ES6 = import block + body         *)
(* for abstract bundles: a bundle is a function 1..nf -> FileShape, where  *)
(* a file shape says which things the file imports under the ES6 formatter *)
(* (cross-file callees, Soy functions, print directives: abstract ids),    *)
(* whether its message has placeholders with colliding base names, and     *)
(* whether it carries a parse error or a data-reference (check) error.     *)
(*                                                                         *)
(* Reference design (Dev = {}):                                            *)
(*   * files are parsed in insertion order, then checked in insertion      *)
(*     order; the first error is reported;                                 *)
(*   * placeholder names follow the official algorithm: a base name used   *)
(*     by one expression is the name; a base name used by k > 1 distinct   *)
(*     expressions gets suffixes _1, _2, ... in order of first appearance, *)
(*     skipping every suffix that would collide with a BASE name of the    *)
(*     message -- no dependence on any iteration order;                    *)
(*   * the ES6 import block lists the imports in a canonical (sorted)      *)
(*     order.                                                              *)
(* Deviations (what an implementation that walks a hash map does):         *)
(*   "imports_in_map_order"  the import block is emitted in the iteration  *)
(*                           order of a map (any permutation);             *)
(*   "tie_broken_by_map_order"  the import block IS sorted, but by a key    *)
(*                           that is not injective (e.g. ignoring letter    *)
(*                           case: imports 1 and 2 tie); the sort is stable *)
(*                           over the iteration order of a map, so the tie  *)
(*                           comes out in map order;                        *)
(*   "phnames_in_map_order"  base names are processed in the iteration     *)
(*                           order of a map, suffix collisions are checked *)
(*                           against the names assigned SO FAR, a single-  *)
(*                           use base name overwrites an assigned name;    *)
(*   "order_leaks"           the generated body mentions the position of   *)
(*                           the file in the insertion order.              *)
(*                                                                         *)
(* Two runs (insertion order + internal iteration choices each) of the     *)
(* same bundle are compared:                                               *)
(*   Deterministic     same insertion order => identical observation       *)
(*   OrderInsensitive  any two orders => same verdict, names and JS; the   *)
(*                     error is the same if the bundle has one error and   *)
(*                     one of its independent errors otherwise.            *)
(***************************************************************************)
EXTENDS Integers, Sequences, FiniteSets, TLC, SequencesExt, Json

CONSTANTS Dev,        \* set of deviation names
          MaxFiles,   \* 1..MaxFiles files per bundle
          Rich        \* up to Rich files use the full FileShape product, more files a reduced one

AllImports == {1, 2, 3}
ImportSets == {{}, {1, 2}, {1, 2, 3}}
MsgKinds   == {"none", "collide", "collide_sfx"}
ErrKinds   == {"ok", "parse", "check"}

FileShape  == [imps : ImportSets, msg : MsgKinds, err : ErrKinds]
LeanShape  == [imps : {{}, {1, 2}}, msg : {"none", "collide_sfx"}, err : ErrKinds]
TinyShape  == {[imps |-> {}, msg |-> "none", err |-> "ok"],
               [imps |-> {1, 2, 3}, msg |-> "collide_sfx", err |-> "ok"],
               [imps |-> {}, msg |-> "none", err |-> "parse"],
               [imps |-> {1, 2}, msg |-> "none", err |-> "check"]}

ShapesFor(nf) == IF nf <= Rich THEN FileShape ELSE IF nf <= Rich + 1 THEN LeanShape ELSE TinyShape
Bundles == UNION {[1..nf -> ShapesFor(nf)] : nf \in 1..MaxFiles}

NF(b) == Cardinality(DOMAIN b)

(***************************************************************************)
(* Placeholders.  A base name is <<stem, n>>: n = 0 is the stem itself     *)
(* ("X"), n > 0 is "X_n" -- so that the suffixed name "X_1" generated for  *)
(* a collision on "X" IS the base name of the expression $x_1.             *)
(***************************************************************************)
X0 == <<"X", 0>>
X1 == <<"X", 1>>
Placeholders(kind) ==
  CASE kind = "none"        -> <<>>
    [] kind = "collide"     -> <<[b |-> X0, e |-> 1], [b |-> X0, e |-> 2], [b |-> X0, e |-> 1]>>
    [] kind = "collide_sfx" -> <<[b |-> X0, e |-> 1], [b |-> X0, e |-> 2], [b |-> X1, e |-> 3]>>

Bases(ph) == {ph[i].b : i \in DOMAIN ph}

\* the distinct expressions with base name b, in order of first appearance
ExprsOf(ph, b) ==
  LET first(i) == ph[i].b = b /\ \A j \in 1..(i - 1) : ph[j].e # ph[i].e
      idx == SelectSeq([i \in 1..Len(ph) |-> i], first)
  IN [k \in 1..Len(idx) |-> ph[idx[k]].e]

Put(m, k, v) == [x \in (DOMAIN m) \cup {k} |-> IF x = k THEN v ELSE m[x]]

\* reference: collisions against base names
RECURSIVE FreeRef(_, _, _)
FreeRef(stem, n, bases) == IF <<stem, n>> \in bases THEN FreeRef(stem, n + 1, bases) ELSE n
RECURSIVE AssignRef(_, _, _, _, _)
AssignRef(nodes, k, next, stem, bases) ==
  IF k > Len(nodes) THEN {}
  ELSE LET n == FreeRef(stem, next, bases)
       IN {<<nodes[k], <<stem, n>>>>} \cup AssignRef(nodes, k + 1, n + 1, stem, bases)
RefNames(ph) ==
  UNION {LET nodes == ExprsOf(ph, b)
         IN IF Len(nodes) = 1 THEN {<<nodes[1], b>>}
            ELSE AssignRef(nodes, 1, 1, b[1], Bases(ph)) : b \in Bases(ph)}

\* deviation: bases in map order, collisions against names assigned so far
RECURSIVE FreeDev(_, _, _)
FreeDev(stem, n, m) == IF <<stem, n>> \in DOMAIN m THEN FreeDev(stem, n + 1, m) ELSE n
RECURSIVE AssignDev(_, _, _, _, _)
AssignDev(nodes, k, next, stem, m) ==
  IF k > Len(nodes) THEN m
  ELSE LET n == FreeDev(stem, next, m)
       IN AssignDev(nodes, k + 1, n, stem, Put(m, <<stem, n>>, nodes[k]))
RECURSIVE FoldDev(_, _, _, _)
FoldDev(ph, ord, i, m) ==
  IF i > Len(ord) THEN m
  ELSE LET b == ord[i]
           nodes == ExprsOf(ph, b)
       IN FoldDev(ph, ord, i + 1,
                  IF Len(nodes) = 1 THEN Put(m, b, nodes[1])      \* overwrites
                  ELSE AssignDev(nodes, 1, 1, b[1], m))
DevNames(ph, ord) ==
  LET m == FoldDev(ph, ord, 1, <<>>) IN {<<m[x], x>> : x \in DOMAIN m}

\* a run's internal iteration choices: one priority order for imports, one for base names
BaseOrders   == SetToSeqs({X0, X1})
ImportOrders == SetToSeqs(AllImports)
MapOrderSeen == "imports_in_map_order" \in Dev \/ "tie_broken_by_map_order" \in Dev
IterChoices == [io : IF MapOrderSeen THEN ImportOrders ELSE {<<1, 2, 3>>},
            bo : IF "phnames_in_map_order" \in Dev THEN BaseOrders ELSE {<<X0, X1>>}]

KeepIn(seq, S) == SelectSeq(seq, LAMBDA x : x \in S)

Names(shape, c) ==
  LET ph == Placeholders(shape.msg)
  IN IF "phnames_in_map_order" \in Dev THEN DevNames(ph, KeepIn(c.bo, Bases(ph))) ELSE RefNames(ph)

\* the comparison key of an import: the identity (injective) in the reference
SortKey(i) == IF "tie_broken_by_map_order" \in Dev THEN (i + 1) \div 2 ELSE i     \* 1, 2 -> 1 ; 3 -> 2
\* a stable sort of seq by SortKey (keys are in 1..3)
StableSortByKey(seq) ==
  KeepIn(seq, {x \in AllImports : SortKey(x) = 1}) \o KeepIn(seq, {x \in AllImports : SortKey(x) = 2})
    \o KeepIn(seq, {x \in AllImports : SortKey(x) = 3})

ImportBlock(shape, c) ==
  IF "imports_in_map_order" \in Dev THEN KeepIn(c.io, shape.imps)
  ELSE StableSortByKey(KeepIn(c.io, shape.imps))      \* = <<1,2,3>> restricted, in the reference

PosOf(order, f) == CHOOSE i \in 1..Len(order) : order[i] = f

GenJS(b, f, order, c) ==
  LET body == IF "order_leaks" \in Dev THEN <<"body", f, PosOf(order, f)>> ELSE <<"body", f>>
  IN [es5 |-> body, es6 |-> <<ImportBlock(b[f], c), body>>]

(***************************************************************************)
(* Compile and observe.                                                    *)
(***************************************************************************)
ErrorSet(b) == {<<b[f].err, f>> : f \in {g \in DOMAIN b : b[g].err # "ok"}}

FirstWith(b, order, kind) ==
  LET hits == SelectSeq(order, LAMBDA f : b[f].err = kind)
  IN IF hits = <<>> THEN 0 ELSE hits[1]

Observe(b, order, c) ==
  LET p == FirstWith(b, order, "parse")
      k == FirstWith(b, order, "check")
  IN IF p # 0 THEN [acc |-> FALSE, err |-> <<"parse", p>>]
     ELSE IF k # 0 THEN [acc |-> FALSE, err |-> <<"check", k>>]
     ELSE [acc |-> TRUE,
           names |-> [f \in DOMAIN b |-> Names(b[f], c)],
           js |-> [f \in DOMAIN b |-> GenJS(b, f, order, c)]]

Agree(b, o1, o2) ==
  /\ o1.acc = o2.acc
  /\ IF ~o1.acc
     THEN IF Cardinality(ErrorSet(b)) = 1 THEN o1.err = o2.err
          ELSE o1.err \in ErrorSet(b) /\ o2.err \in ErrorSet(b)
     ELSE o1.names = o2.names /\ o1.js = o2.js

(***************************************************************************)
(* Two runs of one bundle.                                                 *)
(***************************************************************************)
VARIABLES bundle, phase, p1, o1, p2, o2
vars == <<bundle, phase, p1, o1, p2, o2>>

None == [acc |-> FALSE, err |-> <<"none", 0>>]

Init == /\ bundle \in Bundles
        /\ phase = 0
        /\ p1 = <<>> /\ p2 = <<>> /\ o1 = None /\ o2 = None

Run1 == /\ phase = 0
        /\ \E p \in SetToSeqs(DOMAIN bundle), c \in IterChoices :
              p1' = p /\ o1' = Observe(bundle, p, c)
        /\ phase' = 1
        /\ UNCHANGED <<bundle, p2, o2>>

Run2 == /\ phase = 1
        /\ \E p \in SetToSeqs(DOMAIN bundle), c \in IterChoices :
              p2' = p /\ o2' = Observe(bundle, p, c)
        /\ phase' = 2
        /\ UNCHANGED <<bundle, p1, o1>>

Next == Run1 \/ Run2
Spec == Init /\ [][Next]_vars

Deterministic    == (phase = 2 /\ p1 = p2) => o1 = o2
OrderInsensitive == phase = 2 => Agree(bundle, o1, o2)

\* M2: print every bundle of the family once (cfg: INVARIANT PrintShapes, workers 1)
ShapeJson(b) == ToJson([nf |-> NF(b),
                        files |-> [f \in DOMAIN b |-> [imps |-> SetToSortSeq(b[f].imps, LAMBDA x, y : x < y),
                                                       msg |-> b[f].msg, err |-> b[f].err]],
                        nerr |-> Cardinality(ErrorSet(b))])
PrintShapes == phase = 0 => PrintT(ShapeJson(bundle))
NoNext == FALSE /\ UNCHANGED vars   \* NEXT for the printing run: initial states only
=============================================================================
