--------------------------- MODULE SoyBundleRefine ---------------------------
(***************************************************************************)
(* SoyBundleRun!StepF is SoyExec's transition relation as a function.      *)
(* This module runs SoyExec itself (its variables, its Next) over the      *)
(* programs of an NDJSON file (generated bundles recorded by the harness)  *)
(* and checks, for every step SoyExec takes, that the successor state is   *)
(* the one StepF computes, and that RunToEnd from the initial state gives  *)
(* the terminal state SoyExec reaches.  So SoyExec.tla remains the single  *)
(* reference semantics; SoyBundle and SoyConcurrent only re-use it.        *)
(***************************************************************************)
EXTENDS SoyExec, Json

Progs == ndJsonDeserialize("refine_progs.ndjson")

R == INSTANCE SoyBundleRun

VARIABLES l

rvars == <<vars, l>>

Cur == [prog |-> prog, ctl |-> ctl, act |-> act, pend |-> pend, bufs |-> bufs,
        out |-> out, wr |-> wr, status |-> status, unbound |-> unbound]
Nxt == [prog |-> prog', ctl |-> ctl', act |-> act', pend |-> pend', bufs |-> bufs',
        out |-> out', wr |-> wr', status |-> status', unbound |-> unbound']

RInit == l = 1 /\ StartOf(Progs[1].prog)

RRun == /\ l <= Len(Progs) /\ ~Terminated
        /\ Next
        /\ UNCHANGED l

RAdvance == /\ l <= Len(Progs) /\ Terminated
            /\ l' = l + 1
            /\ IF l < Len(Progs) THEN ResetTo(Progs[l + 1].prog) ELSE UNCHANGED vars

RDone == l > Len(Progs) /\ UNCHANGED rvars

RNext == RRun \/ RAdvance \/ RDone

\* every step of SoyExec is the step StepF computes
StepMatches == [][(l' = l /\ l <= Len(Progs)) => Nxt = R!StepPlain(Cur)]_rvars

\* at a terminal state: the functional run from the start ends in this state
RunMatches == (l <= Len(Progs) /\ Terminated) =>
                 R!RunToEnd(InitRec(Progs[l].prog), R!NoShared).s = Cur

Report == l = Len(Progs) + 1 => PrintT(<<"REFINED", l - 1>>)
=============================================================================
