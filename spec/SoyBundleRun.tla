---------------------------- MODULE SoyBundleRun ----------------------------
(***************************************************************************)
(* SoyExec as a FUNCTION.  SoyExec.tla is the reference small-step         *)
(* interpreter, written as actions over variables.  Histories over one     *)
(* compiled bundle (SoyBundle, C08) and interleavings of several renders   *)
(* (SoyConcurrent, C09) need "run this render" as a value, several render  *)
(* states side by side, and a shared compiled tree next to them.  This     *)
(* module restates SoyExec's transition relation as                        *)
(*       StepF(s, sh)  :  [s |-> state record, sh |-> shared tree]          *)
(* over SoyExec's own state record (InitRec) and REUSES every state        *)
(* function of SoyExec (Env, Unbound, PickBranch, PickCase, Block, EffEsc, *)
(* WriteFails, ...) through a parametrised instance X(s).  Only the        *)
(* "primed" half of each action is restated.  SoyBundleRefine.tla has TLC  *)
(* check, on recorded generated programs, that every SoyExec step s -> s'  *)
(* satisfies s' = StepF(s), so SoyExec stays the single reference.         *)
(*                                                                         *)
(* Additions that SoyExec does not have (all inert when absent):           *)
(*  - the SHARED TREE sh = [dirs, memo]: a print command may carry a node  *)
(*    identity  id ; its directive list is then read from sh.dirs[id] at   *)
(*    the moment the print executes (a pointer dereference), not from the  *)
(*    copy in the command;                                                 *)
(*  - the configuration of the user-extensible registries, prog.cfg =      *)
(*    [oblig |-> Seq(directive name), dirs |-> set of installed custom     *)
(*    directive names, fns |-> [custom function name -> builtin it equals]]*)
(*  - named deviations (CONSTANT Dev, shared with SoyExec):                *)
(*    "obligatory_append": a print appends the obligatory directives to    *)
(*       the shared node (what the pinned code does) instead of to a       *)
(*       private list;                                                     *)
(*    "render_mutates_data": a {let} / a {param} of a data="all" call is   *)
(*       written into the template's data map instead of a fresh frame;    *)
(*    "callee_params_into_shared_map": the {param}s of a {call data="E"}   *)
(*       whose E hands on one of the caller's own maps ($m, or              *)
(*       augmentMap($m, <empty map>)) are stored in that map, which lives   *)
(*       in the shared-data cell sh.shared (caller data shared by all       *)
(*       renders: every render may read it, none may write it);             *)
(*    "memo_cache": template lookup goes through an unsynchronised,        *)
(*       lazily filled cache in the shared tree (slot reserved in one      *)
(*       step, filled in the next).                                        *)
(***************************************************************************)
EXTENDS SoyExpr

CONSTANT Dev

X(s) == INSTANCE SoyExec WITH prog <- s.prog, ctl <- s.ctl, act <- s.act,
                              pend <- s.pend, bufs <- s.bufs, out <- s.out,
                              wr <- s.wr, status <- s.status, unbound <- s.unbound

\* the full directive semantics (C16's reference), used for directives that
\* SoyExec itself does not interpret
Dr == INSTANCE SoyDirectives WITH DirDev <- {}

NoFn == [x \in {} |-> ""]
NoCfg == [oblig |-> <<>>, dirs |-> {}, fns |-> NoFn]
CfgOf(s) == IF "cfg" \in DOMAIN s.prog THEN s.prog.cfg ELSE NoCfg

NoShared == [dirs |-> [x \in {} |-> <<>>], memo |-> [x \in {} |-> <<>>]]

(***************************************************************************)
(* Custom functions: the configuration maps a custom name to the builtin   *)
(* whose semantics it has; the expressions held directly by the command    *)
(* about to execute are renamed (bodies are renamed when they are reached).*)
(***************************************************************************)
RECURSIVE Ren(_, _)
Ren(e, f) ==
  CASE e.k = "fn" ->
         [e EXCEPT !.name = IF e.name \in DOMAIN f THEN f[e.name] ELSE e.name,
                   !.args = [i \in 1..Len(e.args) |-> Ren(e.args[i], f)]]
    [] e.k = "list" -> [e EXCEPT !.items = [i \in 1..Len(e.items) |-> Ren(e.items[i], f)]]
    [] e.k = "map" ->
         [e EXCEPT !.items = [i \in 1..Len(e.items) |->
                                 [e.items[i] EXCEPT !.val = Ren(e.items[i].val, f)]]]
    [] e.k = "var" ->
         [e EXCEPT !.acc = [i \in 1..Len(e.acc) |->
                               IF e.acc[i].k = "expr" THEN [e.acc[i] EXCEPT !.e = Ren(e.acc[i].e, f)]
                               ELSE e.acc[i]]]
    [] e.k \in {"neg", "not"} -> [e EXCEPT !.a = Ren(e.a, f)]
    [] e.k = "tern" -> [e EXCEPT !.c = Ren(e.c, f), !.a = Ren(e.a, f), !.b = Ren(e.b, f)]
    [] e.k \in BinOps -> [e EXCEPT !.a = Ren(e.a, f), !.b = Ren(e.b, f)]
    [] OTHER -> e

RenHead(h, f) ==
  CASE h.k \in {"print", "foreach", "letv", "pv", "plural"} -> [h EXCEPT !.e = Ren(h.e, f)]
    [] h.k = "css" -> IF h.has THEN [h EXCEPT !.e = Ren(h.e, f)] ELSE h
    [] h.k = "if" -> [h EXCEPT !.brs = [i \in 1..Len(h.brs) |-> [h.brs[i] EXCEPT !.c = Ren(h.brs[i].c, f)]]]
    [] h.k = "switch" ->
         [h EXCEPT !.e = Ren(h.e, f),
                   !.cases = [i \in 1..Len(h.cases) |->
                                 [h.cases[i] EXCEPT !.vals = [j \in 1..Len(h.cases[i].vals) |->
                                                                 Ren(h.cases[i].vals[j], f)]]]]
    [] h.k = "call" -> IF h.data = "expr" THEN [h EXCEPT !.de = Ren(h.de, f)] ELSE h
    [] OTHER -> h

(***************************************************************************)
(* Directives: SoyExec's three plus the installed custom ones.  The custom *)
(* directive "exclaim" appends "!" and does not cancel autoescaping.       *)
(***************************************************************************)
\* custom directives append a suffix: the one the configuration gives for the
\* name (cfg.sfx), "!" for exclaim by default
ApplyDir(name, text, cfg) ==
  CASE name = "escapeHtml" -> X(NoShared)!EscapeHtml(text)     \* constant-level operator of SoyExec
    [] "sfx" \in DOMAIN cfg /\ name \in DOMAIN cfg.sfx -> text \o cfg.sfx[name]
    [] name = "exclaim" -> text \o "!"
    [] OTHER -> text

RECURSIVE ApplyDirsC(_, _, _, _)
ApplyDirsC(text, dirs, i, cfg) ==
  IF i > Len(dirs) THEN text ELSE ApplyDirsC(ApplyDir(dirs[i].name, text, cfg), dirs, i + 1, cfg)

ObligDirs(cfg) == [i \in 1..Len(cfg.oblig) |-> [name |-> cfg.oblig[i], args |-> <<>>]]

(***************************************************************************)
(* Effects (the primed halves of SoyExec's actions) on a state record.     *)
(***************************************************************************)
EmitF(s, t, c) ==
  IF Len(s.bufs) > 0 THEN [s EXCEPT !.bufs[Len(s.bufs)] = @ \o t, !.ctl = c]
  ELSE IF t = "" /\ "empty_write_counts" \notin Dev THEN [s EXCEPT !.ctl = c]
  ELSE LET wf == X(s)!WriteFails(t)
           stop == wf /\ "write_error_dropped" \notin Dev IN
       [s EXCEPT !.out = @ \o X(s)!Accepted(t),
                 !.wr = [calls |-> s.wr.calls + 1, failed |-> s.wr.failed \/ wf],
                 !.status = IF stop THEN "err" ELSE @,
                 !.ctl = IF stop THEN <<>> ELSE c]

StopF(s, st) == [s EXCEPT !.status = st, !.ctl = <<>>]
FailF(s) == StopF(s, "err")
NoClaimF(s) == StopF(s, "unspec")
BadF(s, v) == IF v.t = "err" THEN FailF(s) ELSE NoClaimF(s)
BadSt(v) == IF v.t = "err" THEN "err" ELSE "unspec"

TopF(s) == s.act[Len(s.act)]
SetTopF(s, a) == [s EXCEPT !.act[Len(s.act)] = a]
NoteUnbound(s, e) == [s EXCEPT !.unbound = @ \cup X(s)!Unbound(e)]

\* {let}: a fresh binding in the innermost frame; the deviation writes the
\* template's data map instead
BindF(s, a, name, v) ==
  IF "render_mutates_data" \in Dev THEN [a EXCEPT !.tdata = (name :> v) @@ @]
  ELSE X(s)!Bind(a, name, v)

\* Directives beyond SoyExec's three (truncate, changeNewlineToBr,
\* insertWordBreaks, escapeUri, ...) are interpreted by SoyDirectives when the
\* program carries a configuration (bundle mode; without one StepF is exactly
\* SoyExec, which makes no claim there): the node's own directives must all be
\* builtins with a determinate result, the installed custom ones follow them.
PrintF(s, sh, h, rest) ==
  LET s1 == NoteUnbound(s, h.e)
      cfg == CfgOf(s)
      env == X(s)!Env
      v == Eval(h.e, env)
      shared == "id" \in DOMAIN h /\ h.id \in DOMAIN sh.dirs
      base == IF shared THEN sh.dirs[h.id] ELSE h.dirs
      dirs == base \o ObligDirs(cfg)
      sh1 == IF "obligatory_append" \in Dev /\ shared THEN [sh EXCEPT !.dirs[h.id] = dirs] ELSE sh
      known == X(s)!KnownDirs \cup cfg.dirs
      simple == \A i \in 1..Len(dirs) : dirs[i].name \in known
      cancel == \E i \in 1..Len(dirs) : X(s)!Cancels(dirs[i].name)
      chain == [i \in 1..Len(base) |-> [name |-> base[i].name, args |-> EvalSeq(base[i].args, env, 1)]]
      extended == /\ "cfg" \in DOMAIN s.prog
                  /\ \A i \in 1..Len(base) : base[i].name \in Dr!BuiltinNames
                  /\ \A i \in 1..Len(cfg.oblig) : cfg.oblig[i] \in cfg.dirs
                  /\ \A i \in 1..Len(chain) : \A j \in 1..Len(chain[i].args) : ~IsBad(chain[i].args[j])
                  /\ Dr!Determinate(chain, v) IN
  IF IsBad(v) THEN [s |-> BadF(s1, v), sh |-> sh]
  ELSE IF v.t = "undef" THEN [s |-> FailF(s1), sh |-> sh]
  \* from here on the pinned code has already appended to the node
  ELSE IF ~simple THEN
       IF ~Printable(v) \/ ~extended THEN [s |-> NoClaimF(s1), sh |-> sh1]
       ELSE LET t0 == ApplyDirsC(ToText(Dr!ApplyChain(chain, v)), ObligDirs(cfg), 1, cfg)
                t == IF TopF(s).esc /\ ~Dr!Cancels(chain) THEN X(s)!EscapeHtml(t0) ELSE t0 IN
            [s |-> EmitF(s1, t, rest), sh |-> sh1]
  ELSE IF ~Printable(v) THEN [s |-> NoClaimF(s1), sh |-> sh1]
  ELSE LET t0 == ApplyDirsC(ToText(v), dirs, 1, cfg)
           t == IF TopF(s).esc /\ ~cancel THEN X(s)!EscapeHtml(t0) ELSE t0 IN
       [s |-> EmitF(s1, t, rest), sh |-> sh1]

CssF(s, h, rest) ==
  IF ~h.has THEN EmitF(s, h.suffix, rest)
  ELSE LET s1 == NoteUnbound(s, h.e) v == Eval(h.e, X(s)!Env) IN
       IF IsBad(v) THEN BadF(s1, v)
       ELSE IF v.t = "undef" THEN NoClaimF(s1)
       ELSE IF ~Printable(v) THEN NoClaimF(s1)
       ELSE EmitF(s1, ToText(v) \o "-" \o h.suffix, rest)

IfF(s, h, rest) ==
  LET p == X(s)!PickBranch(h.brs, 1) IN
  CASE p.r = "bad" -> StopF(s, BadSt(p.v))
    [] p.r = "take" ->
         [s EXCEPT !.unbound = @ \cup X(s)!CondVars(h.brs, 1, p.i),
                   !.ctl = X(s)!Block("if", h.brs[p.i].body) \o rest]
    [] OTHER ->
         [s EXCEPT !.unbound = @ \cup X(s)!CondVars(h.brs, 1, Len(h.brs)),
                   !.ctl = (IF h.els.has THEN X(s)!Block("if", h.els.body) ELSE <<>>) \o rest]

SwitchF(s, h, rest) ==
  LET s1 == NoteUnbound(s, h.e) v == Eval(h.e, X(s)!Env) IN
  IF IsBad(v) THEN StopF(s1, BadSt(v))
  ELSE LET p == X(s)!PickCase(v, h.cases, 1, 1) IN
       CASE p.r = "bad" -> StopF(s1, BadSt(p.v))
         [] p.r = "take" -> [s1 EXCEPT !.ctl = X(s)!Block("case", h.cases[p.i].body) \o rest]
         [] OTHER -> [s1 EXCEPT !.ctl = (IF h.def.has THEN X(s)!Block("case", h.def.body) ELSE <<>>) \o rest]

ForEnterF(s, h, rest) ==
  LET s1 == NoteUnbound(s, h.e) v == Eval(h.e, X(s)!Env) IN
  IF IsBad(v) THEN StopF(s1, BadSt(v))
  ELSE IF v.t # "list" THEN NoClaimF(s1)           \* ill-typed: no claim (as SoyExec)
  ELSE IF Len(v.v) = 0 THEN
       [s1 EXCEPT !.ctl = (IF h.empty.has THEN X(s)!Block("ifempty", h.empty.body) ELSE <<>>) \o rest]
  ELSE [SetTopF(s1, X(s)!PushFrame(TopF(s))) EXCEPT
          !.ctl = <<[k |-> "iter", var |-> h.var, list |-> v.v, i |-> 1, body |-> h.body]>> \o rest]

\* the loop variables are always fresh bindings of the loop's own frame
ForIterF(s, h, rest) ==
  IF h.i > Len(h.list) THEN [SetTopF(s, X(s)!PopFrame(TopF(s))) EXCEPT !.ctl = rest]
  ELSE LET a1 == X(s)!Bind(TopF(s), h.var, h.list[h.i])
           a2 == X(s)!Bind(a1, h.var \o "__index", I(h.i - 1))
           a3 == X(s)!Bind(a2, h.var \o "__lastIndex", I(Len(h.list) - 1))
           body == IF "loop_body_no_frame" \in Dev THEN h.body
                   ELSE <<[k |-> "push"]>> \o h.body \o <<[k |-> "pop"]>> IN
       [SetTopF(s, a3) EXCEPT !.ctl = body \o <<[h EXCEPT !.i = @ + 1]>> \o rest]

LetValueF(s, h, rest) ==
  LET s1 == NoteUnbound(s, h.e) v == Eval(h.e, X(s)!Env) IN
  IF IsBad(v) THEN StopF(s1, BadSt(v))
  ELSE [SetTopF(s1, BindF(s, TopF(s), h.name, v)) EXCEPT !.ctl = rest]

\* the variable whose map a data expression hands on unchanged: $m itself, or
\* augmentMap($m, e) with e an empty map ("" if there is none)
SharedSrc(de, env) ==
  IF de.k = "var" /\ Len(de.acc) = 0 THEN de.name
  ELSE IF de.k = "fn" /\ de.name = "augmentMap" /\ Len(de.args) = 2
          /\ de.args[1].k = "var" /\ Len(de.args[1].acc) = 0
       THEN LET b == Eval(de.args[2], env) IN
            IF ~IsBad(b) /\ b.t = "map" /\ DOMAIN b.v = {} THEN de.args[1].name ELSE ""
  ELSE ""

CallBeginF(s, h, rest) ==
  LET base == CASE h.data = "all" ->
                     (IF "alldata_includes_locals" \in Dev THEN M(X(s)!Visible) ELSE M(TopF(s).tdata))
                [] h.data = "expr" -> Eval(h.de, X(s)!Env)
                [] OTHER -> M(X(s)!EmptyF)
      s1 == IF h.data = "expr" THEN NoteUnbound(s, h.de) ELSE s
      src == IF h.data = "expr" THEN SharedSrc(h.de, X(s)!Env) ELSE ""
      pe == IF "render_mutates_data" \in Dev
            THEN [tmpl |-> h.tmpl, data |-> base.v, all |-> h.data = "all"]
            ELSE IF "callee_params_into_shared_map" \in Dev /\ src # ""
            THEN [tmpl |-> h.tmpl, data |-> base.v, src |-> src]
            ELSE [tmpl |-> h.tmpl, data |-> base.v] IN
  IF h.tmpl \notin DOMAIN s.prog.bundle THEN NoClaimF(s1)
  ELSE IF IsBad(base) THEN StopF(s1, BadSt(base))
  ELSE IF base.t \in {"null", "undef"} THEN FailF(s1)     \* no record passed: an error (as SoyExec)
  ELSE IF base.t # "map" THEN NoClaimF(s1)
  ELSE [s1 EXCEPT !.pend = Append(@, pe), !.ctl = h.params \o <<[k |-> "docall"]>> \o rest]

\* a param is written into the callee's data; the deviation lets the write
\* of a data="all" call land in the caller's (shared) data map as well
ParamWrite(s, key, v) ==
  LET s1 == [s EXCEPT !.pend[Len(s.pend)].data = (key :> v) @@ @] IN
  IF "render_mutates_data" \in Dev /\ "all" \in DOMAIN s.pend[Len(s.pend)] /\ s.pend[Len(s.pend)].all
  THEN SetTopF(s1, [TopF(s) EXCEPT !.tdata = (key :> v) @@ @])
  ELSE s1

\* the shared-data cell after a param write (changed only by the deviation)
ShParamWrite(s, sh, key, v) ==
  LET p == s.pend[Len(s.pend)] IN
  IF "callee_params_into_shared_map" \in Dev /\ "src" \in DOMAIN p /\ "shared" \in DOMAIN sh
     /\ p.src \in DOMAIN sh.shared
  THEN [sh EXCEPT !.shared[p.src] = (key :> v) @@ @]
  ELSE sh

ParamValueF(s, h, rest) ==
  LET s1 == NoteUnbound(s, h.e) v == Eval(h.e, X(s)!Env) IN
  IF IsBad(v) THEN StopF(s1, BadSt(v))
  ELSE [ParamWrite(s1, h.key, v) EXCEPT !.ctl = rest]

\* template lookup: the tree's body (reference) or the lazily filled cache
CallEnterF(s, sh, rest) ==
  LET p == s.pend[Len(s.pend)]
      t == s.prog.bundle[p.tmpl]
      memo == "memo_cache" \in Dev
      hit == memo /\ p.tmpl \in DOMAIN sh.memo
      body == IF hit THEN sh.memo[p.tmpl] ELSE t.body
      sh1 == IF memo /\ ~hit THEN [sh EXCEPT !.memo = (p.tmpl :> <<>>) @@ @] ELSE sh   \* slot reserved, not yet filled
      s1 == [s EXCEPT !.act = Append(@, [tmpl |-> p.tmpl, tdata |-> p.data, scopes |-> <<X(s)!EmptyF>>,
                                        esc |-> IF "callee_inherits_esc" \in Dev THEN TopF(s).esc
                                                ELSE X(s)!EffEsc(t)]),
                       !.pend = SubSeq(@, 1, Len(@) - 1),
                       !.ctl = body \o <<[k |-> "ret"]>> \o rest] IN
  [s |-> IF memo /\ ~hit THEN [fill |-> p.tmpl] @@ s1 ELSE s1, sh |-> sh1]

PluralF(s, h, rest) ==
  LET s1 == NoteUnbound(s, h.e) v == Eval(h.e, X(s)!Env) IN
  IF IsBad(v) THEN StopF(s1, BadSt(v))
  ELSE IF v.t # "int" THEN NoClaimF(s1)
  ELSE [s1 EXCEPT !.ctl = (IF \E i \in 1..Len(h.cases) : h.cases[i].n = v.v
                           THEN h.cases[CHOOSE i \in 1..Len(h.cases) :
                                   h.cases[i].n = v.v /\ \A j \in 1..(i - 1) : h.cases[j].n # v.v].body
                           ELSE h.def) \o rest]

(***************************************************************************)
(* One step.  A pending cache fill of this render completes first.         *)
(***************************************************************************)
DropFill(s) == [f \in (DOMAIN s) \ {"fill"} |-> s[f]]

StepCore(s, sh) ==
  LET h == s.ctl[1]
      rest == Tail(s.ctl)
      keep(r) == [s |-> r, sh |-> sh] IN
  CASE h.k = "push" -> keep([SetTopF(s, X(s)!PushFrame(TopF(s))) EXCEPT !.ctl = rest])
    [] h.k = "pop" -> keep([SetTopF(s, X(s)!PopFrame(TopF(s))) EXCEPT !.ctl = rest])
    [] h.k = "text" -> keep(EmitF(s, h.s, rest))
    [] h.k = "debugger" -> keep([s EXCEPT !.ctl = rest])
    [] h.k = "print" -> PrintF(s, sh, h, rest)
    [] h.k = "css" -> keep(CssF(s, h, rest))
    [] h.k = "if" -> keep(IfF(s, h, rest))
    [] h.k = "switch" -> keep(SwitchF(s, h, rest))
    [] h.k = "foreach" -> keep(ForEnterF(s, h, rest))
    [] h.k = "iter" -> keep(ForIterF(s, h, rest))
    [] h.k = "letv" -> keep(LetValueF(s, h, rest))
    [] h.k = "letc" ->
         keep([s EXCEPT !.bufs = Append(@, ""),
                        !.ctl = X(s)!Block("letc", h.body) \o <<[k |-> "endlet", name |-> h.name]>> \o rest])
    [] h.k = "endlet" ->
         keep([SetTopF(s, BindF(s, TopF(s), h.name, S(s.bufs[Len(s.bufs)]))) EXCEPT
                 !.bufs = SubSeq(@, 1, Len(@) - 1), !.ctl = rest])
    [] h.k = "log" ->
         keep([s EXCEPT !.bufs = Append(@, ""),
                        !.ctl = X(s)!Block("log", h.body) \o <<[k |-> "endlog"]>> \o rest])
    [] h.k = "endlog" -> keep([s EXCEPT !.bufs = SubSeq(@, 1, Len(@) - 1), !.ctl = rest])
    [] h.k = "call" -> keep(CallBeginF(s, h, rest))
    [] h.k = "pv" ->
         LET v == Eval(h.e, X(s)!Env) IN
         [s |-> ParamValueF(s, h, rest), sh |-> IF IsBad(v) THEN sh ELSE ShParamWrite(s, sh, h.key, v)]
    [] h.k = "pc" ->
         keep([s EXCEPT !.bufs = Append(@, ""),
                        !.ctl = X(s)!Block("pc", h.body) \o <<[k |-> "endparam", key |-> h.key]>> \o rest])
    [] h.k = "endparam" ->
         [s |-> [ParamWrite(s, h.key, S(s.bufs[Len(s.bufs)])) EXCEPT
                    !.bufs = SubSeq(@, 1, Len(@) - 1), !.ctl = rest],
          sh |-> ShParamWrite(s, sh, h.key, S(s.bufs[Len(s.bufs)]))]
    [] h.k = "docall" -> CallEnterF(s, sh, rest)
    [] h.k = "ret" -> keep([s EXCEPT !.act = SubSeq(@, 1, Len(@) - 1), !.ctl = rest])
    [] h.k = "msg" -> keep([s EXCEPT !.ctl = h.body \o rest])
    [] h.k = "plural" -> keep(PluralF(s, h, rest))
    [] OTHER -> keep(NoClaimF(s))

StepF(s0, sh0) ==
  LET filling == "fill" \in DOMAIN s0
      s1 == IF filling THEN DropFill(s0) ELSE s0
      sh == IF filling THEN [sh0 EXCEPT !.memo[s0.fill] = s0.prog.bundle[s0.fill].body] ELSE sh0
      \* the entry template's data refers to the shared-data cell: what it sees
      \* under a shared name is what the cell holds now
      s == IF "shared" \in DOMAIN sh /\ Len(s1.act) > 0
           THEN [s1 EXCEPT !.act[1].tdata =
                   [k \in DOMAIN @ |-> IF k \in DOMAIN sh.shared /\ @[k].t = "map" THEN M(sh.shared[k]) ELSE @[k]]]
           ELSE s1 IN
  IF s.status # "run" THEN [s |-> s, sh |-> sh]
  ELSE IF Len(s.ctl) = 0 THEN [s |-> [s EXCEPT !.status = "ok"], sh |-> sh]
  ELSE LET f == CfgOf(s).fns IN
       IF DOMAIN f = {} THEN StepCore(s, sh)
       ELSE StepCore([s EXCEPT !.ctl[1] = RenHead(@, f)], sh)

\* the step on a plain SoyExec state (no shared tree): what SoyBundleRefine
\* compares with SoyExec's Next
StepPlain(s) == StepF(s, NoShared).s

(***************************************************************************)
(* Running to the end.  SANY does not accept a RECURSIVE operator whose    *)
(* parameter reaches the parametrised instance X (it counts as primed), so *)
(* iteration is a recursive FUNCTION over a fuel counter, in chunks of     *)
(* growing size so that short runs stay cheap.  A run that is still going  *)
(* after 64 + 512 + 8192 steps is left unfinished (status "run"); callers  *)
(* treat that as "no claim".                                               *)
(***************************************************************************)
Settled(r) == r.s.status # "run" /\ "fill" \notin DOMAIN r.s

RunN(s0, sh0, N) ==
  LET f[n \in 0..N] ==
        IF n = 0 THEN [s |-> s0, sh |-> sh0]
        ELSE LET p == f[n - 1] IN IF Settled(p) THEN p ELSE StepF(p.s, p.sh)
  IN f[N]

RunToEnd(s, sh) ==
  LET r1 == RunN(s, sh, 64)
      r2 == IF Settled(r1) THEN r1 ELSE RunN(r1.s, r1.sh, 512)
  IN IF Settled(r2) THEN r2 ELSE RunN(r2.s, r2.sh, 8192)

InitOf(p) == X(NoShared)!InitRec(p)      \* InitRec is constant-level

(***************************************************************************)
(* Node steps.  The real interpreter reports every node it visits (hook    *)
(* VerifAt); a command node is one step of a render as far as another      *)
(* goroutine can observe under a forced schedule.  The markers of the      *)
(* small-step machine (frames, loop iteration, param assembly, call entry  *)
(* and return, end of a content block) have no node of their own: they are *)
(* glued to the node step that precedes them.                              *)
(***************************************************************************)
NodeKinds == {"text", "print", "css", "debugger", "if", "switch", "foreach", "letv", "letc",
              "log", "call", "msg"}

AtNode(s) == s.status = "run" /\ Len(s.ctl) > 0 /\ s.ctl[1].k \in NodeKinds

Glued(r) == r.s.status # "run" \/ AtNode(r.s)

GlueN(s0, sh0, N) ==
  LET f[n \in 0..N] ==
        IF n = 0 THEN [s |-> s0, sh |-> sh0]
        ELSE LET p == f[n - 1] IN IF Glued(p) THEN p ELSE StepF(p.s, p.sh)
  IN f[N]

Glue(s, sh) ==
  LET r1 == GlueN(s, sh, 8) IN IF Glued(r1) THEN r1 ELSE GlueN(r1.s, r1.sh, 256)

\* one observable step of a running render: its head command (or nothing, if
\* the body is empty) and the markers that follow
NodeStep(s, sh) == LET r == StepF(s, sh) IN Glue(r.s, r.sh)

\* the state in which a render waits at its first node
StartAt(p, sh) == Glue(InitOf(p), sh)

\* number of node steps of a render run alone (at most N)
CountNodeSteps(s0, sh0, N) ==
  LET f[n \in 0..N] ==
        IF n = 0 THEN [s |-> s0, sh |-> sh0]
        ELSE LET p == f[n - 1] IN IF p.s.status # "run" THEN p ELSE NodeStep(p.s, p.sh)
  IN Cardinality({n \in 0..(N - 1) : f[n].s.status = "run"})

=============================================================================
