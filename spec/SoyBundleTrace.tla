---------------------------- MODULE SoyBundleTrace ----------------------------
(***************************************************************************)
(* Trace validation for C08/C09 under a configuration of the extension     *)
(* registries.  Every line of the NDJSON file is one render of a generated *)
(* bundle by the real code, observed on a FRESH compiled bundle:           *)
(*    [prog |-> program (with prog.cfg), obs |-> [err, out]]               *)
(* The reference interpreter, run as a function (SoyBundleRun!RunToEnd,    *)
(* which SoyBundleRefine ties to SoyExec), must give that outcome.         *)
(* Rejected lines are printed as <<"BAD", l, status, json(out)>>; programs *)
(* that leave the model's domain (Unspec) or exhaust the fuel are skipped. *)
(* One TLC state per line.                                                 *)
(***************************************************************************)
EXTENDS SoyBundleRun, Json

Trace == ndJsonDeserialize("bundle_trace.ndjson")

VARIABLES l, nbad, nskip

WithCfg(p) ==
  IF "cfg" \in DOMAIN p
  THEN [p EXCEPT !.cfg = [oblig |-> p.cfg.oblig,
                          dirs |-> {p.cfg.oblig[i] : i \in 1..Len(p.cfg.oblig)},
                          fns |-> p.cfg.fns]]
  ELSE p

Result(i) == RunToEnd(InitOf(WithCfg(Trace[i].prog)), NoShared).s

Agree(r, o) ==
  CASE r.status \in {"unspec", "run"} -> TRUE
    [] r.status = "err" -> o.err
    [] OTHER -> ~o.err /\ o.out = r.out

TInit == l = 1 /\ nbad = 0 /\ nskip = 0

TNext == /\ l <= Len(Trace)
         /\ LET r == Result(l) IN
            /\ l' = l + 1
            /\ nskip' = nskip + (IF r.status \in {"unspec", "run"} THEN 1 ELSE 0)
            /\ IF Agree(r, Trace[l].obs) THEN nbad' = nbad
               ELSE nbad' = nbad + 1 /\ PrintT(<<"BAD", l, r.status, ToJson([out |-> r.out])>>)

Report == l = Len(Trace) + 1 => PrintT(<<"DONE", l - 1, nbad, nskip>>)
=============================================================================
