------------------------------- MODULE SoyCheck -------------------------------
(***************************************************************************)
(* The data-reference rules of the compiler, written declaratively over    *)
(* the command trees of SoyExec with lexical block scoping:                *)
(*   R1  every variable reference is bound by a declared param, an         *)
(*       enclosing {let} (from its declaration to the end of its block),   *)
(*       an enclosing loop (inside the loop body only) or is $ij;          *)
(*   R2  every declared param is used (referenced where no let/loop of     *)
(*       that name is in scope, or forwarded by data="all" to a callee     *)
(*       that declares it);                                                *)
(*   R3  every {let} is used (some reference resolves to it);              *)
(*   R4  no {let} is named ij;                                             *)
(*   R5  every call names an existing template, passes only params the     *)
(*       callee declares and, unless it passes data="<expr>", all the      *)
(*       callee's required params (explicitly, or through data="all"       *)
(*       from a param of the caller with the same name).                   *)
(* Verdict(b) is "valid", "invalid" or "unspec".  "unspec" marks shapes    *)
(* on which the readings of the rules differ (see NoClaim below).          *)
(***************************************************************************)
EXTENDS SoyExec

\* result of analysing a command sequence
\*   unb   : names referenced while nothing binds them
\*   used  : binder ids (paths) of the lets that some reference resolves to
\*   lets  : binder ids of all lets declared
\*   pused : params referenced as params or forwarded
\*   bad   : some other rule is violated (R4, R5)
\*   amb   : an ambiguous shape was met
Res0 == [unb |-> {}, used |-> {}, lets |-> {}, pused |-> {}, bad |-> FALSE, amb |-> FALSE]

Join(r, s) == [unb |-> r.unb \cup s.unb, used |-> r.used \cup s.used, lets |-> r.lets \cup s.lets,
               pused |-> r.pused \cup s.pused, bad |-> r.bad \/ s.bad, amb |-> r.amb \/ s.amb]

\* references of an expression resolved in scope sc (name -> binder id) of
\* a template with param names ps
RefsOf(e, sc, ps) ==
  LET fv == FreeVars(e) IN
  [Res0 EXCEPT !.unb = {n \in fv : n \notin DOMAIN sc /\ n \notin ps},
               !.used = {sc[n] : n \in fv \cap DOMAIN sc},
               !.pused = {n \in fv : n \notin DOMAIN sc /\ n \in ps}]

RECURSIVE RefsSeq(_, _, _, _)
RefsSeq(es, i, sc, ps) ==
  IF i > Len(es) THEN Res0 ELSE Join(RefsOf(es[i], sc, ps), RefsSeq(es, i + 1, sc, ps))

ParamNames(t) == {t.params[i].name : i \in 1..Len(t.params)}
Required(t) == {t.params[i].name : i \in {j \in 1..Len(t.params) : ~t.params[j].opt}}

CallRes(c, sc, ps, bundle) ==
  IF c.tmpl \notin DOMAIN bundle THEN [Res0 EXCEPT !.bad = TRUE]
  ELSE
  LET callee == bundle[c.tmpl]
      explicit == {c.params[i].key : i \in 1..Len(c.params)}
      viaAll == IF c.data = "all" THEN ps \cap ParamNames(callee) ELSE {}
      passed == explicit \cup viaAll IN
  [Res0 EXCEPT !.bad = ~(explicit \subseteq ParamNames(callee))
                        \/ (c.data # "expr" /\ ~(Required(callee) \subseteq passed)),
               !.pused = viaAll]

\* join of a finite set of results
UNION2(RS) == [unb |-> UNION {r.unb : r \in RS}, used |-> UNION {r.used : r \in RS},
              lets |-> UNION {r.lets : r \in RS}, pused |-> UNION {r.pused : r \in RS},
              bad |-> \E r \in RS : r.bad, amb |-> \E r \in RS : r.amb]

RECURSIVE Walk(_, _, _, _, _, _)
\* cmds from index i, scope sc (name -> binder id), path (binder-id prefix)
Walk(cmds, i, sc, ps, bundle, path) ==
  IF i > Len(cmds) THEN Res0
  ELSE
  LET c == cmds[i]
      id == Append(path, i)
      blk(body, sc2, tag) == Walk(body, 1, sc2, ps, bundle, Append(id, tag))
      rest(sc2) == Walk(cmds, i + 1, sc2, ps, bundle, path)
  IN
  CASE c.k = "text" -> rest(sc)
    [] c.k = "debugger" -> rest(sc)
    [] c.k = "print" ->
         Join(Join(RefsOf(c.e, sc, ps),
                   UNION2({RefsSeq(c.dirs[d].args, 1, sc, ps) : d \in 1..Len(c.dirs)})), rest(sc))
    [] c.k = "css" -> Join(IF c.has THEN RefsOf(c.e, sc, ps) ELSE Res0, rest(sc))
    [] c.k = "letv" ->
         Join(Join(RefsOf(c.e, sc, ps), [Res0 EXCEPT !.lets = {id}, !.bad = (c.name = "ij")]),
              rest((c.name :> id) @@ sc))
    [] c.k = "letc" ->
         Join(Join(blk(c.body, sc, 1), [Res0 EXCEPT !.lets = {id}, !.bad = (c.name = "ij")]),
              rest((c.name :> id) @@ sc))
    [] c.k = "log" -> Join(blk(c.body, sc, 1), rest(sc))
    [] c.k = "msg" -> Join(blk(c.body, sc, 1), rest(sc))
    [] c.k = "plural" ->
         Join(Join(RefsOf(c.e, sc, ps),
                   Join(UNION2({blk(c.cases[j].body, sc, j) : j \in 1..Len(c.cases)}), blk(c.def, sc, 0))), rest(sc))
    [] c.k = "if" ->
         Join(Join(UNION2({Join(RefsOf(c.brs[j].c, sc, ps), blk(c.brs[j].body, sc, j)) : j \in 1..Len(c.brs)}),
                   IF c.els.has THEN blk(c.els.body, sc, 0) ELSE Res0), rest(sc))
    [] c.k = "switch" ->
         Join(Join(RefsOf(c.e, sc, ps),
                   Join(UNION2({Join(RefsSeq(c.cases[j].vals, 1, sc, ps), blk(c.cases[j].body, sc, j)) : j \in 1..Len(c.cases)}),
                        IF c.def.has THEN blk(c.def.body, sc, 0) ELSE Res0)), rest(sc))
    [] c.k = "foreach" ->
         \* the collection and the ifempty body are outside the loop; the loop
         \* variable (binder id <<>>: loops need not be used) scopes over the body
         \* a loop variable that shadows a param or a let: how uses are credited
         \* is not settled by the rules as stated -> no claim
         Join(Join(Join(RefsOf(c.e, sc, ps), [Res0 EXCEPT !.amb = (c.var \in DOMAIN sc \/ c.var \in ps)]),
                   Join(blk(c.body, (c.var :> <<>>) @@ sc, 1),
                        IF c.empty.has THEN blk(c.empty.body, sc, 0) ELSE Res0)), rest(sc))
    [] c.k = "call" ->
         Join(Join(Join(CallRes(c, sc, ps, bundle),
                        IF c.data = "expr" THEN RefsOf(c.de, sc, ps) ELSE Res0),
                   UNION2({IF c.params[j].k = "pv" THEN RefsOf(c.params[j].e, sc, ps)
                           ELSE blk(c.params[j].body, sc, j) : j \in 1..Len(c.params)})), rest(sc))
    [] OTHER -> [Res0 EXCEPT !.amb = TRUE]

TemplateRes(t, bundle) == Walk(t.body, 1, EmptyF, ParamNames(t), bundle, <<>>)

\* shapes on which no claim is made: a loop variable named like a visible
\* let/param is fine; but a reference to the loop variable's helper names or
\* a use of index()/isFirst()/isLast() on a non-loop variable is Unspec.
TemplateVerdict(t, bundle) ==
  LET r == TemplateRes(t, bundle) IN
  IF r.amb THEN "unspec"
  ELSE IF "both" \in DOMAIN t /\ t.both THEN "invalid"      \* soydoc and header params together
  ELSE IF r.unb # {} \/ r.bad \/ r.lets # (r.used \ {<<>>}) \/ ~(ParamNames(t) \subseteq r.pused) THEN "invalid"
  ELSE "valid"

Verdict(bundle) ==
  IF \E n \in DOMAIN bundle : TemplateVerdict(bundle[n], bundle) = "unspec" THEN "unspec"
  ELSE IF \E n \in DOMAIN bundle : TemplateVerdict(bundle[n], bundle) = "invalid" THEN "invalid"
  ELSE "valid"

AllDeclared(bundle) == UNION {ParamNames(bundle[n]) : n \in DOMAIN bundle}

\* all declared params of the entry template are supplied
AllParamsSupplied(p) == ParamNames(p.bundle[p.entry]) \subseteq DOMAIN p.data

=============================================================================
