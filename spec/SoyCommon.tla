------------------------------ MODULE SoyCommon ------------------------------
(***************************************************************************)
(* The COMMON SUBSET of Soy on which the Go renderer (soyhtml) and the     *)
(* generated JavaScript (soyjs + soyutils.js) are both defined and must    *)
(* produce the same text (property C04).                                   *)
(*                                                                         *)
(* The reference semantics is the one of SoyExpr / SoyExec: no second      *)
(* semantics is written for JavaScript.  What this module adds is the      *)
(* predicate that says where the two back ends are REQUIRED to agree:      *)
(*                                                                         *)
(*   ES(e, env, bc)   "" if evaluating e in env stays inside the subset,   *)
(*                    else the reason it leaves it.  bc = the value is     *)
(*                    only tested for truthiness by its consumer.          *)
(*   PrintWhy / TextUseWhy / ...  the same for the places where a value    *)
(*                    becomes text (print, css, concatenation).            *)
(*   StaticWhy(prog)  restrictions that do not depend on the run           *)
(*                    (alphabet of all text, directive names).             *)
(*                                                                         *)
(* Outside the subset (sources: lines marked DIFFERENCE in                 *)
(* soyjs/exec_test.go, the Soy documentation on JS code generation, and    *)
(* the statement of C04):                                                  *)
(*   - anything the reference semantics does not give a text for (Err or   *)
(*     Unspec): ill-typed operands, undefined printed, division results    *)
(*     that are not dyadic, randomInt, keys() of more than one key, ...    *)
(*   - `and`/`or` whose RESULT is used as a value and is not a boolean     *)
(*     (JS returns the operand, the server prints true/false)              *)
(*   - == / != between values of different kinds (JS coerces) or on        *)
(*     collections                                                         *)
(*   - printing / concatenating lists and maps (JS: "a,5", [object ..])    *)
(*   - an index past the end of a list; map keys that are not strings;     *)
(*     keys that name members of Object.prototype                          *)
(*   - escapeUri, escapeJsString, json (encodings documented to differ),   *)
(*     the unimplemented bidi directives; truncate on non-ASCII text       *)
(*   - round() of a negative half (Go rounds half away from zero as its    *)
(*     tests pin, Math.round rounds half up)                               *)
(*   - floats whose decimal text has more than 15 significant digits       *)
(*   - range() anywhere but as the list of a foreach (soyjs only           *)
(*     translates it there)                                                *)
(*   - text outside a fixed alphabet (printable ASCII, TAB, LF, CR and a   *)
(*     few BMP letters): no C0 controls, no surrogates                     *)
(*   - integers: the model's own are 32-bit; beyond that only the digit     *)
(*     strings of SoyValues.Big (|n| <= 2^53, exactly representable in a    *)
(*     JavaScript number), which the model only prints, negates, compares   *)
(*     for equality and concatenates - arithmetic on them is Unspec         *)
(*                                                                         *)
(* Comparison of outputs is modulo the SPELLING of character references    *)
(* (CanonRefs of SoyEscape: &quot; == &#34;, &#39; == &apos;).             *)
(***************************************************************************)
EXTENDS SoyExpr

SD == INSTANCE SoyDirectives WITH DirDev <- {}

C4CanonRefs(t) == SD!CanonRefs(t)

\* equality of two outputs up to the spelling of character references
C4SameText(a, b) == a = b \/ C4CanonRefs(a) = C4CanonRefs(b)

C4First(a, b) == IF a # "" THEN a ELSE b

(***************************************************************************)
(* Alphabet.                                                               *)
(***************************************************************************)
\* Representatives of every UTF-8 lead-byte class, printable and not (in the
\* sense of Go's unicode.IsPrint, which decides how text/template.JSEscape
\* writes a character into the generated JavaScript).  None is white space or
\* a line terminator (those belong to C15 / C14).  The literals below contain
\* the characters themselves; by code point:
\*   C4Bmp    U+00AD (C2, Cf)  U+0800 (E0, letter)  U+08E2 (E0, Cf)  U+200B (E2, Cf)
\*            U+D000 (ED, letter)  U+D7FF (ED, unassigned)  U+FB01 (EF, letter)
\*            U+FEFF (EF, Cf)  U+FFFD (EF, symbol)
\*   C4Astral (two UTF-16 units each in a TLC string)
\*            U+1F600 (F0, symbol)  U+1D173 (F0, Cf)  U+50000 (F1, unassigned)
\*            U+E0001 (F3, Cf)  U+E0100 (F3, mark)  U+F0001 (F3, private use)
\*            U+100000 (F4, private use)  U+10FFFD (F4, private use)
C4Bmp == {"­", "ࠀ", "࣢", "​", "퀀", "퟿", "ﬁ", "﻿", "�"}
C4Astral == {"😀", "𝅳", "񐀀", "󠀁", "󠄀", "󰀁", "􀀀", "􏿽"}
C4Chars == AlphaSet \cup {"\t", "\n", "\r", "é", "€", "日", "本", "ü", "λ"} \cup C4Bmp

RECURSIVE C4TextOKFrom(_, _)
C4TextOKFrom(s, i) ==
  \/ i > Len(s)
  \/ SubSeq(s, i, i) \in C4Chars /\ C4TextOKFrom(s, i + 1)
  \/ i < Len(s) /\ SubSeq(s, i, i + 1) \in C4Astral /\ C4TextOKFrom(s, i + 2)
C4TextOK(s) == C4TextOKFrom(s, 1)

\* names every JavaScript object inherits: a map key of that name is found
\* on the prototype by the generated code
JsProtoNames == {"constructor", "toString", "toLocaleString", "valueOf", "hasOwnProperty",
                 "isPrototypeOf", "propertyIsEnumerable", "__proto__", "__defineGetter__",
                 "__defineSetter__", "__lookupGetter__", "__lookupSetter__"}

(***************************************************************************)
(* Floats whose text both back ends (and the model) print identically:     *)
(* the exact decimal expansion has at most 15 significant digits, so it is *)
(* also the shortest text that reads back to the same double.              *)
(***************************************************************************)
C4DigitCount(s) == Cardinality({i \in 1..Len(s) : SubSeq(s, i, i) \notin {"-", "."}})
C4FloatTextOK(v) == v.sh <= 10 /\ Abs(v.num) < 1073741824 /\ C4DigitCount(FloatText(v.num, v.sh)) <= 15

\* a value whose text is the same on both sides ("" or the reason)
C4TextOfWhy(v) ==
  CASE v.t \in {"list", "map"} -> "collection-as-text"
    [] v.t = "undef" -> "bad"
    [] v.t = "float" -> IF C4FloatTextOK(v) THEN "" ELSE "float-text"
    [] OTHER -> ""

\* Text produced by an earlier escaping step (a content {let} or {param})
\* spells the double quote as &#34; in Go and as &quot; in JS.  The two values
\* are the same text node but different strings, so any use that looks at the
\* characters (escaping it again, truncating, comparing) is outside the subset;
\* only writing it out verbatim is inside.
HasQuoteRef(s) == SD!HasSub(s, "&#34;") \/ SD!HasSub(s, "&quot;")

(***************************************************************************)
(* Expressions.                                                            *)
(***************************************************************************)
RECURSIVE ES(_, _, _), ESSeq(_, _, _), ESAcc(_, _, _, _)

ESSeq(es, env, i) ==
  IF i > Len(es) THEN "" ELSE C4First(ES(es[i], env, FALSE), ESSeq(es, env, i + 1))

ESAcc(ref, acc, i, env) ==
  IF i > Len(acc) THEN ""
  ELSE
  LET a  == acc[i]
      r0 == IF a.k = "expr" THEN ES(a.e, env, FALSE) ELSE ""
      kv == IF a.k = "expr" THEN Eval(a.e, env) ELSE Null
  IN
  IF r0 # "" THEN r0
  ELSE IF IsBad(kv) \/ kv.t = "undef" THEN "bad"
  ELSE IF ref.t \in {"undef", "null"} THEN (IF a.ns THEN "" ELSE "bad")
  ELSE IF ref.t = "list" THEN
       LET idx == IF a.k = "idx" THEN a.idx ELSE IF a.k = "expr" /\ kv.t = "int" THEN kv.v ELSE -1 IN
       IF idx < 0 THEN "bad"
       ELSE IF idx >= Len(ref.v) THEN "index-out-of-range"
       ELSE ESAcc(ref.v[idx + 1], acc, i + 1, env)
  ELSE IF ref.t = "map" THEN
       LET key == IF a.k = "key" THEN a.key ELSE IF a.k = "expr" /\ kv.t = "str" THEN kv.v ELSE "" IN
       IF key = "" THEN "map-key-kind"
       ELSE IF key \in JsProtoNames THEN "js-proto-key"
       ELSE ESAcc(IF key \in DOMAIN ref.v THEN ref.v[key] ELSE Undef, acc, i + 1, env)
  ELSE "bad"

\* kinds that == may compare in both back ends
C4NumLike(v) == IsNum(v) \/ v.t = "bigint"
C4SameKind(a, b) == \/ C4NumLike(a) /\ C4NumLike(b)
                    \/ a.t = b.t /\ a.t \in {"bool", "str", "null", "undef"}

ES(e, env, bc) ==
  CASE e.k \in {"null", "bool", "int", "bigint", "float", "str", "global"} -> ""
    [] e.k = "list" -> ESSeq(e.items, env, 1)
    [] e.k = "map" -> ESSeq([i \in 1..Len(e.items) |-> e.items[i].val], env, 1)
    [] e.k = "var" ->
         LET base == IF e.name = "ij" THEN (IF env.ij.t = "none" THEN Err ELSE env.ij)
                     ELSE Lookup(env.vars, e.name) IN
         IF IsBad(base) THEN "bad" ELSE ESAcc(base, e.acc, 1, env)
    [] e.k = "fn" ->
         IF e.name \in LoopFns THEN ""
         ELSE IF e.name = "range" THEN "range-outside-foreach"
         ELSE IF e.name = "randomInt" THEN "random"
         ELSE LET r == ESSeq(e.args, env, 1) IN
              IF r # "" THEN r
              ELSE IF e.name = "round" /\ Len(e.args) \in {1, 2} THEN
                   LET x == Eval(e.args[1], env)
                       n == IF Len(e.args) = 2 THEN Eval(e.args[2], env) ELSE I(0) IN
                   IF IsBad(x) \/ IsBad(n) THEN "bad"
                   ELSE IF IsNum(x) /\ n.t = "int" /\ n.v = 0 /\ Num(x) < 0 /\ Sh(x) = 1
                        THEN "round-negative-half" ELSE ""
              ELSE IF e.name = "strContains" /\ Len(e.args) = 2 THEN
                   LET x == Eval(e.args[1], env) y == Eval(e.args[2], env) IN
                   IF IsBad(x) \/ IsBad(y) THEN "bad"
                   ELSE IF x.t = "str" /\ y.t = "str" /\ (HasQuoteRef(x.v) \/ HasQuoteRef(y.v))
                        THEN "quote-reference-reused" ELSE ""
              ELSE ""
    [] e.k = "neg" -> ES(e.a, env, FALSE)
    [] e.k = "not" -> ES(e.a, env, TRUE)
    [] e.k \in {"and", "or"} ->
         LET va == Eval(e.a, env) IN
         IF IsBad(va) THEN "bad"
         ELSE LET aIsResult == IF e.k = "and" THEN ~Truthy(va) ELSE Truthy(va) IN
              IF aIsResult
              THEN C4First(ES(e.a, env, bc),
                           IF bc \/ va.t = "bool" THEN "" ELSE "andor-returns-operand")
              ELSE LET vb == Eval(e.b, env) IN
                   IF IsBad(vb) THEN "bad"
                   ELSE C4First(ES(e.a, env, TRUE),
                        C4First(ES(e.b, env, bc),
                                IF bc \/ vb.t = "bool" THEN "" ELSE "andor-returns-operand"))
    [] e.k = "elvis" ->
         LET va == Eval(e.a, env) IN
         IF IsBad(va) THEN "bad"
         ELSE C4First(ES(e.a, env, FALSE),
                      IF va.t \in {"null", "undef"} THEN ES(e.b, env, bc) ELSE "")
    [] e.k = "tern" ->
         LET vc == Eval(e.c, env) IN
         IF IsBad(vc) THEN "bad"
         ELSE C4First(ES(e.c, env, TRUE),
                      IF Truthy(vc) THEN ES(e.a, env, bc) ELSE ES(e.b, env, bc))
    [] e.k \in {"eq", "ne"} ->
         LET va == Eval(e.a, env) vb == Eval(e.b, env) IN
         IF IsBad(va) \/ IsBad(vb) THEN "bad"
         ELSE C4First(ES(e.a, env, FALSE), C4First(ES(e.b, env, FALSE),
              IF va.t \in {"list", "map"} \/ vb.t \in {"list", "map"} THEN "collection-equality"
              ELSE IF ~C4SameKind(va, vb) THEN "mixed-type-equality"
              ELSE IF va.t = "str" /\ (HasQuoteRef(va.v) \/ HasQuoteRef(vb.v)) THEN "quote-reference-reused"
              ELSE ""))
    [] e.k = "add" ->
         LET va == Eval(e.a, env) vb == Eval(e.b, env) IN
         IF IsBad(va) \/ IsBad(vb) THEN "bad"
         ELSE C4First(ES(e.a, env, FALSE), C4First(ES(e.b, env, FALSE),
              IF va.t = "str" \/ vb.t = "str"
              THEN C4First(C4TextOfWhy(va), C4TextOfWhy(vb)) ELSE ""))
    [] e.k \in {"mul", "div", "mod", "sub", "lt", "gt", "le", "ge"} ->
         C4First(ES(e.a, env, FALSE), ES(e.b, env, FALSE))
    [] OTHER -> "bad"

(***************************************************************************)
(* Print directives.                                                       *)
(***************************************************************************)
CommonDirs == {"noAutoescape", "id", "escapeHtml", "changeNewlineToBr", "insertWordBreaks", "truncate"}

\* the chain of a print command with its arguments evaluated
C4Chain(dirs, env) ==
  [i \in 1..Len(dirs) |-> [name |-> dirs[i].name, args |-> EvalSeq(dirs[i].args, env, 1)]]

C4ChainBad(chain) ==
  \E i \in 1..Len(chain) : \E j \in 1..Len(chain[i].args) : IsBad(chain[i].args[j]) \/ chain[i].args[j].t = "undef"

RECURSIVE C4DirsWhy(_, _, _)
C4DirsWhy(dirs, env, i) ==
  IF i > Len(dirs) THEN ""
  ELSE C4First(IF dirs[i].name \in CommonDirs THEN "" ELSE "directive-" \o dirs[i].name,
       C4First(ESSeq(dirs[i].args, env, 1), C4DirsWhy(dirs, env, i + 1)))

\* a print command [e, dirs] in env; escOn = effective autoescape mode
PrintWhy(c, env, escOn) ==
  LET v == Eval(c.e, env)
      verbatim == /\ \A i \in 1..Len(c.dirs) : c.dirs[i].name \in {"noAutoescape", "id"}
                  /\ (~escOn \/ Len(c.dirs) > 0) IN
  IF IsBad(v) THEN "bad"
  ELSE C4First(ES(c.e, env, FALSE), C4First(C4TextOfWhy(v), C4First(C4DirsWhy(c.dirs, env, 1),
       IF v.t = "str" /\ ~verbatim /\ HasQuoteRef(v.v) THEN "quote-reference-reused" ELSE "")))

\* an expression whose value is turned into text (css prefix)
TextUseWhy(e, env) ==
  LET v == Eval(e, env) IN
  IF IsBad(v) THEN "bad" ELSE C4First(ES(e, env, FALSE), C4TextOfWhy(v))

(***************************************************************************)
(* Static restrictions: every piece of text is over the alphabet.          *)
(***************************************************************************)
RECURSIVE C4ValStrs(_)
C4ValStrs(v) ==
  CASE v.t = "str" -> {v.v}
    [] v.t = "list" -> UNION {C4ValStrs(v.v[i]) : i \in 1..Len(v.v)}
    [] v.t = "map" -> DOMAIN v.v \cup UNION {C4ValStrs(v.v[k]) : k \in DOMAIN v.v}
    [] OTHER -> {}

RECURSIVE C4ExprStrs(_)
C4ExprStrs(e) ==
  CASE e.k = "str" -> {e.v}
    [] e.k = "list" -> UNION {C4ExprStrs(e.items[i]) : i \in 1..Len(e.items)}
    [] e.k = "map" -> UNION {{e.items[i].key} \cup C4ExprStrs(e.items[i].val) : i \in 1..Len(e.items)}
    [] e.k = "var" -> UNION {IF e.acc[i].k = "expr" THEN C4ExprStrs(e.acc[i].e)
                             ELSE IF e.acc[i].k = "key" THEN {e.acc[i].key} ELSE {} : i \in 1..Len(e.acc)}
    [] e.k = "fn" -> UNION {C4ExprStrs(e.args[i]) : i \in 1..Len(e.args)}
    [] e.k \in {"neg", "not"} -> C4ExprStrs(e.a)
    [] e.k = "tern" -> C4ExprStrs(e.c) \cup C4ExprStrs(e.a) \cup C4ExprStrs(e.b)
    [] e.k \in BinOps -> C4ExprStrs(e.a) \cup C4ExprStrs(e.b)
    [] OTHER -> {}

RECURSIVE C4CmdStrs(_), C4CmdsStrs(_)
C4CmdsStrs(cs) == UNION {C4CmdStrs(cs[i]) : i \in 1..Len(cs)}
C4CmdStrs(c) ==
  CASE c.k = "text" -> {c.s}
    [] c.k = "print" -> C4ExprStrs(c.e) \cup
         UNION {UNION {C4ExprStrs(c.dirs[i].args[j]) : j \in 1..Len(c.dirs[i].args)} : i \in 1..Len(c.dirs)}
    [] c.k = "if" -> UNION {C4ExprStrs(c.brs[i].c) \cup C4CmdsStrs(c.brs[i].body) : i \in 1..Len(c.brs)}
                     \cup C4CmdsStrs(c.els.body)
    [] c.k = "switch" -> C4ExprStrs(c.e) \cup C4CmdsStrs(c.def.body) \cup
         UNION {C4CmdsStrs(c.cases[i].body) \cup
                UNION {C4ExprStrs(c.cases[i].vals[j]) : j \in 1..Len(c.cases[i].vals)} : i \in 1..Len(c.cases)}
    [] c.k = "foreach" -> C4ExprStrs(c.e) \cup C4CmdsStrs(c.body) \cup C4CmdsStrs(c.empty.body)
    [] c.k = "letv" -> C4ExprStrs(c.e)
    [] c.k \in {"letc", "log", "pc"} -> C4CmdsStrs(c.body)
    [] c.k = "pv" -> C4ExprStrs(c.e)
    [] c.k = "call" -> C4ExprStrs(c.de) \cup C4CmdsStrs(c.params)
    [] c.k = "css" -> C4ExprStrs(c.e) \cup {c.suffix}
    [] c.k = "msg" -> C4CmdsStrs(c.body) \cup (IF "tr" \in DOMAIN c THEN C4CmdsStrs(c.tr.body) ELSE {})
    [] c.k = "plural" -> C4ExprStrs(c.e) \cup C4CmdsStrs(c.def) \cup
         UNION {C4CmdsStrs(c.cases[i].body) : i \in 1..Len(c.cases)} \cup
         (IF "forms" \in DOMAIN c THEN UNION {C4CmdsStrs(c.forms.bodies[i]) : i \in 1..Len(c.forms.bodies)} ELSE {})
    [] OTHER -> {}

C4ProgStrs(p) ==
  UNION {C4CmdsStrs(p.bundle[t].body) : t \in DOMAIN p.bundle}
  \cup UNION {C4ValStrs(p.data[k]) : k \in DOMAIN p.data} \cup DOMAIN p.data
  \cup (IF p.ij.t = "none" THEN {} ELSE C4ValStrs(p.ij))
  \cup UNION {C4ValStrs(p.glob[k]) : k \in DOMAIN p.glob}

\* soyjs translates range() only as the list of a foreach: anywhere else the
\* generator rejects the whole file, whether or not the expression is reached
RECURSIVE C4HasRange(_)
C4HasRange(e) ==
  CASE e.k = "list" -> \E i \in 1..Len(e.items) : C4HasRange(e.items[i])
    [] e.k = "map" -> \E i \in 1..Len(e.items) : C4HasRange(e.items[i].val)
    [] e.k = "var" -> \E i \in 1..Len(e.acc) : e.acc[i].k = "expr" /\ C4HasRange(e.acc[i].e)
    [] e.k = "fn" -> e.name = "range" \/ \E i \in 1..Len(e.args) : C4HasRange(e.args[i])
    [] e.k \in {"neg", "not"} -> C4HasRange(e.a)
    [] e.k = "tern" -> C4HasRange(e.c) \/ C4HasRange(e.a) \/ C4HasRange(e.b)
    [] e.k \in BinOps -> C4HasRange(e.a) \/ C4HasRange(e.b)
    [] OTHER -> FALSE

RECURSIVE C4CmdRange(_), C4CmdsRange(_)
C4CmdsRange(cs) == \E i \in 1..Len(cs) : C4CmdRange(cs[i])
C4CmdRange(c) ==
  CASE c.k = "print" -> C4HasRange(c.e) \/
         \E i \in 1..Len(c.dirs) : \E j \in 1..Len(c.dirs[i].args) : C4HasRange(c.dirs[i].args[j])
    [] c.k = "if" -> (\E i \in 1..Len(c.brs) : C4HasRange(c.brs[i].c) \/ C4CmdsRange(c.brs[i].body))
                     \/ C4CmdsRange(c.els.body)
    [] c.k = "switch" -> C4HasRange(c.e) \/ C4CmdsRange(c.def.body) \/
         \E i \in 1..Len(c.cases) : C4CmdsRange(c.cases[i].body) \/
                \E j \in 1..Len(c.cases[i].vals) : C4HasRange(c.cases[i].vals[j])
    [] c.k = "foreach" ->
         (IF c.e.k = "fn" /\ c.e.name = "range" THEN \E i \in 1..Len(c.e.args) : C4HasRange(c.e.args[i])
          ELSE C4HasRange(c.e)) \/ C4CmdsRange(c.body) \/ C4CmdsRange(c.empty.body)
    [] c.k \in {"letv", "pv"} -> C4HasRange(c.e)
    [] c.k \in {"letc", "log", "pc"} -> C4CmdsRange(c.body)
    [] c.k = "call" -> C4HasRange(c.de) \/ C4CmdsRange(c.params)
    [] c.k = "css" -> C4HasRange(c.e)
    [] c.k = "msg" -> C4CmdsRange(c.body)
    [] c.k = "plural" -> C4HasRange(c.e) \/ C4CmdsRange(c.def) \/ \E i \in 1..Len(c.cases) : C4CmdsRange(c.cases[i].body)
    [] OTHER -> FALSE

\* length(5), strContains(5, ..): ill-typed wherever they stand; soyjs writes
\* 5.length, which is not JavaScript, so the whole file is lost even when the
\* expression is never reached
C4NumLit(e) == e.k \in {"int", "float", "bigint"} \/ (e.k = "neg" /\ e.a.k \in {"int", "float", "bigint"})
RECURSIVE C4IllLit(_)
C4IllLit(e) ==
  CASE e.k = "list" -> \E i \in 1..Len(e.items) : C4IllLit(e.items[i])
    [] e.k = "map" -> \E i \in 1..Len(e.items) : C4IllLit(e.items[i].val)
    [] e.k = "var" -> \E i \in 1..Len(e.acc) : e.acc[i].k = "expr" /\ C4IllLit(e.acc[i].e)
    [] e.k = "fn" -> (e.name \in {"length", "strContains"} /\ Len(e.args) >= 1 /\ C4NumLit(e.args[1]))
                     \/ \E i \in 1..Len(e.args) : C4IllLit(e.args[i])
    [] e.k \in {"neg", "not"} -> C4IllLit(e.a)
    [] e.k = "tern" -> C4IllLit(e.c) \/ C4IllLit(e.a) \/ C4IllLit(e.b)
    [] e.k \in BinOps -> C4IllLit(e.a) \/ C4IllLit(e.b)
    [] OTHER -> FALSE

RECURSIVE C4CmdIll(_), C4CmdsIll(_)
C4CmdsIll(cs) == \E i \in 1..Len(cs) : C4CmdIll(cs[i])
C4CmdIll(c) ==
  CASE c.k = "print" -> C4IllLit(c.e) \/
         \E i \in 1..Len(c.dirs) : \E j \in 1..Len(c.dirs[i].args) : C4IllLit(c.dirs[i].args[j])
    [] c.k = "if" -> (\E i \in 1..Len(c.brs) : C4IllLit(c.brs[i].c) \/ C4CmdsIll(c.brs[i].body))
                     \/ C4CmdsIll(c.els.body)
    [] c.k = "switch" -> C4IllLit(c.e) \/ C4CmdsIll(c.def.body) \/
         \E i \in 1..Len(c.cases) : C4CmdsIll(c.cases[i].body) \/
                \E j \in 1..Len(c.cases[i].vals) : C4IllLit(c.cases[i].vals[j])
    [] c.k = "foreach" -> C4IllLit(c.e) \/ C4CmdsIll(c.body) \/ C4CmdsIll(c.empty.body)
    [] c.k \in {"letv", "pv"} -> C4IllLit(c.e)
    [] c.k \in {"letc", "log", "pc"} -> C4CmdsIll(c.body)
    [] c.k = "call" -> C4IllLit(c.de) \/ C4CmdsIll(c.params)
    [] c.k = "css" -> C4IllLit(c.e)
    [] c.k = "msg" -> C4CmdsIll(c.body)
    [] c.k = "plural" -> C4IllLit(c.e) \/ C4CmdsIll(c.def) \/ \E i \in 1..Len(c.cases) : C4CmdsIll(c.cases[i].body)
    [] OTHER -> FALSE

StaticWhy(p) ==
  IF ~(\A s \in C4ProgStrs(p) : C4TextOK(s)) THEN "alphabet"
  ELSE IF \E t \in DOMAIN p.bundle : C4CmdsRange(p.bundle[t].body) THEN "range-outside-foreach"
  ELSE IF \E t \in DOMAIN p.bundle : C4CmdsIll(p.bundle[t].body) THEN "ill-typed-literal-operand"
  ELSE ""

(***************************************************************************)
(* Floats outside the dyadic model (any magnitude, results of arithmetic).  *)
(* The reference semantics has no text for them, but the property still     *)
(* demands that the Go side prints a finite number as JavaScript does.      *)
(* The harness describes the printed value by its class                     *)
(*   [finite, negzero, use: "print" | "concat" | other]                     *)
(* and the specification decides from the class alone whether the two back  *)
(* ends must agree: finite (the text of NaN and the infinities is neither   *)
(* defined by the language nor pinned by the repository's tests; negative   *)
(* zero IS inside: it prints as 0 in JavaScript and in the unchanged Go     *)
(* code, compares equal to 0 and is falsy), and used in one of the ways in  *)
(* which both back ends look only at the number: printed, concatenated to a *)
(* string, compared, tested for truthiness, used as a map key, or passed to *)
(* round/floor/ceiling (an integer comes back).  A float as a LIST index is *)
(* outside (Go rejects it, JS converts it).                                 *)
(***************************************************************************)
FloatClassInSubset(cls) == cls.finite /\ cls.use \in {"print", "concat", "compare", "truthy", "mapkey", "fn-int"}

(***************************************************************************)
(* Bundles at the edge of validity (duplicate template names, names that    *)
(* differ only in case or repeat a namespace segment, ...).  The reference  *)
(* program model is a map from template names to templates, so it cannot    *)
(* even express them; what the property demands is:  IF the compiler        *)
(* accepts the bundle THEN both back ends render it alike.  The harness      *)
(* reports the class [kind |-> "bundle", accepted, plain] (plain = the      *)
(* templates contain only raw text, prints of string params and calls, all  *)
(* of which are in the common subset); a rejected bundle is outside.        *)
(***************************************************************************)
BundleClassInSubset(cls) == cls.accepted /\ cls.plain

DirectClassInSubset(cls) ==
  IF "kind" \in DOMAIN cls /\ cls.kind = "bundle" THEN BundleClassInSubset(cls) ELSE FloatClassInSubset(cls)

(***************************************************************************)
(* Plural rules of the catalogues the harness installs (the same function  *)
(* is given to Go as Bundle.PluralCase and to JS as soy.$$pluralIndex).    *)
(***************************************************************************)
PluralIdx(rule, n) ==
  CASE rule = "en" -> IF n = 1 THEN 0 ELSE 1
    [] rule = "cs" -> IF n = 1 THEN 0 ELSE IF n >= 2 /\ n <= 4 THEN 1 ELSE 2
    [] OTHER -> 0

=============================================================================
