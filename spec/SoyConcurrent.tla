------------------------------ MODULE SoyConcurrent ------------------------------
(***************************************************************************)
(* C09 - one compiled bundle rendered from several goroutines at once.     *)
(*                                                                         *)
(* G renders (GSize = 2, or 3 over the smallest programs) run side by      *)
(* side, each with its own SoyExec state, over ONE shared compiled tree    *)
(* sh (per print node its directive list, a lookup cache) and shared data  *)
(* maps.  A step is one NODE step of one render (SoyBundleRun!NodeStep:    *)
(* the command node the real interpreter announces through its VerifAt     *)
(* hook, with the frame/loop/param/return markers glued to it), and it is  *)
(* atomic: under a forced schedule only one goroutine runs between two     *)
(* announcements.  TLC explores every interleaving.                        *)
(*                                                                         *)
(*   NonInterference  == a finished render has written exactly what it     *)
(*                       writes when run alone, with the same verdict      *)
(*   ReadOnlySharing  == [][sh' = sh]_vars  (the reason it holds: a step   *)
(*                       reads the shared tree and writes only its own     *)
(*                       state, so it commutes with the others' steps)     *)
(* Both hold for the reference; "obligatory_append" (configuration with an *)
(* obligatory directive) and "memo_cache" break them.                      *)
(*                                                                         *)
(* M2: at every terminal state TLC prints the schedule (the sequence of    *)
(* goroutine ids) and each render's expected verdict and bytes; the        *)
(* harness forces each schedule on the real code, built with -race.        *)
(***************************************************************************)
EXTENDS SoyBundleRun, Json

CONSTANTS CfgName,    \* "none" | "oblig"
          GSize,      \* 2: all pairs of cases; 3: triples over the cases in Small
          Small       \* the (smallest) cases from which groups of 3 are formed, e.g. {1, 2, 5}

VARIABLES grp,    \* the cases rendered concurrently (indices into Cases)
          rs,     \* per goroutine: its render state
          sh,     \* the shared tree
          sched   \* goroutine ids in the order of their node steps (history)
cvars == <<grp, rs, sh, sched>>

Var(n) == [k |-> "var", name |-> n, acc |-> <<>>]
Tx(s) == [k |-> "text", s |-> s]
Pr(id, e) == [k |-> "print", id |-> id, e |-> e, dirs |-> <<>>]
\* three directives: the parser's slice then has spare capacity, where an
\* append that does not copy first would write
D3 == <<[name |-> "escapeHtml", args |-> <<>>], [name |-> "id", args |-> <<>>], [name |-> "noAutoescape", args |-> <<>>]>>
Pr3(id, e) == [k |-> "print", id |-> id, e |-> e, dirs |-> D3]
\* a marker directive FOLLOWED by another one: a JavaScript generator that
\* filters the node's list in place would overwrite the marker
DM == <<[name |-> "noAutoescape", args |-> <<>>], [name |-> "truncate", args |-> <<[k |-> "int", v |-> 30]>>]>>
PrM(id, e) == [k |-> "print", id |-> id, e |-> e, dirs |-> DM]
NoBody == [has |-> FALSE, body |-> <<>>]
P1(n) == <<[name |-> n, opt |-> FALSE]>>

One == [params |-> <<[name |-> "x", opt |-> FALSE], [name |-> "w", opt |-> TRUE]>>, nsa |-> "", ta |-> "",
        body |-> <<PrM("q1", Var("x")), Pr3("q2", Var("x")),
                   Pr("q6", [k |-> "elvis", a |-> Var("w"), b |-> [k |-> "str", v |-> "-"]])>>]
Two == [params |-> P1("xs"), nsa |-> "", ta |-> "",
        body |-> <<[k |-> "foreach", kw |-> "foreach", var |-> "i", e |-> Var("xs"),
                    body |-> <<Pr("q3", Var("i"))>>, empty |-> NoBody]>>]
\* (two params, not in key order: a tree rewrite such as sorting them in place
\* would have something to do)
Three == [params |-> P1("x"), nsa |-> "", ta |-> "",
          body |-> <<[k |-> "call", tmpl |-> "c.one", data |-> "none", de |-> [k |-> "null"],
                      params |-> <<[k |-> "pv", key |-> "x", e |-> Var("x")],
                                   [k |-> "pv", key |-> "w", e |-> [k |-> "str", v |-> "W"]]>>],
                     Tx("B")>>]
\* (the message holds only a placeholder: raw text inside a TRANSLATED message
\* is written from the catalogue without a node of its own, and the harness
\* renders with a catalogue)
Four == [params |-> P1("x"), nsa |-> "", ta |-> "",
         body |-> <<[k |-> "letv", name |-> "y", e |-> Var("x")],
                    [k |-> "if", brs |-> <<[c |-> Var("y"), body |-> <<Pr("q4", Var("y"))>>]>>, els |-> NoBody],
                    [k |-> "msg", desc |-> "m", body |-> <<Pr("q5", Var("x"))>>],
                    Tx("Z")>>]

\* hands one of the caller's own maps to the callee through a FUNCTION result
\* (augmentMap with an empty second map) and adds a param on top; $m is the
\* shared-data cell: the same map object in the data of several renders
Five == [params |-> <<[name |-> "x", opt |-> FALSE], [name |-> "m", opt |-> FALSE]>>, nsa |-> "", ta |-> "",
         body |-> <<[k |-> "call", tmpl |-> "c.one", data |-> "expr",
                     de |-> [k |-> "fn", name |-> "augmentMap", args |-> <<Var("m"), [k |-> "map", items |-> <<>>]>>],
                     params |-> <<[k |-> "pv", key |-> "x", e |-> Var("x")]>>],
                    Pr("q7", [k |-> "elvis", a |-> [k |-> "var", name |-> "m", acc |-> <<[k |-> "key", ns |-> TRUE, key |-> "x"]>>],
                              b |-> [k |-> "str", v |-> "-"]])>>]

TheBundle == ("c.one" :> One) @@ ("c.two" :> Two) @@ ("c.three" :> Three) @@ ("c.four" :> Four) @@ ("c.five" :> Five)
PrintIds == {"q1", "q2", "q3", "q4", "q5", "q6", "q7"}

\* Shared caller data.  The data maps are shared by the renders that use them;
\* in addition the map under "m" is ONE object, held by the cell sh.shared and
\* referred to from two different top-level data maps (good, good2).
Shared0 == [m |-> [k |-> S("base")]]
DataSets == [good  |-> [x |-> S("v<"), xs |-> L(<<I(1), I(2)>>), m |-> M(Shared0.m)],
             good2 |-> [x |-> S("w"), m |-> M(Shared0.m)],
             bad   |-> [xs |-> L(<<I(3)>>)]]        \* no x: printing it fails

Cases == << [t |-> "c.one", d |-> "good"],     \* 3 node steps
            [t |-> "c.two", d |-> "good"],     \* 3
            [t |-> "c.three", d |-> "good"],   \* 5
            [t |-> "c.four", d |-> "good"],    \* 6
            [t |-> "c.one", d |-> "bad"],      \* 1, fails at its first print
            [t |-> "c.five", d |-> "good"],    \* 5
            [t |-> "c.five", d |-> "good2"] >> \* 5, another top-level map, the same $m

\* pairs: all pairs of the first five cases; the shared-map case with itself
\* (same top-level map) and with the case that reaches the same $m through
\* another top-level map
Pairs == {q \in {<<i, j>> : i \in 1..5, j \in 1..5} : q[1] <= q[2]}
         \cup {<<6, 6>>, <<6, 7>>}

Groups == IF GSize = 2
          THEN Pairs
          ELSE {q \in {<<i, j, k>> : i \in Small, j \in Small, k \in Small} : q[1] <= q[2] /\ q[2] <= q[3]}

TheCfg == IF CfgName = "oblig" THEN [oblig |-> <<"exclaim">>, dirs |-> {"exclaim"}, fns |-> NoFn] ELSE NoCfg

Sh0 == [dirs |-> [id \in PrintIds |-> IF id = "q2" THEN D3 ELSE IF id = "q1" THEN DM ELSE <<>>], memo |-> [x \in {} |-> <<>>],
        shared |-> Shared0]

ProgOf(c) == [bundle |-> TheBundle, entry |-> Cases[c].t, data |-> DataSets[Cases[c].d], ij |-> NoIJ,
              glob |-> [x \in {} |-> Null], plan |-> [kind |-> "none"], cfg |-> TheCfg]

\* the render run alone on the pristine tree
Solo(c) == RunToEnd(InitOf(ProgOf(c)), Sh0).s
\* (constant-level tables: TLC evaluates them once)
SoloTab == [c \in 1..Len(Cases) |-> Solo(c)]
StepsTab == [c \in 1..Len(Cases) |-> CountNodeSteps(StartAt(ProgOf(c), Sh0).s, Sh0, 12)]

Init == /\ grp \in Groups
        /\ sh = Sh0
        /\ rs = [g \in 1..Len(grp) |-> StartAt(ProgOf(grp[g]), Sh0).s]
        /\ sched = <<>>

Step(g) == /\ rs[g].status = "run"
           /\ LET r == NodeStep(rs[g], sh) IN
              /\ rs' = [rs EXCEPT ![g] = r.s]
              /\ sh' = r.sh
           /\ sched' = Append(sched, g)
           /\ UNCHANGED grp

Next == \E g \in 1..Len(grp) : Step(g)

Done == \A g \in 1..Len(grp) : rs[g].status # "run"

NonInterference ==
  \A g \in 1..Len(grp) :
     rs[g].status # "run" =>
        LET a == SoloTab[grp[g]] IN rs[g].status = a.status /\ rs[g].out = a.out

ReadOnlySharing == [][sh' = sh]_cvars

AllDecided == \A g \in 1..Len(grp) : rs[g].status \in {"run", "ok", "err"}

\* the node steps of the model are the announcements of the real code: the
\* number of steps of each goroutine in a complete schedule is the number of
\* node steps of its render run alone
StepsAsSolo ==
  Done => \A g \in 1..Len(grp) :
            Cardinality({i \in 1..Len(sched) : sched[i] = g}) = StepsTab[grp[g]]

Setup == [cfgname |-> CfgName, oblig |-> TheCfg.oblig, bundle |-> TheBundle, data |-> DataSets, cases |-> Cases,
          shared |-> [k \in DOMAIN Shared0 |-> M(Shared0[k])]]
ExportSetup == Len(sched) = 0 => PrintT(ToJson([setup |-> Setup]))
ExportSchedule ==
  Done => PrintT(ToJson([g |-> grp, s |-> sched,
                         o |-> [g \in 1..Len(grp) |-> [st |-> rs[g].status, out |-> rs[g].out]]]))
=============================================================================
