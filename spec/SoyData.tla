------------------------------- MODULE SoyData -------------------------------
(***************************************************************************)
(* C20: conversion of JSON-like Go values to Soy data, and the laws of the *)
(* resulting values.                                                       *)
(*                                                                         *)
(* Written from the property statement, the Soy language definition        *)
(* (truthiness table, equality, printing) and what robfig/soy's own tests  *)
(* pin (data/convert_test.go, data/value_test.go) - not from convert.go.   *)
(*                                                                         *)
(* Abstract Go values are tagged records (field g is the tag); this is     *)
(* also the JSON the harness exchanges with TLC:                           *)
(*   [g|->"nil"]                          untyped nil (nil interface)      *)
(*   [g|->"bool", v]                                                       *)
(*   [g|->"int", kind, v]                 |v| < 2^30 (TLC ints are 32 bit) *)
(*   [g|->"int", kind, big]               decimal digits, within int64     *)
(*   [g|->"float", kind, num, sh]         the dyadic num / 2^sh            *)
(*   [g|->"float", kind, sym]             "nan" "pinf" "ninf" "nzero"      *)
(*   [g|->"str", v]                                                        *)
(*   [g|->"time", v]                      v names an instant of TimeIds    *)
(*   [g|->"slice", nil, v: Seq(G)]        nil => v = <<>>                  *)
(*   [g|->"array", v: Seq(G)]                                              *)
(*   [g|->"map", nil, v: [strings -> G]]                                   *)
(*   [g|->"struct", ty, v: Seq([name, emb, tag, val])]                     *)
(*   [g|->"ptr", nil, v | to]             to = name of the pointee type    *)
(*   [g|->"iface", nil, v]                an interface{} variable          *)
(*   [g|->"marshaler", ty, a]             a value of a type with a         *)
(*                                        MarshalValue method; the type    *)
(*                                        fixes the receiver kind (RecvOf) *)
(*   [g|->"value", v]                     already a data.Value             *)
(* Fields the conversion does not depend on (typed, et, to, kind of a      *)
(* float, ...) only tell the harness which concrete Go type to build.      *)
(*                                                                         *)
(* Soy values are those of SoyValues plus, defined here,                   *)
(*   [t|->"fsym", v]   NaN, +Inf, -Inf, -0.0 as symbolic floats            *)
(*   [t|->"bigint", v] an int outside the 32-bit-safe range, as digits     *)
(***************************************************************************)
EXTENDS SoyValues

CONSTANT Dev    \* set of deviation names; {} is the reference design

DevNames == {"nan_truthy", "eq_asymmetric_int_float", "struct_field_uppercase",
             "typed_nil_not_null", "text_map_order", "marshaler_checked_after_deref",
             "cache_by_printed_name"}

-----------------------------------------------------------------------------
(* Extended Soy values and their laws                                      *)

FSym(s) == [t |-> "fsym", v |-> s]
NaN   == FSym("nan")
PInf  == FSym("pinf")
NInf  == FSym("ninf")
NZero == FSym("nzero")
BigI(d) == [t |-> "bigint", v |-> d]

\* the empty map payload.  Map payloads are always built as functions
\* (:> and @@, or [k \in S |-> ...]), never with the record constructor: TLC
\* refuses to compare a non-empty RECORD with the empty tuple, which is what
\* an empty function becomes once it is part of a state.
EmptyFn == [k \in {} |-> Null]

IsNumD(v) == v.t \in {"int", "float", "fsym", "bigint"}

\* Truthiness by kind (language definition).
TruthyD(v) ==
  CASE v.t = "fsym"   -> IF v.v = "nan" THEN "nan_truthy" \in Dev ELSE v.v # "nzero"
    [] v.t = "bigint" -> TRUE              \* canonical digits of a non-zero int
    [] v.t = "str" /\ "iso" \in DOMAIN v -> TRUE   \* some non-empty ISO-8601 text
    [] OTHER          -> Truthy(v)

\* The table of the property statement: exactly these values are falsy.
FalsyValues == {Undef, Null, B(FALSE), I(0), F(0, 0), NaN, NZero, S("")}
TruthTableLaw(v) == TruthyD(v) <=> (v \notin FalsyValues)

\* Strict equality: "t" / "f" / "u" (u = the model makes no claim).
NormZ(v) == IF v = NZero THEN F(0, 0) ELSE v

NumEqD(a0, b0) ==
  LET a == NormZ(a0) b == NormZ(b0) IN
  IF a = NaN \/ b = NaN THEN "f"
  ELSE IF a.t = "fsym" \/ b.t = "fsym" THEN (IF a = b THEN "t" ELSE "f")
  ELSE IF a.t = "bigint" /\ b.t = "bigint" THEN (IF a.v = b.v THEN "t" ELSE "f")
  ELSE IF a.t = "bigint" \/ b.t = "bigint" THEN
       (IF a.t = "int" \/ b.t = "int" THEN "f" ELSE "u")   \* big vs float: float64 rounding, no claim
  ELSE IF a.t = b.t THEN (IF a = b THEN "t" ELSE "f")      \* floats are normalised: equal iff same record
  ELSE \* one int, one float: equal iff the float is integral with the same value
       LET i == IF a.t = "int" THEN a ELSE b
           f == IF a.t = "int" THEN b ELSE a IN
       IF "eq_asymmetric_int_float" \in Dev /\ a.t = "int" THEN "f"
       ELSE IF f.sh = 0 /\ f.num = i.v THEN "t" ELSE "f"

EqualsD(a, b) ==
  IF IsNumD(a) /\ IsNumD(b) THEN NumEqD(a, b)
  ELSE IF IsNumD(a) \/ IsNumD(b) THEN "f"
  ELSE EqualsV(a, b)

\* Text.  ord = TRUE/FALSE stands for two different iteration orders of a
\* map (ascending / descending keys); the reference sorts, so the text does
\* not depend on it ("printing is deterministic").
Rev(q) == [i \in 1..Len(q) |-> q[Len(q) + 1 - i]]
KeyOrder(f, ord) ==
  IF "text_map_order" \in Dev THEN (IF ord THEN SortedKeys(f) ELSE Rev(SortedKeys(f)))
  ELSE SortedKeys(f)

RECURSIVE PrintableD(_)
PrintableD(v) ==
  CASE v.t = "undef" -> FALSE
    [] v.t = "fsym" -> v.v \in {"nan", "nzero"}      \* text of +-Inf: no claim
    [] v.t = "bigint" -> TRUE
    [] v.t = "str" -> "v" \in DOMAIN v              \* not the symbolic ISO time text
    [] v.t = "float" -> v.sh = 0         \* how a fraction is spelled is C01's subject, not claimed here
    [] v.t = "list" -> \A i \in 1..Len(v.v) : PrintableD(v.v[i])
    [] v.t = "map" -> KeysOK(v.v) /\ \A k \in DOMAIN v.v : PrintableD(v.v[k])
    [] v.t \in {"null", "bool", "int"} -> TRUE
    [] OTHER -> FALSE                               \* a tag the encoding could not carry exactly

RECURSIVE TextD(_, _), JoinListD(_, _, _), JoinMapD(_, _, _, _)
TextD(v, ord) ==
  CASE v.t = "fsym" -> (IF v.v = "nan" THEN "NaN" ELSE IF v.v = "nzero" THEN "0" ELSE "?")
    [] v.t = "bigint" -> v.v
    [] v.t = "list" -> "[" \o JoinListD(v.v, 1, ord) \o "]"
    [] v.t = "map" -> "{" \o JoinMapD(v.v, KeyOrder(v.v, ord), 1, ord) \o "}"
    [] OTHER -> ToText(v)
JoinListD(q, i, ord) ==
  IF i > Len(q) THEN ""
  ELSE (IF i > 1 THEN ", " ELSE "") \o TextD(q[i], ord) \o JoinListD(q, i + 1, ord)
JoinMapD(f, ks, i, ord) ==
  IF i > Len(ks) THEN ""
  ELSE (IF i > 1 THEN ", " ELSE "") \o ks[i] \o ": " \o TextD(f[ks[i]], ord) \o JoinMapD(f, ks, i + 1, ord)

TextFunctionLaw(v) == PrintableD(v) => TextD(v, TRUE) = TextD(v, FALSE)

\* every value inside v (v included)
RECURSIVE SubValues(_)
SubValues(v) ==
  {v} \cup (CASE v.t = "list" -> UNION {SubValues(v.v[i]) : i \in 1..Len(v.v)}
              [] v.t = "map" -> UNION {SubValues(v.v[k]) : k \in DOMAIN v.v}
              [] OTHER -> {})

\* laws on a pair of values
PairLaws(a, b) ==
  LET e == EqualsD(a, b) IN
  /\ e = EqualsD(b, a)                                          \* symmetric
  /\ e = "t" => TruthyD(a) = TruthyD(b)                         \* equal values are interchangeable
  /\ (e = "t" /\ PrintableD(a) /\ PrintableD(b)) => TextD(a, TRUE) = TextD(b, TRUE)
  /\ (a.t = "int" /\ b.t = "float") => (e = "t" <=> (b.sh = 0 /\ b.num = a.v))   \* numeric across int/float
  /\ (a.t # b.t /\ ~(IsNumD(a) /\ IsNumD(b))) => e = "f"        \* different kinds are never equal
  /\ (a = b /\ a.t \notin {"list", "map"} /\ a # NaN) => e = "t" \* reflexive on scalars (NaN excepted)
  /\ (a = NaN \/ b = NaN) => e = "f"

-----------------------------------------------------------------------------
(* Abstract Go values                                                      *)

GNil == [g |-> "nil"]
GBool(b) == [g |-> "bool", v |-> b]
GInt(k, n) == [g |-> "int", kind |-> k, v |-> n]
GBigInt(k, d) == [g |-> "int", kind |-> k, big |-> d]
GFloat(k, num, sh) == [g |-> "float", kind |-> k, num |-> num, sh |-> sh]
GFloatSym(k, s) == [g |-> "float", kind |-> k, sym |-> s]
GStr(s) == [g |-> "str", v |-> s]
GNamedStr(s) == [g |-> "str", named |-> TRUE, v |-> s]
GTime(id) == [g |-> "time", v |-> id]
GSlice(q) == [g |-> "slice", nil |-> FALSE, typed |-> FALSE, v |-> q]
GSliceT(q) == [g |-> "slice", nil |-> FALSE, typed |-> TRUE, v |-> q]
GNilSlice(et) == [g |-> "slice", nil |-> TRUE, typed |-> TRUE, et |-> et, v |-> <<>>]
GEmptySlice(et) == [g |-> "slice", nil |-> FALSE, typed |-> TRUE, et |-> et, v |-> <<>>]
GArray(q) == [g |-> "array", v |-> q]
GMap(f) == [g |-> "map", nil |-> FALSE, typed |-> FALSE, v |-> f]
GMapT(f) == [g |-> "map", nil |-> FALSE, typed |-> TRUE, v |-> f]
GNilMap(et) == [g |-> "map", nil |-> TRUE, typed |-> TRUE, et |-> et, v |-> <<>>]
GEmptyMap(et) == [g |-> "map", nil |-> FALSE, typed |-> TRUE, et |-> et, v |-> <<>>]
Fld(name, val) == [name |-> name, emb |-> FALSE, tag |-> "", val |-> val]
FldTag(name, tag, val) == [name |-> name, emb |-> FALSE, tag |-> tag, val |-> val]
FldEmb(name, val) == [name |-> name, emb |-> TRUE, tag |-> "", val |-> val]
GStruct(ty, fs) == [g |-> "struct", ty |-> ty, v |-> fs]
GPtr(x) == [g |-> "ptr", nil |-> FALSE, v |-> x]
GNilPtr(to) == [g |-> "ptr", nil |-> TRUE, to |-> to]
GIface(x) == [g |-> "iface", nil |-> FALSE, v |-> x]
GNilIface == [g |-> "iface", nil |-> TRUE]
GMarshaler(ty, a) == [g |-> "marshaler", ty |-> ty, a |-> a]
GValue(v) == [g |-> "value", v |-> v]

IntKindsS == {"int", "int8", "int16", "int32", "int64", "duration"}
IntKindsU == {"uint", "uint8", "uint16", "uint32", "uint64"}
FloatKinds == {"float32", "float64"}

\* range of a small (non-big) integer of a kind
KindOK(k, n) ==
  CASE k = "int8"   -> -128 <= n /\ n <= 127
    [] k = "uint8"  -> 0 <= n /\ n <= 255
    [] k = "int16"  -> -32768 <= n /\ n <= 32767
    [] k = "uint16" -> 0 <= n /\ n <= 65535
    [] k \in IntKindsU -> 0 <= n
    [] OTHER -> TRUE

\* struct options: LowerCamel and the time format
DefaultOpts == [lc |-> TRUE, tf |-> "rfc3339"]
MainOpts == {DefaultOpts, [lc |-> FALSE, tf |-> "stamp"]}       \* the two settings the tests use
TimeOpts == {[lc |-> TRUE, tf |-> "stamp"], [lc |-> FALSE, tf |-> "rfc3339"],
             [lc |-> FALSE, tf |-> "empty"]}                      \* empty: documented as ISO-8601

\* the instants the harness knows, and their text under each layout
\* (jan1 and its RFC3339 text are pinned by convert_test.go)
TimeIds == {"jan1", "nov10", "leap"}      \* leap = 2020-02-29 12:34:56.789 UTC (a fraction of a second)
TimeText(id, tf) ==
  CASE id = "jan1"  /\ tf = "rfc3339" -> "2014-01-01T00:00:00Z"
    [] id = "jan1"  /\ tf = "stamp"   -> "Jan  1 00:00:00"
    [] id = "nov10" /\ tf = "rfc3339" -> "2009-11-10T23:04:05+01:00"
    [] id = "nov10" /\ tf = "stamp"   -> "Nov 10 23:04:05"
    [] id = "leap"  /\ tf = "rfc3339" -> "2020-02-29T12:34:56Z"      \* the layout has no fraction
    [] id = "leap"  /\ tf = "stamp"   -> "Feb 29 12:34:56"

\* with an empty TimeFormat the documentation promises "ISO-8601": the spec
\* says only that (the harness checks that the string denotes the instant)
IsoTime(id) == [t |-> "str", iso |-> id]

\* lowerCamel = first letter in lower case (pinned: ID -> iD, URL -> uRL)
Uppers == "ABCDEFGHIJKLMNOPQRSTUVWXYZÉΩ"
Lowers == "abcdefghijklmnopqrstuvwxyzéω"
UpIdx(c) == IF \E i \in 1..Len(Uppers) : SubSeq(Uppers, i, i) = c
            THEN CHOOSE i \in 1..Len(Uppers) : SubSeq(Uppers, i, i) = c ELSE 0
Exported(name) == name # "" /\ UpIdx(SubSeq(name, 1, 1)) > 0
LowerFirst(name) ==
  IF name = "" THEN ""
  ELSE LET i == UpIdx(SubSeq(name, 1, 1)) IN
       IF i = 0 THEN name ELSE SubSeq(Lowers, i, i) \o SubSeq(name, 2, Len(name))
StartsUpper(name) == Exported(name)

\* the key under which a struct field must appear
KeyLaw(f, o) == IF o.lc THEN LowerFirst(f.name) ELSE f.name
\* the key the (possibly deviating) design gives it
Key(f, o) == IF o.lc /\ "struct_field_uppercase" \notin Dev THEN LowerFirst(f.name) ELSE f.name

\* what the custom marshalers of the harness return (written like the
\* pinned testIDURLMarshaler: keys chosen by the type, not by lowerCamel)
\* Marshaler types of the harness.  value receiver: idurl mint mnull mlist
\* many;  POINTER receiver (func (m *T) MarshalValue()): pmoney pint pany.
\* many / pany return whatever data.Value they hold (a.v), GoNil = the nil
\* interface included.
PtrRecvTypes == {"pmoney", "pint", "pany"}
RecvOf(ty) == IF ty \in PtrRecvTypes THEN "ptr" ELSE "value"
GoNil == [t |-> "gonil"]          \* MarshalValue returned nil (not a Soy value)

MarshalResult(m) ==
  CASE m.ty = "idurl"  -> M(("id" :> I(m.a.id)) @@ ("url" :> S(m.a.url)))
    [] m.ty = "mint"   -> S("int:" \o ToString(m.a.n))      \* marshaler on a non-struct type
    [] m.ty = "mnull"  -> Null
    [] m.ty = "mlist"  -> L(<<I(m.a.n), S("x")>>)
    [] m.ty = "pmoney" -> M(("amount" :> I(m.a.cents)) @@ ("code" :> S(m.a.cur)))
    [] m.ty = "pint"   -> S("pint:" \o ToString(m.a.n))
    [] m.ty \in {"many", "pany"} -> m.a.v

\* a pointer-receiver marshaler type seen WITHOUT its marshaler (a value of
\* type T does not implement the interface, only *T does): its plain shape
PlainOf(m) ==
  CASE m.ty = "pmoney" -> [g |-> "struct", ty |-> "PMoney",
                           v |-> <<[name |-> "Cents", emb |-> FALSE, tag |-> "", val |-> [g |-> "int", kind |-> "int64", v |-> m.a.cents]],
                                   [name |-> "Currency", emb |-> FALSE, tag |-> "", val |-> [g |-> "str", v |-> m.a.cur]]>>]
    [] m.ty = "pint"   -> [g |-> "int", kind |-> "int", v |-> m.a.n]
    [] m.ty = "pany"   -> [g |-> "struct", ty |-> "PAny",
                           v |-> <<[name |-> "V", emb |-> FALSE, tag |-> "",
                                    val |-> IF m.a.v = GoNil THEN [g |-> "nil"] ELSE [g |-> "value", v |-> m.a.v]]>>]

\* THE RULE (doc of data.Marshaler: "entities that can marshal themselves";
\* the code: if a value implements Marshaler its MarshalValue is used, at
\* every level of indirection).  MV(g, addr) = the marshaler whose
\* MarshalValue is in the METHOD SET of g (addr = FALSE) or of a pointer to g
\* (addr = TRUE), by Go's rules: T has the value-receiver methods, *T has
\* both; a struct embedding T gets T's methods promoted (the pointer-receiver
\* ones only on the pointer to the struct), a struct embedding *T gets both.
NoMV == [g |-> "none"]
EmbMV(x, addr) ==
  IF x.g = "marshaler" THEN (IF RecvOf(x.ty) = "value" \/ addr THEN x ELSE NoMV)
  ELSE IF x.g = "ptr" /\ ~x.nil /\ x.v.g = "marshaler" THEN x.v
  ELSE NoMV
MV(g, addr) ==
  CASE g.g = "marshaler" -> IF RecvOf(g.ty) = "value" \/ addr THEN g ELSE NoMV
    [] g.g = "struct" ->
         LET c == {i \in 1..Len(g.v) : g.v[i].emb /\ EmbMV(g.v[i].val, addr) # NoMV} IN
         IF Cardinality(c) = 1 THEN EmbMV(g.v[CHOOSE i \in c : TRUE].val, addr) ELSE NoMV
    [] OTHER -> NoMV

\* Readings: where neither the tests nor the statement decide, a consistent
\* implementation may choose; an observation is accepted if it is the
\* conversion under SOME reading (one reading for the whole value).
\*   emb : an embedded struct is a field named after its type ("nest", what
\*         reflection says) or its fields are promoted ("flat", what
\*         encoding/json does).  No test of the repository embeds a struct.
\* (A nil map is NOT such a case: the repository's tests render templates
\* with a nil map[string]interface{} as data - features_test.go
\* runFeatureTests, Tofu.Render(d(nil)) - so a nil map must convert to a
\* map, like the pinned nil slice -> empty list.)
\*   pr  : a pointer-receiver marshaler type met BY VALUE (T, []T, a field
\*         of type T) does not implement the interface: "strict" converts it
\*         as the plain value (the rule read literally, what the code does);
\*         "addr" uses its address like encoding/json does for addressable
\*         values.  Through a pointer (*T, **T, []*T ...) there is no choice.
\*   nilres : MarshalValue returned nil: the nil interface as is ("nil") or
\*         null.
Rd0 == [emb |-> "nest", pr |-> "strict", nilres |-> "nil"]
AllReadings == [emb : {"nest", "flat"}, pr : {"strict", "addr"}, nilres : {"nil", "null"}]

ResultOf(m, rd) == LET r == MarshalResult(m) IN IF r = GoNil /\ rd.nilres = "null" THEN Null ELSE r
\* the deviation: drill through all pointers first, ask the final VALUE only
AddrOK == "marshaler_checked_after_deref" \notin Dev

IsStructLike(g) == g.g = "struct" \/ (g.g = "ptr" /\ ~g.nil /\ g.v.g = "struct")

RECURSIVE Convert(_, _, _), StructMap(_, _, _), Promoted(_, _, _, _)
Convert(g, o, rd) ==
  CASE g.g = "nil" -> Null
    [] g.g = "bool" -> B(g.v)
    [] g.g = "int" -> IF "big" \in DOMAIN g THEN BigI(g.big) ELSE I(g.v)
    [] g.g = "float" -> IF "sym" \in DOMAIN g THEN FSym(g.sym) ELSE F(g.num, g.sh)
    [] g.g = "str" -> S(g.v)
    [] g.g = "time" -> IF o.tf = "empty" THEN IsoTime(g.v) ELSE S(TimeText(g.v, o.tf))
    [] g.g \in {"slice", "array"} -> L([i \in 1..Len(g.v) |-> Convert(g.v[i], o, rd)])
    [] g.g = "map" ->
         IF g.nil THEN M(EmptyFn) ELSE M([k \in DOMAIN g.v |-> Convert(g.v[k], o, rd)])
    [] g.g = "struct" ->
         LET m == MV(g, rd.pr = "addr") IN
         IF m # NoMV THEN ResultOf(m, rd) ELSE M(StructMap(g.v, o, rd))
    [] g.g \in {"ptr", "iface"} ->
         IF g.nil THEN (IF "typed_nil_not_null" \in Dev /\ g.g = "ptr" THEN Undef ELSE Null)
         ELSE LET m == IF g.g = "ptr" THEN MV(g.v, AddrOK \/ rd.pr = "addr") ELSE NoMV IN
              IF m # NoMV THEN ResultOf(m, rd) ELSE Convert(g.v, o, rd)
    [] g.g = "marshaler" ->
         IF RecvOf(g.ty) = "value" \/ rd.pr = "addr" THEN ResultOf(g, rd) ELSE Convert(PlainOf(g), o, rd)
    [] g.g = "value" -> g.v

\* the fields of a struct as a map
StructMap(fs, o, rd) ==
  LET direct == {i \in 1..Len(fs) :
                   /\ Exported(fs[i].name)
                   /\ ~(rd.emb = "flat" /\ fs[i].emb /\ IsStructLike(fs[i].val))}
      keys == {Key(fs[i], o) : i \in direct}
      own == [k \in keys |-> Convert(fs[CHOOSE i \in direct : Key(fs[i], o) = k].val, o, rd)]
  IN IF rd.emb = "flat" THEN own @@ Promoted(fs, 1, o, rd) ELSE own

\* "flat" reading: fields promoted from embedded structs (shallower wins)
Promoted(fs, i, o, rd) ==
  IF i > Len(fs) THEN <<>>
  ELSE LET f == fs[i]
           here == IF f.emb /\ IsStructLike(f.val)
                   THEN StructMap((IF f.val.g = "ptr" THEN f.val.v ELSE f.val).v, o, rd)
                   ELSE <<>>
       IN here @@ Promoted(fs, i + 1, o, rd)

RECURSIVE HasEmb(_), HasTime(_), HasArray(_), HasPR(_), HasNilRes(_), Depth(_)
Kids(g) ==
  CASE g.g \in {"slice", "array"} -> {g.v[i] : i \in 1..Len(g.v)}
    [] g.g = "map" -> {g.v[k] : k \in DOMAIN g.v}
    [] g.g = "struct" -> {g.v[i].val : i \in 1..Len(g.v)}
    [] g.g \in {"ptr", "iface"} -> IF g.nil THEN {} ELSE {g.v}
    [] OTHER -> {}
HasEmb(g) == (g.g = "struct" /\ \E i \in 1..Len(g.v) : g.v[i].emb) \/ \E k \in Kids(g) : HasEmb(k)
HasTime(g) == g.g = "time" \/ \E k \in Kids(g) : HasTime(k)
HasArray(g) == g.g = "array" \/ \E k \in Kids(g) : HasArray(k)
HasPR(g) == (g.g = "marshaler" /\ RecvOf(g.ty) = "ptr") \/ \E k \in Kids(g) : HasPR(k)
HasNilRes(g) == (g.g = "marshaler" /\ g.ty \in {"many", "pany"} /\ g.a.v = GoNil) \/ \E k \in Kids(g) : HasNilRes(k)
Depth(g) == IF Kids(g) = {} THEN 0
            ELSE LET ds == {Depth(k) : k \in Kids(g)} IN
                 (CHOOSE d \in ds : \A e \in ds : e <= d) + (IF g.g = "iface" THEN 0 ELSE 1)

ReadingsFor(g) == [emb : IF HasEmb(g) THEN {"nest", "flat"} ELSE {"nest"},
                   pr : IF HasPR(g) THEN {"strict", "addr"} ELSE {"strict"},
                   nilres : IF HasNilRes(g) THEN {"nil", "null"} ELSE {"nil"}]
Unambiguous(g) == ~HasEmb(g) /\ ~HasPR(g) /\ ~HasNilRes(g)

Acceptable(g, o) == {Convert(g, o, rd) : rd \in ReadingsFor(g)}
Accept(g, o, obs) == obs \in Acceptable(g, o)

-----------------------------------------------------------------------------
(* The conversion laws (stated independently of Convert)                   *)

\* v is a faithful image of g: same structure, same scalars, struct fields
\* under their (lowerCamel) names, unexported fields absent, nil -> null
RECURSIVE Faithful(_, _, _)
Faithful(g, v, o) ==
  CASE g.g = "nil" -> v = Null
    [] g.g = "bool" -> v.t = "bool" /\ v.v = g.v
    [] g.g = "int" -> IF "big" \in DOMAIN g THEN v.t = "bigint" /\ v.v = g.big
                      ELSE v.t = "int" /\ v.v = g.v
    [] g.g = "float" -> IF "sym" \in DOMAIN g THEN v.t = "fsym" /\ v.v = g.sym
                        ELSE v = F(g.num, g.sh)
    [] g.g = "str" -> v.t = "str" /\ "v" \in DOMAIN v /\ v.v = g.v
    [] g.g = "time" -> v.t = "str" /\ (IF o.tf = "empty" THEN v = IsoTime(g.v)
                                       ELSE "v" \in DOMAIN v /\ v.v = TimeText(g.v, o.tf))
    [] g.g \in {"slice", "array"} ->
         /\ v.t = "list" /\ Len(v.v) = Len(g.v)
         /\ \A i \in 1..Len(g.v) : Faithful(g.v[i], v.v[i], o)
    [] g.g = "map" ->
         /\ v.t = "map" /\ DOMAIN v.v = DOMAIN g.v
         /\ \A k \in DOMAIN g.v : Faithful(g.v[k], v.v[k], o)
    [] g.g = "struct" ->
         IF MV(g, FALSE) # NoMV THEN v = MarshalResult(MV(g, FALSE))
         ELSE LET ex == {i \in 1..Len(g.v) : Exported(g.v[i].name)} IN
              /\ v.t = "map" /\ DOMAIN v.v = {KeyLaw(g.v[i], o) : i \in ex}
              /\ \A i \in ex : Faithful(g.v[i].val, v.v[KeyLaw(g.v[i], o)], o)
    [] g.g \in {"ptr", "iface"} ->
         IF g.nil THEN v = Null
         ELSE IF g.g = "ptr" /\ MV(g.v, TRUE) # NoMV THEN v = MarshalResult(MV(g.v, TRUE))
         ELSE Faithful(g.v, v, o)
    [] g.g = "marshaler" ->
         IF RecvOf(g.ty) = "value" THEN v = MarshalResult(g) ELSE Faithful(PlainOf(g), v, o)
    [] g.g = "value" -> v = g.v

FaithfulLaw(g, o) == Faithful(g, Convert(g, o, Rd0), o)

\* whatever implements Marshaler - the value, or the pointer through which
\* it is reached - is converted by its MarshalValue, wherever it sits
RECURSIVE UsesMarshaler(_, _)
UsesMarshaler(g, v) ==
  CASE g.g = "ptr" /\ ~g.nil ->
         IF MV(g.v, TRUE) # NoMV THEN v = MarshalResult(MV(g.v, TRUE)) ELSE UsesMarshaler(g.v, v)
    [] g.g = "iface" /\ ~g.nil -> UsesMarshaler(g.v, v)
    [] g.g = "marshaler" -> RecvOf(g.ty) = "value" => v = MarshalResult(g)
    [] g.g = "struct" ->
         IF MV(g, FALSE) # NoMV THEN v = MarshalResult(MV(g, FALSE))
         ELSE v.t = "map" /\ \A i \in 1..Len(g.v) :
                (Exported(g.v[i].name) /\ KeyLaw(g.v[i], [lc |-> TRUE]) \in DOMAIN v.v)
                   => UsesMarshaler(g.v[i].val, v.v[KeyLaw(g.v[i], [lc |-> TRUE])])
    [] g.g \in {"slice", "array"} ->
         v.t = "list" /\ Len(v.v) = Len(g.v) /\ \A i \in 1..Len(g.v) : UsesMarshaler(g.v[i], v.v[i])
    [] g.g = "map" /\ ~g.nil ->
         v.t = "map" /\ \A k \in DOMAIN g.v \cap DOMAIN v.v : UsesMarshaler(g.v[k], v.v[k])
    [] OTHER -> TRUE
MarshalerLaw(g, o) == o.lc => UsesMarshaler(g, Convert(g, o, Rd0))

\* converting a converted value changes nothing, under any options
IdempotentLaw(g, o) ==
  LET v == Convert(g, o, Rd0) IN
  \A o2 \in MainOpts \cup TimeOpts : \A rd \in AllReadings : Convert(GValue(v), o2, rd) = v

\* typed nils: a nil pointer / nil interface anywhere becomes null, a nil
\* slice the empty list, a nil map the empty map - never undefined
RECURSIVE NoUndefFromNil(_, _)
NoUndefFromNil(g, v) ==
  CASE g.g \in {"ptr", "iface"} -> IF g.nil THEN v = Null ELSE NoUndefFromNil(g.v, v)
    [] g.g \in {"slice", "array"} ->
         v.t = "list" /\ Len(v.v) = Len(g.v) /\ \A i \in 1..Len(g.v) : NoUndefFromNil(g.v[i], v.v[i])
    [] g.g = "map" ->
         v.t = "map" /\ DOMAIN g.v = DOMAIN v.v /\ \A k \in DOMAIN g.v : NoUndefFromNil(g.v[k], v.v[k])
    [] OTHER -> TRUE
NilLaw(g, o) == \A rd \in ReadingsFor(g) : NoUndefFromNil(g, Convert(g, o, rd))

\* with LowerCamel on, no struct contributes a key starting with an upper
\* case letter (holds under both readings of embedding)
RECURSIVE LowerKeys(_, _)
LowerKeys(g, v) ==
  CASE g.g = "struct" /\ MV(g, TRUE) # NoMV -> TRUE      \* (possibly) marshals itself: keys are its own
    [] g.g = "struct" ->
         /\ v.t = "map" /\ \A k \in DOMAIN v.v : ~StartsUpper(k)
         /\ \A i \in 1..Len(g.v) :
              LET k == LowerFirst(g.v[i].name) IN
              (Exported(g.v[i].name) /\ k \in DOMAIN v.v) => LowerKeys(g.v[i].val, v.v[k])
    [] g.g \in {"slice", "array"} ->
         v.t = "list" /\ Len(v.v) = Len(g.v) /\ \A i \in 1..Len(g.v) : LowerKeys(g.v[i], v.v[i])
    [] g.g = "map" /\ ~g.nil /\ v.t = "map" -> \A k \in DOMAIN g.v \cap DOMAIN v.v : LowerKeys(g.v[k], v.v[k])
    [] g.g = "ptr" /\ ~g.nil /\ MV(g.v, TRUE) # NoMV -> TRUE
    [] g.g \in {"ptr", "iface"} /\ ~g.nil -> LowerKeys(g.v, v)
    [] OTHER -> TRUE
LowerCamelLaw(g, o) == o.lc => \A rd \in ReadingsFor(g) : LowerKeys(g, Convert(g, o, rd))

\* the value laws on everything a conversion produces
IsIso(v) == v.t = "str" /\ "iso" \in DOMAIN v
ValueLaws(g, o) ==
  \A v \in SubValues(Convert(g, o, Rd0)) :
     IsIso(v) \/ (TruthTableLaw(v) /\ TextFunctionLaw(v))

\* descriptor well-formedness (also checked on recorded descriptors)
RECURSIVE WellFormed(_)
WellFormed(g) ==
  /\ CASE g.g = "int" -> "big" \in DOMAIN g \/ (KindOK(g.kind, g.v) /\ Abs(g.v) < 1073741824)
       [] g.g = "float" -> "sym" \in DOMAIN g \/ (g.sh >= 0 /\ g.sh <= 20 /\ Abs(g.num) < 16777216)
       [] g.g = "time" -> g.v \in TimeIds
       [] g.g = "slice" -> g.nil => Len(g.v) = 0
       [] g.g = "map" -> g.nil => DOMAIN g.v = {}
       [] g.g = "struct" -> \A i, j \in 1..Len(g.v) : i # j => g.v[i].name # g.v[j].name
       [] OTHER -> TRUE
  /\ \A k \in Kids(g) : WellFormed(k)

\* the domain of the property: well-formed, and no pointer (directly or
\* through an interface variable) to something that already is a data.Value
RECURSIVE InDomain(_)
InDomain(g) ==
  /\ g.g = "ptr" /\ ~g.nil => /\ g.v.g # "value"
                              /\ ~(g.v.g = "iface" /\ ~g.v.nil /\ g.v.v.g = "value")
  \* embedded marshalers: at most one, and not through a nil pointer (Go
  \* would promote the method and then fail inside the call)
  /\ g.g = "struct" =>
       /\ Cardinality({i \in 1..Len(g.v) : g.v[i].emb /\ EmbMV(g.v[i].val, TRUE) # NoMV}) <= 1
       /\ \A i \in 1..Len(g.v) : g.v[i].emb => ~(g.v[i].val.g = "ptr" /\ g.v[i].val.nil /\ Len(g.v[i].val.to) > 10
                                              /\ SubSeq(g.v[i].val.to, 1, 10) = "marshaler:")
  /\ \A k \in Kids(g) : InDomain(k)

-----------------------------------------------------------------------------
(* Bounded pools of abstract Go values (CONSTANT-free; Size picks the      *)
(* width: 1 = quick, 2 = thorough)                                         *)

SmallInts == {0, 1, -1, 127, -128}

IntLeaves ==
     {GInt(k, n) : k \in IntKindsS, n \in SmallInts}
  \cup {GInt(k, n) : k \in IntKindsU, n \in {0, 1, 127}}
  \cup {GInt("uint8", 128), GInt("uint8", 200), GInt("uint8", 255),
        GInt("int16", 32767), GInt("int16", -32768), GInt("uint16", 32768), GInt("uint16", 65535),
        GInt("int32", 65536), GInt("uint32", 65536), GInt("int", 1073741823), GInt("int64", -1073741823),
        GBigInt("int32", "2147483647"), GBigInt("int32", "-2147483648"),
        GBigInt("uint32", "2147483648"), GBigInt("uint32", "4294967295"),
        GBigInt("int64", "9223372036854775807"), GBigInt("int64", "-9223372036854775808"),
        GBigInt("int", "4294967296"), GBigInt("int", "-9007199254740993"),
        GBigInt("uint", "9223372036854775807"), GBigInt("uint64", "9223372036854775807"),
        GBigInt("uint64", "4294967296"), GBigInt("duration", "3600000000000")}

Dyadics == {<<0, 0>>, <<1, 0>>, <<-1, 0>>, <<1, 1>>, <<-5, 2>>, <<3, 0>>, <<5, 1>>, <<1048577, 10>>}
FloatLeaves ==
     {GFloat(k, d[1], d[2]) : k \in FloatKinds, d \in Dyadics}
  \cup {GFloatSym(k, s) : k \in FloatKinds, s \in {"nan", "pinf", "ninf", "nzero"}}

StrLeaves == {GStr(""), GStr("a"), GStr("0"), GStr("false"), GStr("null"), GStr("<b>"),
              GNamedStr(""), GNamedStr("Zed")}

MarshalerLeaves == {GMarshaler("idurl", [id |-> 1, url |-> "u"]), GMarshaler("idurl", [id |-> 0, url |-> ""]),
                    GMarshaler("mint", [n |-> 7]), GMarshaler("mnull", [n |-> 0]),
                    GMarshaler("mlist", [n |-> 2])}

SoyLeafValues == {Undef, Null, B(TRUE), B(FALSE), I(0), I(5), F(0, 0), F(5, 1), NaN, S(""), S("x"),
                  L(<<>>), L(<<I(1)>>), M(EmptyFn), M("a" :> Null), M("a" :> L(<<F(5, 1)>>))}

Leaves == {GNil, GBool(TRUE), GBool(FALSE)} \cup IntLeaves \cup FloatLeaves \cup StrLeaves
          \cup {GTime(id) : id \in TimeIds} \cup MarshalerLeaves \cup {GValue(v) : v \in SoyLeafValues}

\* reduced sets for the positions that are squared
R0(size) ==
  {GNil, GBool(FALSE), GInt("uint8", 200), GFloat("float32", 5, 1), GFloatSym("float64", "nan"),
   GStr(""), GTime("leap"), GValue(L(<<I(1)>>))}
  \cup (IF size >= 2 THEN {GBool(TRUE), GInt("int64", 0), GBigInt("int64", "-9223372036854775808"),
                            GFloat("float64", 0, 0), GStr("a"), GMarshaler("idurl", [id |-> 1, url |-> "u"]),
                            GValue(Undef), GValue(M("a" :> Null))}
        ELSE {})

NilTypes == {"int", "bool", "string", "float64", "time", "struct:AInt", "slice:int", "map:string",
             "ptr:int", "iface", "marshaler:idurl"}

\* A pointer to a data.Value (or to an interface holding one) is itself a
\* data.Value by Go's method-set rule: outside the domain (see InDomain).
Pointable(X) == {x \in X : x.g \notin {"nil", "value"}}

\* containers with one-place positions over UU and two-place positions over BB
ContU(UU) ==
       {GPtr(x) : x \in Pointable(UU)}
  \cup {GSlice(<<x>>) : x \in UU} \cup {GSliceT(<<x>>) : x \in UU \ {GNil}}
  \cup {GMap("k" :> x) : x \in UU} \cup {GMapT("Key" :> x) : x \in UU \ {GNil}}
  \cup {GStruct("", <<Fld("A", x)>>) : x \in UU}      \* generated shape (reflect.StructOf)

ContB(BB) ==
  \* pointers and interfaces
       {GPtr(GIface(x)) : x \in Pointable(BB)} \cup {GPtr(GNilIface)}
  \cup {GPtr(GPtr(x)) : x \in Pointable(BB)}
  \cup {GNilPtr(t) : t \in NilTypes} \cup {GPtr(GNilPtr("int"))}
  \* slices and arrays
  \cup {GSlice(<<x, y>>) : x, y \in BB} \cup {GSliceT(<<x, x>>) : x \in BB \ {GNil}}
  \cup {GSlice(<<x, GNil, x>>) : x \in BB}
  \cup {GNilSlice(t) : t \in {"bool", "iface", "ptr:int"}} \cup {GEmptySlice(t) : t \in {"bool", "iface"}}
  \cup {GArray(<<x>>) : x \in BB \ {GNil}}
  \* maps
  \cup {GMap(("a" :> x) @@ ("b" :> y)) : x, y \in BB}
  \cup {GNilMap(t) : t \in {"string", "iface"}} \cup {GEmptyMap(t) : t \in {"string", "iface"}}
  \* structs: generated exported shapes (reflect.StructOf) with tags ...
  \cup {GStruct("", <<Fld("Foo", x), FldTag("BarBaz", "json:\"bb\" soy:\"qq\"", y)>>) : x, y \in BB}
  \* ... and the declared types of the harness (fields of type interface{})
  \cup {GStruct("AbU", <<Fld("A", x), Fld("b", GInt("int", 5)), Fld("URL", y), Fld("ID", GInt("int", 1))>>) : x, y \in BB}
  \cup {GStruct("OuterE", <<FldEmb("Inner", GStruct("Inner", <<Fld("X", x)>>)), Fld("Y", y)>>) : x, y \in BB}
  \cup {GStruct("OuterP", <<FldEmb("Inner", GPtr(GStruct("Inner", <<Fld("X", x)>>))), Fld("Y", y)>>) : x, y \in BB}
  \cup {GStruct("OuterP", <<FldEmb("Inner", GNilPtr("struct:Inner")), Fld("Y", y)>>) : y \in BB}
  \cup {GStruct("OuterU", <<FldEmb("inner", GStruct("inner", <<Fld("Z", x)>>)), Fld("Y", y)>>) : x, y \in BB}
  \cup {GStruct("OuterS", <<FldEmb("Inner", GStruct("Inner", <<Fld("X", x)>>)), Fld("X", y)>>) : x, y \in BB}
  \cup {GStruct("Uni", <<Fld("Élan", x), Fld("Ωmega", GInt("int", 1)), Fld("été", GInt("int", 2))>>) : x \in BB}

Cont(UU, BB) == ContU(UU) \cup ContB(BB)

\* declared struct types with typed fields (fixed instances)
TypedStructs ==
  {GStruct("Typed", <<Fld("I8", GInt("int8", i)), Fld("U16", GInt("uint16", 65535)), Fld("F32", GFloat("float32", 5, 1)),
                      Fld("S", GStr("s")), Fld("P", p), Fld("T", GTime("jan1")), Fld("PT", pt),
                      Fld("L", l), Fld("M", m), Fld("V", GValue(I(5))), Fld("DI", GValue(I(7))),
                      Fld("no", GInt("int", 5))>>) :
     i \in {-128, 0}, p \in {GNilPtr("int"), GPtr(GInt("int", 2))},
     pt \in {GNilPtr("time"), GPtr(GTime("nov10"))},
     l \in {GNilSlice("int"), GSliceT(<<GInt("int", 1)>>)},
     m \in {GNilMap("bool"), GMapT("a" :> GBool(TRUE))}}

G1(size) == Cont(Leaves, R0(size)) \cup TypedStructs

\* one container of every flavour, for the squared positions of depth 2
R1(size) ==
  R0(size) \cup
  {GPtr(GInt("int", 2)), GNilPtr("int"), GNilPtr("struct:AInt"), GSliceT(<<GInt("uint8", 200)>>), GNilSlice("bool"),
   GNilMap("string"), GMap("k" :> GNil), GStruct("", <<Fld("A", GStr("a"))>>),
   GStruct("OuterE", <<FldEmb("Inner", GStruct("Inner", <<Fld("X", GInt("int", 1))>>)), Fld("Y", GNil)>>),
   GPtr(GStruct("", <<Fld("A", GNilPtr("int"))>>))}
  \cup (IF size >= 2 THEN {GPtr(GIface(GStr("a"))), GSlice(<<GNil, GBool(FALSE)>>), GEmptyMap("string"),
                            GPtr(GMarshaler("idurl", [id |-> 1, url |-> "u"])), GPtr(GTime("nov10")),
                            GStruct("AbU", <<Fld("A", GNil), Fld("b", GInt("int", 5)), Fld("URL", GStr("")), Fld("ID", GInt("int", 1))>>),
                            GMapT("Key" :> GFloatSym("float64", "nan")), GArray(<<GInt("int", 1)>>)}
        ELSE {})

G2(size) == Cont(G1(size), R1(size))


\* The marshaler family: every Marshaler implementation of the harness
\* (receiver kind value / pointer; struct and non-struct types; every kind of
\* result, nil included) x every way of reaching it (bare T, *T, **T, nil *T,
\* an interface{} variable holding T or *T, element of []interface{} / []T /
\* []*T / array, map value, struct field of type T / *T / interface{},
\* pointer to such a struct, embedded by value / by pointer in a struct met
\* by value / through a pointer).
ResultKinds == {Undef, Null, B(TRUE), I(5), F(5, 1), NaN, S(""), S("x"), L(<<I(1)>>), M("a" :> Null), GoNil}
Marshalers ==
  MarshalerLeaves
  \cup {GMarshaler("pmoney", [cents |-> 1250, cur |-> "EUR"]), GMarshaler("pint", [n |-> 7])}
  \cup {GMarshaler(ty, [v |-> x]) : ty \in {"many", "pany"}, x \in ResultKinds}
NilOf(m) == GNilPtr("marshaler:" \o m.ty)
Reach(m) ==
  {m, GPtr(m), GPtr(GPtr(m)), GPtr(GPtr(GPtr(m))), NilOf(m), GPtr(NilOf(m)),
   GPtr(GIface(m)), GPtr(GIface(GPtr(m))),
   GSlice(<<m>>), GSliceT(<<m, m>>), GSlice(<<GPtr(m), GNil>>), GSliceT(<<GPtr(m), NilOf(m)>>), GArray(<<GPtr(m)>>),
   GMap("k" :> m), GMap("k" :> GPtr(m)), GMapT("Key" :> GPtr(m)), GMapT("Key" :> m),
   GStruct("", <<Fld("A", m)>>), GStruct("", <<Fld("A", GPtr(m))>>), GStruct("", <<Fld("Price", GIface(GPtr(m)))>>),
   GPtr(GStruct("", <<Fld("A", m), Fld("B", GPtr(m))>>))}
EmbShapes ==
  LET idurl == GMarshaler("idurl", [id |-> 1, url |-> "u"])
      pm == GMarshaler("pmoney", [cents |-> 1250, cur |-> "EUR"]) IN
  UNION {{GStruct("OuterMV", <<FldEmb("MIDURL", idurl), Fld("Y", y)>>),
          GStruct("OuterPM", <<FldEmb("PMoney", pm), Fld("Y", y)>>),
          GStruct("OuterPMP", <<FldEmb("PMoney", GPtr(pm)), Fld("Y", y)>>)} : y \in {GNil, GInt("int", 1)}}
MarshalerFamily ==
  UNION {Reach(m) : m \in Marshalers}
  \cup UNION {{e, GPtr(e), GPtr(GPtr(e)), GSlice(<<GPtr(e), e>>), GMap("k" :> GPtr(e)),
               GStruct("", <<Fld("A", e), Fld("B", GPtr(e))>>)} : e \in EmbShapes}

\* ---- pointers to interface variables, and finite shapes that look cyclic --
\* The element of a *interface{} is the only place where reflection meets
\* Kind Interface, so it gets a family of its own: *interface{} holding every
\* kind of value, **interface{}, an interface holding a pointer to an
\* interface, []*interface{}, map values and struct fields of type
\* *interface{}, interfaces holding containers that hold pointers to
\* interfaces, typed nils inside the interface.  Then finite linked lists
\* (a struct with a pointer to its own type, nil at the end) and SHARED
\* pointers (share: the harness builds ONE pointer and uses it in every
\* place; conversion is by value, so sharing must be invisible).
GShared(x) == [g |-> "ptr", nil |-> FALSE, share |-> TRUE, v |-> x]
Node(val, next) == GStruct("Node", <<Fld("Val", val), Fld("Next", next)>>)
NilNode == GNilPtr("struct:Node")
IfaceFamily ==
       {GPtr(GIface(x)) : x \in Pointable(Leaves)}
  \cup UNION {{GPtr(GPtr(GIface(x))), GPtr(GIface(GPtr(GIface(x)))), GPtr(GIface(GPtr(x))),
               GPtr(GPtr(GIface(GPtr(GPtr(GIface(x)))))),
               GSliceT(<<GPtr(GIface(x)), GPtr(GNilIface)>>), GSlice(<<GPtr(GIface(x)), x>>),
               GMapT("k" :> GPtr(GIface(x))), GMap("k" :> GPtr(GPtr(GIface(x)))),
               GStruct("", <<Fld("P", GPtr(GIface(x))), Fld("Q", GPtr(GNilIface))>>),
               GPtr(GStruct("", <<Fld("P", GPtr(GIface(x)))>>)),
               GPtr(GIface(GSlice(<<GPtr(GIface(x))>>))), GPtr(GIface(GMap("k" :> x))),
               GPtr(GIface(GStruct("", <<Fld("A", x)>>))),
               GStruct("AbU", <<Fld("A", GPtr(GIface(x))), Fld("b", GInt("int", 5)), Fld("URL", GNil), Fld("ID", GPtr(GIface(GPtr(GIface(x)))))>>)}
              : x \in Pointable(R0(2))}
  \cup {GPtr(GIface(x)) : x \in {GNilPtr("int"), GNilSlice("bool"), GNilMap("string"), GEmptySlice("bool"),
                                 GSlice(<<>>), GNilPtr("struct:AInt"), GNilPtr("marshaler:idurl"), GPtr(GNilPtr("int"))}}
CyclicLooking ==
  LET n1 == Node(GInt("int", 1), NilNode)
      n2 == Node(GStr("a"), GPtr(Node(GStr("b"), NilNode)))
      n3 == Node(GInt("int", 1), GPtr(Node(GInt("int", 2), GPtr(Node(GPtr(GIface(GInt("int", 3))), NilNode)))))
      ps == {GShared(GInt("int", 7)), GShared(GIface(GStr("s"))), GShared(n2), GShared(GSlice(<<GInt("int", 1)>>)),
             GShared(GPtr(GIface(GBool(TRUE))))} IN
  {n1, GPtr(n1), n2, GPtr(n2), n3, GPtr(n3), GSlice(<<GPtr(n2), GPtr(n3)>>), GPtr(GIface(GPtr(n3)))}
  \cup UNION {{GSlice(<<p, p>>), GSliceT(<<p, p, p>>), GMap(("a" :> p) @@ ("b" :> p)),
               GStruct("", <<Fld("A", p), Fld("B", p)>>), GSlice(<<p, GSlice(<<p>>), GMap("k" :> p)>>),
               Node(p, GPtr(Node(p, NilNode)))} : p \in ps}

\* ---- conversion histories -------------------------------------------------
\* Conversion must be a function of the value alone: converting g after any
\* other conversions in the same process yields what converting g alone
\* yields.  The family: DISTINCT struct types that collide under every
\* plausible cache key - the printed name (reflect.Type.String(): function-
\* local types "row" of one package; types "Row" of two packages whose import
\* paths end in the same element), the bare name (pkga.Row / pkgb.Row), kind
\* + number of fields, the list of field names - but differ in the fields:
\* count, order, names, types, tags, exportedness.
HFld(name, tag, val) == [name |-> name, emb |-> FALSE, tag |-> tag, val |-> val]
HistStructs ==
  {GStruct("row1", <<HFld("Title", "", GStr("Go")), HFld("Pages", "", GInt("int", 300))>>),
   GStruct("row2", <<HFld("Name", "", GStr("ann")), HFld("Email", "", GStr("a@b")), HFld("Admin", "", GBool(TRUE))>>),
   GStruct("row3", <<HFld("Pages", "", GInt("int", 300)), HFld("Title", "", GStr("Go"))>>),        \* other order
   GStruct("row4", <<HFld("Title", "", GInt("int", 7)), HFld("Pages", "", GStr("many"))>>),         \* other types
   GStruct("row5", <<HFld("Title", "", GStr("Go")), HFld("pages", "", GInt("int", 300))>>),        \* other exportedness
   GStruct("row6", <<HFld("Title", "json:\"t\"", GStr("Go")), HFld("Pages", "soy:\"p\"", GInt("int", 300))>>),  \* other tags
   GStruct("row7", <<HFld("A", "", GStr("x"))>>),                                                   \* fewer fields
   GStruct("row8", <<HFld("hidden", "", GInt("int", 1)), HFld("Title", "", GStr("Go")), HFld("Pages", "", GInt("int", 300))>>),
   GStruct("v1.Row", <<HFld("ID", "", GInt("int", 1)), HFld("Label", "", GStr("one"))>>),
   GStruct("v2.Row", <<HFld("Label", "", GStr("two")), HFld("ID", "", GInt("int", 2)), HFld("Extra", "", GBool(FALSE))>>),
   GStruct("pkga.Row", <<HFld("X", "", GInt("int", 1))>>),
   GStruct("pkgb.Row", <<HFld("X", "", GStr("s")), HFld("Y", "", GInt("int", 2))>>)}
\* the same types reached through a pointer / in a slice (the cache is hit
\* from nested conversions too)
HistValues == HistStructs \cup {GPtr(x) : x \in HistStructs} \cup {GSlice(<<x>>) : x \in HistStructs}

\* what reflect.Type.String() prints for the declared type ty
PrintedName(ty) ==
  CASE ty \in {"row1", "row2", "row3", "row4", "row5", "row6", "row7", "row8"} -> "c20.row"
    [] ty \in {"v1.Row", "v2.Row"} -> "models.Row"
    [] OTHER -> ty

\* the exported fields of a struct as a list of (index, key)
RECURSIVE FieldListFrom(_, _, _)
FieldListFrom(fs, i, o) ==
  IF i > Len(fs) THEN <<>>
  ELSE (IF Exported(fs[i].name) THEN <<[index |-> i, key |-> KeyLaw(fs[i], o)]>> ELSE <<>>)
       \o FieldListFrom(fs, i + 1, o)

Panic == [t |-> "panic"]       \* the conversion does not return

\* Conversion with a process-wide cache (a function from cache keys to field
\* lists).  The reference design keys it by the TYPE (ty): a hit returns what
\* a walk over the type returns, i.e. the cache is invisible.  The deviation
\* keys it by the printed name.
CacheKey(g, o) == <<IF "cache_by_printed_name" \in Dev THEN PrintedName(g.ty) ELSE g.ty, o.lc>>
RECURSIVE ConvertH(_, _, _)
ConvertH(g, o, cache) ==
  CASE g.g = "struct" ->
         LET k == CacheKey(g, o)
             fl == IF k \in DOMAIN cache THEN cache[k] ELSE FieldListFrom(g.v, 1, o) IN
         IF \E j \in 1..Len(fl) : fl[j].index > Len(g.v) \/ ~Exported(g.v[fl[j].index].name) THEN Panic
         ELSE M([key \in {fl[j].key : j \in 1..Len(fl)} |->
                   Convert(g.v[fl[CHOOSE j \in 1..Len(fl) : fl[j].key = key].index].val, o, Rd0)])
    [] g.g = "ptr" /\ ~g.nil -> ConvertH(g.v, o, cache)
    [] g.g = "slice" -> LET xs == [i \in 1..Len(g.v) |-> ConvertH(g.v[i], o, cache)] IN
                        IF \E i \in 1..Len(xs) : xs[i] = Panic THEN Panic ELSE L(xs)
    [] OTHER -> Convert(g, o, Rd0)
RECURSIVE CacheAfter(_, _, _)
CacheAfter(g, o, cache) ==
  CASE g.g = "struct" ->
         LET k == CacheKey(g, o) IN
         IF k \in DOMAIN cache THEN cache ELSE (k :> FieldListFrom(g.v, 1, o)) @@ cache
    [] g.g = "ptr" /\ ~g.nil -> CacheAfter(g.v, o, cache)
    [] g.g = "slice" /\ Len(g.v) = 1 -> CacheAfter(g.v[1], o, cache)
    [] OTHER -> cache

Pool(size) == Leaves \cup G1(size) \cup G2(size) \cup MarshalerFamily \cup HistValues \cup IfaceFamily \cup CyclicLooking

\* the same pool cut into parts (one TLC process each)
PoolPart(size, part) ==
  CASE part = 0 -> Leaves \cup G1(size)
    [] part = 1 -> {GPtr(x) : x \in Pointable(G1(size))} \cup {GStruct("", <<Fld("A", x)>>) : x \in G1(size)}
    [] part = 2 -> {GSlice(<<x>>) : x \in G1(size)} \cup {GSliceT(<<x>>) : x \in G1(size)}
    [] part = 3 -> {GMap("k" :> x) : x \in G1(size)} \cup {GMapT("Key" :> x) : x \in G1(size)}
    [] part = 4 -> ContB(R1(size))
    [] part = 5 -> MarshalerFamily \cup HistValues \cup IfaceFamily \cup CyclicLooking
Parts == 0..5

\* Go values whose conversions feed the pair laws (depth <= 1; arrays left
\* out: the real converter rejects them).  GValue(Undef) is a leaf, so
\* undefined takes part.
PairSource(size) ==
  {x \in Leaves \cup (IF size >= 2 THEN G1(1) ELSE Cont(R0(2), R0(1))) : ~HasArray(x)}

=============================================================================
