---------------------------- MODULE SoyDataCases ----------------------------
(***************************************************************************)
(* M2 for C20: TLC enumerates the bounded family of abstract Go values     *)
(* (one initial state per value of the chosen part of the pool) and        *)
(* prints, for each, one JSON line: the descriptor from which the harness  *)
(* constructs the real Go value, and for every setting of the struct       *)
(* options the Soy value the conversion must yield (v: reference reading;  *)
(* alts: the other acceptable readings), its truthiness and its text.      *)
(* rend = what Tofu.Render must make of it: the text of {$k} for every     *)
(* printable top-level key, or an error if the result is not a map.        *)
(***************************************************************************)
EXTENDS SoyData, Json

\* KEEP FIRST.  TLC compares two records field by field in the order in
\* which the field NAMES were first seen (interned), and stops at the first
\* difference; comparing a boolean v with an integer v is an error.  The tag
\* fields g and t must therefore be seen before any other field name of this
\* root module (e.g. an identifier v), so that tags are compared first.
TagsFirst == [g |-> "g", t |-> "t"]

CONSTANTS Size, Part

VARIABLE g

OptsFor(x) == IF HasTime(x) THEN MainOpts \cup TimeOpts ELSE MainOpts

IdentChars == "abcdefghijklmnopqrstuvwxyzABCDEFGHIJKLMNOPQRSTUVWXYZ0123456789_"
Digits == "0123456789"
InStr(c, s) == \E i \in 1..Len(s) : SubSeq(s, i, i) = c
IsIdent(k) == /\ k # "" /\ ~InStr(SubSeq(k, 1, 1), Digits)
              /\ \A i \in 1..Len(k) : InStr(SubSeq(k, i, i), IdentChars)

TextOf(v) == IF PrintableD(v) THEN [ok |-> TRUE, s |-> TextD(v, TRUE)] ELSE [ok |-> FALSE]

Rend(v) ==
  IF v.t = "map"
  THEN [kind |-> "map",
        f |-> [k \in {k \in DOMAIN v.v : IsIdent(k) /\ PrintableD(v.v[k])} |-> TextD(v.v[k], TRUE)]]
  ELSE IF v = Null THEN [kind |-> "nullish"]      \* nil -> no data; typed nil -> error: both return
  ELSE [kind |-> "error"]

Exp(x, o) ==
  LET v == Convert(x, o, Rd0) IN
  [o |-> o, v |-> v, alts |-> SetToSeq(Acceptable(x, o) \ {v}),
   truthy |-> IF IsIso(v) THEN TRUE ELSE TruthyD(v), text |-> TextOf(v)]

Case(x) == [g |-> x, exp |-> SetToSeq({Exp(x, o) : o \in OptsFor(x)}),
            rend |-> Rend(Convert(x, DefaultOpts, Rd0))]

Init == g \in PoolPart(Size, Part)
Next == UNCHANGED g

Emit == PrintT(ToJson(Case(g)))
=============================================================================
