----------------------------- MODULE SoyDataHist -----------------------------
(***************************************************************************)
(* C20, conversion HISTORIES: conversion is a function of the value alone. *)
(* A behaviour is a sequence of conversions done by one process (fresh at  *)
(* the start), each step a (Go value, options) from SoyData!HistValues -    *)
(* distinct struct types that share a printed name / a bare name / a field  *)
(* count / field names.  The process may keep a cache between conversions   *)
(* (variable cache); out is what the last conversion returned.             *)
(*                                                                         *)
(* M1: InvHistory - whatever the prefix, out is Convert of the last value  *)
(* alone.  The deviation "cache_by_printed_name" violates it at depth 2.   *)
(* M2: Emit prints every history of length Len as one JSON line (steps     *)
(* with the expected value of each); the harness runs each history in a    *)
(* FRESH process of the real code and compares every step with the spec    *)
(* and with the same conversion done alone.                                *)
(***************************************************************************)
EXTENDS SoyData, Json

\* KEEP FIRST (see SoyDataMC): tag fields must be interned first.
TagsFirst == [g |-> "g", t |-> "t"]

CONSTANTS MaxLen,        \* histories of up to MaxLen conversions
          Wide           \* TRUE: every value of HistValues; FALSE: the struct values only

VARIABLES hist, cache, out

Steps == {[g |-> x, o |-> o] : x \in (IF Wide THEN HistValues ELSE HistStructs), o \in MainOpts}

Init == hist = <<>> /\ cache = <<>> /\ out = Null
Next == /\ Len(hist) < MaxLen
        /\ \E st \in Steps :
             /\ hist' = Append(hist, st)
             /\ out' = ConvertH(st.g, st.o, cache)
             /\ cache' = CacheAfter(st.g, st.o, cache)

LastStep == hist[Len(hist)]
Cex == PrintT("CEX " \o ToJson([law |-> "InvHistory", hist |-> hist, out |-> out]))
InvHistory == (hist = <<>>) \/ out = Convert(LastStep.g, LastStep.o, Rd0) \/ ~Cex

Emit == Len(hist) = MaxLen =>
          PrintT(ToJson([steps |-> [i \in 1..Len(hist) |->
                                      [g |-> hist[i].g, o |-> hist[i].o, v |-> Convert(hist[i].g, hist[i].o, Rd0)]]]))
=============================================================================
