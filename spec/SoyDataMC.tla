------------------------------ MODULE SoyDataMC ------------------------------
(***************************************************************************)
(* C20, conversion.  One initial state per (abstract Go value g of depth   *)
(* <= 2 from the bounded pools of SoyData, struct options o).              *)
(*                                                                         *)
(* M1: every invariant Inv* is a law of the property, checked on the       *)
(* model over the whole family.  A violated law prints the case            *)
(* ("CEX <json>") so that the harness can replay it on the real code.      *)
(* With a deviation switched on (Dev # {}) arrays are left out of the      *)
(* family: the real converter rejects them, and a counterexample should be *)
(* replayable.                                                             *)
(*                                                                         *)
(* M2: the always-true invariant Emit prints each case as one JSON line:   *)
(* the descriptor g from which the harness constructs the real Go value,   *)
(* the options, the Soy value the conversion must yield (v: reference      *)
(* reading, alts: the other acceptable readings), its truthiness and text, *)
(* and (default options only) rend = what Tofu.Render must make of it: the *)
(* text of {$k} for every printable top-level key, or an error if the      *)
(* result is not a map.                                                    *)
(***************************************************************************)
EXTENDS SoyData, Json

\* KEEP FIRST.  TLC compares two records field by field in the order in
\* which the field NAMES were first seen (interned), and stops at the first
\* difference; comparing a boolean v with an integer v is an error.  The tag
\* fields g and t must therefore be seen before any other field name of this
\* root module (e.g. an identifier v), so that tags are compared first.
TagsFirst == [g |-> "g", t |-> "t"]

CONSTANTS Size, Part      \* Part \in Parts: which slice of the pool this run covers

VARIABLES g, o

Opts == MainOpts \cup TimeOpts

Init == /\ g \in {x \in PoolPart(Size, Part) : Dev = {} \/ ~HasArray(x)}
        /\ o \in (IF HasTime(g) THEN Opts ELSE MainOpts)
Next == UNCHANGED <<g, o>>

Cex(law) == PrintT("CEX " \o ToJson([law |-> law, g |-> g, o |-> o]))
Check(law, ok) == ok \/ ~Cex(law)

TypeOK        == Check("TypeOK", WellFormed(g) /\ InDomain(g))
InvFaithful   == Check("InvFaithful", FaithfulLaw(g, o))
InvIdempotent == Check("InvIdempotent", IdempotentLaw(g, o))
InvNil        == Check("InvNil", NilLaw(g, o))
InvLowerCamel == Check("InvLowerCamel", LowerCamelLaw(g, o))
InvValueLaws  == Check("InvValueLaws", ValueLaws(g, o))
InvMarshaler  == Check("InvMarshaler", MarshalerLaw(g, o))
\* the readings differ only where the statement leaves a choice
InvReadings   == Check("InvReadings",
                   Unambiguous(g) => Acceptable(g, o) = {Convert(g, o, Rd0)})

-----------------------------------------------------------------------------
\* M2 export

IdentChars == "abcdefghijklmnopqrstuvwxyzABCDEFGHIJKLMNOPQRSTUVWXYZ0123456789_"
Digits == "0123456789"
InStr(ch, s) == \E i \in 1..Len(s) : SubSeq(s, i, i) = ch
IsIdent(k) == /\ k # "" /\ ~InStr(SubSeq(k, 1, 1), Digits)
              /\ \A i \in 1..Len(k) : InStr(SubSeq(k, i, i), IdentChars)

TextOf(x) == IF PrintableD(x) THEN [ok |-> TRUE, s |-> TextD(x, TRUE)] ELSE [ok |-> FALSE]

Rend(x) ==
  IF x.t = "map"
  THEN [kind |-> "map",
        f |-> [k \in {k \in DOMAIN x.v : IsIdent(k) /\ PrintableD(x.v[k])} |-> TextD(x.v[k], TRUE)]]
  ELSE IF x = Null THEN [kind |-> "nullish"]      \* nil -> no data; typed nil -> error: both return
  ELSE [kind |-> "error"]

Case ==
  LET x == Convert(g, o, Rd0) IN
  [g |-> g, o |-> o, v |-> x, alts |-> SetToSeq(Acceptable(g, o) \ {x}),
   truthy |-> IF IsIso(x) THEN TRUE ELSE TruthyD(x), text |-> TextOf(x),
   rend |-> IF o = DefaultOpts THEN Rend(x) ELSE [kind |-> "none"]]

Emit == PrintT(ToJson(Case))
=============================================================================
