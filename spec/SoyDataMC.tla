------------------------------ MODULE SoyDataMC ------------------------------
(***************************************************************************)
(* M1 for C20: the conversion laws over ALL abstract Go values of depth    *)
(* <= 2 drawn from the bounded pools of SoyData, under every setting of    *)
(* the struct options.  One initial state per (value, options); every      *)
(* invariant is a law of the property.  A violated law prints the case as  *)
(* JSON (<<"CEX", law, json>>) so that the harness can replay it on the    *)
(* real code.                                                              *)
(***************************************************************************)
EXTENDS SoyData, Json

\* KEEP FIRST.  TLC compares two records field by field in the order in
\* which the field NAMES were first seen (interned), and stops at the first
\* difference; comparing a boolean v with an integer v is an error.  The tag
\* fields g and t must therefore be seen before any other field name of this
\* root module (e.g. an identifier v), so that tags are compared first.
TagsFirst == [g |-> "g", t |-> "t"]

CONSTANTS Size, Part      \* Part \in Parts: which slice of the pool this run covers

VARIABLES g, o

Opts == MainOpts \cup TimeOpts

Init == g \in PoolPart(Size, Part) /\ o \in (IF HasTime(g) THEN Opts ELSE MainOpts)
Next == UNCHANGED <<g, o>>

Cex(law) == PrintT("CEX " \o ToJson([law |-> law, g |-> g, o |-> o]))
Check(law, ok) == ok \/ ~Cex(law)

TypeOK        == Check("TypeOK", WellFormed(g) /\ InDomain(g))
InvFaithful   == Check("InvFaithful", FaithfulLaw(g, o))
InvIdempotent == Check("InvIdempotent", IdempotentLaw(g, o))
InvNil        == Check("InvNil", NilLaw(g, o))
InvLowerCamel == Check("InvLowerCamel", LowerCamelLaw(g, o))
InvValueLaws  == Check("InvValueLaws", ValueLaws(g, o))
\* the readings differ only where the statement leaves a choice
InvReadings   == Check("InvReadings",
                   (~HasEmb(g) /\ ~HasNilMap(g)) => Acceptable(g, o) = {Convert(g, o, Rd0)})
=============================================================================
