-------------------------- MODULE SoyDataPairCases --------------------------
(***************************************************************************)
(* M2 for C20, value laws on pairs: TLC prints, for a sequence of abstract *)
(* Go values PG (depth <= 1), one JSON line per index i with the Soy value *)
(* V[i] the default conversion yields, its truthiness and text, and the    *)
(* row eq of the equality matrix: eq[j] = "t" / "f" / "u" is what          *)
(* V[i].Equals(V[j]) must return ("u": no claim beyond symmetry).  The     *)
(* harness builds the real Go values, converts them once each, and pushes  *)
(* all pairs of the real results through Equals.  i = j is the same        *)
(* instance: a list or map equals itself.                                  *)
(***************************************************************************)
EXTENDS SoyData, Json

\* KEEP FIRST (see SoyDataCases): tag fields must be interned first.
TagsFirst == [g |-> "g", t |-> "t"]

CONSTANTS Size, Part, NParts     \* this run prints rows i with i % NParts = Part

VARIABLE i

PG == SetToSeq(PairSource(Size))
V == [j \in 1..Len(PG) |-> Convert(PG[j], DefaultOpts, Rd0)]

Eq(j, k) == IF j = k /\ V[j].t \in {"list", "map"} THEN "t" ELSE EqualsD(V[j], V[k])

RECURSIVE Row(_, _)
Row(j, k) == IF k > Len(PG) THEN "" ELSE Eq(j, k) \o Row(j, k + 1)

Init == i \in {j \in 1..Len(PG) : j % NParts = Part}
Next == UNCHANGED i

Emit == PrintT(ToJson([i |-> i, n |-> Len(PG), g |-> PG[i], v |-> V[i], truthy |-> TruthyD(V[i]),
                       text |-> IF PrintableD(V[i]) THEN [ok |-> TRUE, s |-> TextD(V[i], TRUE)] ELSE [ok |-> FALSE],
                       eq |-> Row(i, 1)]))
=============================================================================
