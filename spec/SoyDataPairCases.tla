-------------------------- MODULE SoyDataPairCases --------------------------
(***************************************************************************)
(* M2 for C20, value laws on pairs: TLC prints, for a sequence of abstract *)
(* Go values PG (depth <= 1), one JSON line per index i with the Soy value *)
(* V[i] the default conversion yields, its truthiness and text, and the    *)
(* row eq of the equality matrix (a sequence): eq[j] = "t" / "f" / "u" is what          *)
(* V[i].Equals(V[j]) must return ("u": no claim beyond symmetry).  The     *)
(* harness builds the real Go values, converts them once each, and pushes  *)
(* all pairs of the real results through Equals.  i = j is the same        *)
(* instance: a list or map equals itself.                                  *)
(***************************************************************************)
EXTENDS SoyData, Json

\* KEEP FIRST (see SoyDataCases): tag fields must be interned first.
TagsFirst == [g |-> "g", t |-> "t"]

CONSTANTS Size, Part, NParts     \* this run prints rows i with i % NParts = Part

\* pg and vv are constants of the run kept in the state: TLC re-evaluates a
\* definition at every use, a state variable is evaluated once.
VARIABLES i, pg, vv

Eq(j, k) == IF j = k /\ vv[j].t \in {"list", "map"} THEN "t" ELSE EqualsD(vv[j], vv[k])

Row(j) == [k \in 1..Len(pg) |-> Eq(j, k)]

Init == /\ pg = SetToSeq(PairSource(Size))
        /\ vv = [j \in 1..Len(pg) |-> Convert(pg[j], DefaultOpts, Rd0)]
        /\ i \in {j \in 1..Len(pg) : j % NParts = Part}
Next == UNCHANGED <<i, pg, vv>>

Emit == PrintT(ToJson([i |-> i, n |-> Len(pg), g |-> pg[i], v |-> vv[i], truthy |-> TruthyD(vv[i]),
                       text |-> IF PrintableD(vv[i]) THEN [ok |-> TRUE, s |-> TextD(vv[i], TRUE)] ELSE [ok |-> FALSE],
                       eq |-> Row(i)]))
=============================================================================
