----------------------------- MODULE SoyDataPairs -----------------------------
(***************************************************************************)
(* M1 for C20, value laws on ALL PAIRS of Soy values that conversions of   *)
(* depth <= 1 produce: equality is symmetric, numeric across int/float,    *)
(* never holds across kinds, NaN equals nothing; equal values have the     *)
(* same truthiness and the same text; the truthiness table; text does not  *)
(* depend on map iteration order.                                          *)
(***************************************************************************)
EXTENDS SoyData, Json

\* KEEP FIRST.  TLC compares two records field by field in the order in
\* which the field NAMES were first seen (interned), and stops at the first
\* difference; comparing a boolean v with an integer v is an error.  The tag
\* fields g and t must therefore be seen before any other field name of this
\* root module (e.g. an identifier v), so that tags are compared first.
TagsFirst == [g |-> "g", t |-> "t"]

CONSTANT Size

VARIABLES a, b

\* one initial state per pair (the LET makes TLC build the pool once)
Init == LET vp == ValuePool(Size) IN a \in vp /\ b \in vp
Next == UNCHANGED <<a, b>>

Cex(law) == PrintT("CEX " \o ToJson([law |-> law, a |-> a, b |-> b]))
Check(law, ok) == ok \/ ~Cex(law)

InvPairs  == Check("InvPairs", PairLaws(a, b))
InvTruth  == Check("InvTruth", TruthTableLaw(b))
InvTextFn == Check("InvTextFn", TextFunctionLaw(b))
=============================================================================
