----------------------------- MODULE SoyDataPairs -----------------------------
(***************************************************************************)
(* C20, value laws on ALL PAIRS.  pg is a sequence of abstract Go values   *)
(* of depth <= 1 (SoyData!PairSource), vv[j] the Soy value the default     *)
(* conversion of pg[j] yields; one initial state per row i.                *)
(*                                                                         *)
(* M1: for every j the pair (vv[i], vv[j]) satisfies the pair laws         *)
(* (equality symmetric, numeric across int/float, never across kinds, NaN  *)
(* equal to nothing; equal values have the same truthiness and text); the  *)
(* truthiness table; text does not depend on map iteration order.          *)
(*                                                                         *)
(* M2: Emit prints row i: the descriptor pg[i], the value, its truthiness  *)
(* and text, and eq, where eq[j] = "t" / "f" / "u" is what                 *)
(* vv[i].Equals(vv[j]) must return ("u": no claim beyond symmetry).  The   *)
(* harness builds the real Go values, converts each ONCE and pushes all    *)
(* pairs of real results through Equals.  i = j is the same instance: a    *)
(* list or map equals itself.                                              *)
(***************************************************************************)
EXTENDS SoyData, Json

\* KEEP FIRST (see SoyDataMC): tag fields must be interned first.
TagsFirst == [g |-> "g", t |-> "t"]

CONSTANTS Size, Part, NParts     \* this run covers the rows i with i % NParts = Part

\* pg and vv are constants of the run kept in the state: TLC re-evaluates a
\* definition at every use, a state variable is evaluated once.
VARIABLES i, pg, vv

Init == /\ pg = SetToSeq(PairSource(Size))
        /\ vv = [j \in 1..Len(pg) |-> Convert(pg[j], DefaultOpts, Rd0)]
        /\ i \in {j \in 1..Len(pg) : j % NParts = Part}
Next == UNCHANGED <<i, pg, vv>>

Cex(law, j) == PrintT("CEX " \o ToJson([law |-> law, a |-> vv[i], b |-> vv[j]]))
Check(law, j, ok) == ok \/ ~Cex(law, j)

InvPairs  == \A j \in 1..Len(pg) : Check("InvPairs", j, PairLaws(vv[i], vv[j]))
InvTruth  == Check("InvTruth", i, TruthTableLaw(vv[i]))
InvTextFn == Check("InvTextFn", i, TextFunctionLaw(vv[i]))

Eq(j, k) == IF j = k /\ vv[j].t \in {"list", "map"} THEN "t" ELSE EqualsD(vv[j], vv[k])

Emit == PrintT(ToJson([i |-> i, n |-> Len(pg), g |-> pg[i], v |-> vv[i], truthy |-> TruthyD(vv[i]),
                       text |-> IF PrintableD(vv[i]) THEN [ok |-> TRUE, s |-> TextD(vv[i], TRUE)] ELSE [ok |-> FALSE],
                       eq |-> [k \in 1..Len(pg) |-> Eq(i, k)]]))
=============================================================================
