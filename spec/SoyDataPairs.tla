----------------------------- MODULE SoyDataPairs -----------------------------
(***************************************************************************)
(* M1 for C20, value laws on ALL PAIRS of Soy values that conversions of   *)
(* depth <= 1 produce: equality is symmetric, numeric across int/float,    *)
(* never holds across kinds, NaN equals nothing; equal values have the     *)
(* same truthiness and the same text; the truthiness table; text does not  *)
(* depend on map iteration order.                                          *)
(***************************************************************************)
EXTENDS SoyData, Json

\* KEEP FIRST.  TLC compares two records field by field in the order in
\* which the field NAMES were first seen (interned), and stops at the first
\* difference; comparing a boolean v with an integer v is an error.  The tag
\* fields g and t must therefore be seen before any other field name of this
\* root module (e.g. an identifier v), so that tags are compared first.
TagsFirst == [g |-> "g", t |-> "t"]

CONSTANT Size

\* One state per value a; vp (the pool) is kept in the state because TLC
\* re-evaluates a definition at every use; each invariant quantifies over
\* the second value b, so every ordered pair is checked.
VARIABLES a, vp

Init == vp = ValuePool(Size) /\ a \in vp
Next == UNCHANGED <<a, vp>>

Cex(law, b) == PrintT("CEX " \o ToJson([law |-> law, a |-> a, b |-> b]))
Check(law, b, ok) == ok \/ ~Cex(law, b)

InvPairs  == \A b \in vp : Check("InvPairs", b, PairLaws(a, b))
InvTruth  == Check("InvTruth", a, TruthTableLaw(a))
InvTextFn == Check("InvTextFn", a, TextFunctionLaw(a))
=============================================================================
