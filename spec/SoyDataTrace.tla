---------------------------- MODULE SoyDataTrace ----------------------------
(***************************************************************************)
(* M3 for C20: trace validation.  Each line of c20_trace.ndjson records    *)
(* one conversion performed by the real code                               *)
(*   [g |-> descriptor of the Go value the harness built,                  *)
(*    o |-> struct options, obs |-> the data.Value that data.NewWith       *)
(*    returned (tagged encoding), truthy |-> obs.Truthy(),                 *)
(*    textok |-> obs.String() returned, text |-> what it returned]         *)
(* and is accepted iff obs is the conversion of g under some reading       *)
(* (SoyData!Accept) and Truthy/String agree with the value laws.  One      *)
(* state per consumed line; rejected lines are printed as                  *)
(* "BAD <line> <what> <expected json>".                                    *)
(***************************************************************************)
EXTENDS SoyData, Json

\* KEEP FIRST (see SoyDataCases): tag fields must be interned first.
TagsFirst == [g |-> "g", t |-> "t"]

Trace == ndJsonDeserialize("c20_trace.ndjson")

VARIABLES l, nbad, nskip

Judged(r) == WellFormed(r.g) /\ InDomain(r.g)

ConvOK(r) == Accept(r.g, r.o, r.obs)
TruthOK(r) == r.obs.t = "gonil" \/ TruthyD(r.obs) = r.truthy
TextOK(r) == PrintableD(r.obs) => (r.textok /\ r.text = TextD(r.obs, TRUE))

Bad(n, what, x) == PrintT("BAD " \o ToString(n) \o " " \o what \o " " \o ToJson(x))

Init == l = 1 /\ nbad = 0 /\ nskip = 0

Step ==
  /\ l <= Len(Trace)
  /\ l' = l + 1
  /\ LET r == Trace[l] IN
     IF ~Judged(r) THEN nskip' = nskip + 1 /\ nbad' = nbad
     ELSE /\ nskip' = nskip
          /\ LET c == ConvOK(r) t == TruthOK(r) x == TextOK(r) IN
             /\ nbad' = nbad + (IF c /\ t /\ x THEN 0 ELSE 1)
             /\ c \/ Bad(l, "convert", Convert(r.g, r.o, Rd0))
             /\ t \/ Bad(l, "truthy", [truthy |-> TruthyD(r.obs)])
             /\ x \/ Bad(l, "text", [text |-> TextD(r.obs, TRUE)])

Done == l = Len(Trace) + 1 /\ UNCHANGED <<l, nbad, nskip>>

Next == Step \/ Done

Report == l = Len(Trace) + 1 =>
            PrintT("DONE " \o ToString(l - 1) \o " " \o ToString(nbad) \o " " \o ToString(nskip))

TraceAccepted == TLCGet("stats").diameter - 1 = Len(Trace)
=============================================================================
