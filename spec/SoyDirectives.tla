---------------------------- MODULE SoyDirectives ----------------------------
(***************************************************************************)
(* The built-in print directives as functions on values/text, each with    *)
(* its CONTRACT (decoder, output alphabet, length bound), the              *)
(* CancelsAutoescape table, the effective autoescape mode, and the print   *)
(* command:  print(v | d1 | ... | dn) under an effective mode.             *)
(*                                                                         *)
(* Sources: the Soy documentation of the print directives, the property    *)
(* statements C03/C16, and what the repository's tests pin                 *)
(* (TestPrintDirectives, TestAutoescapeModes):                             *)
(*   - changeNewlineToBr / insertWordBreaks / escapeHtml add or protect    *)
(*     markup themselves: they cancel autoescaping and escape the data;    *)
(*   - truncate does not cancel; its length includes the ellipsis          *)
(*     ('Lorem Ipsum'|truncate:8 = 'Lorem...'); a limit <= 3 drops it;     *)
(*   - insertWordBreaks:n puts <wbr> before a non-space character once n   *)
(*     non-space characters have gone by since the last space/break        *)
(*     ('12 345 6789':3 = '12 345 678<wbr>9');                             *)
(*   - \r\n, \r and \n each become one <br>;                               *)
(*   - mode of a template = its own attribute if given, else its           *)
(*     namespace's, else on; 'contextual' counts as on; re-derived for     *)
(*     every callee, never inherited.                                      *)
(*                                                                         *)
(* DirDev is a set of named deviations (what a realistic bug would do).    *)
(* With DirDev = {} this is the reference design.                          *)
(***************************************************************************)
EXTENDS SoyEscape

CONSTANT DirDev

DevNames == {"iwb_returns_input", "iwb_counts_escaped", "escaper_drops_apos",
             "callee_inherits", "truncate_cancels", "escapehtml_keeps_autoescape",
             "nonstring_raw", "truncate_off_by_one", "uri_space_raw", "js_quote_raw",
             "nl2br_unescaped", "ns_attr_ignored", "deprecated_contextual_unspecified",
             "nonstring_input_raw", "placeholder_name_ignores_directives",
             "log_leaves_escaping_off", "arith_expr_unescaped", "kind_attr_turns_escaping_off"}

(***************************************************************************)
(* Directives: [name, args] with args a sequence of values.                *)
(***************************************************************************)
Dir(name, args) == [name |-> name, args |-> args]
D0(name) == Dir(name, <<>>)

BuiltinNames == {"insertWordBreaks", "changeNewlineToBr", "truncate", "id", "noAutoescape",
                 "escapeHtml", "escapeUri", "escapeJsString", "json"}

(***************************************************************************)
(* Directives registered by the embedder (soyhtml.PrintDirectives is an    *)
(* open map).  The harness registers exactly these six; what each does and *)
(* its CancelAutoescape flag are the embedder's choice -- the model takes  *)
(* the flag from the registration, and the print command must treat a      *)
(* registered directive exactly like a built-in one: if no directive of    *)
(* the chain cancels, the RESULT is escaped, whatever kind the printed     *)
(* value had.                                                              *)
(*   vfAppend:a     text(v) \o text(a)              does not cancel         *)
(*   vfQuote        "text(v)" in double quotes      does not cancel         *)
(*   vfIdent        v unchanged (any kind)          does not cancel         *)
(*   vfList         the list [v, '<i>'] (non-string) does not cancel        *)
(*   vfRawAppend:a  text(v) \o text(a)              cancels                 *)
(*   vfRawIdent     v unchanged                     cancels                 *)
(***************************************************************************)
CustomNames == {"vfAppend", "vfQuote", "vfIdent", "vfList", "vfRawAppend", "vfRawIdent"}
AllNames == BuiltinNames \cup CustomNames
CustomCancel == [vfAppend |-> FALSE, vfQuote |-> FALSE, vfIdent |-> FALSE, vfList |-> FALSE,
                 vfRawAppend |-> TRUE, vfRawIdent |-> TRUE]

CancelsAutoescape ==
  [vfAppend |-> FALSE, vfQuote |-> FALSE, vfIdent |-> FALSE, vfList |-> FALSE,
   vfRawAppend |-> TRUE, vfRawIdent |-> TRUE,
   insertWordBreaks |-> TRUE, changeNewlineToBr |-> TRUE,
   truncate |-> ("truncate_cancels" \in DirDev),
   id |-> TRUE, noAutoescape |-> TRUE,
   escapeHtml |-> ("escapehtml_keeps_autoescape" \notin DirDev),
   escapeUri |-> TRUE, escapeJsString |-> TRUE, json |-> TRUE]

ArgCounts == [insertWordBreaks |-> {1}, changeNewlineToBr |-> {0}, truncate |-> {1, 2},
              id |-> {0}, noAutoescape |-> {0}, escapeHtml |-> {0}, escapeUri |-> {0},
              escapeJsString |-> {0}, json |-> {0},
              vfAppend |-> {1}, vfQuote |-> {0}, vfIdent |-> {0}, vfList |-> {0},
              vfRawAppend |-> {1}, vfRawIdent |-> {0}]

\* a directive application the language defines (everything else: no claim)
InRange(d) ==
  /\ d.name \in AllNames
  /\ Len(d.args) \in ArgCounts[d.name]
  /\ d.name \in {"vfAppend", "vfRawAppend"} => Printable(d.args[1]) /\ AllKnown(ToText(d.args[1]), 1)
  /\ d.name = "insertWordBreaks" => d.args[1].t = "int" /\ d.args[1].v >= 1
  /\ d.name = "truncate" => /\ d.args[1].t = "int" /\ d.args[1].v >= 1
                            /\ Len(d.args) = 2 => d.args[2].t = "bool"

TruncN(d)   == d.args[1].v
TruncEll(d) == IF Len(d.args) = 2 THEN d.args[2].v ELSE TRUE

(***************************************************************************)
(* Reference functions on text.                                            *)
(***************************************************************************)
EscChar(c) == IF c = "'" /\ "escaper_drops_apos" \in DirDev THEN c ELSE EscHtmlChar(c)
AutoEscape(s) == MapCat(EscChar, s, 1)               \* the autoescaper of the print command

\* \r\n | \r | \n  ->  <br>   (on escaped text; escaping never touches CR/LF)
RECURSIVE NlToBr(_, _)
NlToBr(e, i) ==
  IF i > Len(e) THEN ""
  ELSE LET c == Ch(e, i) IN
    IF c = "\r" THEN "<br>" \o NlToBr(e, IF i < Len(e) /\ Ch(e, i + 1) = "\n" THEN i + 2 ELSE i + 1)
    ELSE IF c = "\n" THEN "<br>" \o NlToBr(e, i + 1)
    ELSE c \o NlToBr(e, i + 1)
ChangeNewlineToBr(s) == NlToBr(IF "nl2br_unescaped" \in DirDev THEN s ELSE EscapeHtml(s), 1)

\* the pieces of s between line breaks
RECURSIVE SplitNewlines(_, _, _)
SplitNewlines(s, i, cur) ==
  IF i > Len(s) THEN <<cur>>
  ELSE LET c == Ch(s, i) IN
    IF c = "\r" THEN <<cur>> \o SplitNewlines(s, IF i < Len(s) /\ Ch(s, i + 1) = "\n" THEN i + 2 ELSE i + 1, "")
    ELSE IF c = "\n" THEN <<cur>> \o SplitNewlines(s, i + 1, "")
    ELSE SplitNewlines(s, i + 1, cur \o c)

\* word breaks are counted on the characters of the VALUE; every character is
\* then written escaped, so a break can never fall inside a reference
RECURSIVE IWB(_, _, _, _)
IWB(s, n, i, cnt) ==
  IF i > Len(s) THEN ""
  ELSE LET c == Ch(s, i) IN
    IF c = " " THEN " " \o IWB(s, n, i + 1, 0)
    ELSE IF cnt >= n THEN "<wbr>" \o EscHtmlChar(c) \o IWB(s, n, i + 1, 1)
    ELSE EscHtmlChar(c) \o IWB(s, n, i + 1, cnt + 1)
\* deviation: breaks counted on (and put into) the escaped text
RECURSIVE IWBraw(_, _, _, _)
IWBraw(e, n, i, cnt) ==
  IF i > Len(e) THEN ""
  ELSE LET c == Ch(e, i) IN
    IF c = " " THEN " " \o IWBraw(e, n, i + 1, 0)
    ELSE IF cnt >= n THEN "<wbr>" \o c \o IWBraw(e, n, i + 1, 1)
    ELSE c \o IWBraw(e, n, i + 1, cnt + 1)
InsertWordBreaks(s, n) ==
  LET ref == IF "iwb_counts_escaped" \in DirDev THEN IWBraw(EscapeHtml(s), n, 1, 0) ELSE IWB(s, n, 1, 0) IN
  IF "iwb_returns_input" \in DirDev /\ ~HasSub(ref, "<wbr>") THEN s ELSE ref

\* truncate on text whose characters are all one byte long (there the two
\* readings of the limit coincide and the tests pin the result)
TruncateRef(s, n, ell) ==
  LET lim == IF "truncate_off_by_one" \in DirDev THEN n - 1 ELSE n IN
  IF Len(s) <= lim THEN s
  ELSE LET useEll == ell /\ n > 3
           k == IF useEll THEN n - 3 ELSE n IN
       SubSeq(s, 1, Min2(k, Len(s))) \o (IF useEll THEN "..." ELSE "")

RECURSIVE AllOneByte(_, _)
AllOneByte(s, i) == i > Len(s) \/ (Ch(s, i) \in KnownChars /\ CodeOf(Ch(s, i)) < 128 /\ AllOneByte(s, i + 1))

UriEscapeD(s) == IF "uri_space_raw" \in DirDev THEN MapCat(LAMBDA c : IF c = " " THEN " " ELSE UriEscChar(c), s, 1)
                 ELSE UriEscape(s)
JsEscapeD(s) == IF "js_quote_raw" \in DirDev THEN MapCat(LAMBDA c : IF c = "'" THEN c ELSE JsEscChar(c), s, 1)
                ELSE JsStringEscape(s)

(***************************************************************************)
(* Apply: value -> value.  A directive that produces text returns a        *)
(* string; noAutoescape/id (and truncate when the text fits) hand the      *)
(* value on unchanged.                                                     *)
(***************************************************************************)
Apply(d, v) ==
  CASE d.name \in {"noAutoescape", "id"} -> v
    [] d.name = "escapeHtml" -> S(EscapeHtml(ToText(v)))
    [] d.name = "escapeUri" -> S(UriEscapeD(ToText(v)))
    [] d.name = "escapeJsString" -> S(JsEscapeD(ToText(v)))
    [] d.name = "json" -> S(JsonEncode(v))
    [] d.name = "changeNewlineToBr" -> S(ChangeNewlineToBr(ToText(v)))
    [] d.name = "insertWordBreaks" -> S(InsertWordBreaks(ToText(v), d.args[1].v))
    [] d.name = "truncate" ->
         LET t == TruncateRef(ToText(v), TruncN(d), TruncEll(d)) IN
         IF t = ToText(v) THEN v ELSE S(t)
    [] d.name \in {"vfAppend", "vfRawAppend"} -> S(ToText(v) \o ToText(d.args[1]))
    [] d.name = "vfQuote" -> S("\"" \o ToText(v) \o "\"")
    [] d.name \in {"vfIdent", "vfRawIdent"} -> v
    [] d.name = "vfList" -> L(<<v, S("<i>")>>)

RECURSIVE ApplyChainFrom(_, _, _)
ApplyChainFrom(chain, v, i) == IF i > Len(chain) THEN v ELSE ApplyChainFrom(chain, Apply(chain[i], v), i + 1)
ApplyChain(chain, v) == ApplyChainFrom(chain, v, 1)

\* the reference result is determinate (the language, the tests and the
\* property leave no choice) -- otherwise only the contracts are demanded
Determinate1(d, v) ==
  /\ InRange(d)
  /\ Printable(v)
  /\ AllKnown(ToText(v), 1)
  /\ d.name = "truncate" => (AllOneByte(ToText(v), 1) \/ ByteLen(ToText(v)) <= TruncN(d))
RECURSIVE DeterminateFrom(_, _, _)
DeterminateFrom(chain, v, i) ==
  i > Len(chain) \/
  (/\ Determinate1(chain[i], v)
   /\ (chain[i].name = "json" /\ i > 1) => v.t = "str"     \* what reaches a later |json is text
   /\ DeterminateFrom(chain, Apply(chain[i], v), i + 1))
Determinate(chain, v) == Printable(v) /\ DeterminateFrom(chain, v, 1)

(***************************************************************************)
(* The print command.                                                      *)
(***************************************************************************)
Cancels(chain) == \E i \in DOMAIN chain : CancelsAutoescape[chain[i].name]

PrintText(escOn, chain, v) ==
  LET r == ApplyChain(chain, v)
      \* deviations: escaping skipped because of the kind of the RESULT / decided
      \* on the kind of the printed value BEFORE the directives ran
      raw == \/ ("nonstring_raw" \in DirDev /\ r.t # "str")
             \/ ("nonstring_input_raw" \in DirDev /\ v.t \in {"int", "float", "bool", "null"}) IN
  IF escOn /\ ~Cancels(chain) /\ ~raw THEN AutoEscape(ToText(r)) ELSE ToText(r)

\* The SHAPE of the printed expression (a variable, a concatenation, a ternary, a
\* data reference, a function call, a literal ...) never influences escaping: the
\* print command sees a value.  Labels only; the harness owns the Soy text.
ExprShapes == {"var", "concat-right", "concat-left", "concat-split", "concat-number", "elvis", "ternary", "paren",
               "map-dot", "list-index", "map-bracket", "injected", "global", "let-value", "fn-augmentMap", "fn-keys",
               "eq-ternary", "list-literal", "and-ternary"}
OperatorShapes == {"concat-right", "concat-left", "concat-split", "concat-number"}   \* top-level node is an operator
PrintTextShape(escOn, chain, v, shape) ==
  IF "arith_expr_unescaped" \in DirDev /\ chain = <<>> /\ shape \in OperatorShapes
  THEN ToText(v)
  ELSE PrintText(escOn, chain, v)

(***************************************************************************)
(* Effective autoescape mode.                                              *)
(***************************************************************************)
\* "deprecated-contextual" is the old spelling of "contextual" (the parser
\* accepts both): like it, it counts as on
AutoescapeAttrs == {"unspecified", "true", "false", "contextual", "deprecated-contextual"}

\* deviation: the deprecated spelling is read as "nothing written"
NormAttr(a) == IF a = "deprecated-contextual" /\ "deprecated_contextual_unspecified" \in DirDev
               THEN "unspecified" ELSE a

EffectiveEscape(nsAttr0, tAttr0) ==
  LET nsAttr == NormAttr(nsAttr0) tAttr == NormAttr(tAttr0) IN
  IF tAttr # "unspecified" THEN tAttr # "false"
  ELSE IF "ns_attr_ignored" \in DirDev THEN TRUE
  ELSE nsAttr # "false"

\* Other attributes the parser accepts on {template} (kind="...", private="...") and on
\* {let}/{param} content blocks (kind="...") never influence escaping: only `autoescape` does.
\* extra = [kind, private], "none" = attribute not written
TemplateKinds == {"none", "html", "text", "js", "uri", "css", "attributes"}
PrivateAttrs == {"none", "true", "false"}
EffectiveEscapeX(nsAttr, tAttr, extra) ==
  IF "kind_attr_turns_escaping_off" \in DirDev /\ extra.kind \notin {"none", "html"} /\ NormAttr(tAttr) = "unspecified"
  THEN FALSE
  ELSE EffectiveEscape(nsAttr, tAttr)

\* the same function written as the table of the documentation
EffectiveEscapeTable ==
  [p \in AutoescapeAttrs \X AutoescapeAttrs |->
     CASE p[2] = "true" -> TRUE
       [] p[2] = "contextual" -> TRUE
       [] p[2] = "deprecated-contextual" -> TRUE
       [] p[2] = "false" -> FALSE
       [] p[2] = "unspecified" /\ p[1] = "false" -> FALSE
       [] OTHER -> TRUE]

\* mode of a callee: from its OWN template and namespace, never the caller's
CalleeEscape(callerNs, callerT, calleeNs, calleeT) ==
  IF "callee_inherits" \in DirDev /\ calleeT = "unspecified" /\ calleeNs = "unspecified"
  THEN EffectiveEscape(callerNs, callerT)
  ELSE EffectiveEscape(calleeNs, calleeT)

(***************************************************************************)
(* What C03 demands of a chain printed where escaping is on.               *)
(*   "ESC"  : no directive cancels: the autoescaper runs on the result     *)
(*   "HTML" : the last text-changing directive is one of the three that    *)
(*            escape themselves (escapeHtml, changeNewlineToBr,            *)
(*            insertWordBreaks); only noAutoescape/id follow               *)
(*   "RAW"  : noAutoescape/id, or a directive documented to emit another   *)
(*            encoding (escapeUri, escapeJsString, json), or a directive   *)
(*            applied on top of already-escaped text: specials may pass    *)
(***************************************************************************)
HtmlProducing == {"escapeHtml", "changeNewlineToBr", "insertWordBreaks"}
Transparent   == {"noAutoescape", "id"}
\* the documented table for the built-ins, the registered flag for the embedder's (no deviations)
CancelsDoc    == [n \in AllNames |-> IF n \in BuiltinNames THEN n # "truncate" ELSE CustomCancel[n]]

LastHtml(chain) ==
  LET ks == {k \in DOMAIN chain : chain[k].name \in HtmlProducing /\
                                  \A j \in (k + 1)..Len(chain) : chain[j].name \in Transparent} IN
  IF ks = {} THEN 0 ELSE CHOOSE k \in ks : TRUE

ChainClass(chain) ==
  IF \A i \in DOMAIN chain : ~CancelsDoc[chain[i].name] THEN "ESC"
  ELSE IF LastHtml(chain) # 0 THEN "HTML"
  ELSE "RAW"

TagOf(name) == CASE name = "changeNewlineToBr" -> "<br>"
                 [] name = "insertWordBreaks" -> "<wbr>"
                 [] OTHER -> ""

\* CONTRACT of the three self-escaping directives: out is the result for the text y
HtmlDirOK(name, y, out) ==
  CASE name = "escapeHtml" -> HtmlEncodes(out, y)
    [] name = "insertWordBreaks" ->
         SegmentsSafe(out, "<wbr>") /\ CatSeq(SegmentsText(out, "<wbr>"), 1) = y
    [] name = "changeNewlineToBr" ->
         /\ SegmentsSafe(out, "<br>")
         /\ SegmentsText(out, "<br>") = SplitNewlines(y, 1, "")
         /\ ~HasSub(out, "\n") /\ ~HasSub(out, "\r")

(***************************************************************************)
(* truncate: what holds under BOTH readings of the limit (bytes or         *)
(* characters).  s = text of the input, t = text of the result.            *)
(***************************************************************************)
TruncateOK(s, n, ell, t) ==
  LET unchanged == t = s
      cut == \E k \in 0..(Len(s) - 1) : \E e \in (IF ell THEN {"", "..."} ELSE {""}) :
               t = SubSeq(s, 1, k) \o e /\ CharLen(t) <= n IN
  IF ByteLen(s) <= n THEN unchanged             \* fits under both readings
  ELSE IF CharLen(s) > n THEN cut               \* fits under neither
  ELSE unchanged \/ cut

(***************************************************************************)
(* CONTRACT of one directive application: out = text of the result for the *)
(* input value v.  "t" holds, "f" violated, "u" no claim.                  *)
(***************************************************************************)
TF(b) == IF b THEN "t" ELSE "f"

DirContract(d, v, out) ==
  IF ~InRange(d) THEN "u"
  ELSE IF d.name = "json" THEN JsonEncodes(out, v)
  ELSE IF ~Printable(v) THEN "u"
  ELSE LET s == ToText(v) IN
  CASE d.name \in {"noAutoescape", "id"} -> TF(out = s)
    [] d.name \in HtmlProducing ->
         IF ~HtmlKnown(out) THEN "u" ELSE TF(HtmlDirOK(d.name, s, out))
    [] d.name = "escapeUri" ->
         IF ~AllKnown(s, 1) THEN "u"
         ELSE IF ~UriAlphabet(out) THEN "f"
         ELSE LET r == UriDecode(out) IN IF r.ok = "unknown" THEN "u" ELSE TF(r = DecOK(s))
    [] d.name = "escapeJsString" ->
         IF ~JsSafe(out) THEN "f" ELSE IF ~JsKnown(out) THEN "u" ELSE TF(JsDenote(out) = s)
    [] d.name = "truncate" ->
         IF ~AllKnown(s, 1) THEN "u" ELSE TF(TruncateOK(s, TruncN(d), TruncEll(d), out))
    [] OTHER -> "u"          \* embedder-registered directives have no contract of the language

\* why a contract is violated (the structural feature of a finding)
ContractReason(d, v, out) ==
  LET s == IF d.name = "json" THEN "" ELSE ToText(v)
      tag == TagOf(d.name) IN
  CASE d.name \in Transparent -> "changed"
    [] d.name \in HtmlProducing ->
         IF tag # "" /\ ~SegmentsSafe(out, tag) /\ NoRawSpecial(CatSeq(SplitOn(out, tag), 1)) THEN "tag-inside-reference"
         ELSE IF (tag = "" /\ ~NoRawSpecial(out)) \/ (tag # "" /\ ~SegmentsSafe(out, tag)) THEN "raw-special"
         ELSE "decodes-wrong"
    [] d.name = "escapeUri" -> IF ~UriAlphabet(out) THEN "alphabet" ELSE "decodes-wrong"
    [] d.name = "escapeJsString" -> IF ~JsSafe(out) THEN "unsafe" ELSE "decodes-wrong"
    [] d.name = "json" -> IF JsonDecode(out).ok = "malformed" THEN "malformed" ELSE "decodes-wrong"
    [] d.name = "truncate" ->
         IF ByteLen(s) <= TruncN(d) THEN "changed-though-fits"
         ELSE IF CharLen(out) > TruncN(d) THEN "too-long"
         ELSE "not-a-prefix"

\* length bounds of the reference functions (design property, checked in M1)
LenBound(d, s, out) ==
  CASE d.name \in HtmlProducing -> Len(out) <= 6 * Len(s) + (IF d.name = "insertWordBreaks" THEN 5 * Len(s) ELSE 0)
    [] d.name = "escapeUri" -> Len(out) <= 3 * ByteLen(s)
    [] d.name = "escapeJsString" -> Len(out) <= 6 * Len(s)
    [] d.name = "truncate" -> Len(out) <= Max2(Len(s), 0) /\ (Len(s) > TruncN(d) => Len(out) <= TruncN(d))
    [] OTHER -> TRUE

\* How far the reference result is pinned (by the tests, the documentation or
\* the property), i.e. how an observed result may be compared with it:
\*   "exact"    byte for byte
\*   "canon"    up to the spelling of character references (CanonRefs)
\*   "contract" not at all: only the contract is demanded
RECURSIVE NoSpecialFrom(_, _), ChainKind(_, _)
NoSpecialFrom(s, i) == i > Len(s) \/ (Ch(s, i) \notin HtmlSpecials /\ NoSpecialFrom(s, i + 1))
PinKind(d, v) ==
  CASE d.name \in Transparent -> "exact"
    [] d.name = "truncate" -> "exact"
    [] d.name \in CustomNames -> "exact"
    [] d.name \in {"escapeHtml", "changeNewlineToBr"} -> "canon"
    [] d.name = "insertWordBreaks" -> IF NoSpecialFrom(ToText(v), 1) THEN "canon" ELSE "contract"
    [] OTHER -> "contract"
ChainKind(chain, v) ==
  IF Len(chain) = 0 THEN "exact"
  ELSE IF Len(chain) = 1 THEN PinKind(chain[1], v)
  ELSE IF PinKind(chain[1], v) = "exact" THEN ChainKind(Tail(chain), Apply(chain[1], v))
  ELSE "contract"

\* Soy source of a directive / chain
RECURSIVE ArgsText(_, _)
ArgsText(args, i) == IF i > Len(args) THEN ""
                     ELSE (IF i > 1 THEN "," ELSE "") \o
                          (IF args[i].t = "str" THEN "'" \o args[i].v \o "'" ELSE ToText(args[i])) \o
                          ArgsText(args, i + 1)
DirText(d) == "|" \o d.name \o (IF Len(d.args) > 0 THEN ":" \o ArgsText(d.args, 1) ELSE "")
RECURSIVE ChainText(_, _)
ChainText(chain, i) == IF i > Len(chain) THEN "" ELSE DirText(chain[i]) \o ChainText(chain, i + 1)
=============================================================================
