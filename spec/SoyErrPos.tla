------------------------------ MODULE SoyErrPos ------------------------------
(***************************************************************************)
(* Where a render error points (C19, render half).                         *)
(*                                                                         *)
(* A case is a two-file bundle laid out one tag per line.  The entry       *)
(* template (file "entry.soy") nests a failing command inside 0..2         *)
(* enclosing blocks; the failure happens either in the entry template      *)
(* itself (depth 0) or in a callee 1..3 calls down, whose templates live   *)
(* in "lib.soy" on lines that never coincide with lines of the entry       *)
(* template's path.                                                        *)
(*                                                                         *)
(* The machine walks the entry template keeping, as the interpreter does,  *)
(* the current node of the BOTTOM frame; when the failure happens the      *)
(* error is built from that node: file of the entry template, line of the  *)
(* node.  The invariant says that line lies on the path from the outermost *)
(* enclosing command to the command being executed (the failing print at   *)
(* depth 0, the {call} at depth >= 1).  Deviations:                        *)
(*   "innermost_frame_line"  the line of the callee's node is reported     *)
(*   "callee_file"           the callee's file is reported                 *)
(*   "line_from_other_source" the line is computed in the other file       *)
(*   "call_node_not_restored" after evaluating a multi-line call's params  *)
(*                            the bottom frame's node stays on the last    *)
(*                            param instead of the {call}                  *)
(*   "source_per_namespace"   the source text used to turn a position into *)
(*                            a line is looked up by namespace: with a     *)
(*                            second file ("twin.soy") declaring the entry *)
(*                            template's namespace and added later, the    *)
(*                            line is counted in the twin's text           *)
(*   "source_per_file_name"   the same, looked up by file name, with a     *)
(*                            second file added under the entry file's name*)
(* TLC exports every case with its source lines and allowed lines; the     *)
(* harness renders them with the real code.                                *)
(***************************************************************************)
EXTENDS Integers, Sequences, FiniteSets, TLC, Json, SequencesExt

CONSTANT Dev

Wrappers == {"none", "if", "foreach", "switch", "letc", "pc", "log", "msg"}
\* "modzero" fails through a Go run-time panic inside the interpreter (integer
\* division by zero), the others through the interpreter's own error path
Fails == {"print", "ifcond", "forlist", "css", "paramvalue", "letvalue", "switchsubject", "pluralsubject", "modzero", "modzeroif"}
Depths == 0..3
\* how the {call} that leads to the failing callee is written (depth > 0)
CallShapes == {"plain", "vparams", "cparam"}

Open(w) == CASE w = "if" -> "{if true}" [] w = "foreach" -> "{foreach $q in [1]}"
             [] w = "switch" -> "{switch 1}{case 1}" [] w = "letc" -> "{let $w}"
             [] w = "pc" -> "{call .ok}{param p}" [] w = "log" -> "{log}"
             [] OTHER -> "{msg desc=\"d\"}"
Close(w) == CASE w = "if" -> "{/if}" [] w = "foreach" -> "{/foreach}"
              [] w = "switch" -> "{/switch}" [] w = "letc" -> "{/let}{$w}"
              [] w = "pc" -> "{/param}{/call}" [] w = "log" -> "{/log}"
              [] OTHER -> "{/msg}"

\* the failing command, one or several lines; the reference $x.y fails when
\* $x is null (x is supplied as null)
CallLines(shape) ==
  CASE shape = "vparams" -> <<"{call lib.d1 data=\"all\"}", "{param p: 1 /}", "{param q: 2 /}", "{/call}">>
    [] shape = "cparam" -> <<"{call lib.d1 data=\"all\"}", "{param p}", "c", "{/param}", "{/call}">>
    [] OTHER -> <<"{call lib.d1 data=\"all\" /}">>

FailLines(f, depth) ==
  IF depth > 0 THEN <<"{call lib.d1 data=\"all\" /}">>
  ELSE CASE f = "print" -> <<"{$x.y}">>
         [] f = "modzero" -> <<"{1 % ($x ? 1 : 0)}">>
         [] f = "modzeroif" -> <<"{if 7 % ($x ? 1 : 0) == 1}", "t", "{/if}">>
         [] f = "ifcond" -> <<"{if $x.y}", "t", "{/if}">>
         [] f = "forlist" -> <<"{foreach $i in $x.y}", "{$i}", "{/foreach}">>
         [] f = "css" -> <<"{css $x.y, c}">>
         [] f = "paramvalue" -> <<"{call .ok}", "{param p: $x.y /}", "{/call}">>
         [] f = "letvalue" -> <<"{let $v: $x.y /}", "{$v}">>
         [] f = "switchsubject" -> <<"{switch $x.y}", "{case 1}a", "{/switch}">>
         [] OTHER -> <<"{msg desc=\"d\"}{plural $x.y}{case 1}a{default}b{/plural}{/msg}">>

FailLinesD(dd) == IF dd.depth > 0 THEN CallLines(dd.shape) ELSE FailLines(dd.f, 0)

\* the failing expression's own line inside FailLines (1-based)
FailAt(f, depth) == IF depth = 0 /\ f = "paramvalue" THEN 2 ELSE 1

Pad(n) == [i \in 1..n |-> "// padding"]

\* entry file: header, n leading text lines, wrappers opening, failing
\* command, wrappers closing, trailing text
EntryLines(d) ==
  LET ws == IF d.w1 = "none" THEN <<>> ELSE IF d.w2 = "none" THEN <<d.w1>> ELSE <<d.w1, d.w2>>
      opens == [i \in 1..Len(ws) |-> Open(ws[i])]
      closes == [i \in 1..Len(ws) |-> Close(ws[Len(ws) + 1 - i])] IN
  <<"{namespace e}", "/** @param? x */", "{template .m}">> \o [i \in 1..d.lead |-> "lead"]
  \o opens \o FailLinesD(d) \o closes
  \o <<"tail", "{/template}", "/** @param? p */", "{template .ok}", "{$p ?: ''}", "{/template}">>

FirstBodyLine(d) == 3 + d.lead + 1
NWrap(d) == IF d.w1 = "none" THEN 0 ELSE IF d.w2 = "none" THEN 1 ELSE 2
FailFirst(d) == FirstBodyLine(d) + NWrap(d)
FailLast(d) == FailFirst(d) + Len(FailLinesD(d)) - 1
\* lines on the path: from the outermost enclosing command's first line to
\* the last line of its extent
PathLines(d) == (FirstBodyLine(d))..(FailLast(d) + NWrap(d))
NodeLine(d) == FailFirst(d) + FailAt(d.f, d.depth) - 1
\* the lines the error may name: the first line of each command on the path
\* (enclosing commands, then the failing command / the {call}) and, at depth
\* 0, the line of the failing expression itself
AllowedLines(d) == {FirstBodyLine(d) + i : i \in 0..(NWrap(d) - 1)} \cup {FailFirst(d), NodeLine(d)}

\* library file: far more lines than the entry file, callee chain d1 -> d2 -> d3
LibLines(d) ==
  <<"{namespace lib}">> \o Pad(40)
  \o <<"/** @param? x", " * @param? p", " * @param? q */", "{template .d1}">>
  \o (IF d.depth = 1 THEN <<"{$p ?: ''}{$q ?: ''}{$x.y}">> ELSE <<"{$p ?: ''}{$q ?: ''}{call .d2 data=\"all\" /}">>) \o <<"{/template}">>
  \o Pad(7)
  \o <<"/** @param? x */", "{template .d2}">> \o (IF d.depth = 2 THEN <<"{$x.y}">> ELSE <<"{call .d3 data=\"all\" /}">>) \o <<"{/template}">>
  \o Pad(7)
  \o <<"/** @param? x */", "{template .d3}", "{$x.y}", "{/template}">>

\* line in lib.soy of the print that fails at the given depth
LibFailLine(depth) == CASE depth = 1 -> 46 [] depth = 2 -> 57 [] OTHER -> 68

\* a third file declaring the SAME namespace as the entry file, made of very
\* short lines so that a byte offset of the entry file falls on a much later
\* line of the twin; added to the bundle before or after the entry file
\* "first"/"last": same namespace, another file name; "namefirst"/"namelast":
\* ANOTHER namespace but the SAME FILE NAME as the entry file (names are only
\* labels for error messages: two files may carry one name)
Twins == {"none", "first", "last", "namefirst", "namelast"}
TwinNs(tw) == IF tw \in {"namefirst", "namelast"} THEN "{namespace e2}" ELSE "{namespace e}"
TwinLinesOf(tw) == <<TwinNs(tw)>> \o [i \in 1..120 |-> "//"] \o <<"{template .tw}", "t", "{/template}">>
TwinLines == TwinLinesOf("last")

RECURSIVE OffsetOfLine(_, _)
\* number of bytes before the first byte of line n (lines are ASCII, joined by one LF)
OffsetOfLine(lines, n) == IF n <= 1 THEN 0 ELSE OffsetOfLine(lines, n - 1) + Len(lines[n - 1]) + 1
RECURSIVE LineOfOffset(_, _, _)
\* 1 + number of LF before byte offset off, counted in another text
LineOfOffset(lines, off, n) ==
  IF n > Len(lines) THEN Len(lines) + 1
  ELSE IF off <= Len(lines[n]) THEN n ELSE LineOfOffset(lines, off - Len(lines[n]) - 1, n + 1)

Descs == {[w1 |-> a, w2 |-> b, f |-> f, depth |-> k, lead |-> n, shape |-> sh, twin |-> tw] :
            a \in Wrappers, b \in Wrappers, f \in Fails, k \in Depths, n \in {0, 2}, sh \in CallShapes, tw \in Twins}
Meaningful(d) == /\ (d.w1 = "none" => d.w2 = "none")
                 /\ (d.w1 = "msg" => d.w2 = "none")                      \* control flow is not allowed inside msg
                 /\ (d.depth > 0 => d.f = "print")
                 /\ (d.depth = 0 => d.shape = "plain")
                 /\ (d.twin # "none" => d.lead = 0 /\ d.w2 = "none")
                 /\ ~(d.f = "pluralsubject" /\ "msg" \in {d.w1, d.w2})   \* no msg inside msg
                 /\ ~(d.f \in {"ifcond", "forlist", "switchsubject", "pluralsubject", "letvalue", "modzeroif"} /\ "msg" \in {d.w1, d.w2})

VARIABLES d, phase, bottomLine, frameFile, frameLine, reported

Init == /\ d \in {x \in Descs : Meaningful(x)}
        /\ phase = "start" /\ bottomLine = 0 /\ frameFile = "entry.soy" /\ frameLine = 0
        /\ reported = [file |-> "", line |-> 0]

\* the interpreter reaches the failing command of the entry template
Reach == /\ phase = "start" /\ phase' = "atnode"
         /\ bottomLine' = NodeLine(d) /\ frameFile' = "entry.soy" /\ frameLine' = NodeLine(d)
         /\ UNCHANGED <<d, reported>>

\* ... and, for depth > 0, descends into the callee(s): the bottom frame stays on the {call}
Descend == /\ phase = "atnode" /\ d.depth > 0 /\ phase' = "incallee"
           /\ frameFile' = "lib.soy" /\ frameLine' = LibFailLine(d.depth)
           /\ bottomLine' = (IF "call_node_not_restored" \in Dev /\ d.shape # "plain"
                             THEN FailFirst(d) + Len(CallLines(d.shape)) - 2 ELSE bottomLine)
           /\ UNCHANGED <<d, reported>>

Fail == /\ (phase = "atnode" /\ d.depth = 0) \/ phase = "incallee"
        /\ phase' = "failed"
        /\ reported' = [file |-> IF "callee_file" \in Dev THEN frameFile ELSE "entry.soy",
                        line |-> IF "innermost_frame_line" \in Dev THEN frameLine
                                 ELSE IF "line_from_other_source" \in Dev /\ d.depth > 0 THEN LibFailLine(d.depth)
                                 ELSE IF \/ "source_per_namespace" \in Dev /\ d.twin = "last"
                                         \/ "source_per_file_name" \in Dev /\ d.twin = "namelast"
                                   THEN LineOfOffset(TwinLinesOf(d.twin), OffsetOfLine(EntryLines(d), bottomLine), 1)
                                 ELSE bottomLine]
        /\ UNCHANGED <<d, bottomLine, frameFile, frameLine>>

Done == phase = "failed" /\ UNCHANGED <<d, phase, bottomLine, frameFile, frameLine, reported>>

Next == Reach \/ Descend \/ Fail \/ Done

PositionOK == phase = "failed" => (reported.file = "entry.soy" /\ reported.line \in AllowedLines(d))

\* the library file is laid out so that a wrong line cannot pass by accident
LayoutSeparates == LibFailLine(d.depth) \notin PathLines(d) /\ Len(EntryLines(d)) < 40

EmitCase == phase = "failed" =>
  PrintT(ToJson([d |-> d, entry |-> EntryLines(d), lib |-> LibLines(d), twin |-> TwinLinesOf(d.twin),
                 file |-> "entry.soy", lo |-> FirstBodyLine(d), hi |-> FailLast(d) + NWrap(d), node |-> NodeLine(d),
                 allowed |-> SetToSeq(AllowedLines(d))]))
=============================================================================
