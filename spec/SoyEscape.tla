------------------------------ MODULE SoyEscape ------------------------------
(***************************************************************************)
(* Text encodings used by Soy print commands and directives, as            *)
(* per-character transducers together with their DECODERS, and the         *)
(* contracts that tie them together (properties C03, C16).                 *)
(*                                                                         *)
(*   EscapeHtml / HtmlTokens / UnescapeHtml / NoRawSpecial / CanonRefs     *)
(*   UriEscape  / UriDecode            ('+' = space, pinned by the tests)  *)
(*   JsStringEscape / JsDenote / JsSafe                                    *)
(*   JsonEncode / JsonDecode / JsonEq   (on the value model of SoyValues)  *)
(*                                                                         *)
(* Written from the definitions of the encodings (HTML character           *)
(* references, RFC 3986 percent-encoding with the form '+', ECMAScript     *)
(* string literals, RFC 8259), not from the Go or JS code.  The decoders   *)
(* accept every spelling (named, decimal, hexadecimal references; \xHH,    *)
(* \uHHHH, single-character escapes), so that a verdict never depends on   *)
(* which spelling an implementation chooses.                               *)
(*                                                                         *)
(* Text is a TLC string; Ch(s,i) is its i-th character.  Characters have   *)
(* a code only inside KnownChars (printable ASCII, \t \n \f \r, e-acute,   *)
(* euro sign); a decoder that meets a reference to a character outside     *)
(* the table answers "unknown" and the case is not judged.                 *)
(***************************************************************************)
EXTENDS SoyValues

Ch(s, i) == SubSeq(s, i, i)

RECURSIVE MapCat(_, _, _)
MapCat(Op(_), s, i) == IF i > Len(s) THEN "" ELSE Op(Ch(s, i)) \o MapCat(Op, s, i + 1)

RECURSIVE CatSeq(_, _)
CatSeq(q, i) == IF i > Len(q) THEN "" ELSE q[i] \o CatSeq(q, i + 1)

Starts(t, i, w) == i + Len(w) - 1 <= Len(t) /\ SubSeq(t, i, i + Len(w) - 1) = w

\* first index >= i at which pat occurs in s, 0 if none
RECURSIVE FindFrom(_, _, _)
FindFrom(s, pat, i) ==
  IF i + Len(pat) - 1 > Len(s) THEN 0
  ELSE IF SubSeq(s, i, i + Len(pat) - 1) = pat THEN i
  ELSE FindFrom(s, pat, i + 1)
HasSub(s, pat) == FindFrom(s, pat, 1) # 0

\* split s on every (leftmost, non-overlapping) occurrence of the literal tag
RECURSIVE SplitOn(_, _)
SplitOn(s, tag) ==
  LET j == FindFrom(s, tag, 1) IN
  IF j = 0 THEN <<s>>
  ELSE <<SubSeq(s, 1, j - 1)>> \o SplitOn(SubSeq(s, j + Len(tag), Len(s)), tag)

(***************************************************************************)
(* Character codes.                                                        *)
(***************************************************************************)
ExtraChars == << [c |-> "\t", n |-> 9], [c |-> "\n", n |-> 10], [c |-> "\f", n |-> 12],
                 [c |-> "\r", n |-> 13], [c |-> "é", n |-> 233], [c |-> "€", n |-> 8364] >>
ExtraSet == {ExtraChars[i].c : i \in 1..Len(ExtraChars)}
ExtraCodes == {ExtraChars[i].n : i \in 1..Len(ExtraChars)}
KnownChars == AlphaSet \cup ExtraSet

CodeTable == LET f == [c \in KnownChars |->
                           IF c \in AlphaSet THEN (CHOOSE i \in 1..Len(Alphabet) : Ch(Alphabet, i) = c) + 31
                           ELSE ExtraChars[CHOOSE i \in 1..Len(ExtraChars) : ExtraChars[i].c = c].n]
             IN f @@ f          \* (f @@ f: an explicit table instead of a lazily evaluated function)
CodeOf(c) == IF c \in KnownChars THEN CodeTable[c] ELSE 0
HasChar(n) == (n >= 32 /\ n <= 126) \/ n \in ExtraCodes
CharOf(n) == IF n >= 32 /\ n <= 126 THEN Ch(Alphabet, n - 31)
             ELSE ExtraChars[CHOOSE i \in 1..Len(ExtraChars) : ExtraChars[i].n = n].c

RECURSIVE AllKnown(_, _)
AllKnown(s, i) == i > Len(s) \/ (Ch(s, i) \in KnownChars /\ AllKnown(s, i + 1))

\* (membership and value tables are constant sets/functions: TLC evaluates
\* them once; scanning a string costs a recursion step per character)
Digits == "0123456789"
HexUpper == "0123456789ABCDEF"
HexLower == "0123456789abcdef"
CharsOf(str) == {Ch(str, i) : i \in 1..Len(str)}
DigitSet == CharsOf(Digits)
HexSet == CharsOf(HexUpper) \cup CharsOf(HexLower)
\* (f @@ f turns the lazily evaluated [x \in S |-> e] into an explicit table)
HexTable == LET f == [c \in HexSet |-> IF c \in CharsOf(HexUpper)
                                          THEN (CHOOSE i \in 1..16 : Ch(HexUpper, i) = c) - 1
                                          ELSE (CHOOSE i \in 1..16 : Ch(HexLower, i) = c) - 1]
            IN f @@ f
IsDigit(c) == c \in DigitSet
DigitVal(c) == HexTable[c]
IsHex(c) == c \in HexSet
HexVal(c) == HexTable[c]
Hex2(n) == Ch(HexUpper, (n \div 16) + 1) \o Ch(HexUpper, (n % 16) + 1)
Hex2l(n) == Ch(HexLower, (n \div 16) + 1) \o Ch(HexLower, (n % 16) + 1)

\* value of a digit string in the given base, -1 if empty / not digits / too big
RECURSIVE NumVal(_, _, _, _)
NumVal(s, base, i, acc) ==
  IF i > Len(s) THEN (IF Len(s) = 0 THEN -1 ELSE acc)
  ELSE LET c == Ch(s, i) IN
       IF acc > 1200000 THEN -1
       ELSE IF base = 10 /\ IsDigit(c) THEN NumVal(s, base, i + 1, acc * 10 + DigitVal(c))
       ELSE IF base = 16 /\ IsHex(c) THEN NumVal(s, base, i + 1, acc * 16 + HexVal(c))
       ELSE -1

UpperAZ == "ABCDEFGHIJKLMNOPQRSTUVWXYZ"
LowerAZ == "abcdefghijklmnopqrstuvwxyz"
LowerTable == LET f == [c \in CharsOf(UpperAZ) |-> Ch(LowerAZ, CHOOSE i \in 1..26 : Ch(UpperAZ, i) = c)]
              IN f @@ f
LowerCh(c) == IF c \in DOMAIN LowerTable THEN LowerTable[c] ELSE c
Lower(s) == MapCat(LowerCh, s, 1)

\* UTF-8 bytes of a code point of the Basic Multilingual Plane
Utf8(n) == IF n < 128 THEN <<n>>
           ELSE IF n < 2048 THEN <<192 + (n \div 64), 128 + (n % 64)>>
           ELSE <<224 + (n \div 4096), 128 + ((n \div 64) % 64), 128 + (n % 64)>>
Utf8Len(c) == Len(Utf8(CodeOf(c)))
RECURSIVE ByteLenFrom(_, _)
ByteLenFrom(s, i) == IF i > Len(s) THEN 0 ELSE Utf8Len(Ch(s, i)) + ByteLenFrom(s, i + 1)
ByteLen(s) == ByteLenFrom(s, 1)       \* needs AllKnown(s)
CharLen(s) == Len(s)                  \* characters of the BMP only

\* code points of a byte sequence; <<-1>> if it is not UTF-8
RECURSIVE Utf8Decode(_, _)
Utf8Decode(bs, i) ==
  IF i > Len(bs) THEN <<>>
  ELSE LET b == bs[i] IN
    IF b < 128 THEN <<b>> \o Utf8Decode(bs, i + 1)
    ELSE IF b >= 194 /\ b < 224 /\ i + 1 <= Len(bs) /\ bs[i + 1] \div 64 = 2
      THEN <<(b - 192) * 64 + (bs[i + 1] - 128)>> \o Utf8Decode(bs, i + 2)
    ELSE IF b >= 224 /\ b < 240 /\ i + 2 <= Len(bs) /\ bs[i + 1] \div 64 = 2 /\ bs[i + 2] \div 64 = 2
      THEN <<(b - 224) * 4096 + (bs[i + 1] - 128) * 64 + (bs[i + 2] - 128)>> \o Utf8Decode(bs, i + 3)
    ELSE <<-1>>

\* decoded text, or Unknown / Malformed
DecOK(s)   == [ok |-> "ok", s |-> s]
DecUnk     == [ok |-> "unknown", s |-> ""]      \* a character outside the table: no claim
DecBad     == [ok |-> "malformed", s |-> ""]

RECURSIVE CodesToText(_, _)
CodesToText(cs, i) ==
  IF i > Len(cs) THEN DecOK("")
  ELSE IF cs[i] < 0 THEN DecBad
  ELSE IF ~HasChar(cs[i]) THEN DecUnk
  ELSE LET r == CodesToText(cs, i + 1) IN
       IF r.ok = "ok" THEN DecOK(CharOf(cs[i]) \o r.s) ELSE r

(***************************************************************************)
(* HTML.                                                                   *)
(***************************************************************************)
HtmlSpecials == {"&", "<", ">", "\"", "'"}

EscHtmlChar(c) == CASE c = "&" -> "&amp;"
                    [] c = "<" -> "&lt;"
                    [] c = ">" -> "&gt;"
                    [] c = "\"" -> "&#34;"
                    [] c = "'" -> "&#39;"
                    [] OTHER -> c
EscapeHtml(s) == MapCat(EscHtmlChar, s, 1)

NamedRefs == [amp |-> "&", lt |-> "<", gt |-> ">", quot |-> "\"", apos |-> "'",
              AMP |-> "&", LT |-> "<", GT |-> ">", QUOT |-> "\""]

\* the character reference that starts at t[i] = "&", if there is one.
\* kind "ref": a reference to r.c; "unk": a well-formed numeric reference to a
\* character outside the table; "none": the ampersand is literal text.
RefAt(t, i) ==
  LET lim == Min2(Len(t), i + 10)
      j == FindFrom(SubSeq(t, 1, lim), ";", i + 1)
      body == IF j = 0 THEN "" ELSE SubSeq(t, i + 1, j - 1)
      none == [k |-> "none", c |-> "&", end |-> i] IN
  IF j = 0 \/ body = "" THEN none
  ELSE IF body \in DOMAIN NamedRefs THEN [k |-> "ref", c |-> NamedRefs[body], end |-> j]
  ELSE IF Ch(body, 1) = "#" THEN
    LET hex == Len(body) >= 2 /\ Ch(body, 2) \in {"x", "X"}
        n == IF hex THEN NumVal(SubSeq(body, 3, Len(body)), 16, 1, 0)
             ELSE NumVal(SubSeq(body, 2, Len(body)), 10, 1, 0) IN
    IF n < 0 THEN none
    ELSE IF HasChar(n) THEN [k |-> "ref", c |-> CharOf(n), end |-> j]
    ELSE [k |-> "unk", c |-> "", end |-> j]
  ELSE none

\* a text node as a sequence of tokens [k: "ch" | "ref" | "unk", c]
RECURSIVE HtmlTokensFrom(_, _)
HtmlTokensFrom(t, i) ==
  IF i > Len(t) THEN <<>>
  ELSE IF Ch(t, i) = "&" THEN
    LET r == RefAt(t, i) IN
    IF r.k = "none" THEN <<[k |-> "ch", c |-> "&"]>> \o HtmlTokensFrom(t, i + 1)
    ELSE <<[k |-> r.k, c |-> r.c]>> \o HtmlTokensFrom(t, r.end + 1)
  ELSE <<[k |-> "ch", c |-> Ch(t, i)]>> \o HtmlTokensFrom(t, i + 1)
HtmlTokens(t) == HtmlTokensFrom(t, 1)

RECURSIVE CatTokChars(_, _)
CatTokChars(q, i) == IF i > Len(q) THEN "" ELSE q[i].c \o CatTokChars(q, i + 1)

HtmlKnown(t)    == LET q == HtmlTokens(t) IN \A i \in DOMAIN q : q[i].k # "unk"
UnescapeHtml(t) == CatTokChars(HtmlTokens(t), 1)
NoRawSpecial(t) == LET q == HtmlTokens(t) IN \A i \in DOMAIN q : q[i].k = "ch" => q[i].c \notin HtmlSpecials

\* spelling-insensitive form: every reference to a special character is
\* re-spelled canonically (so &quot; == &#34; == &#x22;), other references are
\* replaced by their character
RECURSIVE CanonToks(_, _)
CanonToks(q, i) ==
  IF i > Len(q) THEN ""
  ELSE (IF q[i].k = "ref" THEN EscHtmlChar(q[i].c) ELSE q[i].c) \o CanonToks(q, i + 1)
CanonRefs(t) == CanonToks(HtmlTokens(t), 1)

\* CONTRACT of an HTML text encoder E for the text s:
\*   nothing special is left raw, and the text node decodes to s
HtmlEncodes(out, s) == NoRawSpecial(out) /\ UnescapeHtml(out) = s

\* CONTRACT for an encoder that adds its own markup `tag` between pieces of
\* escaped text: every piece between the tags is itself a faithful encoding
\* (so a tag placed inside a character reference is a violation)
RECURSIVE AllSegs(_, _, _)
AllSegs(P(_), q, i) == i > Len(q) \/ (P(q[i]) /\ AllSegs(P, q, i + 1))
RECURSIVE UnescapeSegs(_, _)
UnescapeSegs(q, i) == IF i > Len(q) THEN <<>> ELSE <<UnescapeHtml(q[i])>> \o UnescapeSegs(q, i + 1)
SegmentsSafe(out, tag) == AllSegs(NoRawSpecial, SplitOn(out, tag), 1)
SegmentsText(out, tag) == UnescapeSegs(SplitOn(out, tag), 1)

(***************************************************************************)
(* URI component encoding ("application/x-www-form-urlencoded" flavour:    *)
(* the repository's tests pin space -> '+').                               *)
(***************************************************************************)
UnreservedStr == "ABCDEFGHIJKLMNOPQRSTUVWXYZabcdefghijklmnopqrstuvwxyz0123456789-_.~"
UnreservedSet == CharsOf(UnreservedStr)
IsUnreserved(c) == c \in UnreservedSet
\* marks of RFC 2396 that RFC 3986 made sub-delims; harmless in every context
\* except the apostrophe, which is an HTML special and is NOT allowed raw
UriLenient == {"!", "*", "(", ")"}

RECURSIVE PctBytes(_, _)
PctBytes(bs, i) == IF i > Len(bs) THEN "" ELSE "%" \o Hex2(bs[i]) \o PctBytes(bs, i + 1)
UriEscChar(c) == IF IsUnreserved(c) THEN c
                 ELSE IF c = " " THEN "+"
                 ELSE PctBytes(Utf8(CodeOf(c)), 1)
UriEscape(s) == MapCat(UriEscChar, s, 1)       \* needs AllKnown(s)

\* bytes denoted by an encoded component; -1 marks a malformed escape
RECURSIVE UriBytes(_, _)
UriBytes(t, i) ==
  IF i > Len(t) THEN <<>>
  ELSE LET c == Ch(t, i) IN
    IF c = "+" THEN <<32>> \o UriBytes(t, i + 1)
    ELSE IF c = "%" THEN
      IF i + 2 <= Len(t) /\ IsHex(Ch(t, i + 1)) /\ IsHex(Ch(t, i + 2))
      THEN <<HexVal(Ch(t, i + 1)) * 16 + HexVal(Ch(t, i + 2))>> \o UriBytes(t, i + 3)
      ELSE <<-1>>
    ELSE Utf8(CodeOf(c)) \o UriBytes(t, i + 1)
UriDecode(t) == LET bs == UriBytes(t, 1) IN
                IF \E i \in DOMAIN bs : bs[i] < 0 THEN DecBad ELSE CodesToText(Utf8Decode(bs, 1), 1)

\* output alphabet: unreserved, %XX, '+', and the lenient marks
RECURSIVE UriAlphabetFrom(_, _)
UriAlphabetFrom(t, i) ==
  i > Len(t) \/
  LET c == Ch(t, i) IN
  IF c = "%" THEN i + 2 <= Len(t) /\ IsHex(Ch(t, i + 1)) /\ IsHex(Ch(t, i + 2)) /\ UriAlphabetFrom(t, i + 3)
  ELSE (IsUnreserved(c) \/ c = "+" \/ c \in UriLenient) /\ UriAlphabetFrom(t, i + 1)
UriAlphabet(t) == UriAlphabetFrom(t, 1)

\* CONTRACT of escapeUri
UriEncodes(out, s) == UriAlphabet(out) /\ UriDecode(out) = DecOK(s)

(***************************************************************************)
(* JavaScript string-literal bodies.                                       *)
(***************************************************************************)
JsEscChar(c) == CASE c = "\\" -> "\\\\"
                  [] c = "'" -> "\\'"
                  [] c = "\"" -> "\\\""
                  [] c = "<" -> "\\u003C"
                  [] c = ">" -> "\\u003E"
                  [] c = "&" -> "\\u0026"
                  [] c = "=" -> "\\u003D"
                  [] c \in KnownChars /\ CodeOf(c) < 32 -> "\\u00" \o Hex2(CodeOf(c))
                  [] OTHER -> c
JsStringEscape(s) == MapCat(JsEscChar, s, 1)

\* tokens of a string-literal body: [k: "raw" | "esc" | "unk" | "bad", c]
RECURSIVE JsTokensFrom(_, _)
JsTokensFrom(t, i) ==
  IF i > Len(t) THEN <<>>
  ELSE LET c == Ch(t, i) IN
    IF c # "\\" THEN <<[k |-> "raw", c |-> c]>> \o JsTokensFrom(t, i + 1)
    ELSE IF i = Len(t) THEN <<[k |-> "bad", c |-> ""]>>             \* dangling backslash
    ELSE LET e == Ch(t, i + 1) IN
      CASE e = "n" -> <<[k |-> "esc", c |-> "\n"]>> \o JsTokensFrom(t, i + 2)
        [] e = "r" -> <<[k |-> "esc", c |-> "\r"]>> \o JsTokensFrom(t, i + 2)
        [] e = "t" -> <<[k |-> "esc", c |-> "\t"]>> \o JsTokensFrom(t, i + 2)
        [] e = "f" -> <<[k |-> "esc", c |-> "\f"]>> \o JsTokensFrom(t, i + 2)
        [] e \in {"b", "v", "0"} -> <<[k |-> "unk", c |-> ""]>> \o JsTokensFrom(t, i + 2)
        [] e \in {"\n", "\r"} -> <<[k |-> "esc", c |-> ""]>> \o JsTokensFrom(t, i + 2)   \* line continuation
        [] e = "x" ->
             IF i + 3 <= Len(t) /\ IsHex(Ch(t, i + 2)) /\ IsHex(Ch(t, i + 3)) THEN
               LET n == HexVal(Ch(t, i + 2)) * 16 + HexVal(Ch(t, i + 3)) IN
               <<IF HasChar(n) THEN [k |-> "esc", c |-> CharOf(n)] ELSE [k |-> "unk", c |-> ""]>>
                 \o JsTokensFrom(t, i + 4)
             ELSE <<[k |-> "bad", c |-> ""]>>
        [] e = "u" ->
             IF i + 5 <= Len(t) /\ \A d \in 2..5 : IsHex(Ch(t, i + d)) THEN
               LET n == NumVal(SubSeq(t, i + 2, i + 5), 16, 1, 0) IN
               <<IF HasChar(n) THEN [k |-> "esc", c |-> CharOf(n)] ELSE [k |-> "unk", c |-> ""]>>
                 \o JsTokensFrom(t, i + 6)
             ELSE IF i + 2 <= Len(t) /\ Ch(t, i + 2) = "{" THEN <<[k |-> "unk", c |-> ""]>>   \* \u{...}: no claim
             ELSE <<[k |-> "bad", c |-> ""]>>
        [] IsDigit(e) -> <<[k |-> "unk", c |-> ""]>> \o JsTokensFrom(t, i + 2)               \* legacy octal: no claim
        [] OTHER -> <<[k |-> "esc", c |-> e]>> \o JsTokensFrom(t, i + 2)
JsTokens(t) == JsTokensFrom(t, 1)

JsKnown(t) == LET q == JsTokens(t) IN \A i \in DOMAIN q : q[i].k # "unk"
JsWellFormed(t) == LET q == JsTokens(t) IN \A i \in DOMAIN q : q[i].k # "bad"
JsDenote(t) == CatTokChars(JsTokens(t), 1)

\* safe between either kind of quotes inside a <script> element
JsSafe(t) == LET q == JsTokens(t) IN
  /\ JsWellFormed(t)
  /\ \A i \in DOMAIN q : q[i].k = "raw" => q[i].c \notin {"'", "\"", "\n", "\r"}
  /\ ~HasSub(Lower(t), "</script")

\* CONTRACT of escapeJsString
JsEncodes(out, s) == JsSafe(out) /\ JsDenote(out) = s

(***************************************************************************)
(* JSON on the value model.                                                *)
(***************************************************************************)
JsonEscChar(c) == CASE c = "\"" -> "\\\""
                    [] c = "\\" -> "\\\\"
                    [] c = "\n" -> "\\n"
                    [] c = "\r" -> "\\r"
                    [] c = "\t" -> "\\t"
                    [] c = "\f" -> "\\u000c"
                    [] c = "<" -> "\\u003c"
                    [] c = ">" -> "\\u003e"
                    [] c = "&" -> "\\u0026"
                    [] OTHER -> c
JsonStr(s) == "\"" \o MapCat(JsonEscChar, s, 1) \o "\""

RECURSIVE JsonEncode(_), JsonList(_, _), JsonMap(_, _, _)
JsonEncode(v) ==
  CASE v.t = "null" -> "null"
    [] v.t = "bool" -> IF v.v THEN "true" ELSE "false"
    [] v.t = "int" -> ToString(v.v)
    [] v.t = "float" -> FloatText(v.num, v.sh)
    [] v.t = "str" -> JsonStr(v.v)
    [] v.t = "list" -> "[" \o JsonList(v.v, 1) \o "]"
    [] v.t = "map" -> "{" \o JsonMap(v.v, SortedKeys(v.v), 1) \o "}"
    [] OTHER -> "<?>"
JsonList(q, i) == IF i > Len(q) THEN ""
                  ELSE (IF i > 1 THEN "," ELSE "") \o JsonEncode(q[i]) \o JsonList(q, i + 1)
JsonMap(f, ks, i) == IF i > Len(ks) THEN ""
                     ELSE (IF i > 1 THEN "," ELSE "") \o JsonStr(ks[i]) \o ":" \o JsonEncode(f[ks[i]]) \o JsonMap(f, ks, i + 1)

\* --- decoder: recursive descent; results [ok: "ok"|"unknown"|"malformed", v, i (next index)]
PR(ok, v, i) == [ok |-> ok, v |-> v, i |-> i]
IsWs(c) == c \in {" ", "\t", "\n", "\r"}
RECURSIVE SkipWs(_, _)
SkipWs(t, i) == IF i <= Len(t) /\ IsWs(Ch(t, i)) THEN SkipWs(t, i + 1) ELSE i

\* end (exclusive) of the JSON string body starting at i (just after the opening quote); 0 if unterminated
RECURSIVE JStrEnd(_, _)
JStrEnd(t, i) == IF i > Len(t) THEN 0
                 ELSE IF Ch(t, i) = "\"" THEN i
                 ELSE IF Ch(t, i) = "\\" THEN JStrEnd(t, i + 2)
                 ELSE JStrEnd(t, i + 1)

RECURSIVE DigitsEnd(_, _)
DigitsEnd(t, i) == IF i <= Len(t) /\ IsDigit(Ch(t, i)) THEN DigitsEnd(t, i + 1) ELSE i

RECURSIVE Pow5(_)
Pow5(n) == IF n <= 0 THEN 1 ELSE 5 * Pow5(n - 1)

ParseNumber(t, i) ==
  LET neg == Ch(t, i) = "-"
      a == IF neg THEN i + 1 ELSE i
      b == DigitsEnd(t, a)
      hasFrac == b <= Len(t) /\ Ch(t, b) = "."
      c == IF hasFrac THEN DigitsEnd(t, b + 1) ELSE b
      hasExp == c <= Len(t) /\ Ch(t, c) \in {"e", "E"} IN
  IF b = a \/ (hasFrac /\ c = b + 1) THEN PR("malformed", Null, i)
  ELSE IF hasExp \/ b - a > 6 \/ c - b > 7 THEN PR("unknown", Null, c)
  ELSE LET ip == NumVal(SubSeq(t, a, b - 1), 10, 1, 0)
           k == IF hasFrac THEN c - b - 1 ELSE 0
           fp == IF hasFrac THEN NumVal(SubSeq(t, b + 1, c - 1), 10, 1, 0) ELSE 0
           sgn == IF neg THEN -1 ELSE 1 IN
       IF ~hasFrac THEN PR("ok", I(sgn * ip), c)
       ELSE IF fp % Pow5(k) # 0 \/ ip > 2000 THEN PR("unknown", Null, c)   \* not a small dyadic
       ELSE PR("ok", F(sgn * (ip * Pow2(k) + (fp \div Pow5(k))), k), c)

RECURSIVE ParseJson(_, _), ParseElems(_, _, _), ParseMembers(_, _, _)
ParseJson(t, i0) ==
  LET i == SkipWs(t, i0) IN
  IF i > Len(t) THEN PR("malformed", Null, i)
  ELSE LET c == Ch(t, i) IN
    CASE c = "n" -> IF Starts(t, i, "null") THEN PR("ok", Null, i + 4) ELSE PR("malformed", Null, i)
      [] c = "t" -> IF Starts(t, i, "true") THEN PR("ok", B(TRUE), i + 4) ELSE PR("malformed", Null, i)
      [] c = "f" -> IF Starts(t, i, "false") THEN PR("ok", B(FALSE), i + 5) ELSE PR("malformed", Null, i)
      [] c = "\"" ->
           LET e == JStrEnd(t, i + 1) IN
           IF e = 0 THEN PR("malformed", Null, i)
           ELSE LET body == SubSeq(t, i + 1, e - 1) IN
                IF ~JsWellFormed(body) THEN PR("malformed", Null, i)
                ELSE IF ~JsKnown(body) THEN PR("unknown", Null, e + 1)
                ELSE PR("ok", S(JsDenote(body)), e + 1)
      [] c = "[" ->
           LET j == SkipWs(t, i + 1) IN
           IF j <= Len(t) /\ Ch(t, j) = "]" THEN PR("ok", L(<<>>), j + 1) ELSE ParseElems(t, i + 1, <<>>)
      [] c = "{" ->
           LET j == SkipWs(t, i + 1) IN
           IF j <= Len(t) /\ Ch(t, j) = "}" THEN PR("ok", M(<<>>), j + 1) ELSE ParseMembers(t, i + 1, <<>>)
      [] c = "-" \/ IsDigit(c) -> ParseNumber(t, i)
      [] OTHER -> PR("malformed", Null, i)
ParseElems(t, i, acc) ==
  LET r == ParseJson(t, i) IN
  IF r.ok # "ok" THEN r
  ELSE LET j == SkipWs(t, r.i) IN
    IF j > Len(t) THEN PR("malformed", Null, j)
    ELSE IF Ch(t, j) = "," THEN ParseElems(t, j + 1, Append(acc, r.v))
    ELSE IF Ch(t, j) = "]" THEN PR("ok", L(Append(acc, r.v)), j + 1)
    ELSE PR("malformed", Null, j)
ParseMembers(t, i, acc) ==
  LET k == ParseJson(t, i) IN
  IF k.ok # "ok" THEN k
  ELSE IF k.v.t # "str" THEN PR("malformed", Null, i)
  ELSE LET j == SkipWs(t, k.i) IN
    IF j > Len(t) \/ Ch(t, j) # ":" THEN PR("malformed", Null, j)
    ELSE LET r == ParseJson(t, j + 1) IN
      IF r.ok # "ok" THEN r
      ELSE LET m == SkipWs(t, r.i)
               acc2 == [x \in (DOMAIN acc) \cup {k.v.v} |-> IF x = k.v.v THEN r.v ELSE acc[x]] IN
        IF m > Len(t) THEN PR("malformed", Null, m)
        ELSE IF Ch(t, m) = "," THEN ParseMembers(t, m + 1, acc2)
        ELSE IF Ch(t, m) = "}" THEN PR("ok", M(acc2), m + 1)
        ELSE PR("malformed", Null, m)

\* whole-text decoder
JsonDecode(t) == LET r == ParseJson(t, 1) IN
                 IF r.ok = "ok" /\ SkipWs(t, r.i) # Len(t) + 1 THEN PR("malformed", Null, r.i) ELSE r

\* structural equality: "t" / "f" / "u"
RECURSIVE JsonEq(_, _)
JsonEq(a, b) ==
  IF IsNum(a) /\ IsNum(b) THEN
       (IF AddOK(a) /\ AddOK(b) THEN (IF NumCmp(a, b) = 0 THEN "t" ELSE "f") ELSE "u")
  ELSE IF a.t # b.t THEN "f"
  ELSE CASE a.t = "null" -> "t"
         [] a.t = "bool" -> IF a.v = b.v THEN "t" ELSE "f"
         [] a.t = "str" -> IF a.v = b.v THEN "t" ELSE "f"
         [] a.t = "list" ->
              IF Len(a.v) # Len(b.v) THEN "f"
              ELSE LET rs == {JsonEq(a.v[i], b.v[i]) : i \in 1..Len(a.v)} IN
                   IF "f" \in rs THEN "f" ELSE IF "u" \in rs THEN "u" ELSE "t"
         [] a.t = "map" ->
              IF DOMAIN a.v # DOMAIN b.v THEN "f"
              ELSE LET rs == {JsonEq(a.v[k], b.v[k]) : k \in DOMAIN a.v} IN
                   IF "f" \in rs THEN "f" ELSE IF "u" \in rs THEN "u" ELSE "t"
         [] OTHER -> "u"

\* JSON text that is safe inside a <script> element / HTML text: none of
\* < > & raw (RFC 8259 permits escaping them, every HTML-aware encoder does)
JsonHtmlSafe(t) == ~HasSub(t, "<") /\ ~HasSub(t, ">") /\ ~HasSub(t, "&")

\* CONTRACT of |json : verdict "t" | "f" | "u"
JsonEncodes(out, v) == LET r == JsonDecode(out) IN
                       IF r.ok = "malformed" THEN "f" ELSE IF r.ok = "unknown" THEN "u" ELSE JsonEq(r.v, v)
=============================================================================
