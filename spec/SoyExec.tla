------------------------------- MODULE SoyExec -------------------------------
(***************************************************************************)
(* Small-step reference interpreter for Soy commands (DESIGN.md §4,        *)
(* Appendix A).  One action per command case; explicit scope frames,       *)
(* activations (template calls), capture buffers (let/param/log content),  *)
(* the output writer with an injected fault plan, and the render status.   *)
(*                                                                         *)
(* A program is a record                                                   *)
(*   [bundle |-> [tmplName -> template], entry, data, ij, glob, plan]      *)
(* template = [params |-> Seq([name, opt]), body |-> Seq(cmd), nsa, ta      *)
(*             (autoescape attribute of the namespace / of the template:   *)
(*             "" | "true" | "false" | "contextual"), file, ns]            *)
(* cmd (tagged records, the JSON the harness exchanges):                   *)
(*   [k|->"text", s]                  raw text / special char / literal    *)
(*   [k|->"print", e, dirs]           dirs: Seq([name, args: Seq(expr)])   *)
(*   [k|->"if", brs: Seq([c, body]), els: [has, body]]                     *)
(*   [k|->"switch", e, cases: Seq([vals: Seq(expr), body]), def:[has,body]]*)
(*   [k|->"foreach", var, e, body, empty: [has, body]]                     *)
(*   [k|->"letv", name, e]   [k|->"letc", name, body]                      *)
(*   [k|->"call", tmpl, data: "none"|"all"|"expr", de, params:             *)
(*        Seq([k|->"pv", key, e] | [k|->"pc", key, body])]                 *)
(*   [k|->"css", has, e, suffix]   [k|->"log", body]   [k|->"debugger"]    *)
(*   [k|->"msg", body]   [k|->"plural", e, cases: Seq([n, body]), def]     *)
(*                                                                         *)
(* Dev is a set of named deviations; {} is the reference design.           *)
(***************************************************************************)
EXTENDS SoyExpr

CONSTANT Dev

VARIABLES prog,     \* the program being run (chosen in Init)
          ctl,      \* control stack: Seq of commands and markers
          act,      \* activation stack: Seq([tmpl, tdata, scopes, esc])
          pend,     \* pending calls being assembled: Seq([tmpl, data])
          bufs,     \* capture buffers (innermost last)
          out,      \* text accepted by the writer
          wr,       \* writer state [calls, failed]
          status,   \* "run" | "ok" | "err" | "unspec"
          unbound   \* set of names looked up while no frame bound them

vars == <<prog, ctl, act, pend, bufs, out, wr, status, unbound>>

EmptyF == [x \in {} |-> Null]

\* effective autoescape mode of a template: its own attribute if given, else
\* its namespace's, else on; "contextual" counts as on
EffEsc(t) == IF t.ta # "" THEN t.ta # "false"
             ELSE IF t.nsa # "" THEN t.nsa # "false" ELSE TRUE

Top == act[Len(act)]

RECURSIVE MergeFrames(_, _)
MergeFrames(fs, i) == IF i = 0 THEN EmptyF ELSE fs[i] @@ MergeFrames(fs, i - 1)

\* the variables visible in activation a: innermost frame first, then template data
VisibleOf(a) == MergeFrames(a.scopes, Len(a.scopes)) @@ a.tdata
Visible == VisibleOf(Top)

Env == [vars |-> Visible, ij |-> prog.ij, glob |-> prog.glob]

RECURSIVE FreeVars(_), FreeVarsSeq(_, _)
FreeVarsSeq(es, i) == IF i > Len(es) THEN {} ELSE FreeVars(es[i]) \cup FreeVarsSeq(es, i + 1)
FreeVars(e) ==
  CASE e.k = "var" ->
         (IF e.name = "ij" THEN {} ELSE {e.name}) \cup
         UNION {IF e.acc[i].k = "expr" THEN FreeVars(e.acc[i].e) ELSE {} : i \in 1..Len(e.acc)}
    [] e.k = "list" -> FreeVarsSeq(e.items, 1)
    [] e.k = "map" -> UNION {FreeVars(e.items[i].val) : i \in 1..Len(e.items)}
    [] e.k = "fn" -> FreeVarsSeq(e.args, 1)
    [] e.k \in {"neg", "not"} -> FreeVars(e.a)
    [] e.k = "tern" -> FreeVars(e.c) \cup FreeVars(e.a) \cup FreeVars(e.b)
    [] e.k \in BinOps -> FreeVars(e.a) \cup FreeVars(e.b)
    [] OTHER -> {}

Unbound(e) == FreeVars(e) \ DOMAIN Visible

(***************************************************************************)
(* HTML escaping as the Go renderer spells it.                             *)
(***************************************************************************)
EscChar(c) == CASE c = "&" -> "&amp;" [] c = "<" -> "&lt;" [] c = ">" -> "&gt;"
                [] c = "\"" -> "&#34;" [] c = "'" -> "&#39;" [] OTHER -> c
RECURSIVE EscFrom(_, _)
EscFrom(s, i) == IF i > Len(s) THEN "" ELSE EscChar(SubSeq(s, i, i)) \o EscFrom(s, i + 1)
EscapeHtml(s) == EscFrom(s, 1)

\* directives understood by this module (the full set lives in SoyDirectives)
KnownDirs == {"noAutoescape", "id", "escapeHtml"}
Cancels(d) == d \in {"noAutoescape", "id", "escapeHtml"}

RECURSIVE ApplyDirs(_, _, _)
ApplyDirs(text, dirs, i) ==
  IF i > Len(dirs) THEN text
  ELSE ApplyDirs(IF dirs[i].name = "escapeHtml" THEN EscapeHtml(text) ELSE text, dirs, i + 1)

(***************************************************************************)
(* Output: to the innermost capture buffer, else to the writer.            *)
(* plan = [kind |-> "none"] | [kind |-> "failAt", k] (the k-th write call, *)
(* counted from 0, fails and accepts nothing) | [kind |-> "cap", k] (the   *)
(* writer accepts k characters in total and then fails on a short write).  *)
(***************************************************************************)
WriteFails(t) ==
  CASE prog.plan.kind = "failAt" -> wr.calls = prog.plan.k
    [] prog.plan.kind = "cap" -> Len(out) + Len(t) > prog.plan.k
    [] OTHER -> FALSE

Accepted(t) ==
  CASE prog.plan.kind = "failAt" -> IF wr.calls = prog.plan.k THEN "" ELSE t
    [] prog.plan.kind = "cap" ->
         IF Len(out) + Len(t) > prog.plan.k THEN SubSeq(t, 1, prog.plan.k - Len(out)) ELSE t
    [] OTHER -> t

\* Emit text t and continue with control stack c.  A failed write ends the
\* render with an error (unless the deviation drops it).
Emit(t, c) ==
  IF Len(bufs) > 0 THEN
       /\ bufs' = [bufs EXCEPT ![Len(bufs)] = @ \o t]
       /\ ctl' = c
       /\ UNCHANGED <<out, wr, status>>
  ELSE IF t = "" /\ "empty_write_counts" \notin Dev THEN
       /\ ctl' = c
       /\ UNCHANGED <<bufs, out, wr, status>>
  ELSE /\ out' = out \o Accepted(t)
       /\ wr' = [calls |-> wr.calls + 1, failed |-> wr.failed \/ WriteFails(t)]
       /\ UNCHANGED bufs
       /\ IF WriteFails(t) /\ "write_error_dropped" \notin Dev
          THEN status' = "err" /\ ctl' = <<>>
          ELSE status' = status /\ ctl' = c

Fail == /\ status' = "err" /\ ctl' = <<>>
        /\ UNCHANGED <<act, pend, bufs, out, wr>>
NoClaim == /\ status' = "unspec" /\ ctl' = <<>>
           /\ UNCHANGED <<act, pend, bufs, out, wr>>

\* continue after evaluating to v with body(v) unless v is Err/Unspec
Bad(v) == IF v.t = "err" THEN Fail ELSE NoClaim

PushFrame(a) == [a EXCEPT !.scopes = Append(@, EmptyF)]
PopFrame(a)  == [a EXCEPT !.scopes = SubSeq(@, 1, Len(@) - 1)]
Bind(a, name, v) == [a EXCEPT !.scopes[Len(a.scopes)] = (name :> v) @@ @]

SetTop(a) == act' = [act EXCEPT ![Len(act)] = a]

\* a block body: own frame (reference); deviations skip it for some block kinds
Block(kind, body) ==
  IF ("if_block_no_frame" \in Dev /\ kind \in {"if", "case"})
     \/ ("content_block_no_frame" \in Dev /\ kind \in {"letc", "pc", "log"})
  THEN body
  ELSE <<[k |-> "push"]>> \o body \o <<[k |-> "pop"]>>

Head1 == ctl[1]
Rest == Tail(ctl)

(***************************************************************************)
(* Actions                                                                 *)
(***************************************************************************)
Running == status = "run" /\ Len(ctl) > 0

DoPush == /\ Running /\ Head1.k = "push"
          /\ SetTop(PushFrame(Top)) /\ ctl' = Rest
          /\ UNCHANGED <<prog, pend, bufs, out, wr, status, unbound>>

DoPop == /\ Running /\ Head1.k = "pop"
         /\ SetTop(PopFrame(Top)) /\ ctl' = Rest
         /\ UNCHANGED <<prog, pend, bufs, out, wr, status, unbound>>

RawText == /\ Running /\ Head1.k = "text"
           /\ Emit(Head1.s, Rest)
           /\ UNCHANGED <<prog, act, pend, unbound>>

Debugger == /\ Running /\ Head1.k = "debugger"
            /\ ctl' = Rest
            /\ UNCHANGED <<prog, act, pend, bufs, out, wr, status, unbound>>

DoPrint ==
  /\ Running /\ Head1.k = "print"
  /\ unbound' = unbound \cup Unbound(Head1.e)
  /\ UNCHANGED <<prog, act, pend>>
  /\ LET v == Eval(Head1.e, Env)
         dirs == Head1.dirs
         cancel == \E i \in 1..Len(dirs) : Cancels(dirs[i].name) IN
     IF IsBad(v) THEN Bad(v)
     ELSE IF v.t = "undef" THEN Fail
     ELSE IF \E i \in 1..Len(dirs) : dirs[i].name \notin KnownDirs THEN NoClaim
     ELSE IF ~Printable(v) THEN NoClaim
     ELSE LET t0 == ApplyDirs(ToText(v), dirs, 1)
              t == IF Top.esc /\ ~cancel THEN EscapeHtml(t0) ELSE t0 IN
          Emit(t, Rest)

Css ==
  /\ Running /\ Head1.k = "css"
  /\ UNCHANGED <<prog, act, pend>>
  /\ IF ~Head1.has THEN unbound' = unbound /\ Emit(Head1.suffix, Rest)
     ELSE /\ unbound' = unbound \cup Unbound(Head1.e)
          /\ LET v == Eval(Head1.e, Env) IN
             IF IsBad(v) THEN Bad(v)
             ELSE IF v.t = "undef" THEN NoClaim
             ELSE IF ~Printable(v) THEN NoClaim
             ELSE Emit(ToText(v) \o "-" \o Head1.suffix, Rest)

\* first branch whose condition is truthy; conditions evaluated in order
RECURSIVE PickBranch(_, _)
PickBranch(brs, i) ==     \* returns [r |-> "take", i] | [r |-> "none"] | [r |-> "bad", v]
  IF i > Len(brs) THEN [r |-> "none"]
  ELSE LET v == Eval(brs[i].c, Env) IN
       IF IsBad(v) THEN [r |-> "bad", v |-> v]
       ELSE IF Truthy(v) THEN [r |-> "take", i |-> i]
       ELSE PickBranch(brs, i + 1)

RECURSIVE CondVars(_, _, _)
CondVars(brs, i, upto) ==
  IF i > upto \/ i > Len(brs) THEN {} ELSE Unbound(brs[i].c) \cup CondVars(brs, i + 1, upto)

IfSelect ==
  /\ Running /\ Head1.k = "if"
  /\ UNCHANGED <<prog, act, pend, bufs, out, wr>>
  /\ LET p == PickBranch(Head1.brs, 1) IN
     CASE p.r = "bad" ->
            /\ unbound' = unbound
            /\ status' = (IF p.v.t = "err" THEN "err" ELSE "unspec") /\ ctl' = <<>>
       [] p.r = "take" ->
            /\ unbound' = unbound \cup CondVars(Head1.brs, 1, p.i)
            /\ status' = status
            /\ ctl' = Block("if", Head1.brs[p.i].body) \o Rest
       [] OTHER ->
            /\ unbound' = unbound \cup CondVars(Head1.brs, 1, Len(Head1.brs))
            /\ status' = status
            /\ ctl' = (IF Head1.els.has THEN Block("if", Head1.els.body) ELSE <<>>) \o Rest

\* switch: first case one of whose values equals the subject
RECURSIVE PickCase(_, _, _, _)
PickCase(subj, cases, i, j) ==
  IF i > Len(cases) THEN [r |-> "none"]
  ELSE IF j > Len(cases[i].vals) THEN PickCase(subj, cases, i + 1, 1)
  ELSE LET v == Eval(cases[i].vals[j], Env) IN
       IF IsBad(v) THEN [r |-> "bad", v |-> v]
       ELSE LET q == EqualsV(subj, v) IN
            IF q = "u" THEN [r |-> "bad", v |-> Unspec]
            ELSE IF q = "t" THEN [r |-> "take", i |-> i]
            ELSE PickCase(subj, cases, i, j + 1)

SwitchSelect ==
  /\ Running /\ Head1.k = "switch"
  /\ UNCHANGED <<prog, act, pend, bufs, out, wr>>
  /\ unbound' = unbound \cup Unbound(Head1.e)
  /\ LET s == Eval(Head1.e, Env) IN
     IF IsBad(s) THEN status' = (IF s.t = "err" THEN "err" ELSE "unspec") /\ ctl' = <<>>
     ELSE LET p == PickCase(s, Head1.cases, 1, 1) IN
          CASE p.r = "bad" -> status' = (IF p.v.t = "err" THEN "err" ELSE "unspec") /\ ctl' = <<>>
            [] p.r = "take" -> status' = status /\ ctl' = Block("case", Head1.cases[p.i].body) \o Rest
            [] OTHER -> /\ status' = status
                        /\ ctl' = (IF Head1.def.has THEN Block("case", Head1.def.body) ELSE <<>>) \o Rest

ForEnter ==
  /\ Running /\ Head1.k = "foreach"
  /\ UNCHANGED <<prog, pend, bufs, out, wr>>
  /\ unbound' = unbound \cup Unbound(Head1.e)
  /\ LET v == Eval(Head1.e, Env) IN
     IF IsBad(v) THEN /\ status' = (IF v.t = "err" THEN "err" ELSE "unspec") /\ ctl' = <<>> /\ UNCHANGED act
     ELSE IF v.t # "list" THEN status' = "unspec" /\ ctl' = <<>> /\ UNCHANGED act   \* ill-typed: C06's domain
     ELSE IF Len(v.v) = 0 THEN
          /\ status' = status /\ UNCHANGED act
          /\ ctl' = (IF Head1.empty.has THEN Block("ifempty", Head1.empty.body) ELSE <<>>) \o Rest
     ELSE /\ status' = status
          /\ SetTop(PushFrame(Top))                          \* the loop's own frame
          /\ ctl' = <<[k |-> "iter", var |-> Head1.var, list |-> v.v, i |-> 1, body |-> Head1.body]>> \o Rest

ForIter ==
  /\ Running /\ Head1.k = "iter"
  /\ UNCHANGED <<prog, pend, bufs, out, wr, status, unbound>>
  /\ IF Head1.i > Len(Head1.list)
     THEN SetTop(PopFrame(Top)) /\ ctl' = Rest
     ELSE LET a1 == Bind(Top, Head1.var, Head1.list[Head1.i])
              a2 == Bind(a1, Head1.var \o "__index", I(Head1.i - 1))
              a3 == Bind(a2, Head1.var \o "__lastIndex", I(Len(Head1.list) - 1))
              body == IF "loop_body_no_frame" \in Dev THEN Head1.body
                      ELSE <<[k |-> "push"]>> \o Head1.body \o <<[k |-> "pop"]>> IN
          /\ SetTop(a3)
          /\ ctl' = body \o <<[Head1 EXCEPT !.i = @ + 1]>> \o Rest

LetValue ==
  /\ Running /\ Head1.k = "letv"
  /\ UNCHANGED <<prog, pend, bufs, out, wr>>
  /\ unbound' = unbound \cup Unbound(Head1.e)
  /\ LET v == Eval(Head1.e, Env) IN
     IF IsBad(v) THEN /\ status' = (IF v.t = "err" THEN "err" ELSE "unspec") /\ ctl' = <<>> /\ UNCHANGED act
     ELSE /\ status' = status /\ SetTop(Bind(Top, Head1.name, v)) /\ ctl' = Rest

LetContentBegin ==
  /\ Running /\ Head1.k = "letc"
  /\ bufs' = Append(bufs, "")
  /\ ctl' = Block("letc", Head1.body) \o <<[k |-> "endlet", name |-> Head1.name]>> \o Rest
  /\ UNCHANGED <<prog, act, pend, out, wr, status, unbound>>

LetContentEnd ==
  /\ Running /\ Head1.k = "endlet"
  /\ SetTop(Bind(Top, Head1.name, S(bufs[Len(bufs)])))
  /\ bufs' = SubSeq(bufs, 1, Len(bufs) - 1)
  /\ ctl' = Rest
  /\ UNCHANGED <<prog, pend, out, wr, status, unbound>>

LogBegin ==
  /\ Running /\ Head1.k = "log"
  /\ bufs' = Append(bufs, "")
  /\ ctl' = Block("log", Head1.body) \o <<[k |-> "endlog"]>> \o Rest
  /\ UNCHANGED <<prog, act, pend, out, wr, status, unbound>>

LogEnd ==
  /\ Running /\ Head1.k = "endlog"
  /\ bufs' = SubSeq(bufs, 1, Len(bufs) - 1)
  /\ ctl' = Rest
  /\ UNCHANGED <<prog, act, pend, out, wr, status, unbound>>

\* {call}: assemble the callee's data, then its params in order, then enter
CallBegin ==
  /\ Running /\ Head1.k = "call"
  /\ UNCHANGED <<prog, act, bufs, out, wr>>
  /\ LET base == CASE Head1.data = "all" ->
                        (IF "alldata_includes_locals" \in Dev THEN M(Visible) ELSE M(Top.tdata))
                   [] Head1.data = "expr" -> Eval(Head1.de, Env)
                   [] OTHER -> M(EmptyF) IN
     /\ unbound' = unbound \cup (IF Head1.data = "expr" THEN Unbound(Head1.de) ELSE {})
     /\ IF Head1.tmpl \notin DOMAIN prog.bundle THEN status' = "unspec" /\ ctl' = <<>> /\ UNCHANGED pend
        ELSE IF IsBad(base) THEN /\ status' = (IF base.t = "err" THEN "err" ELSE "unspec") /\ ctl' = <<>> /\ UNCHANGED pend
        \* data="$expr" passes a record; null or undefined is "no record": the
        \* callee may not run on data nobody passed (an error). Other non-map
        \* values are ill-typed programs: C06's domain, no claim here.
        ELSE IF base.t \in {"null", "undef"} THEN status' = "err" /\ ctl' = <<>> /\ UNCHANGED pend
        ELSE IF base.t # "map" THEN status' = "unspec" /\ ctl' = <<>> /\ UNCHANGED pend
        ELSE /\ status' = status
             /\ pend' = Append(pend, [tmpl |-> Head1.tmpl, data |-> base.v])
             /\ ctl' = Head1.params \o <<[k |-> "docall"]>> \o Rest

ParamValue ==
  /\ Running /\ Head1.k = "pv"
  /\ UNCHANGED <<prog, act, bufs, out, wr>>
  /\ unbound' = unbound \cup Unbound(Head1.e)
  /\ LET v == Eval(Head1.e, Env) IN
     IF IsBad(v) THEN /\ status' = (IF v.t = "err" THEN "err" ELSE "unspec") /\ ctl' = <<>> /\ UNCHANGED pend
     ELSE /\ status' = status /\ ctl' = Rest
          /\ pend' = [pend EXCEPT ![Len(pend)].data = (Head1.key :> v) @@ @]

ParamContentBegin ==
  /\ Running /\ Head1.k = "pc"
  /\ bufs' = Append(bufs, "")
  /\ ctl' = Block("pc", Head1.body) \o <<[k |-> "endparam", key |-> Head1.key]>> \o Rest
  /\ UNCHANGED <<prog, act, pend, out, wr, status, unbound>>

ParamContentEnd ==
  /\ Running /\ Head1.k = "endparam"
  /\ pend' = [pend EXCEPT ![Len(pend)].data = (Head1.key :> S(bufs[Len(bufs)])) @@ @]
  /\ bufs' = SubSeq(bufs, 1, Len(bufs) - 1)
  /\ ctl' = Rest
  /\ UNCHANGED <<prog, act, out, wr, status, unbound>>

CallEnter ==
  /\ Running /\ Head1.k = "docall"
  /\ LET p == pend[Len(pend)] t == prog.bundle[p.tmpl] IN
     /\ act' = Append(act, [tmpl |-> p.tmpl, tdata |-> p.data, scopes |-> <<EmptyF>>,
                            esc |-> IF "callee_inherits_esc" \in Dev THEN Top.esc ELSE EffEsc(t)])
     /\ pend' = SubSeq(pend, 1, Len(pend) - 1)
     /\ ctl' = t.body \o <<[k |-> "ret"]>> \o Rest
  /\ UNCHANGED <<prog, bufs, out, wr, status, unbound>>

CallReturn ==
  /\ Running /\ Head1.k = "ret"
  /\ act' = SubSeq(act, 1, Len(act) - 1)
  /\ ctl' = Rest
  /\ UNCHANGED <<prog, pend, bufs, out, wr, status, unbound>>

MsgBegin ==
  /\ Running /\ Head1.k = "msg"
  /\ ctl' = Head1.body \o Rest
  /\ UNCHANGED <<prog, act, pend, bufs, out, wr, status, unbound>>

PluralSelect ==
  /\ Running /\ Head1.k = "plural"
  /\ UNCHANGED <<prog, act, pend, bufs, out, wr>>
  /\ unbound' = unbound \cup Unbound(Head1.e)
  /\ LET v == Eval(Head1.e, Env) IN
     IF IsBad(v) THEN status' = (IF v.t = "err" THEN "err" ELSE "unspec") /\ ctl' = <<>>
     ELSE IF v.t # "int" THEN status' = "unspec" /\ ctl' = <<>>
     ELSE /\ status' = status
          /\ ctl' = (IF \E i \in 1..Len(Head1.cases) : Head1.cases[i].n = v.v
                     THEN Head1.cases[CHOOSE i \in 1..Len(Head1.cases) :
                             Head1.cases[i].n = v.v /\ \A j \in 1..(i - 1) : Head1.cases[j].n # v.v].body
                     ELSE Head1.def) \o Rest

Finish ==
  /\ status = "run" /\ Len(ctl) = 0
  /\ status' = "ok"
  /\ UNCHANGED <<prog, ctl, act, pend, bufs, out, wr, unbound>>

Step == \/ DoPush \/ DoPop \/ RawText \/ Debugger \/ DoPrint \/ Css \/ IfSelect \/ SwitchSelect
        \/ ForEnter \/ ForIter \/ LetValue \/ LetContentBegin \/ LetContentEnd
        \/ LogBegin \/ LogEnd \/ CallBegin \/ ParamValue \/ ParamContentBegin
        \/ ParamContentEnd \/ CallEnter \/ CallReturn \/ MsgBegin \/ PluralSelect \/ Finish

\* every action above leaves prog unchanged; stated once here
Next == Step /\ prog' = prog

Terminated == status # "run"

\* initial machine state for program p, as a record
InitRec(p) ==
  [prog |-> p, ctl |-> p.bundle[p.entry].body,
   act |-> <<[tmpl |-> p.entry, tdata |-> p.data, scopes |-> <<EmptyF>>, esc |-> EffEsc(p.bundle[p.entry])]>>,
   pend |-> <<>>, bufs |-> <<>>, out |-> "", wr |-> [calls |-> 0, failed |-> FALSE],
   status |-> "run", unbound |-> {}]

StartOf(p) == LET r == InitRec(p) IN
  /\ prog = r.prog /\ ctl = r.ctl /\ act = r.act /\ pend = r.pend /\ bufs = r.bufs
  /\ out = r.out /\ wr = r.wr /\ status = r.status /\ unbound = r.unbound

ResetTo(p) == LET r == InitRec(p) IN
  /\ prog' = r.prog /\ ctl' = r.ctl /\ act' = r.act /\ pend' = r.pend /\ bufs' = r.bufs
  /\ out' = r.out /\ wr' = r.wr /\ status' = r.status /\ unbound' = r.unbound

(***************************************************************************)
(* Properties of the design                                                *)
(***************************************************************************)
\* the caller's data map is never changed by the render
InputUnchanged == act[1].tdata = prog.data \/ Len(act) = 0

\* structural sanity: pops never underflow
FramesOK == \A i \in 1..Len(act) : Len(act[i].scopes) >= 1

\* a failed write surfaces as an error (C12)
WriterLatch == (wr.failed /\ Terminated) => status \in {"err", "unspec"}

=============================================================================
