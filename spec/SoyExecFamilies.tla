-------------------------- MODULE SoyExecFamilies --------------------------
(***************************************************************************)
(* Interaction families for C02 / C07, built by the specification itself   *)
(* and model-checked on the reference interpreter:                         *)
(*   (enclosing block) x (binder) x (use site) x (shadowing)               *)
(* Every program is run to completion by SoyExec (deadlock checking on: a  *)
(* running state with no enabled action would be a gap of the semantics),  *)
(* FramesOK and InputUnchanged are invariants, and at termination the      *)
(* program, the verdict of the data-reference rules (SoyCheck) and the     *)
(* expected outcome are printed as JSON for replay on the real code.       *)
(* With a deviation in Dev the same run yields the outcomes a realistic    *)
(* bug would give; the harness checks that the family tells them apart.    *)
(***************************************************************************)
EXTENDS SoyCheck, Json

EI(n) == [k |-> "int", v |-> n]
ES(s) == [k |-> "str", v |-> s]
EB(b) == [k |-> "bool", v |-> b]
EVar(n) == [k |-> "var", name |-> n, acc |-> <<>>]
EList(xs) == [k |-> "list", items |-> xs]
Elvis(a, b) == [k |-> "elvis", a |-> a, b |-> b]

Text(s) == [k |-> "text", s |-> s]
Pr(e) == [k |-> "print", e |-> e, dirs |-> <<>>]
Opt(h, b) == [has |-> h, body |-> b]
If(c, b) == [k |-> "if", brs |-> <<[c |-> c, body |-> b]>>, els |-> Opt(FALSE, <<>>)]
LetV(n, e) == [k |-> "letv", name |-> n, e |-> e]
LetC(n, b) == [k |-> "letc", name |-> n, body |-> b]
For(v, e, b, em) == [k |-> "foreach", kw |-> "foreach", var |-> v, e |-> e, body |-> b, empty |-> em]
Call(t, d, ps) == [k |-> "call", tmpl |-> t, data |-> d, de |-> [k |-> "null"], params |-> ps]
PV(key, e) == [k |-> "pv", key |-> key, e |-> e]
PC(key, b) == [k |-> "pc", key |-> key, body |-> b]

\* observe $x without failing when it is undefined
Obs == Pr(Elvis(EVar("x"), ES("U")))

Blocks == {"body", "if", "elseif", "else", "case", "default", "foreach", "ifempty", "letc", "pc", "log"}
\* "letvu" / "paramu": the binder's value is UNDEFINED (an optional param $u
\* that is not supplied): an undefined binding still shadows the outer name
Binders == {"letv", "letc", "foreach", "param", "letvu", "paramu"}
Uses == {"inside", "after", "nextiter", "callee", "calleeall"}
Shadows == {"none", "param", "outerlet", "loopvar"}

\* the binder, followed (where it makes sense) by a use inside its scope
BinderCmds(b, use) ==
  LET inner == IF use = "callee" THEN <<Call("n.c", "none", <<>>)>>
               ELSE IF use = "calleeall" THEN <<Call("n.c", "all", <<>>)>>
               ELSE <<Obs>> IN
  CASE b = "letv" -> <<LetV("x", EI(5))>> \o inner
    [] b = "letc" -> <<LetC("x", <<Text("C")>>)>> \o inner
    [] b = "foreach" -> <<For("x", EList(<<EI(7), EI(8)>>), inner, Opt(FALSE, <<>>))>>
    [] b = "letvu" -> <<LetV("x", EVar("u"))>> \o inner
    [] b = "paramu" -> <<Call("n.c", "all", <<PV("x", EVar("u"))>>)>>
    [] OTHER -> <<Call("n.c", "none", <<PV("x", EI(5))>>)>>

\* wrap cmds in the given kind of block
Wrap(kind, cmds) ==
  CASE kind = "body" -> cmds
    [] kind = "if" -> <<If(EB(TRUE), cmds)>>
    [] kind = "elseif" -> <<[k |-> "if", brs |-> <<[c |-> EB(FALSE), body |-> <<Text("n")>>], [c |-> EB(TRUE), body |-> cmds]>>, els |-> Opt(FALSE, <<>>)]>>
    [] kind = "else" -> <<[k |-> "if", brs |-> <<[c |-> EB(FALSE), body |-> <<Text("n")>>]>>, els |-> Opt(TRUE, cmds)]>>
    [] kind = "case" -> <<[k |-> "switch", e |-> EI(1), cases |-> <<[vals |-> <<EI(1)>>, body |-> cmds]>>, def |-> Opt(FALSE, <<>>)]>>
    [] kind = "default" -> <<[k |-> "switch", e |-> EI(2), cases |-> <<[vals |-> <<EI(1)>>, body |-> <<Text("n")>>]>>, def |-> Opt(TRUE, cmds)]>>
    [] kind = "foreach" -> <<For("q", EList(<<EI(1), EI(2)>>), cmds, Opt(FALSE, <<>>))>>
    [] kind = "ifempty" -> <<For("q", EList(<<>>), <<Text("n")>>, Opt(TRUE, cmds))>>
    [] kind = "letc" -> <<LetC("w", cmds), Pr(EVar("w"))>>
    [] kind = "pc" -> <<Call("n.d", "none", <<PC("w", cmds)>>)>>
    [] OTHER -> <<[k |-> "log", body |-> cmds]>>

Descs == {[blk |-> bl, binder |-> bi, use |-> u, shadow |-> s] :
            bl \in Blocks, bi \in Binders, u \in Uses, s \in Shadows}

\* is the combination meaningful?
Meaningful(d) ==
  /\ (d.use = "nextiter" => d.blk = "foreach")       \* needs an enclosing loop
  /\ (d.binder \in {"param", "paramu"} => d.use \in {"inside", "after"})

ProgOf(d) ==
  LET blockBody ==
        (IF d.use = "nextiter" THEN <<Obs>> ELSE <<>>) \o BinderCmds(d.binder, d.use)
      core == Wrap(d.blk, blockBody) \o (IF d.use = "after" THEN <<Text("|"), Obs>> ELSE <<>>)
      withOuter ==
        CASE d.shadow = "outerlet" -> <<LetV("x", EI(2)), Obs>> \o core
          [] d.shadow = "loopvar" -> <<For("x", EList(<<EI(3)>>), core, Opt(FALSE, <<>>))>>
          [] OTHER -> core
      params == (IF d.shadow = "param" THEN <<[name |-> "x", opt |-> FALSE]>> ELSE <<>>)
                \o (IF d.binder \in {"letvu", "paramu"} THEN <<[name |-> "u", opt |-> TRUE]>> ELSE <<>>)
      mbody == (IF d.shadow = "param" THEN <<Obs>> ELSE <<>>) \o withOuter
  IN
  [bundle |->
     ("n.m" :> [params |-> params, body |-> mbody, nsa |-> "", ta |-> "false"]) @@
     ("n.c" :> [params |-> <<[name |-> "x", opt |-> TRUE]>>, body |-> <<Text("<"), Obs, Text(">")>>, nsa |-> "", ta |-> "false"]) @@
     ("n.d" :> [params |-> <<[name |-> "w", opt |-> TRUE]>>, body |-> <<Text("["), Pr(Elvis(EVar("w"), ES("U"))), Text("]")>>, nsa |-> "", ta |-> "false"]),
   entry |-> "n.m",
   data |-> IF d.shadow = "param" THEN ("x" :> I(1)) ELSE EmptyF,
   ij |-> NoIJ, glob |-> EmptyF, plan |-> [kind |-> "none"]]

VARIABLE desc

FInit == /\ desc \in {d \in Descs : Meaningful(d)}
         /\ StartOf(ProgOf(desc))

Done == Terminated /\ UNCHANGED vars
FNext == (Next \/ Done) /\ desc' = desc

EmitCase == Terminated =>
          PrintT(ToJson([d |-> desc, prog |-> prog, verdict |-> Verdict(prog.bundle),
                         status |-> status, out |-> out]))

\* the rules are sufficient: an accepted program never evaluates an
\* undeclared, unbound name on the reference machine
Consequent == (Terminated /\ Verdict(prog.bundle) = "valid") => unbound \subseteq AllDeclared(prog.bundle)
=============================================================================
