------------------------------- MODULE SoyExpr -------------------------------
(***************************************************************************)
(* Reference semantics of Soy expressions: Eval(e, env) is a value, Err    *)
(* (the language gives no value: rendering must fail) or Unspec (outside   *)
(* the model's domain).  DESIGN.md Appendix A is the prose form.           *)
(*                                                                         *)
(* Expression trees are tagged records (the JSON the harness exchanges):   *)
(*   [k|->"null"] [k|->"bool",v] [k|->"int",v] [k|->"float",num,sh]        *)
(*   [k|->"str",v] [k|->"list",items] [k|->"map",items: Seq([key,val])]    *)
(*   [k|->"var",name,acc: Seq(access)] [k|->"global",name]                 *)
(*   [k|->"fn",name,args] [k|->"neg",a] [k|->"not",a]                      *)
(*   [k|->op,a,b] for op in BinOps, [k|->"tern",c,a,b]                     *)
(* access = [k|->"key",ns,key] | [k|->"idx",ns,idx] | [k|->"expr",ns,e]    *)
(* env = [vars: name -> value, ij: value or [t|->"none"], glob: name->val] *)
(***************************************************************************)
EXTENDS SoyValues

BinOps == {"mul", "div", "mod", "add", "sub", "lt", "gt", "le", "ge",
           "eq", "ne", "and", "or", "elvis"}

NoIJ == [t |-> "none"]

Def(v) == IF v.t = "undef" THEN Err ELSE v
DefU(v) == IF v.t = "undef" THEN Unspec ELSE v

Lookup(vars, name) == IF name \in DOMAIN vars THEN vars[name] ELSE Undef

Sgn(n) == IF n < 0 THEN -1 ELSE 1

\* truncated remainder (sign of the dividend), b # 0
TruncMod(a, b) == Sgn(a) * (Abs(a) % Abs(b))

\* strip factors of two: <<odd part (>0), exponent>> of n > 0
RECURSIVE Twos(_)
Twos(n) == IF n % 2 = 0 THEN Twos(n \div 2) + 1 ELSE 0
OddPart(n) == n \div Pow2(Twos(n))

AddV(x, y) ==
  IF x.t = "int" /\ y.t = "int" THEN
       IF IntAddOK(x.v) /\ IntAddOK(y.v) THEN I(x.v + y.v) ELSE Unspec
  ELSE IF x.t = "str" \/ y.t = "str" THEN
       IF Printable(x) /\ Printable(y) THEN S(ToText(x) \o ToText(y)) ELSE Unspec
  ELSE IF IsNum(x) /\ IsNum(y) THEN
       IF AddOK(x) /\ AddOK(y) THEN F(AlignA(x, y) + AlignB(x, y), Max2(Sh(x), Sh(y))) ELSE Unspec
  ELSE Unspec          \* arithmetic on non-numbers: the property makes no claim

SubV(x, y) ==
  IF x.t = "int" /\ y.t = "int" THEN
       IF IntAddOK(x.v) /\ IntAddOK(y.v) THEN I(x.v - y.v) ELSE Unspec
  ELSE IF IsNum(x) /\ IsNum(y) THEN
       IF AddOK(x) /\ AddOK(y) THEN F(AlignA(x, y) - AlignB(x, y), Max2(Sh(x), Sh(y))) ELSE Unspec
  ELSE Unspec

MulV(x, y) ==
  IF x.t = "int" /\ y.t = "int" THEN
       IF IntMulOK(x.v) /\ IntMulOK(y.v) THEN I(x.v * y.v) ELSE Unspec
  ELSE IF IsNum(x) /\ IsNum(y) THEN
       IF ~(MulOK(x) /\ MulOK(y)) THEN Unspec
       ELSE IF Num(x) * Num(y) = 0 THEN F(0, 0)                              \* -0.0 and 0.0 are one value
       ELSE F(Num(x) * Num(y), Sh(x) + Sh(y))
  ELSE Unspec

DivV(x, y) ==
  IF ~(IsNum(x) /\ IsNum(y)) THEN Unspec
  ELSE IF ~(MulOK(x) /\ MulOK(y)) THEN Unspec
  ELSE IF Num(y) = 0 THEN Unspec                       \* division by zero: no claim
  ELSE IF Num(x) = 0 THEN F(0, 0)
  ELSE LET a == Num(x) b == Num(y)
           j == Twos(Abs(b)) bo == OddPart(Abs(b))
           e == Sh(y) - Sh(x) - j
           q == Sgn(a) * Sgn(b) * (Abs(a) \div bo) IN
       IF Abs(a) % bo # 0 THEN Unspec                   \* not a dyadic rational
       ELSE IF e >= 0 THEN (IF e <= 10 THEN F(q * Pow2(e), 0) ELSE Unspec)
       ELSE F(q, -e)

ModV(x, y) ==
  IF x.t = "int" /\ y.t = "int" THEN
       IF y.v = 0 THEN Unspec ELSE I(TruncMod(x.v, y.v))
  ELSE Unspec

CmpV(op, x, y) ==
  IF (x.t = "bigint" \/ IsNum(x)) /\ (y.t = "bigint" \/ IsNum(y)) /\ (x.t = "bigint" \/ y.t = "bigint") THEN Unspec
  ELSE IF ~(IsNum(x) /\ IsNum(y)) THEN Err
  ELSE IF ~(AddOK(x) /\ AddOK(y)) THEN Unspec
  ELSE LET c == NumCmp(x, y) IN
       B(CASE op = "lt" -> c < 0 [] op = "gt" -> c > 0 [] op = "le" -> c <= 0 [] op = "ge" -> c >= 0)

EqV(x, y, neg) ==
  LET r == EqualsV(x, y) IN IF r = "u" THEN Unspec ELSE B(IF neg THEN r = "f" ELSE r = "t")

NegV(x) ==
  CASE x.t = "int" -> IF IntAddOK(x.v) THEN I(-x.v) ELSE Unspec
    \* the zero float has one text, "0", whatever its IEEE sign (number-to-text of
    \* the JavaScript definition the float format follows); it equals 0 and is falsy
    [] x.t = "float" -> F(-x.num, x.sh)
    [] x.t = "bigint" -> IF SubSeq(x.v, 1, 1) = "-" THEN Big(SubSeq(x.v, 2, Len(x.v))) ELSE Big("-" \o x.v)
    [] OTHER -> Unspec

\* floor of a number
FloorN(x) == Num(x) \div Pow2(Sh(x))
CeilN(x) == -((-Num(x)) \div Pow2(Sh(x)))
\* round to nearest, halves away from zero (pinned by the repository's
\* TestRound: round(-1.5) = -2; JavaScript's Math.round differs on negative halves)
RoundN(x) == Sgn(Num(x)) * ((2 * Abs(Num(x)) + Pow2(Sh(x))) \div Pow2(Sh(x) + 1))

RECURSIVE ContainsAt(_, _, _)
ContainsAt(s, sub, i) ==
  IF i + Len(sub) - 1 > Len(s) THEN FALSE
  ELSE IF SubSeq(s, i, i + Len(sub) - 1) = sub THEN TRUE
  ELSE ContainsAt(s, sub, i + 1)
StrContains(s, sub) == sub = "" \/ ContainsAt(s, sub, 1)

RangeSeq(a, b, st) ==   \* a, a+st, ... < b
  LET n == IF b <= a THEN 0 ELSE ((b - a - 1) \div st) + 1 IN
  [i \in 1..n |-> I(a + (i - 1) * st)]

FirstBad(args) ==
  IF \E i \in 1..Len(args) : IsBad(args[i])
  THEN args[CHOOSE i \in 1..Len(args) : IsBad(args[i]) /\ \A j \in 1..(i - 1) : ~IsBad(args[j])]
  ELSE Null

ApplyFn(name, a) ==
  LET n == Len(a) IN
  CASE name = "isNonnull" ->
         IF n # 1 THEN Unspec ELSE B(a[1].t \notin {"null", "undef"})
    [] name = "length" ->
         IF n # 1 THEN Unspec ELSE IF a[1].t = "list" THEN I(Len(a[1].v)) ELSE Unspec
    [] name = "keys" ->
         IF n # 1 THEN Unspec
         ELSE IF a[1].t # "map" THEN Unspec
         ELSE IF Cardinality(DOMAIN a[1].v) > 1 THEN Unspec     \* order unspecified
         ELSE L([i \in 1..Cardinality(DOMAIN a[1].v) |-> S(CHOOSE k \in DOMAIN a[1].v : TRUE)])
    [] name = "augmentMap" ->
         IF n # 2 THEN Unspec
         ELSE IF a[1].t = "map" /\ a[2].t = "map" THEN M(a[2].v @@ a[1].v) ELSE Unspec
    [] name = "round" ->
         IF n \notin {1, 2} THEN Unspec
         ELSE IF ~IsNum(a[1]) THEN Unspec
         ELSE IF n = 2 /\ a[2].t # "int" THEN Unspec
         ELSE IF ~AddOK(a[1]) THEN Unspec
         ELSE IF n = 1 \/ a[2].v = 0 THEN I(RoundN(a[1]))
         ELSE IF a[2].v < 0 THEN Unspec
         ELSE IF Sh(a[1]) <= a[2].v /\ a[2].v <= 6 THEN F(Num(a[1]), Sh(a[1])) ELSE Unspec
    [] name = "floor" ->
         IF n # 1 THEN Unspec ELSE IF ~IsNum(a[1]) THEN Unspec
         ELSE IF ~AddOK(a[1]) THEN Unspec ELSE I(FloorN(a[1]))
    [] name = "ceiling" ->
         IF n # 1 THEN Unspec ELSE IF ~IsNum(a[1]) THEN Unspec
         ELSE IF ~AddOK(a[1]) THEN Unspec ELSE I(CeilN(a[1]))
    [] name \in {"min", "max"} ->
         IF n # 2 THEN Unspec ELSE IF ~(IsNum(a[1]) /\ IsNum(a[2])) THEN Unspec
         ELSE IF ~(AddOK(a[1]) /\ AddOK(a[2])) THEN Unspec
         ELSE LET c == NumCmp(a[1], a[2])
                  w == IF name = "min" THEN (IF c <= 0 THEN a[1] ELSE a[2])
                       ELSE (IF c >= 0 THEN a[1] ELSE a[2]) IN
              IF a[1].t = "int" /\ a[2].t = "int" THEN w
              ELSE IF Num(w) = 0 /\ c = 0 THEN Unspec ELSE F(Num(w), Sh(w))
    [] name = "randomInt" -> IF n # 1 THEN Unspec ELSE Unspec
    [] name = "strContains" ->
         IF n # 2 THEN Unspec
         ELSE IF a[1].t = "str" /\ a[2].t = "str" THEN B(StrContains(a[1].v, a[2].v)) ELSE Unspec
    [] name = "range" ->
         IF n \notin {1, 2, 3} THEN Unspec
         ELSE IF \E i \in 1..n : a[i].t # "int" THEN Unspec
         ELSE LET lo == IF n = 1 THEN 0 ELSE a[1].v
                  hi == IF n = 1 THEN a[1].v ELSE a[2].v
                  st == IF n = 3 THEN a[3].v ELSE 1 IN
              IF st <= 0 THEN Unspec
              ELSE IF ~(IntMulOK(lo) /\ IntMulOK(hi) /\ IntMulOK(st)) \/ hi - lo > 64 THEN Unspec
              ELSE L(RangeSeq(lo, hi, st))
    [] name = "hasData" -> IF n # 0 THEN Unspec ELSE B(TRUE)
    [] OTHER -> Unspec   \* unknown function

LoopFns == {"index", "isFirst", "isLast"}

RECURSIVE Eval(_, _), Access(_, _, _, _), EvalSeq(_, _, _)

\* evaluate the expressions of a sequence in order
EvalSeq(es, env, i) ==
  IF i > Len(es) THEN <<>> ELSE <<Eval(es[i], env)>> \o EvalSeq(es, env, i + 1)

Access(ref, acc, i, env) ==
  IF i > Len(acc) THEN ref
  ELSE
  LET a  == acc[i]
      kv == IF a.k = "expr" THEN Eval(a.e, env) ELSE Null
      kind == CASE a.k = "key" -> "key"
                [] a.k = "idx" -> "idx"
                [] OTHER -> (IF kv.t = "int" THEN "idx" ELSE IF kv.t = "str" THEN "key" ELSE "other")
      key == IF a.k = "key" THEN a.key ELSE IF kind = "key" THEN kv.v ELSE ""
      idx == IF a.k = "idx" THEN a.idx ELSE IF kind = "idx" THEN kv.v ELSE 0
  IN
  IF IsBad(kv) THEN kv
  ELSE IF kv.t = "undef" THEN Unspec                       \* undefined used as a key: no claim
  ELSE IF ref.t \in {"undef", "null"} THEN (IF a.ns THEN Null ELSE Err)
  ELSE IF ref.t = "list" THEN
       CASE kind = "idx" -> IF idx < 0 THEN Unspec
                            ELSE Access(IF idx < Len(ref.v) THEN ref.v[idx + 1] ELSE Undef, acc, i + 1, env)
         [] kind = "key" -> NoVal                            \* a list accessed by name: no value
         [] OTHER -> Unspec
  ELSE IF ref.t = "map" THEN
       CASE kind = "key" -> IF key = "" THEN Unspec
                            ELSE Access(IF key \in DOMAIN ref.v THEN ref.v[key] ELSE Undef, acc, i + 1, env)
         [] kind = "idx" -> NoVal                            \* a map (string keys) accessed by number: no value
         [] OTHER -> Unspec
  ELSE Err                                                  \* not a collection

Eval(e, env) ==
  CASE e.k = "null" -> Null
    [] e.k = "bool" -> B(e.v)
    [] e.k = "int" -> I(e.v)
    [] e.k = "float" -> F(e.num, e.sh)
    [] e.k = "bigint" -> Big(e.v)
    [] e.k = "str" -> S(e.v)
    [] e.k = "list" ->
         LET xs == EvalSeq(e.items, env, 1) b == FirstBad(xs) IN
         IF IsBad(b) THEN b ELSE L(xs)
    [] e.k = "map" ->
         LET xs == [i \in 1..Len(e.items) |-> Eval(e.items[i].val, env)] IN
         IF \E i, j \in 1..Len(e.items) : i # j /\ e.items[i].key = e.items[j].key THEN Unspec
         ELSE IF \E i \in 1..Len(xs) : xs[i].t \in {"unspec", "noval"} THEN Unspec   \* evaluation order unspecified
         ELSE IF \E i \in 1..Len(xs) : xs[i].t = "err" THEN Err
         ELSE M([k \in {e.items[i].key : i \in 1..Len(e.items)} |->
                   xs[CHOOSE i \in 1..Len(e.items) : e.items[i].key = k]])
    [] e.k = "var" ->
         LET base == IF e.name = "ij" THEN (IF env.ij.t = "none" THEN Unspec ELSE env.ij)
                     ELSE Lookup(env.vars, e.name) IN
         IF IsBad(base) THEN base ELSE Access(base, e.acc, 1, env)
    [] e.k = "global" ->
         IF e.name \in DOMAIN env.glob THEN env.glob[e.name] ELSE Unspec
    [] e.k = "fn" ->
         IF e.name \in LoopFns THEN
              IF Len(e.args) # 1 THEN Unspec
              ELSE IF e.args[1].k # "var" THEN Unspec
              ELSE IF Len(e.args[1].acc) # 0 THEN Unspec
              ELSE LET ix == Lookup(env.vars, e.args[1].name \o "__index")
                       la == Lookup(env.vars, e.args[1].name \o "__lastIndex") IN
                   IF ix.t # "int" \/ la.t # "int" THEN Unspec
                   ELSE CASE e.name = "index" -> ix
                          [] e.name = "isFirst" -> B(ix.v = 0)
                          [] OTHER -> B(ix.v = la.v)
         ELSE IF e.name = "length" /\ Len(e.args) = 1 /\ e.args[1].k = "fn" /\ e.args[1].name = "keys"
                 /\ Len(e.args[1].args) = 1 THEN
              LET m == Eval(e.args[1].args[1], env) IN
              IF IsBad(m) THEN m ELSE IF m.t = "map" THEN I(Cardinality(DOMAIN m.v)) ELSE Unspec
         ELSE LET xs == EvalSeq(e.args, env, 1) b == FirstBad(xs) IN
              IF IsBad(b) THEN b ELSE ApplyFn(e.name, xs)
    [] e.k = "neg" ->
         LET a == DefU(Eval(e.a, env)) IN IF IsBad(a) THEN a ELSE NegV(a)
    [] e.k = "not" ->
         LET a == Eval(e.a, env) IN IF IsBad(a) THEN a ELSE B(~Truthy(a))
    [] e.k = "and" ->
         LET a == Eval(e.a, env) IN
         IF IsBad(a) THEN a ELSE IF ~Truthy(a) THEN B(FALSE)
         ELSE LET b == Eval(e.b, env) IN IF IsBad(b) THEN b ELSE B(Truthy(b))
    [] e.k = "or" ->
         LET a == Eval(e.a, env) IN
         IF IsBad(a) THEN a ELSE IF Truthy(a) THEN B(TRUE)
         ELSE LET b == Eval(e.b, env) IN IF IsBad(b) THEN b ELSE B(Truthy(b))
    [] e.k = "elvis" ->
         LET a == Eval(e.a, env) IN
         IF IsBad(a) THEN a ELSE IF a.t \notin {"null", "undef"} THEN a ELSE Eval(e.b, env)
    [] e.k = "tern" ->
         LET c == Eval(e.c, env) IN
         IF IsBad(c) THEN c ELSE IF Truthy(c) THEN Eval(e.a, env) ELSE Eval(e.b, env)
    [] e.k \in {"eq", "ne"} ->
         LET a == Eval(e.a, env) IN
         IF IsBad(a) THEN a
         ELSE LET b == Eval(e.b, env) IN IF IsBad(b) THEN b ELSE EqV(a, b, e.k = "ne")
    [] e.k \in {"mul", "div", "mod", "add", "sub", "lt", "gt", "le", "ge"} ->
         \* an undefined operand: ordering it is an error (it is not a number);
         \* arithmetic on it is outside the property's claims
         LET ord == e.k \in {"lt", "gt", "le", "ge"}
             a == IF ord THEN Def(Eval(e.a, env)) ELSE DefU(Eval(e.a, env)) IN
         IF IsBad(a) THEN a
         ELSE LET b == IF ord THEN Def(Eval(e.b, env)) ELSE DefU(Eval(e.b, env)) IN
              IF IsBad(b) THEN b
              ELSE CASE e.k = "add" -> AddV(a, b)
                     [] e.k = "sub" -> SubV(a, b)
                     [] e.k = "mul" -> MulV(a, b)
                     [] e.k = "div" -> DivV(a, b)
                     [] e.k = "mod" -> ModV(a, b)
                     [] OTHER -> CmpV(e.k, a, b)
    [] OTHER -> Unspec

(***************************************************************************)
(* What printing the expression must do: [t|->"out", s|->text], Err or     *)
(* Unspec.  (Escaping is applied by SoyExec; C01 runs with it off.)        *)
(***************************************************************************)
PrintOutcome(e, env) ==
  LET v == Eval(e, env) IN
  \* "no value" is judged only when the printed expression IS the data reference
  IF v.t = "noval" THEN (IF e.k = "var" THEN v ELSE Unspec)
  ELSE IF IsBad(v) THEN v
  ELSE IF v.t = "undef" THEN Err
  ELSE IF ~Printable(v) THEN Unspec
  ELSE [t |-> "out", s |-> ToText(v)]

=============================================================================
