---------------------------- MODULE SoyExprCases ----------------------------
(***************************************************************************)
(* Bounded case families for C01 (and reused by C04/C06/C17), enumerated   *)
(* by TLC and replayed through the real compiler + renderer:               *)
(*   F1  operator x operand-type grid, operands reached as literals or     *)
(*       through data bindings ($p, $p.k, $p[0], $ij.k)                    *)
(*   F2  every nesting of two binary operators, with an operand triple     *)
(*       chosen by TLC for which the two groupings evaluate differently    *)
(*   F5  data references: every access sequence over every data shape      *)
(*   F6  built-in functions x argument classes                             *)
(* A state is (case descriptor, result); one step realises the descriptor  *)
(* into [e, vars, ij, glob, exp] and the invariant Emit prints it as JSON. *)
(***************************************************************************)
EXTENDS SoyExpr, Json

CONSTANTS Family,     \* which family this run enumerates
          MaxAcc      \* F5: maximum number of accesses

VARIABLES c, res

EI(n) == [k |-> "int", v |-> n]
EF(num, sh) == [k |-> "float", num |-> num, sh |-> sh]
ES(s) == [k |-> "str", v |-> s]
EB(b) == [k |-> "bool", v |-> b]
ENull == [k |-> "null"]
EVar(n, acc) == [k |-> "var", name |-> n, acc |-> acc]
EBin(op, a, b) == [k |-> op, a |-> a, b |-> b]
EFn(n, args) == [k |-> "fn", name |-> n, args |-> args]
AKey(key, ns) == [k |-> "key", ns |-> ns, key |-> key]
AIdx(i, ns) == [k |-> "idx", ns |-> ns, idx |-> i]
AExpr(e, ns) == [k |-> "expr", ns |-> ns, e |-> e]

EmptyF0 == [x \in {} |-> Null]

\* the operand pool of the grid (as literal expressions)
Operands == <<
  ENull, EB(TRUE), EB(FALSE), EI(0), EI(1), EI(2), EI(3), EI(-1), EI(7),
  EF(1, 1), EF(3, 1), EF(-5, 1), EF(2097153, 1), EF(0, 0), EF(2, 0), ES(""), ES("a"), ES("1"), ES("<b>"),
  [k |-> "list", items |-> <<EI(1), ES("a")>>],
  [k |-> "map", items |-> <<[key |-> "k", val |-> EI(1)]>>],
  EVar("missing", <<>>) >>

BinOpSeq == <<"mul", "div", "mod", "add", "sub", "lt", "gt", "le", "ge", "eq", "ne", "and", "or", "elvis">>
Modes == {"lit", "var", "key", "idx", "ij"}

\* reach operand o (a literal) through a data binding named n
Bound(o, mode, n) ==
  IF o.k = "var" THEN o            \* the missing reference stays as it is
  ELSE CASE mode = "lit" -> o
         [] mode = "var" -> EVar(n, <<>>)
         [] mode = "key" -> EVar(n, <<AKey("k", FALSE)>>)
         [] mode = "idx" -> EVar(n, <<AExpr(EI(0), FALSE)>>)
         [] OTHER -> EVar("ij", <<AKey(n, FALSE)>>)

BindVal(o, mode) ==
  LET v == Eval(o, [vars |-> EmptyF0, ij |-> NoIJ, glob |-> EmptyF0]) IN
  CASE mode = "key" -> M("k" :> v)
    [] mode = "idx" -> L(<<v>>)
    [] OTHER -> v

VarsFor(bs, mode) ==   \* bs: Seq of <<name, operand>>
  IF mode \in {"lit", "ij"} THEN EmptyF0
  ELSE [n \in {bs[i][1] : i \in {j \in 1..Len(bs) : bs[j][2].k # "var"}} |->
          BindVal(bs[CHOOSE i \in 1..Len(bs) : bs[i][1] = n][2], mode)]

IJFor(bs, mode) ==
  IF mode # "ij" THEN NoIJ
  ELSE M([n \in {bs[i][1] : i \in {j \in 1..Len(bs) : bs[j][2].k # "var"}} |->
            BindVal(bs[CHOOSE i \in 1..Len(bs) : bs[i][1] = n][2], "var")])

Realized(e, vars, ij) ==
  [e |-> e, vars |-> vars, ij |-> ij, glob |-> EmptyF0,
   exp |-> PrintOutcome(e, [vars |-> vars, ij |-> ij, glob |-> EmptyF0])]

(***************************************************************************)
(* F1                                                                      *)
(***************************************************************************)
F1Desc ==
  {[fam |-> "F1", op |-> BinOpSeq[o], a |-> i, b |-> j, mode |-> m] :
      o \in 1..Len(BinOpSeq), i \in 1..Len(Operands), j \in 1..Len(Operands), m \in {"lit"}}
  \cup {[fam |-> "F1", op |-> BinOpSeq[o], a |-> i, b |-> j, mode |-> m] :
      o \in 1..Len(BinOpSeq), i \in 1..Len(Operands), j \in {4, 6, 11, 14, 17, 20}, m \in Modes \ {"lit"}}
  \cup {[fam |-> "F1u", op |-> u, a |-> i, mode |-> m] :
      u \in {"neg", "not"}, i \in 1..Len(Operands), m \in Modes}
  \cup {[fam |-> "F1t", c |-> i, a |-> j, b |-> k, mode |-> m] :
      i \in 1..Len(Operands), j \in {1, 5, 17}, k \in {3, 10, 22}, m \in {"lit", "var"}}

RealizeF1(d) ==
  CASE d.fam = "F1" ->
         LET bs == <<<<"p", Operands[d.a]>>, <<"q", Operands[d.b]>>>> IN
         Realized(EBin(d.op, Bound(Operands[d.a], d.mode, "p"), Bound(Operands[d.b], d.mode, "q")),
                  VarsFor(bs, d.mode), IJFor(bs, d.mode))
    [] d.fam = "F1u" ->
         LET bs == <<<<"p", Operands[d.a]>>>> IN
         Realized([k |-> d.op, a |-> Bound(Operands[d.a], d.mode, "p")], VarsFor(bs, d.mode), IJFor(bs, d.mode))
    [] OTHER ->
         LET bs == <<<<"p", Operands[d.c]>>, <<"q", Operands[d.a]>>, <<"r", Operands[d.b]>>>> IN
         Realized([k |-> "tern", c |-> Bound(Operands[d.c], d.mode, "p"),
                   a |-> Bound(Operands[d.a], d.mode, "q"), b |-> Bound(Operands[d.b], d.mode, "r")],
                  VarsFor(bs, d.mode), IJFor(bs, d.mode))

(***************************************************************************)
(* F2: precedence / associativity, discriminated by value                  *)
(***************************************************************************)
PrecOf(op) == CASE op = "elvis" -> 0 [] op = "or" -> 1 [] op = "and" -> 2
                [] op \in {"eq", "ne"} -> 3 [] op \in {"lt", "gt", "le", "ge"} -> 4
                [] op \in {"add", "sub"} -> 5 [] OTHER -> 6

\* the tree the language defines for the flat text  a o1 b o2 c
Official(o1, o2, a, b, cc) ==
  IF PrecOf(o2) > PrecOf(o1) THEN EBin(o1, a, EBin(o2, b, cc)) ELSE EBin(o2, EBin(o1, a, b), cc)
Other(o1, o2, a, b, cc) ==
  IF PrecOf(o2) > PrecOf(o1) THEN EBin(o2, EBin(o1, a, b), cc) ELSE EBin(o1, a, EBin(o2, b, cc))

F2Pool == <<EI(0), EI(1), EI(2), EI(3), EI(-1), EB(TRUE), EB(FALSE), ES("a"), ENull>>

Out0(e) == PrintOutcome(e, [vars |-> EmptyF0, ij |-> NoIJ, glob |-> EmptyF0])

\* operand triples for which the official grouping yields text and the other
\* grouping yields something else (another text or an error)
Discr(o1, o2) ==
  {t \in (1..Len(F2Pool)) \X (1..Len(F2Pool)) \X (1..Len(F2Pool)) :
     LET x == Out0(Official(o1, o2, F2Pool[t[1]], F2Pool[t[2]], F2Pool[t[3]]))
         y == Out0(Other(o1, o2, F2Pool[t[1]], F2Pool[t[2]], F2Pool[t[3]])) IN
     x.t = "out" /\ y.t # "unspec" /\ x # y}

F2Desc == {[fam |-> "F2", o1 |-> BinOpSeq[i], o2 |-> BinOpSeq[j]] :
             i \in 1..(Len(BinOpSeq) - 1), j \in 1..(Len(BinOpSeq) - 1)}   \* elvis excluded (mixing is Unspec)

RealizeF2(d) ==
  LET DS == Discr(d.o1, d.o2) IN
  IF DS = {} THEN [skip |-> TRUE]
  ELSE LET t == CHOOSE t \in DS : \A u \in DS :
                   (t[1] * 100 + t[2] * 10 + t[3]) <= (u[1] * 100 + u[2] * 10 + u[3]) IN
       [e |-> Official(d.o1, d.o2, F2Pool[t[1]], F2Pool[t[2]], F2Pool[t[3]]),
        vars |-> EmptyF0, ij |-> NoIJ, glob |-> EmptyF0,
        exp |-> Out0(Official(d.o1, d.o2, F2Pool[t[1]], F2Pool[t[2]], F2Pool[t[3]])),
        other |-> Out0(Other(d.o1, d.o2, F2Pool[t[1]], F2Pool[t[2]], F2Pool[t[3]])),
        ndiscr |-> Cardinality(DS)]

(***************************************************************************)
(* F5: data references                                                     *)
(***************************************************************************)
AccKinds == <<"key", "qkey", "idx", "qidx", "bkey", "qbkey", "bidx", "qbidx">>
Shapes == <<"missing", "null", "scalar", "list", "map">>
Leaves == <<"missing", "null", "str">>

AccOf(kind) ==
  CASE kind = "key" -> AKey("k", FALSE) [] kind = "qkey" -> AKey("k", TRUE)
    [] kind = "idx" -> AIdx(0, FALSE) [] kind = "qidx" -> AIdx(0, TRUE)
    [] kind = "bkey" -> AExpr(ES("k"), FALSE) [] kind = "qbkey" -> AExpr(ES("k"), TRUE)
    [] kind = "bidx" -> AExpr(EI(0), FALSE) [] OTHER -> AExpr(EI(0), TRUE)

\* value of level i (1-based) given container shapes sh[1..n] and leaf;
\* "missing" is represented by Undef (removed when stored in a container)
RECURSIVE MkVal(_, _, _)
MkVal(sh, leaf, i) ==
  IF i > Len(sh) THEN (CASE leaf = "missing" -> Undef [] leaf = "null" -> Null [] OTHER -> S("v"))
  ELSE LET inner == MkVal(sh, leaf, i + 1) IN
       CASE sh[i] = "missing" -> Undef
         [] sh[i] = "null" -> Null
         [] sh[i] = "scalar" -> I(5)
         [] sh[i] = "list" -> IF inner.t = "undef" THEN L(<<>>) ELSE L(<<inner>>)
         [] OTHER -> IF inner.t = "undef" THEN M(EmptyF0) ELSE M("k" :> inner)

SeqsOver(n, m) == [1..n -> 1..m]      \* functions = sequences of length n over 1..m

\* up to two accesses: every access kind; three accesses: the dotted-key and
\* bracket-index kinds (with and without null-safety) to keep the family finite
AccChoice(n) == IF n <= 2 THEN SeqsOver(n, Len(AccKinds)) ELSE [1..n -> {1, 2, 7, 8}]
F5Desc == UNION {
   {[fam |-> "F5", acc |-> a, sh |-> s, leaf |-> lf] :
       a \in AccChoice(n), s \in SeqsOver(n, Len(Shapes)), lf \in 1..Len(Leaves)}
   : n \in 1..MaxAcc}

RealizeF5(d) ==
  LET n == Len(d.acc)
      acc == [i \in 1..n |-> AccOf(AccKinds[d.acc[i]])]
      sh == [i \in 1..n |-> Shapes[d.sh[i]]]
      v == MkVal(sh, Leaves[d.leaf], 1)
      vars == IF v.t = "undef" THEN EmptyF0 ELSE ("p" :> v) IN
  Realized(EVar("p", acc), vars, NoIJ)

(***************************************************************************)
(* F6: functions x argument classes                                        *)
(***************************************************************************)
FnArgs == <<
  EI(0), EI(3), EI(-4), EF(5, 1), EF(-5, 1), EF(7, 2), EF(-7, 2), EF(3, 1), EF(-3, 1), ES("abc"), ES(""), ES("b"),
  [k |-> "list", items |-> <<>>], [k |-> "list", items |-> <<EI(1), EI(2), EI(3)>>],
  [k |-> "map", items |-> <<>>], [k |-> "map", items |-> <<[key |-> "k", val |-> EI(1)]>>],
  [k |-> "map", items |-> <<[key |-> "j", val |-> ES("x")]>>], ENull, EB(TRUE) >>

Fn1 == {"isNonnull", "length", "keys", "round", "floor", "ceiling", "range"}
Fn2 == {"augmentMap", "round", "min", "max", "strContains", "range"}

F6Desc ==
  {[fam |-> "F6", fn |-> f, args |-> <<i>>] : f \in Fn1, i \in 1..Len(FnArgs)}
  \cup {[fam |-> "F6", fn |-> f, args |-> <<i, j>>] : f \in Fn2, i \in 1..Len(FnArgs), j \in 1..Len(FnArgs)}
  \cup {[fam |-> "F6", fn |-> "range", args |-> <<i, j, k>>] : i \in {1, 2, 3}, j \in {1, 2, 3}, k \in {2, 3}}
  \cup {[fam |-> "F6", fn |-> "hasData", args |-> <<>>]}

RealizeF6(d) ==
  Realized(EFn(d.fn, [i \in 1..Len(d.args) |-> FnArgs[d.args[i]]]), EmptyF0, NoIJ)

(***************************************************************************)
Desc == CASE Family = "F1" -> F1Desc [] Family = "F2" -> F2Desc
          [] Family = "F5" -> F5Desc [] OTHER -> F6Desc

Realize(d) == CASE d.fam \in {"F1", "F1u", "F1t"} -> RealizeF1(d)
                [] d.fam = "F2" -> RealizeF2(d)
                [] d.fam = "F5" -> RealizeF5(d)
                [] OTHER -> RealizeF6(d)

Pending == [pending |-> TRUE]

Init == c \in Desc /\ res = Pending
Next == res = Pending /\ res' = Realize(c) /\ c' = c

Emit == res # Pending => PrintT(ToJson([d |-> c, r |-> res]))

\* the oracle is total on every family: each case is out, err, noval or unspec
Total == res # Pending => ("skip" \in DOMAIN res \/ res.exp.t \in {"out", "err", "unspec", "noval"})
=============================================================================
