----------------------------- MODULE SoyJsIdent -----------------------------
(***************************************************************************)
(* C14 -- names the template author chooses must never reach the generated *)
(* JavaScript as a bare local identifier.                                  *)
(*                                                                         *)
(* Model of the generator's naming of locals inside one template function: *)
(* the author declares variables ({let}, {foreach}, {for}) in nested       *)
(* blocks; each declaration gets a generated JavaScript name.  A generated *)
(* name is <<soy name, k>>: k > 0 is the name followed by the number k,    *)
(* k = 0 is the bare Soy name.  JavaScript `var` is function scoped, so    *)
(* all generated names of a function live in one scope together with the   *)
(* names the generated code itself uses.                                   *)
(*                                                                         *)
(* Reference (Dev = {}): every declaration takes the next number.          *)
(* Deviation "let_keeps_soy_name": a declaration keeps the bare Soy name   *)
(* unless a variable of that name is already visible.                      *)
(*                                                                         *)
(* Invariants: NoHazard  no generated local is a reserved word or a name   *)
(*                       used by the generated code / the runtime;         *)
(*             Distinct  two declarations never share a generated name.    *)
(***************************************************************************)
EXTENDS Integers, Sequences, FiniteSets, TLC

CONSTANTS Dev, MaxDecls, MaxDepth

Names    == {"class", "output", "x"}          \* what the author may call a variable
Reserved == {"class"}                          \* stands for every ECMAScript reserved word
Runtime  == {"output", "opt_data", "soy"}      \* names the generated function itself uses

VARIABLES stack,      \* sequence of scopes: each a function  soy name -> generated name
          counter,    \* the generator's running number
          declared,   \* bag (sequence) of all generated names of this function
          decls

vars == <<stack, counter, declared, decls>>

Visible(name) == \E i \in 1..Len(stack) : name \in DOMAIN stack[i]

Put(m, k, v) == [x \in (DOMAIN m) \cup {k} |-> IF x = k THEN v ELSE m[x]]

Init == stack = << <<>> >> /\ counter = 0 /\ declared = <<>> /\ decls = 0

Declare(name) ==
  /\ decls < MaxDecls
  /\ LET keep == "let_keeps_soy_name" \in Dev /\ ~Visible(name)
         num  == IF keep THEN counter ELSE counter + 1
         gen  == IF keep THEN <<name, 0>> ELSE <<name, num>>
     IN /\ counter' = num
        /\ stack' = [stack EXCEPT ![Len(stack)] = Put(@, name, gen)]
        /\ declared' = Append(declared, gen)
  /\ decls' = decls + 1

Push == Len(stack) < MaxDepth /\ stack' = Append(stack, <<>>) /\ UNCHANGED <<counter, declared, decls>>
Pop  == Len(stack) > 1 /\ stack' = SubSeq(stack, 1, Len(stack) - 1) /\ UNCHANGED <<counter, declared, decls>>

Next == (\E n \in Names : Declare(n)) \/ Push \/ Pop
Spec == Init /\ [][Next]_vars

NoHazard == \A i \in 1..Len(declared) : ~(declared[i][2] = 0 /\ declared[i][1] \in Reserved \cup Runtime)
Distinct == \A i, j \in 1..Len(declared) : i # j => declared[i] # declared[j]
=============================================================================
