------------------------------ MODULE SoyJsLit ------------------------------
(***************************************************************************)
(* C14 -- how a string that originates in a template must be written into  *)
(* generated JavaScript, and what a JavaScript string literal denotes.     *)
(*                                                                         *)
(* Strings are sequences of UTF-16 code units (what a JavaScript string    *)
(* is), so an astral character is a surrogate pair and U+2028 is one unit. *)
(*                                                                         *)
(*   JsStringEscape(s)  the escaper as the generator should do it, one     *)
(*                      unit at a time (a transducer): safe between single *)
(*                      AND double quotes, on one source line, inside a    *)
(*                      <script> element.                                  *)
(*   JsDenote(b, q)     the denotation of the body b of a literal that is  *)
(*                      delimited by q (ECMAScript string literal grammar: *)
(*                      \\ \' \" \n \r \t \b \f \v \0 \xHH \uHHHH, line    *)
(*                      continuation, identity escapes); Bad when b is not *)
(*                      the body of one literal (raw delimiter, raw line   *)
(*                      terminator, dangling backslash, legacy octal).     *)
(*   Emit(pos, s)       what is written at a literal position.  Every      *)
(*                      position goes through the escaper; the deviations  *)
(*                      (Dev) switch one step to what a realistic slip     *)
(*                      does:                                              *)
(*        "mapkey_unescaped"  a map literal key is written between double  *)
(*                            quotes as it is (the pinned tree does this); *)
(*        "bs_raw"            the escaper forgets the backslash;           *)
(*        "ls_raw"            the escaper forgets U+2028 / U+2029;         *)
(*        "lt_raw"            the escaper forgets '<';                     *)
(*        "post_pass_rewrites_output"  the escaper is not a homomorphism   *)
(*                            on characters: after the per-character       *)
(*                            images are concatenated a pass rewrites the   *)
(*                            image of LF (backslash n) to \x0A wherever   *)
(*                            that two-unit sequence occurs in the OUTPUT,  *)
(*                            when the input contains a LF -- it also hits  *)
(*                            the tail of an escaped backslash followed by  *)
(*                            the letter n (the TEXT backslash-n).         *)
(*                                                                         *)
(* SoyJsLitMC checks RoundTrip and Safe for every string of at most MaxLen *)
(* symbols of Symbols at every position (Dev = {}: no violation; each      *)
(* deviation: a violation).  SoyJsLitTrace validates literal bodies        *)
(* recorded from the real generator against JsDenote / SafeBody.           *)
(***************************************************************************)
EXTENDS Integers, Sequences, FiniteSets, TLC

CONSTANTS Dev       \* set of deviation names

SQ  == 39     \* '
DQ  == 34     \* "
BSL == 92     \* \
LF  == 10
CR  == 13
LS  == 8232   \* U+2028
PS  == 8233   \* U+2029
LT  == 60     \* <
SL  == 47     \* /

\* ' " \ LF CR U+2028 U+2029 < / s c > & a e-acute U+1F600 (surrogate pair)
Symbols == << <<39>>, <<34>>, <<92>>, <<10>>, <<13>>, <<8232>>, <<8233>>,
              <<60>>, <<47>>, <<115>>, <<99>>, <<62>>, <<38>>, <<97>>,
              <<233>>, <<55357, 56832>>, <<110>> >>       \* ... and n, so that the TEXT backslash-n can be spelled

Positions == {"string", "mapkey"}   \* raw text, css, message text ... behave as "string"
Delim(pos) == IF pos = "mapkey" THEN DQ ELSE SQ

LineTerminators == {LF, CR, LS, PS}

(***************************************************************************)
(* The escaper.                                                            *)
(***************************************************************************)
HexDigit(n) == IF n < 10 THEN 48 + n ELSE 55 + n          \* 0-9 A-F
Hex2(u) == <<HexDigit((u \div 16) % 16), HexDigit(u % 16)>>
Hex4(u) == <<HexDigit((u \div 4096) % 16), HexDigit((u \div 256) % 16)>> \o Hex2(u)

EscUnit(u) ==
  CASE u = BSL -> IF "bs_raw" \in Dev THEN <<u>> ELSE <<BSL, BSL>>
    [] u = SQ  -> <<BSL, SQ>>
    [] u = DQ  -> <<BSL, DQ>>
    [] u = LF  -> <<BSL, 110>>                  \* \n
    [] u = CR  -> <<BSL, 114>>                  \* \r
    [] u = 9   -> <<BSL, 116>>                  \* \t
    [] u = LS \/ u = PS -> IF "ls_raw" \in Dev THEN <<u>> ELSE <<BSL, 117>> \o Hex4(u)
    [] u = LT  -> IF "lt_raw" \in Dev THEN <<u>> ELSE <<BSL, 120>> \o Hex2(u)
    [] u < 32 \/ u = 127 -> <<BSL, 120>> \o Hex2(u)
    [] OTHER   -> <<u>>

RECURSIVE JsStringEscape(_)
JsStringEscape(s) == IF s = <<>> THEN <<>> ELSE EscUnit(Head(s)) \o JsStringEscape(Tail(s))

\* left-to-right, non-overlapping replacement of the two-unit sequence <<a, b>> by r
RECURSIVE Replace2(_, _, _, _, _)
Replace2(o, i, a, b, r) ==
  IF i > Len(o) THEN <<>>
  ELSE IF i < Len(o) /\ o[i] = a /\ o[i + 1] = b THEN r \o Replace2(o, i + 2, a, b, r)
  ELSE <<o[i]>> \o Replace2(o, i + 1, a, b, r)

HasUnit(s, u) == \E i \in 1..Len(s) : s[i] = u

PostPass(s, o) == IF "post_pass_rewrites_output" \in Dev /\ HasUnit(s, LF)
                  THEN Replace2(o, 1, BSL, 110, <<BSL, 120, 48, 65>>)      \* \n -> \x0A
                  ELSE o

Emit(pos, s) == IF pos = "mapkey" /\ "mapkey_unescaped" \in Dev THEN s ELSE PostPass(s, JsStringEscape(s))

\* the emitted form is the concatenation of the per-character images and nothing else
Homomorphic(pos, s) == Emit(pos, s) = JsStringEscape(s)

(***************************************************************************)
(* The denotation of a literal body.                                       *)
(***************************************************************************)
Bad == [ok |-> FALSE, v |-> <<>>]
Push(c, r) == IF r.ok THEN [ok |-> TRUE, v |-> <<c>> \o r.v] ELSE r

IsDigit(c) == c >= 48 /\ c <= 57
IsHex(c) == IsDigit(c) \/ (c >= 65 /\ c <= 70) \/ (c >= 97 /\ c <= 102)
HexVal(c) == IF IsDigit(c) THEN c - 48 ELSE IF c >= 97 THEN c - 87 ELSE c - 55

RECURSIVE Den(_, _, _)
Den(b, i, q) ==
  IF i > Len(b) THEN [ok |-> TRUE, v |-> <<>>]
  ELSE LET c == b[i] IN
    IF c = q THEN Bad                                  \* the literal ends here
    ELSE IF c \in LineTerminators THEN Bad             \* unterminated literal (pre-ES2019 for LS/PS)
    ELSE IF c # BSL THEN Push(c, Den(b, i + 1, q))
    ELSE IF i = Len(b) THEN Bad                        \* the backslash escapes the closing quote
    ELSE LET d == b[i + 1] IN
      CASE d = 110 -> Push(10, Den(b, i + 2, q))
        [] d = 114 -> Push(13, Den(b, i + 2, q))
        [] d = 116 -> Push(9, Den(b, i + 2, q))
        [] d = 98  -> Push(8, Den(b, i + 2, q))
        [] d = 102 -> Push(12, Den(b, i + 2, q))
        [] d = 118 -> Push(11, Den(b, i + 2, q))
        [] d = 48  -> IF i + 2 <= Len(b) /\ IsDigit(b[i + 2]) THEN Bad   \* legacy octal
                      ELSE Push(0, Den(b, i + 2, q))
        [] d >= 49 /\ d <= 57 -> Bad                                       \* legacy octal / \8 \9
        [] d = 120 -> IF i + 3 <= Len(b) /\ IsHex(b[i + 2]) /\ IsHex(b[i + 3])
                      THEN Push(16 * HexVal(b[i + 2]) + HexVal(b[i + 3]), Den(b, i + 4, q))
                      ELSE Bad
        [] d = 117 -> IF i + 5 <= Len(b) /\ IsHex(b[i + 2]) /\ IsHex(b[i + 3])
                                         /\ IsHex(b[i + 4]) /\ IsHex(b[i + 5])
                      THEN Push(4096 * HexVal(b[i + 2]) + 256 * HexVal(b[i + 3])
                                + 16 * HexVal(b[i + 4]) + HexVal(b[i + 5]), Den(b, i + 6, q))
                      ELSE Bad                          \* \u{...} is not used by any ES5 emitter
        [] d = CR  -> IF i + 2 <= Len(b) /\ b[i + 2] = LF THEN Den(b, i + 3, q)
                      ELSE Den(b, i + 2, q)             \* line continuation denotes nothing
        [] d \in {LF, LS, PS} -> Den(b, i + 2, q)
        [] OTHER   -> Push(d, Den(b, i + 2, q))         \* \\ \' \" and identity escapes

JsDenote(b, q) == Den(b, 1, q)

(***************************************************************************)
(* Safety of the emitted form, independent of its denotation.              *)
(***************************************************************************)
\* number of consecutive backslashes that end just before position i
RECURSIVE BslRun(_, _)
BslRun(b, i) == IF i > 1 /\ b[i - 1] = BSL THEN 1 + BslRun(b, i - 1) ELSE 0

NoRawDelim(b, q) == \A i \in 1..Len(b) : b[i] = q => BslRun(b, i) % 2 = 1
NoRawLineTerminator(b) == \A i \in 1..Len(b) : b[i] \notin LineTerminators

Lower(c) == IF c >= 65 /\ c <= 90 THEN c + 32 ELSE c
ScriptClose == <<60, 47, 115, 99, 114, 105, 112, 116>>        \* </script
CloseTag == <<60, 47, 115>>       \* "</s": the prefix that strings of 3 alphabet symbols can spell
HasAt(b, i, w) == i + Len(w) - 1 <= Len(b) /\ \A k \in 1..Len(w) : Lower(b[i + k - 1]) = w[k]
NoScriptClose(b) == \A i \in 1..Len(b) : ~HasAt(b, i, ScriptClose) /\ ~HasAt(b, i, CloseTag)

SafeBody(b, q) == NoRawDelim(b, q) /\ NoRawLineTerminator(b) /\ NoScriptClose(b)

\* sanity of the decoder itself on hand-written bodies (vacuity guards)
DecoderFacts ==
  /\ JsDenote(<<97, BSL, 110, 98>>, SQ) = [ok |-> TRUE, v |-> <<97, 10, 98>>]
  /\ JsDenote(<<BSL, 120, 51, 67>>, SQ) = [ok |-> TRUE, v |-> <<60>>]              \* \x3C
  /\ JsDenote(<<BSL, 117, 50, 48, 50, 56>>, SQ) = [ok |-> TRUE, v |-> <<8232>>]    \*
  /\ JsDenote(<<BSL, 117, 48, 48, 50, 55>>, DQ) = [ok |-> TRUE, v |-> <<39>>]      \* '
  /\ JsDenote(<<97, SQ, 98>>, SQ) = Bad
  /\ JsDenote(<<97, SQ, 98>>, DQ) = [ok |-> TRUE, v |-> <<97, SQ, 98>>]
  /\ JsDenote(<<97, BSL>>, SQ) = Bad
  /\ JsDenote(<<97, LF>>, SQ) = Bad
  /\ JsDenote(<<97, BSL, LF, 98>>, SQ) = [ok |-> TRUE, v |-> <<97, 98>>]
  /\ JsDenote(<<BSL, 113>>, SQ) = [ok |-> TRUE, v |-> <<113>>]                      \* \q = q
  /\ JsDenote(<<BSL, 48>>, SQ) = [ok |-> TRUE, v |-> <<0>>]
  /\ JsDenote(<<BSL, 49>>, SQ) = Bad
ASSUME DecoderFacts
=============================================================================
