----------------------------- MODULE SoyJsLitMC -----------------------------
(***************************************************************************)
(* C14 / M1: enumerate (position, string) for every string of at most      *)
(* MaxLen symbols of SoyJsLit!Symbols and check that what is emitted at    *)
(* the position denotes the string (RoundTrip) and is safe to embed        *)
(* (Safe).                                                                 *)
(***************************************************************************)
EXTENDS SoyJsLit

CONSTANT MaxLen    \* strings of at most MaxLen symbols are explored

VARIABLES pos, s, n
vars == <<pos, s, n>>

Init == pos \in Positions /\ s = <<>> /\ n = 0
Next == /\ n < MaxLen
        /\ \E k \in 1..Len(Symbols) : s' = s \o Symbols[k]
        /\ n' = n + 1
        /\ UNCHANGED pos
Spec == Init /\ [][Next]_vars

RoundTrip == JsDenote(Emit(pos, s), Delim(pos)) = [ok |-> TRUE, v |-> s]
Safe == SafeBody(Emit(pos, s), Delim(pos))
PerCharacter == Homomorphic(pos, s)
=============================================================================
