---------------------------- MODULE SoyJsLitTrace ----------------------------
(***************************************************************************)
(* C14 / M3: validate string literals recorded from JavaScript that the    *)
(* real generator (soyjs.Write) emitted.  Each line of c14_lits.ndjson is  *)
(*   [q |-> delimiter code unit, s |-> intended string (UTF-16 units),     *)
(*    lit |-> the units found between the delimiters in the generated JS]  *)
(* and is accepted iff lit is the body of ONE literal that denotes s       *)
(* (SoyJsLit!JsDenote) and is safe to embed (SoyJsLit!SafeBody).  Rejected *)
(* lines are printed as <<"BAD", line, reason>>; one state per line.       *)
(***************************************************************************)
EXTENDS SoyJsLit, Json

Trace == ndJsonDeserialize("c14_lits.ndjson")

VARIABLES l, nbad

Reason(r) ==
  LET d == JsDenote(r.lit, r.q) IN
  IF ~d.ok THEN "not-one-literal"
  ELSE IF d.v # r.s THEN "denotes-other-string"
  ELSE IF ~NoRawLineTerminator(r.lit) THEN "raw-line-terminator"
  ELSE IF ~NoRawDelim(r.lit, r.q) THEN "raw-delimiter"
  ELSE IF ~NoScriptClose(r.lit) THEN "script-close"
  ELSE "ok"

Init == l = 1 /\ nbad = 0

Step ==
  /\ l <= Len(Trace)
  /\ l' = l + 1
  /\ LET why == Reason(Trace[l]) IN
     IF why = "ok" THEN nbad' = nbad
     ELSE nbad' = nbad + 1 /\ PrintT(<<"BAD", l, why>>)

Done == l = Len(Trace) + 1 /\ UNCHANGED <<l, nbad>>

Next == Step \/ Done

Report == l = Len(Trace) + 1 => PrintT(<<"DONE", l - 1, nbad>>)

TraceAccepted == TLCGet("stats").diameter - 1 = Len(Trace)
=============================================================================
