----------------------------- MODULE SoyJsScope -----------------------------
(***************************************************************************)
(* Implementation-shaped model of how soyjs names variables               *)
(* (soyjs/scope.go, exec.go:148-157, 371-425, 481-546) against the        *)
(* dynamic scoping of the reference interpreter SoyExec.                   *)
(*                                                                         *)
(* The JavaScript generator resolves every Soy variable STATICALLY, while  *)
(* it walks the template once: a stack of maps (Soy name -> JS local),     *)
(* `makevar` appends a counter to make a fresh JS name and records it in   *)
(* the top map, `lookup` searches the stack innermost-first and falls back *)
(* to opt_data.<name>.  The generated function then runs with JavaScript   *)
(* semantics: every `var` is hoisted to the function (it exists from the   *)
(* start with the value undefined), assignments happen where the           *)
(* statement is executed.                                                  *)
(*                                                                         *)
(* Translate/RunJs below are that generator and that execution, for the    *)
(* commands text, print (of a variable or a loop helper), let, if,         *)
(* foreach.  The reference is SoyExec itself: this module EXTENDS it, TLC  *)
(* picks a program from the bounded family Progs, runs the reference       *)
(* machine to termination and compares its output with the output of the   *)
(* translated program:                                                     *)
(*                                                                         *)
(*    Refines == status = "ok" => out = JsOut(prog)                        *)
(*                                                                         *)
(* JsDev = {} is the reference DESIGN of the generator (a naming scope per *)
(* block, the value of a let translated before its name is registered,     *)
(* loop helpers resolved through their argument): TLC must find no         *)
(* counterexample.  Each name in JsDev switches one rule to what a         *)
(* realistic generator does instead; TLC must then find counterexamples,   *)
(* which the harness replays on the real generator:                        *)
(*   "block_no_scope"   bodies of if-branches share the naming scope of    *)
(*                      the enclosing block (what soyjs/exec.go:462-479    *)
(*                      does: visitIf never pushes)                        *)
(*   "let_name_first"   makevar runs before the value is translated        *)
(*                      (exec.go:148: argument evaluation order)           *)
(*   "helper_innermost" index/isFirst/isLast ignore their argument and     *)
(*                      use the innermost loop (exec.go:380-387)           *)
(*   "loop_no_pop"      the loop's naming scope is not popped (an          *)
(*                      anticipated slip; the real code must NOT show it)  *)
(* A counterexample here is a hypothesis about the real code, not a        *)
(* verdict.                                                                *)
(***************************************************************************)
EXTENDS SoyExec, Json

CONSTANTS JsDev,      \* set of deviation names
          Size        \* "small" | "large": bound of the program family

(***************************************************************************)
(* The program family (SoyExec's command encoding).                        *)
(***************************************************************************)
VarE(n) == [k |-> "var", name |-> n, acc |-> <<>>]
StrE(s) == [k |-> "str", v |-> s]
IdxE(n) == [k |-> "fn", name |-> "index", args |-> <<VarE(n)>>]
PrintC(e) == [k |-> "print", e |-> e, dirs |-> <<>>]
TextC(s) == [k |-> "text", s |-> s]
LetC(n, e) == [k |-> "letv", name |-> n, e |-> e]
NoOpt == [has |-> FALSE, body |-> <<>>]
IfC(c, b) == [k |-> "if", brs |-> <<[c |-> c, body |-> b]>>, els |-> NoOpt]
ForC(v, items, b) == [k |-> "foreach", kw |-> "foreach", var |-> v,
                     e |-> [k |-> "list", items |-> items], body |-> b, empty |-> NoOpt]

Seqs1(X) == {<<a>> : a \in X}
Seqs2(X) == {<<a, b>> : a \in X, b \in X}

\* leaves: print the contested name, bind it, rebind it from itself
Leaf == {PrintC(VarE("x")), LetC("x", StrE("L")), LetC("x", VarE("x"))}
Body0 == Seqs1(Leaf) \cup Seqs2(Leaf)
Cond == VarE("c")
Ifs == {IfC(Cond, b) : b \in Body0}
List2 == <<StrE("e1"), StrE("e2")>>
LoopLeaf == Leaf \cup {PrintC(VarE("v")), PrintC(IdxE("v"))}
LoopBody == Seqs1(LoopLeaf) \cup {<<a, b>> : a \in Leaf \cup {IfC(Cond, <<LetC("x", StrE("L")), PrintC(VarE("x"))>>)}, b \in LoopLeaf}
Loops == {ForC("v", items, b) : items \in {<<>>, List2}, b \in LoopBody}
\* nested loops: helpers on the inner / outer variable, lets at both levels
Nested == {ForC("o", List2, <<ForC("v", <<StrE("i1")>>, b)>> \o t) :
             b \in {<<PrintC(IdxE("o"))>>, <<PrintC(IdxE("v"))>>, <<PrintC(VarE("o")), PrintC(IdxE("o"))>>,
                    <<LetC("x", StrE("L")), PrintC(VarE("x"))>>},
             t \in {<<>>, <<PrintC(IdxE("o"))>>, <<PrintC(VarE("x"))>>}}
\* a loop variable that shadows the param and is used after the loop
ShadowLoop == {ForC("x", List2, b) : b \in {<<PrintC(VarE("x"))>>, <<PrintC(VarE("x")), PrintC(IdxE("x"))>>}}

TopCmds == Leaf \cup Ifs \cup Loops \cup Nested \cup ShadowLoop
TopSmall == Leaf \cup {IfC(Cond, b) : b \in Seqs1(Leaf) \cup {<<LetC("x", StrE("L")), PrintC(VarE("x"))>>}}
              \cup {ForC("v", List2, b) : b \in Seqs1(LoopLeaf)} \cup ShadowLoop

Bodies == IF Size = "large"
          THEN Seqs1(TopCmds) \cup {<<a, b>> : a \in TopCmds, b \in TopCmds} \cup {<<a, b, c>> : a \in TopCmds, b \in TopSmall, c \in Leaf}
          ELSE Seqs1(TopCmds) \cup {<<a, b>> : a \in TopCmds, b \in TopSmall} \cup {<<a, b, c>> : a \in TopSmall, b \in TopSmall, c \in Leaf}

MkProg(body, cval) ==
  [bundle |-> [m |-> [params |-> <<[name |-> "x", opt |-> FALSE], [name |-> "c", opt |-> FALSE]>>,
                      body |-> <<PrintC(VarE("x")), TextC("|")>> \o body, nsa |-> "", ta |-> "false"]],
   entry |-> "m", data |-> [x |-> S("P"), c |-> B(cval)], ij |-> NoIJ, glob |-> EmptyF, plan |-> [kind |-> "none"]]

Progs == {MkProg(b, cv) : b \in Bodies, cv \in BOOLEAN}

(***************************************************************************)
(* The generator: static translation with a naming-scope stack.            *)
(* State threaded through a sequence: [js, st, n]                          *)
(*   st : Seq of functions  Soy name -> JS local name                      *)
(*   n  : the counter of makevar                                           *)
(***************************************************************************)
RECURSIVE LookupSt(_, _, _)
LookupSt(st, name, i) ==
  IF i = 0 THEN "" ELSE IF name \in DOMAIN st[i] THEN st[i][name] ELSE LookupSt(st, name, i - 1)
JsLookup(st, name) == LookupSt(st, name, Len(st))

\* a data reference: a generated local if the name is registered, else opt_data
Ref(st, name) == LET l == JsLookup(st, name) IN
                 IF l # "" THEN [j |-> "local", n |-> l] ELSE [j |-> "data", k |-> name]

TrExpr(e, st, D) ==
  CASE e.k = "var" -> Ref(st, e.name)
    [] e.k = "str" -> [j |-> "lit", s |-> e.v]
    [] e.k = "fn" ->   \* index($v)
         IF "helper_innermost" \in D
         THEN [j |-> "local", n |-> JsLookup(st, "__index")]
         ELSE [j |-> "local", n |-> JsLookup(st, e.args[1].name \o "__index")]
    [] e.k = "list" -> [j |-> "list", items |-> [i \in 1..Len(e.items) |-> [j |-> "lit", s |-> e.items[i].v]]]
    [] OTHER -> [j |-> "lit", s |-> "?"]

JsBind(st, name, js) == [st EXCEPT ![Len(st)] = (name :> js) @@ @]

RECURSIVE TrSeq(_, _, _, _, _), TrCmd(_, _, _, _)
TrSeq(cs, i, st, n, D) ==
  IF i > Len(cs) THEN [js |-> <<>>, st |-> st, n |-> n]
  ELSE LET r == TrCmd(cs[i], st, n, D)
           rest == TrSeq(cs, i + 1, r.st, r.n, D) IN
       [js |-> r.js \o rest.js, st |-> rest.st, n |-> rest.n]

\* a block body: its own naming scope in the reference design
TrBlock(body, st, n, D) ==
  IF "block_no_scope" \in D THEN TrSeq(body, 1, st, n, D)
  ELSE LET r == TrSeq(body, 1, Append(st, EmptyF), n, D) IN
       [js |-> r.js, st |-> SubSeq(r.st, 1, Len(st)), n |-> r.n]

TrCmd(c, st, n, D) ==
  CASE c.k = "text" -> [js |-> <<[j |-> "out", v |-> [j |-> "lit", s |-> c.s]]>>, st |-> st, n |-> n]
    [] c.k = "print" -> [js |-> <<[j |-> "out", v |-> TrExpr(c.e, st, D)]>>, st |-> st, n |-> n]
    [] c.k = "letv" ->
         LET name == c.name \o ToString(n + 1)
             st2 == JsBind(st, c.name, name)
             val == IF "let_name_first" \in D THEN TrExpr(c.e, st2, D) ELSE TrExpr(c.e, st, D) IN
         [js |-> <<[j |-> "assign", n |-> name, v |-> val]>>, st |-> st2, n |-> n + 1]
    [] c.k = "if" ->
         LET r == TrBlock(c.brs[1].body, st, n, D) IN
         [js |-> <<[j |-> "if", c |-> TrExpr(c.brs[1].c, st, D), body |-> r.js]>>, st |-> r.st, n |-> r.n]
    [] c.k = "foreach" ->
         LET k == ToString(n + 1)
             item == c.var \o k
             idx == c.var \o "Index" \o k
             frame == (c.var :> item) @@ ("__index" :> idx) @@ ((c.var \o "__index") :> idx)
             r == TrSeq(c.body, 1, Append(st, frame), n + 1, D) IN
         [js |-> <<[j |-> "for", list |-> TrExpr(c.e, st, D), item |-> item, idx |-> idx, body |-> r.js]>>,
          st |-> IF "loop_no_pop" \in D THEN r.st ELSE SubSeq(r.st, 1, Len(st)), n |-> r.n]
    [] OTHER -> [js |-> <<>>, st |-> st, n |-> n]

\* visitTemplate pushes one scope for the template
Translate(p, D) == TrSeq(p.bundle[p.entry].body, 1, <<EmptyF>>, 0, D).js

(***************************************************************************)
(* JavaScript execution of the translated function.  locals: name -> value *)
(* (absent = declared by hoisting but never assigned = undefined).         *)
(***************************************************************************)
JsUndef == [t |-> "undef"]

JsVal(v, locals, data) ==
  CASE v.j = "lit" -> S(v.s)
    [] v.j = "local" -> IF v.n \in DOMAIN locals THEN locals[v.n] ELSE JsUndef
    [] v.j = "data" -> IF v.k \in DOMAIN data THEN data[v.k] ELSE JsUndef
    [] v.j = "list" -> L([i \in 1..Len(v.items) |-> S(v.items[i].s)])
    [] OTHER -> JsUndef

JsText(v) == IF v.t = "undef" THEN "undefined" ELSE ToText(v)

RECURSIVE RunSeq(_, _, _, _, _), RunFor(_, _, _, _, _, _)
\* returns [locals, out]
RunSeq(js, i, locals, data, acc) ==
  IF i > Len(js) THEN [locals |-> locals, out |-> acc]
  ELSE LET s == js[i] IN
    CASE s.j = "out" -> RunSeq(js, i + 1, locals, data, acc \o JsText(JsVal(s.v, locals, data)))
      [] s.j = "assign" -> RunSeq(js, i + 1, (s.n :> JsVal(s.v, locals, data)) @@ locals, data, acc)
      [] s.j = "if" ->
           IF Truthy(JsVal(s.c, locals, data))
           THEN LET r == RunSeq(s.body, 1, locals, data, acc) IN RunSeq(js, i + 1, r.locals, data, r.out)
           ELSE RunSeq(js, i + 1, locals, data, acc)
      [] s.j = "for" ->
           LET r == RunFor(s, JsVal(s.list, locals, data).v, 1, locals, data, acc) IN
           RunSeq(js, i + 1, r.locals, data, r.out)
      [] OTHER -> RunSeq(js, i + 1, locals, data, acc)

RunFor(s, list, k, locals, data, acc) ==
  IF k > Len(list) THEN [locals |-> locals, out |-> acc]
  ELSE LET l2 == (s.item :> list[k]) @@ (s.idx :> I(k - 1)) @@ locals
           r == RunSeq(s.body, 1, l2, data, acc) IN
       RunFor(s, list, k + 1, r.locals, data, r.out)

JsOutD(p, D) == RunSeq(Translate(p, D), 1, EmptyF, p.data, "").out
JsOut(p) == JsOutD(p, JsDev)

(***************************************************************************)
(* Refinement of the reference machine.                                    *)
(***************************************************************************)
SInit == \E p \in Progs : StartOf(p)

Refines == (status = "ok") => (out = JsOut(prog))

\* the same check, printing every counterexample instead of stopping
Kind(js) == IF \E i \in 1..(Len(js) - 8) : SubSeq(js, i, i + 8) = "undefined" THEN "unassigned" ELSE "other-binding"
Collect == (status = "ok" /\ out # JsOut(prog)) =>
             PrintT(<<"CEX", Kind(JsOut(prog)), ToJson([body |-> prog.bundle.m.body, c |-> prog.data.c.v, ref |-> out, js |-> JsOut(prog)])>>)

\* every program of the family, with the JS output the model predicts
\* (used to check that the model itself matches the real generator)
Predict == (status = "ok") =>
             PrintT(<<"PRED", ToJson([body |-> prog.bundle.m.body, c |-> prog.data.c.v, ref |-> out, js |-> JsOut(prog)])>>)

(***************************************************************************)
(* One run for the harness: the reference design must refine (RefinesRef   *)
(* is a real invariant), every single deviation is evaluated on the same   *)
(* terminal state and its counterexamples are printed with its name, and   *)
(* the model "as the code is" (Pinned) prints its prediction.              *)
(***************************************************************************)
DevNames == {"block_no_scope", "let_name_first", "helper_innermost", "loop_no_pop"}
Pinned == {"block_no_scope", "let_name_first", "helper_innermost"}

RefinesRef == (status = "ok") => (out = JsOutD(prog, {}))

CollectAll ==
  (status = "ok") =>
    /\ \A d \in DevNames :
         LET js == JsOutD(prog, {d}) IN
         (out # js) => PrintT(<<"CEX", d, Kind(js), ToJson([body |-> prog.bundle.m.body, c |-> prog.data.c.v, ref |-> out, js |-> js])>>)
    /\ PrintT(<<"PRED", "pinned", "-", ToJson([body |-> prog.bundle.m.body, c |-> prog.data.c.v, ref |-> out, js |-> JsOutD(prog, Pinned)])>>)
=============================================================================
