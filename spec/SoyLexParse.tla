---------------------------- MODULE SoyLexParse ----------------------------
(***************************************************************************)
(* The scanner goroutine(s) and the recursive-descent parser of            *)
(* robfig/soy (parse/lexer.go, parse/parse.go) as communicating processes  *)
(* over UNBUFFERED (rendez-vous) channels.                                 *)
(*                                                                         *)
(*   scanner i:  LexEmit (blocks in the send) ; LexClose                   *)
(*   parser:     frames of a stack, each a loop over tokens; ParseError    *)
(*               (panic -> deferred drains -> recover -> drain);           *)
(*               ParseReturn                                               *)
(*   tree 1 = the file / the expression given to the entry point,          *)
(*   tree 2 = the nested scanner+parser of a quoted attribute expression   *)
(*            (parseQuotedExpr: data="..", value="..", {css $x, ..}).      *)
(*                                                                         *)
(* Tokens are abstracted RELATIVE TO THE FRAME THAT READS THEM:            *)
(*   cont   continues the frame's loop (possibly opening a child frame)    *)
(*   term   ends the frame normally                                        *)
(*   other  a token the frame has no arm for                               *)
(*   EOF    the scanner's last item on success                             *)
(*   Error  the scanner's last item on a lexical error                     *)
(*   Zero   what a receive on the CLOSED channel yields (type 0, pos 0)    *)
(* and carry the line they were scanned on (Zero: line 0).                 *)
(*                                                                         *)
(* Dev = {} is the reference design; each name in Dev switches one action  *)
(* to what a defective implementation does.                                *)
(***************************************************************************)
EXTENDS Naturals, Sequences, FiniteSets, TLC, SoyLexProto

CONSTANTS Dev,        \* set of deviation names
          Entries,    \* subset of {"file", "expr"}: parse.SoyFile / parse.Expr
          MaxDepth,   \* bound on the parser's frame stack
          MaxLine,    \* lines are 1..MaxLine
          KeepHist    \* keep the history of consumed tokens (needs VIEW View)

DevNames == {"switch_ignores_unknown", "expr_no_drain", "quoted_no_drain",
             "recover_no_drain", "emit_after_close", "error_uses_zero_item",
             "quoted_pos_relative", "runtime_panic_in_frame"}

Zero == [c |-> "Zero", ln |-> 0]
Trees == {1, 2}

\* The PROTOCOL of one scanner instance as the hooks of the real code show it
\* (PInit, PCanEmit/PEmit, PCanNext/PNext, PCanClose/PClose, PCanReturn) is in
\* SoyLexProto.tla; it is shared with the trace validator SoyLexParseTrace.tla.

(***************************************************************************)
(* Parser frames                                                           *)
(***************************************************************************)
Kinds == {"itemList", "switch", "case", "if", "callParams", "attrs", "print",
          "soydoc", "listlit", "funcargs", "dataref", "binop", "ternary", "quoted"}

\* ilist : itemList/textOrTag, reads a token and one token of lookahead
\* strict: a loop whose switch has an arm for everything (default: unexpected)
\* peeky : a loop that backs up and returns on the first token it has no arm for
Style(k) ==
  CASE k = "itemList" -> "ilist"
    [] k \in {"dataref", "binop"} -> "peeky"
    [] k = "quoted" -> "quoted"
    [] OTHER -> "strict"

Children(k) ==
  CASE k = "itemList"   -> {"switch", "if", "callParams", "attrs", "print", "soydoc"}
    [] k = "switch"     -> {"case", "binop"}
    [] k = "case"       -> {"binop", "itemList"}
    [] k = "if"         -> {"binop", "itemList"}
    [] k = "callParams" -> {"attrs", "binop", "itemList"}
    [] k = "attrs"      -> {"quoted"}
    [] k = "print"      -> {"binop"}
    [] k = "soydoc"     -> {}
    [] k = "listlit"    -> {"binop"}
    [] k = "funcargs"   -> {"binop"}
    [] k = "dataref"    -> {"binop"}
    [] k = "binop"      -> {"binop", "listlit", "funcargs", "dataref", "ternary"}
    [] k = "ternary"    -> {"binop"}
    [] k = "quoted"     -> {"binop", "listlit", "funcargs", "dataref", "ternary"}

VARIABLES
  entry,    \* "file" | "expr"
  lx,       \* [Trees -> [st, it, ln]] scanner goroutines
            \*   st: idle | run | send (blocked in the send of it) | term | closed
  stop,     \* the input is exhausted: scanners may only emit their last item
  stack,    \* parser frames [k, tr, ph, held]
  buf,      \* [Trees -> Seq(token)] tokens backed up by the parser
  lastTok,  \* [Trees -> token] the token the parser received last (token[0])
  pst,      \* run | unwind | ret_ok | ret_err | escaped
  pkind,    \* "" | "err" (parse error value) | "rt" (runtime.Error)
  drain,    \* 0 or the tree whose scanner is being drained
  after,    \* what follows the drain: "" | "pop" | "unwind" | "ret_ok" | "ret_err"
  errLine,  \* line reported by the returned error (0 = none / not a line of the input)
  lines,    \* lines of the items the scanner of tree 1 has emitted
  proto,    \* [Trees -> protocol state]
  bad,      \* set of protocol/channel faults observed
  leaked,   \* a scanner was abandoned while it could still block
  consumed, \* class consumed by the parser in the last step, "" none
  hist      \* history (hidden by VIEW)

vars == <<entry, lx, stop, stack, buf, lastTok, pst, pkind, drain, after, errLine, lines,
          proto, bad, leaked, consumed, hist>>
View == <<entry, lx, stop, stack, buf, lastTok, pst, pkind, drain, after, errLine, lines,
          proto, bad, leaked, consumed>>

IdleLx == [st |-> "idle", it |-> Zero, ln |-> 1]
Frame(k, tr) == [k |-> k, tr |-> tr, ph |-> "tok", held |-> Zero]
H(s) == IF KeepHist THEN hist \o s ELSE hist

Init ==
  /\ entry \in Entries
  /\ lx = [i \in Trees |-> IF i = 1 THEN [IdleLx EXCEPT !.st = "run"] ELSE IdleLx]
  /\ stop = FALSE
  /\ stack = <<Frame(IF entry = "file" THEN "itemList" ELSE "binop", 1)>>
  /\ buf = [i \in Trees |-> <<>>]
  /\ lastTok = [i \in Trees |-> Zero]
  /\ pst = "run" /\ pkind = "" /\ drain = 0 /\ after = ""
  /\ errLine = 0 /\ lines = {}
  /\ proto = [i \in Trees |-> PInit]
  /\ bad = {} /\ leaked = FALSE /\ consumed = "" /\ hist = <<>>

(***************************************************************************)
(* Scanner                                                                 *)
(***************************************************************************)
\* lexExpr never emits EOF: at end of input lexInsideTag reports "unclosed tag"
LexClasses(i) ==
  LET last == IF i = 1 /\ entry = "file" THEN {"EOF", "Error"} ELSE {"Error"} IN
  IF stop THEN last ELSE {"cont", "term", "other"} \cup last

LexEmit(i) ==
  /\ \/ lx[i].st = "run"
     \/ lx[i].st = "closed" /\ "emit_after_close" \in Dev
  /\ \E c \in LexClasses(i), ln \in lx[i].ln..MaxLine :
       /\ IF lx[i].st = "closed"
          THEN /\ bad' = bad \cup {"send-on-closed-channel"}     \* panics the process
               /\ UNCHANGED <<lx, proto, lines>>
          ELSE /\ lx' = [lx EXCEPT ![i] = [st |-> "send", it |-> [c |-> c, ln |-> ln], ln |-> ln]]
               /\ proto' = [proto EXCEPT ![i] = PEmit(proto[i], c)]
               /\ bad' = IF PCanEmit(proto[i]) THEN bad ELSE bad \cup {"proto-emit"}
               /\ lines' = IF i = 1 THEN lines \cup {ln} ELSE lines
  /\ consumed' = ""
  /\ UNCHANGED <<entry, stop, stack, buf, lastTok, pst, pkind, drain, after, errLine, leaked, hist>>

LexClose(i) ==
  /\ lx[i].st = "term"
  /\ lx' = [lx EXCEPT ![i].st = "closed"]
  /\ proto' = [proto EXCEPT ![i] = PClose(proto[i])]
  /\ bad' = IF PCanClose(proto[i]) THEN bad ELSE bad \cup {"proto-close"}
  /\ consumed' = ""
  /\ UNCHANGED <<entry, stop, stack, buf, lastTok, pst, pkind, drain, after, errLine, lines, leaked, hist>>

EnvStop ==
  /\ ~stop /\ stop' = TRUE /\ consumed' = ""
  /\ UNCHANGED <<entry, lx, stack, buf, lastTok, pst, pkind, drain, after, errLine, lines, proto, bad, leaked, hist>>

(***************************************************************************)
(* Parser: reading a token                                                 *)
(***************************************************************************)
CanRead(tr) == buf[tr] # <<>> \/ lx[tr].st \in {"send", "closed"}
Peeked(tr)  == IF buf[tr] # <<>> THEN Head(buf[tr])
               ELSE IF lx[tr].st = "send" THEN lx[tr].it ELSE Zero

\* effect of next() on scanner, buffer, protocol; the caller sets the rest
ReadEffect(tr) ==
  LET t == Peeked(tr) IN
  IF buf[tr] # <<>>
  THEN /\ buf' = [buf EXCEPT ![tr] = Tail(buf[tr])]
       /\ UNCHANGED <<lx, proto, bad, lastTok>>
  ELSE /\ buf' = buf
       /\ lastTok' = [lastTok EXCEPT ![tr] = t]
       /\ lx' = IF lx[tr].st = "send"
                THEN [lx EXCEPT ![tr].st = IF t.c \in Terminal THEN "term" ELSE "run"]
                ELSE lx
       /\ proto' = [proto EXCEPT ![tr] = PNext(proto[tr], t.c)]
       /\ bad' = IF PCanNext(proto[tr], t.c) THEN bad ELSE bad \cup {"proto-next"}

\* the same but the token is pushed back afterwards (backup)
ReadBackEffect(tr) ==
  LET t == Peeked(tr) IN
  IF buf[tr] # <<>>
  THEN UNCHANGED <<buf, lx, proto, bad, lastTok>>
  ELSE /\ buf' = [buf EXCEPT ![tr] = <<t>>]
       /\ lastTok' = [lastTok EXCEPT ![tr] = t]
       /\ lx' = IF lx[tr].st = "send"
                THEN [lx EXCEPT ![tr].st = IF t.c \in Terminal THEN "term" ELSE "run"]
                ELSE lx
       /\ proto' = [proto EXCEPT ![tr] = PNext(proto[tr], t.c)]
       /\ bad' = IF PCanNext(proto[tr], t.c) THEN bad ELSE bad \cup {"proto-next"}

Top == stack[Len(stack)]
Pop == SubSeq(stack, 1, Len(stack) - 1)
SetTop(f) == [stack EXCEPT ![Len(stack)] = f]

\* line reported for an error raised in tree tr on token off
\* (errorf takes the position of the parser's current token)
ErrPos(tr, off, cur) ==
  IF tr = 2
  THEN IF "quoted_pos_relative" \in Dev THEN 0 ELSE lastTok[1].ln
  ELSE IF "error_uses_zero_item" \in Dev THEN cur.ln ELSE off.ln

\* panic(err): frames unwind, deferred drains run, recover() at the entry point
Raise(tr, off, cur, kind) ==
  /\ pst' = "unwind" /\ pkind' = kind
  /\ errLine' = ErrPos(tr, off, cur)

(***************************************************************************)
(* Parser frames                                                           *)
(***************************************************************************)
Spawn2 ==  \* lexExpr for a quoted attribute: a new scanner goroutine
  /\ leaked' = (leaked \/ lx[2].st \in {"run", "send"})

\* after a frame is popped: a quoted frame runs its deferred drain of tree 2;
\* an empty stack is the return of the entry point
PopTo(k, thenAfter) ==
  IF k = "quoted" /\ "quoted_no_drain" \notin Dev
  THEN drain' = 2 /\ after' = thenAfter
  ELSE drain' = 0 /\ after' = thenAfter

StrictStep ==
  LET f == Top  tr == f.tr  t == Peeked(tr) IN
  /\ Style(f.k) = "strict" /\ CanRead(tr)
  /\ consumed' = t.c
  /\ hist' = H(<<f.k \o ":" \o t.c>>)
  /\ ReadEffect(tr)
  /\ UNCHANGED <<entry, stop, lines>>
  /\ CASE t.c = "cont" ->
            /\ \/ stack' = stack
               \/ \E ch \in Children(f.k) :
                    /\ Len(stack) < MaxDepth
                    /\ stack' = Append(stack, Frame(ch, IF ch = "quoted" THEN 2 ELSE tr))
            /\ UNCHANGED <<pst, pkind, errLine, drain, after, leaked>>
       [] t.c = "term" ->
            /\ stack' = Pop
            /\ UNCHANGED <<pst, pkind, errLine, drain, after, leaked>>
       [] f.k = "switch" /\ "switch_ignores_unknown" \in Dev ->
            \* parseSwitch: no default arm, the token is dropped and the loop goes on
            /\ UNCHANGED <<stack, pst, pkind, errLine, drain, after, leaked>>
       [] t.c = "other" /\ "runtime_panic_in_frame" \in Dev ->
            \* e.g. a nil/zero dereference: a runtime.Error, which recover() re-panics
            /\ Raise(tr, t, lastTok'[tr], "rt")
            /\ UNCHANGED <<stack, drain, after, leaked>>
       [] OTHER ->
            /\ Raise(tr, t, lastTok'[tr], "err")
            /\ UNCHANGED <<stack, drain, after, leaked>>

\* parseExpr / parseDataRef: the first term must be a value (parseExprFirstTerm
\* calls unexpected otherwise); after it the loop backs up and returns on the
\* first token it has no arm for.
PeekyStep ==
  LET f == Top  tr == f.tr  t == Peeked(tr) IN
  /\ Style(f.k) = "peeky" /\ CanRead(tr)
  /\ consumed' = t.c
  /\ hist' = H(<<f.k \o "." \o f.ph \o ":" \o t.c>>)
  /\ UNCHANGED <<entry, stop, lines, leaked>>
  /\ IF t.c = "cont"
     THEN /\ ReadEffect(tr)
          /\ \/ stack' = SetTop([f EXCEPT !.ph = "loop"])
             \/ \E ch \in Children(f.k) :
                  /\ Len(stack) < MaxDepth
                  /\ stack' = Append(SetTop([f EXCEPT !.ph = "loop"]), Frame(ch, tr))
          /\ UNCHANGED <<drain, after, pst, pkind, errLine>>
     ELSE IF f.ph = "tok" /\ f.k = "binop"
     THEN /\ ReadEffect(tr)
          /\ Raise(tr, t, lastTok'[tr], "err")
          /\ UNCHANGED <<stack, drain, after>>
     ELSE \* no arm: backup() and return to the caller
          /\ ReadBackEffect(tr)
          /\ stack' = Pop
          /\ UNCHANGED <<drain, after, pst, pkind, errLine>>

\* itemList/textOrTag: token, then one token of lookahead, then dispatch
IListStep ==
  LET f == Top  tr == f.tr  t == Peeked(tr)  top == Len(stack) = 1 IN
  /\ Style(f.k) = "ilist" /\ CanRead(tr)
  /\ consumed' = IF f.ph = "tok" THEN t.c ELSE ""    \* the lookahead is backed up, not consumed
  /\ hist' = H(<<f.k \o "." \o f.ph \o ":" \o t.c>>)
  /\ UNCHANGED <<entry, stop, lines, leaked>>
  /\ IF f.ph = "tok"
     THEN /\ ReadEffect(tr)
          /\ CASE top /\ t.c = "EOF" ->      \* the until token of the file level
                    /\ stack' = Pop
                    /\ UNCHANGED <<pst, pkind, errLine, drain, after>>
               [] t.c = "Error" /\ "error_uses_zero_item" \notin Dev ->
                    \* reference design: a lexical error is reported before looking ahead
                    /\ Raise(tr, t, lastTok'[tr], "err")
                    /\ UNCHANGED <<stack, drain, after>>
               [] t.c \in {"EOF", "Zero"} /\ "error_uses_zero_item" \notin Dev ->
                    /\ Raise(tr, t, lastTok'[tr], "err")
                    /\ UNCHANGED <<stack, drain, after>>
               [] OTHER ->
                    /\ stack' = SetTop([f EXCEPT !.ph = "tok2", !.held = t])
                    /\ UNCHANGED <<pst, pkind, errLine, drain, after>>
     ELSE \* lookahead token: "{" + closing command ends the list (the caller
          \* re-reads and consumes the command); otherwise it is backed up
          LET halt == f.held.c = "cont" /\ t.c = "term" /\ ~top IN
          /\ IF halt THEN ReadEffect(tr) ELSE ReadBackEffect(tr)
          /\ CASE halt ->
                    /\ stack' = Pop
                    /\ UNCHANGED <<pst, pkind, errLine, drain, after>>
               [] f.held.c = "cont" ->
                    /\ \/ stack' = SetTop([f EXCEPT !.ph = "tok", !.held = Zero])   \* text
                       \/ \E ch \in Children(f.k) :
                            /\ Len(stack) < MaxDepth
                            /\ stack' = Append(SetTop([f EXCEPT !.ph = "tok", !.held = Zero]), Frame(ch, tr))
                    /\ UNCHANGED <<pst, pkind, errLine, drain, after>>
               [] OTHER ->
                    /\ Raise(tr, f.held, lastTok'[tr], "err")
                    /\ UNCHANGED <<stack, drain, after>>

\* parseQuotedExpr: starts the scanner of tree 2, parses an expression on it,
\* drains it (deferred) when the frame is left
QuotedStep ==
  LET f == Top  t == Peeked(2) IN
  /\ Style(f.k) = "quoted"
  /\ UNCHANGED <<entry, stop, lines>>
  /\ IF f.ph = "tok"
     THEN /\ Spawn2
          /\ consumed' = ""
          /\ lx' = [lx EXCEPT ![2] = [IdleLx EXCEPT !.st = "run"]]
          /\ proto' = [proto EXCEPT ![2] = PInit]
          /\ buf' = [buf EXCEPT ![2] = <<>>]
          /\ lastTok' = [lastTok EXCEPT ![2] = Zero]
          /\ stack' = SetTop([f EXCEPT !.ph = "first"])
          /\ hist' = H(<<"quoted:spawn">>)
          /\ UNCHANGED <<drain, after, bad, pst, pkind, errLine>>
     ELSE \* the expression (first term, then precedence climbing) on tree 2
          /\ CanRead(2)
          /\ consumed' = t.c
          /\ hist' = H(<<"quoted." \o f.ph \o ":" \o t.c>>)
          /\ UNCHANGED leaked
          /\ IF t.c = "cont"
             THEN /\ ReadEffect(2)
                  /\ \/ stack' = SetTop([f EXCEPT !.ph = "loop"])
                     \/ \E ch \in Children("binop") :
                          /\ Len(stack) < MaxDepth
                          /\ stack' = Append(SetTop([f EXCEPT !.ph = "loop"]), Frame(ch, 2))
                  /\ UNCHANGED <<drain, after, pst, pkind, errLine>>
             ELSE IF f.ph = "first"
             THEN /\ ReadEffect(2)
                  /\ Raise(2, t, lastTok'[2], "err")
                  /\ UNCHANGED <<stack, drain, after>>
             ELSE /\ ReadBackEffect(2)
                  /\ stack' = Pop
                  /\ PopTo("quoted", "")
                  /\ UNCHANGED <<pst, pkind, errLine>>

\* an unwinding panic leaves one frame per step
Unwind ==
  /\ pst = "unwind" /\ drain = 0
  /\ consumed' = ""
  /\ UNCHANGED <<entry, stop, lines, lx, proto, buf, lastTok, bad, leaked, errLine, hist>>
  /\ IF stack # <<>>
     THEN /\ stack' = Pop
          /\ PopTo(Top.k, "")
          /\ UNCHANGED <<pst, pkind>>
     ELSE \* tree.recover at the entry point
          /\ stack' = stack
          /\ IF pkind = "rt"
             THEN pst' = "escaped" /\ drain' = 0 /\ after' = "" /\ pkind' = pkind   \* re-panicked
             ELSE IF "recover_no_drain" \in Dev
                  THEN pst' = "ret_err" /\ drain' = 0 /\ after' = "" /\ pkind' = pkind
                  ELSE pst' = "unwind" /\ drain' = 1 /\ after' = "ret_err" /\ pkind' = pkind

\* for range l.items {}
DrainStep ==
  /\ drain # 0
  /\ consumed' = ""
  /\ UNCHANGED <<entry, stop, lines, stack, buf, lastTok, bad, leaked, errLine, pkind, hist>>
  /\ CASE lx[drain].st = "send" ->
            /\ lx' = [lx EXCEPT ![drain].st = IF lx[drain].it.c \in Terminal THEN "term" ELSE "run"]
            /\ UNCHANGED <<drain, after, pst, proto>>   \* drain receives without a "next" event
       [] lx[drain].st = "closed" ->
            /\ drain' = 0 /\ after' = ""
            /\ pst' = IF after \in {"ret_ok", "ret_err"} THEN after ELSE pst
            /\ UNCHANGED <<lx, proto>>
       [] OTHER -> FALSE

\* the frame stack is empty: the entry point returns
ReturnOK ==
  /\ pst = "run" /\ stack = <<>> /\ drain = 0
  /\ consumed' = ""
  /\ UNCHANGED <<entry, stop, lines, stack, buf, lastTok, bad, leaked, errLine, pkind, lx, proto, hist>>
  /\ IF entry = "expr" /\ "expr_no_drain" \notin Dev
     THEN drain' = 1 /\ after' = "ret_ok" /\ pst' = pst
     ELSE drain' = 0 /\ after' = "" /\ pst' = "ret_ok"

ParseStep ==
  \/ /\ pst = "run" /\ drain = 0 /\ stack # <<>>
     /\ (StrictStep \/ PeekyStep \/ IListStep \/ QuotedStep)
  \/ Unwind
  \/ DrainStep
  \/ ReturnOK

Returned == pst \in {"ret_ok", "ret_err", "escaped"}

Finished == Returned /\ \A i \in Trees : lx[i].st \in {"idle", "closed"}

LexStep == \E i \in Trees : LexEmit(i) \/ LexClose(i)

Done == Finished /\ UNCHANGED vars

Next == LexStep \/ ParseStep \/ EnvStop \/ Done

Spec == Init /\ [][Next]_vars /\ WF_vars(ParseStep) /\ WF_vars(LexStep)

(***************************************************************************)
(* Properties                                                              *)
(***************************************************************************)
TypeOK ==
  /\ Len(stack) <= MaxDepth
  /\ \A i \in Trees : Len(buf[i]) <= 1 /\ lx[i].st \in {"idle", "run", "send", "term", "closed"}
  /\ pst \in {"run", "unwind", "ret_ok", "ret_err", "escaped"}

\* C18: when the entry point has returned no scanner can still block:
\* each is closed, or has delivered its last item and is about to close.
NoLeak ==
  Returned => /\ ~leaked
              /\ \A i \in Trees : lx[i].st \in {"idle", "term", "closed"}

\* the same, as the hooks see it
NoLeakProto == Returned => \A i \in Trees : lx[i].st = "idle" \/ PCanReturn(proto[i])

\* No send on a closed channel; every action of the model is allowed by the protocol
NoSendOnClosed == "send-on-closed-channel" \notin bad
ProtoRefined == bad \subseteq {"send-on-closed-channel"}

\* C05: a runtime.Error is re-panicked by recover(): it must not arise
NoPanicEscapes == pst # "escaped"

\* C05: a frame that reads EOF, Error or the zero item leaves (error or return)
\* or moves on to another phase; it never stays where it is.
ParserProgress ==
  [][consumed' \in {"EOF", "Error", "Zero"} =>
       \/ pst' # "run" \/ Len(stack') < Len(stack)
       \/ (stack' # <<>> /\ Len(stack') = Len(stack) /\ stack'[Len(stack')].ph # Top.ph)]_vars

\* C19: the line of a returned error is the line of an item of the input
PosInInput == pst = "ret_err" => errLine \in lines

\* C05/C18 liveness: once the input is exhausted the parse returns and every
\* scanner goroutine exits.
Terminates == stop ~> Finished
=============================================================================
