------------------------- MODULE SoyLexParseTrace -------------------------
(***************************************************************************)
(* Trace validation (M3) for C05 / C18: every line of the recorded NDJSON  *)
(* file is ONE call of a parse entry point of the real code,               *)
(*   [id |-> n, ev |-> << [e |-> event, x |-> scanner index, c |-> class] >>]*)
(* with the hook events of all scanner goroutines it started (the file's   *)
(* scanner is 1, nested quoted-expression scanners 2, 3, .. in order of    *)
(* first appearance) merged in the order the hooks were called.  A line is *)
(* accepted iff the event sequence is a behaviour of the channel protocol  *)
(* of SoyLexProto (the protocol SoyLexParse is checked to refine):         *)
(*   - a next event receives the oldest unreceived emitted item;           *)
(*   - the zero item is received only after close, at most ZeroBound times; *)
(*   - nothing is scanned or emitted after the last item (EOF/Error);      *)
(*   - close only after the last item;                                     *)
(*   - at return every scanner is closed or has had its last item received  *)
(*     (C18 at protocol level).                                            *)
(* TraceReset: the protocol state is fresh for every line, so thousands of  *)
(* parses are validated in one JVM; one TLC state per line.  Rejected lines *)
(* are printed as <<"BAD", line, id, event index, rule>>.                   *)
(***************************************************************************)
EXTENDS SoyLexProto, TLC, Json

\* Strict = TRUE: the rendez-vous protocol of SoyLexProto as it stands (Skew,
\* inference of a drain, the return rule).  Strict = FALSE is used when the
\* build under test is observed to be out of step with that protocol although
\* it leaks nothing (e.g. a buffered token channel): only the rules that do
\* not depend on how far the scanner runs ahead are checked - the k-th next of
\* a scanner receives its k-th emitted item, the zero item only after close,
\* nothing scanned or emitted after the last item, close only after the last
\* item.  (The cfg then also sets Skew to a huge number.)  Whether every
\* started scanner reaches its close event is then checked by the harness on
\* the hook events after the settle time, not at the return event.
CONSTANT Strict

Trace == ndJsonDeserialize("lexparse_trace.ndjson")

VARIABLES l, nbad

\* state of the fold over one line: protocol states of its scanners and the
\* first rejected event
S0 == [p |-> <<>>, badAt |-> 0, rule |-> ""]

Reject(s, i, r) == IF s.badAt = 0 THEN [s EXCEPT !.badAt = i, !.rule = r] ELSE s

Ev(s, i, ev) ==
  IF s.badAt # 0 THEN s
  ELSE IF ev.e = "return"
       THEN IF ~Strict \/ \A x \in 1..Len(s.p) : PCanReturn(s.p[x]) THEN s
            ELSE Reject(s, i, "return-before-scanner-exit")
  ELSE IF ev.x = Len(s.p) + 1 /\ ev.e = "step"          \* a new scanner goroutine
       THEN [s EXCEPT !.p = Append(s.p, PInit)]
  ELSE IF ev.x < 1 \/ ev.x > Len(s.p) THEN Reject(s, i, "unknown-scanner")
  ELSE LET q == s.p[ev.x] IN
       CASE ev.e = "step"  -> IF PCanStep(q) THEN s ELSE Reject(s, i, "step-after-last-item")
         [] ev.e = "emit"  -> IF PCanEmit(q) THEN [s EXCEPT !.p[ev.x] = PEmit(q, ev.c)]
                              ELSE Reject(s, i, "emit-after-last-item")
         [] ev.e = "next"  -> IF PCanNext(q, ev.c) THEN [s EXCEPT !.p[ev.x] = PNext(q, ev.c)]
                              ELSE Reject(s, i, IF ev.c = "Zero" THEN "zero-item-not-allowed" ELSE "next-does-not-match-emit")
         [] ev.e = "close" -> IF PCanClose(q) THEN [s EXCEPT !.p[ev.x] = PClose(q)]
                              ELSE Reject(s, i, "close-before-last-item")
         [] OTHER -> Reject(s, i, "unknown-event")

RECURSIVE Fold(_, _, _)
Fold(evs, i, s) == IF i > Len(evs) THEN s ELSE Fold(evs, i + 1, Ev(s, i, evs[i]))

Init == l = 1 /\ nbad = 0

Step ==   \* TraceReset: each line starts from S0
  /\ l <= Len(Trace)
  /\ l' = l + 1
  /\ LET r == Trace[l]  s == Fold(r.ev, 1, S0) IN
     IF s.badAt = 0 THEN nbad' = nbad
     ELSE nbad' = nbad + 1 /\ PrintT(<<"BAD", l, r.id, s.badAt, s.rule>>)

Done == l = Len(Trace) + 1 /\ UNCHANGED <<l, nbad>>
Next == Step \/ Done

Report == l = Len(Trace) + 1 => PrintT(<<"DONE", l - 1, nbad>>)
TraceAccepted == TLCGet("stats").diameter - 1 = Len(Trace)
=============================================================================
